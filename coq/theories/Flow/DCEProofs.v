(* Flow/DCEProofs.v -- proofs of property C14 about the model Flow/DCE.v against Flow/DCESpec.v. *)
From Coq Require Import ZArith List Bool NArith Arith Lia.
From Falcon Require Import Base.Res IL.Const IL.Expr IL.Func IL.Loc IL.LocProofs Exec.Sem
     Flow.FixedPoint Flow.FpIL Flow.FixedPointProofs Flow.RD Flow.UseDef Flow.RDSpec Flow.RDProofs
     Flow.DCE Flow.DCESpec.
Import ListNotations.
Local Open Scope Z_scope.

(* ------------------------------------------------------------------ shape *)
Lemma instr_shape_refl a : instr_shape a a.
Proof. unfold instr_shape. auto. Qed.
Lemma instr_shape_trans a b c : instr_shape a b -> instr_shape b c -> instr_shape a c.
Proof.
  unfold instr_shape. intros (H1 & H2 & H3) (K1 & K2 & K3). repeat split; try congruence.
  destruct K3 as [K3|K3]; [rewrite K3; exact H3|right; exact K3].
Qed.
Lemma Forall2_refl {A} (R : A -> A -> Prop) : (forall a, R a a) -> forall l, Forall2 R l l.
Proof. intros H l. induction l; constructor; auto. Qed.
Lemma Forall2_trans {A} (R : A -> A -> Prop) : (forall a b c, R a b -> R b c -> R a c) ->
  forall l1 l2 l3, Forall2 R l1 l2 -> Forall2 R l2 l3 -> Forall2 R l1 l3.
Proof.
  intros H l1 l2 l3 H12. revert l3. induction H12 as [|a b l1 l2 Hab H12 IH]; intros l3 H23; inversion H23; subst; constructor; eauto.
Qed.
Lemma block_shape_refl a : block_shape a a.
Proof. unfold block_shape. repeat split; auto. apply Forall2_refl, instr_shape_refl. Qed.
Lemma block_shape_trans a b c : block_shape a b -> block_shape b c -> block_shape a c.
Proof.
  unfold block_shape. intros (H1 & H2 & H3 & H4) (K1 & K2 & K3 & K4). repeat split; try congruence.
  eapply Forall2_trans; [apply instr_shape_trans|exact H4|exact K4].
Qed.
Lemma func_shape_refl f : func_shape f f.
Proof. unfold func_shape. repeat split; auto. apply Forall2_refl, block_shape_refl. Qed.
Lemma func_shape_trans f g h : func_shape f g -> func_shape g h -> func_shape f h.
Proof.
  unfold func_shape. intros (A1 & A2 & A3 & A4 & A5 & A6 & A7) (B1 & B2 & B3 & B4 & B5 & B6 & B7).
  repeat split; try congruence. eapply Forall2_trans; [apply block_shape_trans|exact A7|exact B7].
Qed.

Lemma nop_instr_shape is_ i is' : nop_instr is_ i = Some is' -> Forall2 instr_shape is_ is'.
Proof.
  revert is'. induction is_ as [|x t IH]; intros is'; cbn [nop_instr]; [discriminate|].
  destruct (i_index x =? i).
  - intros [= <-]. constructor; [|apply Forall2_refl, instr_shape_refl].
    unfold instr_shape. cbn. auto.
  - destruct (nop_instr t i) as [t'|]; [|discriminate]. intros [= <-]. constructor; [apply instr_shape_refl|auto].
Qed.
Lemma nop_block_shape bs bi i bs' : nop_block bs bi i = Ok bs' -> Forall2 block_shape bs bs'.
Proof.
  revert bs'. induction bs as [|b t IH]; intros bs'; cbn [nop_block]; [discriminate|].
  destruct (b_index b =? bi).
  - destruct (nop_instr (b_instrs b) i) as [is'|] eqn:E; [|discriminate]. intros [= <-].
    constructor; [|apply Forall2_refl, block_shape_refl]. unfold block_shape. cbn.
    repeat split; auto. eapply nop_instr_shape; exact E.
  - destruct (nop_block t bi i) as [t'| |]; cbn [bind]; try discriminate. intros [= <-].
    constructor; [apply block_shape_refl|auto].
Qed.
Lemma nop_at_shape g k g' : nop_at g k = Ok g' -> func_shape g g'.
Proof.
  unfold nop_at. destruct k as [bi i|h t|b]; try discriminate.
  destruct (nop_block (f_blocks g) bi i) as [bs| |] eqn:E; cbn [bind]; try discriminate. intros [= <-].
  unfold func_shape. cbn. repeat split; auto. eapply nop_block_shape; exact E.
Qed.
Lemma nop_fold_shape f ks : forall g0 g, func_shape f g0 ->
  fold_left (fun acc k => g <- acc ;; nop_at g k) ks (Ok g0) = Ok g -> func_shape f g.
Proof.
  induction ks as [|k ks IH]; intros g0 g H0; cbn [fold_left].
  - intros [= <-]. exact H0.
  - cbn [bind]. destruct (nop_at g0 k) as [g1| |] eqn:E.
    + apply IH. eapply func_shape_trans; [exact H0|eapply nop_at_shape; exact E].
    + intros Hf. exfalso. clear -Hf. induction ks as [|k' ks IHk]; cbn in Hf; [discriminate|auto].
    + intros Hf. exfalso. clear -Hf. induction ks as [|k' ks IHk]; cbn in Hf; [discriminate|auto].
Qed.

(* C14, first sentence: blocks, edges, indices, addresses, phi nodes unchanged; every operation is the
   input's or `nop` -- for every function, no hypothesis *)
Theorem dce_shape_max max f g : dead_code_elimination_max max f = Ok g -> func_shape f g.
Proof.
  unfold dead_code_elimination_max.
  destruct (reaching_definitions_max max f) as [m| |]; cbn [bind]; try discriminate.
  destruct (live_set f m) as [live| |]; cbn [bind]; try discriminate.
  destruct (def_use_max max f) as [du| |]; cbn [bind]; try discriminate.
  apply nop_fold_shape. apply func_shape_refl.
Qed.

(* ------------------------------------------------------------------ the output function, location by location *)
Definition nopify (x : instruction) : instruction := mkinstr (i_index x) (ONop None) (i_addr x).

Lemma nop_instr_find is_ i is' : nop_instr is_ i = Some is' ->
  forall j, find_instr is' j = if j =? i then option_map nopify (find_instr is_ j) else find_instr is_ j.
Proof.
  revert is'. induction is_ as [|x t IH]; intros is'; cbn [nop_instr]; [discriminate|].
  destruct (i_index x =? i) eqn:Ex.
  - intros [= <-] j. apply Z.eqb_eq in Ex. subst i. cbn [find_instr i_index]. destruct (j =? i_index x) eqn:Ej.
    + apply Z.eqb_eq in Ej. subst j. rewrite Z.eqb_refl. reflexivity.
    + destruct (i_index x =? j) eqn:E2; [|reflexivity]. apply Z.eqb_eq in E2. apply Z.eqb_neq in Ej. congruence.
  - destruct (nop_instr t i) as [t'|] eqn:Et; [|discriminate]. intros [= <-] j. cbn [find_instr].
    rewrite (IH t' eq_refl j). destruct (j =? i) eqn:Ej.
    + apply Z.eqb_eq in Ej. subst j. rewrite Ex. reflexivity.
    + destruct (i_index x =? j); reflexivity.
Qed.

Definition instr_in (bs : list block) (b j : Z) : option instruction :=
  match find_block bs b with Some blk => find_instr (b_instrs blk) j | None => None end.

Lemma nop_block_find bs bi i bs' : nop_block bs bi i = Ok bs' ->
  forall b j, instr_in bs' b j = if (b =? bi) && (j =? i) then option_map nopify (instr_in bs b j) else instr_in bs b j.
Proof.
  revert bs'. induction bs as [|blk t IH]; intros bs'; cbn [nop_block]; [discriminate|].
  destruct (b_index blk =? bi) eqn:Eb.
  - destruct (nop_instr (b_instrs blk) i) as [is'|] eqn:Ei; [|discriminate]. intros [= <-] b j.
    apply Z.eqb_eq in Eb. unfold instr_in. cbn [find_block b_index]. destruct (b_index blk =? b) eqn:E2.
    + apply Z.eqb_eq in E2. replace (b =? bi) with true by (symmetry; apply Z.eqb_eq; congruence).
      cbn [andb b_instrs]. apply (nop_instr_find _ _ _ Ei j).
    + assert (Hn : (b =? bi) = false) by (apply Z.eqb_neq; apply Z.eqb_neq in E2; congruence).
      rewrite Hn. reflexivity.
  - destruct (nop_block t bi i) as [t'| |] eqn:Et; cbn [bind]; try discriminate. intros [= <-] b j.
    unfold instr_in. cbn [find_block]. destruct (b_index blk =? b) eqn:E2.
    + apply Z.eqb_eq in E2. subst b. rewrite Eb. reflexivity.
    + apply (IH t' eq_refl b j).
Qed.

Lemma loc_instruction_instr_in f b j : loc_instruction f (LInstr b j) = instr_in (f_blocks f) b j.
Proof. reflexivity. Qed.

Lemma nop_at_find g k g' : nop_at g k = Ok g' ->
  forall l, loc_instruction g' l = if floc_eqb l k then option_map nopify (loc_instruction g l) else loc_instruction g l.
Proof.
  unfold nop_at. destruct k as [bi i|h t|b]; try discriminate.
  destruct (nop_block (f_blocks g) bi i) as [bs| |] eqn:E; cbn [bind]; try discriminate. intros [= <-] l.
  destruct l as [b j|h t|b]; cbn [floc_eqb]; try reflexivity.
  rewrite !loc_instruction_instr_in. cbn [f_blocks f_cfg g_blocks]. apply (nop_block_find _ _ _ _ E b j).
Qed.

Lemma nopify_idem o : option_map nopify (option_map nopify o) = option_map nopify o.
Proof. destruct o; reflexivity. Qed.

Lemma nop_fold_find ks : forall g0 g,
  fold_left (fun acc k => g <- acc ;; nop_at g k) ks (Ok g0) = Ok g ->
  forall l, loc_instruction g l =
            if existsb (floc_eqb l) ks then option_map nopify (loc_instruction g0 l) else loc_instruction g0 l.
Proof.
  induction ks as [|k ks IH]; intros g0 g; cbn [fold_left existsb].
  - intros [= <-] l. reflexivity.
  - cbn [bind]. destruct (nop_at g0 k) as [g1| |] eqn:E.
    + intros Hf l. rewrite (IH g1 g Hf l), (nop_at_find g0 k g1 E l).
      destruct (floc_eqb l k); cbn [orb]; [|reflexivity].
      destruct (existsb (floc_eqb l) ks); [apply nopify_idem|reflexivity].
    + intros Hf. exfalso. clear -Hf. induction ks as [|k' ks IHk]; cbn in Hf; [discriminate|auto].
    + intros Hf. exfalso. clear -Hf. induction ks as [|k' ks IHk]; cbn in Hf; [discriminate|auto].
Qed.

(* ------------------------------------------------------------------ semantics: environments, denotation *)
Lemma skey_eqb_eq a b : skey_eqb a b = true <-> a = b.
Proof.
  destruct a as [n s], b as [n' s']. unfold skey_eqb. cbn [fst snd].
  rewrite andb_true_iff, N.eqb_eq, optN_eqb_eq. split; [intros [-> ->]; reflexivity|intros [= -> ->]; auto].
Qed.
Lemma skey_eqb_refl a : skey_eqb a a = true.
Proof. apply skey_eqb_eq. reflexivity. Qed.

Lemma env_get_set en k v k' : env_get (env_set en k v) k' = if skey_eqb k k' then Some v else env_get en k'.
Proof.
  induction en as [|[k0 v0] t IH]; cbn [env_set env_get]; [reflexivity|].
  destruct (skey_eqb k0 k) eqn:E0; cbn [env_get].
  - apply skey_eqb_eq in E0. subst k0. destruct (skey_eqb k k'); reflexivity.
  - rewrite IH. destruct (skey_eqb k0 k') eqn:E1; [|reflexivity].
    apply skey_eqb_eq in E1. subst k0. destruct (skey_eqb k k') eqn:E2; [|reflexivity].
    apply skey_eqb_eq in E2. subst k'. rewrite skey_eqb_refl in E0. discriminate.
Qed.

Lemma den_ext a b e :
  (forall y, In y (scalars e) -> env_get a (skey_of y) = env_get b (skey_of y)) -> den a e = den b e.
Proof.
  induction e as [s|c|o l IHl r IHr|o bits x IHx|c IHc t IHt e IHe]; intros H; cbn [den].
  - rewrite (H s) by (left; reflexivity). reflexivity.
  - reflexivity.
  - rewrite IHl, IHr; [reflexivity| |]; intros y Hy; apply H; cbn [scalars]; apply in_or_app; auto.
  - rewrite IHx; [reflexivity|exact H].
  - rewrite IHc, IHt, IHe; [reflexivity| | |]; intros y Hy; apply H; cbn [scalars]; apply in_or_app; auto.
    + right. apply in_or_app. auto.
    + right. apply in_or_app. auto.
Qed.

(* ------------------------------------------------------------------ control structure is shared by shape-related functions *)
Section Shape.
  Variables f g : func.
  Hypothesis HS : func_shape f g.

  Let Hedges : g_edges (f_cfg g) = g_edges (f_cfg f). Proof. apply HS. Qed.
  Let Hblocks : Forall2 block_shape (f_blocks f) (f_blocks g). Proof. apply HS. Qed.

  Lemma find_block_shape2 bs bs' i : Forall2 block_shape bs bs' ->
    match find_block bs i, find_block bs' i with
    | Some b, Some b' => block_shape b b'
    | None, None => True
    | _, _ => False
    end.
  Proof.
    induction 1 as [|b b' t t' Hb Ht IH]; cbn [find_block]; [exact I|].
    destruct Hb as (H1 & H2 & H3 & H4). rewrite H1. destruct (b_index b =? i); [|exact IH].
    unfold block_shape. auto.
  Qed.

  Lemma has_block_shape i : has_block (f_cfg g) i = has_block (f_cfg f) i.
  Proof.
    unfold has_block. pose proof (find_block_shape2 _ _ i Hblocks) as H. unfold f_blocks in H.
    destruct (find_block (g_blocks (f_cfg f)) i), (find_block (g_blocks (f_cfg g)) i); tauto.
  Qed.
  Lemma edges_out_shape i : cfg_edges_out (f_cfg g) i = cfg_edges_out (f_cfg f) i.
  Proof. unfold cfg_edges_out. rewrite has_block_shape, Hedges. reflexivity. Qed.

  Lemma fwd_scan_shape bi is_ is' idx : Forall2 instr_shape is_ is' ->
    instr_forward_scan g bi is' idx = instr_forward_scan f bi is_ idx.
  Proof.
    induction 1 as [|x x' t t' Hx Ht IH]; cbn [instr_forward_scan]; [reflexivity|].
    destruct Hx as (H1 & _ & _). rewrite H1. destruct (i_index x =? idx); [|exact IH].
    destruct Ht as [|y y' t2 t2' Hy _]; [rewrite edges_out_shape; reflexivity|].
    destruct Hy as (K1 & _ & _). rewrite K1. reflexivity.
  Qed.

  Lemma first_loc_shape b b' : block_shape b b' -> block_first_loc b' = block_first_loc b.
  Proof.
    intros (H1 & _ & _ & H4). unfold block_first_loc. rewrite H1.
    destruct H4 as [|x x' t t' Hx _]; [reflexivity|]. destruct Hx as (K1 & _ & _). rewrite K1. reflexivity.
  Qed.

  Lemma forward_shape l : forward g l = forward f l.
  Proof.
    destruct l as [bi ii|h t|bi]; cbn [forward].
    - pose proof (find_block_shape2 _ _ bi Hblocks) as H.
      destruct (find_block (f_blocks f) bi) as [b|], (find_block (f_blocks g) bi) as [b'|]; try tauto.
      apply fwd_scan_shape. apply H.
    - unfold f_block, cfg_block. pose proof (find_block_shape2 _ _ t Hblocks) as H. unfold f_blocks in H.
      destruct (find_block (g_blocks (f_cfg f)) t) as [b|], (find_block (g_blocks (f_cfg g)) t) as [b'|]; try tauto.
      cbn [bind]. rewrite (first_loc_shape b b' H). reflexivity.
    - rewrite edges_out_shape. reflexivity.
  Qed.

  Lemma loc_edge_shape l : loc_edge g l = loc_edge f l.
  Proof. destruct l; cbn [loc_edge]; try reflexivity. unfold f_edges. rewrite Hedges. reflexivity. Qed.

  Lemma from_function_shape : from_function g = from_function f.
  Proof.
    unfold from_function. destruct HS as (_ & _ & _ & _ & He & _ & _). rewrite He.
    destruct (g_entry (f_cfg f)) as [e|]; [|reflexivity].
    unfold f_block, cfg_block. pose proof (find_block_shape2 _ _ e Hblocks) as H. unfold f_blocks in H.
    destruct (find_block (g_blocks (f_cfg f)) e) as [b|], (find_block (g_blocks (f_cfg g)) e) as [b'|]; try tauto.
    cbn [bind]. rewrite (first_loc_shape b b' H). reflexivity.
  Qed.

  Lemma edge_enabled_shape en l : edge_enabled g en l = edge_enabled f en l.
  Proof. unfold edge_enabled. rewrite loc_edge_shape. reflexivity. Qed.
  Lemma enabled_locs_shape en ls : enabled_locs g en ls = enabled_locs f en ls.
  Proof. induction ls as [|l t IH]; cbn [enabled_locs]; [reflexivity|]. rewrite edge_enabled_shape, IH. reflexivity. Qed.
End Shape.

(* ------------------------------------------------------------------ semantics: one operation, guards *)
Definition env_step (o : operation) (a a1 b b1 : senv) : Prop :=
  match o with
  | OAssign d _ | OLoad d _ => exists v, a1 = env_set a (skey_of d) v /\ b1 = env_set b (skey_of d) v
  | _ => a1 = a /\ b1 = b
  end.

(* the same operation executed in two states that agree on its reads and on memory *)
Lemma exec_op_cong st st' o :
  st_mem st = st_mem st' ->
  (forall y, In y (op_reads_list o) -> env_get (st_env st) (skey_of y) = env_get (st_env st') (skey_of y)) ->
  match exec_op st o, exec_op st' o with
  | Ok (s1, ev), Ok (s1', ev') => ev = ev' /\ st_mem s1 = st_mem s1' /\ env_step o (st_env st) (st_env s1) (st_env st') (st_env s1')
  | Err e, Err e' => e = e'
  | Panic, Panic => True
  | _, _ => False
  end.
Proof.
  intros Hm Hr. destruct o as [d src|ix src|d ix|t|i|p]; cbn [exec_op op_reads_list env_step] in *.
  - rewrite (den_ext (st_env st) (st_env st') src Hr). destruct (den (st_env st') src) as [v| |]; cbn [bind]; auto.
    repeat split; auto. exists v. auto.
  - rewrite (den_ext (st_env st) (st_env st') src), (den_ext (st_env st) (st_env st') ix);
      try (intros y Hy; apply Hr; apply in_or_app; auto).
    destruct (den (st_env st') src) as [v| |]; cbn [bind]; auto.
    destruct (den (st_env st') ix) as [iv| |]; cbn [bind]; auto.
    destruct (addr_of iv) as [a| |]; cbn [bind]; auto. rewrite Hm.
    destruct (mem_store (st_mem st') a v) as [m| |]; cbn [bind]; auto.
  - rewrite (den_ext (st_env st) (st_env st') ix Hr). destruct (den (st_env st') ix) as [iv| |]; cbn [bind]; auto.
    destruct (addr_of iv) as [a| |]; cbn [bind]; auto. rewrite Hm.
    destruct (mem_load (st_mem st') a (sbits d)) as [v| |]; cbn [bind]; auto.
    repeat split; auto. exists v. auto.
  - rewrite (den_ext (st_env st) (st_env st') t Hr). destruct (den (st_env st') t) as [tv| |]; cbn [bind]; auto.
    destruct (addr_of tv) as [a| |]; cbn [bind]; auto.
  - reflexivity.
  - auto.
Qed.

(* an assignment or load only touches its destination *)
Lemma exec_op_def st o d s1 ev :
  (match o with OAssign x _ | OLoad x _ => x = d | _ => False end) ->
  exec_op st o = Ok (s1, ev) ->
  st_mem s1 = st_mem st /\ store_of ev = None /\ (forall a, ev <> EvBranch a) /\
  exists v, st_env s1 = env_set (st_env st) (skey_of d) v.
Proof.
  destruct o as [x src|ix src|x ix|t|i|p]; try tauto; intros ->; cbn [exec_op].
  - destruct (den (st_env st) src) as [v| |]; cbn [bind]; try discriminate. intros [= <- <-]. cbn.
    repeat split; try discriminate. eauto.
  - destruct (den (st_env st) ix) as [iv| |]; cbn [bind]; try discriminate.
    destruct (addr_of iv) as [a| |]; cbn [bind]; try discriminate.
    destruct (mem_load (st_mem st) a (sbits d)) as [v| |]; cbn [bind]; try discriminate. intros [= <- <-]. cbn.
    repeat split; try discriminate. eauto.
Qed.

Lemma edge_enabled_cong f a b l :
  (forall y, In y (loc_reads_list f l) -> env_get a (skey_of y) = env_get b (skey_of y)) ->
  is_edge l = true -> edge_enabled f a l = edge_enabled f b l.
Proof.
  intros H He. destruct l as [? ?|h t|?]; try discriminate. unfold edge_enabled. cbn [loc_reads_list] in H.
  destruct (loc_edge f (LEdge h t)) as [e|]; [|reflexivity]. destruct (e_cond e) as [c|]; [|reflexivity].
  rewrite (den_ext a b c H). reflexivity.
Qed.
Lemma edge_enabled_nonedge f a l : is_edge l = false -> edge_enabled f a l = Ok true.
Proof. destruct l; try discriminate; reflexivity. Qed.
Lemma enabled_locs_cong f a b ls :
  (forall l y, In l ls -> is_edge l = true -> In y (loc_reads_list f l) -> env_get a (skey_of y) = env_get b (skey_of y)) ->
  enabled_locs f a ls = enabled_locs f b ls.
Proof.
  induction ls as [|l t IH]; intros H; cbn [enabled_locs]; [reflexivity|].
  rewrite IH by (intros l' y Hl; apply H; right; exact Hl).
  destruct (is_edge l) eqn:E.
  - rewrite (edge_enabled_cong f a b l); [reflexivity| |exact E]. intros y Hy. apply (H l y); auto. left; reflexivity.
  - rewrite !edge_enabled_nonedge by exact E. reflexivity.
Qed.

(* ------------------------------------------------------------------ the simulation relation *)
Section Rel.
  Variable f : func.
  Variable K : floc -> bool.          (* the eliminated locations *)

  Definition kept_key (hist : list trace_item) (k : skey) : Prop :=
    forall y d, skey_of y = k -> last_writer f hist y = Some d -> K d = false.
  Definition Rel (hist : list trace_item) (a b : senv) : Prop :=
    forall k, kept_key hist k -> env_get a k = env_get b k.

  Lemma last_writer_other hist it y :
    loc_writes f (ti_loc it) y = false -> last_writer f (hist ++ [it]) y = last_writer f hist y.
  Proof. intros H. rewrite last_writer_snoc, H, andb_false_r. reflexivity. Qed.

  Lemma Rel_nowrite hist it a b : loc_writes_list f (ti_loc it) = [] -> Rel hist a b -> Rel (hist ++ [it]) a b.
  Proof.
    intros Hw HR k Hk. apply HR. intros y d Ey Hd. apply (Hk y d Ey).
    rewrite last_writer_other; [exact Hd|]. unfold loc_writes. rewrite Hw. reflexivity.
  Qed.

  Lemma Rel_write hist it d v a b b1 :
    loc_writes_list f (ti_loc it) = [d] -> ti_executed it = true ->
    (K (ti_loc it) = false -> b1 = env_set b (skey_of d) v) ->
    (K (ti_loc it) = true -> b1 = b) ->
    Rel hist a b -> Rel (hist ++ [it]) (env_set a (skey_of d) v) b1.
  Proof.
    intros Hw Hex Hkept Hkill HR k Hk. rewrite env_get_set.
    destruct (skey_eqb (skey_of d) k) eqn:Ek.
    - apply skey_eqb_eq in Ek.
      assert (HKl : K (ti_loc it) = false).
      { apply (Hk d (ti_loc it) Ek). rewrite last_writer_snoc, Hex. unfold loc_writes. rewrite Hw. cbn.
        replace (scalar_eqb d d) with true by (symmetry; apply scalar_eqb_eq; reflexivity). reflexivity. }
      rewrite (Hkept HKl), env_get_set, <- Ek, skey_eqb_refl. reflexivity.
    - assert (Hb1 : env_get b1 k = env_get b k).
      { destruct (K (ti_loc it)) eqn:EK; [rewrite (Hkill eq_refl); reflexivity|].
        rewrite (Hkept eq_refl), env_get_set, Ek. reflexivity. }
      rewrite Hb1. apply HR. intros y e Ey He. apply (Hk y e Ey). rewrite last_writer_other; [exact He|].
      unfold loc_writes. rewrite Hw. cbn. rewrite orb_false_r.
      destruct (scalar_eqb y d) eqn:E; [|reflexivity]. apply scalar_eqb_eq in E. subst y.
      rewrite Ey, skey_eqb_refl in Ek. discriminate.
  Qed.

  Lemma Rel_agree hist a b : (forall k, kept_key hist k) -> Rel hist a b -> env_agree a b = true.
  Proof.
    intros Hall HR. unfold env_agree. apply forallb_forall. intros [k v] _. cbn [fst].
    rewrite (HR k (Hall k)). destruct (env_get b k) as [c|]; cbn; [|reflexivity].
    unfold const_eqb. rewrite !Z.eqb_refl. reflexivity.
  Qed.
End Rel.

(* ------------------------------------------------------------------ the live set contains its roots *)
Lemma add_all_In live s x : In x (add_all live s) <-> In x live \/ In x s.
Proof. apply (union_into_In live s x). Qed.

Lemma live_terminal_spec f m bs : forall live r, live_terminal f m bs live = Ok r ->
  (forall x, In x live -> In x r) /\
  (forall b, In b bs -> cfg_edges_out (f_cfg f) (b_index b) = Ok [] ->
     forall s x, rd_lookup m (block_last_loc b) = Some s -> In x s -> In x r).
Proof.
  induction bs as [|b t IH]; intros live r; cbn [live_terminal].
  - intros [= <-]. split; [auto|intros b []].
  - destruct (cfg_edges_out (f_cfg f) (b_index b)) as [[|e es]| |] eqn:Eo; try discriminate.
    + intros H. destruct (IH _ _ H) as [I1 I2]. split.
      * intros x Hx. apply I1. destruct (rd_lookup m (block_last_loc b)); [apply add_all_In; auto|exact Hx].
      * intros b' [<-|Hb'] Ho s x Hs Hx; [|eapply I2; eauto]. apply I1. rewrite Hs. apply add_all_In. auto.
    + intros H. destruct (IH _ _ H) as [I1 I2]. split; [exact I1|].
      intros b' [<-|Hb'] Ho s x Hs Hx; [congruence|eapply I2; eauto].
Qed.

Lemma live_instrs_spec f m bi is_ : forall live r, live_instrs f m bi is_ live = Ok r ->
  (forall x, In x live -> In x r) /\
  (forall i, In i is_ -> is_branch (i_op i) || is_intrinsic (i_op i) = true ->
     exists rb, reaching_before f m (LInstr bi (i_index i)) = Ok rb /\ forall x, In x rb -> In x r).
Proof.
  induction is_ as [|i t IH]; intros live r; cbn [live_instrs].
  - intros [= <-]. split; [auto|intros i []].
  - destruct (is_branch (i_op i) || is_intrinsic (i_op i)) eqn:Eb.
    + destruct (reaching_before f m (LInstr bi (i_index i))) as [rb| |] eqn:Er; cbn [bind]; try discriminate.
      intros H. destruct (IH _ _ H) as [I1 I2]. split.
      * intros x Hx. apply I1. apply add_all_In. auto.
      * intros i' [<-|Hi'] Hb'; [|apply I2; assumption]. exists rb. split; [exact Er|].
        intros x Hx. apply I1. apply add_all_In. auto.
    + intros H. destruct (IH _ _ H) as [I1 I2]. split; [exact I1|].
      intros i' [<-|Hi'] Hb'; [congruence|apply I2; assumption].
Qed.

Lemma live_blocks_spec f m bs : forall live r, live_blocks f m bs live = Ok r ->
  (forall x, In x live -> In x r) /\
  (forall b i, In b bs -> In i (b_instrs b) -> is_branch (i_op i) || is_intrinsic (i_op i) = true ->
     exists rb, reaching_before f m (LInstr (b_index b) (i_index i)) = Ok rb /\ forall x, In x rb -> In x r).
Proof.
  induction bs as [|b t IH]; intros live r; cbn [live_blocks].
  - intros [= <-]. split; [auto|intros b i []].
  - destruct (live_instrs f m (b_index b) (b_instrs b) live) as [l1| |] eqn:E1; cbn [bind]; try discriminate.
    intros H. destruct (IH _ _ H) as [I1 I2]. destruct (live_instrs_spec _ _ _ _ _ _ E1) as [J1 J2]. split.
    + intros x Hx. apply I1, J1, Hx.
    + intros b' i [<-|Hb'] Hi Hbr; [|eapply I2; eauto].
      destruct (J2 i Hi Hbr) as (rb & Hrb & Hin). exists rb. split; [exact Hrb|]. intros x Hx. apply I1, Hin, Hx.
Qed.

Lemma live_set_spec f m live : live_set f m = Ok live ->
  (forall b, In b (f_blocks f) -> cfg_edges_out (f_cfg f) (b_index b) = Ok [] ->
     forall s x, rd_lookup m (block_last_loc b) = Some s -> In x s -> In x live) /\
  (forall b i, In b (f_blocks f) -> In i (b_instrs b) -> is_branch (i_op i) || is_intrinsic (i_op i) = true ->
     exists rb, reaching_before f m (LInstr (b_index b) (i_index i)) = Ok rb /\ forall x, In x rb -> In x live).
Proof.
  unfold live_set. destruct (live_terminal f m (f_blocks f) []) as [l1| |] eqn:E1; cbn [bind]; try discriminate.
  intros H. destruct (live_terminal_spec _ _ _ _ _ E1) as [_ T2]. destruct (live_blocks_spec _ _ _ _ _ H) as [B1 B2].
  split; [|exact B2]. intros b Hb Ho s x Hs Hx. apply B1. eapply T2; eauto.
Qed.

Lemma killed_inv f live du l : killed f live du l = true ->
  candidate f l = true /\ ~ In l live /\ du_lookup du l = Some [].
Proof.
  unfold killed. rewrite !andb_true_iff. intros [[H1 H2] H3]. split; [exact H1|]. split.
  - intros Hin. apply ls_mem_In in Hin. rewrite Hin in H2. discriminate.
  - destruct (du_lookup du l) as [[|u us]|]; try discriminate. reflexivity.
Qed.

(* ------------------------------------------------------------------ where executions end *)
Lemma terminal_loc f l : cfg_inv (f_cfg f) = true -> valid_loc f l = true -> forward f l = Ok [] ->
  exists b, In b (f_blocks f) /\ l = block_last_loc b /\ cfg_edges_out (f_cfg f) (b_index b) = Ok [].
Proof.
  intros Hinv Hv Hf. destruct l as [bi ii|h t|bi].
  - destruct (valid_instr f bi ii Hv) as (b & pre & x & post & Hb & <- & <- & E).
    rewrite (forward_instr f Hinv b pre x post Hb E) in Hf. destruct post as [|y post]; [|discriminate].
    destruct (cfg_edges_out (f_cfg f) (b_index b)) as [es| |] eqn:Eo; cbn [bind] in Hf; try discriminate.
    destruct es; [|discriminate]. exists b. repeat split; auto. symmetry. apply block_last_loc_app with pre. exact E.
  - cbn [forward] in Hf. destruct (f_block f t); cbn [bind] in Hf; discriminate.
  - destruct (valid_empty f bi Hv) as (b & Hb & <- & E). rewrite (forward_empty f b Hb) in Hf.
    destruct (cfg_edges_out (f_cfg f) (b_index b)) as [es| |] eqn:Eo; cbn [bind] in Hf; try discriminate.
    destruct es; [|discriminate]. exists b. repeat split; auto. symmetry. apply block_last_loc_nil. exact E.
Qed.

Lemma def_use_fold_ok f m keys : forall du0 du',
  fold_left (fun acc l => du <- acc ;; def_use_loc f m du l) keys (Ok du0) = Ok du' ->
  forall k, In k keys -> exists us, use_site f m k = Ok us.
Proof.
  induction keys as [|l keys IH]; intros du0 du'; cbn [fold_left]; [intros _ k []|].
  cbn [bind]. destruct (def_use_loc f m du0 l) as [du1| |] eqn:E1.
  - intros Hf k [<-|Hk]; [|eapply IH; eauto].
    unfold def_use_loc in E1. destruct (use_site f m l) as [us| |]; cbn [bind] in E1; try discriminate. eauto.
  - intros Hf. exfalso. clear -Hf. induction keys as [|k' keys IHk]; cbn in Hf; [discriminate|auto].
  - intros Hf. exfalso. clear -Hf. induction keys as [|k' keys IHk]; cbn in Hf; [discriminate|auto].
Qed.

(* the scalars an execution reads and the scalars it writes name their keys consistently: two scalars
   with the same (name, ssa) key are the same scalar (same width).  Sem.v: "never happens under wf_names". *)
Definition key_consistent (f : func) : Prop :=
  forall l l' y y', loc_reads f l y = true -> loc_writes f l' y' = true -> skey_of y' = skey_of y -> y' = y.

Lemma filter_existsb K (locs : list floc) l :
  existsb (floc_eqb l) (filter K locs) = true <-> In l locs /\ K l = true.
Proof.
  rewrite existsb_exists. split.
  - intros (x & Hx & E). apply floc_eqb_eq in E. subst x. apply filter_In in Hx. exact Hx.
  - intros [H1 H2]. exists l. split; [apply filter_In; auto|apply floc_eqb_refl].
Qed.

Lemma sem_step_instr f l b i ins st s1 ev : l = LInstr b i ->
  loc_instruction f l = Some ins -> exec_op st (i_op ins) = Ok (s1, ev) -> (forall a, ev <> EvBranch a) ->
  sem_step f l st = match forward f l with Ok succs => choose f s1 ev succs | _ => Stuck EOther end.
Proof.
  intros -> Hi He Hnb. cbn [sem_step]. rewrite Hi, He. destruct ev; try reflexivity. exfalso. eapply Hnb. reflexivity.
Qed.

Lemma choose_sim f g s1 s1' ev ev' succs :
  (forall en ls, enabled_locs g en ls = enabled_locs f en ls) ->
  enabled_locs f (st_env s1) succs = enabled_locs f (st_env s1') succs ->
  match choose f s1 ev succs with
  | Sem.Next l2 _ _ => choose g s1' ev' succs = Sem.Next l2 s1' ev'
  | Exit _ _ => choose g s1' ev' succs = Exit s1' ev' /\ succs = []
  | Goto _ _ => False
  | Stuck _ => True
  end.
Proof.
  intros Hg He. unfold choose. destruct succs as [|s0 succs]; [auto|].
  rewrite Hg, <- He. destruct (enabled_locs f (st_env s1) (s0 :: succs)) as [[|a [|b r]]| |]; auto.
Qed.

(* ------------------------------------------------------------------ the simulation *)
Section Sim.
  Variable f : func.
  Hypothesis Hinv : cfg_inv (f_cfg f) = true.
  Hypothesis Hkc : key_consistent f.
  Variable max : nat.
  Variable m : rdmap.
  Variable eb : block.
  Hypothesis Heb : In eb (f_blocks f).
  Variable fuel0 : nat.
  Hypothesis Hrun :
    FixedPoint.run floc lset floc_eqb (backward f) (forward f) (rd_trans f) rd_join ls_cmp fuel0 false max 0 [] [block_first_loc eb] = Done m.
  Variable live : lset.
  Hypothesis Hlive : live_set f m = Ok live.
  Variable du : dumap.
  Hypothesis Hdu : def_use_of f m = Ok du.
  Variable g : func.
  Hypothesis Hg :
    fold_left (fun acc k => g <- acc ;; nop_at g k) (filter (killed f live du) (locations f)) (Ok f) = Ok g.
  Notation K := (killed f live du).
  Notation reachE := (reachL f (block_first_loc eb)).
  Notation intr := (is_intrinsic_at f).

  Lemma HS : func_shape f g.
  Proof. exact (nop_fold_shape f _ f g (func_shape_refl f) Hg). Qed.

  Lemma candidate_valid l : candidate f l = true -> valid_loc f l = true.
  Proof.
    destruct l as [b i|h t|b]; cbn [candidate]; try discriminate.
    cbn [loc_instruction valid_loc]. destruct (find_block (f_blocks f) b) as [blk|]; [|discriminate].
    destruct (block_instruction blk i); [reflexivity|discriminate].
  Qed.

  Lemma g_instr l :
    loc_instruction g l = if K l then option_map nopify (loc_instruction f l) else loc_instruction f l.
  Proof.
    rewrite (nop_fold_find _ f g Hg l). destruct (K l) eqn:EK.
    - replace (existsb (floc_eqb l) (filter K (locations f))) with true; [reflexivity|].
      symmetry. apply filter_existsb. split; [|exact EK].
      apply (locations_valid f l Hinv). apply candidate_valid. apply (killed_inv f live du l EK).
    - destruct (existsb (floc_eqb l) (filter K (locations f))) eqn:E; [|reflexivity].
      apply filter_existsb in E. destruct E as [_ E]. congruence.
  Qed.

  Lemma reaching_before_IN l rb : reachE l -> reaching_before f m l = Ok rb -> forall d, In d rb <-> IN f m l d.
  Proof.
    intros Hl Hrb d. pose proof (reach_valid f Hinv eb Heb l Hl) as Hv.
    unfold reaching_before in Hrb. rewrite (floc_apply_valid f l Hv) in Hrb. cbn [bind] in Hrb.
    rewrite (from_ok f Hinv eb Heb l Hl) in Hrb. cbn [bind] in Hrb. injection Hrb as <-.
    rewrite before_fold. unfold IN. split; [intros [[]|H]; exact H|auto].
  Qed.

  Lemma du_at l (LW : scalar -> option floc) x d :
    reachE l -> (forall x d, LW x = Some d -> loc_writes f d x = true) ->
    (forall x d, LW x = Some d -> IN f m l d) ->
    loc_reads f l x = true -> LW x = Some d -> In_du du d l.
  Proof.
    intros Hl HW Hpre Hx Hd.
    assert (Hk : In l (List.map fst m)).
    { apply lookup_keys. apply (proj1 (rd_solution f Hinv max m eb fuel0 Heb Hrun)). exact Hl. }
    apply (def_use_fold_spec f m _ [] du Hdu d l). right. split; [exact Hk|].
    destruct (def_use_fold_ok f m _ [] du Hdu l Hk) as [us Hus].
    destruct (use_site_covers f Hinv max m eb Heb fuel0 Hrun l us x d Hl Hus Hx (Hpre x d Hd)) as (reads & reaching & -> & Hr & Hdr).
    exists reads, reaching. split; [exact Hus|]. split; [exact Hdr|]. exists x. split; [exact Hr|].
    apply hit_of_writes. apply (HW x d Hd).
  Qed.

  Lemma read_kept l hist y : reachE l -> PreAt f m l hist -> In y (loc_reads_list f l) ->
    kept_key f K hist (skey_of y).
  Proof.
    intros Hl Hpre Hy y' d Ey Hd.
    assert (Hry : loc_reads f l y = true) by (apply sc_mem_In; exact Hy).
    assert (Hwd : loc_writes f d y' = true) by (eapply last_writer_writes; exact Hd).
    assert (y' = y) by (eapply Hkc; eassumption). subst y'.
    assert (Hin : In_du du d l).
    { eapply (du_at l (last_writer f hist)); eauto. intros z e. apply last_writer_writes. }
    destruct (K d) eqn:EK; [|reflexivity]. exfalso.
    destruct (killed_inv f live du d EK) as (_ & _ & Hnil). destruct Hin as (s & Hs & Hls).
    rewrite Hnil in Hs. injection Hs as <-. destruct Hls.
  Qed.

  Lemma reads_agree l hist a b : reachE l -> PreAt f m l hist -> Rel f K hist a b ->
    forall y, In y (loc_reads_list f l) -> env_get a (skey_of y) = env_get b (skey_of y).
  Proof. intros Hl Hpre HR y Hy. apply HR. eapply read_kept; eassumption. Qed.

  Lemma PreAt_step l hist it l' : reachE l -> PreAt f m l hist -> ti_loc it = l -> ti_executed it = true ->
    In l' (succ_of f l) -> reachE l' /\ PreAt f m l' (hist ++ [it]).
  Proof.
    intros Hl Hpre El Hex Hs. assert (Hl' : reachE l') by (eapply reach_step; eassumption).
    split; [exact Hl'|]. intros x d Hd.
    destruct (post_sound_trace f Hinv max m eb Heb fuel0 Hrun l hist it x d Hl Hpre El Hex Hd) as (s & Hs1 & Hs2).
    exists l, s. split; [|auto]. apply (converse f Hinv eb Heb l l' Hl Hl'). exact Hs.
  Qed.

  Lemma live_kept d : In d live -> K d = false.
  Proof.
    intros Hd. destruct (K d) eqn:EK; [|reflexivity]. exfalso.
    destruct (killed_inv f live du d EK) as (_ & Hn & _). contradiction.
  Qed.

  Lemma obs_pre b i ins hist : reachE (LInstr b i) -> PreAt f m (LInstr b i) hist ->
    loc_instruction f (LInstr b i) = Some ins -> is_branch (i_op ins) || is_intrinsic (i_op ins) = true ->
    forall k, kept_key f K hist k.
  Proof.
    intros Hl Hpre Hi Hbr k y d _ Hd. apply live_kept.
    cbn [loc_instruction] in Hi. destruct (find_block (f_blocks f) b) as [blk|] eqn:Eb; [|discriminate].
    apply find_block_some in Eb as [Hblk Hbi]. unfold block_instruction in Hi.
    destruct (find_instr_split _ _ _ Hi) as (pre & post & E & Hix & _).
    assert (Hin : In ins (b_instrs blk)) by (rewrite E; apply in_elt).
    destruct (proj2 (live_set_spec f m live Hlive) blk ins Hblk Hin Hbr) as (rb & Hrb & Hsub).
    rewrite Hbi, Hix in Hrb. apply Hsub. apply (reaching_before_IN _ rb Hl Hrb). apply (Hpre y d Hd).
  Qed.

  Lemma obs_exit l hist it : reachE l -> PreAt f m l hist -> ti_loc it = l -> ti_executed it = true ->
    forward f l = Ok [] -> forall k, kept_key f K (hist ++ [it]) k.
  Proof.
    intros Hl Hpre El Hex Hf k y d _ Hd. apply live_kept.
    destruct (post_sound_trace f Hinv max m eb Heb fuel0 Hrun l hist it y d Hl Hpre El Hex Hd) as (s & Hs1 & Hs2).
    destruct (terminal_loc f l Hinv (reach_valid f Hinv eb Heb l Hl) Hf) as (blk & Hblk & -> & Ho).
    eapply (proj1 (live_set_spec f m live Hlive) blk Hblk Ho s d); [exact Hs1|exact Hs2].
  Qed.

  Lemma choose_inv st ev succs :
    match choose f st ev succs with
    | Sem.Next l' st' ev' => st' = st /\ ev' = ev /\ In l' succs
    | Exit st' ev' => st' = st /\ ev' = ev /\ succs = []
    | Goto _ _ => False
    | Stuck _ => True
    end.
  Proof.
    unfold choose. destruct succs as [|s0 succs]; [auto|].
    destruct (enabled_locs f (st_env st) (s0 :: succs)) as [[|a [|b r]]| |] eqn:E; auto.
    repeat split. eapply enabled_locs_incl; [exact E|left; reflexivity].
  Qed.

  Lemma same_store_refl ev : same_store ev ev = true.
  Proof.
    unfold same_store. destruct (store_of ev) as [[a v]|]; cbn; [|reflexivity].
    unfold const_eqb. rewrite !Z.eqb_refl. reflexivity.
  Qed.

  Lemma sem_run_S fuel h l st :
    sem_run (Datatypes.S fuel) h l st =
    mkti l st (sem_step h l st) ::
      match sem_step h l st with Sem.Next l' st' _ => sem_run fuel h l' st' | _ => [] end.
  Proof. reflexivity. Qed.

  Definition SimIH (fuel : nat) : Prop :=
    forall l s s' hist, reachE l -> PreAt f m l hist -> st_mem s = st_mem s' ->
      Rel f K hist (st_env s) (st_env s') ->
      lockstep intr (sem_run fuel f l s) (sem_run fuel g l s') = true.

  (* the remainder of a step that ends with `choose` on both sides *)
  Lemma tail_sim fuel (IH : SimIH fuel) l s s' hist s1 s1' ev ev' :
    reachE l -> PreAt f m l hist -> intr l = false ->
    st_mem s1 = st_mem s1' -> same_store ev ev' = true ->
    (forall it, ti_loc it = l -> ti_executed it = true -> Rel f K (hist ++ [it]) (st_env s1) (st_env s1')) ->
    lockstep intr
      (mkti l s (choose f s1 ev (succ_of f l)) ::
         match choose f s1 ev (succ_of f l) with Sem.Next l2 st2 _ => sem_run fuel f l2 st2 | _ => [] end)
      (mkti l s' (choose g s1' ev' (succ_of f l)) ::
         match choose g s1' ev' (succ_of f l) with Sem.Next l2 st2 _ => sem_run fuel g l2 st2 | _ => [] end) = true.
  Proof.
    intros Hl Hpre Hni Hm Hss Hrel.
    pose proof (choose_inv s1 ev (succ_of f l)) as CI.
    assert (Hguards : ti_executed (mkti l s (choose f s1 ev (succ_of f l))) = true ->
              enabled_locs f (st_env s1) (succ_of f l) = enabled_locs f (st_env s1') (succ_of f l)).
    { intros Hex. apply enabled_locs_cong. intros e y He Hedge Hy.
      destruct (PreAt_step l hist (mkti l s (choose f s1 ev (succ_of f l))) e Hl Hpre eq_refl Hex He) as [Hle Hpe].
      eapply (reads_agree e _ _ _ Hle Hpe); [|exact Hy]. apply Hrel; [reflexivity|exact Hex]. }
    destruct (choose f s1 ev (succ_of f l)) as [l2 st2 ev2|a st2|st2 ev2|e] eqn:Er.
    - destruct CI as (-> & -> & Hin).
      pose proof (choose_sim f g s1 s1' ev ev' (succ_of f l) (enabled_locs_shape f g HS) (Hguards eq_refl)) as CS.
      rewrite Er in CS. rewrite CS. cbn [lockstep ti_res ti_loc]. rewrite !floc_eqb_refl, Hss. cbn [andb].
      destruct (PreAt_step l hist (mkti l s (Sem.Next l2 s1 ev)) l2 Hl Hpre eq_refl eq_refl Hin) as [Hl2 Hp2].
      apply (IH l2 s1 s1' _ Hl2 Hp2 Hm). apply Hrel; reflexivity.
    - destruct CI.
    - destruct CI as (-> & -> & Hnil).
      pose proof (choose_sim f g s1 s1' ev ev' (succ_of f l) (enabled_locs_shape f g HS) (Hguards eq_refl)) as CS.
      rewrite Er in CS. destruct CS as [CS _]. rewrite CS. cbn [lockstep ti_res ti_loc]. rewrite floc_eqb_refl, Hss. cbn [andb].
      eapply (Rel_agree f K (hist ++ [mkti l s (Exit s1 ev)])); [|apply Hrel; reflexivity].
      apply (obs_exit l hist (mkti l s (Exit s1 ev)) Hl Hpre eq_refl eq_refl). rewrite (to_ok f Hinv eb Heb l Hl), Hnil. reflexivity.
    - cbn [lockstep ti_res ti_loc]. rewrite Hni. reflexivity.
  Qed.

  Definition is_branch_ev (ev : event) : bool := match ev with EvBranch _ => true | _ => false end.

  Lemma exec_branch_inv st o s1 a : exec_op st o = Ok (s1, EvBranch a) -> is_branch o = true.
  Proof.
    destruct o as [d src|ix src|d ix|t|i|p]; cbn [exec_op is_branch]; try reflexivity; try discriminate;
      repeat (match goal with |- context [bind ?x _] => destruct x; cbn [bind] end);
      try (intros H; discriminate H).
  Qed.

  Theorem sim : forall fuel, SimIH fuel.
  Proof.
    induction fuel as [|fuel IH]; intros l s s' hist Hl Hpre Hm HR; [reflexivity|].
    rewrite !sem_run_S.
    pose proof (to_ok f Hinv eb Heb l Hl) as Hfw.
    pose proof (forward_shape f g HS l) as Hfg. rewrite Hfw in Hfg.
    destruct l as [b i|h t|b].
    - (* instruction *)
      destruct (loc_instruction f (LInstr b i)) as [ins|] eqn:Ei.
      2:{ cbn [sem_step]. rewrite Ei. cbn [lockstep ti_res ti_loc]. unfold is_intrinsic_at. rewrite Ei. reflexivity. }
      pose proof (g_instr (LInstr b i)) as Gi. rewrite Ei in Gi.
      destruct (K (LInstr b i)) eqn:EK.
      + (* eliminated: the input assigns or loads, the output does nothing *)
        cbn [option_map] in Gi.
        pose proof (proj1 (killed_inv f live du _ EK)) as Hc. unfold candidate in Hc. rewrite Ei in Hc.
        assert (Hni : intr (LInstr b i) = false).
        { unfold is_intrinsic_at. rewrite Ei. destruct (i_op ins); try discriminate; reflexivity. }
        assert (Hd : exists d, loc_writes_list f (LInstr b i) = [d] /\
                               match i_op ins with OAssign x _ | OLoad x _ => x = d | _ => False end).
        { unfold loc_writes_list. rewrite Ei. destruct (i_op ins) as [d ?| |d ?| | |]; try discriminate; exists d; auto. }
        destruct Hd as (d & Hwl & Hdst).
        assert (Eg : sem_step g (LInstr b i) s' = choose g s' EvNone (succ_of f (LInstr b i))).
        { cbn [sem_step]. rewrite Gi. cbn [nopify i_op exec_op]. rewrite Hfg. reflexivity. }
        destruct (exec_op s (i_op ins)) as [[s1 ev]| |] eqn:Ex.
        * destruct (exec_op_def s (i_op ins) d s1 ev Hdst Ex) as (Hm1 & Hst & Hnb & v & Henv).
          rewrite (sem_step_instr f _ b i ins s s1 ev eq_refl Ei Ex Hnb), Hfw, Eg.
          apply (tail_sim fuel IH _ s s' hist s1 s' ev EvNone Hl Hpre Hni); [congruence| |].
          -- unfold same_store. rewrite Hst. reflexivity.
          -- intros it El Hex. rewrite Henv. apply (Rel_write f K hist it d v (st_env s) (st_env s') (st_env s')); try assumption.
             ++ rewrite El. exact Hwl.
             ++ rewrite El. intros HK. congruence.
             ++ reflexivity.
        * cbn [sem_step]. rewrite Ei, Ex. cbn [lockstep ti_res ti_loc]. rewrite Hni. reflexivity.
        * cbn [sem_step]. rewrite Ei, Ex. cbn [lockstep ti_res ti_loc]. rewrite Hni. reflexivity.
      + (* kept: the same operation on both sides *)
        assert (Hr : forall y, In y (op_reads_list (i_op ins)) ->
                  env_get (st_env s) (skey_of y) = env_get (st_env s') (skey_of y)).
        { intros y Hy. eapply (reads_agree (LInstr b i) hist _ _ Hl Hpre HR).
          unfold loc_reads_list. rewrite Ei. exact Hy. }
        pose proof (exec_op_cong s s' (i_op ins) Hm Hr) as C.
        destruct (exec_op s (i_op ins)) as [[s1 ev]| |] eqn:Ex;
          destruct (exec_op s' (i_op ins)) as [[s1' ev']| |] eqn:Ex'; try contradiction.
        * destruct C as (<- & Hm1 & Hes).
          assert (Hnotintr : is_intrinsic (i_op ins) = false).
          { destruct (i_op ins); try reflexivity. cbn in Ex. discriminate. }
          assert (Hni : intr (LInstr b i) = false) by (unfold is_intrinsic_at; rewrite Ei; exact Hnotintr).
          destruct (is_branch_ev ev) eqn:Ebr.
          -- destruct ev; try discriminate.
             cbn [sem_step]. rewrite Ei, Gi, Ex, Ex'. cbn [lockstep ti_res ti_loc ti_before].
             rewrite floc_eqb_refl, Z.eqb_refl, andb_true_r. cbn [andb].
             apply (Rel_agree f K hist); [|exact HR].
             apply (obs_pre b i ins hist Hl Hpre Ei). rewrite (exec_branch_inv _ _ _ _ Ex). reflexivity.
          -- assert (Hnb : forall a, ev <> EvBranch a) by (intros a ->; discriminate).
             rewrite (sem_step_instr f _ b i ins s s1 ev eq_refl Ei Ex Hnb), Hfw.
             rewrite (sem_step_instr g _ b i ins s' s1' ev eq_refl Gi Ex' Hnb), Hfg.
             apply (tail_sim fuel IH _ s s' hist s1 s1' ev ev Hl Hpre Hni Hm1 (same_store_refl ev)).
             intros it El Hex. unfold env_step in Hes.
             destruct (i_op ins) as [d src|ix src|d ix|tg|ii|p] eqn:Eop.
             ++ destruct Hes as (v & -> & ->). apply (Rel_write f K hist it d v (st_env s) (st_env s') _); try assumption.
                ** rewrite El. unfold loc_writes_list. rewrite Ei, Eop. reflexivity.
                ** reflexivity.
                ** rewrite El. intros HK. congruence.
             ++ destruct Hes as [-> ->]. apply Rel_nowrite; [|exact HR].
                rewrite El. unfold loc_writes_list. rewrite Ei, Eop. reflexivity.
             ++ destruct Hes as (v & -> & ->). apply (Rel_write f K hist it d v (st_env s) (st_env s') _); try assumption.
                ** rewrite El. unfold loc_writes_list. rewrite Ei, Eop. reflexivity.
                ** reflexivity.
                ** rewrite El. intros HK. congruence.
             ++ destruct Hes as [-> ->]. apply Rel_nowrite; [|exact HR].
                rewrite El. unfold loc_writes_list. rewrite Ei, Eop. reflexivity.
             ++ discriminate.
             ++ destruct Hes as [-> ->]. apply Rel_nowrite; [|exact HR].
                rewrite El. unfold loc_writes_list. rewrite Ei, Eop. reflexivity.
        * subst e0. cbn [sem_step]. rewrite Ei, Gi, Ex, Ex'. cbn [lockstep ti_res ti_loc ti_before].
          destruct (intr (LInstr b i)) eqn:Ein; [|reflexivity].
          unfold is_intrinsic_at in Ein. rewrite Ei in Ein.
          rewrite floc_eqb_refl. cbn [andb].
          assert (Ee : e = EIntrinsic).
          { destruct (i_op ins); try discriminate. cbn in Ex. congruence. }
          subst e. rewrite andb_true_r.
          apply (Rel_agree f K hist); [|exact HR].
          apply (obs_pre b i ins hist Hl Hpre Ei). rewrite Ein. apply orb_true_r.
        * cbn [sem_step]. rewrite Ei, Ex. cbn [lockstep ti_res ti_loc].
          destruct (intr (LInstr b i)) eqn:Ein; [|reflexivity]. exfalso.
          unfold is_intrinsic_at in Ein. rewrite Ei in Ein. destruct (i_op ins); cbn in Ex; discriminate.
    - (* edge *)
      assert (Hni : intr (LEdge h t) = false) by reflexivity.
      cbn [sem_step]. rewrite Hfg, Hfw.
      destruct (succ_of f (LEdge h t)) as [|l' [|l'' r]] eqn:Es;
        try (cbn [lockstep ti_res ti_loc]; rewrite Hni; reflexivity).
      cbn [lockstep ti_res ti_loc]. rewrite !floc_eqb_refl. cbn [andb same_store store_of opt_eqb].
      destruct (PreAt_step (LEdge h t) hist (mkti (LEdge h t) s (Sem.Next l' s EvNone)) l' Hl Hpre eq_refl eq_refl) as [Hl' Hp'];
        [rewrite Es; left; reflexivity|].
      apply (IH l' s s' _ Hl' Hp' Hm). apply Rel_nowrite; [reflexivity|exact HR].
    - (* empty block *)
      assert (Hni : intr (LEmpty b) = false) by reflexivity.
      cbn [sem_step]. rewrite Hfg, Hfw.
      apply (tail_sim fuel IH _ s s' hist s s' EvNone EvNone Hl Hpre Hni Hm eq_refl).
      intros it El Hex. apply Rel_nowrite; [rewrite El; reflexivity|exact HR].
  Qed.
End Sim.

(* C14, second sentence: lock-step equivalence of input and output, all fuels, all initial states *)
Theorem dce_equiv_max max f g :
  cfg_inv (f_cfg f) = true -> key_consistent f -> dead_code_elimination_max max f = Ok g ->
  forall fuel st, runs_equiv f g fuel st = true.
Proof.
  intros Hinv Hkc Hd fuel st. unfold dead_code_elimination_max in Hd.
  destruct (reaching_definitions_max max f) as [m| |] eqn:Hrd; cbn [bind] in Hd; try discriminate.
  destruct (live_set f m) as [live| |] eqn:Hlive; cbn [bind] in Hd; try discriminate.
  unfold def_use_max in Hd. rewrite Hrd in Hd. cbn [bind] in Hd.
  destruct (def_use_of f m) as [du| |] eqn:Hdu; cbn [bind] in Hd; try discriminate.
  destruct (rd_unfold f max m Hrd) as (eb & fuel0 & Heb & Hff & Hrun).
  pose proof (HS f live du g Hd) as Hshape.
  unfold runs_equiv. rewrite (from_function_shape f g Hshape), Hff, floc_eqb_refl. cbn [andb].
  apply (sim f Hinv Hkc max m eb Heb fuel0 Hrun live Hlive du Hdu g Hd fuel (block_first_loc eb) st st []).
  - apply reach_entry.
  - intros x d Hx. discriminate.
  - reflexivity.
  - intros k _. reflexivity.
Qed.

(* an executable sufficient condition for key_consistent *)
Definition all_reads (f : func) : list scalar := flat_map (loc_reads_list f) (locations f).
Definition all_writes (f : func) : list scalar := flat_map (loc_writes_list f) (locations f).
Definition key_consistent_b (f : func) : bool :=
  forallb (fun y => forallb (fun y' => negb (skey_eqb (skey_of y') (skey_of y)) || scalar_eqb y' y) (all_writes f))
          (all_reads f).

Lemma instr_loc_valid f l i : loc_instruction f l = Some i -> valid_loc f l = true.
Proof.
  destruct l as [b k|h t|b]; cbn [loc_instruction valid_loc]; try discriminate.
  destruct (find_block (f_blocks f) b); [|discriminate]. intros ->. reflexivity.
Qed.

Lemma key_consistent_b_sound f : cfg_inv (f_cfg f) = true -> key_consistent_b f = true -> key_consistent f.
Proof.
  intros Hinv Hb l l' y y' Hr Hw Ek. unfold key_consistent_b in Hb. rewrite forallb_forall in Hb.
  assert (Hy : In y (all_reads f)).
  { unfold all_reads. apply in_flat_map. exists l. split; [|apply sc_mem_In; exact Hr].
    apply (locations_valid f l Hinv). unfold loc_reads, loc_reads_list in Hr. destruct l as [b k|h t|b].
    - destruct (loc_instruction f (LInstr b k)) eqn:E; [eapply instr_loc_valid; exact E|discriminate].
    - cbn [valid_loc]. cbn [loc_edge] in Hr. destruct (find_edge (f_edges f) h t); [reflexivity|discriminate].
    - discriminate. }
  assert (Hy' : In y' (all_writes f)).
  { unfold all_writes. apply in_flat_map. exists l'. split; [|apply sc_mem_In; exact Hw].
    apply (locations_valid f l' Hinv). destruct (loc_writes_inv f l' y' Hw) as (i & _ & Hi & _).
    eapply instr_loc_valid; exact Hi. }
  specialize (Hb y Hy). rewrite forallb_forall in Hb. specialize (Hb y' Hy').
  rewrite Ek, skey_eqb_refl in Hb. cbn in Hb. apply scalar_eqb_eq. exact Hb.
Qed.

(* ... and it is also necessary: the executable test is exactly key_consistent (no false alarm from the test) *)
Lemma key_consistent_b_complete f : key_consistent f -> key_consistent_b f = true.
Proof.
  intros Hk. unfold key_consistent_b. apply forallb_forall. intros y Hy. apply forallb_forall. intros y' Hy'.
  unfold all_reads in Hy. apply in_flat_map in Hy. destruct Hy as (l & _ & Hl).
  unfold all_writes in Hy'. apply in_flat_map in Hy'. destruct Hy' as (l' & _ & Hl').
  destruct (skey_eqb (skey_of y') (skey_of y)) eqn:E; [|reflexivity]. cbn [negb orb].
  apply skey_eqb_eq in E. apply scalar_eqb_eq.
  apply (Hk l l' y y'); [apply sc_mem_In; exact Hl|apply sc_mem_In; exact Hl'|exact E].
Qed.
