(* Flow/ConstantsProofs.v -- proofs for property C13 about the model Flow/Constants.v, against
   executions of Exec/Sem.v.  Statement vocabulary first (c13_wf, exact_solution), then proofs. *)
From Coq Require Import ZArith List Bool NArith Lia ZifyBool.
From Falcon Require Import Base.Res IL.Const IL.ConstSpec IL.Expr IL.ExprSpec IL.ConstProofs IL.ExprProofs
     IL.Func IL.Loc IL.LocProofs Exec.Sem Flow.FixedPoint Flow.FpIL Flow.FixedPointProofs
     Flow.Constants Flow.C13Check Flow.SPOProofs.
Import ListNotations.
Local Open Scope Z_scope.
Notation map := List.map (only parsing).

(* ================================================================== statement vocabulary *)

(* one width per name among the scalars of the function; sources of assignments well sorted *)
Definition names_ok (f : func) : bool :=
  let u := all_scalars f in
  forallb (fun s => forallb (fun t => implb (skey_eqb (skey_of s) (skey_of t)) (scalar_eqb s t)) u) u.
Definition srcs_wf (f : func) : bool :=
  forallb (fun b => forallb (fun i => match i_op i with
                                      | OAssign dst src => wfb src && (sbits dst =? e_bits src)
                                      | _ => true end) (b_instrs b)) (f_blocks f).
Definition c13_wf (f : func) : bool := names_ok f && srcs_wf f.

(* ================================================================== association maps *)
Lemma scalar_eqb_refl s : scalar_eqb s s = true.
Proof. apply scalar_eqb_eq. reflexivity. Qed.

Lemma cst_eqb_eq a b : cst_eqb a b = true <-> a = b.
Proof.
  destruct a as [|x|], b as [|y|]; cbn; try (split; congruence).
  rewrite const_eqb_eq. split; congruence.
Qed.

Lemma cm_get_set m k v k' : cm_get (cm_set m k v) k' = if scalar_eqb k k' then Some v else cm_get m k'.
Proof.
  induction m as [|[k0 v0] t IH]; cbn [cm_set cm_get].
  - destruct (scalar_eqb k k'); reflexivity.
  - destruct (scalar_eqb k0 k) eqn:E0.
    + apply scalar_eqb_eq in E0. subst k0. cbn [cm_get]. destruct (scalar_eqb k k'); reflexivity.
    + cbn [cm_get]. destruct (scalar_eqb k0 k') eqn:E1.
      * apply scalar_eqb_eq in E1. subst k'.
        destruct (scalar_eqb k k0) eqn:E2; [|reflexivity].
        apply scalar_eqb_eq in E2. subst k0. rewrite scalar_eqb_refl in E0. discriminate.
      * exact IH.
Qed.

Lemma cm_get_in m k v : cm_get m k = Some v -> In (k, v) m.
Proof.
  induction m as [|[k0 v0] t IH]; cbn [cm_get]; [discriminate|].
  destruct (scalar_eqb k0 k) eqn:E; [|right; auto].
  apply scalar_eqb_eq in E. intros [= <-]. left. congruence.
Qed.
Lemma cm_get_none m k : cm_get m k = None <-> ~ In k (map fst m).
Proof.
  induction m as [|[k0 v0] t IH]; cbn [cm_get map fst In]; [tauto|].
  destruct (scalar_eqb k0 k) eqn:E.
  - apply scalar_eqb_eq in E. split; [discriminate|tauto].
  - rewrite IH. split; [|tauto]. intros H Hc. destruct Hc as [->|H']; [rewrite scalar_eqb_refl in E; discriminate|tauto].
Qed.
Lemma cm_in_get m k v : NoDup (map fst m) -> In (k, v) m -> cm_get m k = Some v.
Proof.
  induction m as [|[k0 v0] t IH]; cbn [map fst In cm_get]; [tauto|].
  intros Hn [[= -> ->]|Hin]; [rewrite scalar_eqb_refl; reflexivity|].
  inversion Hn as [|? ? Hnot Hn']; subst.
  destruct (scalar_eqb k0 k) eqn:E; [|auto].
  apply scalar_eqb_eq in E. subst k0. exfalso. apply Hnot. apply in_map_iff. exists (k, v). auto.
Qed.

Definition keys (m : cmap) : list scalar := map fst m.

Lemma keys_set m k v : keys (cm_set m k v) = if existsb (scalar_eqb k) (keys m) then keys m else keys m ++ [k].
Proof.
  unfold keys. induction m as [|[k0 v0] t IH]; cbn [cm_set map fst existsb app]; [reflexivity|].
  destruct (scalar_eqb k0 k) eqn:E.
  - apply scalar_eqb_eq in E. subst k0. rewrite scalar_eqb_refl. reflexivity.
  - cbn [map fst]. rewrite IH.
    assert (E' : scalar_eqb k k0 = false).
    { destruct (scalar_eqb k k0) eqn:E2; [|reflexivity]. apply scalar_eqb_eq in E2. subst. rewrite scalar_eqb_refl in E. discriminate. }
    rewrite E'. cbn [orb]. destruct (existsb (scalar_eqb k) (map fst t)); reflexivity.
Qed.
Lemma existsb_eqb_in k l : existsb (scalar_eqb k) l = true <-> In k l.
Proof.
  rewrite existsb_exists. split.
  - intros (x & Hx & E). apply scalar_eqb_eq in E. subst. exact Hx.
  - intros H. exists k. split; [exact H|apply scalar_eqb_refl].
Qed.
Lemma keys_set_in m k v x : In x (keys (cm_set m k v)) <-> x = k \/ In x (keys m).
Proof.
  rewrite keys_set. destruct (existsb (scalar_eqb k) (keys m)) eqn:E.
  - apply existsb_eqb_in in E. split; [tauto|]. intros [->|H]; assumption.
  - rewrite in_app_iff. cbn [In]. split; intros H.
    + destruct H as [H|[H|[]]]; [right; exact H|left; symmetry; exact H].
    + destruct H as [->|H]; [right; left; reflexivity|left; exact H].
Qed.
Lemma nodup_set m k v : NoDup (keys m) -> NoDup (keys (cm_set m k v)).
Proof.
  intros H. rewrite keys_set. destruct (existsb (scalar_eqb k) (keys m)) eqn:E; [exact H|].
  apply NoDup_app_intro; [exact H|constructor; [intros []|constructor]|].
  intros x Hx [<-|[]]. apply existsb_eqb_in in Hx. congruence.
Qed.

Lemma keys_top m : keys (cm_top m) = keys m.
Proof. unfold keys, cm_top. rewrite map_map. reflexivity. Qed.
Lemma cm_get_top m k : cm_get (cm_top m) k = match cm_get m k with Some _ => Some CTop | None => None end.
Proof.
  induction m as [|[k0 v0] t IH]; cbn [cm_top map cm_get fst]; [reflexivity|].
  destruct (scalar_eqb k0 k); [reflexivity|exact IH].
Qed.

(* ================================================================== join *)
Definition jstep (a r : cmap) (kv : scalar * cst) : cmap :=
  match cm_get a (fst kv) with
  | Some c => if cst_eqb c (snd kv) then r else cm_set r (fst kv) CTop
  | None => cm_set r (fst kv) (snd kv)
  end.
Lemma cm_join_fold a b : cm_join a b = fold_left (jstep a) b a.
Proof. reflexivity. Qed.

Lemma jstep_other a r kv s : scalar_eqb (fst kv) s = false -> cm_get (jstep a r kv) s = cm_get r s.
Proof.
  intros E. unfold jstep. destruct (cm_get a (fst kv)) as [c|].
  - destruct (cst_eqb c (snd kv)); [reflexivity|]. rewrite cm_get_set, E. reflexivity.
  - rewrite cm_get_set, E. reflexivity.
Qed.
Lemma jfold_other a t s : ~ In s (keys t) -> forall r, cm_get (fold_left (jstep a) t r) s = cm_get r s.
Proof.
  induction t as [|kv t IH]; intros Hn r; cbn [fold_left]; [reflexivity|].
  cbn [keys map In] in Hn. rewrite IH by (unfold keys; tauto). apply jstep_other.
  destruct (scalar_eqb (fst kv) s) eqn:E; [|reflexivity]. apply scalar_eqb_eq in E. tauto.
Qed.

Lemma jfold_nodup a b : forall r, NoDup (keys r) -> NoDup (keys (fold_left (jstep a) b r)).
Proof.
  induction b as [|kv t IH]; intros r Hr; cbn [fold_left]; [exact Hr|]. apply IH.
  unfold jstep. destruct (cm_get a (fst kv)) as [c|]; [destruct (cst_eqb c (snd kv)); [exact Hr|]|]; apply nodup_set; exact Hr.
Qed.
Lemma cm_join_nodup a b : NoDup (keys a) -> NoDup (keys (cm_join a b)).
Proof. intros H. rewrite cm_join_fold. apply jfold_nodup. exact H. Qed.

Lemma jstep_keys a r kv x : In x (keys (jstep a r kv)) -> In x (keys r) \/ x = fst kv.
Proof.
  unfold jstep. destruct (cm_get a (fst kv)) as [c|]; [destruct (cst_eqb c (snd kv)); [tauto|]|];
    intros H; apply keys_set_in in H; tauto.
Qed.
Lemma jfold_keys a b x : forall r, In x (keys (fold_left (jstep a) b r)) -> In x (keys r) \/ In x (keys b).
Proof.
  induction b as [|kv t IH]; intros r H; cbn [fold_left] in H; [tauto|].
  destruct (IH _ H) as [H1|H1]; [|right; right; exact H1].
  destruct (jstep_keys _ _ _ _ H1) as [H2| ->]; [tauto|right; left; reflexivity].
Qed.
Lemma cm_join_keys a b x : In x (keys (cm_join a b)) -> In x (keys a) \/ In x (keys b).
Proof. rewrite cm_join_fold. apply jfold_keys. Qed.

(* A carries every key of O, with O's value or Top *)
Definition above (O A : cmap) : Prop :=
  forall s x, cm_get O s = Some x -> cm_get A s = Some x \/ cm_get A s = Some CTop.
Lemma above_refl O : above O O.
Proof. intros s x H. tauto. Qed.

Lemma jfold_left_pos a b s x : cm_get a s = Some x ->
  forall r, (cm_get r s = Some x \/ cm_get r s = Some CTop) ->
  cm_get (fold_left (jstep a) b r) s = Some x \/ cm_get (fold_left (jstep a) b r) s = Some CTop.
Proof.
  intros Ha. induction b as [|kv t IH]; intros r Hr; cbn [fold_left]; [exact Hr|]. apply IH.
  destruct (scalar_eqb (fst kv) s) eqn:E; [|rewrite jstep_other by exact E; exact Hr].
  apply scalar_eqb_eq in E. unfold jstep. rewrite E, Ha.
  destruct (cst_eqb x (snd kv)); [exact Hr|]. rewrite cm_get_set, scalar_eqb_refl. tauto.
Qed.
Lemma above_join_left O A b : above O A -> above O (cm_join A b).
Proof.
  intros H s x Hs. rewrite cm_join_fold. destruct (H s x Hs) as [H1|H1].
  - apply jfold_left_pos; [exact H1|tauto].
  - destruct (jfold_left_pos A b s CTop H1 A (or_introl H1)); tauto.
Qed.

Lemma jfold_right_pos a b s y : NoDup (keys b) -> cm_get b s = Some y ->
  forall r, cm_get r s = cm_get a s ->
  cm_get (fold_left (jstep a) b r) s = Some y \/ cm_get (fold_left (jstep a) b r) s = Some CTop.
Proof.
  induction b as [|[k v] t IH]; intros Hn Hb r Hr; [discriminate|].
  cbn [keys map fst] in Hn. inversion Hn as [|? ? Hnot Hn']; subst.
  cbn [cm_get] in Hb. cbn [fold_left]. destruct (scalar_eqb k s) eqn:E.
  - apply scalar_eqb_eq in E. subst k. injection Hb as ->.
    rewrite jfold_other by exact Hnot. unfold jstep. cbn [fst snd].
    destruct (cm_get a s) as [c|] eqn:Ea.
    + destruct (cst_eqb c y) eqn:Ec.
      * apply cst_eqb_eq in Ec. subst c. left. exact Hr.
      * rewrite cm_get_set, scalar_eqb_refl. tauto.
    + rewrite cm_get_set, scalar_eqb_refl. tauto.
  - apply IH; [exact Hn'|exact Hb|]. rewrite jstep_other by exact E. exact Hr.
Qed.
Lemma above_join_right a O : NoDup (keys O) -> above O (cm_join a O).
Proof. intros Hn s y Hs. rewrite cm_join_fold. eapply jfold_right_pos; [exact Hn|exact Hs|reflexivity]. Qed.

Lemma above_trans O A B : above O A -> above A B -> above O B.
Proof.
  intros H1 H2 s x Hs. destruct (H1 s x Hs) as [H|H].
  - exact (H2 s x H).
  - destruct (H2 s CTop H); tauto.
Qed.

(* ---------- the two folds over predecessor states ---------- *)
Notation cjn := (FixedPoint.join_neighbours floc cmap floc_eqb c_join).
Notation clk := (FixedPoint.lookup floc cmap floc_eqb).

Lemma cjn_fold_above m O ps : forall a, above O a ->
  exists J, fold_left (FixedPoint.join_step floc cmap floc_eqb c_join m) ps (Ok (Some a)) = Ok (Some J) /\ above O J.
Proof.
  induction ps as [|p ps IH]; intros a Ha; cbn [fold_left]; [eauto|].
  unfold FixedPoint.join_step at 2. destruct (clk m p) as [x|]; [|apply IH; assumption].
  cbn [c_join]. apply IH. apply above_join_left. assumption.
Qed.
Lemma cjn_above m ps p O : In p ps -> clk m p = Some O -> NoDup (keys O) ->
  exists J, cjn m ps = Ok (Some J) /\ above O J.
Proof.
  unfold FixedPoint.join_neighbours. generalize (@None cmap) as acc.
  induction ps as [|q ps IH]; intros acc Hin Hl Hn; [destruct Hin|].
  cbn [fold_left]. unfold FixedPoint.join_step at 2.
  destruct Hin as [->|Hin].
  - rewrite Hl. destruct acc as [a|]; cbn [c_join].
    + apply cjn_fold_above. apply above_join_right. assumption.
    + apply cjn_fold_above. apply above_refl.
  - destruct (clk m q) as [x|]; [|apply IH; assumption].
    destruct acc as [a|]; cbn [c_join]; apply IH; assumption.
Qed.

Definition rstep (m : list (floc * cmap)) (c : cmap) (p : floc) : cmap :=
  match clk m p with Some s => cm_join c s | None => c end.
Lemma rfold_above m O ps : forall c, above O c -> above O (fold_left (rstep m) ps c).
Proof.
  induction ps as [|p ps IH]; intros c Hc; cbn [fold_left]; [exact Hc|]. apply IH.
  unfold rstep. destruct (clk m p); [apply above_join_left|]; exact Hc.
Qed.
Lemma remap_above m ps p O : In p ps -> clk m p = Some O -> NoDup (keys O) ->
  forall c, above O (fold_left (rstep m) ps c).
Proof.
  induction ps as [|q ps IH]; intros Hin Hl Hn c; [destruct Hin|]. cbn [fold_left].
  destruct Hin as [->|Hin]; [|apply IH; assumption].
  apply rfold_above. unfold rstep. rewrite Hl. apply above_join_right. exact Hn.
Qed.

(* ================================================================== Constants::eval against the semantics *)
Lemma replace_den en e s c : den en (EScalar s) = Ok c ->
  forall e', replace_scalar e s (EConst c) = Ok e' -> den en e' = den en e.
Proof.
  intros Hs. induction e as [t|k|o l IHl r IHr|o bits x IHx|g IHg t IHt f0 IHf]; intros e' H; cbn [replace_scalar] in H.
  - destruct (scalar_eqb t s) eqn:E; injection H as <-; [|reflexivity].
    apply scalar_eqb_eq in E. subst t. rewrite Hs. reflexivity.
  - injection H as <-. reflexivity.
  - destruct (replace_scalar l s (EConst c)) as [l'| |]; try discriminate. cbn [bind] in H.
    destruct (replace_scalar r s (EConst c)) as [r'| |]; try discriminate. cbn [bind] in H.
    unfold mk_bin in H. destruct (negb (e_bits l' =? e_bits r')); [discriminate|]. injection H as <-.
    cbn [den]. rewrite (IHl _ eq_refl), (IHr _ eq_refl). reflexivity.
  - destruct (replace_scalar x s (EConst c)) as [x'| |]; try discriminate. cbn [bind] in H.
    assert (e' = EExt o bits x').
    { unfold mk_ext in H. destruct o;
        match type of H with (if ?b then _ else _) = _ => destruct b end; congruence. }
    subst e'. cbn [den]. rewrite (IHx _ eq_refl). reflexivity.
  - destruct (replace_scalar g s (EConst c)) as [g'| |]; try discriminate. cbn [bind] in H.
    destruct (replace_scalar t s (EConst c)) as [t'| |]; try discriminate. cbn [bind] in H.
    destruct (replace_scalar f0 s (EConst c)) as [f'| |]; try discriminate. cbn [bind] in H.
    unfold mk_ite in H. match type of H with (if ?b then _ else _) = _ => destruct b end; [discriminate|].
    injection H as <-. cbn [den]. rewrite (IHg _ eq_refl), (IHt _ eq_refl), (IHf _ eq_refl). reflexivity.
Qed.

Lemma eden_none_den en e : wf e -> forall v, eden (fun _ => None) e = Ok v -> den en e = Ok v.
Proof.
  induction e as [t|k|o l IHl r IHr|o bits x IHx|g IHg t IHt f0 IHf]; cbn [wf eden den]; intros W v H.
  - discriminate.
  - exact H.
  - destruct W as (Wl & Wr & Eb).
    destruct (eden _ l) as [a| |] eqn:El; try discriminate. destruct (eden _ r) as [b| |] eqn:Er; try discriminate.
    cbn [bind] in H. rewrite (IHl Wl a eq_refl), (IHr Wr b eq_refl). cbn [bind].
    destruct (eden_good _ l env_none_ok Wl a El) as [A1 _]. destruct (eden_good _ r env_none_ok Wr b Er) as [B1 _].
    unfold sp_bin_c. replace (cbits a =? cbits b) with true by (symmetry; apply Z.eqb_eq; congruence). exact H.
  - assert (Wx : wf x) by (destruct o; tauto).
    destruct (eden _ x) as [a| |] eqn:Ex; try discriminate. cbn [bind] in H.
    rewrite (IHx Wx a eq_refl). exact H.
  - destruct W as (Wg & Wt & Wf & E1 & E2).
    destruct (eden _ g) as [cv| |] eqn:Eg; try discriminate. cbn [bind] in H.
    rewrite (IHg Wg cv eq_refl). cbn [bind].
    destruct (eden_good _ g env_none_ok Wg cv Eg) as [A1 _].
    replace (cbits cv =? 1) with true by (symmetry; apply Z.eqb_eq; congruence). cbn [negb].
    destruct (cval cv =? 1); [apply IHt|apply IHf]; assumption.
Qed.

(* constants stored in a map have the width of their key and are trimmed *)
Definition cgood (A : cmap) : Prop :=
  Forall (fun kv : scalar * cst => match snd kv with CConst c => cbits c = sbits (fst kv) /\ wf (EConst c) | _ => True end) A.
Lemma cgood_get A s c : cgood A -> cm_get A s = Some (CConst c) -> cbits c = sbits s /\ wf (EConst c).
Proof. intros H Hg. apply cm_get_in in Hg. unfold cgood in H. rewrite Forall_forall in H. exact (H _ Hg). Qed.

Lemma cm_scalar_get A s c : cm_scalar A s = Some c <-> cm_get A s = Some (CConst c).
Proof. unfold cm_scalar. destruct (cm_get A s) as [[|x|]|]; split; congruence. Qed.

Lemma eval_fold_sound en A : cgood A -> forall ss e e', wf e ->
  (forall s c, In s ss -> cm_get A s = Some (CConst c) -> env_get en (skey_of s) = Some c) ->
  eval_fold A ss e = Ok (Some e') -> wf e' /\ e_bits e' = e_bits e /\ den en e' = den en e.
Proof.
  intros HA. induction ss as [|s t IH]; intros e e' W Hen H; cbn [eval_fold] in H.
  - injection H as <-. auto.
  - destruct (cm_scalar A s) as [c|] eqn:Es; [|discriminate]. apply cm_scalar_get in Es.
    destruct (cgood_get A s c HA Es) as [Cw Cwf].
    destruct (replace_ok (fun _ => None) s c e W Cwf Cw) as (e1 & R1 & W1 & B1 & _).
    rewrite R1 in H.
    assert (D1 : den en e1 = den en e).
    { apply (replace_den en e s c); [|exact R1]. cbn [den]. rewrite (Hen s c (or_introl eq_refl) Es).
      rewrite Cw, Z.eqb_refl. reflexivity. }
    destruct (IH e1 e' W1 (fun s0 c0 Hin => Hen s0 c0 (or_intror Hin)) H) as (W' & B' & D').
    split; [exact W'|]. split; congruence.
Qed.

Lemma cm_eval_sound en A e v : wf e -> cgood A ->
  (forall s c, In s (scalars e) -> cm_get A s = Some (CConst c) -> env_get en (skey_of s) = Some c) ->
  cm_eval A e = Ok (Some v) -> den en e = Ok v.
Proof.
  intros W HA Hen H. unfold cm_eval in H.
  destruct (eval_fold A (scalars e) e) as [[e'|]| |] eqn:Ef; try discriminate. cbn [bind] in H.
  destruct (eval_fold_sound en A HA _ _ _ W Hen Ef) as (W' & _ & D).
  destruct (eval e') as [c| |] eqn:Ev; try discriminate. injection H as ->.
  rewrite <- D. apply eden_none_den; [exact W'|]. rewrite <- eval_eden by exact W'. exact Ev.
Qed.

Lemma eval_fold_wf A : cgood A -> forall ss e e', wf e ->
  eval_fold A ss e = Ok (Some e') -> wf e' /\ e_bits e' = e_bits e.
Proof.
  intros HA. induction ss as [|s t IH]; intros e e' W H; cbn [eval_fold] in H.
  - injection H as <-. auto.
  - destruct (cm_scalar A s) as [c|] eqn:Es; [|discriminate]. apply cm_scalar_get in Es.
    destruct (cgood_get A s c HA Es) as [Cw Cwf].
    destruct (replace_ok (fun _ => None) s c e W Cwf Cw) as (e1 & R1 & W1 & B1 & _).
    rewrite R1 in H. destruct (IH e1 e' W1 H) as (W' & B'). split; [exact W'|congruence].
Qed.

Lemma cm_eval_good A e v : wf e -> cgood A -> cm_eval A e = Ok (Some v) -> cbits v = e_bits e /\ wf (EConst v).
Proof.
  intros W HA H. unfold cm_eval in H.
  destruct (eval_fold A (scalars e) e) as [[e'|]| |] eqn:Ef; try discriminate. cbn [bind] in H.
  destruct (eval_fold_wf A HA _ _ _ W Ef) as (W' & B).
  destruct (eval e') as [c| |] eqn:Ev; try discriminate. injection H as ->.
  rewrite eval_eden in Ev by exact W'.
  destruct (eden_good _ e' env_none_ok W' v Ev) as [G1 G2]. pose proof (wf_bits e' W') as Wb.
  split; [congruence|]. cbn [wf]. rewrite G1. split; [exact Wb|rewrite <- G1; exact G2].
Qed.

(* Constants::eval never panics on a good map and a well-sorted expression *)
Lemma eval_fold_np A : cgood A -> forall ss e, wf e -> eval_fold A ss e <> Panic.
Proof.
  intros HA. induction ss as [|s t IH]; intros e W; cbn [eval_fold]; [discriminate|].
  destruct (cm_scalar A s) as [c|] eqn:Es; [|discriminate]. apply cm_scalar_get in Es.
  destruct (cgood_get A s c HA Es) as [Cw Cwf].
  destruct (replace_ok (fun _ => None) s c e W Cwf Cw) as (e1 & R1 & W1 & _). rewrite R1. apply IH. exact W1.
Qed.

(* ================================================================== goodness of states *)
Lemma cgood_set m k v : cgood m ->
  match v with CConst c => cbits c = sbits k /\ wf (EConst c) | _ => True end -> cgood (cm_set m k v).
Proof.
  intros H Hv. unfold cgood in *. induction m as [|[k0 v0] t IH]; cbn [cm_set].
  - constructor; [exact Hv|constructor].
  - inversion H as [|? ? H0 Ht]; subst. destruct (scalar_eqb k0 k) eqn:E.
    + apply scalar_eqb_eq in E. subst k0. constructor; [exact Hv|exact Ht].
    + constructor; [exact H0|apply IH; exact Ht].
Qed.
Lemma cgood_top m : cgood (cm_top m).
Proof. unfold cgood, cm_top. apply Forall_forall. intros kv H. apply in_map_iff in H as (x & <- & _). exact I. Qed.
Lemma jfold_cgood a b : cgood b -> forall r, cgood r -> cgood (fold_left (jstep a) b r).
Proof.
  induction b as [|kv t IH]; intros Hb r Hr; cbn [fold_left]; [exact Hr|].
  inversion Hb as [|? ? H0 Ht]; subst. apply IH; [exact Ht|].
  unfold jstep. destruct (cm_get a (fst kv)) as [c|].
  - destruct (cst_eqb c (snd kv)); [exact Hr|]. apply cgood_set; [exact Hr|exact I].
  - apply cgood_set; [exact Hr|]. destruct kv as [k [|c|]]; cbn [fst snd] in *; auto.
Qed.
Lemma cgood_join a b : cgood a -> cgood b -> cgood (cm_join a b).
Proof. intros Ha Hb. rewrite cm_join_fold. apply jfold_cgood; assumption. Qed.

Lemma ss_mem_in s x : ss_mem s x = true <-> In s x.
Proof. unfold ss_mem. apply existsb_eqb_in. Qed.
Lemma ss_add_in s x y : In y (ss_add s x) <-> y = s \/ In y x.
Proof.
  unfold ss_add. destruct (ss_mem s x) eqn:E.
  - apply ss_mem_in in E. split; [tauto|]. intros [->|H]; assumption.
  - cbn [In]. split; intros [H|H]; auto.
Qed.
Lemma fold_add_in xs : forall acc y, In y (fold_left (fun a s => ss_add s a) xs acc) <-> In y xs \/ In y acc.
Proof.
  induction xs as [|x t IH]; intros acc y; cbn [fold_left In]; [tauto|].
  rewrite IH, ss_add_in. split.
  - intros [H|[H|H]]; [left; right; exact H|left; left; symmetry; exact H|right; exact H].
  - intros [[H|H]|H]; [right; left; symmetry; exact H|left; exact H|right; right; exact H].
Qed.
Lemma all_scalars_in f l s : In l (locations f) ->
  In s (loc_reads f l ++ loc_writes f l ++ loc_declared f l) -> In s (all_scalars f).
Proof.
  unfold all_scalars. generalize (@nil scalar) as acc. induction (locations f) as [|l0 t IH]; intros acc Hl Hs; [destruct Hl|].
  cbn [fold_left]. destruct Hl as [->|Hl]; [|apply IH; assumption].
  assert (G : forall ls acc0, In s acc0 ->
    In s (fold_left (fun acc1 l1 => fold_left (fun a s0 => ss_add s0 a) (loc_reads f l1 ++ loc_writes f l1 ++ loc_declared f l1) acc1) ls acc0)).
  { induction ls as [|l1 ls IHls]; intros acc0 H0; cbn [fold_left]; [exact H0|]. apply IHls. apply fold_add_in. tauto. }
  apply G. apply fold_add_in. tauto.
Qed.

Section Good.
  Variable f : func.
  Let U := all_scalars f.

  Definition good (A : cmap) : Prop := NoDup (keys A) /\ (forall k, In k (keys A) -> In k U) /\ cgood A.

  Lemma good_nil : good [].
  Proof. split; [constructor|split; [intros k []|constructor]]. Qed.

  Lemma good_join a b : good a -> good b -> good (cm_join a b).
  Proof.
    intros (A1 & A2 & A3) (B1 & B2 & B3). split; [apply cm_join_nodup; exact A1|split].
    - intros k Hk. destruct (cm_join_keys _ _ _ Hk); auto.
    - apply cgood_join; assumption.
  Qed.

  Lemma good_set A k v : good A -> In k U ->
    match v with CConst c => cbits c = sbits k /\ wf (EConst c) | _ => True end -> good (cm_set A k v).
  Proof.
    intros (A1 & A2 & A3) Hk Hv. split; [apply nodup_set; exact A1|split].
    - intros x Hx. apply keys_set_in in Hx as [->|Hx]; auto.
    - apply cgood_set; assumption.
  Qed.
  Lemma good_top A : good A -> good (cm_top A).
  Proof.
    intros (A1 & A2 & A3). split; [rewrite keys_top; exact A1|split; [rewrite keys_top; exact A2|apply cgood_top]].
  Qed.

  Hypothesis Hsrc : srcs_wf f = true.

  Lemma srcs_wf_at l i dst src : loc_instruction f l = Some i -> i_op i = OAssign dst src ->
    wf src /\ sbits dst = e_bits src.
  Proof.
    intros Hi Ho. destruct (loc_instruction_in f l i Hi) as (b & Hb & Hin).
    unfold srcs_wf in Hsrc. rewrite forallb_forall in Hsrc. specialize (Hsrc b Hb).
    rewrite forallb_forall in Hsrc. specialize (Hsrc i Hin). rewrite Ho in Hsrc.
    apply andb_prop in Hsrc as [H1 H2]. split; [apply wfb_wf; exact H1|lia].
  Qed.

  (* every state produced by the transfer function from a good state is good *)
  Lemma good_trans l st a : In l (locations f) -> (forall s, st = Some s -> good s) -> c_trans f l st = Ok a -> good a.
  Proof.
    intros Hl Hst. unfold c_trans.
    set (s := match st with Some s => s | None => [] end).
    assert (Hs : good s) by (subst s; destruct st; [apply Hst; reflexivity|apply good_nil]).
    clearbody s. destruct l as [bi ii|h t|bi]; try (intros [= <-]; exact Hs).
    destruct (loc_instruction f (LInstr bi ii)) as [i|] eqn:Hi; [|discriminate].
    assert (HU : forall x, In x (loc_writes f (LInstr bi ii) ++ loc_declared f (LInstr bi ii)) -> In x U).
    { intros x Hx. apply (all_scalars_in f (LInstr bi ii)); [exact Hl|]. apply in_or_app. right. exact Hx. }
    unfold loc_writes, loc_declared in HU. rewrite Hi in HU.
    destruct (i_op i) as [dst src|idx src|dst idx|tgt|intr|ph] eqn:Ho.
    - destruct (srcs_wf_at _ _ _ _ Hi Ho) as [Wsrc Wb].
      destruct (cm_eval s src) as [[c|]| |] eqn:Ee; try discriminate; cbn [bind]; intros [= <-].
      + apply good_set; [exact Hs|apply HU; left; reflexivity|].
        destruct (cm_eval_good s src c Wsrc (proj2 (proj2 Hs)) Ee) as [G1 G2]. split; [congruence|exact G2].
      + apply good_set; [exact Hs|apply HU; left; reflexivity|exact I].
    - intros [= <-]. exact Hs.
    - intros [= <-]. apply good_set; [exact Hs|apply HU; left; reflexivity|exact I].
    - intros [= <-]. apply good_top. exact Hs.
    - destruct (intr_scalars_written intr) as [ws|]; intros [= <-]; [|apply good_top; exact Hs].
      cbn [app] in HU. revert s Hs. induction ws as [|w ws IH]; intros s Hs; cbn [fold_left]; [exact Hs|].
      apply IH; [intros x Hx; apply HU; right; exact Hx|]. apply good_set; [exact Hs|apply HU; left; reflexivity|exact I].
    - intros [= <-]. exact Hs.
  Qed.
End Good.

(* ================================================================== one step of an execution *)
Lemma key_mem_cons k x l : key_mem k (x :: l) = skey_eqb k x || key_mem k l.
Proof. reflexivity. Qed.
Lemma skey_eqb_refl k : skey_eqb k k = true.
Proof. apply skey_eqb_eq. reflexivity. Qed.
Lemma skey_eqb_sym a b : skey_eqb a b = skey_eqb b a.
Proof.
  destruct (skey_eqb a b) eqn:E1, (skey_eqb b a) eqn:E2; try reflexivity.
  - apply skey_eqb_eq in E1. subst. rewrite skey_eqb_refl in E2. discriminate.
  - apply skey_eqb_eq in E2. subst. rewrite skey_eqb_refl in E1. discriminate.
Qed.

(* what a step that moves on did: an instruction executed with event ev, or nothing changed *)
Lemma sem_step_next_inv f l st l' st' ev : sem_step f l st = Sem.Next l' st' ev ->
  (exists i, loc_instruction f l = Some i /\ exec_op st (i_op i) = Ok (st', ev)) \/
  (loc_instruction f l = None /\ st' = st /\ ev = EvNone).
Proof.
  destruct l as [b ii|h t|b]; unfold sem_step.
  - destruct (loc_instruction f (LInstr b ii)) as [i|]; [|discriminate].
    destruct (exec_op st (i_op i)) as [[st1 ev1]| |] eqn:Ex; try discriminate.
    intros H. left. exists i. split; [reflexivity|]. rewrite Ex.
    destruct ev1; try discriminate H;
      (destruct (forward f (LInstr b ii)) as [succs| |]; [|discriminate H ..];
       match type of H with choose f st1 ?e succs = _ =>
         destruct (choose_cases f st1 e succs) as [(l0 & E & _)|[E|(e0 & E)]]; rewrite E in H; [|discriminate H ..] end;
       injection H as _ <- <-; reflexivity).
  - cbn [loc_instruction]. destruct (forward f (LEdge h t)) as [[|x [|? ?]]| |]; try discriminate.
    intros [= _ <- <-]. right. auto.
  - cbn [loc_instruction]. destruct (forward f (LEmpty b)) as [succs| |]; [|discriminate ..].
    destruct (choose_cases f st EvNone succs) as [(l0 & -> & _)|[-> |(e0 & ->)]]; [|discriminate ..].
    intros [= _ <- <-]. right. auto.
Qed.

Definition asg_after (asg : list skey) (ev : event) : list skey :=
  match ev with EvAssign k _ | EvLoad k _ _ => k :: asg | _ => asg end.

Section Exec.
  Variable f : func.
  Let U := all_scalars f.
  Hypothesis Hnames : names_ok f = true.
  Hypothesis Hsrc : srcs_wf f = true.

  Lemma names_inj s t : In s U -> In t U -> skey_of s = skey_of t -> s = t.
  Proof.
    intros Hs Ht E. unfold names_ok in Hnames. fold U in Hnames.
    rewrite forallb_forall in Hnames. specialize (Hnames s Hs). rewrite forallb_forall in Hnames. specialize (Hnames t Ht).
    rewrite E, skey_eqb_refl in Hnames. cbn [implb] in Hnames. apply scalar_eqb_eq. exact Hnames.
  Qed.

  (* the map A describes the environment en of an execution in which the keys asg have been assigned *)
  Definition desc (A : cmap) (en : senv) (asg : list skey) : Prop :=
    (forall s, In s U -> key_mem (skey_of s) asg = true -> cm_get A s <> None) /\
    (forall s c, cm_get A s = Some (CConst c) -> key_mem (skey_of s) asg = true -> env_get en (skey_of s) = Some c).

  Lemma desc_nil en : desc [] en [].
  Proof. split; [intros s _ H; discriminate H|intros s c H; discriminate H]. Qed.

  Lemma desc_above O A en asg : (forall k, In k (keys A) -> In k U) -> desc O en asg -> above O A -> desc A en asg.
  Proof.
    intros HA [D1 D2] Hab. split.
    - intros s Hs Hk. destruct (cm_get O s) as [x|] eqn:Eo; [|exfalso; exact (D1 s Hs Hk Eo)].
      destruct (Hab s x Eo) as [H|H]; rewrite H; discriminate.
    - intros s c Hg Hk.
      assert (Hs : In s U). { apply HA. apply cm_get_in in Hg. unfold keys. apply in_map_iff. exists (s, CConst c). auto. }
      destruct (cm_get O s) as [x|] eqn:Eo; [|exfalso; exact (D1 s Hs Hk Eo)].
      destruct (Hab s x Eo) as [H|H]; rewrite H in Hg; [|discriminate]. injection Hg as ->. exact (D2 s c Eo Hk).
  Qed.
End Exec.

Section Exec2.
  Variable f : func.
  Let U := all_scalars f.
  Hypothesis Hnames : names_ok f = true.
  Hypothesis Hsrc : srcs_wf f = true.

  Lemma desc_asg_nil A en : desc f A en [].
  Proof. split; [intros s _ H; discriminate H|intros s c _ H; discriminate H]. Qed.

  Lemma desc_ext A B en asg : (forall k, cm_get A k = cm_get B k) -> desc f A en asg -> desc f B en asg.
  Proof. intros E [D1 D2]. split; [intros s Hs Hk; rewrite <- E; auto|intros s c Hg Hk; rewrite <- E in Hg; auto]. Qed.

  Lemma scalar_eqb_false a b : a <> b -> scalar_eqb a b = false.
  Proof. intros H. destruct (scalar_eqb a b) eqn:E; [|reflexivity]. apply scalar_eqb_eq in E. contradiction. Qed.
  Lemma skey_eqb_false a b : a <> b -> skey_eqb a b = false.
  Proof. intros H. destruct (skey_eqb a b) eqn:E; [|reflexivity]. apply skey_eqb_eq in E. contradiction. Qed.

  Lemma get_in_keys A s v : cm_get A s = Some v -> In s (keys A).
  Proof. intros H. apply cm_get_in in H. unfold keys. apply in_map_iff. exists (s, v). auto. Qed.

  (* assigning dst (abstractly cv, concretely v) *)
  Lemma desc_set s en asg dst cv v : good f s -> desc f s en asg -> In dst U ->
    (forall c, cv = CConst c -> v = c) ->
    desc f (cm_set s dst cv) (env_set en (skey_of dst) v) (skey_of dst :: asg).
  Proof.
    intros (G1 & G2 & G3) [D1 D2] Hd Hv. split.
    - intros t Ht Hk. rewrite cm_get_set. destruct (scalar_eqb dst t) eqn:E; [discriminate|].
      rewrite key_mem_cons in Hk. apply orb_prop in Hk as [Hk|Hk]; [|exact (D1 t Ht Hk)].
      apply skey_eqb_eq in Hk. rewrite (names_inj f Hnames t dst Ht Hd Hk), scalar_eqb_refl in E. discriminate.
    - intros t c Hg Hk. rewrite cm_get_set in Hg. rewrite SPOProofs.env_get_set.
      destruct (scalar_eqb dst t) eqn:E.
      + apply scalar_eqb_eq in E. subst t. rewrite skey_eqb_refl. injection Hg as ->. f_equal. apply Hv. reflexivity.
      + assert (Ht : In t U) by (apply G2; eapply get_in_keys; exact Hg).
        assert (Hne : skey_of dst <> skey_of t).
        { intros Ek. rewrite (names_inj f Hnames dst t Hd Ht Ek), scalar_eqb_refl in E. discriminate. }
        rewrite (skey_eqb_false _ _ Hne). apply D2; [exact Hg|].
        rewrite key_mem_cons in Hk. rewrite (skey_eqb_false (skey_of t) (skey_of dst)) in Hk by congruence. exact Hk.
  Qed.

  Lemma desc_top s en asg : desc f s en asg -> desc f (cm_top s) en asg.
  Proof.
    intros [D1 D2]. split.
    - intros t Ht Hk. rewrite cm_get_top. specialize (D1 t Ht Hk). destruct (cm_get s t); [discriminate|contradiction].
    - intros t c Hg. rewrite cm_get_top in Hg. destruct (cm_get s t); discriminate.
  Qed.

  Lemma desc_mem s st m' asg : desc f s (st_env st) asg -> desc f s (st_env (mkst (st_env st) m')) asg.
  Proof. auto. Qed.

  Lemma c_trans_norm l sto : c_trans f l sto = c_trans f l (Some (match sto with Some s => s | None => [] end)).
  Proof. destruct sto; reflexivity. Qed.

  (* executing the instruction at l from a described state *)
  Lemma trans_desc l i sto st st' ev asg new :
    In l (locations f) -> loc_instruction f l = Some i ->
    forall s, s = match sto with Some s => s | None => [] end ->
    good f s -> desc f s (st_env st) asg ->
    (forall x, In x (loc_reads f l) -> key_mem (skey_of x) asg = true) ->
    exec_op st (i_op i) = Ok (st', ev) -> c_trans f l sto = Ok new ->
    desc f new (st_env st') (asg_after asg ev).
  Proof.
    intros Hl Hi s Hs Hg Hd Hreads Hex Ht.
    assert (HU : forall x, In x (loc_writes f l) -> In x U).
    { intros x Hx. apply (all_scalars_in f l); [exact Hl|]. apply in_or_app. right. apply in_or_app. left. exact Hx. }
    destruct l as [bi ii|h t|bi]; try discriminate Hi.
    assert (Ht' : c_trans f (LInstr bi ii) (Some s) = Ok new) by (subst s; rewrite c_trans_norm in Ht; exact Ht).
    clear Ht Hs. rename Ht' into Ht.
    cbv beta iota zeta delta [c_trans] in Ht. rewrite Hi in Ht.
    unfold loc_reads in Hreads. rewrite Hi in Hreads. unfold loc_writes in HU. rewrite Hi in HU.
    destruct (i_op i) as [dst src|idx src|dst idx|tgt|intr|ph] eqn:Ho; cbn [exec_op op_scalars_read] in *.
    - (* Assign *)
      destruct (srcs_wf_at f Hsrc _ _ _ _ Hi Ho) as [Wsrc _].
      destruct (den (st_env st) src) as [v| |] eqn:Ed; try discriminate. cbn [bind] in Hex. injection Hex as <- <-.
      destruct (cm_eval s src) as [r| |] eqn:Ee; try discriminate. cbn [bind] in Ht. injection Ht as <-.
      cbn [asg_after st_env]. apply desc_set; [exact Hg|exact Hd|apply HU; left; reflexivity|].
      intros c Hc. destruct r as [c'|]; [|discriminate]. injection Hc as ->.
      assert (Hden : den (st_env st) src = Ok c).
      { apply (cm_eval_sound (st_env st) s src c Wsrc (proj2 (proj2 Hg))); [|exact Ee].
        intros x cx Hx Hgx. apply (proj2 Hd x cx Hgx). apply Hreads. exact Hx. }
      congruence.
    - (* Store *)
      destruct (den (st_env st) src) as [v| |]; try discriminate. cbn [bind] in Hex.
      destruct (den (st_env st) idx) as [ix| |]; try discriminate. cbn [bind] in Hex.
      destruct (addr_of ix) as [a| |]; try discriminate. cbn [bind] in Hex.
      destruct (mem_store (st_mem st) a v) as [m'| |]; try discriminate. cbn [bind] in Hex.
      injection Hex as <- <-. injection Ht as <-. exact Hd.
    - (* Load *)
      destruct (den (st_env st) idx) as [ix| |]; try discriminate. cbn [bind] in Hex.
      destruct (addr_of ix) as [a| |]; try discriminate. cbn [bind] in Hex.
      destruct (mem_load (st_mem st) a (sbits dst)) as [v| |]; try discriminate. cbn [bind] in Hex.
      injection Hex as <- <-. injection Ht as <-. cbn [asg_after st_env].
      apply desc_set; [exact Hg|exact Hd|apply HU; left; reflexivity|discriminate].
    - (* Branch *)
      destruct (den (st_env st) tgt) as [tv| |]; try discriminate. cbn [bind] in Hex.
      destruct (addr_of tv) as [a| |]; try discriminate. cbn [bind] in Hex.
      injection Hex as <- <-. injection Ht as <-. apply desc_top. exact Hd.
    - discriminate.
    - injection Hex as <- <-. injection Ht as <-. exact Hd.
  Qed.
End Exec2.

(* ================================================================== definite assignment along an execution *)
Section DA.
  Variable f : func.
  Variables (entry : floc) (dm : da_map).
  Hypothesis Hentry : entry_loc f = Some entry.
  Hypothesis Hsol : da_solution f = Some dm.
  Hypothesis Hda : def_assigned f = true.

  Lemma da_facts :
    da_get dm entry = [] /\
    (forall l, In l (locations f) -> l <> entry -> forall p, In p (il_pred f l) ->
       forall x, In x (da_get dm l) -> In x (da_get dm p) \/ In x (loc_writes f p)) /\
    (forall l, In l (locations f) -> forall x, In x (loc_reads f l) -> In x (da_get dm l)).
  Proof.
    unfold def_assigned in Hda. rewrite Hentry, Hsol in Hda. apply andb_prop in Hda as [Hp Hr].
    unfold da_post in Hp. apply andb_prop in Hp as [Hp1 Hp2]. split; [|split].
    - destruct (da_get dm entry); [reflexivity|discriminate].
    - intros l Hl Hne p Hpred x Hx. rewrite forallb_forall in Hp2. specialize (Hp2 l Hl).
      destruct (floc_eqb l entry) eqn:E; [apply floc_eqb_eq in E; contradiction|].
      unfold il_pred in Hpred. destruct (backward f l) as [ps| |]; [|destruct Hpred ..].
      rewrite forallb_forall in Hp2. specialize (Hp2 p Hpred). unfold ss_subset in Hp2.
      rewrite forallb_forall in Hp2. specialize (Hp2 x Hx). apply ss_mem_in in Hp2.
      unfold da_out in Hp2. apply fold_add_in in Hp2. tauto.
    - intros l Hl x Hx. rewrite forallb_forall in Hr. specialize (Hr l Hl). unfold ss_subset in Hr.
      rewrite forallb_forall in Hr. apply ss_mem_in. exact (Hr x Hx).
  Qed.

  Definition da_inv (l : floc) (asg : list skey) : Prop :=
    forall x, In x (da_get dm l) -> key_mem (skey_of x) asg = true.

  Lemma key_mem_after k asg ev : key_mem k asg = true -> key_mem k (asg_after asg ev) = true.
  Proof. intros H. destruct ev; cbn [asg_after]; try exact H; rewrite key_mem_cons, H; apply orb_true_r. Qed.

  Lemma exec_writes st o st' ev x : exec_op st o = Ok (st', ev) ->
    In x (match o with OAssign dst _ | OLoad dst _ => [dst] | _ => [] end) ->
    key_mem (skey_of x) (asg_after [] ev) = true.
  Proof.
    destruct o as [dst src|idx src|dst idx|tgt|intr|ph]; cbn [exec_op].
    2, 4, 5, 6: intros _ Hf; destruct Hf.
    - destruct (den (st_env st) src) as [v| |]; try discriminate. cbn [bind]. intros [= _ <-] [<-|[]].
      cbn [asg_after]. rewrite key_mem_cons, skey_eqb_refl. reflexivity.
    - destruct (den (st_env st) idx) as [ix| |]; try discriminate. cbn [bind].
      destruct (addr_of ix) as [a| |]; try discriminate. cbn [bind].
      destruct (mem_load (st_mem st) a (sbits dst)) as [v| |]; try discriminate. cbn [bind]. intros [= _ <-] [<-|[]].
      cbn [asg_after]. rewrite key_mem_cons, skey_eqb_refl. reflexivity.
  Qed.

  Lemma asg_after_app k asg ev : key_mem k (asg_after [] ev) = true -> key_mem k (asg_after asg ev) = true.
  Proof. destruct ev; cbn [asg_after]; try discriminate; rewrite !key_mem_cons; intros H; apply orb_prop in H as [H|H]; try discriminate H; rewrite H; reflexivity. Qed.

  Lemma da_inv_step l st l' st' ev asg : In l' (locations f) -> In l (il_pred f l') ->
    da_inv l asg -> sem_step f l st = Sem.Next l' st' ev -> da_inv l' (asg_after asg ev).
  Proof.
    intros Hl' Hp Hinv Hs x Hx. destruct da_facts as (F1 & F2 & _).
    destruct (floc_eqb l' entry) eqn:E.
    - apply floc_eqb_eq in E. subst l'. rewrite F1 in Hx. destruct Hx.
    - assert (Hne : l' <> entry) by (intros ->; assert (floc_eqb entry entry = true) by (apply floc_eqb_eq; reflexivity); congruence).
      destruct (F2 l' Hl' Hne l Hp x Hx) as [H|H]; [apply key_mem_after; exact (Hinv x H)|].
      unfold loc_writes in H. destruct (sem_step_next_inv f l st l' st' ev Hs) as [(i & Hi & Hex)|(Hi & _ & _)]; rewrite Hi in H; [|destruct H].
      apply asg_after_app. eapply exec_writes; [exact Hex|exact H].
  Qed.
End DA.

(* ================================================================== executions against an exact solution *)
Lemma cmap_eqb_get a b : cmap_eqb a b = true -> forall k, cm_get a k = cm_get b k.
Proof.
  unfold cmap_eqb. intros H k. apply andb_prop in H as [H Hba]. apply andb_prop in H as [_ Hab].
  unfold cmap_sub in *. rewrite forallb_forall in Hab, Hba.
  destruct (cm_get a k) as [v|] eqn:Ea.
  - specialize (Hab _ (cm_get_in _ _ _ Ea)). cbn [fst snd] in Hab.
    destruct (cm_get b k) as [v'|]; [|discriminate]. apply cst_eqb_eq in Hab. congruence.
  - destruct (cm_get b k) as [v'|] eqn:Eb; [|reflexivity].
    specialize (Hba _ (cm_get_in _ _ _ Eb)). cbn [fst snd] in Hba. rewrite Ea in Hba. discriminate.
Qed.

Lemma lookup_in {S0} (m : list (floc * S0)) l s : FixedPoint.lookup floc S0 floc_eqb m l = Some s -> In (l, s) m.
Proof.
  induction m as [|[k v] t IH]; cbn [FixedPoint.lookup]; [discriminate|].
  destruct (floc_eqb k l) eqn:E; [|right; auto]. apply floc_eqb_eq in E. intros [= <-]. left. congruence.
Qed.

Section Sound.
  Variable f : func.
  Let U := all_scalars f.
  Hypothesis Hinv : cfg_inv (f_cfg f) = true.
  Hypothesis Hwf : c13_wf f = true.
  Hypothesis Hda : def_assigned f = true.
  Variables (e : Z) (eb : block).
  Hypothesis He : g_entry (f_cfg f) = Some e.
  Hypothesis Hb : find_block (f_blocks f) e = Some eb.
  Let entry := block_first_loc eb.
  Variable m : list (floc * cmap).
  Hypothesis Hdom : forall l, clk m l <> None <-> reachL f entry l.
  Hypothesis Hgood : forall l s, clk m l = Some s -> good f s.
  Hypothesis Hexact : exact_solution f m = true.

  Lemma Hnames : names_ok f = true. Proof. unfold c13_wf in Hwf. apply andb_prop in Hwf. tauto. Qed.
  Lemma Hsrc : srcs_wf f = true. Proof. unfold c13_wf in Hwf. apply andb_prop in Hwf. tauto. Qed.
  Lemma Hentry : entry_loc f = Some entry. Proof. unfold entry_loc. rewrite He, Hb. reflexivity. Qed.
  Lemma Heb : In eb (f_blocks f). Proof. exact (proj1 (find_block_some _ _ _ Hb)). Qed.

  Lemma reach_loc l : reachL f entry l -> In l (locations f).
  Proof. intros H. apply (locations_valid f l Hinv). exact (reach_valid f Hinv eb Heb l H). Qed.

  Lemma exact_eqn l s : clk m l = Some s ->
    exists sto new, cjn m (il_pred f l) = Ok sto /\ c_trans f l sto = Ok new /\ forall k, cm_get new k = cm_get s k.
  Proof.
    intros Hl. unfold exact_solution in Hexact. rewrite forallb_forall in Hexact.
    specialize (Hexact _ (lookup_in m l s Hl)). cbn [fst snd] in Hexact. unfold exact_at in Hexact. unfold il_pred.
    destruct (backward f l) as [ps| |]; try discriminate.
    destruct (cjn m ps) as [sto| |] eqn:Ej; try discriminate.
    destruct (c_trans f l sto) as [new| |] eqn:Et; try discriminate.
    exists sto, new. split; [reflexivity|split; [exact Et|apply cmap_eqb_get; exact Hexact]].
  Qed.

  Lemma cjn_good ps sto : cjn m ps = Ok sto -> forall s, sto = Some s -> good f s.
  Proof.
    intros H. apply (join_neighbours_good floc cmap floc_eqb c_join (good f)
                      (fun a b j Ha Hb0 Hj => ltac:(injection Hj as <-; apply good_join; assumption)) m ps sto); [|exact H].
    intros l s Hl. exact (Hgood l s Hl).
  Qed.

  Variable dm : da_map.
  Hypothesis Hsol : da_solution f = Some dm.

  (* the state before executing l is described by the state of an executed predecessor *)
  Definition pre (l : floc) (st : sstate) (asg : list skey) : Prop :=
    reachL f entry l /\ da_inv dm l asg /\
    (asg = [] \/ exists p O, In p (il_pred f l) /\ clk m p = Some O /\ desc f O (st_env st) asg).

  (* any join that includes the executed predecessor's state describes the state *)
  Lemma pre_desc l st asg A : pre l st asg -> (forall k, In k (keys A) -> In k U) ->
    (forall p O, In p (il_pred f l) -> clk m p = Some O -> above O A) -> desc f A (st_env st) asg.
  Proof.
    intros (_ & _ & [-> |(p & O & Hp & Hl & Hd)]) HA Hab; [apply desc_asg_nil|].
    eapply desc_above; [exact HA|exact Hd|exact (Hab p O Hp Hl)].
  Qed.

  Lemma in_state_desc l st asg sto : pre l st asg -> cjn m (il_pred f l) = Ok sto ->
    let s := match sto with Some s => s | None => [] end in good f s /\ desc f s (st_env st) asg.
  Proof.
    intros Hpre Hj. cbn zeta. destruct Hpre as (Hr & Hi & [-> |(p & O & Hp & Hl & Hd)]).
    - split; [|apply desc_asg_nil]. destruct sto as [s|]; [eapply cjn_good; [exact Hj|reflexivity]|apply good_nil].
    - destruct (cjn_above m (il_pred f l) p O Hp Hl (proj1 (Hgood p O Hl))) as (J & HJ & Hab).
      rewrite HJ in Hj. injection Hj as <-. pose proof (cjn_good _ _ HJ J eq_refl) as GJ. split; [exact GJ|].
      eapply desc_above; [exact (proj1 (proj2 GJ))|exact Hd|exact Hab].
  Qed.

  Lemma post_of_pre l st l' st' ev asg : pre l st asg -> sem_step f l st = Sem.Next l' st' ev ->
    exists O, clk m l = Some O /\ desc f O (st_env st') (asg_after asg ev).
  Proof.
    intros Hpre Hs. pose proof Hpre as (Hr & Hi & _).
    destruct (clk m l) as [O|] eqn:Hl; [|exfalso; exact (proj2 (Hdom l) Hr Hl)].
    exists O. split; [reflexivity|].
    destruct (exact_eqn l O Hl) as (sto & new & Hj & Ht & Hget).
    destruct (in_state_desc l st asg sto Hpre Hj) as [Gs Ds].
    apply (desc_ext f new O); [exact Hget|].
    destruct (sem_step_next_inv f l st l' st' ev Hs) as [(i & Hins & Hex)|(Hins & -> & ->)].
    - eapply (trans_desc f Hnames Hsrc l i sto st st' ev asg new (reach_loc l Hr) Hins _ eq_refl Gs Ds); [|exact Hex|exact Ht].
      intros x Hx. apply Hi. destruct (da_facts f entry dm Hentry Hsol Hda) as (_ & _ & F3). exact (F3 l (reach_loc l Hr) x Hx).
    - cbn [asg_after]. rewrite (c_trans_norm f) in Ht. unfold c_trans in Ht.
      destruct l as [bi ii|h t|bi]; [|injection Ht as <-; exact Ds ..].
      rewrite Hins in Ht. discriminate.
  Qed.

  Lemma pre_step l st l' st' ev asg : pre l st asg -> sem_step f l st = Sem.Next l' st' ev -> pre l' st' (asg_after asg ev).
  Proof.
    intros Hpre Hs. pose proof Hpre as (Hr & Hi & _).
    pose proof (sem_step_next f l st l' st' ev Hs) as Hin.
    assert (Hr' : reachL f entry l') by (eapply FixedPointProofs.reach_step; eassumption).
    assert (Hp : In l (il_pred f l')) by (apply (il_converse f Hinv eb Heb); assumption).
    destruct (post_of_pre l st l' st' ev asg Hpre Hs) as (O & Hl & Hd).
    split; [exact Hr'|split].
    - eapply (da_inv_step f entry dm Hentry Hsol Hda); [exact (reach_loc l' Hr')|exact Hp|exact Hi|exact Hs].
    - right. exists l, O. auto.
  Qed.

  Lemma run_pre fuel : forall l st asg, pre l st asg ->
    forall ti a, In (ti, a) (with_assigned asg (sem_run fuel f l st)) -> pre (ti_loc ti) (ti_before ti) a.
  Proof.
    induction fuel as [|fuel IH]; intros l st asg Hpre ti a Hin; [destruct Hin|].
    cbn [sem_run with_assigned] in Hin. destruct Hin as [[= <- <-]|Hin]; [exact Hpre|].
    cbn [ti_res] in Hin.
    destruct (sem_step f l st) as [l' st1 ev| | |] eqn:Es; try destruct Hin.
    eapply IH; [|exact Hin].
    replace (match ev with EvAssign k _ | EvLoad k _ _ => k :: asg | _ => asg end) with (asg_after asg ev) by (destruct ev; reflexivity).
    eapply pre_step; eassumption.
  Qed.

  Lemma pre_entry st0 : pre entry st0 [].
  Proof.
    split; [apply FixedPointProofs.reach_entry|split; [|left; reflexivity]].
    intros x Hx. destruct (da_facts f entry dm Hentry Hsol Hda) as (F1 & _). rewrite F1 in Hx. destruct Hx.
  Qed.
End Sound.

(* ================================================================== from the engine run to the theorems *)
Lemma remap_get f m keys0 r l cm : remap f m keys0 = Ok r -> lm_get r l = Some cm -> remap_one f m l = Ok cm.
Proof.
  revert r. induction keys0 as [|[k v] t IH]; intros r H Hg; cbn [remap] in H.
  - injection H as <-. discriminate Hg.
  - destruct (remap_one f m k) as [c| |] eqn:E1; try discriminate. cbn [bind] in H.
    destruct (remap f m t) as [r'| |]; try discriminate. cbn [bind] in H. injection H as <-.
    cbn [lm_get] in Hg. destruct (floc_eqb k l) eqn:E.
    + apply floc_eqb_eq in E. subst k. congruence.
    + eapply IH; [reflexivity|exact Hg].
Qed.
Lemma remap_one_fold f m l cm : remap_one f m l = Ok cm -> cm = fold_left (rstep m) (il_pred f l) [].
Proof.
  unfold remap_one, il_pred. destruct (floc_apply f l); try discriminate. cbn [bind].
  destruct (backward f l) as [ps| |]; try discriminate. cbn [bind]. intros [= <-]. reflexivity.
Qed.
Lemma rfold_good f m ps : (forall l s, clk m l = Some s -> good f s) ->
  forall c, good f c -> good f (fold_left (rstep m) ps c).
Proof.
  intros Hm. induction ps as [|p ps IH]; intros c Hc; cbn [fold_left]; [exact Hc|]. apply IH.
  unfold rstep. destruct (clk m p) as [s|] eqn:E; [apply good_join; [exact Hc|exact (Hm p s E)]|exact Hc].
Qed.

Lemma constants_states_facts f max m : cfg_inv (f_cfg f) = true -> srcs_wf f = true -> constants_states max f = Ok m ->
  exists e eb, g_entry (f_cfg f) = Some e /\ find_block (f_blocks f) e = Some eb /\
    (forall l, clk m l <> None <-> reachL f (block_first_loc eb) l) /\
    (forall l s, clk m l = Some s -> good f s).
Proof.
  intros Hinv Hsrc H. unfold constants_states, fp_forward in H.
  destruct (g_entry (f_cfg f)) as [e|] eqn:Ee; [|discriminate].
  unfold f_block, cfg_block in H. fold (f_blocks f) in H.
  destruct (find_block (f_blocks f) e) as [eb|] eqn:Eb; [|discriminate]. cbn [bind] in H.
  exists e, eb. split; [reflexivity|split; [exact Eb|]].
  match type of H with of_outcome _ ?R = _ => destruct R as [m'| | |] eqn:Er; try discriminate end.
  cbn [of_outcome] in H. injection H as ->.
  pose proof (proj1 (find_block_some _ _ _ Eb)) as Hin.
  pose proof (il_from_ok f Hinv eb Hin) as Hfrom. pose proof (il_to_ok f Hinv eb Hin) as Hto.
  pose proof (il_converse f Hinv eb Hin) as Hconv.
  split.
  - destruct (run_done_term _ _ _ _ _ _ _ _ _ _ _ _ _ _ _ Er) as (n & Hterm).
    set (R := fun new s : cmap => cm_cmp new s = Some Eq \/ new = s).
    assert (HI : Inv floc cmap floc_eqb (c_trans f) c_join (il_succ f) (il_pred f) (block_first_loc eb) R m []).
    { refine (term_inv floc cmap floc_eqb (backward f) (forward f) (c_trans f) c_join cm_cmp
                (Inv floc cmap floc_eqb (c_trans f) c_join (il_succ f) (il_pred f) (block_first_loc eb) R) false _ _ _ _ _ Hterm
                (Inv_init _ _ _ _ _ _ _ _ R)).
      apply (Inv_step floc cmap floc_eqb floc_eqb_reflect (backward f) (forward f) (c_trans f) c_join cm_cmp
               (il_succ f) (il_pred f) (block_first_loc eb) Hfrom Hto Hconv R false).
      - intros a b Hab. left. exact Hab.
      - intros s. right. reflexivity.
      - discriminate. }
    exact (proj1 (Inv_final _ _ _ _ _ _ _ _ R m HI)).
  - apply (fp_good floc cmap floc_eqb floc_eqb_reflect (backward f) (forward f) (c_trans f) c_join cm_cmp
             (il_succ f) (il_pred f) (block_first_loc eb) Hfrom Hto Hconv (good f)) with (fuel := Datatypes.S (Datatypes.S max)) (force := false) (max := max).
    + intros l st a Hr _ Hst Ht. apply (good_trans f Hsrc l st a); [|exact Hst|exact Ht].
      apply (locations_valid f l Hinv). exact (reach_valid f Hinv eb Hin l Hr).
    + intros a b j Ha Hb Hj. injection Hj as <-. apply good_join; assumption.
    + exact Er.
Qed.

(* C13 soundness, relative to the validated exactness of the solution (see notes/C13.md) *)
Theorem constants_sound_partial f max m r :
  cfg_inv (f_cfg f) = true -> c13_wf f = true -> def_assigned f = true ->
  constants_states max f = Ok m -> exact_solution f m = true -> remap f m m = Ok r ->
  forall l0 st0 fuel ti asg cm,
    entry_loc f = Some l0 ->
    In (ti, asg) (with_assigned [] (sem_run fuel f l0 st0)) ->
    lm_get r (ti_loc ti) = Some cm ->
    (forall s c, cm_get cm s = Some (CConst c) -> key_mem (skey_of s) asg = true ->
                 env_get (st_env (ti_before ti)) (skey_of s) = Some c) /\
    (forall e v, wfb e = true -> cm_eval cm e = Ok (Some v) ->
                 (forall x, In x (scalars e) -> key_mem (skey_of x) asg = true) ->
                 den (st_env (ti_before ti)) e = Ok v).
Proof.
  intros Hinv Hwf Hda Hst Hex Hre l0 st0 fuel ti asg cm Hl0 Hin Hg.
  pose proof (Hsrc f Hwf) as Hsr.
  destruct (constants_states_facts f max m Hinv Hsr Hst) as (e & eb & He & Hb & Hdom & Hgood).
  rewrite (Hentry f e eb He Hb) in Hl0. injection Hl0 as <-.
  destruct (da_solution f) as [dm|] eqn:Hsol.
  2:{ unfold def_assigned in Hda. rewrite (Hentry f e eb He Hb), Hsol in Hda. discriminate. }
  pose proof (run_pre f Hinv Hwf Hda e eb He Hb m Hdom Hgood Hex dm Hsol fuel _ st0 []
                (pre_entry f Hda e eb He Hb m dm Hsol st0) ti asg Hin) as Hpre.
  pose proof (remap_one_fold f m _ cm (remap_get f m m r _ cm Hre Hg)) as Hcm.
  assert (Gcm : good f cm) by (rewrite Hcm; apply rfold_good; [exact Hgood|apply good_nil]).
  assert (Dcm : desc f cm (st_env (ti_before ti)) asg).
  { apply (pre_desc f eb m dm (ti_loc ti) (ti_before ti) asg cm Hpre (proj1 (proj2 Gcm))).
    intros p O Hp Hl. rewrite Hcm. apply (remap_above m _ p O Hp Hl (proj1 (Hgood p O Hl))). }
  split.
  - intros s c Hs Hk. exact (proj2 Dcm s c Hs Hk).
  - intros ex v We Hev Hk. apply (cm_eval_sound _ cm ex v (wfb_wf _ We) (proj2 (proj2 Gcm))); [|exact Hev].
    intros x cx Hx Hgx. exact (proj2 Dcm x cx Hgx (Hk x Hx)).
Qed.
