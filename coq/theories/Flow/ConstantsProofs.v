(* Flow/ConstantsProofs.v -- proofs for property C13 about the model Flow/Constants.v (the repaired
   analysis: entry state = Top for every written scalar), against executions of Exec/Sem.v.
   Statement vocabulary first (wkeys, c13_wf), then proofs. *)
From Coq Require Import ZArith List Bool NArith Lia ZifyBool.
From Falcon Require Import Base.Res IL.Const IL.ConstSpec IL.Expr IL.ExprSpec IL.ConstProofs IL.ExprProofs
     IL.Func IL.Loc IL.LocProofs Exec.Sem Flow.FixedPoint Flow.FpIL Flow.FixedPointProofs
     Flow.Constants Flow.C13Check Flow.SPOProofs.
Import ListNotations.
Local Open Scope Z_scope.
Notation map := List.map (only parsing).

(* ================================================================== statement vocabulary *)

(* the scalars the function writes = the keys of every state of the analysis *)
Definition wkeys (f : func) : list scalar := map fst (entry_seed f).
(* one width per name among the written scalars; sources of assignments well sorted, of the destination's width *)
Definition names_ok (f : func) : bool :=
  let u := wkeys f in
  forallb (fun s => forallb (fun t => implb (skey_eqb (skey_of s) (skey_of t)) (scalar_eqb s t)) u) u.
Definition srcs_wf (f : func) : bool :=
  forallb (fun b => forallb (fun i => match i_op i with
                                      | OAssign dst src => wfb src && (sbits dst =? e_bits src)
                                      | _ => true end) (b_instrs b)) (f_blocks f).
Definition c13_wf (f : func) : bool := names_ok f && srcs_wf f.

(* ================================================================== association maps *)
Lemma scalar_eqb_refl s : scalar_eqb s s = true.
Proof. apply scalar_eqb_eq. reflexivity. Qed.

Lemma cst_eqb_eq a b : cst_eqb a b = true <-> a = b.
Proof.
  destruct a as [|x|], b as [|y|]; cbn; try (split; congruence).
  rewrite const_eqb_eq. split; congruence.
Qed.

Lemma cm_get_set m k v k' : cm_get (cm_set m k v) k' = if scalar_eqb k k' then Some v else cm_get m k'.
Proof.
  induction m as [|[k0 v0] t IH]; cbn [cm_set cm_get].
  - destruct (scalar_eqb k k'); reflexivity.
  - destruct (scalar_eqb k0 k) eqn:E0.
    + apply scalar_eqb_eq in E0. subst k0. cbn [cm_get]. destruct (scalar_eqb k k'); reflexivity.
    + cbn [cm_get]. destruct (scalar_eqb k0 k') eqn:E1.
      * apply scalar_eqb_eq in E1. subst k'.
        destruct (scalar_eqb k k0) eqn:E2; [|reflexivity].
        apply scalar_eqb_eq in E2. subst k0. rewrite scalar_eqb_refl in E0. discriminate.
      * exact IH.
Qed.

Lemma cm_get_in m k v : cm_get m k = Some v -> In (k, v) m.
Proof.
  induction m as [|[k0 v0] t IH]; cbn [cm_get]; [discriminate|].
  destruct (scalar_eqb k0 k) eqn:E; [|right; auto].
  apply scalar_eqb_eq in E. intros [= <-]. left. congruence.
Qed.
Lemma cm_get_none m k : cm_get m k = None <-> ~ In k (map fst m).
Proof.
  induction m as [|[k0 v0] t IH]; cbn [cm_get map fst In]; [tauto|].
  destruct (scalar_eqb k0 k) eqn:E.
  - apply scalar_eqb_eq in E. split; [discriminate|tauto].
  - rewrite IH. split; [|tauto]. intros H Hc. destruct Hc as [->|H']; [rewrite scalar_eqb_refl in E; discriminate|tauto].
Qed.
Lemma cm_in_get m k v : NoDup (map fst m) -> In (k, v) m -> cm_get m k = Some v.
Proof.
  induction m as [|[k0 v0] t IH]; cbn [map fst In cm_get]; [tauto|].
  intros Hn [[= -> ->]|Hin]; [rewrite scalar_eqb_refl; reflexivity|].
  inversion Hn as [|? ? Hnot Hn']; subst.
  destruct (scalar_eqb k0 k) eqn:E; [|auto].
  apply scalar_eqb_eq in E. subst k0. exfalso. apply Hnot. apply in_map_iff. exists (k, v). auto.
Qed.

Definition keys (m : cmap) : list scalar := map fst m.

Lemma keys_set m k v : keys (cm_set m k v) = if existsb (scalar_eqb k) (keys m) then keys m else keys m ++ [k].
Proof.
  unfold keys. induction m as [|[k0 v0] t IH]; cbn [cm_set map fst existsb app]; [reflexivity|].
  destruct (scalar_eqb k0 k) eqn:E.
  - apply scalar_eqb_eq in E. subst k0. rewrite scalar_eqb_refl. reflexivity.
  - cbn [map fst]. rewrite IH.
    assert (E' : scalar_eqb k k0 = false).
    { destruct (scalar_eqb k k0) eqn:E2; [|reflexivity]. apply scalar_eqb_eq in E2. subst. rewrite scalar_eqb_refl in E. discriminate. }
    rewrite E'. cbn [orb]. destruct (existsb (scalar_eqb k) (map fst t)); reflexivity.
Qed.
Lemma existsb_eqb_in k l : existsb (scalar_eqb k) l = true <-> In k l.
Proof.
  rewrite existsb_exists. split.
  - intros (x & Hx & E). apply scalar_eqb_eq in E. subst. exact Hx.
  - intros H. exists k. split; [exact H|apply scalar_eqb_refl].
Qed.
Lemma keys_set_in m k v x : In x (keys (cm_set m k v)) <-> x = k \/ In x (keys m).
Proof.
  rewrite keys_set. destruct (existsb (scalar_eqb k) (keys m)) eqn:E.
  - apply existsb_eqb_in in E. split; [tauto|]. intros [->|H]; assumption.
  - rewrite in_app_iff. cbn [In]. split; intros H.
    + destruct H as [H|[H|[]]]; [right; exact H|left; symmetry; exact H].
    + destruct H as [->|H]; [right; left; reflexivity|left; exact H].
Qed.
Lemma nodup_set m k v : NoDup (keys m) -> NoDup (keys (cm_set m k v)).
Proof.
  intros H. rewrite keys_set. destruct (existsb (scalar_eqb k) (keys m)) eqn:E; [exact H|].
  apply NoDup_app_intro; [exact H|constructor; [intros []|constructor]|].
  intros x Hx [<-|[]]. apply existsb_eqb_in in Hx. congruence.
Qed.

Lemma keys_top m : keys (cm_top m) = keys m.
Proof. unfold keys, cm_top. rewrite map_map. reflexivity. Qed.
Lemma cm_get_top m k : cm_get (cm_top m) k = match cm_get m k with Some _ => Some CTop | None => None end.
Proof.
  induction m as [|[k0 v0] t IH]; cbn [cm_top map cm_get fst]; [reflexivity|].
  destruct (scalar_eqb k0 k); [reflexivity|exact IH].
Qed.

(* ================================================================== join *)
Definition jstep (a r : cmap) (kv : scalar * cst) : cmap :=
  match cm_get a (fst kv) with
  | Some c => if cst_eqb c (snd kv) then r else cm_set r (fst kv) CTop
  | None => cm_set r (fst kv) (snd kv)
  end.
Lemma cm_join_fold a b : cm_join a b = fold_left (jstep a) b a.
Proof. reflexivity. Qed.

Lemma jstep_other a r kv s : scalar_eqb (fst kv) s = false -> cm_get (jstep a r kv) s = cm_get r s.
Proof.
  intros E. unfold jstep. destruct (cm_get a (fst kv)) as [c|].
  - destruct (cst_eqb c (snd kv)); [reflexivity|]. rewrite cm_get_set, E. reflexivity.
  - rewrite cm_get_set, E. reflexivity.
Qed.
Lemma jfold_other a t s : ~ In s (keys t) -> forall r, cm_get (fold_left (jstep a) t r) s = cm_get r s.
Proof.
  induction t as [|kv t IH]; intros Hn r; cbn [fold_left]; [reflexivity|].
  cbn [keys map In] in Hn. rewrite IH by (unfold keys; tauto). apply jstep_other.
  destruct (scalar_eqb (fst kv) s) eqn:E; [|reflexivity]. apply scalar_eqb_eq in E. tauto.
Qed.

Lemma jfold_nodup a b : forall r, NoDup (keys r) -> NoDup (keys (fold_left (jstep a) b r)).
Proof.
  induction b as [|kv t IH]; intros r Hr; cbn [fold_left]; [exact Hr|]. apply IH.
  unfold jstep. destruct (cm_get a (fst kv)) as [c|]; [destruct (cst_eqb c (snd kv)); [exact Hr|]|]; apply nodup_set; exact Hr.
Qed.
Lemma cm_join_nodup a b : NoDup (keys a) -> NoDup (keys (cm_join a b)).
Proof. intros H. rewrite cm_join_fold. apply jfold_nodup. exact H. Qed.

Lemma jstep_keys a r kv x : In x (keys (jstep a r kv)) -> In x (keys r) \/ x = fst kv.
Proof.
  unfold jstep. destruct (cm_get a (fst kv)) as [c|]; [destruct (cst_eqb c (snd kv)); [tauto|]|];
    intros H; apply keys_set_in in H; tauto.
Qed.
Lemma jfold_keys a b x : forall r, In x (keys (fold_left (jstep a) b r)) -> In x (keys r) \/ In x (keys b).
Proof.
  induction b as [|kv t IH]; intros r H; cbn [fold_left] in H; [tauto|].
  destruct (IH _ H) as [H1|H1]; [|right; right; exact H1].
  destruct (jstep_keys _ _ _ _ H1) as [H2| ->]; [tauto|right; left; reflexivity].
Qed.
Lemma cm_join_keys a b x : In x (keys (cm_join a b)) -> In x (keys a) \/ In x (keys b).
Proof. rewrite cm_join_fold. apply jfold_keys. Qed.

(* A carries every key of O, with O's value or Top *)
Definition above (O A : cmap) : Prop :=
  forall s x, cm_get O s = Some x -> cm_get A s = Some x \/ cm_get A s = Some CTop.
Lemma above_refl O : above O O.
Proof. intros s x H. tauto. Qed.

Lemma jfold_left_pos a b s x : cm_get a s = Some x ->
  forall r, (cm_get r s = Some x \/ cm_get r s = Some CTop) ->
  cm_get (fold_left (jstep a) b r) s = Some x \/ cm_get (fold_left (jstep a) b r) s = Some CTop.
Proof.
  intros Ha. induction b as [|kv t IH]; intros r Hr; cbn [fold_left]; [exact Hr|]. apply IH.
  destruct (scalar_eqb (fst kv) s) eqn:E; [|rewrite jstep_other by exact E; exact Hr].
  apply scalar_eqb_eq in E. unfold jstep. rewrite E, Ha.
  destruct (cst_eqb x (snd kv)); [exact Hr|]. rewrite cm_get_set, scalar_eqb_refl. tauto.
Qed.
Lemma above_join_left O A b : above O A -> above O (cm_join A b).
Proof.
  intros H s x Hs. rewrite cm_join_fold. destruct (H s x Hs) as [H1|H1].
  - apply jfold_left_pos; [exact H1|tauto].
  - destruct (jfold_left_pos A b s CTop H1 A (or_introl H1)); tauto.
Qed.

Lemma jfold_right_pos a b s y : NoDup (keys b) -> cm_get b s = Some y ->
  forall r, cm_get r s = cm_get a s ->
  cm_get (fold_left (jstep a) b r) s = Some y \/ cm_get (fold_left (jstep a) b r) s = Some CTop.
Proof.
  induction b as [|[k v] t IH]; intros Hn Hb r Hr; [discriminate|].
  cbn [keys map fst] in Hn. inversion Hn as [|? ? Hnot Hn']; subst.
  cbn [cm_get] in Hb. cbn [fold_left]. destruct (scalar_eqb k s) eqn:E.
  - apply scalar_eqb_eq in E. subst k. injection Hb as ->.
    rewrite jfold_other by exact Hnot. unfold jstep. cbn [fst snd].
    destruct (cm_get a s) as [c|] eqn:Ea.
    + destruct (cst_eqb c y) eqn:Ec.
      * apply cst_eqb_eq in Ec. subst c. left. exact Hr.
      * rewrite cm_get_set, scalar_eqb_refl. tauto.
    + rewrite cm_get_set, scalar_eqb_refl. tauto.
  - apply IH; [exact Hn'|exact Hb|]. rewrite jstep_other by exact E. exact Hr.
Qed.
Lemma above_join_right a O : NoDup (keys O) -> above O (cm_join a O).
Proof. intros Hn s y Hs. rewrite cm_join_fold. eapply jfold_right_pos; [exact Hn|exact Hs|reflexivity]. Qed.

Lemma above_trans O A B : above O A -> above A B -> above O B.
Proof.
  intros H1 H2 s x Hs. destruct (H1 s x Hs) as [H|H].
  - exact (H2 s x H).
  - destruct (H2 s CTop H); tauto.
Qed.

(* ---------- the two folds over predecessor states ---------- *)
Notation cjn := (FixedPoint.join_neighbours floc cmap floc_eqb c_join).
Notation clk := (FixedPoint.lookup floc cmap floc_eqb).

Lemma cjn_fold_above m O ps : forall a, above O a ->
  exists J, fold_left (FixedPoint.join_step floc cmap floc_eqb c_join m) ps (Ok (Some a)) = Ok (Some J) /\ above O J.
Proof.
  induction ps as [|p ps IH]; intros a Ha; cbn [fold_left]; [eauto|].
  unfold FixedPoint.join_step at 2. destruct (clk m p) as [x|]; [|apply IH; assumption].
  cbn [c_join]. apply IH. apply above_join_left. assumption.
Qed.
Lemma cjn_above m ps p O : In p ps -> clk m p = Some O -> NoDup (keys O) ->
  exists J, cjn m ps = Ok (Some J) /\ above O J.
Proof.
  unfold FixedPoint.join_neighbours. generalize (@None cmap) as acc.
  induction ps as [|q ps IH]; intros acc Hin Hl Hn; [destruct Hin|].
  cbn [fold_left]. unfold FixedPoint.join_step at 2.
  destruct Hin as [->|Hin].
  - rewrite Hl. destruct acc as [a|]; cbn [c_join].
    + apply cjn_fold_above. apply above_join_right. assumption.
    + apply cjn_fold_above. apply above_refl.
  - destruct (clk m q) as [x|]; [|apply IH; assumption].
    destruct acc as [a|]; cbn [c_join]; apply IH; assumption.
Qed.

Definition rstep (m : list (floc * cmap)) (c : cmap) (p : floc) : cmap :=
  match clk m p with Some s => cm_join c s | None => c end.
Lemma rfold_above m O ps : forall c, above O c -> above O (fold_left (rstep m) ps c).
Proof.
  induction ps as [|p ps IH]; intros c Hc; cbn [fold_left]; [exact Hc|]. apply IH.
  unfold rstep. destruct (clk m p); [apply above_join_left|]; exact Hc.
Qed.
Lemma remap_above m ps p O : In p ps -> clk m p = Some O -> NoDup (keys O) ->
  forall c, above O (fold_left (rstep m) ps c).
Proof.
  induction ps as [|q ps IH]; intros Hin Hl Hn c; [destruct Hin|]. cbn [fold_left].
  destruct Hin as [->|Hin]; [|apply IH; assumption].
  apply rfold_above. unfold rstep. rewrite Hl. apply above_join_right. exact Hn.
Qed.

(* ================================================================== Constants::eval against the semantics *)
Lemma replace_den en e s c : den en (EScalar s) = Ok c ->
  forall e', replace_scalar e s (EConst c) = Ok e' -> den en e' = den en e.
Proof.
  intros Hs. induction e as [t|k|o l IHl r IHr|o bits x IHx|g IHg t IHt f0 IHf]; intros e' H; cbn [replace_scalar] in H.
  - destruct (scalar_eqb t s) eqn:E; injection H as <-; [|reflexivity].
    apply scalar_eqb_eq in E. subst t. rewrite Hs. reflexivity.
  - injection H as <-. reflexivity.
  - destruct (replace_scalar l s (EConst c)) as [l'| |]; try discriminate. cbn [bind] in H.
    destruct (replace_scalar r s (EConst c)) as [r'| |]; try discriminate. cbn [bind] in H.
    unfold mk_bin in H. destruct (negb (e_bits l' =? e_bits r')); [discriminate|]. injection H as <-.
    cbn [den]. rewrite (IHl _ eq_refl), (IHr _ eq_refl). reflexivity.
  - destruct (replace_scalar x s (EConst c)) as [x'| |]; try discriminate. cbn [bind] in H.
    assert (e' = EExt o bits x').
    { unfold mk_ext in H. destruct o;
        match type of H with (if ?b then _ else _) = _ => destruct b end; congruence. }
    subst e'. cbn [den]. rewrite (IHx _ eq_refl). reflexivity.
  - destruct (replace_scalar g s (EConst c)) as [g'| |]; try discriminate. cbn [bind] in H.
    destruct (replace_scalar t s (EConst c)) as [t'| |]; try discriminate. cbn [bind] in H.
    destruct (replace_scalar f0 s (EConst c)) as [f'| |]; try discriminate. cbn [bind] in H.
    unfold mk_ite in H. match type of H with (if ?b then _ else _) = _ => destruct b end; [discriminate|].
    injection H as <-. cbn [den]. rewrite (IHg _ eq_refl), (IHt _ eq_refl), (IHf _ eq_refl). reflexivity.
Qed.

Lemma eden_none_den en e : wf e -> forall v, eden (fun _ => None) e = Ok v -> den en e = Ok v.
Proof.
  induction e as [t|k|o l IHl r IHr|o bits x IHx|g IHg t IHt f0 IHf]; cbn [wf eden den]; intros W v H.
  - discriminate.
  - exact H.
  - destruct W as (Wl & Wr & Eb).
    destruct (eden _ l) as [a| |] eqn:El; try discriminate. destruct (eden _ r) as [b| |] eqn:Er; try discriminate.
    cbn [bind] in H. rewrite (IHl Wl a eq_refl), (IHr Wr b eq_refl). cbn [bind].
    destruct (eden_good _ l env_none_ok Wl a El) as [A1 _]. destruct (eden_good _ r env_none_ok Wr b Er) as [B1 _].
    unfold sp_bin_c. replace (cbits a =? cbits b) with true by (symmetry; apply Z.eqb_eq; congruence). exact H.
  - assert (Wx : wf x) by (destruct o; tauto).
    destruct (eden _ x) as [a| |] eqn:Ex; try discriminate. cbn [bind] in H.
    rewrite (IHx Wx a eq_refl). exact H.
  - destruct W as (Wg & Wt & Wf & E1 & E2).
    destruct (eden _ g) as [cv| |] eqn:Eg; try discriminate. cbn [bind] in H.
    rewrite (IHg Wg cv eq_refl). cbn [bind].
    destruct (eden_good _ g env_none_ok Wg cv Eg) as [A1 _].
    replace (cbits cv =? 1) with true by (symmetry; apply Z.eqb_eq; congruence). cbn [negb].
    destruct (cval cv =? 1); [apply IHt|apply IHf]; assumption.
Qed.

(* constants stored in a map have the width of their key and are trimmed *)
Definition cgood (A : cmap) : Prop :=
  Forall (fun kv : scalar * cst => match snd kv with CConst c => cbits c = sbits (fst kv) /\ wf (EConst c) | _ => True end) A.
Lemma cgood_get A s c : cgood A -> cm_get A s = Some (CConst c) -> cbits c = sbits s /\ wf (EConst c).
Proof. intros H Hg. apply cm_get_in in Hg. unfold cgood in H. rewrite Forall_forall in H. exact (H _ Hg). Qed.

Lemma cm_scalar_get A s c : cm_scalar A s = Some c <-> cm_get A s = Some (CConst c).
Proof. unfold cm_scalar. destruct (cm_get A s) as [[|x|]|]; split; congruence. Qed.

Lemma eval_fold_sound en A : cgood A -> forall ss e e', wf e ->
  (forall s c, In s ss -> cm_get A s = Some (CConst c) -> env_get en (skey_of s) = Some c) ->
  eval_fold A ss e = Ok (Some e') -> wf e' /\ e_bits e' = e_bits e /\ den en e' = den en e.
Proof.
  intros HA. induction ss as [|s t IH]; intros e e' W Hen H; cbn [eval_fold] in H.
  - injection H as <-. auto.
  - destruct (cm_scalar A s) as [c|] eqn:Es; [|discriminate]. apply cm_scalar_get in Es.
    destruct (cgood_get A s c HA Es) as [Cw Cwf].
    destruct (replace_ok (fun _ => None) s c e W Cwf Cw) as (e1 & R1 & W1 & B1 & _).
    rewrite R1 in H.
    assert (D1 : den en e1 = den en e).
    { apply (replace_den en e s c); [|exact R1]. cbn [den]. rewrite (Hen s c (or_introl eq_refl) Es).
      rewrite Cw, Z.eqb_refl. reflexivity. }
    destruct (IH e1 e' W1 (fun s0 c0 Hin => Hen s0 c0 (or_intror Hin)) H) as (W' & B' & D').
    split; [exact W'|]. split; congruence.
Qed.

Lemma cm_eval_sound en A e v : wf e -> cgood A ->
  (forall s c, In s (scalars e) -> cm_get A s = Some (CConst c) -> env_get en (skey_of s) = Some c) ->
  cm_eval A e = Ok (Some v) -> den en e = Ok v.
Proof.
  intros W HA Hen H. unfold cm_eval in H.
  destruct (eval_fold A (scalars e) e) as [[e'|]| |] eqn:Ef; try discriminate. cbn [bind] in H.
  destruct (eval_fold_sound en A HA _ _ _ W Hen Ef) as (W' & _ & D).
  destruct (eval e') as [c| |] eqn:Ev; try discriminate. injection H as ->.
  rewrite <- D. apply eden_none_den; [exact W'|]. rewrite <- eval_eden by exact W'. exact Ev.
Qed.

Lemma eval_fold_wf A : cgood A -> forall ss e e', wf e ->
  eval_fold A ss e = Ok (Some e') -> wf e' /\ e_bits e' = e_bits e.
Proof.
  intros HA. induction ss as [|s t IH]; intros e e' W H; cbn [eval_fold] in H.
  - injection H as <-. auto.
  - destruct (cm_scalar A s) as [c|] eqn:Es; [|discriminate]. apply cm_scalar_get in Es.
    destruct (cgood_get A s c HA Es) as [Cw Cwf].
    destruct (replace_ok (fun _ => None) s c e W Cwf Cw) as (e1 & R1 & W1 & B1 & _).
    rewrite R1 in H. destruct (IH e1 e' W1 H) as (W' & B'). split; [exact W'|congruence].
Qed.

Lemma cm_eval_good A e v : wf e -> cgood A -> cm_eval A e = Ok (Some v) -> cbits v = e_bits e /\ wf (EConst v).
Proof.
  intros W HA H. unfold cm_eval in H.
  destruct (eval_fold A (scalars e) e) as [[e'|]| |] eqn:Ef; try discriminate. cbn [bind] in H.
  destruct (eval_fold_wf A HA _ _ _ W Ef) as (W' & B).
  destruct (eval e') as [c| |] eqn:Ev; try discriminate. injection H as ->.
  rewrite eval_eden in Ev by exact W'.
  destruct (eden_good _ e' env_none_ok W' v Ev) as [G1 G2]. pose proof (wf_bits e' W') as Wb.
  split; [congruence|]. cbn [wf]. rewrite G1. split; [exact Wb|rewrite <- G1; exact G2].
Qed.

(* Constants::eval never panics on a good map and a well-sorted expression *)
Lemma eval_fold_np A : cgood A -> forall ss e, wf e -> eval_fold A ss e <> Panic.
Proof.
  intros HA. induction ss as [|s t IH]; intros e W; cbn [eval_fold]; [discriminate|].
  destruct (cm_scalar A s) as [c|] eqn:Es; [|discriminate]. apply cm_scalar_get in Es.
  destruct (cgood_get A s c HA Es) as [Cw Cwf].
  destruct (replace_ok (fun _ => None) s c e W Cwf Cw) as (e1 & R1 & W1 & _). rewrite R1. apply IH. exact W1.
Qed.

(* ================================================================== goodness of states *)
Lemma cgood_set m k v : cgood m ->
  match v with CConst c => cbits c = sbits k /\ wf (EConst c) | _ => True end -> cgood (cm_set m k v).
Proof.
  intros H Hv. unfold cgood in *. induction m as [|[k0 v0] t IH]; cbn [cm_set].
  - constructor; [exact Hv|constructor].
  - inversion H as [|? ? H0 Ht]; subst. destruct (scalar_eqb k0 k) eqn:E.
    + apply scalar_eqb_eq in E. subst k0. constructor; [exact Hv|exact Ht].
    + constructor; [exact H0|apply IH; exact Ht].
Qed.
Lemma cgood_top m : cgood (cm_top m).
Proof. unfold cgood, cm_top. apply Forall_forall. intros kv H. apply in_map_iff in H as (x & <- & _). exact I. Qed.
Lemma jfold_cgood a b : cgood b -> forall r, cgood r -> cgood (fold_left (jstep a) b r).
Proof.
  induction b as [|kv t IH]; intros Hb r Hr; cbn [fold_left]; [exact Hr|].
  inversion Hb as [|? ? H0 Ht]; subst. apply IH; [exact Ht|].
  unfold jstep. destruct (cm_get a (fst kv)) as [c|].
  - destruct (cst_eqb c (snd kv)); [exact Hr|]. apply cgood_set; [exact Hr|exact I].
  - apply cgood_set; [exact Hr|]. destruct kv as [k [|c|]]; cbn [fst snd] in *; auto.
Qed.
Lemma cgood_join a b : cgood a -> cgood b -> cgood (cm_join a b).
Proof. intros Ha Hb. rewrite cm_join_fold. apply jfold_cgood; assumption. Qed.

Lemma ss_mem_in s x : ss_mem s x = true <-> In s x.
Proof. unfold ss_mem. apply existsb_eqb_in. Qed.

(* ================================================================== goodness of states *)
Definition set_tops (ws : list scalar) (m : cmap) : cmap := fold_left (fun m w => cm_set m w CTop) ws m.

Lemma set_tops_keys ws : forall m x, In x (keys (set_tops ws m)) <-> In x ws \/ In x (keys m).
Proof.
  unfold set_tops. induction ws as [|w t IH]; intros m x; cbn [fold_left In]; [tauto|].
  rewrite IH, keys_set_in. split.
  - intros [H|[H|H]]; [left; right; exact H|left; left; symmetry; exact H|right; exact H].
  - intros [[H|H]|H]; [right; left; symmetry; exact H|left; exact H|right; right; exact H].
Qed.
Lemma fold_inv {A} (P : cmap -> Prop) (h : cmap -> A -> cmap) l :
  (forall m a, P m -> P (h m a)) -> forall m, P m -> P (fold_left h l m).
Proof. intros H. induction l as [|a t IH]; intros m Hm; cbn [fold_left]; [exact Hm|]. apply IH. apply H. exact Hm. Qed.
Lemma fold_keys_gen {A} (h : cmap -> A -> cmap) (G : A -> scalar -> Prop) :
  (forall m a x, In x (keys (h m a)) <-> G a x \/ In x (keys m)) ->
  forall l m x, In x (keys (fold_left h l m)) <-> (exists a, In a l /\ G a x) \/ In x (keys m).
Proof.
  intros H. induction l as [|a t IH]; intros m x; cbn [fold_left].
  - split; [tauto|]. intros [(a & [] & _)|H0]; exact H0.
  - rewrite IH, H. split.
    + intros [(a' & Hin & Hg)|[Hg|Hk]]; [left; exists a'; split; [right; exact Hin|exact Hg]|left; exists a; split; [left; reflexivity|exact Hg]|right; exact Hk].
    + intros [(a' & [<-|Hin] & Hg)|Hk]; [right; left; exact Hg|left; exists a'; auto|right; right; exact Hk].
Qed.

(* which scalars are keys of the entry state *)
Lemma wkeys_spec f x : In x (wkeys f) <->
  exists b i, In b (f_blocks f) /\ In i (b_instrs b) /\ In x (written_of_op (i_op i)).
Proof.
  unfold wkeys, entry_seed. fold (keys (fold_left (fun m b => fold_left (fun m i => fold_left (fun m s => cm_set m s CTop) (written_of_op (i_op i)) m) (b_instrs b) m) (f_blocks f) [])).
  rewrite (fold_keys_gen (fun m b => fold_left (fun m i => fold_left (fun m s => cm_set m s CTop) (written_of_op (i_op i)) m) (b_instrs b) m)
             (fun b x => exists i, In i (b_instrs b) /\ In x (written_of_op (i_op i)))).
  - cbn [keys map In]. split; [intros [(b & Hb & i & Hi & Hx)|[]]; eauto|intros (b & i & Hb & Hi & Hx); left; eauto].
  - intros m b y.
    apply (fold_keys_gen (fun m i => fold_left (fun m s => cm_set m s CTop) (written_of_op (i_op i)) m)
             (fun i x => In x (written_of_op (i_op i)))).
    intros m0 i z. apply (set_tops_keys (written_of_op (i_op i)) m0 z).
Qed.

Section Good.
  Variable f : func.

  Definition good (A : cmap) : Prop :=
    NoDup (keys A) /\ (forall k, In k (keys A) <-> In k (wkeys f)) /\ cgood A.

  Lemma good_set A k v : good A -> In k (wkeys f) ->
    match v with CConst c => cbits c = sbits k /\ wf (EConst c) | _ => True end -> good (cm_set A k v).
  Proof.
    intros (A1 & A2 & A3) Hk Hv. split; [apply nodup_set; exact A1|split].
    - intros x. rewrite keys_set_in, A2. split; [intros [->|H]; assumption|tauto].
    - apply cgood_set; assumption.
  Qed.
  Lemma good_top A : good A -> good (cm_top A).
  Proof.
    intros (A1 & A2 & A3). split; [rewrite keys_top; exact A1|split; [rewrite keys_top; exact A2|apply cgood_top]].
  Qed.
  Lemma good_join a b : good a -> good b -> good (cm_join a b).
  Proof.
    intros (A1 & A2 & A3) (B1 & B2 & B3). split; [apply cm_join_nodup; exact A1|split].
    - intros k. split.
      + intros Hk. destruct (cm_join_keys _ _ _ Hk) as [H|H]; [apply A2|apply B2]; exact H.
      + intros Hk. apply A2 in Hk. destruct (cm_get a k) as [x|] eqn:E; [|apply cm_get_none in E; contradiction].
        destruct (above_join_left a a b (above_refl a) k x E) as [H|H]; apply cm_get_in in H; unfold keys; apply in_map_iff; eexists; split; [|exact H| |exact H]; reflexivity.
    - apply cgood_join; assumption.
  Qed.

  (* the entry state: keys = wkeys by definition, all values Top *)
  Definition all_top (A : cmap) : Prop := forall k v, cm_get A k = Some v -> v = CTop.
  Lemma seed_facts : NoDup (keys (entry_seed f)) /\ cgood (entry_seed f) /\ all_top (entry_seed f).
  Proof.
    unfold entry_seed.
    apply (fold_inv (fun m => NoDup (keys m) /\ cgood m /\ all_top m)); [|split; [constructor|split; [constructor|intros k v H; discriminate H]]].
    intros m b Hm. apply (fold_inv (fun m => NoDup (keys m) /\ cgood m /\ all_top m)); [|exact Hm].
    intros m0 i Hm0. apply (fold_inv (fun m => NoDup (keys m) /\ cgood m /\ all_top m)); [|exact Hm0].
    intros m1 s (N1 & N2 & N3). split; [apply nodup_set; exact N1|split; [apply cgood_set; [exact N2|exact I]|]].
    intros k v. rewrite cm_get_set. destruct (scalar_eqb s k); [intros [= <-]; reflexivity|apply N3].
  Qed.
  Lemma good_seed : good (entry_seed f).
  Proof. destruct seed_facts as (A & B & _). split; [exact A|split; [intros k; reflexivity|exact B]]. Qed.

  Lemma written_in_wkeys l i x : loc_instruction f l = Some i -> In x (written_of_op (i_op i)) -> In x (wkeys f).
  Proof.
    intros Hi Hx. destruct (loc_instruction_in f l i Hi) as (b & Hb & Hin). apply wkeys_spec. eauto.
  Qed.

  Hypothesis Hsrc : srcs_wf f = true.

  Lemma srcs_wf_at l i dst src : loc_instruction f l = Some i -> i_op i = OAssign dst src ->
    wf src /\ sbits dst = e_bits src.
  Proof.
    intros Hi Ho. destruct (loc_instruction_in f l i Hi) as (b & Hb & Hin).
    unfold srcs_wf in Hsrc. rewrite forallb_forall in Hsrc. specialize (Hsrc b Hb).
    rewrite forallb_forall in Hsrc. specialize (Hsrc i Hin). rewrite Ho in Hsrc.
    apply andb_prop in Hsrc as [H1 H2]. split; [apply wfb_wf; exact H1|lia].
  Qed.

  (* the body of the transfer function maps good states to good states *)
  Lemma good_body l s a : good s -> c_body f l s = Ok a -> good a.
  Proof.
    intros Hs. unfold c_body. destruct l as [bi ii|h t|bi]; try (intros [= <-]; exact Hs).
    destruct (loc_instruction f (LInstr bi ii)) as [i|] eqn:Hi; [|discriminate].
    pose proof (fun x => written_in_wkeys (LInstr bi ii) i x Hi) as HW. unfold written_of_op in HW.
    destruct (i_op i) as [dst src|idx src|dst idx|tgt|intr|ph] eqn:Ho; cbn [op_scalars_written] in HW.
    - destruct (srcs_wf_at _ _ _ _ Hi Ho) as [Wsrc Wb].
      destruct (cm_eval s src) as [[c|]| |] eqn:Ee; try discriminate; cbn [bind]; intros [= <-].
      + apply good_set; [exact Hs|apply HW; left; reflexivity|].
        destruct (cm_eval_good s src c Wsrc (proj2 (proj2 Hs)) Ee) as [G1 G2]. split; [congruence|exact G2].
      + apply good_set; [exact Hs|apply HW; left; reflexivity|exact I].
    - intros [= <-]. exact Hs.
    - intros [= <-]. apply good_set; [exact Hs|apply HW; left; reflexivity|exact I].
    - intros [= <-]. apply good_top. exact Hs.
    - destruct (intr_scalars_written intr) as [ws|]; intros [= <-]; [|apply good_top; exact Hs].
      revert s Hs. induction ws as [|w ws IH]; intros s Hs; cbn [fold_left]; [exact Hs|].
      apply IH; [intros x Hx; apply HW; right; exact Hx|]. apply good_set; [exact Hs|apply HW; left; reflexivity|exact I].
    - intros [= <-]. exact Hs.
  Qed.

  (* the state the transfer function starts from *)
  Definition pick (entry l : floc) (st : option cmap) : cmap :=
    match st with Some s => if floc_eqb l entry then entry_seed f else s | None => entry_seed f end.
  Lemma c_trans_pick entry l st : from_function f = Some (Ok entry) -> c_trans f l st = c_body f l (pick entry l st).
  Proof. intros H. unfold c_trans. rewrite H. reflexivity. Qed.
  Lemma good_pick entry l st : (forall s, st = Some s -> good s) -> good (pick entry l st).
  Proof. intros H. unfold pick. destruct st as [s|]; [destruct (floc_eqb l entry); [apply good_seed|apply H; reflexivity]|apply good_seed]. Qed.
  Lemma good_trans entry l st a : from_function f = Some (Ok entry) ->
    (forall s, st = Some s -> good s) -> c_trans f l st = Ok a -> good a.
  Proof. intros He Hst. rewrite (c_trans_pick entry l st He). apply good_body. apply good_pick. exact Hst. Qed.
End Good.

(* ================================================================== one step of an execution *)
Lemma key_mem_cons k x l : key_mem k (x :: l) = skey_eqb k x || key_mem k l.
Proof. reflexivity. Qed.
Lemma skey_eqb_refl k : skey_eqb k k = true.
Proof. apply skey_eqb_eq. reflexivity. Qed.
Lemma skey_eqb_sym a b : skey_eqb a b = skey_eqb b a.
Proof.
  destruct (skey_eqb a b) eqn:E1, (skey_eqb b a) eqn:E2; try reflexivity.
  - apply skey_eqb_eq in E1. subst. rewrite skey_eqb_refl in E2. discriminate.
  - apply skey_eqb_eq in E2. subst. rewrite skey_eqb_refl in E1. discriminate.
Qed.

(* what a step that moves on did: an instruction executed with event ev, or nothing changed *)
Lemma sem_step_next_inv f l st l' st' ev : sem_step f l st = Sem.Next l' st' ev ->
  (exists i, loc_instruction f l = Some i /\ exec_op st (i_op i) = Ok (st', ev)) \/
  (loc_instruction f l = None /\ st' = st /\ ev = EvNone).
Proof.
  destruct l as [b ii|h t|b]; unfold sem_step.
  - destruct (loc_instruction f (LInstr b ii)) as [i|]; [|discriminate].
    destruct (exec_op st (i_op i)) as [[st1 ev1]| |] eqn:Ex; try discriminate.
    intros H. left. exists i. split; [reflexivity|]. rewrite Ex.
    destruct ev1; try discriminate H;
      (destruct (forward f (LInstr b ii)) as [succs| |]; [|discriminate H ..];
       match type of H with choose f st1 ?e succs = _ =>
         destruct (choose_cases f st1 e succs) as [(l0 & E & _)|[E|(e0 & E)]]; rewrite E in H; [|discriminate H ..] end;
       injection H as _ <- <-; reflexivity).
  - cbn [loc_instruction]. destruct (forward f (LEdge h t)) as [[|x [|? ?]]| |]; try discriminate.
    intros [= _ <- <-]. right. auto.
  - cbn [loc_instruction]. destruct (forward f (LEmpty b)) as [succs| |]; [|discriminate ..].
    destruct (choose_cases f st EvNone succs) as [(l0 & -> & _)|[-> |(e0 & ->)]]; [|discriminate ..].
    intros [= _ <- <-]. right. auto.
Qed.

Definition asg_after (asg : list skey) (ev : event) : list skey :=
  match ev with EvAssign k _ | EvLoad k _ _ => k :: asg | _ => asg end.

Lemma scalar_eqb_false a b : a <> b -> scalar_eqb a b = false.
Proof. intros H. destruct (scalar_eqb a b) eqn:E; [|reflexivity]. apply scalar_eqb_eq in E. contradiction. Qed.
Lemma skey_eqb_false a b : a <> b -> skey_eqb a b = false.
Proof. intros H. destruct (skey_eqb a b) eqn:E; [|reflexivity]. apply skey_eqb_eq in E. contradiction. Qed.
Lemma get_in_keys A s v : cm_get A s = Some v -> In s (keys A).
Proof. intros H. apply cm_get_in in H. unfold keys. apply in_map_iff. exists (s, v). auto. Qed.

(* ================================================================== abstract states against concrete environments *)
(* every reported constant is the concrete value (unconditionally) *)
Definition usound (A : cmap) (en : senv) : Prop :=
  forall s c, cm_get A s = Some (CConst c) -> env_get en (skey_of s) = Some c.

Section Exec.
  Variable f : func.
  Hypothesis Hnames : names_ok f = true.
  Hypothesis Hsrc : srcs_wf f = true.

  Lemma names_inj s t : In s (wkeys f) -> In t (wkeys f) -> skey_of s = skey_of t -> s = t.
  Proof.
    intros Hs Ht E. unfold names_ok in Hnames.
    rewrite forallb_forall in Hnames. specialize (Hnames s Hs). rewrite forallb_forall in Hnames. specialize (Hnames t Ht).
    rewrite E, skey_eqb_refl in Hnames. cbn [implb] in Hnames. apply scalar_eqb_eq. exact Hnames.
  Qed.

  Lemma usound_seed en : usound (entry_seed f) en.
  Proof. intros s c H. destruct (seed_facts f) as (_ & _ & T). specialize (T s _ H). discriminate T. Qed.

  Lemma usound_ext A B en : (forall k, cm_get A k = cm_get B k) -> usound A en -> usound B en.
  Proof. intros E H s c Hg. apply H. rewrite E. exact Hg. Qed.

  (* a join that includes O describes every environment O describes (O carries every key) *)
  Lemma usound_above O A en : good f O -> (forall k, In k (keys A) -> In k (wkeys f)) ->
    usound O en -> above O A -> usound A en.
  Proof.
    intros (_ & GO & _) HA HO Hab s c Hg.
    assert (Hs : In s (keys O)) by (apply GO; apply HA; eapply get_in_keys; exact Hg).
    destruct (cm_get O s) as [x|] eqn:Eo; [|apply cm_get_none in Eo; contradiction].
    destruct (Hab s x Eo) as [H|H]; rewrite H in Hg; [|discriminate]. injection Hg as ->. exact (HO s c Eo).
  Qed.

  (* assigning dst (abstractly cv, concretely v) *)
  Lemma usound_set s en dst cv v : good f s -> usound s en -> In dst (wkeys f) ->
    (forall c, cv = CConst c -> v = c) ->
    usound (cm_set s dst cv) (env_set en (skey_of dst) v).
  Proof.
    intros (G1 & G2 & G3) HS Hd Hv t c Hg. rewrite cm_get_set in Hg. rewrite SPOProofs.env_get_set.
    destruct (scalar_eqb dst t) eqn:E.
    - apply scalar_eqb_eq in E. subst t. rewrite skey_eqb_refl. injection Hg as ->. f_equal. apply Hv. reflexivity.
    - assert (Ht : In t (wkeys f)) by (apply G2; eapply get_in_keys; exact Hg).
      assert (Hne : skey_of dst <> skey_of t).
      { intros Ek. rewrite (names_inj dst t Hd Ht Ek), scalar_eqb_refl in E. discriminate. }
      rewrite (skey_eqb_false _ _ Hne). apply HS. exact Hg.
  Qed.
  Lemma usound_top s en : usound (cm_top s) en.
  Proof. intros t c Hg. rewrite cm_get_top in Hg. destruct (cm_get s t); discriminate. Qed.

  (* executing the instruction at l from a described state *)
  Lemma body_usound l i s st st' ev new :
    loc_instruction f l = Some i -> good f s -> usound s (st_env st) ->
    exec_op st (i_op i) = Ok (st', ev) -> c_body f l s = Ok new -> usound new (st_env st').
  Proof.
    intros Hi Hg Hd Hex Ht.
    pose proof (fun x => written_in_wkeys f l i x Hi) as HW. unfold written_of_op in HW.
    destruct l as [bi ii|h t|bi]; try discriminate Hi.
    unfold c_body in Ht. rewrite Hi in Ht.
    destruct (i_op i) as [dst src|idx src|dst idx|tgt|intr|ph] eqn:Ho; cbn [exec_op op_scalars_written] in *.
    - (* Assign *)
      destruct (srcs_wf_at f Hsrc _ _ _ _ Hi Ho) as [Wsrc _].
      destruct (den (st_env st) src) as [v| |] eqn:Ed; try discriminate. cbn [bind] in Hex. injection Hex as <- <-.
      destruct (cm_eval s src) as [r| |] eqn:Ee; try discriminate. cbn [bind] in Ht. injection Ht as <-.
      cbn [st_env]. apply usound_set; [exact Hg|exact Hd|apply HW; left; reflexivity|].
      intros c Hc. destruct r as [c'|]; [|discriminate]. injection Hc as ->.
      assert (Hden : den (st_env st) src = Ok c).
      { apply (cm_eval_sound (st_env st) s src c Wsrc (proj2 (proj2 Hg))); [|exact Ee].
        intros x cx _ Hgx. exact (Hd x cx Hgx). }
      congruence.
    - (* Store *)
      destruct (den (st_env st) src) as [v| |]; try discriminate. cbn [bind] in Hex.
      destruct (den (st_env st) idx) as [ix| |]; try discriminate. cbn [bind] in Hex.
      destruct (addr_of ix) as [a| |]; try discriminate. cbn [bind] in Hex.
      destruct (mem_store (st_mem st) a v) as [m'| |]; try discriminate. cbn [bind] in Hex.
      injection Hex as <- <-. injection Ht as <-. exact Hd.
    - (* Load *)
      destruct (den (st_env st) idx) as [ix| |]; try discriminate. cbn [bind] in Hex.
      destruct (addr_of ix) as [a| |]; try discriminate. cbn [bind] in Hex.
      destruct (mem_load (st_mem st) a (sbits dst)) as [v| |]; try discriminate. cbn [bind] in Hex.
      injection Hex as <- <-. injection Ht as <-. cbn [st_env].
      apply usound_set; [exact Hg|exact Hd|apply HW; left; reflexivity|discriminate].
    - (* Branch *)
      destruct (den (st_env st) tgt) as [tv| |]; try discriminate. cbn [bind] in Hex.
      destruct (addr_of tv) as [a| |]; try discriminate. cbn [bind] in Hex.
      injection Hex as <- <-. injection Ht as <-. apply usound_top.
    - discriminate.
    - injection Hex as <- <-. injection Ht as <-. exact Hd.
  Qed.
End Exec.

(* ================================================================== executions against an exact solution *)
Lemma cmap_eqb_get a b : cmap_eqb a b = true -> forall k, cm_get a k = cm_get b k.
Proof.
  unfold cmap_eqb. intros H k. apply andb_prop in H as [H Hba]. apply andb_prop in H as [_ Hab].
  unfold cmap_sub in *. rewrite forallb_forall in Hab, Hba.
  destruct (cm_get a k) as [v|] eqn:Ea.
  - specialize (Hab _ (cm_get_in _ _ _ Ea)). cbn [fst snd] in Hab.
    destruct (cm_get b k) as [v'|]; [|discriminate]. apply cst_eqb_eq in Hab. congruence.
  - destruct (cm_get b k) as [v'|] eqn:Eb; [|reflexivity].
    specialize (Hba _ (cm_get_in _ _ _ Eb)). cbn [fst snd] in Hba. rewrite Ea in Hba. discriminate.
Qed.

Lemma lookup_in {S0} (m : list (floc * S0)) l s : FixedPoint.lookup floc S0 floc_eqb m l = Some s -> In (l, s) m.
Proof.
  induction m as [|[k v] t IH]; cbn [FixedPoint.lookup]; [discriminate|].
  destruct (floc_eqb k l) eqn:E; [|right; auto]. apply floc_eqb_eq in E. intros [= <-]. left. congruence.
Qed.


Lemma from_function_of f e eb : g_entry (f_cfg f) = Some e -> find_block (f_blocks f) e = Some eb ->
  from_function f = Some (Ok (block_first_loc eb)).
Proof. intros He Hb. unfold from_function, f_block, cfg_block. rewrite He. fold (f_blocks f). rewrite Hb. reflexivity. Qed.

(* ================================================================== executions against an exact solution *)
Section Sound.
  Variable f : func.
  Hypothesis Hinv : cfg_inv (f_cfg f) = true.
  Hypothesis Hwf : c13_wf f = true.
  Variables (e : Z) (eb : block).
  Hypothesis He : g_entry (f_cfg f) = Some e.
  Hypothesis Hb : find_block (f_blocks f) e = Some eb.
  Let entry := block_first_loc eb.
  Variable m : list (floc * cmap).
  Hypothesis Hdom : forall l, clk m l <> None <-> reachL f entry l.
  Hypothesis Hgood : forall l s, clk m l = Some s -> good f s.
  Hypothesis Hexact : exact_solution f m = true.

  Lemma Hnames : names_ok f = true. Proof. unfold c13_wf in Hwf. apply andb_prop in Hwf. tauto. Qed.
  Lemma Hsrc : srcs_wf f = true. Proof. unfold c13_wf in Hwf. apply andb_prop in Hwf. tauto. Qed.
  Lemma Hentry : entry_loc f = Some entry. Proof. unfold entry_loc. rewrite He, Hb. reflexivity. Qed.
  Lemma Heb : In eb (f_blocks f). Proof. exact (proj1 (find_block_some _ _ _ Hb)). Qed.
  Lemma Hff : from_function f = Some (Ok entry). Proof. exact (from_function_of f e eb He Hb). Qed.

  Lemma exact_eqn l s : clk m l = Some s ->
    exists sto new, cjn m (il_pred f l) = Ok sto /\ c_trans f l sto = Ok new /\ forall k, cm_get new k = cm_get s k.
  Proof.
    intros Hl. unfold exact_solution in Hexact. rewrite forallb_forall in Hexact.
    specialize (Hexact _ (lookup_in m l s Hl)). cbn [fst snd] in Hexact. unfold exact_at in Hexact. unfold il_pred.
    destruct (backward f l) as [ps| |]; try discriminate.
    destruct (cjn m ps) as [sto| |] eqn:Ej; try discriminate.
    destruct (c_trans f l sto) as [new| |] eqn:Et; try discriminate.
    exists sto, new. split; [reflexivity|split; [exact Et|apply cmap_eqb_get; exact Hexact]].
  Qed.

  Lemma cjn_good ps sto : cjn m ps = Ok sto -> forall s, sto = Some s -> good f s.
  Proof.
    intros H. apply (join_neighbours_good floc cmap floc_eqb c_join (good f)
                      (fun a b j Ha Hb0 Hj => ltac:(injection Hj as <-; apply good_join; assumption)) m ps sto); [|exact H].
    intros l s Hl. exact (Hgood l s Hl).
  Qed.

  (* the state before executing l: the very first visit of the entry, or a state described by the
     out-state of an executed predecessor *)
  Definition pre (l : floc) (st : sstate) (asg : list skey) : Prop :=
    reachL f entry l /\
    ((l = entry /\ asg = []) \/ exists p O, In p (il_pred f l) /\ clk m p = Some O /\ usound O (st_env st)).

  (* the state the transfer function starts from at l describes st *)
  Lemma in_state_usound l st asg sto : pre l st asg -> cjn m (il_pred f l) = Ok sto ->
    good f (pick f entry l sto) /\ usound (pick f entry l sto) (st_env st).
  Proof.
    intros (Hr & Hc) Hj. split; [apply good_pick; intros s Hs; eapply cjn_good; eassumption|].
    destruct (floc_eqb l entry) eqn:E.
    - unfold pick. rewrite E. destruct sto; apply usound_seed.
    - destruct Hc as [[-> _]|(p & O & Hp & Hl & Hd)].
      + assert (floc_eqb entry entry = true) by (apply floc_eqb_eq; reflexivity). congruence.
      + destruct (cjn_above m (il_pred f l) p O Hp Hl (proj1 (Hgood p O Hl))) as (J & HJ & Hab).
        rewrite HJ in Hj. injection Hj as <-. unfold pick. rewrite E.
        pose proof (cjn_good _ _ HJ J eq_refl) as GJ.
        apply (usound_above f O J _ (Hgood p O Hl)); [intros k Hk; apply (proj1 (proj2 GJ)); exact Hk|exact Hd|exact Hab].
  Qed.

  Lemma post_of_pre l st l' st' ev asg : pre l st asg -> sem_step f l st = Sem.Next l' st' ev ->
    exists O, clk m l = Some O /\ usound O (st_env st').
  Proof.
    intros Hpre Hs. pose proof Hpre as (Hr & _).
    destruct (clk m l) as [O|] eqn:Hl; [|exfalso; exact (proj2 (Hdom l) Hr Hl)].
    exists O. split; [reflexivity|].
    destruct (exact_eqn l O Hl) as (sto & new & Hj & Ht & Hget).
    destruct (in_state_usound l st asg sto Hpre Hj) as [Gs Ds].
    apply (usound_ext new O); [exact Hget|]. rewrite (c_trans_pick f entry l sto Hff) in Ht.
    destruct (sem_step_next_inv f l st l' st' ev Hs) as [(i & Hins & Hex)|(Hins & -> & ->)].
    - exact (body_usound f Hnames Hsrc l i _ st st' ev new Hins Gs Ds Hex Ht).
    - unfold c_body in Ht. destruct l as [bi ii|h t|bi]; [|injection Ht as <-; exact Ds ..].
      rewrite Hins in Ht. discriminate.
  Qed.

  Lemma pre_step l st l' st' ev asg : pre l st asg -> sem_step f l st = Sem.Next l' st' ev -> pre l' st' (asg_after asg ev).
  Proof.
    intros Hpre Hs. pose proof Hpre as (Hr & _).
    pose proof (sem_step_next f l st l' st' ev Hs) as Hin.
    assert (Hr' : reachL f entry l') by (eapply FixedPointProofs.reach_step; eassumption).
    assert (Hp : In l (il_pred f l')) by (apply (il_converse f Hinv eb Heb); assumption).
    destruct (post_of_pre l st l' st' ev asg Hpre Hs) as (O & Hl & Hd).
    split; [exact Hr'|]. right. exists l, O. auto.
  Qed.

  Lemma run_pre fuel : forall l st asg, pre l st asg ->
    forall ti a, In (ti, a) (with_assigned asg (sem_run fuel f l st)) -> pre (ti_loc ti) (ti_before ti) a.
  Proof.
    induction fuel as [|fuel IH]; intros l st asg Hpre ti a Hin; [destruct Hin|].
    cbn [sem_run with_assigned] in Hin. destruct Hin as [[= <- <-]|Hin]; [exact Hpre|].
    cbn [ti_res] in Hin.
    destruct (sem_step f l st) as [l' st1 ev| | |] eqn:Es; try destruct Hin.
    eapply IH; [|exact Hin].
    replace (match ev with EvAssign k _ | EvLoad k _ _ => k :: asg | _ => asg end) with (asg_after asg ev) by (destruct ev; reflexivity).
    eapply pre_step; eassumption.
  Qed.

  Lemma pre_entry st0 : pre entry st0 [].
  Proof. split; [apply FixedPointProofs.reach_entry|left; auto]. Qed.
End Sound.

(* ================================================================== from the engine run to the theorems *)
Lemma remap_get f m keys0 r l cm : remap f m keys0 = Ok r -> lm_get r l = Some cm -> remap_one f m l = Ok cm.
Proof.
  revert r. induction keys0 as [|[k v] t IH]; intros r H Hg; cbn [remap] in H.
  - injection H as <-. discriminate Hg.
  - destruct (remap_one f m k) as [c| |] eqn:E1; try discriminate. cbn [bind] in H.
    destruct (remap f m t) as [r'| |]; try discriminate. cbn [bind] in H. injection H as <-.
    cbn [lm_get] in Hg. destruct (floc_eqb k l) eqn:E.
    + apply floc_eqb_eq in E. subst k. congruence.
    + eapply IH; [reflexivity|exact Hg].
Qed.
Lemma remap_one_fold f m l cm : remap_one f m l = Ok cm -> cm = fold_left (rstep m) (il_pred f l) [].
Proof.
  unfold remap_one, il_pred. destruct (floc_apply f l); try discriminate. cbn [bind].
  destruct (backward f l) as [ps| |]; try discriminate. cbn [bind]. intros [= <-]. reflexivity.
Qed.
Lemma rfold_good f m ps : (forall l s, clk m l = Some s -> good f s) ->
  forall c, (cgood c /\ forall k, In k (keys c) -> In k (wkeys f)) ->
  (cgood (fold_left (rstep m) ps c) /\ forall k, In k (keys (fold_left (rstep m) ps c)) -> In k (wkeys f)).
Proof.
  intros Hm. induction ps as [|p ps IH]; intros c Hc; cbn [fold_left]; [exact Hc|]. apply IH.
  unfold rstep. destruct (clk m p) as [s|] eqn:E; [|exact Hc]. destruct (Hm p s E) as (_ & S2 & S3). split.
  - apply cgood_join; [exact (proj1 Hc)|exact S3].
  - intros k Hk. destruct (cm_join_keys _ _ _ Hk) as [H|H]; [exact (proj2 Hc k H)|apply S2; exact H].
Qed.

Lemma constants_states_facts f max m : cfg_inv (f_cfg f) = true -> srcs_wf f = true -> constants_states max f = Ok m ->
  exists e eb, g_entry (f_cfg f) = Some e /\ find_block (f_blocks f) e = Some eb /\
    (forall l, clk m l <> None <-> reachL f (block_first_loc eb) l) /\
    (forall l s, clk m l = Some s -> good f s).
Proof.
  intros Hinv Hsrc H. unfold constants_states, fp_forward in H.
  destruct (g_entry (f_cfg f)) as [e|] eqn:Ee; [|discriminate].
  unfold f_block, cfg_block in H. fold (f_blocks f) in H.
  destruct (find_block (f_blocks f) e) as [eb|] eqn:Eb; [|discriminate]. cbn [bind] in H.
  exists e, eb. split; [reflexivity|split; [exact Eb|]].
  match type of H with of_outcome _ ?R = _ => destruct R as [m'| | |] eqn:Er; try discriminate end.
  cbn [of_outcome] in H. injection H as ->.
  pose proof (proj1 (find_block_some _ _ _ Eb)) as Hin.
  pose proof (il_from_ok f Hinv eb Hin) as Hfrom. pose proof (il_to_ok f Hinv eb Hin) as Hto.
  pose proof (il_converse f Hinv eb Hin) as Hconv.
  split.
  - destruct (run_done_term _ _ _ _ _ _ _ _ _ _ _ _ _ _ _ Er) as (n & Hterm).
    set (R := fun new s : cmap => cm_cmp new s = Some Eq \/ new = s).
    assert (HI : Inv floc cmap floc_eqb (c_trans f) c_join (il_succ f) (il_pred f) (block_first_loc eb) R m []).
    { refine (term_inv floc cmap floc_eqb (backward f) (forward f) (c_trans f) c_join cm_cmp
                (Inv floc cmap floc_eqb (c_trans f) c_join (il_succ f) (il_pred f) (block_first_loc eb) R) false _ _ _ _ _ Hterm
                (Inv_init _ _ _ _ _ _ _ _ R)).
      apply (Inv_step floc cmap floc_eqb floc_eqb_reflect (backward f) (forward f) (c_trans f) c_join cm_cmp
               (il_succ f) (il_pred f) (block_first_loc eb) Hfrom Hto Hconv R false).
      - intros a b Hab. left. exact Hab.
      - intros s. right. reflexivity.
      - discriminate. }
    exact (proj1 (Inv_final _ _ _ _ _ _ _ _ R m HI)).
  - apply (fp_good floc cmap floc_eqb floc_eqb_reflect (backward f) (forward f) (c_trans f) c_join cm_cmp
             (il_succ f) (il_pred f) (block_first_loc eb) Hfrom Hto Hconv (good f)) with (fuel := Datatypes.S (Datatypes.S max)) (force := false) (max := max).
    + intros l st a Hr _ Hst Ht. exact (good_trans f Hsrc (block_first_loc eb) l st a (from_function_of f e eb Ee Eb) Hst Ht).
    + intros a b j Ha Hb Hj. injection Hj as <-. apply good_join; assumption.
    + exact Er.
Qed.


(* C13 soundness, relative to exactness of the solution (discharged by constants_exact below) *)
Theorem constants_sound_partial f max m r :
  cfg_inv (f_cfg f) = true -> c13_wf f = true ->
  constants_states max f = Ok m -> exact_solution f m = true -> remap f m m = Ok r ->
  forall l0 st0 fuel ti asg cm,
    entry_loc f = Some l0 ->
    In (ti, asg) (with_assigned [] (sem_run fuel f l0 st0)) ->
    lm_get r (ti_loc ti) = Some cm ->
    (forall s c, cm_get cm s = Some (CConst c) -> key_mem (skey_of s) asg = true ->
                 env_get (st_env (ti_before ti)) (skey_of s) = Some c) /\
    (forall e v, wfb e = true -> cm_eval cm e = Ok (Some v) ->
                 (forall x, In x (scalars e) -> key_mem (skey_of x) asg = true) ->
                 den (st_env (ti_before ti)) e = Ok v).
Proof.
  intros Hinv Hwf Hst Hex Hre l0 st0 fuel ti asg cm Hl0 Hin Hg.
  pose proof (Hsrc f Hwf) as Hsr.
  destruct (constants_states_facts f max m Hinv Hsr Hst) as (e & eb & He & Hb & Hdom & Hgood).
  rewrite (Hentry f e eb He Hb) in Hl0. injection Hl0 as <-.
  pose proof (run_pre f Hinv Hwf e eb He Hb m Hdom Hgood Hex fuel _ st0 [] (pre_entry f eb m st0) ti asg Hin) as (Hr & Hc).
  pose proof (remap_one_fold f m _ cm (remap_get f m m r _ cm Hre Hg)) as Hcm.
  assert (Gcm : cgood cm /\ forall k, In k (keys cm) -> In k (wkeys f)).
  { rewrite Hcm. apply rfold_good; [exact Hgood|split; [constructor|intros k []]]. }
  (* on the first visit of the entry nothing has been assigned; otherwise cm is described unconditionally *)
  assert (Dcm : asg = [] \/ usound cm (st_env (ti_before ti))).
  { destruct Hc as [[_ ->]|(p & O & Hp & Hl & Hd)]; [left; reflexivity|right].
    apply (usound_above f O cm _ (Hgood p O Hl) (proj2 Gcm) Hd). rewrite Hcm.
    apply (remap_above m _ p O Hp Hl (proj1 (Hgood p O Hl))). }
  split.
  - intros s c Hs Hk. destruct Dcm as [-> |D]; [discriminate Hk|exact (D s c Hs)].
  - intros ex v We Hev Hk. apply (cm_eval_sound _ cm ex v (wfb_wf _ We) (proj1 Gcm)); [|exact Hev].
    intros x cx Hx Hgx. destruct Dcm as [-> |D]; [specialize (Hk x Hx); discriminate Hk|exact (D x cx Hgx)].
Qed.

(* ================================================================== the remap pass is total (the repaired defect) *)
Lemma in_lookup_some {S0} (m : list (floc * S0)) l s : In (l, s) m -> FixedPoint.lookup floc S0 floc_eqb m l <> None.
Proof.
  induction m as [|[k v] t IH]; cbn [In FixedPoint.lookup]; [tauto|].
  intros [[= -> ->]|H].
  - assert (floc_eqb l l = true) by (apply floc_eqb_eq; reflexivity). rewrite H. discriminate.
  - destruct (floc_eqb k l); [discriminate|auto].
Qed.

(* whenever the fixed point is reached, constants() returns a map: no index panic, no error, whatever
   blocks are unreachable from the entry *)
Theorem constants_remap_total f max m : cfg_inv (f_cfg f) = true -> srcs_wf f = true ->
  constants_states max f = Ok m -> exists r, remap f m m = Ok r.
Proof.
  intros Hinv Hsrc Hst.
  destruct (constants_states_facts f max m Hinv Hsrc Hst) as (e & eb & He & Hb & Hdom & _).
  pose proof (proj1 (find_block_some _ _ _ Hb)) as Hin.
  assert (G : forall keys0, (forall l s, In (l, s) keys0 -> In (l, s) m) -> exists r, remap f m keys0 = Ok r).
  { induction keys0 as [|[l s] t IH]; intros Hsub; [eexists; reflexivity|]. cbn [remap].
    assert (Hr : reachL f (block_first_loc eb) l).
    { apply Hdom. apply (in_lookup_some m l s). apply Hsub. left. reflexivity. }
    pose proof (reach_valid f Hinv eb Hin l Hr) as Hv.
    unfold remap_one. rewrite (floc_apply_valid f l Hv). cbn [bind]. rewrite (il_from_ok f Hinv eb Hin l Hr). cbn [bind].
    destruct IH as (r & Hr'); [intros l0 s0 H0; apply Hsub; right; exact H0|]. rewrite Hr'. cbn [bind]. eexists; reflexivity. }
  apply G. auto.
Qed.

(* ================================================================== exactness of the solution on def_assigned functions *)
(* pointwise order: more keys, values equal or raised to Top *)
Definition vle (x y : cst) : Prop := x = y \/ y = CTop.
Definition ple (a b : cmap) : Prop := forall k x, cm_get a k = Some x -> exists y, cm_get b k = Some y /\ vle x y.
Definition ople (a b : option cmap) : Prop :=
  match a, b with Some x, Some y => ple x y | Some _, None => False | None, _ => True end.

Lemma vle_refl x : vle x x. Proof. left. reflexivity. Qed.
Lemma vle_trans x y z : vle x y -> vle y z -> vle x z.
Proof. intros [H1|H1] [H2|H2]; subst; unfold vle; auto. Qed.
Lemma ple_refl a : ple a a.
Proof. intros k x H. exists x. split; [exact H|apply vle_refl]. Qed.
Lemma ple_trans a b c : ple a b -> ple b c -> ple a c.
Proof.
  intros H1 H2 k x Hk. destruct (H1 k x Hk) as (y & Hy & L1). destruct (H2 k y Hy) as (z & Hz & L2).
  exists z. split; [exact Hz|eapply vle_trans; eassumption].
Qed.
Lemma ple_nil a : ple [] a.
Proof. intros k x H. discriminate H. Qed.

Lemma jfold_right_exact a b s y : NoDup (keys b) -> cm_get b s = Some y ->
  forall r, cm_get r s = cm_get a s ->
  cm_get (fold_left (jstep a) b r) s =
    match cm_get a s with Some c => Some (if cst_eqb c y then c else CTop) | None => Some y end.
Proof.
  induction b as [|[k v] t IH]; intros Hn Hb r Hr; [discriminate|].
  cbn [keys map fst] in Hn. inversion Hn as [|? ? Hnot Hn']; subst.
  cbn [cm_get] in Hb. cbn [fold_left]. destruct (scalar_eqb k s) eqn:E.
  - apply scalar_eqb_eq in E. subst k. injection Hb as ->.
    rewrite jfold_other by exact Hnot. unfold jstep. cbn [fst snd].
    destruct (cm_get a s) as [c|] eqn:Ea.
    + destruct (cst_eqb c y) eqn:Ec; [exact Hr|]. rewrite cm_get_set, scalar_eqb_refl. reflexivity.
    + rewrite cm_get_set, scalar_eqb_refl. reflexivity.
  - apply IH; [exact Hn'|exact Hb|]. rewrite jstep_other by exact E. exact Hr.
Qed.

Lemma cm_get_join a b k : NoDup (keys b) ->
  cm_get (cm_join a b) k =
    match cm_get a k, cm_get b k with
    | Some x, Some y => Some (if cst_eqb x y then x else CTop)
    | Some x, None => Some x
    | None, Some y => Some y
    | None, None => None
    end.
Proof.
  intros Hn. rewrite cm_join_fold. destruct (cm_get b k) as [y|] eqn:Eb.
  - rewrite (jfold_right_exact a b k y Hn Eb a eq_refl). destruct (cm_get a k); reflexivity.
  - rewrite jfold_other by (apply cm_get_none; exact Eb). destruct (cm_get a k); reflexivity.
Qed.

Lemma ple_join a a' b b' : NoDup (keys b) -> NoDup (keys b') -> ple a a' -> ple b b' -> ple (cm_join a b) (cm_join a' b').
Proof.
  intros Nb Nb' Ha Hb k v Hk. rewrite cm_get_join in Hk by exact Nb. rewrite cm_get_join by exact Nb'.
  destruct (cm_get a k) as [x|] eqn:Eak; destruct (cm_get b k) as [y|] eqn:Ebk; try discriminate Hk; injection Hk as <-.
  - destruct (Ha k x Eak) as (x' & -> & Lx). destruct (Hb k y Ebk) as (y' & -> & Ly). eexists. split; [reflexivity|].
    destruct (cst_eqb x y) eqn:E1; destruct (cst_eqb x' y') eqn:E2; try (right; reflexivity).
    + exact Lx.
    + apply cst_eqb_eq in E2. subst y'. destruct Lx as [-> | ->]; [|right; reflexivity].
      destruct Ly as [-> | ->]; [rewrite (proj2 (cst_eqb_eq _ _) eq_refl) in E1; discriminate|right; reflexivity].
  - destruct (Ha k x Eak) as (x' & -> & Lx). destruct (cm_get b' k) as [y'|]; eexists; (split; [reflexivity|]); [|exact Lx].
    destruct (cst_eqb x' y'); [exact Lx|right; reflexivity].
  - destruct (Hb k y Ebk) as (y' & -> & Ly). destruct (cm_get a' k) as [x'|]; eexists; (split; [reflexivity|]); [|exact Ly].
    destruct (cst_eqb x' y') eqn:E; [|right; reflexivity]. apply cst_eqb_eq in E. subst. exact Ly.
Qed.
Lemma ple_join_r a b : NoDup (keys b) -> ple b (cm_join a b).
Proof.
  intros Nb k y Hk. rewrite cm_get_join by exact Nb. rewrite Hk. destruct (cm_get a k) as [x|]; eexists; (split; [reflexivity|]); [|left; reflexivity].
  destruct (cst_eqb x y) eqn:E; [apply cst_eqb_eq in E; subst; left; reflexivity|right; reflexivity].
Qed.
Lemma ple_join_l a b : NoDup (keys b) -> ple a (cm_join a b).
Proof.
  intros Nb k x Hk. rewrite cm_get_join by exact Nb. rewrite Hk. destruct (cm_get b k) as [y|]; eexists; (split; [reflexivity|]); [|left; reflexivity].
  destruct (cst_eqb x y); [left|right]; reflexivity.
Qed.

(* ---------- eval and the transfer function are monotone where every read scalar is a present key ---------- *)
Lemma cm_scalar_mono s s' x c : ple s s' -> cm_scalar s x = Some c ->
  cm_scalar s' x = Some c \/ cm_scalar s' x = None.
Proof.
  intros Hp H. apply cm_scalar_get in H. destruct (Hp x _ H) as (y & Hy & [<- | ->]).
  - left. apply cm_scalar_get. exact Hy.
  - right. unfold cm_scalar. rewrite Hy. reflexivity.
Qed.
Lemma cm_scalar_none_mono s s' x : ple s s' -> (cm_get s x = None -> cm_get s' x = None) ->
  cm_scalar s x = None -> cm_scalar s' x = None.
Proof.
  intros Hp Hk H. destruct (cm_get s x) as [v|] eqn:E.
  - destruct (Hp x v E) as (y & Hy & L). unfold cm_scalar in *. rewrite E in H. rewrite Hy.
    destruct L as [<- | ->]; [|reflexivity]. destruct v; try reflexivity. discriminate.
  - unfold cm_scalar. rewrite (Hk eq_refl). reflexivity.
Qed.

Lemma eval_fold_mono s s' : ple s s' -> (forall x, cm_get s x = None -> cm_get s' x = None) ->
  forall ss e r, eval_fold s ss e = Ok r -> eval_fold s' ss e = Ok r \/ eval_fold s' ss e = Ok None.
Proof.
  intros Hp Hk. induction ss as [|x t IH]; intros e r H; cbn [eval_fold] in *; [left; exact H|].
  destruct (cm_scalar s x) as [c|] eqn:Es.
  - destruct (replace_scalar e x (EConst c)) as [e'| |] eqn:Er; try discriminate.
    destruct (cm_scalar_mono s s' x c Hp Es) as [E'|E']; rewrite E'; [|right; reflexivity].
    rewrite Er. apply IH. exact H.
  - injection H as <-. rewrite (cm_scalar_none_mono s s' x Hp (Hk x) Es). left. reflexivity.
Qed.

Lemma cm_eval_mono s s' e r : ple s s' -> (forall x, cm_get s x = None -> cm_get s' x = None) ->
  cm_eval s e = Ok r -> cm_eval s' e = Ok r \/ cm_eval s' e = Ok None.
Proof.
  intros Hp Hk H. unfold cm_eval in *.
  destruct (eval_fold s (scalars e) e) as [r0| |] eqn:Ef; try discriminate. cbn [bind] in H.
  destruct (eval_fold_mono s s' Hp Hk _ _ _ Ef) as [E|E]; rewrite E; cbn [bind]; [left; exact H|right; reflexivity].
Qed.

Lemma ple_set s s' k v v' : ple s s' -> vle v v' -> ple (cm_set s k v) (cm_set s' k v').
Proof.
  intros Hp Hv x y H. rewrite cm_get_set in *. destruct (scalar_eqb k x); [injection H as <-; eauto|exact (Hp x y H)].
Qed.
Lemma ple_top s s' : ple s s' -> ple (cm_top s) (cm_top s').
Proof.
  intros Hp x y H. rewrite cm_get_top in *. destruct (cm_get s x) as [v|] eqn:E; [|discriminate]. injection H as <-.
  destruct (Hp x v E) as (y' & -> & _). exists CTop. split; [reflexivity|left; reflexivity].
Qed.

Lemma c_body_mono f l s s' a : ple s s' -> (forall x, cm_get s x = None -> cm_get s' x = None) ->
  c_body f l s = Ok a -> exists a', c_body f l s' = Ok a' /\ ple a a'.
Proof.
  intros Hp Hk. unfold c_body.
  destruct l as [bi ii|h t|bi]; try (intros [= <-]; eauto).
  destruct (loc_instruction f (LInstr bi ii)) as [i|]; [|discriminate].
  destruct (i_op i) as [dst src|idx src|dst idx|tgt|intr|ph].
  - destruct (cm_eval s src) as [r| |] eqn:Ee; try discriminate. cbn [bind]. intros [= <-].
    destruct (cm_eval_mono s s' src r Hp Hk Ee) as [E|E]; rewrite E; cbn [bind]; eexists; (split; [reflexivity|]);
      apply ple_set; try exact Hp; [left; reflexivity|destruct r; [right; reflexivity|left; reflexivity]].
  - intros [= <-]. eauto.
  - intros [= <-]. eexists. split; [reflexivity|]. apply ple_set; [exact Hp|left; reflexivity].
  - intros [= <-]. eexists. split; [reflexivity|]. apply ple_top. exact Hp.
  - destruct (intr_scalars_written intr) as [ws|]; intros [= <-]; eexists; (split; [reflexivity|]); [|apply ple_top; exact Hp].
    clear Hk. revert s s' Hp. induction ws as [|w ws IH]; intros s s' Hp; cbn [fold_left]; [exact Hp|].
    apply IH. apply ple_set; [exact Hp|left; reflexivity].
  - intros [= <-]. eauto.
Qed.

(* ---------- the join over predecessor states is monotone in the map ---------- *)
Definition mle (m m' : list (floc * cmap)) : Prop :=
  forall l s, clk m l = Some s -> exists s', clk m' l = Some s' /\ ple s s'.
Definition mnodup (m : list (floc * cmap)) : Prop := forall l s, clk m l = Some s -> NoDup (keys s).

Lemma cjn_mono m m' ps : mle m m' -> mnodup m -> mnodup m' ->
  forall acc acc', ople acc acc' ->
  forall sto, fold_left (FixedPoint.join_step floc cmap floc_eqb c_join m) ps (Ok acc) = Ok sto ->
  exists sto', fold_left (FixedPoint.join_step floc cmap floc_eqb c_join m') ps (Ok acc') = Ok sto' /\ ople sto sto'.
Proof.
  intros Hm N N'. induction ps as [|p ps IH]; intros acc acc' Ho sto H; cbn [fold_left] in *.
  - injection H as <-. eauto.
  - unfold FixedPoint.join_step at 2 in H. unfold FixedPoint.join_step at 2.
    destruct (clk m p) as [x|] eqn:Ex.
    + destruct (Hm p x Ex) as (x' & Ex' & Hx). rewrite Ex'.
      destruct acc as [a|], acc' as [a'|]; cbn [c_join ople] in *; try contradiction.
      * apply (IH (Some (cm_join a x)) (Some (cm_join a' x')) (ple_join a a' x x' (N p x Ex) (N' p x' Ex') Ho Hx) sto H).
      * apply (IH (Some x) (Some (cm_join a' x')) (ple_trans _ _ _ Hx (ple_join_r a' x' (N' p x' Ex'))) sto H).
      * apply (IH (Some x) (Some x') Hx sto H).
    + destruct (clk m' p) as [x'|] eqn:Ex'; [|apply (IH acc acc' Ho sto H)].
      destruct acc as [a|], acc' as [a'|]; cbn [c_join ople] in *; try contradiction.
      * apply (IH (Some a) (Some (cm_join a' x')) (ple_trans _ _ _ Ho (ple_join_l a' x' (N' p x' Ex'))) sto H).
      * apply (IH None (Some (cm_join a' x')) I sto H).
      * apply (IH None (Some x') I sto H).
Qed.

(* ---------- partial_cmp = Equal between pointwise-ordered maps is equality ---------- *)
Lemma eq_fold_inv s l : forall acc, fold_left (eq_step s) l acc = Some Eq ->
  acc = Some Eq /\ forall kv, In kv l -> exists rc, cm_get s (fst kv) = Some rc /\ cst_lt (snd kv) rc = false /\ cst_gt (snd kv) rc = false.
Proof.
  induction l as [|kv t IH]; intros acc H; cbn [fold_left] in H; [split; [exact H|intros ? []]|].
  destruct (IH _ H) as [Hacc Ht]. unfold eq_step in Hacc.
  destruct acc as [order|]; [|discriminate].
  destruct (cm_get s (fst kv)) as [rc|] eqn:Eg; [|discriminate].
  destruct (cst_lt (snd kv) rc) eqn:E1; [destruct order; discriminate|].
  destruct (cst_gt (snd kv) rc) eqn:E2; [destruct order; discriminate|].
  split; [exact Hacc|]. intros kv' [<-|Hin]; [eauto|auto].
Qed.

Lemma cmp_eq_exact n s : NoDup (keys n) -> NoDup (keys s) -> ple s n -> cm_cmp n s = Some Eq -> cmap_eqb n s = true.
Proof.
  intros Nn Ns Hp Hc. unfold cm_cmp in Hc.
  destruct (Nat.compare (length n) (length s)) eqn:El.
  2:{ destruct (sub_le n s); discriminate. }
  2:{ destruct (sub_le s n); discriminate. }
  apply Nat.compare_eq in El. destruct (eq_fold_inv s n _ Hc) as [_ Hall].
  assert (Hget : forall k, cm_get n k = cm_get s k).
  { intros k. destruct (cm_get n k) as [v|] eqn:En.
    - destruct (Hall (k, v) (cm_get_in _ _ _ En)) as (rc & Hrc & L1 & L2). cbn [fst snd] in *.
      rewrite Hrc. f_equal. destruct (Hp k rc Hrc) as (y & Hy & L). rewrite En in Hy. injection Hy as <-.
      destruct L as [-> | ->]; [reflexivity|].
      destruct rc as [|c|]; [reflexivity|cbn in L2; discriminate|cbn in L2; discriminate].
    - destruct (cm_get s k) as [x|] eqn:Es; [|reflexivity]. destruct (Hp k x Es) as (y & Hy & _). congruence. }
  unfold cmap_eqb. rewrite El, Nat.eqb_refl. cbn [andb]. apply andb_true_intro. split; unfold cmap_sub; apply forallb_forall; intros [k v] Hin; cbn [fst snd].
  - rewrite <- Hget, (cm_in_get n k v Nn Hin). apply cst_eqb_eq. reflexivity.
  - rewrite Hget, (cm_in_get s k v Ns Hin). apply cst_eqb_eq. reflexivity.
Qed.

(* the transfer function keeps the keys of its input and adds the scalars the location writes *)

Lemma good_none f a b k : good f a -> good f b -> cm_get a k = None -> cm_get b k = None.
Proof.
  intros (_ & A & _) (_ & B & _) H. apply cm_get_none. apply cm_get_none in H. intros Hk. apply H. apply A. apply B. exact Hk.
Qed.

(* ---------- the run invariant ---------- *)
Section Exact.
  Variable f : func.
  Hypothesis Hinv : cfg_inv (f_cfg f) = true.
  Hypothesis Hsrcs : srcs_wf f = true.
  Variables (e : Z) (eb : block).
  Hypothesis He : g_entry (f_cfg f) = Some e.
  Hypothesis Hb : find_block (f_blocks f) e = Some eb.
  Let entry := block_first_loc eb.

  Let Hebin : In eb (f_blocks f) := proj1 (find_block_some _ _ _ Hb).
  Let Hff : from_function f = Some (Ok entry) := from_function_of f e eb He Hb.
  Let Hfrom := il_from_ok f Hinv eb Hebin.
  Let Hto := il_to_ok f Hinv eb Hebin.
  Let Hconv := il_converse f Hinv eb Hebin.

  Notation In_domC := (In_dom floc cmap floc_eqb).
  Notation RchC := (Rch floc cmap floc_eqb (il_succ f) entry).
  Notation FedC := (Fed floc cmap floc_eqb (il_pred f) entry).
  Definition Req (new s : cmap) : Prop := cm_cmp new s = Some Eq \/ new = s.
  Notation InvC := (Inv floc cmap floc_eqb (c_trans f) c_join (il_succ f) (il_pred f) entry Req).

  Definition DomFed (m : list (floc * cmap)) : Prop :=
    forall l, In_domC m l -> l = entry \/ exists p, In p (il_pred f l) /\ In_domC m p.
  Definition Asc (m : list (floc * cmap)) : Prop :=
    forall l s, clk m l = Some s -> exists sto new, cjn m (il_pred f l) = Ok sto /\ c_trans f l sto = Ok new /\ ple s new.
  Definition GoodC (m : list (floc * cmap)) : Prop := forall l s, clk m l = Some s -> good f s.

  Definition XI (m : list (floc * cmap)) (q : list floc) : Prop :=
    RchC m q /\ FedC m q /\ InvC m q /\ GoodC m /\ DomFed m /\ Asc m /\ NoDup (List.map fst m).

  Lemma cjn_goodC m ps sto : GoodC m -> cjn m ps = Ok sto -> forall s, sto = Some s -> good f s.
  Proof.
    intros HG H. apply (join_neighbours_good floc cmap floc_eqb c_join (good f)
             (fun a b j Ha Hb0 Hj => ltac:(injection Hj as <-; apply good_join; assumption)) m ps sto HG H).
  Qed.

  (* re-evaluating the equation at x after the map has grown gives a larger result *)
  Lemma eqn_mono m m2 x sto nx : GoodC m -> GoodC m2 -> mle m m2 ->
    (x = entry \/ exists p, In p (il_pred f x) /\ In_domC m p) ->
    cjn m (il_pred f x) = Ok sto -> c_trans f x sto = Ok nx ->
    exists sto2 nx2, cjn m2 (il_pred f x) = Ok sto2 /\ c_trans f x sto2 = Ok nx2 /\ ple nx nx2.
  Proof.
    intros HG HG2 Hm Hfed Hj Ht.
    destruct (cjn_mono m m2 (il_pred f x) Hm (fun l s H => proj1 (HG l s H)) (fun l s H => proj1 (HG2 l s H)) None None I sto Hj)
      as (sto2 & Hj2 & Ho).
    rewrite (c_trans_pick f entry x sto Hff) in Ht.
    assert (Hp : ple (pick f entry x sto) (pick f entry x sto2) /\
                 forall k, cm_get (pick f entry x sto) k = None -> cm_get (pick f entry x sto2) k = None).
    { split.
      - unfold pick. destruct (floc_eqb x entry) eqn:E.
        + destruct sto, sto2; apply ple_refl.
        + destruct Hfed as [->|(p & Hp & Hd)]; [assert (floc_eqb entry entry = true) by (apply floc_eqb_eq; reflexivity); congruence|].
          pose proof (join_neighbours_some floc cmap floc_eqb c_join m (il_pred f x) sto (ex_intro _ p (conj Hp Hd)) Hj) as Hne.
          destruct sto as [a|]; [|contradiction]. destruct sto2 as [b|]; [exact Ho|destruct Ho].
      - intros k. apply (good_none f); apply good_pick; intros s Hs;
          [exact (cjn_goodC m _ sto HG Hj s Hs)|exact (cjn_goodC m2 _ sto2 HG2 Hj2 s Hs)]. }
    destruct (c_body_mono f x _ _ nx (proj1 Hp) (proj2 Hp) Ht) as (nx2 & Ht2 & Hle).
    exists sto2, nx2. rewrite (c_trans_pick f entry x sto2 Hff). auto.
  Qed.

  Notation lis := (lookup_insert_same floc cmap floc_eqb floc_eqb_reflect).
  Notation lio := (lookup_insert_other floc cmap floc_eqb floc_eqb_reflect).

  Lemma XI_step m l q' m2 q2 : XI m (l :: q') ->
    bstep floc cmap floc_eqb (backward f) (forward f) (c_trans f) c_join cm_cmp false m l q' = Next floc cmap m2 q2 ->
    XI m2 q2.
  Proof.
    intros (HR & HF & HI & HG & HD & HA & HN) Hbs.
    pose proof (Rch_step floc cmap floc_eqb floc_eqb_reflect (backward f) (forward f) (c_trans f) c_join cm_cmp (il_succ f) entry Hto false m l q' m2 q2 HR Hbs) as HR2.
    pose proof (Fed_step floc cmap floc_eqb floc_eqb_reflect (backward f) (forward f) (c_trans f) c_join cm_cmp (il_succ f) (il_pred f) entry Hto Hconv false m l q' m2 q2 HR HF Hbs) as HF2.
    assert (HI2 : Inv floc cmap floc_eqb (c_trans f) c_join (il_succ f) (il_pred f) entry Req m2 q2).
    { apply (Inv_step floc cmap floc_eqb floc_eqb_reflect (backward f) (forward f) (c_trans f) c_join cm_cmp
               (il_succ f) (il_pred f) entry Hfrom Hto Hconv Req false) with (m := m) (l := l) (q' := q'); try assumption.
      - intros a b H. left. exact H.
      - intros s. right. reflexivity.
      - discriminate. }
    assert (Rl : reachL f entry l) by (apply HR; right; left; reflexivity).
    destruct (bstep_next _ _ _ _ _ _ _ _ _ _ _ _ _ _ Hbs) as (ps & st & new & H1 & H2 & H3 & [(old & Hl & Hc & -> & ->)|(s & ss & Hp & -> & -> & Hs)]).
    { exact (conj HR2 (conj HF2 (conj HI2 (conj HG (conj HD (conj HA HN)))))). }
    rewrite (Hfrom l Rl) in H1. injection H1 as <-.
    assert (Es : s = new).
    { destruct Hs as [[_ ->]|(old & _ & _ & [(_ & _ & ->)|(Hf & _)])]; [reflexivity|reflexivity|discriminate Hf]. }
    subst s.
    assert (Hfedl : l = entry \/ exists p, In p (il_pred f l) /\ In_dom floc cmap floc_eqb m p) by (apply HF; left; reflexivity).
    assert (Gnew : good f new).
    { apply (good_trans f Hsrcs entry l st new Hff); [intros s0 Hs0; eapply cjn_goodC; eassumption|exact H3]. }
    assert (HG2 : GoodC (FixedPoint.insert floc cmap floc_eqb m l new)).
    { intros x sx Hx. destruct (floc_eqb_reflect x l) as [->|N].
      - rewrite lis in Hx. injection Hx as <-. exact Gnew.
      - rewrite lio in Hx by exact N. exact (HG x sx Hx). }
    assert (Hmle : mle m (FixedPoint.insert floc cmap floc_eqb m l new)).
    { intros x sx Hx. destruct (floc_eqb_reflect x l) as [->|N].
      - rewrite lis. exists new. split; [reflexivity|].
        destruct (HA l sx Hx) as (sto0 & new0 & J0 & T0 & P0). rewrite H2 in J0. injection J0 as <-. rewrite H3 in T0. injection T0 as <-. exact P0.
      - rewrite lio by exact N. exists sx. split; [exact Hx|apply ple_refl]. }
    assert (Hdom2 : forall x, In_dom floc cmap floc_eqb m x -> In_dom floc cmap floc_eqb (FixedPoint.insert floc cmap floc_eqb m l new) x).
    { intros x Hx. apply (In_dom_insert floc cmap floc_eqb floc_eqb_reflect (c_trans f) c_join cm_cmp entry). right. exact Hx. }
    refine (conj HR2 (conj HF2 (conj HI2 (conj HG2 (conj _ (conj _ _)))))).
    - (* DomFed *)
      intros x Hx. apply (In_dom_insert floc cmap floc_eqb floc_eqb_reflect (c_trans f) c_join cm_cmp entry) in Hx.
      assert (Hfx : x = entry \/ exists p, In p (il_pred f x) /\ In_dom floc cmap floc_eqb m p) by (destruct Hx as [->|Hx]; [exact Hfedl|exact (HD x Hx)]).
      destruct Hfx as [->|(p & Hp1 & Hp2)]; [left; reflexivity|right; exists p; split; [exact Hp1|exact (Hdom2 p Hp2)]].
    - (* Asc *)
      intros x sx Hx. destruct (floc_eqb_reflect x l) as [->|N].
      + rewrite lis in Hx. injection Hx as <-.
        destruct (eqn_mono m _ l st new HG HG2 Hmle Hfedl H2 H3) as (sto2 & nx2 & A & B & C).
        exists sto2, nx2. auto.
      + rewrite lio in Hx by exact N.
        destruct (HA x sx Hx) as (sto0 & nx & J0 & T0 & P0).
        assert (Hfx : x = entry \/ exists p, In p (il_pred f x) /\ In_dom floc cmap floc_eqb m p) by (apply HD; unfold In_dom; congruence).
        destruct (eqn_mono m _ x sto0 nx HG HG2 Hmle Hfx J0 T0) as (sto2 & nx2 & A & B & C).
        exists sto2, nx2. split; [exact A|split; [exact B|eapply ple_trans; eassumption]].
    - apply fp_insert_nodup. exact HN.
  Qed.

  Lemma XI_init : XI [] [entry].
  Proof.
    refine (conj (Rch_init _ _ _ _ _) (conj (Fed_init _ _ _ _ _) (conj (Inv_init _ _ _ _ _ _ _ _ _) (conj _ (conj _ (conj _ _)))))).
    - intros l s Hl. discriminate Hl.
    - intros l Hl. exfalso. apply Hl. reflexivity.
    - intros l s Hl. discriminate Hl.
    - constructor.
  Qed.
End Exact.
Lemma cmap_eqb_refl s : NoDup (keys s) -> cmap_eqb s s = true.
Proof.
  intros Hn. unfold cmap_eqb. rewrite Nat.eqb_refl. cbn [andb].
  assert (H : cmap_sub s s = true).
  { unfold cmap_sub. apply forallb_forall. intros [k v] Hin. cbn [fst snd]. rewrite (cm_in_get s k v Hn Hin). apply cst_eqb_eq. reflexivity. }
  rewrite H. reflexivity.
Qed.


(* C13: the engine's result is an EXACT solution of the equations *)
Theorem constants_exact f max m :
  cfg_inv (f_cfg f) = true -> srcs_wf f = true ->
  constants_states max f = Ok m -> exact_solution f m = true.
Proof.
  intros Hinv Hsrc H. unfold constants_states, fp_forward in H.
  destruct (g_entry (f_cfg f)) as [e|] eqn:Ee; [|discriminate].
  unfold f_block, cfg_block in H. fold (f_blocks f) in H.
  destruct (find_block (f_blocks f) e) as [eb|] eqn:Eb; [|discriminate]. cbn [bind] in H.
  match type of H with of_outcome _ ?R = _ => destruct R as [m'| | |] eqn:Er; try discriminate end.
  cbn [of_outcome] in H. injection H as ->.
  pose proof (proj1 (find_block_some _ _ _ Eb)) as Hin.
  pose proof (il_from_ok f Hinv eb Hin) as Hfrom.
  pose proof (from_function_of f e eb Ee Eb) as Hff.
  destruct (run_done_term _ _ _ _ _ _ _ _ _ _ _ _ _ _ _ Er) as (n & Hterm).
  assert (HX : XI f eb m []).
  { refine (term_inv floc cmap floc_eqb (backward f) (forward f) (c_trans f) c_join cm_cmp (XI f eb) false _ _ _ _ _ Hterm (XI_init f eb)).
    intros m0 l q' m2 q2 H0 Hbs. exact (XI_step f Hinv Hsrc e eb Ee Eb m0 l q' m2 q2 H0 Hbs). }
  destruct HX as (HR & _ & HI & HG & HD & HA & HN).
  destruct (Inv_final _ _ _ _ _ _ _ _ _ m HI) as [Hdom Hholds].
  unfold exact_solution. apply forallb_forall. intros [l s] Hls. cbn [fst snd].
  pose proof (fp_in_lookup m l s HN Hls) as Hl.
  assert (Hd : In_dom floc cmap floc_eqb m l) by (unfold In_dom; congruence).
  destruct (Hholds l Hd) as (st & new & s' & J & T & L0 & Rq). rewrite Hl in L0. injection L0 as <-.
  destruct (HA l s Hl) as (st0 & new0 & J0 & T0 & P0). rewrite J in J0. injection J0 as <-. rewrite T in T0. injection T0 as <-.
  assert (Rl : reachL f (block_first_loc eb) l) by (apply Hdom; exact Hd).
  unfold exact_at. rewrite (Hfrom l Rl), J, T.
  assert (Gnew : good f new).
  { apply (good_trans f Hsrc (block_first_loc eb) l st new Hff); [intros s0 Hs0; eapply cjn_goodC; eassumption|exact T]. }
  destruct Rq as [Hc| ->]; [|apply cmap_eqb_refl; exact (proj1 Gnew)].
  apply cmp_eq_exact; [exact (proj1 Gnew)|exact (proj1 (HG l s Hl))|exact P0|exact Hc].
Qed.

(* C13 soundness at full strength: no definite-assignment hypothesis *)
Theorem constants_sound f max r :
  cfg_inv (f_cfg f) = true -> c13_wf f = true ->
  constants_max max f = Ok r ->
  forall l0 st0 fuel ti asg cm,
    entry_loc f = Some l0 ->
    In (ti, asg) (with_assigned [] (sem_run fuel f l0 st0)) ->
    lm_get r (ti_loc ti) = Some cm ->
    (forall s c, cm_get cm s = Some (CConst c) -> key_mem (skey_of s) asg = true ->
                 env_get (st_env (ti_before ti)) (skey_of s) = Some c) /\
    (forall e v, wfb e = true -> cm_eval cm e = Ok (Some v) ->
                 (forall x, In x (scalars e) -> key_mem (skey_of x) asg = true) ->
                 den (st_env (ti_before ti)) e = Ok v).
Proof.
  intros Hinv Hwf Hr. unfold constants_max in Hr.
  destruct (constants_states max f) as [m| |] eqn:Hst; try discriminate. cbn [bind] in Hr.
  apply (constants_sound_partial f max m r Hinv Hwf Hst); [|exact Hr].
  apply (constants_exact f max m Hinv (Hsrc f Hwf) Hst).
Qed.

(* ================================================================== completion up to the step budget *)
Lemma cst_le_vle v y : vle v y -> cst_le v y = true.
Proof.
  intros [<- | ->]; unfold cst_le.
  - destruct v as [|c|]; cbn [cst_cmp]; try reflexivity. rewrite const_eqb_refl. reflexivity.
  - destruct v; reflexivity.
Qed.

Lemma keys_incl_of_ple a b : ple a b -> incl (keys a) (keys b).
Proof.
  intros Hp k Hk. unfold keys in Hk. apply in_map_iff in Hk as ([k' v] & <- & Hin). cbn [fst].
  destruct (cm_get a k') as [x|] eqn:E.
  - destruct (Hp k' x E) as (y & Hy & _). eapply get_in_keys. exact Hy.
  - apply cm_get_none in E. exfalso. apply E. apply in_map_iff. exists (k', v). auto.
Qed.

Lemma ple_cmp old new : NoDup (keys old) -> NoDup (keys new) -> ple old new ->
  cm_cmp new old = Some Gt \/ cm_cmp new old = Some Eq.
Proof.
  intros No Nn Hp. pose proof (keys_incl_of_ple old new Hp) as Hincl.
  pose proof (NoDup_incl_length No Hincl) as Hlen. unfold keys in Hlen. rewrite !map_length in Hlen.
  unfold cm_cmp. destruct (Nat.compare (length new) (length old)) eqn:Ec.
  - (* equal lengths *)
    apply Nat.compare_eq in Ec.
    assert (Hincl' : incl (keys new) (keys old)).
    { apply NoDup_length_incl; [exact No| |exact Hincl]. unfold keys. rewrite !map_length. lia. }
    assert (G : forall l, incl l new -> forall acc, acc = Some Eq \/ acc = Some Gt ->
                fold_left (eq_step old) l acc = Some Eq \/ fold_left (eq_step old) l acc = Some Gt).
    { induction l as [|[k v] t IH]; intros Hl acc Hacc; cbn [fold_left]; [exact Hacc|].
      apply IH; [intros x Hx; apply Hl; right; exact Hx|].
      assert (Hin : In (k, v) new) by (apply Hl; left; reflexivity).
      pose proof (cm_in_get new k v Nn Hin) as Hg.
      assert (Hk : In k (keys old)) by (apply Hincl'; eapply get_in_keys; exact Hg).
      destruct (cm_get old k) as [rc|] eqn:Eo; [|apply cm_get_none in Eo; contradiction].
      destruct (Hp k rc Eo) as (y & Hy & L). rewrite Hg in Hy. injection Hy as <-.
      unfold eq_step. cbn [fst snd]. rewrite Eo.
      destruct L as [<- | ->].
      - assert (E1 : cst_lt rc rc = false) by (unfold cst_lt; destruct rc as [|c|]; cbn [cst_cmp]; try reflexivity; rewrite const_eqb_refl; reflexivity).
        assert (E2 : cst_gt rc rc = false) by (unfold cst_gt; destruct rc as [|c|]; cbn [cst_cmp]; try reflexivity; rewrite const_eqb_refl; reflexivity).
        destruct Hacc as [-> | ->]; rewrite E1, E2; auto.
      - destruct rc as [|c|]; destruct Hacc as [-> | ->]; cbn; auto. }
    destruct (G new (incl_refl _) (Some Eq) (or_introl eq_refl)); auto.
  - apply Nat.compare_lt_iff in Ec. lia.
  - assert (Hs : sub_le old new = true).
    { unfold sub_le. apply forallb_forall. intros [k v] Hin. cbn [fst snd].
      pose proof (cm_in_get old k v No Hin) as Hg. destruct (Hp k v Hg) as (y & -> & L). apply cst_le_vle. exact L. }
    rewrite Hs. left. reflexivity.
Qed.

Lemma eden_np en e : eden en e <> Panic.
Proof.
  induction e as [s|c|o l IHl r IHr|o bits x IHx|g IHg t IHt f0 IHf]; cbn [eden].
  - destruct (en s); discriminate.
  - discriminate.
  - destruct (eden en l) as [a| |]; try discriminate; [|contradiction]. destruct (eden en r) as [b| |]; try discriminate; [|contradiction].
    cbn [bind]. destruct o; cbn [sp_bin]; try discriminate; destruct (cval b =? 0); discriminate.
  - destruct (eden en x) as [a| |]; try discriminate; [|contradiction]. cbn [bind].
    destruct o; cbn [sp_ext]; match goal with |- (if ?b then _ else _) <> _ => destruct b end; discriminate.
  - destruct (eden en g) as [cv| |]; try discriminate; [|contradiction]. cbn [bind]. destruct (cval cv =? 1); assumption.
Qed.

Lemma eval_fold_no_err A : forall ss e err, eval_fold A ss e <> Err err.
Proof.
  induction ss as [|s t IH]; intros e err; cbn [eval_fold]; [discriminate|].
  destruct (cm_scalar A s); [|discriminate]. destruct (replace_scalar e s (EConst c)); [apply IH|discriminate|discriminate].
Qed.

Lemma cm_eval_total A e : wf e -> cgood A -> exists r, cm_eval A e = Ok r.
Proof.
  intros W HA. unfold cm_eval. destruct (eval_fold A (scalars e) e) as [[e'|]|err|] eqn:Ef; cbn [bind].
  - destruct (eval_fold_wf A HA _ _ _ W Ef) as [W' _]. pose proof (eden_np (fun _ => None) e') as Hnp.
    rewrite <- eval_eden in Hnp by exact W'. destruct (eval e'); [eauto|eauto|contradiction].
  - eauto.
  - exfalso. exact (eval_fold_no_err A _ _ _ Ef).
  - exfalso. exact (eval_fold_np A HA _ _ W Ef).
Qed.

Lemma cjn_total m ps : exists st, cjn m ps = Ok st.
Proof.
  unfold FixedPoint.join_neighbours. generalize (@None cmap) as acc.
  induction ps as [|p ps IH]; intros acc; cbn [fold_left]; [eauto|].
  unfold FixedPoint.join_step at 2. destruct (clk m p) as [x|]; [|apply IH].
  destruct acc as [a|]; cbn [c_join]; apply IH.
Qed.


Section Complete13.
  Variable f : func.
  Hypothesis Hinv : cfg_inv (f_cfg f) = true.
  Hypothesis Hsrcs : srcs_wf f = true.
  Variables (e : Z) (eb : block).
  Hypothesis He : g_entry (f_cfg f) = Some e.
  Hypothesis Hb : find_block (f_blocks f) e = Some eb.
  Let entry := block_first_loc eb.
  Let Hebin : In eb (f_blocks f) := proj1 (find_block_some _ _ _ Hb).
  Let Hff : from_function f = Some (Ok entry) := from_function_of f e eb He Hb.

  Lemma c_body_total l s : reachL f entry l -> good f s -> exists a, c_body f l s = Ok a.
  Proof.
    intros Hr Hg. pose proof (reach_valid f Hinv eb Hebin l Hr) as Hv.
    unfold c_body. destruct l as [bi ii|h t|bi]; try (eexists; reflexivity).
    destruct (loc_instruction f (LInstr bi ii)) as [i|] eqn:Hi.
    2:{ exfalso. cbn [valid_loc loc_instruction] in *. destruct (find_block (f_blocks f) bi); [|discriminate].
        destruct (block_instruction b ii); discriminate. }
    destruct (i_op i) as [dst src|idx src|dst idx|tgt|intr|ph] eqn:Ho; try (eexists; reflexivity).
    - destruct (srcs_wf_at f Hsrcs _ _ _ _ Hi Ho) as [W _].
      destruct (cm_eval_total s src W (proj2 (proj2 Hg))) as (r & ->). cbn [bind]. eexists; reflexivity.
    - destruct (intr_scalars_written intr); eexists; reflexivity.
  Qed.

  (* an iteration of the loop never stops with an error on a state satisfying the invariant *)
  Lemma bstep_total m l q' : XI f eb m (l :: q') ->
    exists m2 q2, bstep floc cmap floc_eqb (backward f) (forward f) (c_trans f) c_join cm_cmp false m l q' = Next floc cmap m2 q2.
  Proof.
    intros (HR & HF & HI & HG & HD & HA & HN).
    assert (Rl : reachL f entry l) by (apply HR; right; left; reflexivity).
    unfold bstep. rewrite (il_from_ok f Hinv eb Hebin l Rl).
    destruct (cjn_total m (il_pred f l)) as (st & Hj). rewrite Hj.
    assert (Gin : good f (pick f entry l st)) by (apply good_pick; intros s Hs; eapply cjn_goodC; eassumption).
    destruct (c_body_total l _ Rl Gin) as (new & Ht). rewrite <- (c_trans_pick f entry l st Hff) in Ht. rewrite Ht.
    rewrite (il_to_ok f Hinv eb Hebin l Rl).
    destruct (clk m l) as [old|] eqn:Hl; [|eauto].
    destruct (HA l old Hl) as (st0 & new0 & J0 & T0 & P0). rewrite Hj in J0. injection J0 as <-. rewrite Ht in T0. injection T0 as <-.
    assert (Gnew : good f new).
    { apply (good_trans f Hsrcs entry l st new Hff); [intros s0 Hs0; eapply cjn_goodC; eassumption|exact Ht]. }
    destruct (ple_cmp old new (proj1 (HG l old Hl)) (proj1 Gnew) P0) as [-> | ->]; eauto.
  Qed.

  Lemma term_done_only n o : forall m q, term floc cmap floc_eqb (backward f) (forward f) (c_trans f) c_join cm_cmp false m q n o ->
    XI f eb m q -> exists m', o = Done m'.
  Proof.
    intros m q Ht. induction Ht as [m|m l q' o Hbs|m l q' m2 q2 n o Hbs Ht IH]; intros HX.
    - eauto.
    - destruct (bstep_total m l q' HX) as (m2 & q2 & E). rewrite E in Hbs. discriminate.
    - apply IH. exact (XI_step f Hinv Hsrcs e eb He Hb m l q' m2 q2 HX Hbs).
  Qed.
End Complete13.

(* for ANY budget the only possible failure is FixedPointMaxSteps: never FixedPointOrdering, never a
   panic, never another error -- on every function with an entry (no definite-assignment hypothesis) *)
Theorem constants_only_budget_error f max :
  cfg_inv (f_cfg f) = true -> c13_wf f = true -> entry_loc f <> None ->
  (exists r, constants_max max f = Ok r) \/ constants_max max f = Err EMaxSteps.
Proof.
  intros Hinv Hwf Hent. pose proof (Hsrc f Hwf) as Hsr. unfold entry_loc in Hent.
  destruct (g_entry (f_cfg f)) as [e|] eqn:Ee; [|contradiction].
  destruct (find_block (f_blocks f) e) as [eb|] eqn:Eb; [|contradiction].
  assert (Hrun : (exists m, constants_states max f = Ok m) \/ constants_states max f = Err EMaxSteps).
  { unfold constants_states, fp_forward. rewrite Ee. unfold f_block, cfg_block. fold (f_blocks f). rewrite Eb. cbn [bind].
    destruct (fp_budget floc cmap floc_eqb (backward f) (forward f) (c_trans f) c_join cm_cmp false max [] [block_first_loc eb]) as (Ha & Hb0 & [(n & o & Hn & Ht)|(m2 & l & q2 & Hk)]).
    - rewrite (Ha n o Ht Hn). destruct (term_done_only f Hinv Hsr e eb Ee Eb n o _ _ Ht (XI_init f eb)) as (m' & ->). left. eexists. reflexivity.
    - rewrite (Hb0 m2 l q2 Hk). right. reflexivity. }
  unfold constants_max. destruct Hrun as [(m & Hm)|Hm]; rewrite Hm; cbn [bind]; [|right; reflexivity].
  left. exact (constants_remap_total f max m Hinv Hsr Hm).
Qed.

(* ================================================================== full completion: a rank over the function's scalars *)
Definition vrank (o : option cst) : nat :=
  match o with None => 0 | Some CBot => 1 | Some (CConst _) => 2 | Some CTop => 3 end.
Definition crank (u : list scalar) (s : cmap) : nat := list_sum (List.map (fun k => vrank (cm_get s k)) u).

Lemma crank_le u s : (crank u s <= 3 * length u)%nat.
Proof.
  unfold crank. induction u as [|k t IH]; simpl; [lia|].
  assert (vrank (cm_get s k) <= 3)%nat by (destruct (cm_get s k) as [[|c|]|]; cbn; lia). lia.
Qed.

Lemma sum_lt (g h : scalar -> nat) u : (forall k, In k u -> (g k <= h k)%nat) -> (exists k, In k u /\ (g k < h k)%nat) ->
  (list_sum (List.map g u) < list_sum (List.map h u))%nat.
Proof.
  induction u as [|x t IH]; intros Hle (k & Hk & Hlt); [destruct Hk|]. simpl.
  assert (Ht : (list_sum (List.map g t) <= list_sum (List.map h t))%nat).
  { clear IH Hlt Hk. induction t as [|y t IHt]; simpl; [lia|].
    assert (g y <= h y)%nat by (apply Hle; right; left; reflexivity).
    assert (list_sum (List.map g t) <= list_sum (List.map h t))%nat; [|lia].
    apply IHt. intros z Hz. apply Hle. destruct Hz as [->|Hz]; [left; reflexivity|right; right; exact Hz]. }
  destruct Hk as [->|Hk].
  - lia.
  - assert (g x <= h x)%nat by (apply Hle; left; reflexivity).
    assert (list_sum (List.map g t) < list_sum (List.map h t))%nat; [|lia].
    apply IH; [intros z Hz; apply Hle; right; exact Hz|exists k; auto].
Qed.

Lemma vrank_le v rc : cst_lt v rc = false -> (vrank (Some rc) <= vrank (Some v))%nat \/ False.
Proof.
  intros H. left. unfold cst_lt in H. destruct v as [|x|], rc as [|y|]; cbn [cst_cmp vrank] in *; try lia; try discriminate.
Qed.
Lemma vrank_cle v rc : cst_le v rc = true -> (vrank (Some v) <= vrank (Some rc))%nat.
Proof.
  unfold cst_le. destruct v as [|x|], rc as [|y|]; cbn [cst_cmp vrank]; try lia; try discriminate.
Qed.
Lemma vrank_gt v rc : cst_gt v rc = true -> (vrank (Some rc) < vrank (Some v))%nat.
Proof.
  unfold cst_gt. destruct v as [|x|], rc as [|y|]; cbn [cst_cmp vrank]; try lia; try discriminate.
  destruct (const_eqb x y); discriminate.
Qed.

(* the fold of the equal-length branch, when it answers Greater *)
Lemma gt_fold_inv s l : forall acc, fold_left (eq_step s) l acc = Some Gt ->
  (acc = Some Eq \/ acc = Some Gt) /\
  (forall kv, In kv l -> exists rc, cm_get s (fst kv) = Some rc /\ cst_lt (snd kv) rc = false) /\
  (acc = Some Gt \/ exists kv rc, In kv l /\ cm_get s (fst kv) = Some rc /\ cst_gt (snd kv) rc = true).
Proof.
  induction l as [|kv t IH]; intros acc H; cbn [fold_left] in H.
  - split; [right; exact H|split; [intros ? []|left; exact H]].
  - destruct (IH _ H) as (Hacc & Hall & Hex). unfold eq_step in Hacc, Hex.
    destruct acc as [order|]; [|destruct Hacc; discriminate].
    destruct (cm_get s (fst kv)) as [rc|] eqn:Eg; [|destruct Hacc; discriminate].
    destruct (cst_lt (snd kv) rc) eqn:E1.
    { destruct order; destruct Hacc; discriminate. }
    destruct (cst_gt (snd kv) rc) eqn:E2.
    + split; [destruct order; destruct Hacc; try discriminate; auto|].
      split; [intros kv' [<-|Hin]; [eauto|auto]|].
      right. exists kv, rc. split; [left; reflexivity|auto].
    + split; [exact Hacc|]. split; [intros kv' [<-|Hin]; [eauto|auto]|].
      destruct Hex as [Hex|(kv' & rc' & Hin & A & B)]; [left; exact Hex|right; exists kv', rc'; split; [right; exact Hin|auto]].
Qed.

Lemma not_incl_witness (a b : list scalar) : (length b < length a)%nat -> NoDup a -> exists k, In k a /\ ~ In k b.
Proof.
  intros Hlen Hn. destruct (forallb (fun k => ss_mem k b) a) eqn:E.
  - exfalso. assert (Hi : incl a b) by (intros k Hk; rewrite forallb_forall in E; apply ss_mem_in; exact (E k Hk)).
    pose proof (NoDup_incl_length Hn Hi). lia.
  - assert (existsb (fun k => negb (ss_mem k b)) a = true).
    { clear Hlen Hn. induction a as [|x t IH]; cbn [forallb existsb] in *; [discriminate|].
      destruct (ss_mem x b); cbn [negb andb orb] in *; [apply IH; exact E|reflexivity]. }
    apply existsb_exists in H as (k & Hk & Hnb). exists k. split; [exact Hk|].
    intros Hin. apply ss_mem_in in Hin. rewrite Hin in Hnb. discriminate.
Qed.

Lemma crank_gt u a b : NoDup (keys a) -> NoDup (keys b) -> (forall k, In k (keys a) -> In k u) ->
  cm_cmp a b = Some Gt -> (crank u b < crank u a)%nat.
Proof.
  intros Na Nb Hu Hc. unfold crank. unfold cm_cmp in Hc.
  destruct (Nat.compare (length a) (length b)) eqn:El.
  - (* equal lengths *)
    apply Nat.compare_eq in El. destruct (gt_fold_inv b a _ Hc) as (_ & Hall & [Hex|(kv & rc & Hin & Hg & Hgt)]); [discriminate|].
    assert (Hab : incl (keys a) (keys b)).
    { intros k Hk. unfold keys in Hk. apply in_map_iff in Hk as ([k' v] & <- & Hin'). destruct (Hall _ Hin') as (rc' & Hr & _). eapply get_in_keys. exact Hr. }
    assert (Hba : incl (keys b) (keys a)).
    { apply NoDup_length_incl; [exact Na| |exact Hab]. unfold keys. rewrite !map_length. lia. }
    apply sum_lt.
    + intros k _. destruct (cm_get a k) as [v|] eqn:Ea.
      * destruct (Hall _ (cm_get_in _ _ _ Ea)) as (rc' & Hr & Hl). cbn [fst snd] in *. rewrite Hr.
        destruct (vrank_le v rc' Hl) as [H|[]]. exact H.
      * destruct (cm_get b k) as [x|] eqn:Eb; [|lia]. exfalso. apply cm_get_none in Ea. apply Ea. apply Hba. eapply get_in_keys. exact Eb.
    + destruct kv as [k v]. cbn [fst snd] in *. exists k. split; [apply Hu; unfold keys; apply in_map_iff; exists (k, v); auto|].
      rewrite Hg, (cm_in_get a k v Na Hin). apply vrank_gt. exact Hgt.
  - destruct (sub_le a b); discriminate.
  - (* a has more keys *)
    apply Nat.compare_gt_iff in El. destruct (sub_le b a) eqn:Es; [|discriminate].
    unfold sub_le in Es. rewrite forallb_forall in Es.
    apply sum_lt.
    + intros k _. destruct (cm_get b k) as [v|] eqn:Eb; [|cbn [vrank]; lia].
      specialize (Es _ (cm_get_in _ _ _ Eb)). cbn [fst snd] in Es. destruct (cm_get a k) as [rc|]; [|discriminate]. apply vrank_cle. exact Es.
    + destruct (not_incl_witness (keys a) (keys b)) as (k & Hka & Hkb); [unfold keys; rewrite !map_length; exact El|exact Na|].
      exists k. split; [apply Hu; exact Hka|]. apply cm_get_none in Hkb. rewrite Hkb.
      destruct (cm_get a k) as [[|c|]|] eqn:Ea; cbn [vrank]; try lia. exfalso. apply cm_get_none in Ea. contradiction.
Qed.

(* C13 completion: with a step budget covering the C09 bound for the height 3 * |written scalars| the
   analysis returns a result -- on every function with an entry, in particular on every function in
   which no scalar can be read before it is assigned *)
Theorem constants_completes f max :
  cfg_inv (f_cfg f) = true -> c13_wf f = true -> entry_loc f <> None ->
  (1 + out_degree f * (length (locations f) * Datatypes.S (3 * length (wkeys f))) <= Datatypes.S max)%nat ->
  exists r, constants_max max f = Ok r.
Proof.
  intros Hinv Hwf Hent Hbud. pose proof (Hsrc f Hwf) as Hsr. unfold entry_loc in Hent.
  destruct (g_entry (f_cfg f)) as [e|] eqn:Ee; [|contradiction].
  destruct (find_block (f_blocks f) e) as [eb|] eqn:Eb; [|contradiction].
  pose proof (proj1 (find_block_some _ _ _ Eb)) as Hin.
  pose proof (from_function_of f e eb Ee Eb) as Hff.
  assert (Hlocs : forall l, reachL f (block_first_loc eb) l -> In l (locations f)).
  { intros l Hr. apply (locations_valid f l Hinv). exact (reach_valid f Hinv eb Hin l Hr). }
  destruct (fp_terminates_rel floc cmap floc_eqb floc_eqb_reflect (backward f) (forward f) (c_trans f) c_join cm_cmp
              (il_succ f) (il_pred f) (block_first_loc eb)
              (il_from_ok f Hinv eb Hin) (il_to_ok f Hinv eb Hin) (il_converse f Hinv eb Hin) (good f))
    with (rank := crank (wkeys f)) (h := (3 * length (wkeys f))%nat) (U := locations f) (d := out_degree f)
    as (n & o & Hn & Ht).
  - intros l st a Hr _ Hst Hta. exact (good_trans f Hsr (block_first_loc eb) l st a Hff Hst Hta).
  - intros a b j Ha Hb0 [= <-]. apply good_join; assumption.
  - intros s _. apply crank_le.
  - intros a b (A1 & A2 & _) (B1 & _ & _) Hc. apply crank_gt; [exact A1|exact B1|intros k Hk; apply A2; exact Hk|exact Hc].
  - apply (locations_nodup f Hinv).
  - exact Hlocs.
  - intros l Hr. unfold out_degree. apply list_max_in. apply in_map_iff. exists l. split; [reflexivity|exact (Hlocs l Hr)].
  - destruct (term_done_only f Hinv Hsr e eb Ee Eb n o _ _ Ht (XI_init f eb)) as (m & ->).
    destruct (fp_budget floc cmap floc_eqb (backward f) (forward f) (c_trans f) c_join cm_cmp false max [] [block_first_loc eb]) as (Ha & _ & _).
    assert (Hm : constants_states max f = Ok m).
    { unfold constants_states, fp_forward. rewrite Ee. unfold f_block, cfg_block. fold (f_blocks f). rewrite Eb. cbn [bind].
      rewrite (Ha n (Done m) Ht ltac:(lia)). reflexivity. }
    unfold constants_max. rewrite Hm. cbn [bind]. exact (constants_remap_total f max m Hinv Hsr Hm).
Qed.
