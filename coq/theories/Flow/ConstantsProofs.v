(* Flow/ConstantsProofs.v -- proofs for property C13 about the model Flow/Constants.v, against
   executions of Exec/Sem.v.  Statement vocabulary first (c13_wf, exact_solution), then proofs. *)
From Coq Require Import ZArith List Bool NArith Lia ZifyBool.
From Falcon Require Import Base.Res IL.Const IL.ConstSpec IL.Expr IL.ExprSpec IL.ConstProofs IL.ExprProofs
     IL.Func IL.Loc IL.LocProofs Exec.Sem Flow.FixedPoint Flow.FpIL Flow.FixedPointProofs
     Flow.Constants Flow.C13Check Flow.SPOProofs.
Import ListNotations.
Local Open Scope Z_scope.
Notation map := List.map (only parsing).

(* ================================================================== statement vocabulary *)

(* one width per name among the scalars of the function; sources of assignments well sorted *)
Definition names_ok (f : func) : bool :=
  let u := all_scalars f in
  forallb (fun s => forallb (fun t => implb (skey_eqb (skey_of s) (skey_of t)) (scalar_eqb s t)) u) u.
Definition srcs_wf (f : func) : bool :=
  forallb (fun b => forallb (fun i => match i_op i with
                                      | OAssign dst src => wfb src && (sbits dst =? e_bits src)
                                      | _ => true end) (b_instrs b)) (f_blocks f).
Definition c13_wf (f : func) : bool := names_ok f && srcs_wf f.

(* validator: every stored state IS the transfer of the join of its predecessors' states (as maps).
   The engine only guarantees this up to Constants::partial_cmp = Equal, which is weaker. *)
Definition exact_at (f : func) (m : list (floc * cmap)) (l : floc) (s : cmap) : bool :=
  match backward f l with
  | Ok ps => match FixedPoint.join_neighbours floc cmap floc_eqb c_join m ps with
             | Ok sto => match c_trans f l sto with Ok new => cmap_eqb new s | _ => false end
             | _ => false
             end
  | _ => false
  end.
Definition exact_solution (f : func) (m : list (floc * cmap)) : bool :=
  forallb (fun kv : floc * cmap => exact_at f m (fst kv) (snd kv)) m.

(* ================================================================== association maps *)
Lemma scalar_eqb_refl s : scalar_eqb s s = true.
Proof. apply scalar_eqb_eq. reflexivity. Qed.

Lemma cst_eqb_eq a b : cst_eqb a b = true <-> a = b.
Proof.
  destruct a as [|x|], b as [|y|]; cbn; try (split; congruence).
  rewrite const_eqb_eq. split; congruence.
Qed.

Lemma cm_get_set m k v k' : cm_get (cm_set m k v) k' = if scalar_eqb k k' then Some v else cm_get m k'.
Proof.
  induction m as [|[k0 v0] t IH]; cbn [cm_set cm_get].
  - destruct (scalar_eqb k k'); reflexivity.
  - destruct (scalar_eqb k0 k) eqn:E0.
    + apply scalar_eqb_eq in E0. subst k0. cbn [cm_get]. destruct (scalar_eqb k k'); reflexivity.
    + cbn [cm_get]. destruct (scalar_eqb k0 k') eqn:E1.
      * apply scalar_eqb_eq in E1. subst k'.
        destruct (scalar_eqb k k0) eqn:E2; [|reflexivity].
        apply scalar_eqb_eq in E2. subst k0. rewrite scalar_eqb_refl in E0. discriminate.
      * exact IH.
Qed.

Lemma cm_get_in m k v : cm_get m k = Some v -> In (k, v) m.
Proof.
  induction m as [|[k0 v0] t IH]; cbn [cm_get]; [discriminate|].
  destruct (scalar_eqb k0 k) eqn:E; [|right; auto].
  apply scalar_eqb_eq in E. intros [= <-]. left. congruence.
Qed.
Lemma cm_get_none m k : cm_get m k = None <-> ~ In k (map fst m).
Proof.
  induction m as [|[k0 v0] t IH]; cbn [cm_get map fst In]; [tauto|].
  destruct (scalar_eqb k0 k) eqn:E.
  - apply scalar_eqb_eq in E. split; [discriminate|tauto].
  - rewrite IH. split; [|tauto]. intros H Hc. destruct Hc as [->|H']; [rewrite scalar_eqb_refl in E; discriminate|tauto].
Qed.
Lemma cm_in_get m k v : NoDup (map fst m) -> In (k, v) m -> cm_get m k = Some v.
Proof.
  induction m as [|[k0 v0] t IH]; cbn [map fst In cm_get]; [tauto|].
  intros Hn [[= -> ->]|Hin]; [rewrite scalar_eqb_refl; reflexivity|].
  inversion Hn as [|? ? Hnot Hn']; subst.
  destruct (scalar_eqb k0 k) eqn:E; [|auto].
  apply scalar_eqb_eq in E. subst k0. exfalso. apply Hnot. apply in_map_iff. exists (k, v). auto.
Qed.

Definition keys (m : cmap) : list scalar := map fst m.

Lemma keys_set m k v : keys (cm_set m k v) = if existsb (scalar_eqb k) (keys m) then keys m else keys m ++ [k].
Proof.
  unfold keys. induction m as [|[k0 v0] t IH]; cbn [cm_set map fst existsb app]; [reflexivity|].
  destruct (scalar_eqb k0 k) eqn:E.
  - apply scalar_eqb_eq in E. subst k0. rewrite scalar_eqb_refl. reflexivity.
  - cbn [map fst]. rewrite IH.
    assert (E' : scalar_eqb k k0 = false).
    { destruct (scalar_eqb k k0) eqn:E2; [|reflexivity]. apply scalar_eqb_eq in E2. subst. rewrite scalar_eqb_refl in E. discriminate. }
    rewrite E'. cbn [orb]. destruct (existsb (scalar_eqb k) (map fst t)); reflexivity.
Qed.
Lemma existsb_eqb_in k l : existsb (scalar_eqb k) l = true <-> In k l.
Proof.
  rewrite existsb_exists. split.
  - intros (x & Hx & E). apply scalar_eqb_eq in E. subst. exact Hx.
  - intros H. exists k. split; [exact H|apply scalar_eqb_refl].
Qed.
Lemma keys_set_in m k v x : In x (keys (cm_set m k v)) <-> x = k \/ In x (keys m).
Proof.
  rewrite keys_set. destruct (existsb (scalar_eqb k) (keys m)) eqn:E.
  - apply existsb_eqb_in in E. split; [tauto|]. intros [->|H]; assumption.
  - rewrite in_app_iff. cbn [In]. split; intros H.
    + destruct H as [H|[H|[]]]; [right; exact H|left; symmetry; exact H].
    + destruct H as [->|H]; [right; left; reflexivity|left; exact H].
Qed.
Lemma nodup_set m k v : NoDup (keys m) -> NoDup (keys (cm_set m k v)).
Proof.
  intros H. rewrite keys_set. destruct (existsb (scalar_eqb k) (keys m)) eqn:E; [exact H|].
  apply NoDup_app_intro; [exact H|constructor; [intros []|constructor]|].
  intros x Hx [<-|[]]. apply existsb_eqb_in in Hx. congruence.
Qed.

Lemma keys_top m : keys (cm_top m) = keys m.
Proof. unfold keys, cm_top. rewrite map_map. reflexivity. Qed.
Lemma cm_get_top m k : cm_get (cm_top m) k = match cm_get m k with Some _ => Some CTop | None => None end.
Proof.
  induction m as [|[k0 v0] t IH]; cbn [cm_top map cm_get fst]; [reflexivity|].
  destruct (scalar_eqb k0 k); [reflexivity|exact IH].
Qed.

(* ================================================================== join *)
Definition jstep (a r : cmap) (kv : scalar * cst) : cmap :=
  match cm_get a (fst kv) with
  | Some c => if cst_eqb c (snd kv) then r else cm_set r (fst kv) CTop
  | None => cm_set r (fst kv) (snd kv)
  end.
Lemma cm_join_fold a b : cm_join a b = fold_left (jstep a) b a.
Proof. reflexivity. Qed.

Lemma jstep_other a r kv s : scalar_eqb (fst kv) s = false -> cm_get (jstep a r kv) s = cm_get r s.
Proof.
  intros E. unfold jstep. destruct (cm_get a (fst kv)) as [c|].
  - destruct (cst_eqb c (snd kv)); [reflexivity|]. rewrite cm_get_set, E. reflexivity.
  - rewrite cm_get_set, E. reflexivity.
Qed.
Lemma jfold_other a t s : ~ In s (keys t) -> forall r, cm_get (fold_left (jstep a) t r) s = cm_get r s.
Proof.
  induction t as [|kv t IH]; intros Hn r; cbn [fold_left]; [reflexivity|].
  cbn [keys map In] in Hn. rewrite IH by (unfold keys; tauto). apply jstep_other.
  destruct (scalar_eqb (fst kv) s) eqn:E; [|reflexivity]. apply scalar_eqb_eq in E. tauto.
Qed.

Lemma jfold_nodup a b : forall r, NoDup (keys r) -> NoDup (keys (fold_left (jstep a) b r)).
Proof.
  induction b as [|kv t IH]; intros r Hr; cbn [fold_left]; [exact Hr|]. apply IH.
  unfold jstep. destruct (cm_get a (fst kv)) as [c|]; [destruct (cst_eqb c (snd kv)); [exact Hr|]|]; apply nodup_set; exact Hr.
Qed.
Lemma cm_join_nodup a b : NoDup (keys a) -> NoDup (keys (cm_join a b)).
Proof. intros H. rewrite cm_join_fold. apply jfold_nodup. exact H. Qed.

Lemma jstep_keys a r kv x : In x (keys (jstep a r kv)) -> In x (keys r) \/ x = fst kv.
Proof.
  unfold jstep. destruct (cm_get a (fst kv)) as [c|]; [destruct (cst_eqb c (snd kv)); [tauto|]|];
    intros H; apply keys_set_in in H; tauto.
Qed.
Lemma jfold_keys a b x : forall r, In x (keys (fold_left (jstep a) b r)) -> In x (keys r) \/ In x (keys b).
Proof.
  induction b as [|kv t IH]; intros r H; cbn [fold_left] in H; [tauto|].
  destruct (IH _ H) as [H1|H1]; [|right; right; exact H1].
  destruct (jstep_keys _ _ _ _ H1) as [H2| ->]; [tauto|right; left; reflexivity].
Qed.
Lemma cm_join_keys a b x : In x (keys (cm_join a b)) -> In x (keys a) \/ In x (keys b).
Proof. rewrite cm_join_fold. apply jfold_keys. Qed.

(* A carries every key of O, with O's value or Top *)
Definition above (O A : cmap) : Prop :=
  forall s x, cm_get O s = Some x -> cm_get A s = Some x \/ cm_get A s = Some CTop.
Lemma above_refl O : above O O.
Proof. intros s x H. tauto. Qed.

Lemma jfold_left_pos a b s x : cm_get a s = Some x ->
  forall r, (cm_get r s = Some x \/ cm_get r s = Some CTop) ->
  cm_get (fold_left (jstep a) b r) s = Some x \/ cm_get (fold_left (jstep a) b r) s = Some CTop.
Proof.
  intros Ha. induction b as [|kv t IH]; intros r Hr; cbn [fold_left]; [exact Hr|]. apply IH.
  destruct (scalar_eqb (fst kv) s) eqn:E; [|rewrite jstep_other by exact E; exact Hr].
  apply scalar_eqb_eq in E. unfold jstep. rewrite E, Ha.
  destruct (cst_eqb x (snd kv)); [exact Hr|]. rewrite cm_get_set, scalar_eqb_refl. tauto.
Qed.
Lemma above_join_left O A b : above O A -> above O (cm_join A b).
Proof.
  intros H s x Hs. rewrite cm_join_fold. destruct (H s x Hs) as [H1|H1].
  - apply jfold_left_pos; [exact H1|tauto].
  - destruct (jfold_left_pos A b s CTop H1 A (or_introl H1)); tauto.
Qed.

Lemma jfold_right_pos a b s y : NoDup (keys b) -> cm_get b s = Some y ->
  forall r, cm_get r s = cm_get a s ->
  cm_get (fold_left (jstep a) b r) s = Some y \/ cm_get (fold_left (jstep a) b r) s = Some CTop.
Proof.
  induction b as [|[k v] t IH]; intros Hn Hb r Hr; [discriminate|].
  cbn [keys map fst] in Hn. inversion Hn as [|? ? Hnot Hn']; subst.
  cbn [cm_get] in Hb. cbn [fold_left]. destruct (scalar_eqb k s) eqn:E.
  - apply scalar_eqb_eq in E. subst k. injection Hb as ->.
    rewrite jfold_other by exact Hnot. unfold jstep. cbn [fst snd].
    destruct (cm_get a s) as [c|] eqn:Ea.
    + destruct (cst_eqb c y) eqn:Ec.
      * apply cst_eqb_eq in Ec. subst c. left. exact Hr.
      * rewrite cm_get_set, scalar_eqb_refl. tauto.
    + rewrite cm_get_set, scalar_eqb_refl. tauto.
  - apply IH; [exact Hn'|exact Hb|]. rewrite jstep_other by exact E. exact Hr.
Qed.
Lemma above_join_right a O : NoDup (keys O) -> above O (cm_join a O).
Proof. intros Hn s y Hs. rewrite cm_join_fold. eapply jfold_right_pos; [exact Hn|exact Hs|reflexivity]. Qed.

Lemma above_trans O A B : above O A -> above A B -> above O B.
Proof.
  intros H1 H2 s x Hs. destruct (H1 s x Hs) as [H|H].
  - exact (H2 s x H).
  - destruct (H2 s CTop H); tauto.
Qed.

(* ---------- the two folds over predecessor states ---------- *)
Notation cjn := (FixedPoint.join_neighbours floc cmap floc_eqb c_join).
Notation clk := (FixedPoint.lookup floc cmap floc_eqb).

Lemma cjn_fold_above m O ps : forall a, above O a ->
  exists J, fold_left (FixedPoint.join_step floc cmap floc_eqb c_join m) ps (Ok (Some a)) = Ok (Some J) /\ above O J.
Proof.
  induction ps as [|p ps IH]; intros a Ha; cbn [fold_left]; [eauto|].
  unfold FixedPoint.join_step at 2. destruct (clk m p) as [x|]; [|apply IH; assumption].
  cbn [c_join]. apply IH. apply above_join_left. assumption.
Qed.
Lemma cjn_above m ps p O : In p ps -> clk m p = Some O -> NoDup (keys O) ->
  exists J, cjn m ps = Ok (Some J) /\ above O J.
Proof.
  unfold FixedPoint.join_neighbours. generalize (@None cmap) as acc.
  induction ps as [|q ps IH]; intros acc Hin Hl Hn; [destruct Hin|].
  cbn [fold_left]. unfold FixedPoint.join_step at 2.
  destruct Hin as [->|Hin].
  - rewrite Hl. destruct acc as [a|]; cbn [c_join].
    + apply cjn_fold_above. apply above_join_right. assumption.
    + apply cjn_fold_above. apply above_refl.
  - destruct (clk m q) as [x|]; [|apply IH; assumption].
    destruct acc as [a|]; cbn [c_join]; apply IH; assumption.
Qed.

Definition rstep (m : list (floc * cmap)) (c : cmap) (p : floc) : cmap :=
  match clk m p with Some s => cm_join c s | None => c end.
Lemma rfold_above m O ps : forall c, above O c -> above O (fold_left (rstep m) ps c).
Proof.
  induction ps as [|p ps IH]; intros c Hc; cbn [fold_left]; [exact Hc|]. apply IH.
  unfold rstep. destruct (clk m p); [apply above_join_left|]; exact Hc.
Qed.
Lemma remap_above m ps p O : In p ps -> clk m p = Some O -> NoDup (keys O) ->
  forall c, above O (fold_left (rstep m) ps c).
Proof.
  induction ps as [|q ps IH]; intros Hin Hl Hn c; [destruct Hin|]. cbn [fold_left].
  destruct Hin as [->|Hin]; [|apply IH; assumption].
  apply rfold_above. unfold rstep. rewrite Hl. apply above_join_right. exact Hn.
Qed.

(* ================================================================== Constants::eval against the semantics *)
Lemma replace_den en e s c : den en (EScalar s) = Ok c ->
  forall e', replace_scalar e s (EConst c) = Ok e' -> den en e' = den en e.
Proof.
  intros Hs. induction e as [t|k|o l IHl r IHr|o bits x IHx|g IHg t IHt f0 IHf]; intros e' H; cbn [replace_scalar] in H.
  - destruct (scalar_eqb t s) eqn:E; injection H as <-; [|reflexivity].
    apply scalar_eqb_eq in E. subst t. rewrite Hs. reflexivity.
  - injection H as <-. reflexivity.
  - destruct (replace_scalar l s (EConst c)) as [l'| |]; try discriminate. cbn [bind] in H.
    destruct (replace_scalar r s (EConst c)) as [r'| |]; try discriminate. cbn [bind] in H.
    unfold mk_bin in H. destruct (negb (e_bits l' =? e_bits r')); [discriminate|]. injection H as <-.
    cbn [den]. rewrite (IHl _ eq_refl), (IHr _ eq_refl). reflexivity.
  - destruct (replace_scalar x s (EConst c)) as [x'| |]; try discriminate. cbn [bind] in H.
    assert (e' = EExt o bits x').
    { unfold mk_ext in H. destruct o;
        match type of H with (if ?b then _ else _) = _ => destruct b end; congruence. }
    subst e'. cbn [den]. rewrite (IHx _ eq_refl). reflexivity.
  - destruct (replace_scalar g s (EConst c)) as [g'| |]; try discriminate. cbn [bind] in H.
    destruct (replace_scalar t s (EConst c)) as [t'| |]; try discriminate. cbn [bind] in H.
    destruct (replace_scalar f0 s (EConst c)) as [f'| |]; try discriminate. cbn [bind] in H.
    unfold mk_ite in H. match type of H with (if ?b then _ else _) = _ => destruct b end; [discriminate|].
    injection H as <-. cbn [den]. rewrite (IHg _ eq_refl), (IHt _ eq_refl), (IHf _ eq_refl). reflexivity.
Qed.

Lemma eden_none_den en e : wf e -> forall v, eden (fun _ => None) e = Ok v -> den en e = Ok v.
Proof.
  induction e as [t|k|o l IHl r IHr|o bits x IHx|g IHg t IHt f0 IHf]; cbn [wf eden den]; intros W v H.
  - discriminate.
  - exact H.
  - destruct W as (Wl & Wr & Eb).
    destruct (eden _ l) as [a| |] eqn:El; try discriminate. destruct (eden _ r) as [b| |] eqn:Er; try discriminate.
    cbn [bind] in H. rewrite (IHl Wl a eq_refl), (IHr Wr b eq_refl). cbn [bind].
    destruct (eden_good _ l env_none_ok Wl a El) as [A1 _]. destruct (eden_good _ r env_none_ok Wr b Er) as [B1 _].
    unfold sp_bin_c. replace (cbits a =? cbits b) with true by (symmetry; apply Z.eqb_eq; congruence). exact H.
  - assert (Wx : wf x) by (destruct o; tauto).
    destruct (eden _ x) as [a| |] eqn:Ex; try discriminate. cbn [bind] in H.
    rewrite (IHx Wx a eq_refl). exact H.
  - destruct W as (Wg & Wt & Wf & E1 & E2).
    destruct (eden _ g) as [cv| |] eqn:Eg; try discriminate. cbn [bind] in H.
    rewrite (IHg Wg cv eq_refl). cbn [bind].
    destruct (eden_good _ g env_none_ok Wg cv Eg) as [A1 _].
    replace (cbits cv =? 1) with true by (symmetry; apply Z.eqb_eq; congruence). cbn [negb].
    destruct (cval cv =? 1); [apply IHt|apply IHf]; assumption.
Qed.

(* constants stored in a map have the width of their key and are trimmed *)
Definition cgood (A : cmap) : Prop :=
  Forall (fun kv : scalar * cst => match snd kv with CConst c => cbits c = sbits (fst kv) /\ wf (EConst c) | _ => True end) A.
Lemma cgood_get A s c : cgood A -> cm_get A s = Some (CConst c) -> cbits c = sbits s /\ wf (EConst c).
Proof. intros H Hg. apply cm_get_in in Hg. unfold cgood in H. rewrite Forall_forall in H. exact (H _ Hg). Qed.

Lemma cm_scalar_get A s c : cm_scalar A s = Some c <-> cm_get A s = Some (CConst c).
Proof. unfold cm_scalar. destruct (cm_get A s) as [[|x|]|]; split; congruence. Qed.

Lemma eval_fold_sound en A : cgood A -> forall ss e e', wf e ->
  (forall s c, In s ss -> cm_get A s = Some (CConst c) -> env_get en (skey_of s) = Some c) ->
  eval_fold A ss e = Ok (Some e') -> wf e' /\ e_bits e' = e_bits e /\ den en e' = den en e.
Proof.
  intros HA. induction ss as [|s t IH]; intros e e' W Hen H; cbn [eval_fold] in H.
  - injection H as <-. auto.
  - destruct (cm_scalar A s) as [c|] eqn:Es; [|discriminate]. apply cm_scalar_get in Es.
    destruct (cgood_get A s c HA Es) as [Cw Cwf].
    destruct (replace_ok (fun _ => None) s c e W Cwf Cw) as (e1 & R1 & W1 & B1 & _).
    rewrite R1 in H.
    assert (D1 : den en e1 = den en e).
    { apply (replace_den en e s c); [|exact R1]. cbn [den]. rewrite (Hen s c (or_introl eq_refl) Es).
      rewrite Cw, Z.eqb_refl. reflexivity. }
    destruct (IH e1 e' W1 (fun s0 c0 Hin => Hen s0 c0 (or_intror Hin)) H) as (W' & B' & D').
    split; [exact W'|]. split; congruence.
Qed.

Lemma cm_eval_sound en A e v : wf e -> cgood A ->
  (forall s c, In s (scalars e) -> cm_get A s = Some (CConst c) -> env_get en (skey_of s) = Some c) ->
  cm_eval A e = Ok (Some v) -> den en e = Ok v.
Proof.
  intros W HA Hen H. unfold cm_eval in H.
  destruct (eval_fold A (scalars e) e) as [[e'|]| |] eqn:Ef; try discriminate. cbn [bind] in H.
  destruct (eval_fold_sound en A HA _ _ _ W Hen Ef) as (W' & _ & D).
  destruct (eval e') as [c| |] eqn:Ev; try discriminate. injection H as ->.
  rewrite <- D. apply eden_none_den; [exact W'|]. rewrite <- eval_eden by exact W'. exact Ev.
Qed.

Lemma eval_fold_wf A : cgood A -> forall ss e e', wf e ->
  eval_fold A ss e = Ok (Some e') -> wf e' /\ e_bits e' = e_bits e.
Proof.
  intros HA. induction ss as [|s t IH]; intros e e' W H; cbn [eval_fold] in H.
  - injection H as <-. auto.
  - destruct (cm_scalar A s) as [c|] eqn:Es; [|discriminate]. apply cm_scalar_get in Es.
    destruct (cgood_get A s c HA Es) as [Cw Cwf].
    destruct (replace_ok (fun _ => None) s c e W Cwf Cw) as (e1 & R1 & W1 & B1 & _).
    rewrite R1 in H. destruct (IH e1 e' W1 H) as (W' & B'). split; [exact W'|congruence].
Qed.

Lemma cm_eval_good A e v : wf e -> cgood A -> cm_eval A e = Ok (Some v) -> cbits v = e_bits e /\ wf (EConst v).
Proof.
  intros W HA H. unfold cm_eval in H.
  destruct (eval_fold A (scalars e) e) as [[e'|]| |] eqn:Ef; try discriminate. cbn [bind] in H.
  destruct (eval_fold_wf A HA _ _ _ W Ef) as (W' & B).
  destruct (eval e') as [c| |] eqn:Ev; try discriminate. injection H as ->.
  rewrite eval_eden in Ev by exact W'.
  destruct (eden_good _ e' env_none_ok W' v Ev) as [G1 G2]. pose proof (wf_bits e' W') as Wb.
  split; [congruence|]. cbn [wf]. rewrite G1. split; [exact Wb|rewrite <- G1; exact G2].
Qed.

(* Constants::eval never panics on a good map and a well-sorted expression *)
Lemma eval_fold_np A : cgood A -> forall ss e, wf e -> eval_fold A ss e <> Panic.
Proof.
  intros HA. induction ss as [|s t IH]; intros e W; cbn [eval_fold]; [discriminate|].
  destruct (cm_scalar A s) as [c|] eqn:Es; [|discriminate]. apply cm_scalar_get in Es.
  destruct (cgood_get A s c HA Es) as [Cw Cwf].
  destruct (replace_ok (fun _ => None) s c e W Cwf Cw) as (e1 & R1 & W1 & _). rewrite R1. apply IH. exact W1.
Qed.

(* ================================================================== goodness of states *)
Lemma cgood_set m k v : cgood m ->
  match v with CConst c => cbits c = sbits k /\ wf (EConst c) | _ => True end -> cgood (cm_set m k v).
Proof.
  intros H Hv. unfold cgood in *. induction m as [|[k0 v0] t IH]; cbn [cm_set].
  - constructor; [exact Hv|constructor].
  - inversion H as [|? ? H0 Ht]; subst. destruct (scalar_eqb k0 k) eqn:E.
    + apply scalar_eqb_eq in E. subst k0. constructor; [exact Hv|exact Ht].
    + constructor; [exact H0|apply IH; exact Ht].
Qed.
Lemma cgood_top m : cgood (cm_top m).
Proof. unfold cgood, cm_top. apply Forall_forall. intros kv H. apply in_map_iff in H as (x & <- & _). exact I. Qed.
Lemma jfold_cgood a b : cgood b -> forall r, cgood r -> cgood (fold_left (jstep a) b r).
Proof.
  induction b as [|kv t IH]; intros Hb r Hr; cbn [fold_left]; [exact Hr|].
  inversion Hb as [|? ? H0 Ht]; subst. apply IH; [exact Ht|].
  unfold jstep. destruct (cm_get a (fst kv)) as [c|].
  - destruct (cst_eqb c (snd kv)); [exact Hr|]. apply cgood_set; [exact Hr|exact I].
  - apply cgood_set; [exact Hr|]. destruct kv as [k [|c|]]; cbn [fst snd] in *; auto.
Qed.
Lemma cgood_join a b : cgood a -> cgood b -> cgood (cm_join a b).
Proof. intros Ha Hb. rewrite cm_join_fold. apply jfold_cgood; assumption. Qed.

Lemma ss_mem_in s x : ss_mem s x = true <-> In s x.
Proof. unfold ss_mem. apply existsb_eqb_in. Qed.
Lemma ss_add_in s x y : In y (ss_add s x) <-> y = s \/ In y x.
Proof.
  unfold ss_add. destruct (ss_mem s x) eqn:E.
  - apply ss_mem_in in E. split; [tauto|]. intros [->|H]; assumption.
  - cbn [In]. split; intros [H|H]; auto.
Qed.
Lemma fold_add_in xs : forall acc y, In y (fold_left (fun a s => ss_add s a) xs acc) <-> In y xs \/ In y acc.
Proof.
  induction xs as [|x t IH]; intros acc y; cbn [fold_left In]; [tauto|].
  rewrite IH, ss_add_in. split.
  - intros [H|[H|H]]; [left; right; exact H|left; left; symmetry; exact H|right; exact H].
  - intros [[H|H]|H]; [right; left; symmetry; exact H|left; exact H|right; right; exact H].
Qed.
Lemma all_scalars_in f l s : In l (locations f) ->
  In s (loc_reads f l ++ loc_writes f l ++ loc_declared f l) -> In s (all_scalars f).
Proof.
  unfold all_scalars. generalize (@nil scalar) as acc. induction (locations f) as [|l0 t IH]; intros acc Hl Hs; [destruct Hl|].
  cbn [fold_left]. destruct Hl as [->|Hl]; [|apply IH; assumption].
  assert (G : forall ls acc0, In s acc0 ->
    In s (fold_left (fun acc1 l1 => fold_left (fun a s0 => ss_add s0 a) (loc_reads f l1 ++ loc_writes f l1 ++ loc_declared f l1) acc1) ls acc0)).
  { induction ls as [|l1 ls IHls]; intros acc0 H0; cbn [fold_left]; [exact H0|]. apply IHls. apply fold_add_in. tauto. }
  apply G. apply fold_add_in. tauto.
Qed.

Section Good.
  Variable f : func.
  Let U := all_scalars f.

  Definition good (A : cmap) : Prop := NoDup (keys A) /\ (forall k, In k (keys A) -> In k U) /\ cgood A.

  Lemma good_nil : good [].
  Proof. split; [constructor|split; [intros k []|constructor]]. Qed.

  Lemma good_join a b : good a -> good b -> good (cm_join a b).
  Proof.
    intros (A1 & A2 & A3) (B1 & B2 & B3). split; [apply cm_join_nodup; exact A1|split].
    - intros k Hk. destruct (cm_join_keys _ _ _ Hk); auto.
    - apply cgood_join; assumption.
  Qed.

  Lemma good_set A k v : good A -> In k U ->
    match v with CConst c => cbits c = sbits k /\ wf (EConst c) | _ => True end -> good (cm_set A k v).
  Proof.
    intros (A1 & A2 & A3) Hk Hv. split; [apply nodup_set; exact A1|split].
    - intros x Hx. apply keys_set_in in Hx as [->|Hx]; auto.
    - apply cgood_set; assumption.
  Qed.
  Lemma good_top A : good A -> good (cm_top A).
  Proof.
    intros (A1 & A2 & A3). split; [rewrite keys_top; exact A1|split; [rewrite keys_top; exact A2|apply cgood_top]].
  Qed.

  Hypothesis Hsrc : srcs_wf f = true.

  Lemma srcs_wf_at l i dst src : loc_instruction f l = Some i -> i_op i = OAssign dst src ->
    wf src /\ sbits dst = e_bits src.
  Proof.
    intros Hi Ho. destruct (loc_instruction_in f l i Hi) as (b & Hb & Hin).
    unfold srcs_wf in Hsrc. rewrite forallb_forall in Hsrc. specialize (Hsrc b Hb).
    rewrite forallb_forall in Hsrc. specialize (Hsrc i Hin). rewrite Ho in Hsrc.
    apply andb_prop in Hsrc as [H1 H2]. split; [apply wfb_wf; exact H1|lia].
  Qed.

  (* every state produced by the transfer function from a good state is good *)
  Lemma good_trans l st a : In l (locations f) -> (forall s, st = Some s -> good s) -> c_trans f l st = Ok a -> good a.
  Proof.
    intros Hl Hst. unfold c_trans.
    set (s := match st with Some s => s | None => [] end).
    assert (Hs : good s) by (subst s; destruct st; [apply Hst; reflexivity|apply good_nil]).
    clearbody s. destruct l as [bi ii|h t|bi]; try (intros [= <-]; exact Hs).
    destruct (loc_instruction f (LInstr bi ii)) as [i|] eqn:Hi; [|discriminate].
    assert (HU : forall x, In x (loc_writes f (LInstr bi ii) ++ loc_declared f (LInstr bi ii)) -> In x U).
    { intros x Hx. apply (all_scalars_in f (LInstr bi ii)); [exact Hl|]. apply in_or_app. right. exact Hx. }
    unfold loc_writes, loc_declared in HU. rewrite Hi in HU.
    destruct (i_op i) as [dst src|idx src|dst idx|tgt|intr|ph] eqn:Ho.
    - destruct (srcs_wf_at _ _ _ _ Hi Ho) as [Wsrc Wb].
      destruct (cm_eval s src) as [[c|]| |] eqn:Ee; try discriminate; cbn [bind]; intros [= <-].
      + apply good_set; [exact Hs|apply HU; left; reflexivity|].
        destruct (cm_eval_good s src c Wsrc (proj2 (proj2 Hs)) Ee) as [G1 G2]. split; [congruence|exact G2].
      + apply good_set; [exact Hs|apply HU; left; reflexivity|exact I].
    - intros [= <-]. exact Hs.
    - intros [= <-]. apply good_set; [exact Hs|apply HU; left; reflexivity|exact I].
    - intros [= <-]. apply good_top. exact Hs.
    - destruct (intr_scalars_written intr) as [ws|]; intros [= <-]; [|apply good_top; exact Hs].
      cbn [app] in HU. revert s Hs. induction ws as [|w ws IH]; intros s Hs; cbn [fold_left]; [exact Hs|].
      apply IH; [intros x Hx; apply HU; right; exact Hx|]. apply good_set; [exact Hs|apply HU; left; reflexivity|exact I].
    - intros [= <-]. exact Hs.
  Qed.
End Good.

(* ================================================================== one step of an execution *)
Lemma key_mem_cons k x l : key_mem k (x :: l) = skey_eqb k x || key_mem k l.
Proof. reflexivity. Qed.
Lemma skey_eqb_refl k : skey_eqb k k = true.
Proof. apply skey_eqb_eq. reflexivity. Qed.
Lemma skey_eqb_sym a b : skey_eqb a b = skey_eqb b a.
Proof.
  destruct (skey_eqb a b) eqn:E1, (skey_eqb b a) eqn:E2; try reflexivity.
  - apply skey_eqb_eq in E1. subst. rewrite skey_eqb_refl in E2. discriminate.
  - apply skey_eqb_eq in E2. subst. rewrite skey_eqb_refl in E1. discriminate.
Qed.

(* what a step that moves on did: an instruction executed with event ev, or nothing changed *)
Lemma sem_step_next_inv f l st l' st' ev : sem_step f l st = Sem.Next l' st' ev ->
  (exists i, loc_instruction f l = Some i /\ exec_op st (i_op i) = Ok (st', ev)) \/
  (loc_instruction f l = None /\ st' = st /\ ev = EvNone).
Proof.
  destruct l as [b ii|h t|b]; unfold sem_step.
  - destruct (loc_instruction f (LInstr b ii)) as [i|]; [|discriminate].
    destruct (exec_op st (i_op i)) as [[st1 ev1]| |] eqn:Ex; try discriminate.
    intros H. left. exists i. split; [reflexivity|]. rewrite Ex.
    destruct ev1; try discriminate H;
      (destruct (forward f (LInstr b ii)) as [succs| |]; [|discriminate H ..];
       match type of H with choose f st1 ?e succs = _ =>
         destruct (choose_cases f st1 e succs) as [(l0 & E & _)|[E|(e0 & E)]]; rewrite E in H; [|discriminate H ..] end;
       injection H as _ <- <-; reflexivity).
  - cbn [loc_instruction]. destruct (forward f (LEdge h t)) as [[|x [|? ?]]| |]; try discriminate.
    intros [= _ <- <-]. right. auto.
  - cbn [loc_instruction]. destruct (forward f (LEmpty b)) as [succs| |]; [|discriminate ..].
    destruct (choose_cases f st EvNone succs) as [(l0 & -> & _)|[-> |(e0 & ->)]]; [|discriminate ..].
    intros [= _ <- <-]. right. auto.
Qed.

Definition asg_after (asg : list skey) (ev : event) : list skey :=
  match ev with EvAssign k _ | EvLoad k _ _ => k :: asg | _ => asg end.

Section Exec.
  Variable f : func.
  Let U := all_scalars f.
  Hypothesis Hnames : names_ok f = true.
  Hypothesis Hsrc : srcs_wf f = true.

  Lemma names_inj s t : In s U -> In t U -> skey_of s = skey_of t -> s = t.
  Proof.
    intros Hs Ht E. unfold names_ok in Hnames. fold U in Hnames.
    rewrite forallb_forall in Hnames. specialize (Hnames s Hs). rewrite forallb_forall in Hnames. specialize (Hnames t Ht).
    rewrite E, skey_eqb_refl in Hnames. cbn [implb] in Hnames. apply scalar_eqb_eq. exact Hnames.
  Qed.

  (* the map A describes the environment en of an execution in which the keys asg have been assigned *)
  Definition desc (A : cmap) (en : senv) (asg : list skey) : Prop :=
    (forall s, In s U -> key_mem (skey_of s) asg = true -> cm_get A s <> None) /\
    (forall s c, cm_get A s = Some (CConst c) -> key_mem (skey_of s) asg = true -> env_get en (skey_of s) = Some c).

  Lemma desc_nil en : desc [] en [].
  Proof. split; [intros s _ H; discriminate H|intros s c H; discriminate H]. Qed.

  Lemma desc_above O A en asg : (forall k, In k (keys A) -> In k U) -> desc O en asg -> above O A -> desc A en asg.
  Proof.
    intros HA [D1 D2] Hab. split.
    - intros s Hs Hk. destruct (cm_get O s) as [x|] eqn:Eo; [|exfalso; exact (D1 s Hs Hk Eo)].
      destruct (Hab s x Eo) as [H|H]; rewrite H; discriminate.
    - intros s c Hg Hk.
      assert (Hs : In s U). { apply HA. apply cm_get_in in Hg. unfold keys. apply in_map_iff. exists (s, CConst c). auto. }
      destruct (cm_get O s) as [x|] eqn:Eo; [|exfalso; exact (D1 s Hs Hk Eo)].
      destruct (Hab s x Eo) as [H|H]; rewrite H in Hg; [|discriminate]. injection Hg as ->. exact (D2 s c Eo Hk).
  Qed.
End Exec.

Section Exec2.
  Variable f : func.
  Let U := all_scalars f.
  Hypothesis Hnames : names_ok f = true.
  Hypothesis Hsrc : srcs_wf f = true.

  Lemma desc_asg_nil A en : desc f A en [].
  Proof. split; [intros s _ H; discriminate H|intros s c _ H; discriminate H]. Qed.

  Lemma desc_ext A B en asg : (forall k, cm_get A k = cm_get B k) -> desc f A en asg -> desc f B en asg.
  Proof. intros E [D1 D2]. split; [intros s Hs Hk; rewrite <- E; auto|intros s c Hg Hk; rewrite <- E in Hg; auto]. Qed.

  Lemma scalar_eqb_false a b : a <> b -> scalar_eqb a b = false.
  Proof. intros H. destruct (scalar_eqb a b) eqn:E; [|reflexivity]. apply scalar_eqb_eq in E. contradiction. Qed.
  Lemma skey_eqb_false a b : a <> b -> skey_eqb a b = false.
  Proof. intros H. destruct (skey_eqb a b) eqn:E; [|reflexivity]. apply skey_eqb_eq in E. contradiction. Qed.

  Lemma get_in_keys A s v : cm_get A s = Some v -> In s (keys A).
  Proof. intros H. apply cm_get_in in H. unfold keys. apply in_map_iff. exists (s, v). auto. Qed.

  (* assigning dst (abstractly cv, concretely v) *)
  Lemma desc_set s en asg dst cv v : good f s -> desc f s en asg -> In dst U ->
    (forall c, cv = CConst c -> v = c) ->
    desc f (cm_set s dst cv) (env_set en (skey_of dst) v) (skey_of dst :: asg).
  Proof.
    intros (G1 & G2 & G3) [D1 D2] Hd Hv. split.
    - intros t Ht Hk. rewrite cm_get_set. destruct (scalar_eqb dst t) eqn:E; [discriminate|].
      rewrite key_mem_cons in Hk. apply orb_prop in Hk as [Hk|Hk]; [|exact (D1 t Ht Hk)].
      apply skey_eqb_eq in Hk. rewrite (names_inj f Hnames t dst Ht Hd Hk), scalar_eqb_refl in E. discriminate.
    - intros t c Hg Hk. rewrite cm_get_set in Hg. rewrite SPOProofs.env_get_set.
      destruct (scalar_eqb dst t) eqn:E.
      + apply scalar_eqb_eq in E. subst t. rewrite skey_eqb_refl. injection Hg as ->. f_equal. apply Hv. reflexivity.
      + assert (Ht : In t U) by (apply G2; eapply get_in_keys; exact Hg).
        assert (Hne : skey_of dst <> skey_of t).
        { intros Ek. rewrite (names_inj f Hnames dst t Hd Ht Ek), scalar_eqb_refl in E. discriminate. }
        rewrite (skey_eqb_false _ _ Hne). apply D2; [exact Hg|].
        rewrite key_mem_cons in Hk. rewrite (skey_eqb_false (skey_of t) (skey_of dst)) in Hk by congruence. exact Hk.
  Qed.

  Lemma desc_top s en asg : desc f s en asg -> desc f (cm_top s) en asg.
  Proof.
    intros [D1 D2]. split.
    - intros t Ht Hk. rewrite cm_get_top. specialize (D1 t Ht Hk). destruct (cm_get s t); [discriminate|contradiction].
    - intros t c Hg. rewrite cm_get_top in Hg. destruct (cm_get s t); discriminate.
  Qed.

  Lemma desc_mem s st m' asg : desc f s (st_env st) asg -> desc f s (st_env (mkst (st_env st) m')) asg.
  Proof. auto. Qed.

  Lemma c_trans_norm l sto : c_trans f l sto = c_trans f l (Some (match sto with Some s => s | None => [] end)).
  Proof. destruct sto; reflexivity. Qed.

  (* executing the instruction at l from a described state *)
  Lemma trans_desc l i sto st st' ev asg new :
    In l (locations f) -> loc_instruction f l = Some i ->
    forall s, s = match sto with Some s => s | None => [] end ->
    good f s -> desc f s (st_env st) asg ->
    (forall x, In x (loc_reads f l) -> key_mem (skey_of x) asg = true) ->
    exec_op st (i_op i) = Ok (st', ev) -> c_trans f l sto = Ok new ->
    desc f new (st_env st') (asg_after asg ev).
  Proof.
    intros Hl Hi s Hs Hg Hd Hreads Hex Ht.
    assert (HU : forall x, In x (loc_writes f l) -> In x U).
    { intros x Hx. apply (all_scalars_in f l); [exact Hl|]. apply in_or_app. right. apply in_or_app. left. exact Hx. }
    destruct l as [bi ii|h t|bi]; try discriminate Hi.
    rewrite c_trans_norm, <- Hs in Ht. clear Hs.
    cbv beta iota zeta delta [c_trans] in Ht. rewrite Hi in Ht.
    unfold loc_reads in Hreads. rewrite Hi in Hreads. unfold loc_writes in HU. rewrite Hi in HU.
    destruct (i_op i) as [dst src|idx src|dst idx|tgt|intr|ph] eqn:Ho; cbn [exec_op op_scalars_read] in *.
    - (* Assign *)
      destruct (srcs_wf_at f Hsrc _ _ _ _ Hi Ho) as [Wsrc _].
      destruct (den (st_env st) src) as [v| |] eqn:Ed; try discriminate. cbn [bind] in Hex. injection Hex as <- <-.
      destruct (cm_eval s src) as [r| |] eqn:Ee; try discriminate. cbn [bind] in Ht. injection Ht as <-.
      cbn [asg_after st_env]. apply desc_set; [exact Hg|exact Hd|apply HU; left; reflexivity|].
      intros c Hc. destruct r as [c'|]; [|discriminate]. injection Hc as ->.
      assert (Hden : den (st_env st) src = Ok c).
      { apply (cm_eval_sound (st_env st) s src c Wsrc (proj2 (proj2 Hg))); [|exact Ee].
        intros x cx Hx Hgx. apply (proj2 Hd x cx Hgx). apply Hreads. exact Hx. }
      congruence.
    - (* Store *)
      destruct (den (st_env st) src) as [v| |]; try discriminate. cbn [bind] in Hex.
      destruct (den (st_env st) idx) as [ix| |]; try discriminate. cbn [bind] in Hex.
      destruct (addr_of ix) as [a| |]; try discriminate. cbn [bind] in Hex.
      destruct (mem_store (st_mem st) a v) as [m'| |]; try discriminate. cbn [bind] in Hex.
      injection Hex as <- <-. injection Ht as <-. exact Hd.
    - (* Load *)
      destruct (den (st_env st) idx) as [ix| |]; try discriminate. cbn [bind] in Hex.
      destruct (addr_of ix) as [a| |]; try discriminate. cbn [bind] in Hex.
      destruct (mem_load (st_mem st) a (sbits dst)) as [v| |]; try discriminate. cbn [bind] in Hex.
      injection Hex as <- <-. injection Ht as <-. cbn [asg_after st_env].
      apply desc_set; [exact Hg|exact Hd|apply HU; left; reflexivity|discriminate].
    - (* Branch *)
      destruct (den (st_env st) tgt) as [tv| |]; try discriminate. cbn [bind] in Hex.
      destruct (addr_of tv) as [a| |]; try discriminate. cbn [bind] in Hex.
      injection Hex as <- <-. injection Ht as <-. apply desc_top. exact Hd.
    - discriminate.
    - injection Hex as <- <-. injection Ht as <-. exact Hd.
  Qed.
End Exec2.
