(* IL/ConstCostProofs.v -- proofs about the instrumented model ConstCost.v:
   (i) consistency: its first component is exactly Const.v / Expr.v (c_bin_i_fst, c_ext_i_fst, eval_i_fst);
   (ii) alloc_bounded: every logged big-integer intermediate is bounded by the WIDTHS alone. Proofs only. *)
From Coq Require Import ZArith List Bool Lia ZifyBool.
From Falcon Require Import Base.Res IL.Const IL.ConstSpec IL.Expr IL.ExprSpec IL.ConstProofs IL.ExprProofs IL.ConstCost.
Import ListNotations.
Local Open Scope Z_scope.
Ltac Zify.zify_post_hook ::= Z.div_mod_to_equations.

(* ---------- consistency: the instrumented functions compute the results of Const.v / Expr.v ---------- *)

Lemma fst_wbind {A B} (m : W A) (f : A -> W B) : fst (wbind m f) = bind (fst m) (fun a => fst (f a)).
Proof. unfold wbind. destruct (fst m); reflexivity. Qed.

Lemma shl1 w : big_shl 1 w - 1 = ones w.
Proof. unfold big_shl, ones. lia. Qed.

Lemma fst_trim_i v w : fst (trim_i v w) = Ok (trim v w).
Proof. unfold trim_i. cbn [wbind big fst snd]. rewrite shl1. reflexivity. Qed.

Lemma fst_new_big_i v w : fst (new_big_i v w) = Ok (new_big v w).
Proof. unfold new_big_i. rewrite fst_wbind, fst_trim_i. reflexivity. Qed.

Lemma fst_to_bigint_i c : fst (to_bigint_i c) = to_bigint c.
Proof.
  unfold to_bigint_i, to_bigint. rewrite fst_wbind. cbn [lift fst].
  destruct (usub (cbits c) 1) as [s| |]; cbn [bind]; try reflexivity.
  cbn [wbind big fst snd]. destruct (_ =? 1); cbn [wbind big wret fst snd]; [rewrite shl1|]; reflexivity.
Qed.

Lemma fst_c1_i b : fst (c1_i b) = Ok (c1 b).
Proof. unfold c1_i, c1. cbn [wbind big fst snd]. apply fst_new_big_i. Qed.

Lemma fst_signed_fix_i q w :
  fst (signed_fix_i q w) = if 0 <=? q then Ok (new_big q w) else Ok (new_big (neg_fix q w) w).
Proof.
  unfold signed_fix_i, neg_fix. destruct (0 <=? q); [apply fst_new_big_i|].
  cbn [wbind big fst snd]. rewrite shl1. apply fst_new_big_i.
Qed.

Ltac grd := match goal with |- context [if ?c then _ else _] => destruct c; [reflexivity|] end.
Ltac bigs := cbn [wbind big wret lift fst snd].

Theorem c_bin_i_fst : forall o a b, fst (c_bin_i o a b) = c_bin o a b.
Proof.
  intros o a b. destruct o; cbn [c_bin_i c_bin].
  - unfold c_add_i, c_add. grd. bigs. apply fst_new_big_i.
  - unfold c_sub_i, c_sub. grd. destruct (_ <? _); bigs; apply fst_new_big_i.
  - unfold c_mul_i, c_mul. grd. bigs. apply fst_new_big_i.
  - unfold c_divu_i, c_divu. grd. grd. bigs. apply fst_new_big_i.
  - unfold c_modu_i, c_modu. grd. grd. bigs. apply fst_new_big_i.
  - unfold c_divs_i, c_divs. grd. grd. rewrite fst_wbind, fst_to_bigint_i.
    destruct (to_bigint a); cbn [bind]; try reflexivity. rewrite fst_wbind, fst_to_bigint_i.
    destruct (to_bigint b); cbn [bind]; try reflexivity. bigs. apply fst_signed_fix_i.
  - unfold c_mods_i, c_mods. grd. grd. rewrite fst_wbind, fst_to_bigint_i.
    destruct (to_bigint a); cbn [bind]; try reflexivity. rewrite fst_wbind, fst_to_bigint_i.
    destruct (to_bigint b); cbn [bind]; try reflexivity. bigs. apply fst_signed_fix_i.
  - unfold c_and_i, c_and. grd. bigs. apply fst_new_big_i.
  - unfold c_or_i, c_or. grd. bigs. apply fst_new_big_i.
  - unfold c_xor_i, c_xor. grd. bigs. apply fst_new_big_i.
  - unfold c_shl_i, c_shl. grd. rewrite fst_wbind.
    destruct (to_usize (cval b)); [destruct (_ <=? _)|]; bigs; cbn [bind]; apply fst_new_big_i.
  - unfold c_shr_i, c_shr. grd. rewrite fst_wbind.
    destruct (to_usize (cval b)); bigs; cbn [bind]; apply fst_new_big_i.
  - unfold c_ashr_i, c_ashr. grd. rewrite fst_wbind. cbn [lift fst].
    destruct (usub (cbits a) 1); cbn [bind]; try reflexivity. bigs. rewrite shl1.
    destruct (_ =? 0); bigs; destruct (to_usize (cval b)); try destruct (_ <=? _); bigs; apply fst_new_big_i.
  - unfold c_cmpeq_i, c_cmpeq. grd. apply fst_c1_i.
  - unfold c_cmpneq_i, c_cmpneq. grd. apply fst_c1_i.
  - unfold c_cmplts_i, c_cmplts. grd. rewrite fst_wbind, fst_to_bigint_i.
    destruct (to_bigint a); cbn [bind]; try reflexivity. rewrite fst_wbind, fst_to_bigint_i.
    destruct (to_bigint b); cbn [bind]; try reflexivity.
  - unfold c_cmpltu_i, c_cmpltu. grd. apply fst_c1_i.
Qed.

Theorem c_ext_i_fst : forall o bits a, fst (c_ext_i o bits a) = c_ext o bits a.
Proof.
  intros o bits a. destruct o; cbn [c_ext_i c_ext].
  - unfold c_zext_i, c_zext. grd. apply fst_new_big_i.
  - unfold c_sext_i, c_sext. grd. rewrite fst_wbind. cbn [lift fst].
    destruct (usub (cbits a) 1); cbn [bind]; try reflexivity. bigs.
    destruct (_ =? 1); bigs; rewrite ?shl1; apply fst_new_big_i.
  - unfold c_trun_i, c_trun. grd. apply fst_new_big_i.
Qed.

Theorem eval_i_fst : forall e, fst (eval_i e) = eval e.
Proof.
  induction e as [s|c|o l IHl r IHr|o bits x IHx|c IHc t IHt f IHf]; cbn [eval_i eval].
  - reflexivity.
  - reflexivity.
  - rewrite fst_wbind, IHl. destruct (eval l); cbn [bind]; try reflexivity.
    rewrite fst_wbind, IHr. destruct (eval r); cbn [bind]; try reflexivity. apply c_bin_i_fst.
  - rewrite fst_wbind, IHx. destruct (eval x); cbn [bind]; try reflexivity. apply c_ext_i_fst.
  - rewrite fst_wbind, IHc. destruct (eval c); cbn [bind]; try reflexivity.
    destruct (c_is_one a); assumption.
Qed.

(* ---------- bounds ---------- *)

Lemma allb_ret {A} k (x : A) : allb k (wret x). Proof. constructor. Qed.
Lemma allb_lift {A} k (r : res A) : allb k (lift r). Proof. constructor. Qed.
Lemma allb_big k v : bnd k v -> allb k (big v). Proof. intros. repeat constructor. assumption. Qed.
Lemma allb_bind {A B} k (m : W A) (f : A -> W B) :
  allb k m -> (forall a, fst m = Ok a -> allb k (f a)) -> allb k (wbind m f).
Proof.
  unfold allb, wbind. intros Hm Hf. destruct (fst m) as [a| |] eqn:E; cbn [snd]; try assumption.
  apply Forall_app. split; [assumption|apply Hf; reflexivity].
Qed.
Lemma allb_if {A} k (c : bool) (x y : W A) : allb k x -> allb k y -> allb k (if c then x else y).
Proof. destruct c; auto. Qed.
Lemma bnd_mono k k' v : k <= k' -> bnd k v -> bnd k' v.
Proof. unfold bnd. intros L H. pose proof (Z.pow_le_mono_r 2 k k' ltac:(lia) L). lia. Qed.
Lemma allb_mono {A} k k' (m : W A) : k <= k' -> allb k m -> allb k' m.
Proof. unfold allb. intros L H. eapply Forall_impl; [|exact H]. intros v. apply bnd_mono. assumption. Qed.
Lemma bnd_inr k w v : 0 <= w <= k -> inr w v -> bnd k v.
Proof. unfold bnd, inr. intros L H. pose proof (pow_mono_le w k L). lia. Qed.

Lemma fst_big_inv v x : fst (big v) = Ok x -> x = v.
Proof. intros H. injection H as <-. reflexivity. Qed.

Ltac bstep := apply allb_bind;
  [ apply allb_big
  | let x := fresh "x" in let Hx := fresh "Hx" in intros x Hx; apply fst_big_inv in Hx; subst x ].

Lemma allb_trim k v w : 0 <= w < k -> allb k (trim_i v w).
Proof.
  intros Hw. unfold trim_i. pose proof (pow_pos w ltac:(lia)) as P. pose proof (pow_mono_lt w k Hw) as L.
  bstep; [unfold bnd, big_shl; lia|]. bstep; [unfold bnd, big_shl; lia|].
  apply allb_big. rewrite shl1. change (Z.land v (ones w)) with (trim v w).
  apply (bnd_inr k w); [lia|apply trim_inr; lia].
Qed.

Lemma allb_new_big k v w : 0 <= w < k -> allb k (new_big_i v w).
Proof. intros. unfold new_big_i. apply allb_bind; [apply allb_trim; assumption|intros; apply allb_ret]. Qed.

Lemma allb_to_bigint k w a : 1 <= w < k -> inr w a -> allb k (to_bigint_i (mkc w a)).
Proof.
  intros Hw Ha. pose proof Ha as [A0 A1]. unfold to_bigint_i. cbn [cbits cval]. rewrite usub_ok by lia.
  pose proof (pow_pos w ltac:(lia)) as P. pose proof (pow_mono_lt w k ltac:(lia)) as L.
  apply allb_bind; [apply allb_lift|]. intros s Hs. cbn [lift fst] in Hs. injection Hs as <-.
  bstep; [rewrite big_shr_div by lia; apply (bnd_inr k w); [lia|apply div_pow_inr; (lia || assumption)]|].
  apply allb_if; [|apply allb_ret].
  bstep; [unfold bnd, big_shl; lia|]. bstep; [unfold bnd, big_shl; lia|].
  rewrite shl1, lxor_ones_inr by (lia || assumption).
  bstep; [unfold bnd; lia|]. bstep; [unfold bnd; lia|]. apply allb_big. unfold bnd. lia.
Qed.

Lemma to_bigint_i_val w a l : 1 <= w -> inr w a -> fst (to_bigint_i (mkc w a)) = Ok l -> l = S w a.
Proof. intros Hw Ha E. rewrite fst_to_bigint_i, to_bigint_S in E by assumption. congruence. Qed.

Lemma lxor_neg_ones q w : 1 <= w -> - 2 ^ w < q < 0 -> Z.lxor (q - 1) (ones w) = - (2 ^ w + q).
Proof.
  intros Hw Hq. set (k := - q - 1).
  replace (q - 1) with (Z.lnot (k + 1)) by (unfold Z.lnot, k; lia).
  rewrite <- Z.lnot_lxor_l. rewrite lxor_ones_inr by (unfold inr, k; lia).
  unfold Z.lnot, k. lia.
Qed.

Lemma allb_signed_fix k q w : 1 <= w -> w + 1 < k -> - 2 ^ w < q < 2 ^ w -> allb k (signed_fix_i q w).
Proof.
  intros Hw Hk Hq. unfold signed_fix_i.
  pose proof (pow_pos w ltac:(lia)) as P. pose proof (pow_mono_lt (w + 1) k ltac:(lia)) as L.
  rewrite Z.pow_add_r in L by lia. change (2 ^ 1) with 2 in L.
  destruct (Z.leb_spec 0 q); [apply allb_new_big; lia|].
  bstep; [unfold bnd, big_shl; lia|]. bstep; [unfold bnd, big_shl; lia|].
  bstep; [unfold bnd; lia|]. rewrite shl1, lxor_neg_ones by lia.
  bstep; [unfold bnd; lia|]. bstep; [unfold bnd; lia|]. apply allb_new_big; lia.
Qed.

Ltac sortok := unfold same_sort; cbn [cbits cval]; rewrite Z.eqb_refl; cbn [negb].

Lemma allb_c1 k b : 3 <= k -> allb k (c1_i b).
Proof.
  intros Hk. unfold c1_i. pose proof (pow_mono_le 3 k ltac:(lia)) as L. change (2 ^ 3) with 8 in L.
  bstep; [unfold bnd; destruct b; lia|]. apply allb_new_big. lia.
Qed.

Theorem alloc_bounded_bin : forall o w a b, 1 <= w -> inr w a -> inr w b ->
  allb (2 * w + 2) (c_bin_i o (mkc w a) (mkc w b)).
Proof.
  intros o w a b Hw Ha Hb. pose proof Ha as [A0 A1]. pose proof Hb as [B0 B1].
  set (K := 2 * w + 2).
  assert (HK : 2 ^ K = 4 * (2 ^ w * 2 ^ w)).
  { unfold K. replace (2 * w + 2) with (2 + (w + w)) by lia. rewrite !Z.pow_add_r by lia. reflexivity. }
  pose proof (pow_half w Hw) as PH. pose proof (pow_pos (w - 1) ltac:(lia)) as PP.
  assert (NB : forall v, allb K (new_big_i v w)) by (intros; apply allb_new_big; unfold K; lia).
  assert (IN : forall v, inr w v -> bnd K v) by (intros v Hv; apply (bnd_inr K w); [unfold K; lia|assumption]).
  assert (TB : forall c, inr w c -> allb K (to_bigint_i (mkc w c))) by (intros; apply allb_to_bigint; [unfold K; lia|assumption]).
  destruct o; cbn [c_bin_i].
  - unfold c_add_i. sortok. bstep; [unfold bnd; rewrite HK; nia|]. apply NB.
  - unfold c_sub_i. sortok. destruct (Z.ltb_spec a b).
    + bstep; [unfold bnd, big_shl; rewrite HK; nia|].
      unfold big_shl. rewrite lor_lo_hi by (lia || assumption).
      bstep; [unfold bnd; rewrite HK; nia|].
      bstep; [unfold bnd; rewrite HK; nia|]. apply NB.
    + bstep; [unfold bnd; rewrite HK; nia|]. apply NB.
  - unfold c_mul_i. sortok. bstep; [unfold bnd; rewrite HK; nia|]. apply NB.
  - unfold c_divu_i. sortok. destruct (Z.eqb_spec b 0); [apply allb_lift|].
    bstep; [|apply NB]. apply IN. split; [apply Z.div_pos; lia|].
    assert (a / b <= a); [|lia]. apply Z.div_le_upper_bound; nia.
  - unfold c_modu_i. sortok. destruct (Z.eqb_spec b 0); [apply allb_lift|].
    bstep; [|apply NB]. apply IN. pose proof (Z.mod_pos_bound a b ltac:(lia)). unfold inr. lia.
  - unfold c_divs_i. sortok. destruct (Z.eqb_spec b 0) as [E|E]; [apply allb_lift|].
    apply allb_bind; [apply TB; assumption|]. intros l Hl. apply to_bigint_i_val in Hl; [|assumption..]. subst l.
    apply allb_bind; [apply TB; assumption|]. intros r Hr. apply to_bigint_i_val in Hr; [|assumption..]. subst r.
    pose proof (S_range w a Hw Ha). pose proof (S_range w b Hw Hb).
    assert (S w b <> 0) by (intro Z0; apply E; eapply S_eq_zero; eassumption).
    pose proof (quot_bound (S w a) (S w b) (2 ^ (w - 1)) ltac:(lia) ltac:(lia) ltac:(assumption)).
    bstep; [unfold bnd; rewrite HK; nia|]. apply allb_signed_fix; [lia|unfold K; lia|lia].
  - unfold c_mods_i. sortok. destruct (Z.eqb_spec b 0) as [E|E]; [apply allb_lift|].
    apply allb_bind; [apply TB; assumption|]. intros l Hl. apply to_bigint_i_val in Hl; [|assumption..]. subst l.
    apply allb_bind; [apply TB; assumption|]. intros r Hr. apply to_bigint_i_val in Hr; [|assumption..]. subst r.
    pose proof (S_range w a Hw Ha). pose proof (S_range w b Hw Hb).
    assert (S w b <> 0) as NZ by (intro Z0; apply E; eapply S_eq_zero; eassumption).
    pose proof (rem_bound_abs (S w a) (S w b) NZ).
    bstep; [unfold bnd; rewrite HK; nia|]. apply allb_signed_fix; [lia|unfold K; lia|lia].
  - unfold c_and_i. sortok. bstep; [apply IN, land_inr; (lia || assumption)|]. apply NB.
  - unfold c_or_i. sortok. bstep; [apply IN, lor_inr; (lia || assumption)|]. apply NB.
  - unfold c_xor_i. sortok. bstep; [apply IN, lxor_inr; (lia || assumption)|]. apply NB.
  - unfold c_shl_i. sortok. apply allb_bind; [|intros; apply NB].
    assert (Z0 : allb K (big 0)) by (apply allb_big, IN; unfold inr; lia).
    unfold to_usize. destruct (b <? USIZE); [|assumption].
    destruct (Z.leb_spec w b); [assumption|].
    apply allb_big. unfold bnd, big_shl. rewrite HK. pose proof (pow_mono_le b w ltac:(lia)). pose proof (pow_pos b ltac:(lia)). nia.
  - unfold c_shr_i. sortok. apply allb_bind; [|intros; apply NB].
    assert (Z0 : allb K (big 0)) by (apply allb_big, IN; unfold inr; lia).
    unfold to_usize. destruct (b <? USIZE); [|assumption].
    apply allb_big, IN. rewrite big_shr_div by lia. apply div_pow_inr; (lia || assumption).
  - unfold c_ashr_i. sortok. rewrite usub_ok by lia.
    apply allb_bind; [apply allb_lift|]. intros s Hs. cbn [lift fst] in Hs. injection Hs as <-.
    bstep; [apply IN; rewrite big_shr_div by lia; apply div_pow_inr; (lia || assumption)|].
    bstep; [unfold bnd, big_shl; rewrite HK; nia|]. bstep; [unfold bnd, big_shl; rewrite HK; nia|].
    rewrite shl1.
    assert (Z0 : bnd K 0) by (apply IN; unfold inr; lia).
    assert (Z1 : bnd K (ones w)) by (apply IN; unfold inr, ones; lia).
    apply allb_bind; [apply allb_if; apply allb_big; assumption|]. intros sat _.
    apply allb_bind; [|intros; apply NB].
    unfold to_usize. destruct (b <? USIZE); [|apply allb_ret].
    destruct (Z.leb_spec w b); [apply allb_ret|].
    assert (V : inr w (big_shr a b)) by (rewrite big_shr_div by lia; apply div_pow_inr; (lia || assumption)).
    bstep; [apply IN; assumption|]. apply allb_if; [apply allb_ret|].
    pose proof (pow_mono_le (w - b) w ltac:(lia)). pose proof (pow_pos (w - b) ltac:(lia)).
    assert (F : inr (2 * w) (big_shl (ones w) (w - b))).
    { unfold inr, big_shl, ones. replace (2 * w) with (w + w) by lia. rewrite Z.pow_add_r by lia. nia. }
    bstep; [apply (bnd_inr K (2 * w)); [unfold K; lia|assumption]|].
    apply allb_big. apply (bnd_inr K (2 * w)); [unfold K; lia|].
    apply lor_inr; [lia|assumption|]. destruct V as [V0 V1]. split; [assumption|].
    pose proof (pow_mono_le w (2 * w) ltac:(lia)). lia.
  - unfold c_cmpeq_i. sortok. apply allb_c1. unfold K; lia.
  - unfold c_cmpneq_i. sortok. apply allb_c1. unfold K; lia.
  - unfold c_cmplts_i. sortok.
    apply allb_bind; [apply TB; assumption|]. intros l _.
    apply allb_bind; [apply TB; assumption|]. intros r _. apply allb_c1. unfold K; lia.
  - unfold c_cmpltu_i. sortok. apply allb_c1. unfold K; lia.
Qed.

Theorem alloc_bounded_ext : forall o bits w a, 1 <= w -> 0 <= bits -> inr w a ->
  allb (w + bits + 2) (c_ext_i o bits (mkc w a)).
Proof.
  intros o bits w a Hw Hb Ha. pose proof Ha as [A0 A1]. set (K := w + bits + 2).
  assert (NB : forall v, allb K (new_big_i v bits)) by (intros; apply allb_new_big; unfold K; lia).
  destruct o; cbn [c_ext_i].
  - unfold c_zext_i. cbn [cbits cval]. destruct (bits <=? w); [apply allb_lift|apply NB].
  - unfold c_sext_i. cbn [cbits cval]. destruct (Z.leb_spec bits w); [apply allb_lift|].
    rewrite usub_ok by lia.
    apply allb_bind; [apply allb_lift|]. intros s Hs. cbn [lift fst] in Hs. injection Hs as <-.
    bstep; [apply (bnd_inr K w); [unfold K; lia|]; rewrite big_shr_div by lia; apply div_pow_inr; (lia || assumption)|].
    apply allb_bind; [|intros; apply NB].
    apply allb_if; [|apply allb_ret].
    pose proof (pow_pos bits Hb) as PB. pose proof (pow_pos w ltac:(lia)) as PW.
    pose proof (pow_mono_lt bits K ltac:(unfold K; lia)) as L.
    bstep; [unfold bnd, big_shl; lia|]. bstep; [unfold bnd, big_shl; lia|]. rewrite shl1.
    assert (F : inr (bits + w) (big_shl (ones bits) w)).
    { unfold inr, big_shl, ones. rewrite Z.pow_add_r by lia. nia. }
    bstep; [apply (bnd_inr K (bits + w)); [unfold K; lia|assumption]|].
    apply allb_big. apply (bnd_inr K (bits + w)); [unfold K; lia|].
    apply lor_inr; [lia| |assumption]. split; [assumption|].
    pose proof (pow_mono_le w (bits + w) ltac:(lia)). lia.
  - unfold c_trun_i. cbn [cbits cval]. destruct (w <=? bits); [apply allb_lift|apply NB].
Qed.

(* one statement for the property file: the size of every intermediate is bounded by the widths alone *)
Theorem alloc_bounded : forall w a b, 1 <= w -> inr w a -> inr w b ->
  (forall o, Forall (fun v => Z.abs v < 2 ^ (2 * w + 2)) (c_bin_inter o (mkc w a) (mkc w b))) /\
  (forall o bits, 0 <= bits -> Forall (fun v => Z.abs v < 2 ^ (w + bits + 2)) (c_ext_inter o bits (mkc w a))).
Proof.
  intros w a b Hw Ha Hb. split; intros.
  - apply alloc_bounded_bin; assumption.
  - apply alloc_bounded_ext; assumption.
Qed.

(* ---------- expression trees ---------- *)

Lemma emaxw_ge e : wf e -> e_bits e <= emaxw e.
Proof.
  induction e as [s|c|o l IHl r IHr|o bits x IHx|c IHc t IHt f IHf]; cbn [wf e_bits emaxw]; intros W.
  - lia.
  - lia.
  - destruct W as (Wl & Wr & E). pose proof (wf_bits l Wl). specialize (IHl Wl). destruct (is_cmp o); lia.
  - lia.
  - destruct W as (Wc & Wt & Wf & E1 & E2). specialize (IHt Wt). lia.
Qed.

Lemma eval_i_val e a : wf e -> fst (eval_i e) = Ok a -> cbits a = e_bits e /\ inr (cbits a) (cval a).
Proof.
  intros W E. rewrite eval_i_fst, eval_eden in E by assumption.
  eapply eden_good; [apply env_none_ok|eassumption|eassumption].
Qed.

Lemma eval_alloc e : wf e -> allb (2 * emaxw e + 2) (eval_i e).
Proof.
  induction e as [s|c|o l IHl r IHr|o bits x IHx|c IHc t IHt f IHf]; cbn [wf eval_i emaxw]; intros W.
  - apply allb_lift.
  - apply allb_ret.
  - destruct W as (Wl & Wr & Eb).
    apply allb_bind; [eapply allb_mono; [|apply IHl; assumption]; lia|]. intros a Ea.
    apply allb_bind; [eapply allb_mono; [|apply IHr; assumption]; lia|]. intros b Eb'.
    destruct (eval_i_val l a Wl Ea) as [A1 A2]. destruct (eval_i_val r b Wr Eb') as [B1 B2].
    pose proof (wf_bits l Wl) as Bl. pose proof (emaxw_ge l Wl) as Gl.
    destruct a as [aw av], b as [bw bv]. cbn [cbits cval] in A1, A2, B1, B2.
    subst aw bw. rewrite <- Eb in B2 |- *.
    eapply allb_mono; [|apply alloc_bounded_bin; (assumption || lia)]. lia.
  - assert (Wx : wf x) by (destruct o; tauto).
    apply allb_bind; [eapply allb_mono; [|apply IHx; assumption]; lia|]. intros a Ea.
    destruct (eval_i_val x a Wx Ea) as [A1 A2].
    pose proof (wf_bits x Wx) as Bx. pose proof (emaxw_ge x Wx) as Gx.
    destruct a as [aw av]. cbn [cbits cval] in A1, A2. subst aw.
    eapply allb_mono; [|apply alloc_bounded_ext; (assumption || (destruct o; lia))]. lia.
  - destruct W as (Wc & Wt & Wf & E1 & E2).
    apply allb_bind; [eapply allb_mono; [|apply IHc; assumption]; lia|]. intros cv _.
    apply allb_if; (eapply allb_mono; [|(apply IHt || apply IHf); assumption]; lia).
Qed.

Theorem eval_alloc_bounded_e : forall r w e, rbounded r -> rsort r = SW w -> build r = Ok e ->
  fst (eval_i e) = eval e /\ Forall (fun v => Z.abs v < 2 ^ (2 * emaxw e + 2)) (eval_inter e).
Proof.
  intros r w e Bd St B. split; [apply eval_i_fst|].
  destruct (build_ok (fun _ => None) env_none_ok r w St Bd) as (e' & B' & W & _).
  assert (e' = e) by congruence. subst e'. apply eval_alloc. assumption.
Qed.

(* ---------- the widths of a built tree are the widths of the raw tree ---------- *)

Lemma sra_emaxw l r e w : wf l -> wf r -> e_bits l = w -> e_bits r = w -> sra l r = Ok e ->
  emaxw e = Z.max (emaxw l) (emaxw r).
Proof.
  intros Wl Wr El Er. pose proof (wf_bits l Wl) as Bw. rewrite El in Bw.
  pose proof (emaxw_ge l Wl) as Gl. pose proof (emaxw_ge r Wr) as Gr. rewrite El in Gl. rewrite Er in Gr.
  pose proof (lt_pow2 w ltac:(lia)) as Q.
  unfold sra. rewrite El, Er, Z.eqb_refl. cbn [negb].
  rewrite allones_eq by lia. rewrite !expr_const_spec by lia.
  build_steps. intros E. injection E as <-. cbn [emaxw cbits]. lia.
Qed.

Lemma rotl_emaxw l r e w : wf l -> wf r -> e_bits l = w -> e_bits r = w -> rotl l r = Ok e ->
  emaxw e = Z.max (emaxw l) (emaxw r).
Proof.
  intros Wl Wr El Er. pose proof (wf_bits l Wl) as Bw. rewrite El in Bw.
  pose proof (emaxw_ge l Wl) as Gl. pose proof (emaxw_ge r Wr) as Gr. rewrite El in Gl. rewrite Er in Gr.
  unfold rotl. rewrite El. rewrite !expr_const_spec by lia.
  build_steps. intros E. injection E as <-. cbn [emaxw cbits]. lia.
Qed.

Lemma build_emaxw : forall r w e, rsort r = SW w -> rbounded r -> build r = Ok e -> emaxw e = rmaxw r.
Proof.
  induction r as [s|v k|o l IHl r IHr|o bits x IHx|c IHc t IHt f IHf|l IHl r IHr|l IHl r IHr];
    intros w e St Bd B; cbn [rsort rbounded build rmaxw] in *.
  - injection B as <-. reflexivity.
  - destruct (Z.ltb_spec k 1); [discriminate St|]. rewrite expr_const_spec in B by lia.
    injection B as <-. reflexivity.
  - apply sort2_SW in St as (x & y & Sl & Sr & K).
    destruct (Z.eqb_spec x y); [|discriminate K]. subst y. destruct Bd as [Bl Br].
    destruct (build_ok _ env_none_ok l x Sl Bl) as (l' & Rl & Wl & El & _).
    destruct (build_ok _ env_none_ok r x Sr Br) as (r' & Rr & Wr & Er & _).
    rewrite Rl, Rr in B. cbn [bind] in B. rewrite mk_bin_ok in B by congruence. injection B as <-.
    cbn [emaxw]. rewrite (IHl x l' Sl Bl Rl), (IHr x r' Sr Br Rr). reflexivity.
  - destruct Bd as [Bb Bx].
    destruct (rsort x) as [| |xw] eqn:Sx; try (destruct o; discriminate St).
    destruct (build_ok _ env_none_ok x xw Sx Bx) as (x' & Rx & Wx & Ex & _).
    pose proof (wf_bits x' Wx) as Bw.
    rewrite Rx in B. cbn [bind] in B.
    assert (K : match o with Trun => 1 <= bits < xw | _ => xw < bits end).
    { destruct o.
      - destruct (Z.ltb_spec xw bits); [|discriminate St]. assumption.
      - destruct (Z.ltb_spec xw bits); [|discriminate St]. assumption.
      - destruct (Z.ltb_spec bits 1); [discriminate St|].
        destruct (Z.ltb_spec bits xw); [|discriminate St]. lia. }
    rewrite mk_ext_ok in B by (rewrite ?Ex; destruct o; lia). injection B as <-.
    cbn [emaxw]. rewrite (IHx xw x' eq_refl Bx Rx). reflexivity.
  - apply sort2_SW in St as (xc & y & Sc & Sy & K).
    destruct (Z.eqb_spec xc 1); [|discriminate K]. subst xc.
    apply sort2_SW in Sy as (xt & xf & Stt & Sf & K2).
    destruct (Z.eqb_spec xt xf); [|discriminate K2]. subst xf.
    destruct Bd as (Bc & Bt & Bf).
    destruct (build_ok _ env_none_ok c 1 Sc Bc) as (c' & Rc & Wc & Ec & _).
    destruct (build_ok _ env_none_ok t xt Stt Bt) as (t' & Rt & Wt & Et & _).
    destruct (build_ok _ env_none_ok f xt Sf Bf) as (f' & Rf & Wf & Ef & _).
    rewrite Rc, Rt, Rf in B. cbn [bind] in B. rewrite mk_ite_ok in B by congruence. injection B as <-.
    cbn [emaxw]. rewrite (IHc 1 c' Sc Bc Rc), (IHt xt t' Stt Bt Rt), (IHf xt f' Sf Bf Rf). reflexivity.
  - apply sort2_SW in St as (x & y & Sl & Sr & K).
    destruct (Z.eqb_spec x y); [|discriminate K]. subst y. destruct Bd as [Bl Br].
    destruct (build_ok _ env_none_ok l x Sl Bl) as (l' & Rl & Wl & El & _).
    destruct (build_ok _ env_none_ok r x Sr Br) as (r' & Rr & Wr & Er & _).
    rewrite Rl, Rr in B. cbn [bind] in B.
    rewrite (sra_emaxw l' r' e x Wl Wr El Er B), (IHl x l' Sl Bl Rl), (IHr x r' Sr Br Rr). reflexivity.
  - apply sort2_SW in St as (x & y & Sl & Sr & K).
    destruct (Z.eqb_spec x y); [|discriminate K]. subst y. destruct Bd as [Bl Br].
    destruct (build_ok _ env_none_ok l x Sl Bl) as (l' & Rl & Wl & El & _).
    destruct (build_ok _ env_none_ok r x Sr Br) as (r' & Rr & Wr & Er & _).
    rewrite Rl, Rr in B. cbn [bind] in B.
    rewrite (rotl_emaxw l' r' e x Wl Wr El Er B), (IHl x l' Sl Bl Rl), (IHr x r' Sr Br Rr). reflexivity.
Qed.

Theorem eval_alloc_bounded : forall r w e, rbounded r -> rsort r = SW w -> build r = Ok e ->
  fst (eval_i e) = eval e /\ Forall (fun v => Z.abs v < 2 ^ (2 * rmaxw r + 2)) (eval_inter e).
Proof.
  intros r w e Bd St B. rewrite <- (build_emaxw r w e St Bd B). eapply eval_alloc_bounded_e; eassumption.
Qed.
