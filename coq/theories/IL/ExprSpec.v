(* IL/ExprSpec.v -- specification-level meaning of (raw) expression trees:
   sort discipline + compositional bit-vector denotation over ConstSpec operators.
   Independent of the model in Const.v / Expr.v (shares only the syntax). *)
From Coq Require Import ZArith List Bool NArith.
From Falcon Require Import Base.Res IL.Const IL.ConstSpec IL.Expr.
Local Open Scope Z_scope.

(* value-level result of one binary operator at width w (operands in range) *)
Definition sp_bin (o : binop) (w a b : Z) : res const :=
  match o with
  | Add => Ok (mkc w (s_add w a b)) | Sub => Ok (mkc w (s_sub w a b)) | Mul => Ok (mkc w (s_mul w a b))
  | Divu => if b =? 0 then Err EDivZero else Ok (mkc w (s_divu w a b))
  | Modu => if b =? 0 then Err EDivZero else Ok (mkc w (s_modu w a b))
  | Divs => if b =? 0 then Err EDivZero else Ok (mkc w (s_divs w a b))
  | Mods => if b =? 0 then Err EDivZero else Ok (mkc w (s_mods w a b))
  | And => Ok (mkc w (s_and w a b)) | Or => Ok (mkc w (s_or w a b)) | Xor => Ok (mkc w (s_xor w a b))
  | Shl => Ok (mkc w (s_shl w a b)) | Shr => Ok (mkc w (s_shr w a b)) | AShr => Ok (mkc w (s_ashr w a b))
  | Cmpeq => Ok (mkc 1 (s_cmpeq w a b)) | Cmpneq => Ok (mkc 1 (s_cmpneq w a b))
  | Cmplts => Ok (mkc 1 (s_cmplts w a b)) | Cmpltu => Ok (mkc 1 (s_cmpltu w a b))
  end.

(* constants of different widths are rejected with a sort error *)
Definition sp_bin_c (o : binop) (a b : const) : res const :=
  if negb (cbits a =? cbits b) then Err ESort else sp_bin o (cbits a) (cval a) (cval b).

Definition sp_ext (o : extop) (bits : Z) (a : const) : res const :=
  match o with
  | Zext => if bits <=? cbits a then Err ESort else Ok (mkc bits (s_zext bits (cbits a) (cval a)))
  | Sext => if bits <=? cbits a then Err ESort else Ok (mkc bits (s_sext bits (cbits a) (cval a)))
  | Trun => if cbits a <=? bits then Err ESort else Ok (mkc bits (s_trun bits (cbits a) (cval a)))
  end.

(* rotate left by n <= w *)
Definition s_rotl (w a n : Z) : Z := U w (a * 2 ^ n) + a / 2 ^ (w - n).

(* sort of a raw tree: SErr = some constructor must reject it; SSilent = mentions a width < 1
   (outside "every width from 1 bit"); SW w = well sorted of width w *)
Inductive sortr := SErr | SSilent | SW (w : Z).

Definition sort2 (a b : sortr) (k : Z -> Z -> sortr) : sortr :=
  match a, b with
  | SErr, _ => SErr
  | SSilent, _ => SSilent
  | SW _, SErr => SErr
  | SW _, SSilent => SSilent
  | SW x, SW y => k x y
  end.

Fixpoint rsort (r : rexpr) : sortr :=
  match r with
  | RScalar s => if sbits s <? 1 then SSilent else SW (sbits s)
  | RConst _ w => if w <? 1 then SSilent else SW w
  | RBin o l r => sort2 (rsort l) (rsort r) (fun x y => if x =? y then SW (if is_cmp o then 1 else x) else SErr)
  | RExt Trun bits e => match rsort e with SW x => if bits <? 1 then SSilent else if bits <? x then SW bits else SErr | s => s end
  | RExt _ bits e => match rsort e with SW x => if x <? bits then SW bits else SErr | s => s end
  | RIte c t e => sort2 (rsort c) (sort2 (rsort t) (rsort e) (fun x y => if x =? y then SW x else SErr))
                        (fun x y => if x =? 1 then SW y else SErr)
  | RSra l r | RRotl l r => sort2 (rsort l) (rsort r) (fun x y => if x =? y then SW x else SErr)
  end.

(* Note on RIte: Expression::ite checks `cond.bits() != 1 || then.bits() != else.bits()` in one test, so
   which operand is "the" offender does not matter: any violation is Err Sort. sort2 nesting only
   decides SSilent vs SErr priority, and SErr/SSilent both arise from sub-trees built before. *)

Definition env := scalar -> option const.

(* denotation: strict, left-to-right, lazy in the untaken branch of ite.
   None = the oracle is silent (rotl with amount > width). *)
Fixpoint rden (en : env) (r : rexpr) : option (res const) :=
  match r with
  | RScalar s => match en s with Some c => Some (Ok c) | None => Some (Err EExecScalar) end
  | RConst v w => Some (Ok (mkc w (U w v)))
  | RBin o l r =>
      match rden en l with
      | Some (Ok a) => match rden en r with
                       | Some (Ok b) => Some (sp_bin o (cbits a) (cval a) (cval b))
                       | x => x end
      | x => x end
  | RExt o bits e =>
      match rden en e with
      | Some (Ok a) => Some (sp_ext o bits a)
      | x => x end
  | RIte c t e =>
      match rden en c with
      | Some (Ok cv) => if cval cv =? 1 then rden en t else rden en e
      | x => x end
  | RSra l r =>
      match rden en l with
      | Some (Ok a) => match rden en r with
                       | Some (Ok b) => Some (Ok (mkc (cbits a) (s_ashr (cbits a) (cval a) (cval b))))
                       | x => x end
      | x => x end
  | RRotl l r =>
      match rden en l with
      | Some (Ok a) => match rden en r with
                       | Some (Ok b) => if cval b <=? cbits a
                                        then Some (Ok (mkc (cbits a) (s_rotl (cbits a) (cval a) (cval b))))
                                        else None
                       | x => x end
      | x => x end
  end.

(* what the property demands of "build through the constructors, then evaluate" *)
Definition rspec (en : env) (r : rexpr) : option (res const) :=
  match rsort r with
  | SErr => Some (Err ESort)
  | SSilent => None
  | SW _ => rden en r
  end.
