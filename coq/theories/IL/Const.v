(* IL/Const.v -- faithful model of lib/il/constant.rs.
   Each method is transcribed with the big-integer operations the Rust code uses
   (num-bigint BigUint/BigInt = Z), including the failure behaviour. *)
From Coq Require Import ZArith List Bool.
From Falcon Require Import Base.Res.
Local Open Scope Z_scope.

Record const := mkc { cbits : Z; cval : Z }.

Definition const_eqb (a b : const) : bool := (cbits a =? cbits b) && (cval a =? cval b).

Definition USIZE : Z := 2 ^ 64.

(* BigUint::from(1) << bits, minus one *)
Definition ones (w : Z) : Z := 2 ^ w - 1.
(* Constant::trim_value *)
Definition trim (v w : Z) : Z := Z.land v (ones w).
(* Constant::new_big (and Constant::new for u64 arguments) *)
Definition new_big (v w : Z) : const := mkc w (trim v w).

(* cheap `BigUint >> n`: the model must be cheap where num-bigint is cheap
   (Z.shiftr iterates n times).  Equal to a / 2^n, lemma big_shr_div. *)
Definition big_shr (a n : Z) : Z := if Z.log2 a <? n then 0 else a / 2 ^ n.
(* `BigUint << n`, only ever used with n below a width *)
Definition big_shl (a n : Z) : Z := a * 2 ^ n.

(* usize subtraction in a debug build *)
Definition usub (a b : Z) : res Z := if a <? b then Panic else Ok (a - b).

(* Constant::to_bigint  -- `self.bits - 1` underflows for a zero-width constant *)
Definition to_bigint (c : const) : res Z :=
  s <- usub (cbits c) 1 ;;
  if big_shr (cval c) s =? 1
  then Ok (-1 * (Z.lxor (cval c) (ones (cbits c)) + 1))
  else Ok (cval c).

Definition same_sort (a b : const) : bool := cbits a =? cbits b.

Definition c_add (a b : const) : res const :=
  if negb (same_sort a b) then Err ESort else Ok (new_big (cval a + cval b) (cbits a)).

Definition c_sub (a b : const) : res const :=
  if negb (same_sort a b) then Err ESort
  else if cval a <? cval b
       then Ok (new_big (Z.lor (cval a) (big_shl 1 (cbits a)) - cval b) (cbits a))
       else Ok (new_big (cval a - cval b) (cbits a)).

Definition c_mul (a b : const) : res const :=
  if negb (same_sort a b) then Err ESort else Ok (new_big (cval a * cval b) (cbits a)).

Definition c_divu (a b : const) : res const :=
  if negb (same_sort a b) then Err ESort
  else if cval b =? 0 then Err EDivZero
  else Ok (new_big (cval a / cval b) (cbits a)).

Definition c_modu (a b : const) : res const :=
  if negb (same_sort a b) then Err ESort
  else if cval b =? 0 then Err EDivZero
  else Ok (new_big (cval a mod cval b) (cbits a)).

(* the `((r - 1) ^ mask) * -1` trick of divs/mods on BigInt (infinite two's complement xor) *)
Definition neg_fix (r w : Z) : Z := Z.lxor (r - 1) (ones w) * -1.

Definition c_divs (a b : const) : res const :=
  if negb (same_sort a b) then Err ESort
  else if cval b =? 0 then Err EDivZero
  else l <- to_bigint a ;; r <- to_bigint b ;;
       let q := Z.quot l r in
       if 0 <=? q then Ok (new_big q (cbits a)) else Ok (new_big (neg_fix q (cbits a)) (cbits a)).

Definition c_mods (a b : const) : res const :=
  if negb (same_sort a b) then Err ESort
  else if cval b =? 0 then Err EDivZero
  else l <- to_bigint a ;; r <- to_bigint b ;;
       let q := Z.rem l r in
       if 0 <=? q then Ok (new_big q (cbits a)) else Ok (new_big (neg_fix q (cbits a)) (cbits a)).

Definition c_and (a b : const) : res const :=
  if negb (same_sort a b) then Err ESort else Ok (new_big (Z.land (cval a) (cval b)) (cbits a)).
Definition c_or (a b : const) : res const :=
  if negb (same_sort a b) then Err ESort else Ok (new_big (Z.lor (cval a) (cval b)) (cbits a)).
Definition c_xor (a b : const) : res const :=
  if negb (same_sort a b) then Err ESort else Ok (new_big (Z.lxor (cval a) (cval b)) (cbits a)).

(* rhs.value.to_usize() : Some iff the value fits 64 bits *)
Definition to_usize (v : Z) : option Z := if v <? USIZE then Some v else None.

Definition c_shl (a b : const) : res const :=
  if negb (same_sort a b) then Err ESort
  else let r := match to_usize (cval b) with
                | Some n => if cbits a <=? n then 0 else big_shl (cval a) n
                | None => 0
                end in
       Ok (new_big r (cbits a)).

Definition c_shr (a b : const) : res const :=
  if negb (same_sort a b) then Err ESort
  else let r := match to_usize (cval b) with
                | Some n => big_shr (cval a) n
                | None => 0
                end in
       Ok (new_big r (cbits a)).

(* Constant::ashr as repaired by the `fix:` commit: amounts at or above the width
   (including those that do not fit usize) saturate to the sign fill. *)
Definition c_ashr (a b : const) : res const :=
  if negb (same_sort a b) then Err ESort
  else s <- usub (cbits a) 1 ;;
       let msb := big_shr (cval a) s in
       let all_one := ones (cbits a) in
       let sat := if msb =? 0 then 0 else all_one in
       let r := match to_usize (cval b) with
                | Some n =>
                    if cbits a <=? n then sat
                    else let value := big_shr (cval a) n in
                         if msb =? 0 then value
                         else Z.lor (big_shl all_one (cbits a - n)) value
                | None => sat
                end in
       Ok (new_big r (cbits a)).

Definition c1 (b : bool) : const := new_big (if b then 1 else 0) 1.

Definition c_cmpeq (a b : const) : res const :=
  if negb (same_sort a b) then Err ESort else Ok (c1 (cval a =? cval b)).
Definition c_cmpneq (a b : const) : res const :=
  if negb (same_sort a b) then Err ESort else Ok (c1 (negb (cval a =? cval b))).
Definition c_cmpltu (a b : const) : res const :=
  if negb (same_sort a b) then Err ESort else Ok (c1 (cval a <? cval b)).
Definition c_cmplts (a b : const) : res const :=
  if negb (same_sort a b) then Err ESort
  else l <- to_bigint a ;; r <- to_bigint b ;; Ok (c1 (l <? r)).

Definition c_trun (bits : Z) (a : const) : res const :=
  if cbits a <=? bits then Err ESort else Ok (new_big (cval a) bits).
Definition c_zext (bits : Z) (a : const) : res const :=
  if bits <=? cbits a then Err ESort else Ok (new_big (cval a) bits).
(* Constant::sext as repaired: no multiple-of-8 restriction *)
Definition c_sext (bits : Z) (a : const) : res const :=
  if bits <=? cbits a then Err ESort
  else s <- usub (cbits a) 1 ;;
       let sign := big_shr (cval a) s in
       let v := if sign =? 1 then Z.lor (cval a) (big_shl (ones bits) (cbits a)) else cval a in
       Ok (new_big v bits).

Definition c_is_one (c : const) : bool := cval c =? 1.
Definition c_is_zero (c : const) : bool := cval c =? 0.
