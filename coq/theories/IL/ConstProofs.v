(* IL/ConstProofs.v -- proofs that the model of Constant (Const.v) is two's-complement
   bit-vector arithmetic (ConstSpec.v), for every width.  Proofs only. *)
From Coq Require Import ZArith List Bool Lia ZifyBool.
From Falcon Require Import Base.Res IL.Const IL.ConstSpec.
Local Open Scope Z_scope.
Ltac Zify.zify_post_hook ::= Z.div_mod_to_equations.

(* ---------- basic arithmetic facts ---------- *)

Lemma pow_pos w : 0 <= w -> 0 < 2 ^ w.
Proof. intros; apply Z.pow_pos_nonneg; lia. Qed.

Lemma pow_split w n : 0 <= n <= w -> 2 ^ w = 2 ^ (w - n) * 2 ^ n.
Proof. intros. rewrite <- Z.pow_add_r by lia. f_equal. lia. Qed.

Lemma pow_half w : 1 <= w -> 2 ^ w = 2 * 2 ^ (w - 1).
Proof. intros. rewrite (pow_split w 1) by lia. change (2 ^ 1) with 2. lia. Qed.

Lemma pow_mono_le a b : 0 <= a <= b -> 2 ^ a <= 2 ^ b.
Proof. intros. apply Z.pow_le_mono_r; lia. Qed.

Lemma pow_mono_lt a b : 0 <= a < b -> 2 ^ a < 2 ^ b.
Proof. intros. apply Z.pow_lt_mono_r; lia. Qed.

Lemma lt_pow2 w : 0 <= w -> w < 2 ^ w.
Proof. intros. apply Z.pow_gt_lin_r; lia. Qed.

Lemma ones_ones w : 0 <= w -> ones w = Z.ones w.
Proof. intros. unfold ones. rewrite Z.ones_equiv. lia. Qed.

Lemma trim_mod v w : 0 <= w -> trim v w = v mod 2 ^ w.
Proof. intros. unfold trim. rewrite ones_ones by assumption. apply Z.land_ones. assumption. Qed.

Lemma trim_U v w : 0 <= w -> trim v w = U w v.
Proof. exact (trim_mod v w). Qed.

Lemma U_small w a : inr w a -> U w a = a.
Proof. intros [H0 H1]. unfold U. apply Z.mod_small. lia. Qed.

Lemma U_inr w a : 0 <= w -> inr w (U w a).
Proof. intros. unfold U, inr. pose proof (pow_pos w H). apply Z.mod_pos_bound. lia. Qed.

Lemma trim_small v w : 0 <= w -> inr w v -> trim v w = v.
Proof. intros. rewrite trim_U by assumption. apply U_small. assumption. Qed.

Lemma trim_inr v w : 0 <= w -> inr w (trim v w).
Proof. intros. rewrite trim_U by assumption. apply U_inr. assumption. Qed.

Lemma U_eq_add w a b k : 0 <= w -> a = b + k * 2 ^ w -> U w a = U w b.
Proof. intros Hw ->. unfold U. pose proof (pow_pos w Hw). apply Z.mod_add. lia. Qed.

Lemma U_unique w a r k : 0 <= w -> a = r + k * 2 ^ w -> inr w r -> U w a = r.
Proof. intros Hw E Hr. rewrite (U_eq_add w a r k Hw E). apply U_small. assumption. Qed.

Lemma new_big_spec v w : 0 <= w -> new_big v w = mkc w (U w v).
Proof. intros. unfold new_big. rewrite trim_U by assumption. reflexivity. Qed.

Lemma big_shr_div a n : 0 <= a -> 0 <= n -> big_shr a n = a / 2 ^ n.
Proof.
  intros Ha Hn. unfold big_shr. destruct (Z.ltb_spec (Z.log2 a) n) as [L|L]; [|reflexivity].
  symmetry. apply Z.div_small. split; [assumption|].
  assert (a = 0 \/ 0 < a) as [->|Hp] by lia.
  - apply pow_pos; assumption.
  - apply Z.log2_lt_pow2; assumption.
Qed.

Lemma div_pow_small w a n : inr w a -> 0 <= w <= n -> a / 2 ^ n = 0.
Proof.
  intros [H0 H1] Hn. apply Z.div_small. pose proof (pow_mono_le w n ltac:(lia)). lia.
Qed.

Lemma div_pow_inr w a n : 0 <= n -> inr w a -> inr w (a / 2 ^ n).
Proof.
  intros Hn [H0 H1]. pose proof (pow_pos n Hn) as P. unfold inr. split.
  - apply Z.div_pos; lia.
  - assert (a / 2 ^ n <= a); [|lia]. apply Z.div_le_upper_bound; nia.
Qed.

Lemma div_pow_lt w a n : 0 <= n <= w -> inr w a -> 0 <= a / 2 ^ n < 2 ^ (w - n).
Proof.
  intros Hn [H0 H1]. pose proof (pow_pos n ltac:(lia)) as P.
  rewrite (pow_split w n Hn) in H1. split.
  - apply Z.div_pos; lia.
  - apply Z.div_lt_upper_bound; lia.
Qed.

Lemma msb_spec w a : 1 <= w -> inr w a ->
  big_shr a (w - 1) = if a <? 2 ^ (w - 1) then 0 else 1.
Proof.
  intros Hw [H0 H1]. rewrite big_shr_div by lia.
  pose proof (pow_half w Hw) as E. pose proof (pow_pos (w - 1) ltac:(lia)) as P.
  destruct (Z.ltb_spec a (2 ^ (w - 1))) as [L|L].
  - apply Z.div_small; lia.
  - symmetry. apply Z.div_unique with (r := a - 2 ^ (w - 1)); lia.
Qed.

(* ---------- bitwise facts ---------- *)

Lemma testbit_high w a n : 0 <= w -> inr w a -> w <= n -> Z.testbit a n = false.
Proof.
  intros Hw [H0 H1] Hn.
  assert (a = 0 \/ 0 < a) as [->|Hp] by lia; [apply Z.bits_0|].
  apply Z.bits_above_log2; [lia|].
  assert (Z.log2 a < w) by (apply Z.log2_lt_pow2; lia). lia.
Qed.

Lemma inr_of_bits w a : 0 <= w -> 0 <= a -> (forall n, w <= n -> Z.testbit a n = false) -> inr w a.
Proof.
  intros Hw Ha Hb. split; [assumption|].
  assert (a = 0 \/ 0 < a) as [->|Hp] by lia; [apply pow_pos; assumption|].
  apply Z.log2_lt_pow2; [assumption|].
  destruct (Z.lt_ge_cases (Z.log2 a) w) as [L|L]; [assumption|].
  exfalso. pose proof (Z.bit_log2 a Hp) as B. rewrite (Hb _ L) in B. discriminate.
Qed.

Lemma land_inr w a b : 0 <= w -> inr w a -> inr w b -> inr w (Z.land a b).
Proof.
  intros Hw Ha Hb. apply inr_of_bits; [assumption| |].
  - apply Z.land_nonneg. left. apply Ha.
  - intros n Hn. rewrite Z.land_spec, (testbit_high w a n) by assumption. reflexivity.
Qed.

Lemma lor_inr w a b : 0 <= w -> inr w a -> inr w b -> inr w (Z.lor a b).
Proof.
  intros Hw Ha Hb. apply inr_of_bits; [assumption| |].
  - apply Z.lor_nonneg. split; [apply Ha|apply Hb].
  - intros n Hn. rewrite Z.lor_spec, (testbit_high w a n), (testbit_high w b n) by assumption. reflexivity.
Qed.

Lemma lxor_inr w a b : 0 <= w -> inr w a -> inr w b -> inr w (Z.lxor a b).
Proof.
  intros Hw Ha Hb. apply inr_of_bits; [assumption| |].
  - apply Z.lxor_nonneg. split; intros _; [apply Hb|apply Ha].
  - intros n Hn. rewrite Z.lxor_spec, (testbit_high w a n), (testbit_high w b n) by assumption. reflexivity.
Qed.

(* a value below 2^k or-ed with a multiple of 2^k is their sum *)
Lemma lor_hi_lo hi lo k : 0 <= k -> inr k lo -> Z.lor (hi * 2 ^ k) lo = hi * 2 ^ k + lo.
Proof.
  intros Hk Hlo.
  assert (D : Z.land (hi * 2 ^ k) lo = 0).
  { apply Z.bits_inj'; intros n Hn. rewrite Z.land_spec, Z.bits_0.
    destruct (Z.lt_ge_cases n k) as [L|L].
    - rewrite Z.mul_pow2_bits_low by lia. reflexivity.
    - rewrite (testbit_high k lo n) by assumption. apply andb_false_r. }
  rewrite <- Z.lxor_lor by assumption. symmetry. apply Z.add_nocarry_lxor. assumption.
Qed.

Lemma lor_lo_hi hi lo k : 0 <= k -> inr k lo -> Z.lor lo (hi * 2 ^ k) = lo + hi * 2 ^ k.
Proof. intros. rewrite Z.lor_comm, lor_hi_lo by assumption. lia. Qed.

Lemma lxor_ones_inr w a : 0 <= w -> inr w a -> Z.lxor a (ones w) = 2 ^ w - 1 - a.
Proof.
  intros Hw Ha. rewrite ones_ones by assumption.
  assert (E : Z.ones w - a = Z.lxor a (Z.ones w)).
  { rewrite Z.lxor_comm. symmetry.
    rewrite <- (Z.add_cancel_r _ _ a). replace (Z.ones w - a + a) with (Z.ones w) by lia.
    rewrite Z.add_nocarry_lxor.
    - rewrite Z.lxor_assoc, Z.lxor_nilpotent, Z.lxor_0_r. reflexivity.
    - apply Z.bits_inj'; intros n Hn. rewrite Z.land_spec, Z.lxor_spec, Z.bits_0.
      destruct (Z.testbit a n) eqn:Ea; [|apply andb_false_r].
      destruct (Z.ltb_spec n w).
      + rewrite Z.ones_spec_low by lia. reflexivity.
      + rewrite (testbit_high w a n) in Ea by (assumption || lia). discriminate. }
  rewrite <- E, Z.ones_equiv. lia.
Qed.

(* ---------- signed reading ---------- *)

Lemma usub_ok a b : b <= a -> usub a b = Ok (a - b).
Proof. intros. unfold usub. destruct (Z.ltb_spec a b); [lia|reflexivity]. Qed.

Lemma to_bigint_S w a : 1 <= w -> inr w a -> to_bigint (mkc w a) = Ok (S w a).
Proof.
  intros Hw Ha. unfold to_bigint, S. cbn [cbits cval]. rewrite usub_ok by lia. cbn [bind].
  rewrite msb_spec by assumption.
  destruct (a <? 2 ^ (w - 1)); [reflexivity|].
  change (1 =? 1) with true; cbv iota.
  rewrite lxor_ones_inr by (assumption || lia). f_equal. lia.
Qed.

Lemma S_range w a : 1 <= w -> inr w a -> - 2 ^ (w - 1) <= S w a < 2 ^ (w - 1).
Proof.
  intros Hw [H0 H1]. unfold S. pose proof (pow_half w Hw).
  destruct (Z.ltb_spec a (2 ^ (w - 1))); lia.
Qed.

Lemma S_zero w : 1 <= w -> S w 0 = 0.
Proof.
  intros. unfold S. pose proof (pow_pos (w - 1) ltac:(lia)).
  destruct (Z.ltb_spec 0 (2 ^ (w - 1))); lia.
Qed.

Lemma S_eq_zero w a : 1 <= w -> inr w a -> S w a = 0 -> a = 0.
Proof.
  intros Hw [H0 H1]. unfold S. destruct (Z.ltb_spec a (2 ^ (w - 1))); lia.
Qed.

(* the divs/mods trick: for negative r >= -2^w, ((r-1) xor mask) * -1, trimmed, is r mod 2^w *)
Lemma neg_fix_spec r w : 1 <= w -> - 2 ^ w <= r < 0 -> trim (neg_fix r w) w = U w r.
Proof.
  intros Hw Hr. rewrite trim_U by lia. unfold neg_fix.
  set (k := - r - 1). assert (Hk : inr w k) by (unfold inr, k; lia).
  replace (r - 1) with (Z.lnot (k + 1)) by (unfold Z.lnot, k; lia).
  rewrite <- Z.lnot_lxor_l.
  pose proof (pow_pos w ltac:(lia)) as P.
  destruct (Z.eq_dec (k + 1) (2 ^ w)) as [E|E].
  - rewrite E, ones_ones by lia.
    assert (X : Z.lxor (2 ^ w) (Z.ones w) = 2 ^ w + Z.ones w).
    { symmetry. apply Z.add_nocarry_lxor. apply Z.bits_inj'; intros n Hn.
      rewrite Z.land_spec, Z.bits_0, Z.pow2_bits_eqb by lia.
      destruct (Z.eqb_spec w n); [subst; rewrite Z.ones_spec_high by lia; reflexivity | reflexivity]. }
    rewrite X. unfold Z.lnot. rewrite Z.ones_equiv. unfold k in E.
    replace r with (- 2 ^ w) by lia.
    replace ((Z.pred (- (2 ^ w + Z.pred (2 ^ w)))) * -1) with (0 + 2 * 2 ^ w) by lia.
    replace (- 2 ^ w) with (0 + (-1) * 2 ^ w) by lia.
    rewrite (U_eq_add w _ 0 2), (U_eq_add w (0 + -1 * 2 ^ w) 0 (-1)) by (lia || reflexivity). reflexivity.
  - rewrite lxor_ones_inr by (lia || (unfold inr in *; lia)).
    unfold Z.lnot. unfold k.
    apply (U_eq_add w _ r 1); lia.
Qed.

Lemma signed_fix q w : 1 <= w -> - 2 ^ w <= q < 2 ^ w ->
  (if 0 <=? q then Ok (new_big q w) else Ok (new_big (neg_fix q w) w)) = Ok (mkc w (U w q)).
Proof.
  intros Hw Hq. destruct (Z.leb_spec 0 q).
  - rewrite new_big_spec by lia. reflexivity.
  - unfold new_big. rewrite neg_fix_spec by lia. reflexivity.
Qed.

(* ---------- the operators ---------- *)

Ltac same_w := unfold same_sort; cbn [cbits cval]; rewrite Z.eqb_refl; cbn [negb].

Lemma c_add_spec w a b : 0 <= w -> c_add (mkc w a) (mkc w b) = Ok (mkc w (s_add w a b)).
Proof. intros. unfold c_add. same_w. rewrite new_big_spec by assumption. reflexivity. Qed.

Lemma c_mul_spec w a b : 0 <= w -> c_mul (mkc w a) (mkc w b) = Ok (mkc w (s_mul w a b)).
Proof. intros. unfold c_mul. same_w. rewrite new_big_spec by assumption. reflexivity. Qed.

Lemma c_sub_spec w a b : 0 <= w -> inr w a -> inr w b ->
  c_sub (mkc w a) (mkc w b) = Ok (mkc w (s_sub w a b)).
Proof.
  intros Hw Ha Hb. unfold c_sub. same_w. unfold s_sub.
  destruct (Z.ltb_spec a b); rewrite new_big_spec by assumption; [|reflexivity].
  unfold big_shl. rewrite lor_lo_hi by assumption.
  do 2 f_equal. apply (U_eq_add w _ (a - b) 1); lia.
Qed.

Lemma c_divu_spec w a b : 0 <= w -> inr w a -> inr w b ->
  c_divu (mkc w a) (mkc w b) = if b =? 0 then Err EDivZero else Ok (mkc w (s_divu w a b)).
Proof.
  intros Hw [A0 A1] [B0 B1]. unfold c_divu. same_w.
  destruct (Z.eqb_spec b 0) as [E|E]; [reflexivity|].
  rewrite new_big_spec by assumption. unfold s_divu. rewrite U_small; [reflexivity|].
  split; [apply Z.div_pos; lia|].
  assert (a / b <= a); [|lia]. apply Z.div_le_upper_bound; nia.
Qed.

Lemma c_modu_spec w a b : 0 <= w -> inr w a -> inr w b ->
  c_modu (mkc w a) (mkc w b) = if b =? 0 then Err EDivZero else Ok (mkc w (s_modu w a b)).
Proof.
  intros Hw [A0 A1] [B0 B1]. unfold c_modu. same_w.
  destruct (Z.eqb_spec b 0) as [E|E]; [reflexivity|].
  rewrite new_big_spec by assumption. unfold s_modu. rewrite U_small; [reflexivity|].
  pose proof (Z.mod_pos_bound a b ltac:(lia)). unfold inr. lia.
Qed.

Lemma quot_bound x y m : 0 < m -> - m <= x <= m -> y <> 0 -> - m <= Z.quot x y <= m.
Proof.
  intros Hm Hx Hy.
  pose proof (Z.quot_abs x y Hy) as QA.
  assert (Z.abs x ÷ Z.abs y <= Z.abs x).
  { apply Z.quot_le_upper_bound; [lia|]. nia. }
  lia.
Qed.

Lemma rem_bound_abs x y : y <> 0 -> Z.abs (Z.rem x y) < Z.abs y.
Proof. intros. apply Z.rem_bound_abs. assumption. Qed.

Lemma c_divs_spec w a b : 1 <= w -> inr w a -> inr w b ->
  c_divs (mkc w a) (mkc w b) = if b =? 0 then Err EDivZero else Ok (mkc w (s_divs w a b)).
Proof.
  intros Hw Ha Hb. unfold c_divs. same_w.
  destruct (Z.eqb_spec b 0) as [E|E]; [reflexivity|].
  rewrite !to_bigint_S by assumption. cbn [bind]. unfold s_divs.
  pose proof (S_range w a Hw Ha). pose proof (S_range w b Hw Hb).
  assert (S w b <> 0) by (intro Z0; apply E; eapply S_eq_zero; eassumption).
  pose proof (pow_half w Hw). pose proof (pow_pos (w - 1) ltac:(lia)).
  pose proof (quot_bound (S w a) (S w b) (2 ^ (w - 1)) ltac:(lia) ltac:(lia) ltac:(assumption)).
  apply signed_fix; lia.
Qed.

Lemma c_mods_spec w a b : 1 <= w -> inr w a -> inr w b ->
  c_mods (mkc w a) (mkc w b) = if b =? 0 then Err EDivZero else Ok (mkc w (s_mods w a b)).
Proof.
  intros Hw Ha Hb. unfold c_mods. same_w.
  destruct (Z.eqb_spec b 0) as [E|E]; [reflexivity|].
  rewrite !to_bigint_S by assumption. cbn [bind]. unfold s_mods.
  pose proof (S_range w a Hw Ha). pose proof (S_range w b Hw Hb).
  assert (S w b <> 0) as NZ by (intro Z0; apply E; eapply S_eq_zero; eassumption).
  pose proof (pow_half w Hw). pose proof (pow_pos (w - 1) ltac:(lia)).
  pose proof (rem_bound_abs (S w a) (S w b) NZ).
  apply signed_fix; lia.
Qed.

Lemma c_and_spec w a b : 0 <= w -> inr w a -> inr w b ->
  c_and (mkc w a) (mkc w b) = Ok (mkc w (s_and w a b)).
Proof.
  intros. unfold c_and. same_w. rewrite new_big_spec, U_small by (assumption || apply land_inr; assumption).
  reflexivity.
Qed.

Lemma c_or_spec w a b : 0 <= w -> inr w a -> inr w b ->
  c_or (mkc w a) (mkc w b) = Ok (mkc w (s_or w a b)).
Proof.
  intros. unfold c_or. same_w. rewrite new_big_spec, U_small by (assumption || apply lor_inr; assumption).
  reflexivity.
Qed.

Lemma c_xor_spec w a b : 0 <= w -> inr w a -> inr w b ->
  c_xor (mkc w a) (mkc w b) = Ok (mkc w (s_xor w a b)).
Proof.
  intros. unfold c_xor. same_w. rewrite new_big_spec, U_small by (assumption || apply lxor_inr; assumption).
  reflexivity.
Qed.

Lemma U_zero w : 0 <= w -> U w 0 = 0.
Proof. intros. apply U_small. split; [lia|apply pow_pos; assumption]. Qed.

Lemma c_shl_spec w a b : 0 <= w < 2 ^ 64 -> inr w b ->
  c_shl (mkc w a) (mkc w b) = Ok (mkc w (s_shl w a b)).
Proof.
  intros Hw Hb. unfold c_shl. same_w. unfold to_usize, USIZE, s_shl, big_shl.
  rewrite new_big_spec by lia.
  destruct (Z.ltb_spec b (2 ^ 64)).
  - destruct (Z.leb_spec w b); [rewrite U_zero by lia|]; reflexivity.
  - destruct (Z.leb_spec w b); [rewrite U_zero by lia; reflexivity|lia].
Qed.

Lemma c_shr_spec w a b : 0 <= w < 2 ^ 64 -> inr w a -> inr w b ->
  c_shr (mkc w a) (mkc w b) = Ok (mkc w (s_shr w a b)).
Proof.
  intros Hw Ha Hb. unfold c_shr. same_w. unfold to_usize, USIZE, s_shr.
  rewrite new_big_spec by lia.
  destruct (Z.ltb_spec b (2 ^ 64)).
  - rewrite big_shr_div by (apply Ha || apply Hb).
    destruct (Z.leb_spec w b).
    + rewrite (div_pow_small w a b) by (assumption || lia). rewrite U_zero by lia. reflexivity.
    + rewrite U_small; [reflexivity|]. apply div_pow_inr; [apply Hb|assumption].
  - destruct (Z.leb_spec w b); [rewrite U_zero by lia; reflexivity|lia].
Qed.

(* arithmetic shift of a negative value: shared by Constant::ashr and Expression::sra *)
Lemma ashr_neg_arith w a n : 0 <= n <= w -> inr w a -> 1 <= w -> 2 ^ (w - 1) <= a ->
  U w ((a - 2 ^ w) / 2 ^ n) = (2 ^ n - 1) * 2 ^ (w - n) + a / 2 ^ n.
Proof.
  intros Hn Ha Hw Hneg.
  pose proof (pow_split w n Hn) as E. pose proof (pow_pos n ltac:(lia)) as P.
  pose proof (pow_pos (w - n) ltac:(lia)) as Q.
  pose proof (div_pow_lt w a n Hn Ha) as D.
  assert (X : (a - 2 ^ w) / 2 ^ n = a / 2 ^ n - 2 ^ (w - n)).
  { rewrite E. replace (a - 2 ^ (w - n) * 2 ^ n) with (a + (- 2 ^ (w - n)) * 2 ^ n) by lia.
    rewrite Z.div_add by lia. lia. }
  rewrite X. apply (U_unique w _ _ (-1)); [lia| |].
  - rewrite E. lia.
  - unfold inr. rewrite E. nia.
Qed.

Lemma c_ashr_spec w a b : 1 <= w < 2 ^ 64 -> inr w a -> inr w b ->
  c_ashr (mkc w a) (mkc w b) = Ok (mkc w (s_ashr w a b)).
Proof.
  intros Hw Ha Hb. pose proof Ha as [A0 A1]. pose proof Hb as [B0 B1].
  unfold c_ashr. same_w. rewrite usub_ok by lia. cbn [bind].
  rewrite msb_spec by (lia || assumption). unfold to_usize, USIZE, s_ashr, S.
  rewrite new_big_spec by lia. do 2 f_equal.
  pose proof (pow_half w ltac:(lia)) as PH. pose proof (pow_pos (w - 1) ltac:(lia)) as PP.
  assert (SAT : forall neg : bool, U w (if (if neg then 0 else 1) =? 0 then 0 else ones w)
                       = if neg then 0 else 2 ^ w - 1).
  { intros [|]; cbn [Z.eqb]; [apply U_zero; lia|]. unfold ones. apply U_small. unfold inr. lia. }
  destruct (Z.ltb_spec b (2 ^ 64)) as [Lb|Lb].
  - destruct (Z.leb_spec w b) as [Lw|Lw].
    + destruct (Z.ltb_spec a (2 ^ (w - 1))) as [La|La].
      * rewrite (SAT true). destruct (Z.ltb_spec a 0); [lia|reflexivity].
      * rewrite (SAT false). destruct (Z.ltb_spec (a - 2 ^ w) 0); [reflexivity|]. destruct Ha; lia.
    + rewrite big_shr_div by (apply Ha || apply Hb).
      destruct (Z.ltb_spec a (2 ^ (w - 1))) as [La|La]; cbn [Z.eqb].
      * reflexivity.
      * rewrite ashr_neg_arith by (assumption || lia || (destruct Hb; lia)).
        unfold big_shl, ones.
        pose proof (div_pow_lt w a b ltac:(destruct Hb; lia) Ha) as D.
        rewrite lor_hi_lo by (unfold inr; lia).
        pose proof (pow_split w b ltac:(destruct Hb; lia)) as E.
        pose proof (pow_pos b ltac:(destruct Hb; lia)) as P.
        apply (U_unique w _ _ (2 ^ (w - b) - 1)); [lia| |].
        -- rewrite E. lia.
        -- unfold inr. rewrite E. nia.
  - assert (w <= b) as Lw by lia. destruct (Z.leb_spec w b); [|lia].
    destruct (Z.ltb_spec a (2 ^ (w - 1))) as [La|La].
    + rewrite (SAT true). destruct (Z.ltb_spec a 0); [destruct Ha; lia|reflexivity].
    + rewrite (SAT false). destruct (Z.ltb_spec (a - 2 ^ w) 0); [reflexivity|]. destruct Ha; lia.
Qed.

Lemma c1_spec b : c1 b = mkc 1 (if b then 1 else 0).
Proof. destruct b; reflexivity. Qed.

Lemma c_cmpeq_spec w a b : c_cmpeq (mkc w a) (mkc w b) = Ok (mkc 1 (s_cmpeq w a b)).
Proof. unfold c_cmpeq. same_w. rewrite c1_spec. reflexivity. Qed.

Lemma c_cmpneq_spec w a b : c_cmpneq (mkc w a) (mkc w b) = Ok (mkc 1 (s_cmpneq w a b)).
Proof. unfold c_cmpneq. same_w. rewrite c1_spec. unfold s_cmpneq. destruct (a =? b); reflexivity. Qed.

Lemma c_cmpltu_spec w a b : c_cmpltu (mkc w a) (mkc w b) = Ok (mkc 1 (s_cmpltu w a b)).
Proof. unfold c_cmpltu. same_w. rewrite c1_spec. reflexivity. Qed.

Lemma c_cmplts_spec w a b : 1 <= w -> inr w a -> inr w b ->
  c_cmplts (mkc w a) (mkc w b) = Ok (mkc 1 (s_cmplts w a b)).
Proof.
  intros. unfold c_cmplts. same_w. rewrite !to_bigint_S by assumption. cbn [bind].
  rewrite c1_spec. reflexivity.
Qed.

(* ---------- extensions ---------- *)

Lemma c_trun_spec bits w a : 0 <= bits ->
  c_trun bits (mkc w a) = if w <=? bits then Err ESort else Ok (mkc bits (s_trun bits w a)).
Proof.
  intros. unfold c_trun. cbn [cbits cval]. destruct (w <=? bits); [reflexivity|].
  rewrite new_big_spec by assumption. reflexivity.
Qed.

Lemma c_zext_spec bits w a : 0 <= w -> inr w a ->
  c_zext bits (mkc w a) = if bits <=? w then Err ESort else Ok (mkc bits (s_zext bits w a)).
Proof.
  intros Hw [A0 A1]. unfold c_zext. cbn [cbits cval]. destruct (Z.leb_spec bits w); [reflexivity|].
  rewrite new_big_spec by lia. unfold s_zext. rewrite U_small; [reflexivity|].
  pose proof (pow_mono_lt w bits ltac:(lia)). unfold inr. lia.
Qed.

Lemma c_sext_spec bits w a : 1 <= w -> inr w a ->
  c_sext bits (mkc w a) = if bits <=? w then Err ESort else Ok (mkc bits (s_sext bits w a)).
Proof.
  intros Hw Ha. unfold c_sext. cbn [cbits cval]. destruct (Z.leb_spec bits w) as [L|L]; [reflexivity|].
  rewrite usub_ok by lia. cbn [bind]. rewrite msb_spec by assumption.
  rewrite new_big_spec by lia. unfold s_sext, S. do 2 f_equal.
  destruct (Z.ltb_spec a (2 ^ (w - 1))); cbn [Z.eqb Pos.eqb]; [reflexivity|].
  unfold big_shl, ones. rewrite lor_lo_hi by (lia || assumption).
  apply (U_eq_add bits _ _ (2 ^ w)); lia.
Qed.
