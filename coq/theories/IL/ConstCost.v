(* IL/ConstCost.v -- INSTRUMENTED model of lib/il/constant.rs (and of executor::eval on top of it):
   every method is transcribed a second time in a writer monad that logs each big integer
   (BigUint / BigInt) the Rust code materialises: `1 << bits`, the mask, sums, products,
   `value << n`, `all_one << (self.bits - bits)`, `mask << self.bits`, to_bigint's xor / +1 / negation,
   the `((r - 1) ^ mask) * -1` steps of divs/mods, and every trim_value.
   The first component is the result (proved equal to Const.v / Expr.v in ConstCostProofs.v);
   the second is the list of intermediates.  usize arithmetic (`self.bits - 1`, `self.bits - bits`)
   and u64 arguments of Constant::new are machine words, not allocations, and are not logged
   (the BigUint made from the u64 is). *)
From Coq Require Import ZArith List Bool.
From Falcon Require Import Base.Res IL.Const IL.Expr.
Import ListNotations.
Local Open Scope Z_scope.

Definition W (A : Type) : Type := (res A * list Z)%type.
Definition wret {A} (x : A) : W A := (Ok x, []).
Definition lift {A} (r : res A) : W A := (r, []).
Definition wbind {A B} (m : W A) (f : A -> W B) : W B :=
  match fst m with
  | Ok a => (fst (f a), snd m ++ snd (f a))
  | Err e => (Err e, snd m)
  | Panic => (Panic, snd m)
  end.
Notation "x <~ m ;; k" := (wbind m (fun x => k)) (at level 61, m at next level, right associativity).

(* a big integer comes into existence *)
Definition big (v : Z) : W Z := (Ok v, [v]).

(* Constant::trim_value *)
Definition trim_i (v w : Z) : W Z :=
  m1 <~ big (big_shl 1 w) ;; m <~ big (m1 - 1) ;; big (Z.land v m).
(* Constant::new_big ; Constant::new(u64, bits) = new_big (BigUint::from_u64 v) *)
Definition new_big_i (v w : Z) : W const := t <~ trim_i v w ;; wret (mkc w t).

(* Constant::to_bigint *)
Definition to_bigint_i (c : const) : W Z :=
  s <~ lift (usub (cbits c) 1) ;;
  sb <~ big (big_shr (cval c) s) ;;
  if sb =? 1
  then m1 <~ big (big_shl 1 (cbits c)) ;; m <~ big (m1 - 1) ;;
       v <~ big (Z.lxor (cval c) m) ;; v1 <~ big (v + 1) ;; big (-1 * v1)
  else wret (cval c).

Definition c_add_i (a b : const) : W const :=
  if negb (same_sort a b) then lift (Err ESort)
  else s <~ big (cval a + cval b) ;; new_big_i s (cbits a).

Definition c_sub_i (a b : const) : W const :=
  if negb (same_sort a b) then lift (Err ESort)
  else if cval a <? cval b
       then one <~ big (big_shl 1 (cbits a)) ;; l <~ big (Z.lor (cval a) one) ;;
            d <~ big (l - cval b) ;; new_big_i d (cbits a)
       else d <~ big (cval a - cval b) ;; new_big_i d (cbits a).

Definition c_mul_i (a b : const) : W const :=
  if negb (same_sort a b) then lift (Err ESort)
  else p <~ big (cval a * cval b) ;; new_big_i p (cbits a).

Definition c_divu_i (a b : const) : W const :=
  if negb (same_sort a b) then lift (Err ESort)
  else if cval b =? 0 then lift (Err EDivZero)
  else q <~ big (cval a / cval b) ;; new_big_i q (cbits a).

Definition c_modu_i (a b : const) : W const :=
  if negb (same_sort a b) then lift (Err ESort)
  else if cval b =? 0 then lift (Err EDivZero)
  else q <~ big (cval a mod cval b) ;; new_big_i q (cbits a).

(* the tail shared by divs and mods *)
Definition signed_fix_i (q w : Z) : W const :=
  if 0 <=? q then new_big_i q w
  else m1 <~ big (big_shl 1 w) ;; m <~ big (m1 - 1) ;;
       q1 <~ big (q - 1) ;; x <~ big (Z.lxor q1 m) ;; n <~ big (x * -1) ;; new_big_i n w.

Definition c_divs_i (a b : const) : W const :=
  if negb (same_sort a b) then lift (Err ESort)
  else if cval b =? 0 then lift (Err EDivZero)
  else l <~ to_bigint_i a ;; r <~ to_bigint_i b ;; q <~ big (Z.quot l r) ;; signed_fix_i q (cbits a).

Definition c_mods_i (a b : const) : W const :=
  if negb (same_sort a b) then lift (Err ESort)
  else if cval b =? 0 then lift (Err EDivZero)
  else l <~ to_bigint_i a ;; r <~ to_bigint_i b ;; q <~ big (Z.rem l r) ;; signed_fix_i q (cbits a).

Definition c_and_i (a b : const) : W const :=
  if negb (same_sort a b) then lift (Err ESort)
  else x <~ big (Z.land (cval a) (cval b)) ;; new_big_i x (cbits a).
Definition c_or_i (a b : const) : W const :=
  if negb (same_sort a b) then lift (Err ESort)
  else x <~ big (Z.lor (cval a) (cval b)) ;; new_big_i x (cbits a).
Definition c_xor_i (a b : const) : W const :=
  if negb (same_sort a b) then lift (Err ESort)
  else x <~ big (Z.lxor (cval a) (cval b)) ;; new_big_i x (cbits a).

(* the guard `bits >= self.bits()` stands in front of the only `value << bits` *)
Definition c_shl_i (a b : const) : W const :=
  if negb (same_sort a b) then lift (Err ESort)
  else r <~ match to_usize (cval b) with
            | Some n => if cbits a <=? n then big 0 else big (big_shl (cval a) n)
            | None => big 0
            end ;;
       new_big_i r (cbits a).

Definition c_shr_i (a b : const) : W const :=
  if negb (same_sort a b) then lift (Err ESort)
  else r <~ match to_usize (cval b) with
            | Some n => big (big_shr (cval a) n)
            | None => big 0
            end ;;
       new_big_i r (cbits a).

(* `.filter(|bits| *bits < self.bits)` stands in front of `all_one << (self.bits - bits)` *)
Definition c_ashr_i (a b : const) : W const :=
  if negb (same_sort a b) then lift (Err ESort)
  else s <~ lift (usub (cbits a) 1) ;;
       msb <~ big (big_shr (cval a) s) ;;
       o1 <~ big (big_shl 1 (cbits a)) ;; all_one <~ big (o1 - 1) ;;
       sat <~ (if msb =? 0 then big 0 else big all_one) ;;
       r <~ match to_usize (cval b) with
            | Some n =>
                if cbits a <=? n then wret sat
                else value <~ big (big_shr (cval a) n) ;;
                     if msb =? 0 then wret value
                     else fill <~ big (big_shl all_one (cbits a - n)) ;; big (Z.lor fill value)
            | None => wret sat
            end ;;
       new_big_i r (cbits a).

Definition c1_i (b : bool) : W const := v <~ big (if b then 1 else 0) ;; new_big_i v 1.

Definition c_cmpeq_i (a b : const) : W const :=
  if negb (same_sort a b) then lift (Err ESort) else c1_i (cval a =? cval b).
Definition c_cmpneq_i (a b : const) : W const :=
  if negb (same_sort a b) then lift (Err ESort) else c1_i (negb (cval a =? cval b)).
Definition c_cmpltu_i (a b : const) : W const :=
  if negb (same_sort a b) then lift (Err ESort) else c1_i (cval a <? cval b).
Definition c_cmplts_i (a b : const) : W const :=
  if negb (same_sort a b) then lift (Err ESort)
  else l <~ to_bigint_i a ;; r <~ to_bigint_i b ;; c1_i (l <? r).

Definition c_trun_i (bits : Z) (a : const) : W const :=
  if cbits a <=? bits then lift (Err ESort) else new_big_i (cval a) bits.
Definition c_zext_i (bits : Z) (a : const) : W const :=
  if bits <=? cbits a then lift (Err ESort) else new_big_i (cval a) bits.
Definition c_sext_i (bits : Z) (a : const) : W const :=
  if bits <=? cbits a then lift (Err ESort)
  else s <~ lift (usub (cbits a) 1) ;;
       sign <~ big (big_shr (cval a) s) ;;
       v <~ (if sign =? 1
             then m1 <~ big (big_shl 1 bits) ;; m <~ big (m1 - 1) ;;
                  m2 <~ big (big_shl m (cbits a)) ;; big (Z.lor (cval a) m2)
             else wret (cval a)) ;;
       new_big_i v bits.

Definition c_bin_i (o : binop) : const -> const -> W const :=
  match o with
  | Add => c_add_i | Sub => c_sub_i | Mul => c_mul_i | Divu => c_divu_i | Modu => c_modu_i
  | Divs => c_divs_i | Mods => c_mods_i | And => c_and_i | Or => c_or_i | Xor => c_xor_i
  | Shl => c_shl_i | Shr => c_shr_i | AShr => c_ashr_i
  | Cmpeq => c_cmpeq_i | Cmpneq => c_cmpneq_i | Cmplts => c_cmplts_i | Cmpltu => c_cmpltu_i
  end.
Definition c_ext_i (o : extop) : Z -> const -> W const :=
  match o with Zext => c_zext_i | Sext => c_sext_i | Trun => c_trun_i end.

(* the big-integer intermediates of one operator application *)
Definition c_bin_inter (o : binop) (a b : const) : list Z := snd (c_bin_i o a b).
Definition c_ext_inter (o : extop) (bits : Z) (a : const) : list Z := snd (c_ext_i o bits a).

(* executor::eval, instrumented: the intermediates of every operator application, in evaluation order *)
Fixpoint eval_i (e : expr) : W const :=
  match e with
  | EScalar _ => lift (Err EExecScalar)
  | EConst c => wret c
  | EBin o l r => a <~ eval_i l ;; b <~ eval_i r ;; c_bin_i o a b
  | EExt o bits x => a <~ eval_i x ;; c_ext_i o bits a
  | EIte c t f => cv <~ eval_i c ;; if c_is_one cv then eval_i t else eval_i f
  end.
Definition eval_inter (e : expr) : list Z := snd (eval_i e).

(* the largest width mentioned in an expression *)
Fixpoint emaxw (e : expr) : Z :=
  match e with
  | EScalar s => sbits s
  | EConst c => cbits c
  | EBin _ l r => Z.max (emaxw l) (emaxw r)
  | EExt _ bits x => Z.max bits (emaxw x)
  | EIte c t f => Z.max (emaxw c) (Z.max (emaxw t) (emaxw f))
  end.

(* the largest width mentioned in a raw tree *)
Fixpoint rmaxw (r : rexpr) : Z :=
  match r with
  | RScalar s => sbits s
  | RConst _ w => w
  | RBin _ l r | RSra l r | RRotl l r => Z.max (rmaxw l) (rmaxw r)
  | RExt _ bits e => Z.max bits (rmaxw e)
  | RIte c t e => Z.max (rmaxw c) (Z.max (rmaxw t) (rmaxw e))
  end.

(* every logged intermediate needs fewer than k bits *)
Definition bnd (k v : Z) : Prop := Z.abs v < 2 ^ k.
Definition allb {A} (k : Z) (m : W A) : Prop := Forall (bnd k) (snd m).
