(* IL/ConstSpec.v -- the specification: two's-complement bit-vector arithmetic over Z.
   Written from the property statement, independently of the model. *)
From Coq Require Import ZArith Bool.
Local Open Scope Z_scope.

Definition inr (w a : Z) : Prop := 0 <= a < 2 ^ w.
Definition inrb (w a : Z) : bool := (0 <=? a) && (a <? 2 ^ w).

(* unsigned representative and signed reading at width w *)
Definition U (w a : Z) : Z := a mod 2 ^ w.
Definition S (w a : Z) : Z := if a <? 2 ^ (w - 1) then a else a - 2 ^ w.

Definition s_add (w a b : Z) := U w (a + b).
Definition s_sub (w a b : Z) := U w (a - b).
Definition s_mul (w a b : Z) := U w (a * b).
Definition s_divu (w a b : Z) := a / b.
Definition s_modu (w a b : Z) := a mod b.
(* truncating toward zero *)
Definition s_divs (w a b : Z) := U w (Z.quot (S w a) (S w b)).
Definition s_mods (w a b : Z) := U w (Z.rem (S w a) (S w b)).
Definition s_and (w a b : Z) := Z.land a b.
Definition s_or (w a b : Z) := Z.lor a b.
Definition s_xor (w a b : Z) := Z.lxor a b.
(* shifts saturate once the amount reaches the width *)
Definition s_shl (w a n : Z) := if w <=? n then 0 else U w (a * 2 ^ n).
Definition s_shr (w a n : Z) := if w <=? n then 0 else a / 2 ^ n.
Definition s_ashr (w a n : Z) :=
  if w <=? n then (if S w a <? 0 then 2 ^ w - 1 else 0) else U w (S w a / 2 ^ n).
Definition s_cmpeq (w a b : Z) := if a =? b then 1 else 0.
Definition s_cmpneq (w a b : Z) := if a =? b then 0 else 1.
Definition s_cmpltu (w a b : Z) := if a <? b then 1 else 0.
Definition s_cmplts (w a b : Z) := if S w a <? S w b then 1 else 0.
Definition s_zext (w' w a : Z) := a.
Definition s_sext (w' w a : Z) := U w' (S w a).
Definition s_trun (w' w a : Z) := U w' a.
