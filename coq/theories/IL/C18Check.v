(* IL/C18Check.v -- per-case checker of property C18 (program locations).
   One case = a program built through the public il API + everything the implementation reported
   about its locations.  fst = tie (model of IL/Loc.v = observed), snd = oracle (the observed values
   satisfy the relational specification written from the property text; the oracle never calls
   forward / backward / locations / floc_apply / from_address of the model). *)
From Coq Require Import ZArith List Bool NArith.
From Falcon Require Import Base.Res IL.Const IL.Expr IL.Func IL.Loc IL.LocProofs.
Import ListNotations.
Local Open Scope Z_scope.

(* what the harness observed for one function of the program *)
Record fobs := mkfobs {
  fo_locs : list floc;                      (* Function::locations() *)
  fo_fwd : list (res (list floc));          (* forward() of every location, same order *)
  fo_bwd : list (res (list floc));          (* backward() *)
  fo_rt_same : list (res (Z * floc));       (* ProgramLocation::from(l).apply(&program): (function index, location) *)
  fo_rt_clone : list (res (Z * floc));      (* ... .apply(&program.clone()) *)
  fo_migrate : list (res (Z * floc));       (* l.migrate(&program.clone()) *)
  fo_from_function : option (res floc) }.   (* RefProgramLocation::from_function *)

(* observed from_address: (function index, location, address() of the location found) *)
Definition aobs := option (Z * floc * option Z).

Inductive case :=
| KProg (p : program) (obs : list fobs)
        (xs : list (ploc * res (Z * floc)))      (* arbitrary ProgramLocations applied to p *)
        (alo : Z) (addrs : list aobs).            (* from_address(p, alo + k) for k = 0 .. *)

(* ---------------------------------------------------------------- equality helpers *)
Fixpoint leqb {A} (eqb : A -> A -> bool) (l1 l2 : list A) : bool :=
  match l1, l2 with
  | [], [] => true
  | a :: t1, b :: t2 => eqb a b && leqb eqb t1 t2
  | _, _ => false
  end.
Definition zf_eqb (a b : Z * floc) : bool := (fst a =? fst b) && floc_eqb (snd a) (snd b).
Definition rl_eqb := res_eqb (leqb floc_eqb).
Definition rzf_eqb := res_eqb zf_eqb.
Definition opt_eqb {A} (eqb : A -> A -> bool) (a b : option A) : bool :=
  match a, b with Some x, Some y => eqb x y | None, None => true | _, _ => false end.
Definition memf (l : floc) (ls : list floc) : bool := existsb (floc_eqb l) ls.
Definition countf (l : floc) (ls : list floc) : nat := length (filter (floc_eqb l) ls).

(* ---------------------------------------------------------------- tie *)
Definition tie_fun (p : program) (kf : Z * func) (o : fobs) : bool :=
  let f := snd kf in
  let ls := locations f in
  leqb floc_eqb ls (fo_locs o)
  && leqb rl_eqb (map (forward f) ls) (fo_fwd o)
  && leqb rl_eqb (map (backward f) ls) (fo_bwd o)
  && leqb rzf_eqb (map (fun l => ploc_apply p (ploc_of f l)) ls) (fo_rt_same o)
  && leqb rzf_eqb (map (fun l => ploc_apply p (ploc_of f l)) ls) (fo_rt_clone o)
  && leqb rzf_eqb (map (fun l => migrate p f l) ls) (fo_migrate o)
  && opt_eqb (res_eqb floc_eqb) (from_function f) (fo_from_function o).

Fixpoint tie_funs (p : program) (fs : list (Z * func)) (os : list fobs) : bool :=
  match fs, os with
  | [], [] => true
  | kf :: t, o :: t' => tie_fun p kf o && tie_funs p t t'
  | _, _ => false
  end.

Definition model_addr (p : program) (a : Z) : aobs :=
  match from_address p a with
  | None => None
  | Some (k, l) =>
      Some (k, l, match program_function p k with
                  | Some f => match loc_instruction f l with Some i => i_addr i | None => None end
                  | None => None
                  end)
  end.
Definition aobs_eqb : aobs -> aobs -> bool :=
  opt_eqb (fun x y => zf_eqb (fst x) (fst y) && optZ_eqb (snd x) (snd y)).

Fixpoint tie_addrs (p : program) (a : Z) (os : list aobs) : bool :=
  match os with
  | [] => true
  | o :: t => aobs_eqb (model_addr p a) o && tie_addrs p (a + 1) t
  end.

(* the hypotheses of the C18 theorems hold on the generated program *)
Definition hyps (p : program) : bool :=
  forallb (fun kf => cfg_inv (f_cfg (snd kf))) (p_funcs p) && prog_inv p.

Definition tie (k : case) : bool :=
  match k with
  | KProg p obs xs alo addrs =>
      hyps p && tie_funs p (p_funcs p) obs
      && forallb (fun x => rzf_eqb (ploc_apply p (fst x)) (snd x)) xs
      && tie_addrs p alo addrs
  end.

(* ---------------------------------------------------------------- oracle: relational specification *)
Definition is_ok_list (r : res (list floc)) : list floc := match r with Ok l => l | _ => [] end.

(* (a) forward and backward are converse relations on the enumerated locations, never fail, and
       stay inside the enumeration *)
Definition spec_converse (ls : list floc) (fw bw : list (res (list floc))) : bool :=
  (length fw =? length ls)%nat && (length bw =? length ls)%nat
  && forallb is_ok fw && forallb is_ok bw
  && forallb (fun r => forallb (fun b => memf b ls) (is_ok_list r)) fw
  && forallb (fun r => forallb (fun b => memf b ls) (is_ok_list r)) bw
  && forallb (fun af => forallb (fun bb =>
        Bool.eqb (memf (fst bb) (is_ok_list (snd af))) (memf (fst af) (is_ok_list (snd bb))))
        (combine ls bw)) (combine ls fw).

(* (b) every instruction, empty block and edge exactly once, nothing else *)
Definition n_expected (f : func) : nat :=
  fold_right (fun b n => (match b_instrs b with [] => 1 | is_ => length is_ end + n)%nat) O (f_blocks f)
  + length (f_edges f).
Definition spec_enum (f : func) (ls : list floc) : bool :=
  forallb (fun b => match b_instrs b with
                    | [] => (countf (LEmpty (b_index b)) ls =? 1)%nat
                    | is_ => forallb (fun i => (countf (LInstr (b_index b) (i_index i)) ls =? 1)%nat) is_
                    end) (f_blocks f)
  && forallb (fun e => (countf (LEdge (e_head e) (e_tail e)) ls =? 1)%nat) (f_edges f)
  && (length ls =? n_expected f)%nat.

(* (c) closure of the entry location under the observed forward = locations of the blocks reachable
       from the entry block along the edges of the input function *)
Definition memz (x : Z) (l : list Z) : bool := existsb (Z.eqb x) l.
Fixpoint grow_blocks (es : list edge) (s : list Z) (fuel : nat) : list Z :=
  match fuel with
  | O => s
  | S n =>
      let new := fold_left (fun acc e => if memz (e_head e) s && negb (memz (e_tail e) s) && negb (memz (e_tail e) acc)
                                         then e_tail e :: acc else acc) es [] in
      match new with [] => s | _ => grow_blocks es (new ++ s) n end
  end.
Definition reach_blocks (f : func) : list Z :=
  match g_entry (f_cfg f) with
  | None => []
  | Some e => grow_blocks (f_edges f) [e] (S (length (f_blocks f)))
  end.
Fixpoint lookup_fw (l : floc) (tbl : list (floc * res (list floc))) : list floc :=
  match tbl with
  | [] => []
  | (k, r) :: t => if floc_eqb l k then is_ok_list r else lookup_fw l t
  end.
Fixpoint grow_locs (tbl : list (floc * res (list floc))) (s : list floc) (fuel : nat) : list floc :=
  match fuel with
  | O => s
  | S n =>
      let new := fold_left (fun acc a => fold_left (fun acc' b => if negb (memf b s) && negb (memf b acc') then b :: acc' else acc')
                                                   (lookup_fw a tbl) acc) s [] in
      match new with [] => s | _ => grow_locs tbl (new ++ s) n end
  end.
Definition loc_block (l : floc) : Z := match l with LInstr b _ => b | LEmpty b => b | LEdge h _ => h end.
Definition spec_closure (f : func) (o : fobs) : bool :=
  match fo_from_function o with
  | None => match g_entry (f_cfg f) with None => true | Some _ => false end
  | Some (Ok l0) =>
      let cl := grow_locs (combine (fo_locs o) (fo_fwd o)) [l0] (S (length (fo_locs o))) in
      let rb := reach_blocks f in
      memf l0 (fo_locs o)
      && forallb (fun l => Bool.eqb (memf l cl) (memz (loc_block l) rb)) (fo_locs o)
      && forallb (fun l => memf l (fo_locs o)) cl
  | Some _ => false      (* the entry names an existing block (cfg_inv): from_function cannot fail *)
  end.

(* (d) owned form applied to the same / a cloned program is the identity *)
Definition spec_roundtrip (k : Z) (ls : list floc) (rs : list (res (Z * floc))) : bool :=
  leqb rzf_eqb (map (fun l => Ok (k, l)) ls) rs.

Definition oracle_fun (kf : Z * func) (o : fobs) : bool :=
  let f := snd kf in
  spec_converse (fo_locs o) (fo_fwd o) (fo_bwd o)
  && spec_enum f (fo_locs o)
  && spec_closure f o
  && spec_roundtrip (fst kf) (fo_locs o) (fo_rt_same o)
  && spec_roundtrip (fst kf) (fo_locs o) (fo_rt_clone o).

Fixpoint oracle_funs (fs : list (Z * func)) (os : list fobs) : bool :=
  match fs, os with
  | [], [] => true
  | kf :: t, o :: t' => oracle_fun kf o && oracle_funs t t'
  | _, _ => false
  end.

(* (e) address lookup: Some location whose instruction has that address whenever one exists in the
       program, None otherwise; the location found is an instruction of the function reported *)
Definition addr_exists (p : program) (a : Z) : bool :=
  existsb (fun kf => existsb (fun b => existsb (fun i => optZ_eqb (i_addr i) (Some a)) (b_instrs b))
                             (f_blocks (snd kf))) (p_funcs p).
Definition instr_has (p : program) (k : Z) (l : floc) (a : Z) : bool :=
  match l with
  | LInstr bi ii =>
      existsb (fun kf => (fst kf =? k) &&
        existsb (fun b => (b_index b =? bi) &&
          existsb (fun i => (i_index i =? ii) && optZ_eqb (i_addr i) (Some a)) (b_instrs b)) (f_blocks (snd kf)))
        (p_funcs p)
  | _ => false
  end.
Fixpoint oracle_addrs (p : program) (a : Z) (os : list aobs) : bool :=
  match os with
  | [] => true
  | o :: t =>
      match o with
      | None => negb (addr_exists p a)
      | Some (k, l, oa) => optZ_eqb oa (Some a) && instr_has p k l a
      end && oracle_addrs p (a + 1) t
  end.

Definition oracle (k : case) : bool :=
  match k with
  | KProg p obs _ alo addrs => oracle_funs (p_funcs p) obs && oracle_addrs p alo addrs
  end.

Definition ck (k : case) : bool * bool := (tie k, oracle k).
