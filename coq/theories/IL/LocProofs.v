(* IL/LocProofs.v -- property C18: theorems about the location model of IL/Loc.v.
   Extra definitions used by the statements (valid_loc, step, prog_inv, migrate, reachability on the
   static cfg) come first; they are candidates for IL/Loc.v (integrator). *)
From Coq Require Import ZArith List Bool NArith Lia.
From Falcon Require Import Base.Res IL.Const IL.Expr IL.Func IL.Loc.
Import ListNotations.
Local Open Scope Z_scope.

(* ------------------------------------------------------------------ definitions *)

(* RefProgramLocation::migrate (lib/il/location.rs): re-resolve a location of [f] in program [p].
   self.function().index().unwrap() panics for a function outside a program; a missing function or
   instruction is Error::FalconInternal (EOther); block / edge look-ups keep the graph errors. *)
Definition migrate (p : program) (f : func) (l : floc) : res (Z * floc) :=
  match f_index f with
  | None => Panic
  | Some fi =>
      match program_function p fi with
      | None => Err EOther
      | Some f' =>
          match l with
          | LInstr bi ii =>
              b <- f_block f' bi ;;
              match block_instruction b ii with Some _ => Ok (fi, l) | None => Err EOther end
          | LEdge h t => _ <- f_edge f' h t ;; Ok (fi, l)
          | LEmpty bi => _ <- f_block f' bi ;; Ok (fi, l)
          end
      end
  end.

(* Program::add_function keeps  key = function.index()  and the BTreeMap keeps keys ascending *)
Definition prog_inv (p : program) : bool :=
  sorted_by fst (p_funcs p) && forallb (fun kf => optZ_eqb (f_index (snd kf)) (Some (fst kf))) (p_funcs p).

(* a location that can exist as a RefFunctionLocation produced by the library (locations(),
   forward(), backward(), from_address, from_function): the block / instruction / edge exists and an
   EmptyBlock location names an empty block.  (FunctionLocation::apply does not check emptiness:
   [resolves] below is what apply accepts.) *)
Definition valid_loc (f : func) (l : floc) : bool :=
  match l with
  | LInstr bi ii =>
      match find_block (f_blocks f) bi with
      | Some b => match block_instruction b ii with Some _ => true | None => false end
      | None => false
      end
  | LEdge h t => match find_edge (f_edges f) h t with Some _ => true | None => false end
  | LEmpty bi => match find_block (f_blocks f) bi with Some b => block_is_empty b | None => false end
  end.

Definition resolves (f : func) (l : floc) : bool :=
  match floc_apply f l with Ok _ => true | _ => false end.

(* one step of the location graph, stated on the static structure (specification of forward/backward) *)
Inductive step (f : func) : floc -> floc -> Prop :=
| st_next b pre x y post :
    In b (f_blocks f) -> b_instrs b = pre ++ x :: y :: post ->
    step f (LInstr (b_index b) (i_index x)) (LInstr (b_index b) (i_index y))
| st_out b e :
    In b (f_blocks f) -> In e (f_edges f) -> e_head e = b_index b ->
    step f (block_last_loc b) (LEdge (e_head e) (e_tail e))
| st_in b e :
    In b (f_blocks f) -> In e (f_edges f) -> e_tail e = b_index b ->
    step f (LEdge (e_head e) (e_tail e)) (block_first_loc b).

(* blocks reachable from the entry block along edges of the static cfg *)
Inductive breach (g : cfg) : Z -> Prop :=
| br_entry e : g_entry g = Some e -> breach g e
| br_step h e : breach g h -> In e (g_edges g) -> e_head e = h -> breach g (e_tail e).

(* the location lies on a path from the entry block: its block (for an edge: its head) is reachable *)
Definition loc_block (l : floc) : Z := match l with LInstr b _ => b | LEmpty b => b | LEdge h _ => h end.
Definition on_entry_path (f : func) (l : floc) : Prop := breach (f_cfg f) (loc_block l).

(* closure of the entry location under forward *)
Inductive fclosure (f : func) : floc -> Prop :=
| fc_entry l : from_function f = Some (Ok l) -> fclosure f l
| fc_step a l b : fclosure f a -> forward f a = Ok l -> In b l -> fclosure f b.

(* ------------------------------------------------------------------ basic facts *)

Lemma floc_eqb_eq a b : floc_eqb a b = true <-> a = b.
Proof.
  destruct a, b; cbn; try (split; congruence);
    rewrite ?andb_true_iff, ?Z.eqb_eq; split; try (intros [? ?]; congruence); try congruence;
    try (intros E; inversion E; auto).
Qed.

Lemma sorted_by_cons {A} (key : A -> Z) x t :
  sorted_by key (x :: t) = true -> sorted_by key t = true /\ forall y, In y t -> key x < key y.
Proof.
  revert x; induction t as [|y t IH]; intros x Hs.
  - split; [reflexivity | intros ? []].
  - cbn [sorted_by] in Hs. apply andb_true_iff in Hs as [Hxy Ht].
    split; [exact Ht|]. apply Z.ltb_lt in Hxy.
    intros z [<-|Hz]; [exact Hxy|].
    destruct (IH y Ht) as [_ Hall]. specialize (Hall z Hz). lia.
Qed.

Definition elt (x y : edge) : Prop :=
  e_head x < e_head y \/ (e_head x = e_head y /\ e_tail x < e_tail y).

Lemma edges_sorted_cons x t :
  edges_sorted (x :: t) = true -> edges_sorted t = true /\ forall y, In y t -> elt x y.
Proof.
  revert x; induction t as [|y t IH]; intros x Hs.
  - split; [reflexivity | intros ? []].
  - cbn [edges_sorted] in Hs. apply andb_true_iff in Hs as [Hxy Ht].
    split; [exact Ht|].
    assert (Exy : elt x y).
    { unfold elt. apply orb_true_iff in Hxy as [H|H].
      - left. apply Z.ltb_lt in H; exact H.
      - right. apply andb_true_iff in H as [H1 H2]. apply Z.eqb_eq in H1. apply Z.ltb_lt in H2. split; assumption. }
    intros z [<-|Hz]; [exact Exy|].
    destruct (IH y Ht) as [_ Hall]. specialize (Hall z Hz). unfold elt in *. lia.
Qed.

Lemma find_block_some bs i b : find_block bs i = Some b -> In b bs /\ b_index b = i.
Proof.
  induction bs as [|x t IH]; cbn; [discriminate|].
  destruct (b_index x =? i) eqn:E.
  - intros [= <-]. apply Z.eqb_eq in E. auto.
  - intros H. destruct (IH H). auto.
Qed.

Lemma find_block_none bs i : find_block bs i = None -> forall b, In b bs -> b_index b <> i.
Proof.
  induction bs as [|x t IH]; cbn; [intros _ ? []|].
  destruct (b_index x =? i) eqn:E; [discriminate|].
  intros H b [<-|Hb]; [apply Z.eqb_neq; exact E | apply IH; assumption].
Qed.

Lemma find_block_in bs b : sorted_by b_index bs = true -> In b bs -> find_block bs (b_index b) = Some b.
Proof.
  induction bs as [|x t IH]; intros Hs Hin; [destruct Hin|].
  apply sorted_by_cons in Hs as [Ht Hall]. cbn.
  destruct Hin as [->|Hin].
  - rewrite Z.eqb_refl. reflexivity.
  - specialize (Hall b Hin). destruct (b_index x =? b_index b) eqn:E; [apply Z.eqb_eq in E; lia|].
    apply IH; assumption.
Qed.

Lemma find_edge_some es h t e : find_edge es h t = Some e -> In e es /\ e_head e = h /\ e_tail e = t.
Proof.
  induction es as [|x r IH]; cbn; [discriminate|].
  destruct ((e_head x =? h) && (e_tail x =? t)) eqn:E.
  - intros [= <-]. apply andb_true_iff in E as [E1 E2]. apply Z.eqb_eq in E1, E2. auto.
  - intros H. destruct (IH H) as (? & ? & ?). auto.
Qed.

Lemma find_edge_none es h t : find_edge es h t = None -> forall e, In e es -> ~ (e_head e = h /\ e_tail e = t).
Proof.
  induction es as [|x r IH]; cbn; [intros _ ? []|].
  destruct ((e_head x =? h) && (e_tail x =? t)) eqn:E; [discriminate|].
  intros H e [<-|He].
  - intros [E1 E2]. rewrite <- Z.eqb_eq in E1, E2. rewrite E1, E2 in E. discriminate.
  - apply IH; assumption.
Qed.

Lemma find_edge_in es e : edges_sorted es = true -> In e es -> find_edge es (e_head e) (e_tail e) = Some e.
Proof.
  induction es as [|x r IH]; intros Hs Hin; [destruct Hin|].
  apply edges_sorted_cons in Hs as [Ht Hall]. cbn.
  destruct Hin as [->|Hin].
  - rewrite !Z.eqb_refl. reflexivity.
  - specialize (Hall e Hin).
    destruct ((e_head x =? e_head e) && (e_tail x =? e_tail e)) eqn:E.
    + apply andb_true_iff in E as [E1 E2]. apply Z.eqb_eq in E1, E2. unfold elt in Hall. lia.
    + apply IH; assumption.
Qed.

(* instruction look-up by index field *)
Lemma find_instr_split is_ i x :
  find_instr is_ i = Some x ->
  exists pre post, is_ = pre ++ x :: post /\ i_index x = i /\ forall z, In z pre -> i_index z <> i.
Proof.
  induction is_ as [|y t IH]; cbn; [discriminate|].
  destruct (i_index y =? i) eqn:E.
  - intros [= <-]. exists [], t. apply Z.eqb_eq in E. repeat split; auto; try (intros ? []).
  - intros H. destruct (IH H) as (pre & post & -> & Hi & Hpre).
    exists (y :: pre), post. repeat split; auto.
    intros z [<-|Hz]; [apply Z.eqb_neq; exact E | auto].
Qed.

Lemma find_instr_none is_ i : find_instr is_ i = None -> forall z, In z is_ -> i_index z <> i.
Proof.
  induction is_ as [|y t IH]; cbn; [intros _ ? []|].
  destruct (i_index y =? i) eqn:E; [discriminate|].
  intros H z [<-|Hz]; [apply Z.eqb_neq; exact E | auto].
Qed.

Lemma nodupZ_cons x t : nodupZ (x :: t) = true -> ~ In x t /\ nodupZ t = true.
Proof.
  cbn. intros H. apply andb_true_iff in H as [H1 H2]. split; [|exact H2].
  intros Hin. apply negb_true_iff in H1.
  assert (existsb (Z.eqb x) t = true) by (apply existsb_exists; exists x; split; [exact Hin | apply Z.eqb_refl]).
  congruence.
Qed.

Lemma nodupZ_NoDup l : nodupZ l = true -> NoDup l.
Proof.
  induction l as [|x t IH]; intros H; [constructor|].
  apply nodupZ_cons in H as [H1 H2]. constructor; auto.
Qed.

Lemma nodup_app_cons_l (pre : list instruction) x post :
  NoDup (map i_index (pre ++ x :: post)) ->
  (forall z, In z pre -> i_index z <> i_index x) /\ (forall z, In z post -> i_index z <> i_index x).
Proof.
  rewrite map_app. cbn [map]. intros H.
  apply NoDup_remove_2 in H. split; intros z Hz E; apply H; apply in_or_app; [left|right];
    rewrite <- E; apply in_map; exact Hz.
Qed.

Lemma find_instr_in is_ pre x post :
  is_ = pre ++ x :: post -> (forall z, In z pre -> i_index z <> i_index x) ->
  find_instr is_ (i_index x) = Some x.
Proof.
  intros -> Hpre. induction pre as [|y t IH]; cbn.
  - rewrite Z.eqb_refl. reflexivity.
  - destruct (i_index y =? i_index x) eqn:E.
    + apply Z.eqb_eq in E. exfalso. apply (Hpre y); [left; reflexivity | exact E].
    + apply IH. intros z Hz. apply Hpre. right; exact Hz.
Qed.

(* ------------------------------------------------------------------ cfg_inv, unpacked *)
Record cfg_wf (g : cfg) : Prop := {
  wf_blocks : sorted_by b_index (g_blocks g) = true;
  wf_edges : edges_sorted (g_edges g) = true;
  wf_ends : forall e, In e (g_edges g) -> has_block g (e_head e) = true /\ has_block g (e_tail e) = true;
  wf_instrs : forall b, In b (g_blocks g) -> NoDup (map i_index (b_instrs b));
  wf_entry : forall i, g_entry g = Some i -> has_block g i = true }.

Lemma cfg_inv_wf g : cfg_inv g = true -> cfg_wf g.
Proof.
  unfold cfg_inv. rewrite !andb_true_iff. intros [[[[[H1 H2] H3] H4] H5] H6].
  constructor; auto.
  - intros e He. rewrite forallb_forall in H3. specialize (H3 e He). apply andb_true_iff in H3. exact H3.
  - intros b Hb. rewrite forallb_forall in H4. specialize (H4 b Hb).
    rewrite !andb_true_iff in H4. destruct H4 as [[[H4 _] _] _]. apply nodupZ_NoDup; exact H4.
  - intros i Hi. rewrite Hi in H5. exact H5.
Qed.

Lemma has_block_find g i : has_block g i = true -> exists b, find_block (g_blocks g) i = Some b.
Proof. unfold has_block. destruct (find_block (g_blocks g) i); [eauto | discriminate]. Qed.

Lemma in_has_block g b : sorted_by b_index (g_blocks g) = true -> In b (g_blocks g) -> has_block g (b_index b) = true.
Proof. intros Hs Hb. unfold has_block. rewrite (find_block_in _ _ Hs Hb). reflexivity. Qed.

(* ------------------------------------------------------------------ the two scans *)
Lemma fwd_scan_split f bi pre x post :
  (forall z, In z pre -> i_index z <> i_index x) ->
  instr_forward_scan f bi (pre ++ x :: post) (i_index x) =
  match post with
  | y :: _ => Ok [LInstr bi (i_index y)]
  | [] => es <- cfg_edges_out (f_cfg f) bi ;; Ok (edge_locs es)
  end.
Proof.
  induction pre as [|y t IH]; intros Hpre; cbn [app instr_forward_scan].
  - rewrite Z.eqb_refl. reflexivity.
  - destruct (i_index y =? i_index x) eqn:E.
    + apply Z.eqb_eq in E. exfalso. apply (Hpre y); [left; reflexivity | exact E].
    + apply IH. intros z Hz. apply Hpre. right; exact Hz.
Qed.

Lemma bwd_scan_split f bi rpost x rpre :
  (forall z, In z rpost -> i_index z <> i_index x) ->
  instr_backward_scan f bi (rpost ++ x :: rpre) (i_index x) =
  match rpre with
  | y :: _ => Ok [LInstr bi (i_index y)]
  | [] => es <- cfg_edges_in (f_cfg f) bi ;; Ok (edge_locs es)
  end.
Proof.
  induction rpost as [|y t IH]; intros Hpost; cbn [app instr_backward_scan].
  - rewrite Z.eqb_refl. reflexivity.
  - destruct (i_index y =? i_index x) eqn:E.
    + apply Z.eqb_eq in E. exfalso. apply (Hpost y); [left; reflexivity | exact E].
    + apply IH. intros z Hz. apply Hpost. right; exact Hz.
Qed.

Lemma in_edge_locs l es : In l (edge_locs es) <-> exists e, In e es /\ l = LEdge (e_head e) (e_tail e).
Proof.
  unfold edge_locs. rewrite in_map_iff. split; intros (e & H1 & H2); exists e; auto.
Qed.

Lemma block_last_loc_app b pre x : b_instrs b = pre ++ [x] -> block_last_loc b = LInstr (b_index b) (i_index x).
Proof. intros H. unfold block_last_loc. rewrite H, rev_app_distr. reflexivity. Qed.

Lemma block_last_loc_nil b : b_instrs b = [] -> block_last_loc b = LEmpty (b_index b).
Proof. intros H. unfold block_last_loc. rewrite H. reflexivity. Qed.

Lemma block_last_loc_cases b :
  (b_instrs b = [] /\ block_last_loc b = LEmpty (b_index b)) \/
  (exists pre x, b_instrs b = pre ++ [x] /\ block_last_loc b = LInstr (b_index b) (i_index x)).
Proof.
  destruct (b_instrs b) as [|a t] eqn:E using rev_ind.
  - left. split; [reflexivity | apply block_last_loc_nil; exact E].
  - right. exists t, a. split; [reflexivity | eapply block_last_loc_app; exact E].
Qed.

Lemma block_first_loc_cases b :
  (b_instrs b = [] /\ block_first_loc b = LEmpty (b_index b)) \/
  (exists x post, b_instrs b = x :: post /\ block_first_loc b = LInstr (b_index b) (i_index x)).
Proof.
  unfold block_first_loc. destruct (b_instrs b) as [|x t].
  - left; auto.
  - right; exists x, t; auto.
Qed.

(* ------------------------------------------------------------------ forward / backward = step *)
Section WithFunc.
  Variable f : func.
  Hypothesis Hinv : cfg_inv (f_cfg f) = true.
  Let W : cfg_wf (f_cfg f) := cfg_inv_wf _ Hinv.

  Lemma fb_in b : In b (f_blocks f) -> find_block (f_blocks f) (b_index b) = Some b.
  Proof. apply find_block_in. exact (wf_blocks _ W). Qed.

  Lemma edges_out_ok bi : has_block (f_cfg f) bi = true ->
    cfg_edges_out (f_cfg f) bi = Ok (filter (fun e => e_head e =? bi) (g_edges (f_cfg f))).
  Proof. intros H. unfold cfg_edges_out. rewrite H. reflexivity. Qed.
  Lemma edges_in_ok bi : has_block (f_cfg f) bi = true ->
    cfg_edges_in (f_cfg f) bi = Ok (filter (fun e => e_tail e =? bi) (g_edges (f_cfg f))).
  Proof. intros H. unfold cfg_edges_in. rewrite H. reflexivity. Qed.

  Lemma hb_in b : In b (f_blocks f) -> has_block (f_cfg f) (b_index b) = true.
  Proof. intros H. unfold has_block. fold (f_blocks f). rewrite (fb_in _ H). reflexivity. Qed.

  (* out-edge locations of a block *)
  Lemma out_locs b l : In b (f_blocks f) ->
    ((exists ls, (es <- cfg_edges_out (f_cfg f) (b_index b) ;; Ok (edge_locs es)) = Ok ls /\ In l ls)
     <-> exists e, In e (f_edges f) /\ e_head e = b_index b /\ l = LEdge (e_head e) (e_tail e)).
  Proof.
    intros Hb. rewrite (edges_out_ok _ (hb_in _ Hb)). cbn [bind]. split.
    - intros (ls & [= <-] & Hl). apply in_edge_locs in Hl as (e & He & ->).
      apply filter_In in He as [He1 He2]. apply Z.eqb_eq in He2. exists e; auto.
    - intros (e & He & Hh & ->). eexists; split; [reflexivity|]. apply in_edge_locs. exists e; split; auto.
      apply filter_In. split; [exact He | apply Z.eqb_eq; exact Hh].
  Qed.
  Lemma in_locs b l : In b (f_blocks f) ->
    ((exists ls, (es <- cfg_edges_in (f_cfg f) (b_index b) ;; Ok (edge_locs es)) = Ok ls /\ In l ls)
     <-> exists e, In e (f_edges f) /\ e_tail e = b_index b /\ l = LEdge (e_head e) (e_tail e)).
  Proof.
    intros Hb. rewrite (edges_in_ok _ (hb_in _ Hb)). cbn [bind]. split.
    - intros (ls & [= <-] & Hl). apply in_edge_locs in Hl as (e & He & ->).
      apply filter_In in He as [He1 He2]. apply Z.eqb_eq in He2. exists e; auto.
    - intros (e & He & Hh & ->). eexists; split; [reflexivity|]. apply in_edge_locs. exists e; split; auto.
      apply filter_In. split; [exact He | apply Z.eqb_eq; exact Hh].
  Qed.

  Lemma split_nodup b pre x post : In b (f_blocks f) -> b_instrs b = pre ++ x :: post ->
    (forall z, In z pre -> i_index z <> i_index x) /\ (forall z, In z post -> i_index z <> i_index x).
  Proof.
    intros Hb E. apply nodup_app_cons_l. rewrite <- E. exact (wf_instrs _ W b Hb).
  Qed.

  (* forward of an instruction location, given its position *)
  Lemma forward_instr b pre x post : In b (f_blocks f) -> b_instrs b = pre ++ x :: post ->
    forward f (LInstr (b_index b) (i_index x)) =
    match post with
    | y :: _ => Ok [LInstr (b_index b) (i_index y)]
    | [] => es <- cfg_edges_out (f_cfg f) (b_index b) ;; Ok (edge_locs es)
    end.
  Proof.
    intros Hb E. cbn [forward]. rewrite (fb_in _ Hb), E.
    apply fwd_scan_split. exact (proj1 (split_nodup _ _ _ _ Hb E)).
  Qed.
  Lemma backward_instr b pre x post : In b (f_blocks f) -> b_instrs b = pre ++ x :: post ->
    backward f (LInstr (b_index b) (i_index x)) =
    match rev pre with
    | y :: _ => Ok [LInstr (b_index b) (i_index y)]
    | [] => es <- cfg_edges_in (f_cfg f) (b_index b) ;; Ok (edge_locs es)
    end.
  Proof.
    intros Hb E. cbn [backward]. rewrite (fb_in _ Hb), E.
    rewrite rev_app_distr. cbn [rev]. rewrite <- app_assoc. cbn [app].
    apply bwd_scan_split. intros z Hz. apply in_rev in Hz.
    exact (proj2 (split_nodup _ _ _ _ Hb E) z Hz).
  Qed.

  Lemma valid_instr bi ii : valid_loc f (LInstr bi ii) = true ->
    exists b pre x post, In b (f_blocks f) /\ b_index b = bi /\ i_index x = ii /\ b_instrs b = pre ++ x :: post.
  Proof.
    cbn [valid_loc]. destruct (find_block (f_blocks f) bi) as [b|] eqn:Eb; [|discriminate].
    unfold block_instruction. destruct (find_instr (b_instrs b) ii) as [x|] eqn:Ex; [|discriminate].
    intros _. apply find_block_some in Eb as [Hb Hi].
    apply find_instr_split in Ex as (pre & post & E & Hx & _).
    exists b, pre, x, post. auto.
  Qed.
  Lemma valid_edge h t : valid_loc f (LEdge h t) = true ->
    exists e, In e (f_edges f) /\ e_head e = h /\ e_tail e = t.
  Proof.
    cbn [valid_loc]. destruct (find_edge (f_edges f) h t) as [e|] eqn:Ee; [|discriminate].
    intros _. apply find_edge_some in Ee. exists e. exact Ee.
  Qed.
  Lemma valid_empty bi : valid_loc f (LEmpty bi) = true ->
    exists b, In b (f_blocks f) /\ b_index b = bi /\ b_instrs b = [].
  Proof.
    cbn [valid_loc]. destruct (find_block (f_blocks f) bi) as [b|] eqn:Eb; [|discriminate].
    unfold block_is_empty. destruct (b_instrs b) eqn:E; [|discriminate].
    intros _. apply find_block_some in Eb as [Hb Hi]. exists b; auto.
  Qed.

  Lemma edge_ends e : In e (f_edges f) ->
    (exists b, In b (f_blocks f) /\ b_index b = e_head e) /\ (exists b, In b (f_blocks f) /\ b_index b = e_tail e).
  Proof.
    intros He. destruct (wf_ends _ W e He) as [H1 H2].
    apply has_block_find in H1 as [b1 H1]. apply has_block_find in H2 as [b2 H2].
    apply find_block_some in H1, H2. split; [exists b1 | exists b2]; exact H1 || exact H2.
  Qed.

  (* uniqueness of blocks by index *)
  Lemma block_uniq b b' : In b (f_blocks f) -> In b' (f_blocks f) -> b_index b = b_index b' -> b = b'.
  Proof.
    intros H H' E. pose proof (fb_in _ H) as F. rewrite E, (fb_in _ H') in F. congruence.
  Qed.

  Lemma forward_edge e b : In e (f_edges f) -> In b (f_blocks f) -> e_tail e = b_index b ->
    forward f (LEdge (e_head e) (e_tail e)) = Ok [block_first_loc b].
  Proof.
    intros He Hb E. cbn [forward]. unfold f_block, cfg_block. fold (f_blocks f).
    rewrite E, (fb_in _ Hb). reflexivity.
  Qed.
  Lemma backward_edge e b : In e (f_edges f) -> In b (f_blocks f) -> e_head e = b_index b ->
    backward f (LEdge (e_head e) (e_tail e)) = Ok [block_last_loc b].
  Proof.
    intros He Hb E. cbn [backward]. unfold f_block, cfg_block. fold (f_blocks f).
    rewrite E, (fb_in _ Hb). reflexivity.
  Qed.
  Lemma forward_empty b : In b (f_blocks f) ->
    forward f (LEmpty (b_index b)) = (es <- cfg_edges_out (f_cfg f) (b_index b) ;; Ok (edge_locs es)).
  Proof. reflexivity. Qed.
  Lemma backward_empty b : In b (f_blocks f) ->
    backward f (LEmpty (b_index b)) = (es <- cfg_edges_in (f_cfg f) (b_index b) ;; Ok (edge_locs es)).
  Proof. reflexivity. Qed.

  Lemma forward_last b : In b (f_blocks f) ->
    forward f (block_last_loc b) = (es <- cfg_edges_out (f_cfg f) (b_index b) ;; Ok (edge_locs es)).
  Proof.
    intros Hb. destruct (block_last_loc_cases b) as [[E ->]|(pre & x & E & ->)].
    - reflexivity.
    - rewrite (forward_instr b pre x [] Hb E). reflexivity.
  Qed.
  Lemma backward_first b : In b (f_blocks f) ->
    backward f (block_first_loc b) = (es <- cfg_edges_in (f_cfg f) (b_index b) ;; Ok (edge_locs es)).
  Proof.
    intros Hb. destruct (block_first_loc_cases b) as [[E ->]|(x & post & E & ->)].
    - reflexivity.
    - rewrite (backward_instr b [] x post Hb E). reflexivity.
  Qed.

  Theorem forward_spec a b : valid_loc f a = true ->
    ((exists l, forward f a = Ok l /\ In b l) <-> step f a b).
  Proof.
    intros Hv. split.
    - intros (l & Hf & Hb). destruct a as [bi ii|h t|bi].
      + apply valid_instr in Hv as (blk & pre & x & post & Hblk & <- & <- & E).
        rewrite (forward_instr _ _ _ _ Hblk E) in Hf. destruct post as [|y post].
        * assert (Ho : exists ls, (es <- cfg_edges_out (f_cfg f) (b_index blk);; Ok (edge_locs es)) = Ok ls /\ In b ls) by eauto.
          apply (out_locs blk b Hblk) in Ho as (e & He & Hh & ->).
          rewrite <- (block_last_loc_app blk pre x E). apply st_out; assumption.
        * injection Hf as <-. destruct Hb as [<-|[]]. eapply st_next; eassumption.
      + apply valid_edge in Hv as (e & He & <- & <-).
        destruct (edge_ends e He) as [_ (blk & Hblk & Et)].
        rewrite (forward_edge e blk He Hblk (eq_sym Et)) in Hf. injection Hf as <-.
        destruct Hb as [<-|[]]. apply st_in; auto.
      + apply valid_empty in Hv as (blk & Hblk & <- & E).
        rewrite forward_empty in Hf by exact Hblk.
        assert (Ho : exists ls, (es <- cfg_edges_out (f_cfg f) (b_index blk);; Ok (edge_locs es)) = Ok ls /\ In b ls) by eauto.
        apply (out_locs blk b Hblk) in Ho as (e & He & Hh & ->).
        rewrite <- (block_last_loc_nil blk E). apply st_out; assumption.
    - intros Hs. destruct Hs as [blk pre x y post Hblk E | blk e Hblk He Hh | blk e Hblk He Ht].
      + rewrite (forward_instr _ _ _ _ Hblk E). eexists; split; [reflexivity | left; reflexivity].
      + rewrite (forward_last _ Hblk). apply (out_locs blk _ Hblk). exists e; auto.
      + rewrite (forward_edge e blk He Hblk Ht). eexists; split; [reflexivity | left; reflexivity].
  Qed.

  Theorem backward_spec a b : valid_loc f b = true ->
    ((exists l, backward f b = Ok l /\ In a l) <-> step f a b).
  Proof.
    intros Hv. split.
    - intros (l & Hf & Ha). destruct b as [bi ii|h t|bi].
      + apply valid_instr in Hv as (blk & pre & x & post & Hblk & <- & <- & E).
        rewrite (backward_instr _ _ _ _ Hblk E) in Hf.
        destruct pre as [|p pre'] using rev_ind.
        * cbn [rev] in Hf.
          assert (Ho : exists ls, (es <- cfg_edges_in (f_cfg f) (b_index blk);; Ok (edge_locs es)) = Ok ls /\ In a ls) by eauto.
          apply (in_locs blk a Hblk) in Ho as (e & He & Hh & ->).
          replace (LInstr (b_index blk) (i_index x)) with (block_first_loc blk)
            by (unfold block_first_loc; rewrite E; reflexivity).
          apply st_in; assumption.
        * clear IHpre'. rewrite rev_app_distr in Hf. cbn [rev app] in Hf. injection Hf as <-.
          destruct Ha as [<-|[]]. rewrite <- app_assoc in E. cbn [app] in E.
          eapply st_next; eassumption.
      + apply valid_edge in Hv as (e & He & <- & <-).
        destruct (edge_ends e He) as [(blk & Hblk & Eh) _].
        rewrite (backward_edge e blk He Hblk (eq_sym Eh)) in Hf. injection Hf as <-.
        destruct Ha as [<-|[]]. apply st_out; auto.
      + apply valid_empty in Hv as (blk & Hblk & <- & E).
        rewrite backward_empty in Hf by exact Hblk.
        assert (Ho : exists ls, (es <- cfg_edges_in (f_cfg f) (b_index blk);; Ok (edge_locs es)) = Ok ls /\ In a ls) by eauto.
        apply (in_locs blk a Hblk) in Ho as (e & He & Hh & ->).
        replace (LEmpty (b_index blk)) with (block_first_loc blk)
          by (unfold block_first_loc; rewrite E; reflexivity).
        apply st_in; assumption.
    - intros Hs. destruct Hs as [blk pre x y post Hblk E | blk e Hblk He Hh | blk e Hblk He Ht].
      + assert (E' : b_instrs blk = (pre ++ [x]) ++ y :: post) by (rewrite <- app_assoc; exact E).
        rewrite (backward_instr _ _ _ _ Hblk E'). rewrite rev_app_distr. cbn [rev app].
        eexists; split; [reflexivity | left; reflexivity].
      + rewrite (backward_edge e blk He Hblk Hh). eexists; split; [reflexivity | left; reflexivity].
      + rewrite (backward_first _ Hblk). apply (in_locs blk _ Hblk). exists e; auto.
  Qed.

  (* C18, clause 1 *)
  Theorem fwd_bwd_converse a b : valid_loc f a = true -> valid_loc f b = true ->
    ((exists l, forward f a = Ok l /\ In b l) <-> (exists l, backward f b = Ok l /\ In a l)).
  Proof.
    intros Ha Hb. rewrite (forward_spec a b Ha), (backward_spec a b Hb). reflexivity.
  Qed.
End WithFunc.

(* ------------------------------------------------------------------ Function::locations *)
Lemma NoDup_app_intro {A} (l1 l2 : list A) :
  NoDup l1 -> NoDup l2 -> (forall x, In x l1 -> ~ In x l2) -> NoDup (l1 ++ l2).
Proof.
  induction l1 as [|a t IH]; intros H1 H2 Hd; [exact H2|].
  cbn. inversion H1 as [|? ? Ha Ht]; subst. constructor.
  - intros Hin. apply in_app_or in Hin as [Hin|Hin]; [exact (Ha Hin)|].
    exact (Hd a (or_introl eq_refl) Hin).
  - apply IH; auto. intros x Hx. apply Hd. right; exact Hx.
Qed.

Lemma in_block_locations b l :
  In l (block_locations b) <->
  (b_instrs b = [] /\ l = LEmpty (b_index b)) \/ (exists i, In i (b_instrs b) /\ l = LInstr (b_index b) (i_index i)).
Proof.
  unfold block_locations. destruct (b_instrs b) as [|x t] eqn:E.
  - cbn. split.
    + intros [<-|[]]. left; auto.
    + intros [[_ ->]|(i & [] & _)]. left; reflexivity.
  - rewrite in_map_iff. split.
    + intros (i & <- & Hi). right. exists i; auto.
    + intros [[H _]|(i & Hi & ->)]; [discriminate|]. exists i; auto.
Qed.

(* C18, clause 2a: what is enumerated *)
Theorem locations_complete f l :
  In l (locations f) <->
  (exists b i, In b (f_blocks f) /\ In i (b_instrs b) /\ l = LInstr (b_index b) (i_index i))
  \/ (exists b, In b (f_blocks f) /\ b_instrs b = [] /\ l = LEmpty (b_index b))
  \/ (exists e, In e (f_edges f) /\ l = LEdge (e_head e) (e_tail e)).
Proof.
  unfold locations. rewrite in_app_iff, in_flat_map, in_map_iff. split.
  - intros [(b & Hb & Hl)|(e & <- & He)].
    + apply in_block_locations in Hl as [[E ->]|(i & Hi & ->)].
      * right; left. exists b; auto.
      * left. exists b, i; auto.
    + right; right. exists e; auto.
  - intros [(b & i & Hb & Hi & ->)|[(b & Hb & E & ->)|(e & He & ->)]].
    + left. exists b. split; [exact Hb|]. apply in_block_locations. right. exists i; auto.
    + left. exists b. split; [exact Hb|]. apply in_block_locations. left; auto.
    + right. exists e; auto.
Qed.

Lemma block_locations_nodup b : NoDup (map i_index (b_instrs b)) -> NoDup (block_locations b).
Proof.
  unfold block_locations. destruct (b_instrs b) as [|x t] eqn:E.
  - intros _. constructor; [intros [] | constructor].
  - generalize (x :: t). clear. intros l. induction l as [|y r IH]; cbn; intros H; [constructor|].
    inversion H as [|? ? Hy Hr]; subst. constructor; [|apply IH; exact Hr].
    intros Hin. apply in_map_iff in Hin as (z & Hz & Hzr). injection Hz as Hz.
    apply Hy. rewrite <- Hz. apply in_map. exact Hzr.
Qed.

Lemma blocks_locations_nodup bs :
  sorted_by b_index bs = true -> (forall b, In b bs -> NoDup (map i_index (b_instrs b))) ->
  NoDup (flat_map block_locations bs).
Proof.
  induction bs as [|x t IH]; intros Hs Hn; [constructor|].
  apply sorted_by_cons in Hs as [Ht Hall]. cbn [flat_map].
  apply NoDup_app_intro.
  - apply block_locations_nodup. apply Hn. left; reflexivity.
  - apply IH; [exact Ht|]. intros b Hb. apply Hn. right; exact Hb.
  - intros l Hl Hl'. apply in_flat_map in Hl' as (b & Hb & Hlb). specialize (Hall b Hb).
    apply in_block_locations in Hl as [[_ ->]|(i & _ & ->)];
      apply in_block_locations in Hlb as [[_ Hq]|(j & _ & Hq)]; try discriminate; injection Hq as Hq; lia.
Qed.

Lemma edge_locs_nodup es : edges_sorted es = true -> NoDup (map (fun e => LEdge (e_head e) (e_tail e)) es).
Proof.
  induction es as [|x t IH]; intros Hs; [constructor|].
  apply edges_sorted_cons in Hs as [Ht Hall]. cbn [map]. constructor; [|apply IH; exact Ht].
  intros Hin. apply in_map_iff in Hin as (e & He & Het). injection He as H1 H2.
  specialize (Hall e Het). unfold elt in Hall. lia.
Qed.

(* C18, clause 2b: ... exactly once *)
Theorem locations_nodup f : cfg_inv (f_cfg f) = true -> NoDup (locations f).
Proof.
  intros Hinv. pose proof (cfg_inv_wf _ Hinv) as W. unfold locations.
  apply NoDup_app_intro.
  - apply blocks_locations_nodup; [exact (wf_blocks _ W) | exact (wf_instrs _ W)].
  - apply edge_locs_nodup. exact (wf_edges _ W).
  - intros l Hl Hl'. apply in_flat_map in Hl as (b & _ & Hlb). apply in_map_iff in Hl' as (e & <- & _).
    apply in_block_locations in Hlb as [[_ Hq]|(j & _ & Hq)]; discriminate.
Qed.

(* the enumerated locations are exactly the valid ones *)
Theorem locations_valid f l : cfg_inv (f_cfg f) = true -> (In l (locations f) <-> valid_loc f l = true).
Proof.
  intros Hinv. pose proof (cfg_inv_wf _ Hinv) as W. rewrite locations_complete. split.
  - intros [(b & i & Hb & Hi & ->)|[(b & Hb & E & ->)|(e & He & ->)]]; cbn [valid_loc].
    + rewrite (fb_in f Hinv b Hb). apply in_split in Hi as (pre & post & E).
      unfold block_instruction.
      destruct (find_instr (b_instrs b) (i_index i)) eqn:F; [reflexivity|].
      exfalso. eapply find_instr_none; [exact F | | reflexivity]. rewrite E. apply in_elt.
    + rewrite (fb_in f Hinv b Hb). unfold block_is_empty. rewrite E. reflexivity.
    + unfold f_edges. rewrite (find_edge_in _ e (wf_edges _ W) He). reflexivity.
  - intros Hv. destruct l as [bi ii|h t|bi].
    + apply (valid_instr f) in Hv as (b & pre & x & post & Hb & <- & <- & E).
      left. exists b, x. repeat split; auto. rewrite E. apply in_elt.
    + apply (valid_edge f) in Hv as (e & He & <- & <-). right; right. exists e; auto.
    + apply (valid_empty f) in Hv as (b & Hb & <- & E). right; left. exists b; auto.
Qed.

(* ------------------------------------------------------------------ closure under forward *)
Section Closure.
  Variable f : func.
  Hypothesis Hinv : cfg_inv (f_cfg f) = true.
  Let W : cfg_wf (f_cfg f) := cfg_inv_wf _ Hinv.

  Lemma instr_valid b x : In b (f_blocks f) -> In x (b_instrs b) -> valid_loc f (LInstr (b_index b) (i_index x)) = true.
  Proof.
    intros Hb Hx. apply (locations_valid f _ Hinv). apply locations_complete. left. exists b, x; auto.
  Qed.
  Lemma first_valid b : In b (f_blocks f) -> valid_loc f (block_first_loc b) = true.
  Proof.
    intros Hb. destruct (block_first_loc_cases b) as [[E ->]|(x & post & E & ->)].
    - apply (locations_valid f _ Hinv). apply locations_complete. right; left. exists b; auto.
    - apply instr_valid; [exact Hb|]. rewrite E. left; reflexivity.
  Qed.
  Lemma last_valid b : In b (f_blocks f) -> valid_loc f (block_last_loc b) = true.
  Proof.
    intros Hb. destruct (block_last_loc_cases b) as [[E ->]|(pre & x & E & ->)].
    - apply (locations_valid f _ Hinv). apply locations_complete. right; left. exists b; auto.
    - apply instr_valid; [exact Hb|]. rewrite E. apply in_elt.
  Qed.
  Lemma edge_valid e : In e (f_edges f) -> valid_loc f (LEdge (e_head e) (e_tail e)) = true.
  Proof.
    intros He. apply (locations_valid f _ Hinv). apply locations_complete. right; right. exists e; auto.
  Qed.

  Lemma step_valid a b : step f a b -> valid_loc f a = true /\ valid_loc f b = true.
  Proof.
    intros [blk pre x y post Hblk E | blk e Hblk He Hh | blk e Hblk He Ht].
    - split; apply instr_valid; auto; rewrite E.
      + apply in_elt.
      + apply in_or_app. right. right. left. reflexivity.
    - split; [apply last_valid | apply edge_valid]; assumption.
    - split; [apply edge_valid | apply first_valid]; assumption.
  Qed.

  Lemma first_block b : loc_block (block_first_loc b) = b_index b.
  Proof. unfold block_first_loc. destruct (b_instrs b); reflexivity. Qed.
  Lemma last_block b : loc_block (block_last_loc b) = b_index b.
  Proof. unfold block_last_loc. destruct (rev (b_instrs b)); reflexivity. Qed.

  Lemma step_path a b : step f a b -> on_entry_path f a -> on_entry_path f b.
  Proof.
    unfold on_entry_path.
    intros [blk pre x y post Hblk E | blk e Hblk He Hh | blk e Hblk He Ht] Hp.
    - exact Hp.
    - rewrite last_block in Hp. cbn [loc_block]. rewrite Hh. exact Hp.
    - cbn [loc_block] in Hp. rewrite first_block, <- Ht. eapply br_step; [exact Hp | exact He | reflexivity].
  Qed.

  Lemma from_function_spec l : from_function f = Some (Ok l) <->
    exists e b, g_entry (f_cfg f) = Some e /\ In b (f_blocks f) /\ b_index b = e /\ l = block_first_loc b.
  Proof.
    unfold from_function, f_block, cfg_block. fold (f_blocks f). split.
    - destruct (g_entry (f_cfg f)) as [e|]; [|discriminate].
      destruct (find_block (f_blocks f) e) as [b|] eqn:Eb; cbn [bind]; [|discriminate].
      intros [= <-]. apply find_block_some in Eb as [Hb Hi]. exists e, b; auto.
    - intros (e & b & -> & Hb & <- & ->). rewrite (fb_in f Hinv b Hb). reflexivity.
  Qed.

  Lemma fclosure_step a b : fclosure f a -> step f a b -> fclosure f b.
  Proof.
    intros Ha Hs. destruct (step_valid _ _ Hs) as [Va _].
    apply (forward_spec f Hinv a b Va) in Hs as (l & Hf & Hb). eapply fc_step; eassumption.
  Qed.

  (* within a block the closure walks from the first location to every instruction *)
  Lemma fclosure_block b : In b (f_blocks f) -> fclosure f (block_first_loc b) ->
    forall pre x post, b_instrs b = pre ++ x :: post -> fclosure f (LInstr (b_index b) (i_index x)).
  Proof.
    intros Hb H0 pre. induction pre as [|p pre' IH] using rev_ind; intros x post E.
    - unfold block_first_loc in H0. rewrite E in H0. exact H0.
    - rewrite <- app_assoc in E. cbn [app] in E.
      eapply fclosure_step; [exact (IH p (x :: post) E)|]. eapply st_next; eassumption.
  Qed.
  Lemma fclosure_last b : In b (f_blocks f) -> fclosure f (block_first_loc b) -> fclosure f (block_last_loc b).
  Proof.
    intros Hb H0. destruct (block_last_loc_cases b) as [[E ->]|(pre & x & E & ->)].
    - unfold block_first_loc in H0. rewrite E in H0. exact H0.
    - eapply fclosure_block; eassumption.
  Qed.

  Lemma breach_first bi : breach (f_cfg f) bi -> forall b, In b (f_blocks f) -> b_index b = bi -> fclosure f (block_first_loc b).
  Proof.
    induction 1 as [e He | h e Hh IH He Eh]; intros b Hb Ei.
    - apply fc_entry. apply from_function_spec. exists e, b; auto.
    - destruct (edge_ends f Hinv e He) as [(hb & Hhb & Ehb) _].
      assert (F1 : fclosure f (block_first_loc hb)) by (apply IH; [exact Hhb | congruence]).
      apply (fclosure_last hb Hhb) in F1.
      assert (F2 : fclosure f (LEdge (e_head e) (e_tail e))).
      { eapply fclosure_step; [exact F1|]. apply st_out; auto. }
      eapply fclosure_step; [exact F2|]. apply st_in; auto.
  Qed.

  (* C18, clause 3: the closure of the entry location under forward is exactly the set of
     instructions / empty blocks / edges lying on paths from the entry block *)
  Theorem forward_closure_eq_paths l :
    fclosure f l <-> (valid_loc f l = true /\ on_entry_path f l).
  Proof.
    split.
    - induction 1 as [l Hl | a ls b Ha IH Hf Hb].
      + apply from_function_spec in Hl as (e & b & He & Hb & Ei & ->). split.
        * apply first_valid; exact Hb.
        * unfold on_entry_path. rewrite first_block, Ei. apply br_entry; exact He.
      + destruct IH as [Va Pa].
        assert (Hs : step f a b) by (apply (forward_spec f Hinv a b Va); eauto).
        split; [exact (proj2 (step_valid _ _ Hs)) | exact (step_path _ _ Hs Pa)].
    - intros [Hv Hp]. unfold on_entry_path in Hp. destruct l as [bi ii|h t|bi]; cbn [loc_block] in Hp.
      + apply (valid_instr f) in Hv as (b & pre & x & post & Hb & <- & <- & E).
        eapply fclosure_block; [exact Hb | | exact E]. eapply breach_first; [exact Hp | exact Hb | reflexivity].
      + apply (valid_edge f) in Hv as (e & He & <- & <-).
        destruct (edge_ends f Hinv e He) as [(hb & Hhb & Ehb) _].
        eapply fclosure_step; [|apply st_out; [exact Hhb | exact He | congruence]].
        apply fclosure_last; [exact Hhb|]. eapply breach_first; [exact Hp | exact Hhb | exact Ehb].
      + apply (valid_empty f) in Hv as (b & Hb & <- & E).
        replace (LEmpty (b_index b)) with (block_first_loc b) by (unfold block_first_loc; rewrite E; reflexivity).
        eapply breach_first; [exact Hp | exact Hb | reflexivity].
  Qed.

  (* forward never fails on a valid location and stays inside the valid locations (used by C09) *)
  Theorem forward_total a : valid_loc f a = true ->
    exists l, forward f a = Ok l /\ forall b, In b l -> valid_loc f b = true.
  Proof.
    intros Hv.
    assert (Hok : exists l, forward f a = Ok l).
    { destruct a as [bi ii|h t|bi].
      - apply (valid_instr f) in Hv as (b & pre & x & post & Hb & <- & <- & E).
        rewrite (forward_instr f Hinv _ _ _ _ Hb E). destruct post; [|eauto].
        rewrite (edges_out_ok f _ (hb_in f Hinv _ Hb)). cbn [bind]. eauto.
      - apply (valid_edge f) in Hv as (e & He & <- & <-).
        destruct (edge_ends f Hinv e He) as [_ (tb & Htb & Et)].
        rewrite (forward_edge f Hinv e tb He Htb (eq_sym Et)). eauto.
      - apply (valid_empty f) in Hv as (b & Hb & <- & E).
        rewrite forward_empty by exact Hb.
        rewrite (edges_out_ok f _ (hb_in f Hinv _ Hb)). cbn [bind]. eauto. }
    destruct Hok as [l Hl]. exists l. split; [exact Hl|].
    intros b Hb. assert (Hs : step f a b) by (apply (forward_spec f Hinv a b Hv); eauto).
    exact (proj2 (step_valid _ _ Hs)).
  Qed.
  Theorem backward_total b : valid_loc f b = true ->
    exists l, backward f b = Ok l /\ forall a, In a l -> valid_loc f a = true.
  Proof.
    intros Hv.
    assert (Hok : exists l, backward f b = Ok l).
    { destruct b as [bi ii|h t|bi].
      - apply (valid_instr f) in Hv as (blk & pre & x & post & Hb & <- & <- & E).
        rewrite (backward_instr f Hinv _ _ _ _ Hb E). destruct (rev pre); [|eauto].
        rewrite (edges_in_ok f _ (hb_in f Hinv _ Hb)). cbn [bind]. eauto.
      - apply (valid_edge f) in Hv as (e & He & <- & <-).
        destruct (edge_ends f Hinv e He) as [(hb & Hhb & Eh) _].
        rewrite (backward_edge f Hinv e hb He Hhb (eq_sym Eh)). eauto.
      - apply (valid_empty f) in Hv as (blk & Hb & <- & E).
        rewrite backward_empty by exact Hb.
        rewrite (edges_in_ok f _ (hb_in f Hinv _ Hb)). cbn [bind]. eauto. }
    destruct Hok as [l Hl]. exists l. split; [exact Hl|].
    intros a Ha. assert (Hs : step f a b) by (apply (backward_spec f Hinv a b Hv); eauto).
    exact (proj1 (step_valid _ _ Hs)).
  Qed.
End Closure.

(* ------------------------------------------------------------------ owned form and apply *)
Lemma floc_apply_valid f l : valid_loc f l = true -> floc_apply f l = Ok l.
Proof.
  destruct l as [bi ii|h t|bi]; cbn [valid_loc floc_apply].
  - destruct (find_block (f_blocks f) bi); [|discriminate]. destruct (block_instruction b ii); [reflexivity|discriminate].
  - destruct (find_edge (f_edges f) h t); [reflexivity|discriminate].
  - destruct (find_block (f_blocks f) bi); [reflexivity|discriminate].
Qed.

(* apply never returns a different location: it is a partial identity *)
Lemma floc_apply_id f l l' : floc_apply f l = Ok l' -> l' = l.
Proof.
  destruct l as [bi ii|h t|bi]; cbn [floc_apply].
  - destruct (find_block (f_blocks f) bi); [|discriminate]. destruct (block_instruction b ii); [congruence|discriminate].
  - destruct (find_edge (f_edges f) h t); [congruence|discriminate].
  - destruct (find_block (f_blocks f) bi); [congruence|discriminate].
Qed.

Lemma valid_loc_cfg f f' l : f_cfg f' = f_cfg f -> valid_loc f' l = valid_loc f l.
Proof. intros E. destruct l; cbn [valid_loc]; unfold f_blocks, f_edges; rewrite E; reflexivity. Qed.

Lemma find_func_in fs k f : sorted_by fst fs = true -> In (k, f) fs -> find_func fs k = Some f.
Proof.
  induction fs as [|[k' f'] t IH]; intros Hs Hin; [destruct Hin|].
  apply sorted_by_cons in Hs as [Ht Hall]. cbn [find_func].
  destruct Hin as [[= -> ->]|Hin].
  - rewrite Z.eqb_refl. reflexivity.
  - specialize (Hall _ Hin). cbn [fst] in Hall. destruct (k' =? k) eqn:E; [apply Z.eqb_eq in E; lia|].
    apply IH; assumption.
Qed.

Lemma find_func_some fs k f : find_func fs k = Some f -> In (k, f) fs.
Proof.
  induction fs as [|[k' f'] t IH]; cbn [find_func]; [discriminate|].
  destruct (k' =? k) eqn:E.
  - intros [= ->]. apply Z.eqb_eq in E. subst. left; reflexivity.
  - intros H. right. apply IH; exact H.
Qed.

Lemma prog_inv_index p k f : prog_inv p = true -> In (k, f) (p_funcs p) ->
  program_function p k = Some f /\ f_index f = Some k.
Proof.
  unfold prog_inv. intros H Hin. apply andb_true_iff in H as [Hs Hi]. split.
  - apply find_func_in; assumption.
  - rewrite forallb_forall in Hi. specialize (Hi _ Hin). cbn [fst snd] in Hi.
    unfold optZ_eqb in Hi. destruct (f_index f) as [x|]; [|discriminate]. apply Z.eqb_eq in Hi. congruence.
Qed.

(* C18, clause 4: owned form applied to a program holding an equal function (same program, a clone,
   or any program whose function [fi] has the same graph) yields the same location *)
Theorem apply_from_id p' fi f f' l :
  f_index f = Some fi -> valid_loc f l = true ->
  program_function p' fi = Some f' -> f_cfg f' = f_cfg f ->
  ploc_apply p' (ploc_of f l) = Ok (fi, l) /\ floc_apply f' l = Ok l.
Proof.
  intros Hi Hv Hp Hc. unfold ploc_apply, ploc_of. cbn [pl_func pl_loc]. rewrite Hi, Hp.
  rewrite <- (valid_loc_cfg f f' l Hc) in Hv. rewrite (floc_apply_valid f' l Hv). cbn [bind]. auto.
Qed.

Corollary apply_from_id_same p fi f l :
  prog_inv p = true -> In (fi, f) (p_funcs p) -> valid_loc f l = true ->
  ploc_apply p (ploc_of f l) = Ok (fi, l).
Proof.
  intros Hp Hin Hv. destruct (prog_inv_index p fi f Hp Hin) as [H1 H2].
  exact (proj1 (apply_from_id p fi f f l H2 Hv H1 eq_refl)).
Qed.

Theorem migrate_id p' fi f f' l :
  f_index f = Some fi -> valid_loc f l = true ->
  program_function p' fi = Some f' -> f_cfg f' = f_cfg f ->
  migrate p' f l = Ok (fi, l).
Proof.
  intros Hi Hv Hp Hc. unfold migrate. rewrite Hi, Hp.
  rewrite <- (valid_loc_cfg f f' l Hc) in Hv. unfold f_block, f_edge, cfg_block, cfg_edge.
  fold (f_blocks f') (f_edges f').
  destruct l as [bi ii|h t|bi]; cbn [valid_loc] in Hv.
  - destruct (find_block (f_blocks f') bi); [|discriminate]. cbn [bind].
    destruct (block_instruction b ii); [reflexivity|discriminate].
  - destruct (find_edge (f_edges f') h t); [reflexivity|discriminate].
  - destruct (find_block (f_blocks f') bi); [reflexivity|discriminate].
Qed.

(* ------------------------------------------------------------------ from_address *)
Definition has_addr (p : program) (a : Z) : Prop :=
  exists k f b i, In (k, f) (p_funcs p) /\ In b (f_blocks f) /\ In i (b_instrs b) /\ i_addr i = Some a.

Lemma find_addr_instrs_some bi is_ a l : find_addr_instrs bi is_ a = Some l ->
  exists x, In x is_ /\ i_addr x = Some a /\ l = LInstr bi (i_index x).
Proof.
  induction is_ as [|x t IH]; cbn [find_addr_instrs]; [discriminate|].
  destruct (i_addr x) as [ia|] eqn:Ea.
  - destruct (ia =? a) eqn:E.
    + intros [= <-]. apply Z.eqb_eq in E. subst. exists x. repeat split; auto. left; reflexivity.
    + intros H. destruct (IH H) as (y & Hy & Hy2). exists y. split; [right; exact Hy | exact Hy2].
  - intros H. destruct (IH H) as (y & Hy & Hy2). exists y. split; [right; exact Hy | exact Hy2].
Qed.
Lemma find_addr_instrs_none bi is_ a : find_addr_instrs bi is_ a = None -> forall x, In x is_ -> i_addr x <> Some a.
Proof.
  induction is_ as [|x t IH]; cbn [find_addr_instrs]; [intros _ ? []|].
  destruct (i_addr x) as [ia|] eqn:Ea.
  - destruct (ia =? a) eqn:E; [discriminate|].
    intros H y [<-|Hy]; [rewrite Ea; apply Z.eqb_neq in E; congruence | apply IH; assumption].
  - intros H y [<-|Hy]; [rewrite Ea; discriminate | apply IH; assumption].
Qed.
Lemma find_addr_blocks_some bs a l : find_addr_blocks bs a = Some l ->
  exists b x, In b bs /\ In x (b_instrs b) /\ i_addr x = Some a /\ l = LInstr (b_index b) (i_index x).
Proof.
  induction bs as [|b t IH]; cbn [find_addr_blocks]; [discriminate|].
  destruct (find_addr_instrs (b_index b) (b_instrs b) a) as [l'|] eqn:E.
  - intros [= <-]. apply find_addr_instrs_some in E as (x & Hx & Ha & ->). exists b, x. repeat split; auto. left; reflexivity.
  - intros H. destruct (IH H) as (b' & x & Hb & Hx). exists b', x. split; [right; exact Hb | exact Hx].
Qed.
Lemma find_addr_blocks_none bs a : find_addr_blocks bs a = None ->
  forall b x, In b bs -> In x (b_instrs b) -> i_addr x <> Some a.
Proof.
  induction bs as [|b t IH]; cbn [find_addr_blocks]; [intros _ ? ? []|].
  destruct (find_addr_instrs (b_index b) (b_instrs b) a) as [l'|] eqn:E; [discriminate|].
  intros H b' x [<-|Hb] Hx.
  - eapply find_addr_instrs_none; eassumption.
  - eapply IH; eassumption.
Qed.
Lemma exhaustive_some fs a k l : exhaustive_address fs a = Some (k, l) ->
  exists f b x, In (k, f) fs /\ In b (f_blocks f) /\ In x (b_instrs b) /\ i_addr x = Some a /\ l = LInstr (b_index b) (i_index x).
Proof.
  induction fs as [|[k' f'] t IH]; cbn [exhaustive_address]; [discriminate|].
  destruct (find_addr_blocks (f_blocks f') a) as [l'|] eqn:E.
  - intros [= <- <-]. apply find_addr_blocks_some in E as (b & x & Hb & Hx). exists f', b, x. split; [left; reflexivity | auto].
  - intros H. destruct (IH H) as (f & b & x & Hf & Hr). exists f, b, x. split; [right; exact Hf | exact Hr].
Qed.
Lemma exhaustive_none fs a : exhaustive_address fs a = None ->
  forall k f b x, In (k, f) fs -> In b (f_blocks f) -> In x (b_instrs b) -> i_addr x <> Some a.
Proof.
  induction fs as [|[k' f'] t IH]; cbn [exhaustive_address]; [intros _ ? ? ? ? []|].
  destruct (find_addr_blocks (f_blocks f') a) as [l'|] eqn:E; [discriminate|].
  intros H k f b x [[= -> ->]|Hf] Hb Hx.
  - eapply find_addr_blocks_none; eassumption.
  - eapply IH; eassumption.
Qed.
Lemma closest_in fs a best k f : closest_function fs a best = Some (k, f) -> In (k, f) fs \/ best = Some (k, f).
Proof.
  revert best. induction fs as [|[k' f'] t IH]; intros best; cbn [closest_function]; [auto|].
  destruct (a <? f_addr f').
  - intros H. destruct (IH _ H); auto. left; right; assumption.
  - destruct best as [[bk bf]|].
    + destruct (f_addr bf <? f_addr f'); intros H; destruct (IH _ H) as [H'|H']; auto.
      * left; right; assumption.
      * left; left; congruence.
      * left; right; assumption.
    + intros H. destruct (IH _ H) as [H'|H']; [left; right; assumption | left; left; congruence].
Qed.

Lemma from_address_some p a k l : from_address p a = Some (k, l) ->
  exists f b x, In (k, f) (p_funcs p) /\ In b (f_blocks f) /\ In x (b_instrs b) /\ i_addr x = Some a /\ l = LInstr (b_index b) (i_index x).
Proof.
  unfold from_address. destruct (closest_function (p_funcs p) a None) as [[ck cf]|] eqn:Ec.
  - destruct (find_addr_blocks (f_blocks cf) a) as [l'|] eqn:E.
    + intros [= <- <-]. apply closest_in in Ec as [Hin|Hb]; [|discriminate].
      apply find_addr_blocks_some in E as (b & x & Hb & Hx). exists cf, b, x. auto.
    + apply exhaustive_some.
  - apply exhaustive_some.
Qed.

(* C18, clause 5: address look-up finds an instruction with that address whenever one exists *)
Theorem from_address_complete p a :
  (has_addr p a -> exists k l, from_address p a = Some (k, l)) /\
  (~ has_addr p a -> from_address p a = None).
Proof.
  split.
  - intros (k & f & b & i & Hf & Hb & Hi & Ha).
    destruct (from_address p a) as [[k' l']|] eqn:E; [eauto|]. exfalso.
    assert (Ex : exhaustive_address (p_funcs p) a = None).
    { unfold from_address in E. destruct (closest_function (p_funcs p) a None) as [[ck cf]|]; [|exact E].
      destruct (find_addr_blocks (f_blocks cf) a); [discriminate | exact E]. }
    exact (exhaustive_none _ _ Ex k f b i Hf Hb Hi Ha).
  - intros Hn. destruct (from_address p a) as [[k l]|] eqn:E; [|reflexivity]. exfalso. apply Hn.
    apply from_address_some in E as (f & b & x & Hf & Hb & Hx & Ha & _). exists k, f, b, x. auto.
Qed.

(* ... and what it returns is a valid instruction location of the function reported, whose
   instruction carries the address *)
Theorem from_address_sound p a k l :
  prog_inv p = true -> (forall k f, In (k, f) (p_funcs p) -> cfg_inv (f_cfg f) = true) ->
  from_address p a = Some (k, l) ->
  exists f i, program_function p k = Some f /\ valid_loc f l = true /\
              loc_instruction f l = Some i /\ i_addr i = Some a.
Proof.
  intros Hp Hc E. apply from_address_some in E as (f & b & x & Hf & Hb & Hx & Ha & ->).
  exists f, x. pose proof (Hc k f Hf) as Hinv. split; [exact (proj1 (prog_inv_index p k f Hp Hf))|].
  split; [apply (instr_valid f Hinv); assumption|]. split; [|exact Ha].
  cbn [loc_instruction]. rewrite (fb_in f Hinv b Hb). unfold block_instruction.
  apply in_split in Hx as (pre & post & Es).
  apply (find_instr_in _ pre x post Es). exact (proj1 (split_nodup f Hinv b pre x post Hb Es)).
Qed.
