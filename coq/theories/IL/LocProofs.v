(* IL/LocProofs.v -- property C18: theorems about the location model of IL/Loc.v.
   Extra definitions used by the statements (valid_loc, step, prog_inv, migrate, reachability on the
   static cfg) come first; they are candidates for IL/Loc.v (integrator). *)
From Coq Require Import ZArith List Bool NArith Lia.
From Falcon Require Import Base.Res IL.Const IL.Expr IL.Func IL.Loc.
Import ListNotations.
Local Open Scope Z_scope.

(* ------------------------------------------------------------------ definitions *)

(* RefProgramLocation::migrate (lib/il/location.rs): re-resolve a location of [f] in program [p].
   self.function().index().unwrap() panics for a function outside a program; a missing function or
   instruction is Error::FalconInternal (EOther); block / edge look-ups keep the graph errors. *)
Definition migrate (p : program) (f : func) (l : floc) : res (Z * floc) :=
  match f_index f with
  | None => Panic
  | Some fi =>
      match program_function p fi with
      | None => Err EOther
      | Some f' =>
          match l with
          | LInstr bi ii =>
              b <- f_block f' bi ;;
              match block_instruction b ii with Some _ => Ok (fi, l) | None => Err EOther end
          | LEdge h t => _ <- f_edge f' h t ;; Ok (fi, l)
          | LEmpty bi => _ <- f_block f' bi ;; Ok (fi, l)
          end
      end
  end.

(* Program::add_function keeps  key = function.index()  and the BTreeMap keeps keys ascending *)
Definition prog_inv (p : program) : bool :=
  sorted_by fst (p_funcs p) && forallb (fun kf => optZ_eqb (f_index (snd kf)) (Some (fst kf))) (p_funcs p).

(* a location that can exist as a RefFunctionLocation produced by the library (locations(),
   forward(), backward(), from_address, from_function): the block / instruction / edge exists and an
   EmptyBlock location names an empty block.  (FunctionLocation::apply does not check emptiness:
   [resolves] below is what apply accepts.) *)
Definition valid_loc (f : func) (l : floc) : bool :=
  match l with
  | LInstr bi ii =>
      match find_block (f_blocks f) bi with
      | Some b => match block_instruction b ii with Some _ => true | None => false end
      | None => false
      end
  | LEdge h t => match find_edge (f_edges f) h t with Some _ => true | None => false end
  | LEmpty bi => match find_block (f_blocks f) bi with Some b => block_is_empty b | None => false end
  end.

Definition resolves (f : func) (l : floc) : bool :=
  match floc_apply f l with Ok _ => true | _ => false end.

(* one step of the location graph, stated on the static structure (specification of forward/backward) *)
Inductive step (f : func) : floc -> floc -> Prop :=
| st_next b pre x y post :
    In b (f_blocks f) -> b_instrs b = pre ++ x :: y :: post ->
    step f (LInstr (b_index b) (i_index x)) (LInstr (b_index b) (i_index y))
| st_out b e :
    In b (f_blocks f) -> In e (f_edges f) -> e_head e = b_index b ->
    step f (block_last_loc b) (LEdge (e_head e) (e_tail e))
| st_in b e :
    In b (f_blocks f) -> In e (f_edges f) -> e_tail e = b_index b ->
    step f (LEdge (e_head e) (e_tail e)) (block_first_loc b).

(* blocks reachable from the entry block along edges of the static cfg *)
Inductive breach (g : cfg) : Z -> Prop :=
| br_entry e : g_entry g = Some e -> breach g e
| br_step h e : breach g h -> In e (g_edges g) -> e_head e = h -> breach g (e_tail e).

(* the location lies on a path from the entry block: its block (for an edge: its head) is reachable *)
Definition loc_block (l : floc) : Z := match l with LInstr b _ => b | LEmpty b => b | LEdge h _ => h end.
Definition on_entry_path (f : func) (l : floc) : Prop := breach (f_cfg f) (loc_block l).

(* closure of the entry location under forward *)
Inductive fclosure (f : func) : floc -> Prop :=
| fc_entry l : from_function f = Some (Ok l) -> fclosure f l
| fc_step a l b : fclosure f a -> forward f a = Ok l -> In b l -> fclosure f b.

(* ------------------------------------------------------------------ basic facts *)

Lemma floc_eqb_eq a b : floc_eqb a b = true <-> a = b.
Proof.
  destruct a, b; cbn; try (split; congruence);
    rewrite ?andb_true_iff, ?Z.eqb_eq; split; try (intros [? ?]; congruence); try congruence;
    try (intros E; inversion E; auto).
Qed.

Lemma sorted_by_cons {A} (key : A -> Z) x t :
  sorted_by key (x :: t) = true -> sorted_by key t = true /\ forall y, In y t -> key x < key y.
Proof.
  revert x; induction t as [|y t IH]; intros x Hs.
  - split; [reflexivity | intros ? []].
  - cbn [sorted_by] in Hs. apply andb_true_iff in Hs as [Hxy Ht].
    split; [exact Ht|]. apply Z.ltb_lt in Hxy.
    intros z [<-|Hz]; [exact Hxy|].
    destruct (IH y Ht) as [_ Hall]. specialize (Hall z Hz). lia.
Qed.

Definition elt (x y : edge) : Prop :=
  e_head x < e_head y \/ (e_head x = e_head y /\ e_tail x < e_tail y).

Lemma edges_sorted_cons x t :
  edges_sorted (x :: t) = true -> edges_sorted t = true /\ forall y, In y t -> elt x y.
Proof.
  revert x; induction t as [|y t IH]; intros x Hs.
  - split; [reflexivity | intros ? []].
  - cbn [edges_sorted] in Hs. apply andb_true_iff in Hs as [Hxy Ht].
    split; [exact Ht|].
    assert (Exy : elt x y).
    { unfold elt. apply orb_true_iff in Hxy as [H|H].
      - left. apply Z.ltb_lt in H; exact H.
      - right. apply andb_true_iff in H as [H1 H2]. apply Z.eqb_eq in H1. apply Z.ltb_lt in H2. split; assumption. }
    intros z [<-|Hz]; [exact Exy|].
    destruct (IH y Ht) as [_ Hall]. specialize (Hall z Hz). unfold elt in *. lia.
Qed.

Lemma find_block_some bs i b : find_block bs i = Some b -> In b bs /\ b_index b = i.
Proof.
  induction bs as [|x t IH]; cbn; [discriminate|].
  destruct (b_index x =? i) eqn:E.
  - intros [= <-]. apply Z.eqb_eq in E. auto.
  - intros H. destruct (IH H). auto.
Qed.

Lemma find_block_none bs i : find_block bs i = None -> forall b, In b bs -> b_index b <> i.
Proof.
  induction bs as [|x t IH]; cbn; [intros _ ? []|].
  destruct (b_index x =? i) eqn:E; [discriminate|].
  intros H b [<-|Hb]; [apply Z.eqb_neq; exact E | apply IH; assumption].
Qed.

Lemma find_block_in bs b : sorted_by b_index bs = true -> In b bs -> find_block bs (b_index b) = Some b.
Proof.
  induction bs as [|x t IH]; intros Hs Hin; [destruct Hin|].
  apply sorted_by_cons in Hs as [Ht Hall]. cbn.
  destruct Hin as [->|Hin].
  - rewrite Z.eqb_refl. reflexivity.
  - specialize (Hall b Hin). destruct (b_index x =? b_index b) eqn:E; [apply Z.eqb_eq in E; lia|].
    apply IH; assumption.
Qed.

Lemma find_edge_some es h t e : find_edge es h t = Some e -> In e es /\ e_head e = h /\ e_tail e = t.
Proof.
  induction es as [|x r IH]; cbn; [discriminate|].
  destruct ((e_head x =? h) && (e_tail x =? t)) eqn:E.
  - intros [= <-]. apply andb_true_iff in E as [E1 E2]. apply Z.eqb_eq in E1, E2. auto.
  - intros H. destruct (IH H) as (? & ? & ?). auto.
Qed.

Lemma find_edge_none es h t : find_edge es h t = None -> forall e, In e es -> ~ (e_head e = h /\ e_tail e = t).
Proof.
  induction es as [|x r IH]; cbn; [intros _ ? []|].
  destruct ((e_head x =? h) && (e_tail x =? t)) eqn:E; [discriminate|].
  intros H e [<-|He].
  - intros [E1 E2]. rewrite <- Z.eqb_eq in E1, E2. rewrite E1, E2 in E. discriminate.
  - apply IH; assumption.
Qed.

Lemma find_edge_in es e : edges_sorted es = true -> In e es -> find_edge es (e_head e) (e_tail e) = Some e.
Proof.
  induction es as [|x r IH]; intros Hs Hin; [destruct Hin|].
  apply edges_sorted_cons in Hs as [Ht Hall]. cbn.
  destruct Hin as [->|Hin].
  - rewrite !Z.eqb_refl. reflexivity.
  - specialize (Hall e Hin).
    destruct ((e_head x =? e_head e) && (e_tail x =? e_tail e)) eqn:E.
    + apply andb_true_iff in E as [E1 E2]. apply Z.eqb_eq in E1, E2. unfold elt in Hall. lia.
    + apply IH; assumption.
Qed.

(* instruction look-up by index field *)
Lemma find_instr_split is_ i x :
  find_instr is_ i = Some x ->
  exists pre post, is_ = pre ++ x :: post /\ i_index x = i /\ forall z, In z pre -> i_index z <> i.
Proof.
  induction is_ as [|y t IH]; cbn; [discriminate|].
  destruct (i_index y =? i) eqn:E.
  - intros [= <-]. exists [], t. apply Z.eqb_eq in E. repeat split; auto; try (intros ? []).
  - intros H. destruct (IH H) as (pre & post & -> & Hi & Hpre).
    exists (y :: pre), post. repeat split; auto.
    intros z [<-|Hz]; [apply Z.eqb_neq; exact E | auto].
Qed.

Lemma find_instr_none is_ i : find_instr is_ i = None -> forall z, In z is_ -> i_index z <> i.
Proof.
  induction is_ as [|y t IH]; cbn; [intros _ ? []|].
  destruct (i_index y =? i) eqn:E; [discriminate|].
  intros H z [<-|Hz]; [apply Z.eqb_neq; exact E | auto].
Qed.

Lemma nodupZ_cons x t : nodupZ (x :: t) = true -> ~ In x t /\ nodupZ t = true.
Proof.
  cbn. intros H. apply andb_true_iff in H as [H1 H2]. split; [|exact H2].
  intros Hin. apply negb_true_iff in H1.
  assert (existsb (Z.eqb x) t = true) by (apply existsb_exists; exists x; split; [exact Hin | apply Z.eqb_refl]).
  congruence.
Qed.

Lemma nodupZ_NoDup l : nodupZ l = true -> NoDup l.
Proof.
  induction l as [|x t IH]; intros H; [constructor|].
  apply nodupZ_cons in H as [H1 H2]. constructor; auto.
Qed.

Lemma nodup_app_cons_l (pre : list instruction) x post :
  NoDup (map i_index (pre ++ x :: post)) ->
  (forall z, In z pre -> i_index z <> i_index x) /\ (forall z, In z post -> i_index z <> i_index x).
Proof.
  rewrite map_app. cbn [map]. intros H.
  apply NoDup_remove_2 in H. split; intros z Hz E; apply H; apply in_or_app; [left|right];
    rewrite <- E; apply in_map; exact Hz.
Qed.

Lemma find_instr_in is_ pre x post :
  is_ = pre ++ x :: post -> (forall z, In z pre -> i_index z <> i_index x) ->
  find_instr is_ (i_index x) = Some x.
Proof.
  intros -> Hpre. induction pre as [|y t IH]; cbn.
  - rewrite Z.eqb_refl. reflexivity.
  - destruct (i_index y =? i_index x) eqn:E.
    + apply Z.eqb_eq in E. exfalso. apply (Hpre y); [left; reflexivity | exact E].
    + apply IH. intros z Hz. apply Hpre. right; exact Hz.
Qed.

(* ------------------------------------------------------------------ cfg_inv, unpacked *)
Record cfg_wf (g : cfg) : Prop := {
  wf_blocks : sorted_by b_index (g_blocks g) = true;
  wf_edges : edges_sorted (g_edges g) = true;
  wf_ends : forall e, In e (g_edges g) -> has_block g (e_head e) = true /\ has_block g (e_tail e) = true;
  wf_instrs : forall b, In b (g_blocks g) -> NoDup (map i_index (b_instrs b));
  wf_entry : forall i, g_entry g = Some i -> has_block g i = true }.

Lemma cfg_inv_wf g : cfg_inv g = true -> cfg_wf g.
Proof.
  unfold cfg_inv. rewrite !andb_true_iff. intros [[[[[H1 H2] H3] H4] H5] H6].
  constructor; auto.
  - intros e He. rewrite forallb_forall in H3. specialize (H3 e He). apply andb_true_iff in H3. exact H3.
  - intros b Hb. rewrite forallb_forall in H4. specialize (H4 b Hb).
    rewrite !andb_true_iff in H4. destruct H4 as [[[H4 _] _] _]. apply nodupZ_NoDup; exact H4.
  - intros i Hi. rewrite Hi in H5. exact H5.
Qed.

Lemma has_block_find g i : has_block g i = true -> exists b, find_block (g_blocks g) i = Some b.
Proof. unfold has_block. destruct (find_block (g_blocks g) i); [eauto | discriminate]. Qed.

Lemma in_has_block g b : sorted_by b_index (g_blocks g) = true -> In b (g_blocks g) -> has_block g (b_index b) = true.
Proof. intros Hs Hb. unfold has_block. rewrite (find_block_in _ _ Hs Hb). reflexivity. Qed.
