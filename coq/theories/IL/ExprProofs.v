(* IL/ExprProofs.v -- proofs about Expr.v (operator dispatch, checked constructors, eval,
   replace_scalar, the derived builders sra / rotl) against ExprSpec.v.
   Proofs only, except for the small statement vocabulary right below (rbounded, env1, env_ok)
   and two proof devices (wf, eden) that never occur in a Props/C04.v statement. *)
From Coq Require Import ZArith List Bool NArith Lia ZifyBool.
From Falcon Require Import Base.Res IL.Const IL.ConstSpec IL.Expr IL.ExprSpec IL.ConstProofs.
Local Open Scope Z_scope.
Ltac Zify.zify_post_hook ::= Z.div_mod_to_equations.

(* ---------- statement vocabulary ---------- *)

(* every width mentioned in the raw tree fits a usize (Rust: `bits: usize`) *)
Fixpoint rbounded (r : rexpr) : Prop :=
  match r with
  | RScalar s => sbits s < USIZE
  | RConst _ w => w < USIZE
  | RBin _ l r | RSra l r | RRotl l r => rbounded l /\ rbounded r
  | RExt _ bits e => bits < USIZE /\ rbounded e
  | RIte c t e => rbounded c /\ rbounded t /\ rbounded e
  end.

(* the environment binding exactly the scalar s *)
Definition env1 (s : scalar) (c : const) : env := fun t => if scalar_eqb t s then Some c else None.

(* environments bind scalars to in-range constants of the scalar's width *)
Definition env_ok (en : env) : Prop :=
  forall s c, en s = Some c -> cbits c = sbits s /\ inr (cbits c) (cval c).

(* ---------- operator dispatch ---------- *)

Theorem c_bin_spec : forall o w a b, 1 <= w < 2 ^ 64 -> inr w a -> inr w b ->
  c_bin o (mkc w a) (mkc w b) = sp_bin o w a b.
Proof.
  intros o w a b Hw Ha Hb. destruct o; cbn [c_bin sp_bin].
  - apply c_add_spec; lia.
  - apply c_sub_spec; (lia || assumption).
  - apply c_mul_spec; lia.
  - apply c_divu_spec; (lia || assumption).
  - apply c_modu_spec; (lia || assumption).
  - apply c_divs_spec; (lia || assumption).
  - apply c_mods_spec; (lia || assumption).
  - apply c_and_spec; (lia || assumption).
  - apply c_or_spec; (lia || assumption).
  - apply c_xor_spec; (lia || assumption).
  - apply c_shl_spec; (lia || assumption).
  - apply c_shr_spec; (lia || assumption).
  - apply c_ashr_spec; (lia || assumption).
  - apply c_cmpeq_spec.
  - apply c_cmpneq_spec.
  - apply c_cmplts_spec; (lia || assumption).
  - apply c_cmpltu_spec.
Qed.

(* the usize bound is only needed by the three shifts *)
Definition is_shift (o : binop) : bool := match o with Shl | Shr | AShr => true | _ => false end.

Theorem c_bin_spec_noshift : forall o w a b, is_shift o = false -> 1 <= w -> inr w a -> inr w b ->
  c_bin o (mkc w a) (mkc w b) = sp_bin o w a b.
Proof.
  intros o w a b Hs Hw Ha Hb. destruct o; try discriminate Hs; cbn [c_bin sp_bin].
  - apply c_add_spec; lia.
  - apply c_sub_spec; (lia || assumption).
  - apply c_mul_spec; lia.
  - apply c_divu_spec; (lia || assumption).
  - apply c_modu_spec; (lia || assumption).
  - apply c_divs_spec; (lia || assumption).
  - apply c_mods_spec; (lia || assumption).
  - apply c_and_spec; (lia || assumption).
  - apply c_or_spec; (lia || assumption).
  - apply c_xor_spec; (lia || assumption).
  - apply c_cmpeq_spec.
  - apply c_cmpneq_spec.
  - apply c_cmplts_spec; (lia || assumption).
  - apply c_cmpltu_spec.
Qed.

Theorem c_bin_sort_error : forall o a b, cbits a <> cbits b -> c_bin o a b = Err ESort.
Proof.
  intros o a b H. apply Z.eqb_neq in H.
  destruct o; cbn [c_bin];
    unfold c_add, c_sub, c_mul, c_divu, c_modu, c_divs, c_mods, c_and, c_or, c_xor, c_shl, c_shr, c_ashr,
           c_cmpeq, c_cmpneq, c_cmplts, c_cmpltu, same_sort; rewrite H; reflexivity.
Qed.

Theorem c_ext_spec : forall o bits w a, 1 <= w -> 1 <= bits -> inr w a ->
  c_ext o bits (mkc w a) = sp_ext o bits (mkc w a).
Proof.
  intros o bits w a Hw Hb Ha. destruct o; cbn [c_ext sp_ext cbits cval].
  - apply c_zext_spec; (lia || assumption).
  - apply c_sext_spec; (lia || assumption).
  - apply c_trun_spec; lia.
Qed.

(* ---------- results are in range; no panic ---------- *)

(* "every Ok result has width w' and an in-range value", compositionally over the model's control flow *)
Definition good (w : Z) (r : res const) : Prop := forall c, r = Ok c -> cbits c = w /\ inr w (cval c).

Lemma good_new_big x w : 0 <= w -> good w (Ok (new_big x w)).
Proof. intros Hw c E. injection E as <-. cbn [new_big cbits cval]. split; [reflexivity|apply trim_inr; assumption]. Qed.
Lemma good_c1 b : good 1 (Ok (c1 b)).
Proof. apply good_new_big. lia. Qed.
Lemma good_err w e : good w (Err e).
Proof. intros c E. discriminate E. Qed.
Lemma good_if w (c : bool) x y : good w x -> good w y -> good w (if c then x else y).
Proof. destruct c; auto. Qed.
Lemma good_bind {A} w (r : res A) f : (forall x, good w (f x)) -> good w (bind r f).
Proof. intros H. destruct r; cbn [bind]; [apply H|apply good_err|intros c E; discriminate E]. Qed.

Ltac good_tac :=
  repeat (apply good_if || (apply good_bind; intro) || apply good_err
          || (apply good_new_big; lia) || apply good_c1).

Theorem c_bin_inr : forall o w a b c, 0 <= w -> c_bin o (mkc w a) (mkc w b) = Ok c ->
  cbits c = (if is_cmp o then 1 else w) /\ inr (cbits c) (cval c).
Proof.
  intros o w a b c Hw E.
  assert (G : good (if is_cmp o then 1 else w) (c_bin o (mkc w a) (mkc w b))).
  { destruct o; cbn [c_bin is_cmp];
      unfold c_add, c_sub, c_mul, c_divu, c_modu, c_divs, c_mods, c_and, c_or, c_xor, c_shl, c_shr, c_ashr,
             c_cmpeq, c_cmpneq, c_cmplts, c_cmpltu; cbv zeta; cbn [cbits cval]; good_tac. }
  destruct (G c E) as [G1 G2]. split; [assumption|]. rewrite G1. assumption.
Qed.

Theorem c_ext_inr : forall o bits a c, 0 <= bits -> c_ext o bits a = Ok c ->
  cbits c = bits /\ inr (cbits c) (cval c).
Proof.
  intros o bits a c Hb E.
  assert (G : good bits (c_ext o bits a)).
  { destruct o; cbn [c_ext]; unfold c_zext, c_sext, c_trun; cbv zeta; good_tac. }
  destruct (G c E) as [G1 G2]. split; [assumption|]. rewrite G1. assumption.
Qed.

Definition np {A} (r : res A) : Prop := r <> Panic.
Lemma np_ok {A} (x : A) : np (Ok x). Proof. discriminate. Qed.
Lemma np_err {A} e : np (@Err A e). Proof. discriminate. Qed.
Lemma np_if {A} (c : bool) (x y : res A) : np x -> np y -> np (if c then x else y).
Proof. destruct c; auto. Qed.
Lemma np_bind {A B} (r : res A) (f : A -> res B) : np r -> (forall x, np (f x)) -> np (bind r f).
Proof. intros H K. destruct r; cbn [bind]; [apply K|apply np_err|exfalso; apply H; reflexivity]. Qed.
Lemma np_usub a b : b <= a -> np (usub a b).
Proof. intros. rewrite usub_ok by assumption. apply np_ok. Qed.
Lemma np_to_bigint c : 1 <= cbits c -> np (to_bigint c).
Proof. intros. unfold to_bigint. apply np_bind; [apply np_usub; assumption|intro; apply np_if; apply np_ok]. Qed.

Ltac np_tac :=
  repeat ((apply np_usub; cbn [cbits]; lia) || (apply np_to_bigint; cbn [cbits]; lia)
          || apply np_if || (apply np_bind; [|intro]) || apply np_err || apply np_ok).

Theorem c_bin_no_panic : forall o w a b, 1 <= w -> c_bin o (mkc w a) (mkc w b) <> Panic.
Proof.
  intros o w a b Hw. change (np (c_bin o (mkc w a) (mkc w b))).
  destruct o; cbn [c_bin];
    unfold c_add, c_sub, c_mul, c_divu, c_modu, c_divs, c_mods, c_and, c_or, c_xor, c_shl, c_shr, c_ashr,
           c_cmpeq, c_cmpneq, c_cmplts, c_cmpltu; cbv zeta; np_tac.
Qed.

Theorem c_ext_no_panic : forall o bits w a, 1 <= w -> c_ext o bits (mkc w a) <> Panic.
Proof.
  intros o bits w a Hw. change (np (c_ext o bits (mkc w a))).
  destruct o; cbn [c_ext]; unfold c_zext, c_sext, c_trun; cbv zeta; np_tac.
Qed.

Theorem no_panic : forall w a b, 1 <= w ->
  (forall o, c_bin o (mkc w a) (mkc w b) <> Panic) /\ (forall o bits, c_ext o bits (mkc w a) <> Panic).
Proof.
  intros w a b Hw. split; intros.
  - apply c_bin_no_panic; assumption.
  - apply c_ext_no_panic; assumption.
Qed.

(* specification-level results are in range (through the model) *)
Lemma sp_bin_good o w a b c : 1 <= w < 2 ^ 64 -> inr w a -> inr w b -> sp_bin o w a b = Ok c ->
  cbits c = (if is_cmp o then 1 else w) /\ inr (cbits c) (cval c).
Proof.
  intros Hw Ha Hb E. rewrite <- c_bin_spec in E by assumption. eapply c_bin_inr; [|eassumption]. lia.
Qed.

Lemma sp_ext_good o bits w a c : 1 <= w -> 1 <= bits -> inr w a -> sp_ext o bits (mkc w a) = Ok c ->
  cbits c = bits /\ inr (cbits c) (cval c).
Proof.
  intros Hw Hb Ha E. rewrite <- c_ext_spec in E by assumption. eapply c_ext_inr; [|eassumption]. lia.
Qed.

(* ---------- well-formed expressions and their specification-level denotation ---------- *)

Fixpoint wf (e : expr) : Prop :=
  match e with
  | EScalar s => 1 <= sbits s < 2 ^ 64
  | EConst c => 1 <= cbits c < 2 ^ 64 /\ inr (cbits c) (cval c)
  | EBin o l r => wf l /\ wf r /\ e_bits l = e_bits r
  | EExt Trun bits x => wf x /\ 1 <= bits < e_bits x
  | EExt _ bits x => wf x /\ e_bits x < bits < 2 ^ 64
  | EIte c t f => wf c /\ wf t /\ wf f /\ e_bits c = 1 /\ e_bits t = e_bits f
  end.

Fixpoint eden (en : env) (e : expr) : res const :=
  match e with
  | EScalar s => match en s with Some c => Ok c | None => Err EExecScalar end
  | EConst c => Ok c
  | EBin o l r => a <- eden en l ;; b <- eden en r ;; sp_bin o (cbits a) (cval a) (cval b)
  | EExt o bits x => a <- eden en x ;; sp_ext o bits a
  | EIte c t f => cv <- eden en c ;; if cval cv =? 1 then eden en t else eden en f
  end.

Lemma wf_bits e : wf e -> 1 <= e_bits e < 2 ^ 64.
Proof.
  induction e as [s|c|o l IHl r IHr|o bits x IHx|c IHc t IHt f IHf]; cbn [wf e_bits].
  - auto.
  - tauto.
  - intros (Hl & Hr & E). specialize (IHl Hl). destruct (is_cmp o); lia.
  - destruct o; intros (Hx & B); specialize (IHx Hx); lia.
  - intros (Hc & Ht & Hf & E1 & E2). auto.
Qed.

Lemma eden_good en e : env_ok en -> wf e ->
  forall c, eden en e = Ok c -> cbits c = e_bits e /\ inr (cbits c) (cval c).
Proof.
  intros Hen.
  induction e as [s|c|o l IHl r IHr|o bits x IHx|c IHc t IHt f IHf]; cbn [wf e_bits eden]; intros W k E.
  - destruct (en s) as [c|] eqn:Es; [|discriminate E]. injection E as <-. apply Hen. assumption.
  - injection E as <-. tauto.
  - destruct W as (Wl & Wr & Eb).
    destruct (eden en l) as [a| |]; [|discriminate E|discriminate E].
    destruct (eden en r) as [b| |]; [|discriminate E|discriminate E]. cbn [bind] in E.
    destruct (IHl Wl a eq_refl) as [A1 A2]. destruct (IHr Wr b eq_refl) as [B1 B2].
    pose proof (wf_bits l Wl) as Bl. rewrite <- Eb, <- A1 in B1. rewrite B1 in B2.
    rewrite <- A1. eapply sp_bin_good; [| | |exact E]; (assumption || lia).
  - assert (Wx : wf x) by (destruct o; tauto).
    pose proof (wf_bits x Wx) as Bx.
    destruct (eden en x) as [a| |]; [|discriminate E|discriminate E]. cbn [bind] in E.
    destruct (IHx Wx a eq_refl) as [A1 A2]. destruct a as [aw av]. cbn [cbits cval] in *.
    eapply sp_ext_good; [| | |exact E]; [lia| |assumption]. destruct o; lia.
  - destruct W as (Wc & Wt & Wf & E1 & E2).
    destruct (eden en c) as [cv| |]; [|discriminate E|discriminate E]. cbn [bind] in E.
    destruct (cval cv =? 1); [apply IHt; assumption|]. rewrite E2. apply IHf; assumption.
Qed.

Lemma env_none_ok : env_ok (fun _ => None).
Proof. intros s c E. discriminate E. Qed.

Lemma eval_eden e : wf e -> eval e = eden (fun _ => None) e.
Proof.
  induction e as [s|c|o l IHl r IHr|o bits x IHx|c IHc t IHt f IHf]; cbn [wf eval eden]; intros W.
  - reflexivity.
  - reflexivity.
  - destruct W as (Wl & Wr & Eb). rewrite (IHl Wl), (IHr Wr).
    destruct (eden _ l) as [a| |] eqn:El; cbn [bind]; try reflexivity.
    destruct (eden _ r) as [b| |] eqn:Er; cbn [bind]; try reflexivity.
    destruct (eden_good _ l env_none_ok Wl a El) as [A1 A2].
    destruct (eden_good _ r env_none_ok Wr b Er) as [B1 B2].
    pose proof (wf_bits l Wl) as Bl.
    destruct a as [aw av], b as [bw bv]. cbn [cbits cval] in A1, A2, B1, B2 |- *.
    subst aw bw. rewrite <- Eb in B2 |- *. apply c_bin_spec; (assumption || lia).
  - assert (Wx : wf x) by (destruct o; tauto). rewrite (IHx Wx).
    destruct (eden _ x) as [a| |] eqn:Ex; cbn [bind]; try reflexivity.
    destruct (eden_good _ x env_none_ok Wx a Ex) as [A1 A2].
    pose proof (wf_bits x Wx) as Bx.
    destruct a as [aw av]. cbn [cbits cval] in *.
    apply c_ext_spec; [lia| |assumption]. destruct o; lia.
  - destruct W as (Wc & Wt & Wf & E1 & E2). rewrite (IHc Wc), (IHt Wt), (IHf Wf). reflexivity.
Qed.

(* ---------- checked constructors on well-formed arguments ---------- *)

Lemma mk_bin_ok o l r : e_bits l = e_bits r -> mk_bin o l r = Ok (EBin o l r).
Proof. intros E. unfold mk_bin. rewrite E, Z.eqb_refl. reflexivity. Qed.

Lemma mk_bin_err o l r : e_bits l <> e_bits r -> mk_bin o l r = Err ESort.
Proof. intros E. unfold mk_bin. apply Z.eqb_neq in E. rewrite E. reflexivity. Qed.

Lemma mk_ite_ok c t f : e_bits c = 1 -> e_bits t = e_bits f -> mk_ite c t f = Ok (EIte c t f).
Proof. intros E1 E2. unfold mk_ite. rewrite E1, E2, !Z.eqb_refl. reflexivity. Qed.

Lemma mk_ext_ok o bits x : 1 <= e_bits x ->
  match o with Trun => bits < e_bits x | _ => e_bits x < bits end ->
  mk_ext o bits x = Ok (EExt o bits x).
Proof.
  intros H1 H2. unfold mk_ext.
  destruct o; destruct (Z.eqb_spec (e_bits x) 0); try lia;
    match goal with |- context [?a <=? ?b] => destruct (Z.leb_spec a b) end; try lia; reflexivity.
Qed.

Lemma expr_const_spec v w : 0 <= w -> expr_const v w = EConst (mkc w (U w v)).
Proof. intros. unfold expr_const. rewrite new_big_spec by assumption. reflexivity. Qed.

Lemma scalar_eqb_bits t s : scalar_eqb t s = true -> sbits t = sbits s.
Proof.
  unfold scalar_eqb. intros H. apply andb_prop in H as [H _]. apply andb_prop in H as [_ H].
  apply Z.eqb_eq. assumption.
Qed.

(* ---------- replace_scalar ---------- *)

Lemma replace_ok en s c e : wf e -> wf (EConst c) -> cbits c = sbits s ->
  exists e', replace_scalar e s (EConst c) = Ok e' /\ wf e' /\ e_bits e' = e_bits e /\
             eden en e' = eden (fun t => if scalar_eqb t s then Some c else en t) e.
Proof.
  intros W Wc Ec.
  induction e as [t|k|o l IHl r IHr|o bits x IHx|g IHg t IHt f IHf]; cbn [wf replace_scalar] in *.
  - destruct (scalar_eqb t s) eqn:Ets.
    + exists (EConst c). cbn [eden e_bits]. rewrite Ets.
      split; [reflexivity|]. split; [exact Wc|]. split; [|reflexivity].
      rewrite Ec. symmetry. apply scalar_eqb_bits. assumption.
    + exists (EScalar t). cbn [eden e_bits wf]. rewrite Ets. auto.
  - exists (EConst k). cbn [eden wf]. auto.
  - destruct W as (Wl & Wr & Eb).
    destruct (IHl Wl) as (l' & Rl & Wl' & Bl & Dl). destruct (IHr Wr) as (r' & Rr & Wr' & Br & Dr).
    rewrite Rl, Rr. cbn [bind]. rewrite mk_bin_ok by congruence.
    exists (EBin o l' r'). cbn [wf e_bits eden]. rewrite Dl, Dr, Bl. repeat split; (assumption || congruence).
  - assert (Wx : wf x) by (destruct o; tauto).
    destruct (IHx Wx) as (x' & Rx & Wx' & Bx & Dx). rewrite Rx. cbn [bind].
    pose proof (wf_bits x Wx) as Bb.
    rewrite mk_ext_ok by (rewrite Bx; destruct o; lia).
    exists (EExt o bits x'). cbn [wf e_bits eden]. rewrite Dx, Bx. repeat split; trivial.
    destruct o; tauto.
  - destruct W as (Wg & Wt & Wf & E1 & E2).
    destruct (IHg Wg) as (g' & Rg & Wg' & Bg & Dg). destruct (IHt Wt) as (t' & Rt & Wt' & Bt & Dt).
    destruct (IHf Wf) as (f' & Rf & Wf' & Bf & Df).
    rewrite Rg, Rt, Rf. cbn [bind]. rewrite mk_ite_ok by congruence.
    exists (EIte g' t' f'). cbn [wf e_bits eden]. rewrite Dg, Dt, Df. repeat split; (assumption || congruence).
Qed.

(* ---------- arithmetic of the derived builders ---------- *)

Lemma U_ones64 w : 0 <= w <= 64 -> U w 18446744073709551615 = 2 ^ w - 1.
Proof.
  intros Hw. change 18446744073709551615 with (2 ^ 64 - 1).
  pose proof (pow_pos w ltac:(lia)) as P.
  apply (U_unique w _ _ (2 ^ (64 - w) - 1)); [lia| |unfold inr; lia].
  rewrite (pow_split 64 w) by lia. lia.
Qed.

Lemma mask_val w b : 1 <= w -> 0 <= b <= w -> s_shl w (2 ^ w - 1) (w - b) = (2 ^ b - 1) * 2 ^ (w - b).
Proof.
  intros Hw Hb. unfold s_shl. pose proof (pow_split w b Hb) as E.
  pose proof (pow_pos b ltac:(lia)) as P. pose proof (pow_pos (w - b) ltac:(lia)) as Q.
  destruct (Z.leb_spec w (w - b)).
  - assert (b = 0) by lia. subst b. change (2 ^ 0) with 1. lia.
  - apply (U_unique w _ _ (2 ^ (w - b) - 1)); [lia| |].
    + rewrite E. ring.
    + unfold inr. rewrite E. nia.
Qed.

Lemma sra_arith w a b : 1 <= w -> inr w a -> inr w b ->
  s_or w (s_shr w a b)
       (if s_cmplts w a 0 =? 1
        then s_shl w (2 ^ w - 1) (if s_cmpltu w w b =? 1 then 0 else s_sub w w b)
        else 0) = s_ashr w a b.
Proof.
  intros Hw Ha Hb. pose proof Ha as [A0 A1]. pose proof Hb as [B0 B1].
  unfold s_or, s_cmplts, s_cmpltu, s_ashr. rewrite (S_zero w Hw).
  pose proof (pow_half w Hw) as PH. pose proof (pow_pos (w - 1) ltac:(lia)) as PP.
  unfold S. destruct (Z.ltb_spec a (2 ^ (w - 1))) as [La|La].
  - destruct (Z.ltb_spec a 0); [lia|]. cbn [Z.eqb]. rewrite Z.lor_0_r. unfold s_shr.
    destruct (Z.leb_spec w b); [reflexivity|]. symmetry. apply U_small. apply div_pow_inr; assumption.
  - destruct (Z.ltb_spec (a - 2 ^ w) 0); [|lia]. cbn [Z.eqb Pos.eqb].
    destruct (Z.ltb_spec w b) as [Lb|Lb]; cbn [Z.eqb Pos.eqb].
    + unfold s_shr, s_shl. destruct (Z.leb_spec w b); [|lia]. destruct (Z.leb_spec w 0); [lia|].
      change (2 ^ 0) with 1. rewrite Z.mul_1_r, Z.lor_0_l. apply U_small. unfold inr; lia.
    + unfold s_sub. rewrite (U_small w (w - b)) by (pose proof (lt_pow2 w ltac:(lia)); unfold inr; lia).
      rewrite mask_val by lia.
      assert (SH : s_shr w a b = a / 2 ^ b).
      { unfold s_shr. destruct (Z.leb_spec w b); [|reflexivity]. symmetry.
        apply (div_pow_small w); [assumption|lia]. }
      rewrite SH. rewrite lor_lo_hi by (lia || (apply div_pow_lt; (lia || assumption))).
      destruct (Z.leb_spec w b).
      * assert (b = w) by lia. subst b. rewrite (div_pow_small w a w) by (assumption || lia).
        replace (w - w) with 0 by lia. change (2 ^ 0) with 1. lia.
      * rewrite ashr_neg_arith by (assumption || lia). lia.
Qed.

Lemma rotl_arith w a b : 1 <= w -> inr w a -> 0 <= b <= w ->
  s_or w (s_shl w a b) (s_shr w a (s_sub w w b)) = s_rotl w a b.
Proof.
  intros Hw Ha Hb. pose proof Ha as [A0 A1].
  unfold s_or, s_sub, s_rotl.
  rewrite (U_small w (w - b)) by (pose proof (lt_pow2 w ltac:(lia)); unfold inr; lia).
  unfold s_shl, s_shr.
  pose proof (pow_pos w ltac:(lia)) as PW.
  destruct (Z.leb_spec w b).
  - assert (b = w) by lia. subst b. replace (w - w) with 0 by lia. destruct (Z.leb_spec w 0); [lia|].
    change (2 ^ 0) with 1. rewrite Z.div_1_r, Z.lor_0_l.
    assert (X : U w (a * 2 ^ w) = 0) by (apply (U_unique w _ 0 a); unfold inr; lia). lia.
  - destruct (Z.leb_spec w (w - b)).
    + assert (b = 0) by lia. subst b. change (2 ^ 0) with 1. rewrite Z.mul_1_r, Z.lor_0_r.
      replace (w - 0) with w by lia. rewrite (div_pow_small w a w) by (assumption || lia).
      rewrite U_small by assumption. lia.
    + pose proof (pow_pos b ltac:(lia)) as PB. pose proof (pow_pos (w - b) ltac:(lia)) as PQ.
      assert (E : U w (a * 2 ^ b) = (a mod 2 ^ (w - b)) * 2 ^ b).
      { unfold U. rewrite (pow_split w b) by lia. apply Z.mul_mod_distr_r; lia. }
      rewrite E. apply lor_hi_lo; [lia|].
      pose proof (div_pow_lt w a (w - b) ltac:(lia) Ha) as D.
      replace (w - (w - b)) with b in D by lia. exact D.
Qed.

(* ---------- the derived builders on well-formed arguments ---------- *)

Lemma allones_eq w : 1 <= w ->
  (if w <=? 64 then Ok (expr_const 18446744073709551615 w)
   else c <- c_sub (new_big 0 w) (new_big 1 w) ;; Ok (EConst c)) = Ok (EConst (mkc w (2 ^ w - 1))).
Proof.
  intros Hw. pose proof (pow_pos w ltac:(lia)) as P. pose proof (lt_pow2 w ltac:(lia)) as Q.
  destruct (Z.leb_spec w 64).
  - rewrite expr_const_spec, U_ones64 by lia. reflexivity.
  - rewrite !new_big_spec by lia. rewrite U_zero by lia. rewrite (U_small w 1) by (unfold inr; lia).
    rewrite c_sub_spec by (unfold inr; lia). cbn [bind]. unfold s_sub. do 3 f_equal.
    apply (U_unique w _ _ (-1)); unfold inr; lia.
Qed.

Ltac build_steps :=
  repeat (first [ rewrite mk_bin_ok by (cbn [e_bits is_cmp cbits]; congruence)
                | rewrite mk_ite_ok by (cbn [e_bits is_cmp cbits]; congruence) ]; cbn [bind]).

Ltac wf_fin := repeat match goal with |- _ /\ _ => split end;
  try assumption; try congruence; try lia; unfold inr; try lia.

Lemma sra_ok en l r w : env_ok en -> wf l -> wf r -> e_bits l = w -> e_bits r = w ->
  exists e, sra l r = Ok e /\ wf e /\ e_bits e = w /\
    eden en e = (a <- eden en l ;; b <- eden en r ;; Ok (mkc w (s_ashr w (cval a) (cval b)))).
Proof.
  intros Hen Wl Wr El Er. pose proof (wf_bits l Wl) as Bw. rewrite El in Bw.
  pose proof (pow_pos w ltac:(lia)) as P. pose proof (lt_pow2 w ltac:(lia)) as Q.
  unfold sra. rewrite El, Er, Z.eqb_refl. cbn [negb].
  rewrite allones_eq by lia. rewrite !expr_const_spec by lia.
  rewrite U_zero by lia. rewrite (U_small w w) by (unfold inr; lia).
  build_steps.
  eexists. split; [reflexivity|]. split; [|split].
  - cbn [wf e_bits is_cmp cbits cval]. wf_fin.
  - cbn [e_bits is_cmp]. assumption.
  - cbn [eden].
    destruct (eden en l) as [a| |] eqn:Dl; cbn [bind]; [|reflexivity|reflexivity].
    destruct (eden en r) as [b| |] eqn:Dr; cbn [bind]; [|reflexivity|reflexivity].
    destruct (eden_good en l Hen Wl a Dl) as [A1 A2]. destruct (eden_good en r Hen Wr b Dr) as [B1 B2].
    destruct a as [aw av], b as [bw bv]. cbn [cbits cval] in A1, A2, B1, B2 |- *.
    rewrite El in A1. rewrite Er in B1. subst aw bw.
    cbn [sp_bin bind cbits cval].
    rewrite <- (sra_arith w av bv) by (lia || assumption).
    destruct (s_cmplts w av 0 =? 1); cbn [bind cval]; [|reflexivity].
    destruct (s_cmpltu w w bv =? 1); cbn [bind cval]; reflexivity.
Qed.

Lemma rotl_ok en l r w : env_ok en -> wf l -> wf r -> e_bits l = w -> e_bits r = w ->
  exists e, rotl l r = Ok e /\ wf e /\ e_bits e = w /\
    eden en e = (a <- eden en l ;; b <- eden en r ;;
                 Ok (mkc w (s_or w (s_shl w (cval a) (cval b)) (s_shr w (cval a) (s_sub w w (cval b)))))).
Proof.
  intros Hen Wl Wr El Er. pose proof (wf_bits l Wl) as Bw. rewrite El in Bw.
  pose proof (pow_pos w ltac:(lia)) as P. pose proof (lt_pow2 w ltac:(lia)) as Q.
  unfold rotl. rewrite El. rewrite !expr_const_spec by lia. rewrite (U_small w w) by (unfold inr; lia).
  build_steps.
  eexists. split; [reflexivity|]. split; [|split].
  - cbn [wf e_bits is_cmp cbits cval]. wf_fin.
  - cbn [e_bits is_cmp]. assumption.
  - cbn [eden].
    destruct (eden en l) as [a| |] eqn:Dl; cbn [bind]; [|reflexivity|reflexivity].
    destruct (eden en r) as [b| |] eqn:Dr; cbn [bind]; [|reflexivity|reflexivity].
    destruct (eden_good en l Hen Wl a Dl) as [A1 A2]. destruct (eden_good en r Hen Wr b Dr) as [B1 B2].
    destruct a as [aw av], b as [bw bv]. cbn [cbits cval] in A1, A2, B1, B2 |- *.
    rewrite El in A1. rewrite Er in B1. subst aw bw.
    cbn [sp_bin bind cbits cval]. reflexivity.
Qed.

(* ---------- raw trees: build through the constructors, then evaluate ---------- *)

Lemma sort2_SW a b k w : sort2 a b k = SW w -> exists x y, a = SW x /\ b = SW y /\ k x y = SW w.
Proof. destruct a, b; cbn [sort2]; intros H; try discriminate H; eauto. Qed.

(* case analysis on a specification-level sub-result, transported along an induction hypothesis *)
Ltac den_sub en r D IH a :=
  destruct (rden en r) as [[a| |]|];
  [ rewrite (IH _ eq_refl); cbn [bind]
  | rewrite (IH _ eq_refl); cbn [bind]; injection D as <-; reflexivity
  | rewrite (IH _ eq_refl); cbn [bind]; injection D as <-; reflexivity
  | discriminate D ].

Lemma build_ok en : env_ok en -> forall r w, rsort r = SW w -> rbounded r ->
  exists e, build r = Ok e /\ wf e /\ e_bits e = w /\ forall x, rden en r = Some x -> eden en e = x.
Proof.
  intros Hen.
  induction r as [s|v k|o l IHl r IHr|o bits x IHx|c IHc t IHt f IHf|l IHl r IHr|l IHl r IHr];
    intros w St Bd; cbn [rsort rbounded build rden] in *; unfold USIZE in *.
  - destruct (Z.ltb_spec (sbits s) 1); [discriminate St|]. injection St as <-.
    exists (EScalar s). cbn [wf e_bits eden]. split; [reflexivity|]. split; [lia|]. split; [reflexivity|].
    intros x D. destruct (en s); injection D as <-; reflexivity.
  - destruct (Z.ltb_spec k 1); [discriminate St|]. injection St as <-.
    rewrite expr_const_spec by lia. eexists. split; [reflexivity|]. cbn [wf e_bits eden cbits cval].
    split; [split; [lia|apply U_inr; lia]|]. split; [reflexivity|].
    intros x D. injection D as <-. reflexivity.
  - apply sort2_SW in St as (x & y & Sl & Sr & K).
    destruct (Z.eqb_spec x y); [|discriminate K]. subst y. injection K as <-. destruct Bd as [Bl Br].
    destruct (IHl x Sl Bl) as (l' & Rl & Wl & El & Dl). destruct (IHr x Sr Br) as (r' & Rr & Wr & Er & Dr).
    rewrite Rl, Rr. cbn [bind]. rewrite mk_bin_ok by congruence.
    eexists. split; [reflexivity|]. split; [cbn [wf]; wf_fin|]. split; [cbn [e_bits]; rewrite El; reflexivity|].
    intros xx D. cbn [eden].
    den_sub en l D Dl a. den_sub en r D Dr b. injection D as <-. reflexivity.
  - destruct Bd as [Bb Bx].
    destruct (rsort x) as [| |xw] eqn:Sx; try (destruct o; discriminate St).
    destruct (IHx xw eq_refl Bx) as (x' & Rx & Wx & Ex & Dx). pose proof (wf_bits x' Wx) as Bw.
    rewrite Rx. cbn [bind].
    assert (K : w = bits /\ match o with Trun => 1 <= bits < xw | _ => xw < bits end).
    { destruct o.
      - destruct (Z.ltb_spec xw bits); [|discriminate St]. injection St as <-. auto.
      - destruct (Z.ltb_spec xw bits); [|discriminate St]. injection St as <-. auto.
      - destruct (Z.ltb_spec bits 1); [discriminate St|].
        destruct (Z.ltb_spec bits xw); [|discriminate St]. injection St as <-. split; [reflexivity|lia]. }
    destruct K as [-> K].
    rewrite mk_ext_ok by (rewrite ?Ex; destruct o; lia).
    eexists. split; [reflexivity|]. split; [cbn [wf]; rewrite Ex; destruct o; wf_fin|].
    split; [reflexivity|].
    intros xx D. cbn [eden].
    den_sub en x D Dx a. injection D as <-. reflexivity.
  - apply sort2_SW in St as (xc & y & Sc & Sy & K).
    destruct (Z.eqb_spec xc 1); [|discriminate K]. subst xc. injection K as ->.
    apply sort2_SW in Sy as (xt & xf & Stt & Sf & K).
    destruct (Z.eqb_spec xt xf); [|discriminate K]. subst xf. injection K as ->.
    destruct Bd as (Bc & Bt & Bf).
    destruct (IHc 1 Sc Bc) as (c' & Rc & Wc & Ec & Dc). destruct (IHt w Stt Bt) as (t' & Rt & Wt & Et & Dt).
    destruct (IHf w Sf Bf) as (f' & Rf & Wf & Ef & Df).
    rewrite Rc, Rt, Rf. cbn [bind]. rewrite mk_ite_ok by congruence.
    eexists. split; [reflexivity|]. split; [cbn [wf]; wf_fin|]. split; [cbn [e_bits]; assumption|].
    intros xx D. cbn [eden].
    den_sub en c D Dc cv. destruct (cval cv =? 1); [apply Dt|apply Df]; assumption.
  - apply sort2_SW in St as (x & y & Sl & Sr & K).
    destruct (Z.eqb_spec x y); [|discriminate K]. subst y. injection K as ->. destruct Bd as [Bl Br].
    destruct (IHl w Sl Bl) as (l' & Rl & Wl & El & Dl). destruct (IHr w Sr Br) as (r' & Rr & Wr & Er & Dr).
    rewrite Rl, Rr. cbn [bind].
    destruct (sra_ok en l' r' w Hen Wl Wr El Er) as (e & Se & We & Ee & De).
    exists e. split; [assumption|]. split; [assumption|]. split; [assumption|].
    intros xx D. rewrite De.
    destruct (rden en l) as [[a| |]|] eqn:Rdl;
      [ rewrite (Dl _ eq_refl); cbn [bind]
      | rewrite (Dl _ eq_refl); cbn [bind]; injection D as <-; reflexivity
      | rewrite (Dl _ eq_refl); cbn [bind]; injection D as <-; reflexivity
      | discriminate D ].
    den_sub en r D Dr b. injection D as <-.
    destruct (eden_good en l' Hen Wl a (Dl _ eq_refl)) as [A1 _]. rewrite A1, El. reflexivity.
  - apply sort2_SW in St as (x & y & Sl & Sr & K).
    destruct (Z.eqb_spec x y); [|discriminate K]. subst y. injection K as ->. destruct Bd as [Bl Br].
    destruct (IHl w Sl Bl) as (l' & Rl & Wl & El & Dl). destruct (IHr w Sr Br) as (r' & Rr & Wr & Er & Dr).
    rewrite Rl, Rr. cbn [bind].
    destruct (rotl_ok en l' r' w Hen Wl Wr El Er) as (e & Se & We & Ee & De).
    exists e. split; [assumption|]. split; [assumption|]. split; [assumption|].
    intros xx D. rewrite De.
    destruct (rden en l) as [[a| |]|] eqn:Rdl;
      [ rewrite (Dl _ eq_refl); cbn [bind]
      | rewrite (Dl _ eq_refl); cbn [bind]; injection D as <-; reflexivity
      | rewrite (Dl _ eq_refl); cbn [bind]; injection D as <-; reflexivity
      | discriminate D ].
    destruct (rden en r) as [[b| |]|] eqn:Rdr;
      [ rewrite (Dr _ eq_refl); cbn [bind]
      | rewrite (Dr _ eq_refl); cbn [bind]; injection D as <-; reflexivity
      | rewrite (Dr _ eq_refl); cbn [bind]; injection D as <-; reflexivity
      | discriminate D ].
    destruct (eden_good en l' Hen Wl a (Dl _ eq_refl)) as [A1 A2].
    destruct (eden_good en r' Hen Wr b (Dr _ eq_refl)) as [B1 B2].
    pose proof (wf_bits l' Wl) as Bw.
    rewrite A1, El in *. rewrite B1, Er in B2.
    destruct (Z.leb_spec (cval b) w); [|discriminate D]. injection D as <-.
    rewrite rotl_arith by (lia || assumption || (destruct B2; lia)). reflexivity.
Qed.

Theorem eval_den : forall r w x, rbounded r -> rsort r = SW w -> rden (fun _ => None) r = Some x ->
  (e <- build r ;; eval e) = x.
Proof.
  intros r w x Bd St D.
  destruct (build_ok (fun _ => None) env_none_ok r w St Bd) as (e & B & W & _ & De).
  rewrite B. cbn [bind]. rewrite eval_eden by assumption. apply De. assumption.
Qed.

Lemma env1_ok s v : 1 <= sbits s -> env_ok (env1 s (mkc (sbits s) (U (sbits s) v))).
Proof.
  intros Hs t k E. unfold env1 in E. destruct (scalar_eqb t s) eqn:Ets; [|discriminate E].
  injection E as <-. cbn [cbits cval]. split; [symmetry; apply scalar_eqb_bits; assumption|apply U_inr; lia].
Qed.

Theorem replace_scalar_subst : forall r w s v x, rbounded r -> rsort r = SW w -> 1 <= sbits s < 2 ^ 64 ->
  rden (env1 s (mkc (sbits s) (U (sbits s) v))) r = Some x ->
  (e <- build r ;; e1 <- replace_scalar e s (EConst (new_big v (sbits s))) ;; eval e1) = x.
Proof.
  intros r w s v x Bd St Hs D.
  rewrite new_big_spec by lia. set (c := mkc (sbits s) (U (sbits s) v)) in *.
  destruct (build_ok (env1 s c) (env1_ok s v ltac:(lia)) r w St Bd) as (e & B & W & _ & De).
  rewrite B. cbn [bind].
  assert (Wc : wf (EConst c)) by (cbn [wf c cbits cval]; split; [lia|apply U_inr; lia]).
  destruct (replace_ok (fun _ => None) s c e W Wc eq_refl) as (e' & R & W' & _ & D').
  rewrite R. cbn [bind]. rewrite eval_eden by assumption. rewrite D'. apply De. assumption.
Qed.

(* the checker's two-step substitution (KReplace): s1 first, then s2 *)
Theorem replace_scalar_subst2 : forall r w s1 v1 s2 v2 x, rbounded r -> rsort r = SW w ->
  1 <= sbits s1 < 2 ^ 64 -> 1 <= sbits s2 < 2 ^ 64 ->
  rden (fun t => if scalar_eqb t s1 then Some (mkc (sbits s1) (U (sbits s1) v1))
                 else if scalar_eqb t s2 then Some (mkc (sbits s2) (U (sbits s2) v2)) else None) r = Some x ->
  (e <- build r ;;
   e1 <- replace_scalar e s1 (EConst (new_big v1 (sbits s1))) ;;
   e2 <- replace_scalar e1 s2 (EConst (new_big v2 (sbits s2))) ;; eval e2) = x.
Proof.
  intros r w s1 v1 s2 v2 x Bd St H1 H2 D.
  rewrite !new_big_spec by lia.
  set (c1 := mkc (sbits s1) (U (sbits s1) v1)) in *. set (c2 := mkc (sbits s2) (U (sbits s2) v2)) in *.
  set (en := fun t => if scalar_eqb t s1 then Some c1 else if scalar_eqb t s2 then Some c2 else None) in *.
  assert (Hen : env_ok en).
  { intros t k E. unfold en in E. destruct (scalar_eqb t s1) eqn:E1.
    - injection E as <-. cbn [c1 cbits cval]. split; [symmetry; apply scalar_eqb_bits; assumption|apply U_inr; lia].
    - destruct (scalar_eqb t s2) eqn:E2; [|discriminate E].
      injection E as <-. cbn [c2 cbits cval]. split; [symmetry; apply scalar_eqb_bits; assumption|apply U_inr; lia]. }
  destruct (build_ok en Hen r w St Bd) as (e & B & W & _ & De).
  rewrite B. cbn [bind].
  assert (Wc1 : wf (EConst c1)) by (cbn [wf c1 cbits cval]; split; [lia|apply U_inr; lia]).
  assert (Wc2 : wf (EConst c2)) by (cbn [wf c2 cbits cval]; split; [lia|apply U_inr; lia]).
  destruct (replace_ok (fun t => if scalar_eqb t s2 then Some c2 else None) s1 c1 e W Wc1 eq_refl)
    as (e1 & R1 & W1 & _ & D1).
  rewrite R1. cbn [bind].
  destruct (replace_ok (fun _ => None) s2 c2 e1 W1 Wc2 eq_refl) as (e2 & R2 & W2 & _ & D2).
  rewrite R2. cbn [bind]. rewrite eval_eden by assumption. rewrite D2, D1. apply De. assumption.
Qed.

(* ---------- ill-sorted raw trees are rejected by a constructor (no width bound needed) ---------- *)

Lemma sort2_SErr a b k : sort2 a b k = SErr ->
  a = SErr \/ (exists x, a = SW x /\ b = SErr) \/ (exists x y, a = SW x /\ b = SW y /\ k x y = SErr).
Proof.
  destruct a as [| |x]; cbn [sort2]; intros H; [left; reflexivity|discriminate H|].
  destruct b as [| |y]; [right; left; exists x; auto|discriminate H|].
  right; right. exists x, y. auto.
Qed.

Lemma allones_shape w :
  exists c, (if w <=? 64 then Ok (expr_const 18446744073709551615 w)
             else c <- c_sub (new_big 0 w) (new_big 1 w) ;; Ok (EConst c)) = Ok (EConst c) /\ cbits c = w.
Proof.
  destruct (w <=? 64).
  - eexists. split; reflexivity.
  - unfold c_sub, same_sort. cbn [new_big cbits cval]. rewrite Z.eqb_refl. cbn [negb].
    destruct (_ <? _); cbn [bind]; eexists; split; reflexivity.
Qed.

Ltac build_steps' :=
  repeat (first [ rewrite mk_bin_ok by (cbn [e_bits is_cmp cbits new_big expr_const]; congruence)
                | rewrite mk_ite_ok by (cbn [e_bits is_cmp cbits new_big expr_const]; congruence) ]; cbn [bind]).

Lemma build_sorted : forall r w, rsort r = SW w -> exists e, build r = Ok e /\ e_bits e = w /\ 1 <= w.
Proof.
  induction r as [s|v k|o l IHl r IHr|o bits x IHx|c IHc t IHt f IHf|l IHl r IHr|l IHl r IHr];
    intros w St; cbn [rsort build] in *.
  - destruct (Z.ltb_spec (sbits s) 1); [discriminate St|]. injection St as <-.
    eexists. split; [reflexivity|]. cbn [e_bits]. split; [reflexivity|lia].
  - destruct (Z.ltb_spec k 1); [discriminate St|]. injection St as <-.
    eexists. split; [reflexivity|]. cbn [e_bits expr_const new_big cbits]. split; [reflexivity|lia].
  - apply sort2_SW in St as (x & y & Sl & Sr & K).
    destruct (Z.eqb_spec x y); [|discriminate K]. subst y. injection K as <-.
    destruct (IHl x Sl) as (l' & Rl & El & Bl). destruct (IHr x Sr) as (r' & Rr & Er & Br).
    rewrite Rl, Rr. cbn [bind]. rewrite mk_bin_ok by congruence.
    eexists. split; [reflexivity|]. cbn [e_bits]. rewrite El. split; [reflexivity|]. destruct (is_cmp o); lia.
  - destruct (rsort x) as [| |xw] eqn:Sx; try (destruct o; discriminate St).
    destruct (IHx xw eq_refl) as (x' & Rx & Ex & Bx). rewrite Rx. cbn [bind].
    assert (K : w = bits /\ match o with Trun => 1 <= bits < xw | _ => xw < bits end).
    { destruct o.
      - destruct (Z.ltb_spec xw bits); [|discriminate St]. injection St as <-. auto.
      - destruct (Z.ltb_spec xw bits); [|discriminate St]. injection St as <-. auto.
      - destruct (Z.ltb_spec bits 1); [discriminate St|].
        destruct (Z.ltb_spec bits xw); [|discriminate St]. injection St as <-. split; [reflexivity|lia]. }
    destruct K as [-> K].
    rewrite mk_ext_ok by (rewrite ?Ex; destruct o; lia).
    eexists. split; [reflexivity|]. cbn [e_bits]. split; [reflexivity|]. destruct o; lia.
  - apply sort2_SW in St as (xc & y & Sc & Sy & K).
    destruct (Z.eqb_spec xc 1); [|discriminate K]. subst xc. injection K as ->.
    apply sort2_SW in Sy as (xt & xf & Stt & Sf & K).
    destruct (Z.eqb_spec xt xf); [|discriminate K]. subst xf. injection K as ->.
    destruct (IHc 1 Sc) as (c' & Rc & Ec & Bc). destruct (IHt w Stt) as (t' & Rt & Et & Bt).
    destruct (IHf w Sf) as (f' & Rf & Ef & Bf).
    rewrite Rc, Rt, Rf. cbn [bind]. rewrite mk_ite_ok by congruence.
    eexists. split; [reflexivity|]. cbn [e_bits]. auto.
  - apply sort2_SW in St as (x & y & Sl & Sr & K).
    destruct (Z.eqb_spec x y); [|discriminate K]. subst y. injection K as ->.
    destruct (IHl w Sl) as (l' & Rl & El & Bl). destruct (IHr w Sr) as (r' & Rr & Er & Br).
    rewrite Rl, Rr. cbn [bind]. unfold sra. rewrite El, Er, Z.eqb_refl. cbn [negb].
    destruct (allones_shape w) as (c & -> & Ec). build_steps'.
    eexists. split; [reflexivity|]. cbn [e_bits is_cmp]. auto.
  - apply sort2_SW in St as (x & y & Sl & Sr & K).
    destruct (Z.eqb_spec x y); [|discriminate K]. subst y. injection K as ->.
    destruct (IHl w Sl) as (l' & Rl & El & Bl). destruct (IHr w Sr) as (r' & Rr & Er & Br).
    rewrite Rl, Rr. cbn [bind]. unfold rotl. rewrite El. build_steps'.
    eexists. split; [reflexivity|]. cbn [e_bits is_cmp]. auto.
Qed.

Lemma build_err : forall r, rsort r = SErr -> build r = Err ESort.
Proof.
  induction r as [s|v k|o l IHl r IHr|o bits x IHx|c IHc t IHt f IHf|l IHl r IHr|l IHl r IHr];
    intros St; cbn [rsort build] in *.
  - destruct (sbits s <? 1); discriminate St.
  - destruct (k <? 1); discriminate St.
  - apply sort2_SErr in St as [Sl|[(x & Sl & Sr)|(x & y & Sl & Sr & K)]].
    + rewrite (IHl Sl). reflexivity.
    + destruct (build_sorted l x Sl) as (l' & -> & _). rewrite (IHr Sr). reflexivity.
    + destruct (build_sorted l x Sl) as (l' & -> & El & _). destruct (build_sorted r y Sr) as (r' & -> & Er & _).
      cbn [bind]. destruct (Z.eqb_spec x y); [discriminate K|]. apply mk_bin_err. congruence.
  - destruct (rsort x) as [| |xw] eqn:Sx.
    + rewrite (IHx eq_refl). reflexivity.
    + destruct o; discriminate St.
    + destruct (build_sorted x xw Sx) as (x' & -> & Ex & Bx). cbn [bind]. unfold mk_ext. rewrite Ex.
      destruct o.
      * destruct (Z.ltb_spec xw bits); [discriminate St|]. destruct (Z.leb_spec bits xw); [reflexivity|lia].
      * destruct (Z.ltb_spec xw bits); [discriminate St|]. destruct (Z.leb_spec bits xw); [reflexivity|lia].
      * destruct (Z.ltb_spec bits 1); [discriminate St|]. destruct (Z.ltb_spec bits xw); [discriminate St|].
        destruct (Z.leb_spec xw bits); [reflexivity|lia].
  - apply sort2_SErr in St as [Sc|[(x & Sc & Sy)|(x & y & Sc & Sy & K)]].
    + rewrite (IHc Sc). reflexivity.
    + destruct (build_sorted c x Sc) as (c' & -> & _). cbn [bind].
      apply sort2_SErr in Sy as [Stt|[(xt & Stt & Sf)|(xt & xf & Stt & Sf & K)]].
      * rewrite (IHt Stt). reflexivity.
      * destruct (build_sorted t xt Stt) as (t' & -> & _). rewrite (IHf Sf). reflexivity.
      * destruct (build_sorted t xt Stt) as (t' & -> & Et & _).
        destruct (build_sorted f xf Sf) as (f' & -> & Ef & _). cbn [bind].
        destruct (Z.eqb_spec xt xf); [discriminate K|]. unfold mk_ite. rewrite Et, Ef.
        destruct (Z.eqb_spec xt xf); [lia|]. cbn [negb]. rewrite orb_true_r. reflexivity.
    + destruct (build_sorted c x Sc) as (c' & -> & Ec & _). cbn [bind].
      apply sort2_SW in Sy as (xt & xf & Stt & Sf & _).
      destruct (build_sorted t xt Stt) as (t' & -> & _). destruct (build_sorted f xf Sf) as (f' & -> & _).
      cbn [bind]. destruct (Z.eqb_spec x 1); [discriminate K|]. unfold mk_ite. rewrite Ec.
      destruct (Z.eqb_spec x 1); [lia|]. reflexivity.
  - apply sort2_SErr in St as [Sl|[(x & Sl & Sr)|(x & y & Sl & Sr & K)]].
    + rewrite (IHl Sl). reflexivity.
    + destruct (build_sorted l x Sl) as (l' & -> & _). rewrite (IHr Sr). reflexivity.
    + destruct (build_sorted l x Sl) as (l' & -> & El & _). destruct (build_sorted r y Sr) as (r' & -> & Er & _).
      cbn [bind]. destruct (Z.eqb_spec x y); [discriminate K|]. unfold sra. rewrite El, Er.
      destruct (Z.eqb_spec x y); [lia|]. reflexivity.
  - apply sort2_SErr in St as [Sl|[(x & Sl & Sr)|(x & y & Sl & Sr & K)]].
    + rewrite (IHl Sl). reflexivity.
    + destruct (build_sorted l x Sl) as (l' & -> & _). rewrite (IHr Sr). reflexivity.
    + destruct (build_sorted l x Sl) as (l' & -> & El & _). destruct (build_sorted r y Sr) as (r' & -> & Er & _).
      cbn [bind]. destruct (Z.eqb_spec x y); [discriminate K|]. unfold rotl.
      rewrite mk_bin_err by congruence. reflexivity.
Qed.

Theorem build_sort_error : forall r, rsort r = SErr -> (e <- build r ;; eval e) = Err ESort.
Proof. intros r St. rewrite (build_err r St). reflexivity. Qed.

(* ---------- the oracles of C04Check.v, literally ---------- *)

(* KEval oracle: whatever rspec demands of a closed raw tree is what build-then-eval produces *)
Theorem rspec_sound : forall r x, rbounded r -> rspec (fun _ => None) r = Some x ->
  (e <- build r ;; eval e) = x.
Proof.
  intros r x Bd. unfold rspec. destruct (rsort r) as [| |w] eqn:St; intros D.
  - injection D as <-. apply build_sort_error. assumption.
  - discriminate D.
  - eapply eval_den; eassumption.
Qed.

(* KBin oracle: operands of any two widths *)
Theorem c_bin_spec_c : forall o a b, 1 <= cbits a < 2 ^ 64 -> 1 <= cbits b ->
  inr (cbits a) (cval a) -> inr (cbits b) (cval b) -> c_bin o a b = sp_bin_c o a b.
Proof.
  intros o [aw av] [bw bv]. cbn [cbits cval]. intros Ha Hb Ra Rb. unfold sp_bin_c. cbn [cbits cval].
  destruct (Z.eqb_spec aw bw) as [E|E]; cbn [negb].
  - subst bw. apply c_bin_spec; assumption.
  - apply c_bin_sort_error. cbn [cbits]. assumption.
Qed.
