(* IL/Loc.v -- model of lib/il/location.rs and Function::locations.  Definitions only.
   A RefFunctionLocation holds references to a block / instruction / edge of one function; Rust's
   derived equality compares the pointees.  In the model a location is the triple of indices, and
   every operation re-resolves it against the function (failing exactly where the Rust code fails). *)
From Coq Require Import ZArith List Bool NArith.
From Falcon Require Import Base.Res IL.Const IL.Expr IL.Func.
Import ListNotations.
Local Open Scope Z_scope.

(* FunctionLocation (owned) -- also used for RefFunctionLocation within a fixed function *)
Inductive floc :=
| LInstr (b i : Z)      (* block index, instruction index (the index FIELD, not the position) *)
| LEdge (h t : Z)
| LEmpty (b : Z).

Definition floc_eqb (a b : floc) : bool :=
  match a, b with
  | LInstr x y, LInstr x' y' => (x =? x') && (y =? y')
  | LEdge x y, LEdge x' y' => (x =? x') && (y =? y')
  | LEmpty x, LEmpty x' => x =? x'
  | _, _ => false
  end.

(* ProgramLocation { function_index : Option<usize>, function_location } *)
Record ploc := mkploc { pl_func : option Z; pl_loc : floc }.
Definition optZ_eqb (a b : option Z) : bool :=
  match a, b with Some x, Some y => x =? y | None, None => true | _, _ => false end.
Definition ploc_eqb (a b : ploc) : bool := optZ_eqb (pl_func a) (pl_func b) && floc_eqb (pl_loc a) (pl_loc b).

(* Function::locations : blocks in index order (instructions, or EmptyBlock), then edges in (head,tail) order *)
Definition block_locations (b : block) : list floc :=
  match b_instrs b with
  | [] => [LEmpty (b_index b)]
  | is_ => map (fun i => LInstr (b_index b) (i_index i)) is_
  end.
Definition locations (f : func) : list floc :=
  flat_map block_locations (f_blocks f) ++ map (fun e => LEdge (e_head e) (e_tail e)) (f_edges f).

Definition edge_locs (es : list edge) : list floc := map (fun e => LEdge (e_head e) (e_tail e)) es.

(* instruction_forward: scan positions ascending for the first instruction with that index field *)
Fixpoint instr_forward_scan (f : func) (bi : Z) (is_ : list instruction) (idx : Z) : res (list floc) :=
  match is_ with
  | [] => Err ECustom
  | x :: rest =>
      if i_index x =? idx then
        match rest with
        | y :: _ => Ok [LInstr bi (i_index y)]
        | [] => es <- cfg_edges_out (f_cfg f) bi ;; Ok (edge_locs es)
        end
      else instr_forward_scan f bi rest idx
  end.

(* instruction_backward: scan positions DESCENDING for the first instruction with that index field;
   [prefix_rev] = instructions before the current one, nearest first *)
Fixpoint instr_backward_scan (f : func) (bi : Z) (rev_is : list instruction) (idx : Z) : res (list floc) :=
  match rev_is with
  | [] => Err ECustom
  | x :: before =>
      if i_index x =? idx then
        match before with
        | y :: _ => Ok [LInstr bi (i_index y)]
        | [] => es <- cfg_edges_in (f_cfg f) bi ;; Ok (edge_locs es)
        end
      else instr_backward_scan f bi before idx
  end.

Definition block_first_loc (b : block) : floc :=
  match b_instrs b with [] => LEmpty (b_index b) | x :: _ => LInstr (b_index b) (i_index x) end.
Definition block_last_loc (b : block) : floc :=
  match rev (b_instrs b) with [] => LEmpty (b_index b) | x :: _ => LInstr (b_index b) (i_index x) end.

(* In Rust the location already holds the block reference, so forward/backward of an Instruction or
   EmptyBlock location never looks the block up again (only its edges).  [resolve] is the step that
   produced the reference; a location that does not resolve cannot exist as a RefFunctionLocation. *)
Definition forward (f : func) (l : floc) : res (list floc) :=
  match l with
  | LInstr bi ii =>
      match find_block (f_blocks f) bi with
      | Some b => instr_forward_scan f bi (b_instrs b) ii
      | None => Panic   (* unreachable for an applied location *)
      end
  | LEdge _ t => b <- f_block f t ;; Ok [block_first_loc b]
  | LEmpty bi => es <- cfg_edges_out (f_cfg f) bi ;; Ok (edge_locs es)
  end.

Definition backward (f : func) (l : floc) : res (list floc) :=
  match l with
  | LInstr bi ii =>
      match find_block (f_blocks f) bi with
      | Some b => instr_backward_scan f bi (rev (b_instrs b)) ii
      | None => Panic
      end
  | LEdge h _ => b <- f_block f h ;; Ok [block_last_loc b]
  | LEmpty bi => es <- cfg_edges_in (f_cfg f) bi ;; Ok (edge_locs es)
  end.

(* FunctionLocation::apply : every failure is FunctionLocationApplication (mapped to EOther) *)
Definition floc_apply (f : func) (l : floc) : res floc :=
  match l with
  | LInstr bi ii =>
      match find_block (f_blocks f) bi with
      | None => Err EOther
      | Some b => match block_instruction b ii with Some _ => Ok l | None => Err EOther end
      end
  | LEdge h t => match find_edge (f_edges f) h t with Some _ => Ok l | None => Err EOther end
  | LEmpty bi => match find_block (f_blocks f) bi with Some _ => Ok l | None => Err EOther end   (* emptiness NOT checked *)
  end.

(* ProgramLocation::apply : returns the function index and the applied location *)
Definition ploc_apply (p : program) (l : ploc) : res (Z * floc) :=
  match pl_func l with
  | None => Err EOther
  | Some fi =>
      match program_function p fi with
      | None => Err EOther
      | Some f => l' <- floc_apply f (pl_loc l) ;; Ok (fi, l')
      end
  end.

(* impl From<RefProgramLocation> for ProgramLocation *)
Definition ploc_of (f : func) (l : floc) : ploc := mkploc (f_index f) l.

(* RefProgramLocation::from_function *)
Definition from_function (f : func) : option (res floc) :=
  match g_entry (f_cfg f) with
  | None => None
  | Some e => Some (b <- f_block f e ;; Ok (block_first_loc b))
  end.

(* first instruction, in block order then position order, whose address is [a] *)
Fixpoint find_addr_instrs (bi : Z) (is_ : list instruction) (a : Z) : option floc :=
  match is_ with
  | [] => None
  | x :: t => match i_addr x with
              | Some ia => if ia =? a then Some (LInstr bi (i_index x)) else find_addr_instrs bi t a
              | None => find_addr_instrs bi t a
              end
  end.
Fixpoint find_addr_blocks (bs : list block) (a : Z) : option floc :=
  match bs with
  | [] => None
  | b :: t => match find_addr_instrs (b_index b) (b_instrs b) a with
              | Some l => Some l
              | None => find_addr_blocks t a
              end
  end.

(* pass 1 of from_address: the function with the greatest address <= a (first one wins on ties) *)
Fixpoint closest_function (fs : list (Z * func)) (a : Z) (best : option (Z * func)) : option (Z * func) :=
  match fs with
  | [] => best
  | (k, f) :: t =>
      if a <? f_addr f then closest_function t a best
      else match best with
           | None => closest_function t a (Some (k, f))
           | Some (_, bf) => if f_addr bf <? f_addr f then closest_function t a (Some (k, f))
                             else closest_function t a best
           end
  end.
Fixpoint exhaustive_address (fs : list (Z * func)) (a : Z) : option (Z * floc) :=
  match fs with
  | [] => None
  | (k, f) :: t => match find_addr_blocks (f_blocks f) a with
                   | Some l => Some (k, l)
                   | None => exhaustive_address t a
                   end
  end.
(* RefProgramLocation::from_address : (function index, location) *)
Definition from_address (p : program) (a : Z) : option (Z * floc) :=
  match closest_function (p_funcs p) a None with
  | Some (k, f) => match find_addr_blocks (f_blocks f) a with
                   | Some l => Some (k, l)
                   | None => exhaustive_address (p_funcs p) a
                   end
  | None => exhaustive_address (p_funcs p) a
  end.

(* the instruction / block / edge a location denotes *)
Definition loc_instruction (f : func) (l : floc) : option instruction :=
  match l with
  | LInstr bi ii => match find_block (f_blocks f) bi with Some b => block_instruction b ii | None => None end
  | _ => None
  end.
Definition loc_edge (f : func) (l : floc) : option edge :=
  match l with LEdge h t => find_edge (f_edges f) h t | _ => None end.
