(* IL/Func.v -- the shared IL core: operations, instructions, phi nodes, blocks, edges,
   control-flow graphs (static view), functions, programs.  Definitions only, no proofs.
   Mirrors lib/il/{operation,intrinsic,instruction,phi_node,block,edge,control_flow_graph,function,program}.rs.

   The control-flow graph is held in its *static view*: blocks sorted by index (BTreeMap order),
   edges sorted by (head, tail) (BTreeMap<(usize,usize),_> order).  The four-map graph structure and
   its editing operations live in Graph/Graph.v and Cfg/ (properties C11, C15); analyses, the
   executor and the locations only observe the static view. *)
From Coq Require Import ZArith List Bool NArith.
From Falcon Require Import Base.Res IL.Const IL.Expr.
Import ListNotations.
Local Open Scope Z_scope.

(* Intrinsic: the mnemonic is interned to N; instruction_str/bytes are not modelled (never inspected
   by the analyses). *)
Record intrinsic := mkintr {
  in_mnemonic : N;
  in_args : list expr;
  in_written : option (list expr);
  in_read : option (list expr) }.

Inductive operation :=
| OAssign (dst : scalar) (src : expr)
| OStore (index src : expr)
| OLoad (dst : scalar) (index : expr)
| OBranch (target : expr)
| OIntrinsic (i : intrinsic)
| ONop (placeholder : option operation).

Definition is_assign o := match o with OAssign _ _ => true | _ => false end.
Definition is_store o := match o with OStore _ _ => true | _ => false end.
Definition is_load o := match o with OLoad _ _ => true | _ => false end.
Definition is_branch o := match o with OBranch _ => true | _ => false end.
Definition is_intrinsic o := match o with OIntrinsic _ => true | _ => false end.
Definition is_nop o := match o with ONop _ => true | _ => false end.

(* Intrinsic::scalars_read / scalars_written : None = undeclared effects *)
Definition intr_scalars_read (i : intrinsic) : option (list scalar) :=
  option_map (fun es => flat_map scalars es) (in_read i).
Definition intr_scalars_written (i : intrinsic) : option (list scalar) :=
  option_map (fun es => flat_map scalars es) (in_written i).

(* Operation::scalars_read / scalars_written (with multiplicity, in syntactic order) *)
Definition op_scalars_read (o : operation) : option (list scalar) :=
  match o with
  | OAssign _ src => Some (scalars src)
  | OStore index src => Some (scalars index ++ scalars src)
  | OLoad _ index => Some (scalars index)
  | OBranch t => Some (scalars t)
  | OIntrinsic i => intr_scalars_read i
  | ONop _ => Some []
  end.
Definition op_scalars_written (o : operation) : option (list scalar) :=
  match o with
  | OAssign dst _ | OLoad dst _ => Some [dst]
  | OStore _ _ | OBranch _ => Some []
  | OIntrinsic i => intr_scalars_written i
  | ONop _ => Some []
  end.

Record instruction := mkinstr {
  i_index : Z;
  i_op : operation;
  i_addr : option Z }.

(* PhiNode: incoming is a BTreeMap<block index, Scalar> (ascending keys) *)
Record phi := mkphi {
  phi_incoming : list (Z * scalar);
  phi_entry : option scalar;
  phi_out : scalar }.

Record block := mkblock {
  b_index : Z;
  b_next : Z;                         (* next_instruction_index *)
  b_instrs : list instruction;
  b_phis : list phi }.

Record edge := mkedge {
  e_head : Z;
  e_tail : Z;
  e_cond : option expr }.

Record cfg := mkcfg {
  g_blocks : list block;              (* ascending index *)
  g_edges : list edge;                (* ascending (head, tail) *)
  g_next_index : Z;
  g_entry : option Z;
  g_exit : option Z }.

Record func := mkfunc {
  f_addr : Z;
  f_cfg : cfg;
  f_index : option Z }.

(* Program: BTreeMap<usize, Function> in ascending index order *)
Record program := mkprog { p_funcs : list (Z * func) }.

(* ---- queries on the static view, with the error behaviour of graph::Graph ---- *)
Fixpoint find_block (bs : list block) (i : Z) : option block :=
  match bs with [] => None | b :: t => if b_index b =? i then Some b else find_block t i end.
Definition cfg_block (g : cfg) (i : Z) : res block :=
  match find_block (g_blocks g) i with Some b => Ok b | None => Err EGraphVertex end.
Definition has_block (g : cfg) (i : Z) : bool :=
  match find_block (g_blocks g) i with Some _ => true | None => false end.
Fixpoint find_edge (es : list edge) (h t : Z) : option edge :=
  match es with [] => None | e :: r => if (e_head e =? h) && (e_tail e =? t) then Some e else find_edge r h t end.
Definition cfg_edge (g : cfg) (h t : Z) : res edge :=
  match find_edge (g_edges g) h t with Some e => Ok e | None => Err EGraphEdge end.
(* Graph::edges_out / edges_in : ascending tail / head; unknown vertex => GraphVertexNotFound *)
Definition cfg_edges_out (g : cfg) (i : Z) : res (list edge) :=
  if has_block g i then Ok (filter (fun e => e_head e =? i) (g_edges g)) else Err EGraphVertex.
Definition cfg_edges_in (g : cfg) (i : Z) : res (list edge) :=
  if has_block g i then Ok (filter (fun e => e_tail e =? i) (g_edges g)) else Err EGraphVertex.
Definition cfg_successor_indices (g : cfg) (i : Z) : res (list Z) :=
  es <- cfg_edges_out g i ;; Ok (map e_tail es).
Definition cfg_predecessor_indices (g : cfg) (i : Z) : res (list Z) :=
  es <- cfg_edges_in g i ;; Ok (map e_head es).

(* Block::instruction : first instruction whose *index field* matches *)
Fixpoint find_instr (is_ : list instruction) (i : Z) : option instruction :=
  match is_ with [] => None | x :: t => if i_index x =? i then Some x else find_instr t i end.
Definition block_instruction (b : block) (i : Z) : option instruction := find_instr (b_instrs b) i.
Definition block_is_empty (b : block) : bool := match b_instrs b with [] => true | _ => false end.
(* Block::address *)
Definition block_address (b : block) : option Z :=
  match b_instrs b with [] => None | x :: _ => i_addr x end.

Definition f_block (f : func) (i : Z) : res block := cfg_block (f_cfg f) i.
Definition f_edge (f : func) (h t : Z) : res edge := cfg_edge (f_cfg f) h t.
Definition f_blocks (f : func) := g_blocks (f_cfg f).
Definition f_edges (f : func) := g_edges (f_cfg f).

Fixpoint find_func (fs : list (Z * func)) (i : Z) : option func :=
  match fs with [] => None | (k, f) :: t => if k =? i then Some f else find_func t i end.
Definition program_function (p : program) (i : Z) : option func := find_func (p_funcs p) i.

(* ---- well-formedness predicates shared by several properties (executable) ---- *)
Fixpoint sorted_by {A} (key : A -> Z) (l : list A) : bool :=
  match l with
  | [] => true
  | x :: t => match t with [] => true | y :: _ => (key x <? key y) && sorted_by key t end
  end.
Fixpoint edges_sorted (l : list edge) : bool :=
  match l with
  | [] => true
  | x :: t => match t with
              | [] => true
              | y :: _ => ((e_head x <? e_head y) || ((e_head x =? e_head y) && (e_tail x <? e_tail y))) && edges_sorted t
              end
  end.
Fixpoint nodupZ (l : list Z) : bool :=
  match l with [] => true | x :: t => negb (existsb (Z.eqb x) t) && nodupZ t end.

(* C15's invariant on the static view *)
Definition cfg_inv (g : cfg) : bool :=
  sorted_by b_index (g_blocks g) && edges_sorted (g_edges g) &&
  forallb (fun e => has_block g (e_head e) && has_block g (e_tail e)) (g_edges g) &&
  forallb (fun b => nodupZ (map i_index (b_instrs b)) &&
                    forallb (fun i => (0 <=? i_index i) && (i_index i <? b_next b)) (b_instrs b) &&
                    (0 <=? b_index b) && (b_index b <? g_next_index g)) (g_blocks g) &&
  match g_entry g with Some i => has_block g i | None => true end &&
  match g_exit g with Some i => has_block g i | None => true end.
