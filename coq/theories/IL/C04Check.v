(* IL/C04Check.v -- the per-case checker evaluated in the kernel by the C04 case files:
   fst = tie (model = observed), snd = oracle (observed satisfies the specification). *)
From Coq Require Import ZArith List Bool NArith.
From Falcon Require Import Base.Res IL.Const IL.ConstSpec IL.Expr IL.ExprSpec.
Import ListNotations.
Local Open Scope Z_scope.

Inductive case :=
| KBin (o : binop) (aw av bw bv : Z) (obs : res const)
| KExt (o : extop) (bits w v : Z) (obs : res const)
| KEval (r : rexpr) (obs : res const)
| KReplace (r : rexpr) (w v cw c2 : Z) (obs : res const).

Definition req := res_eqb const_eqb.

Definition spec_ok (s : option (res const)) (obs : res const) : bool :=
  match s with None => true | Some r => req r obs end.

Definition s1 (w : Z) : scalar := mks 1%N w None.
Definition s2 (w : Z) : scalar := mks 2%N w None.

Definition ck (k : case) : bool * bool :=
  match k with
  | KBin o aw av bw bv obs =>
      (req (c_bin o (new_big av aw) (new_big bv bw)) obs,
       if (aw <? 1) || (bw <? 1) then true
       else req (sp_bin_c o (mkc aw (U aw av)) (mkc bw (U bw bv))) obs)
  | KExt o bits w v obs =>
      (req (c_ext o bits (new_big v w)) obs,
       if (w <? 1) || (bits <? 1) then true else req (sp_ext o bits (mkc w (U w v))) obs)
  | KEval r obs =>
      (req (e <- build r ;; eval e) obs, spec_ok (rspec (fun _ => None) r) obs)
  | KReplace r w v cw c2 obs =>
      (req (e <- build r ;;
            e1 <- replace_scalar e (s1 w) (EConst (new_big v cw)) ;;
            e2 <- replace_scalar e1 (s2 w) (EConst (new_big c2 w)) ;;
            eval e2) obs,
       if negb (cw =? w) then true
       else spec_ok (rspec (fun s => if scalar_eqb s (s1 w) then Some (mkc w (U w v))
                                     else if scalar_eqb s (s2 w) then Some (mkc w (U w c2)) else None) r) obs)
  end.
