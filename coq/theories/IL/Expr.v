(* IL/Expr.v -- faithful model of lib/il/expression.rs, lib/il/scalar.rs and lib/executor/eval.rs *)
From Coq Require Import ZArith List Bool NArith.
From Falcon Require Import Base.Res IL.Const.
Import ListNotations.
Local Open Scope Z_scope.

(* Scalar { name, bits, ssa }: names are interned to N by the harness (one table per case). *)
Record scalar := mks { sname : N; sbits : Z; sssa : option N }.
Definition optN_eqb (a b : option N) : bool :=
  match a, b with Some x, Some y => N.eqb x y | None, None => true | _, _ => false end.
Definition scalar_eqb (a b : scalar) : bool :=
  N.eqb (sname a) (sname b) && (sbits a =? sbits b) && optN_eqb (sssa a) (sssa b).

Inductive binop :=
| Add | Sub | Mul | Divu | Modu | Divs | Mods | And | Or | Xor | Shl | Shr | AShr
| Cmpeq | Cmpneq | Cmplts | Cmpltu.
Inductive extop := Zext | Sext | Trun.

Inductive expr :=
| EScalar (s : scalar)
| EConst (c : const)
| EBin (o : binop) (l r : expr)
| EExt (o : extop) (bits : Z) (e : expr)
| EIte (c t e : expr).

Definition binop_eqb (a b : binop) : bool :=
  match a, b with
  | Add, Add | Sub, Sub | Mul, Mul | Divu, Divu | Modu, Modu | Divs, Divs | Mods, Mods
  | And, And | Or, Or | Xor, Xor | Shl, Shl | Shr, Shr | AShr, AShr
  | Cmpeq, Cmpeq | Cmpneq, Cmpneq | Cmplts, Cmplts | Cmpltu, Cmpltu => true
  | _, _ => false end.
Definition extop_eqb (a b : extop) : bool :=
  match a, b with Zext, Zext | Sext, Sext | Trun, Trun => true | _, _ => false end.

Fixpoint expr_eqb (a b : expr) : bool :=
  match a, b with
  | EScalar s, EScalar t => scalar_eqb s t
  | EConst c, EConst d => const_eqb c d
  | EBin o l r, EBin o' l' r' => binop_eqb o o' && expr_eqb l l' && expr_eqb r r'
  | EExt o n e, EExt o' n' e' => extop_eqb o o' && (n =? n') && expr_eqb e e'
  | EIte c t e, EIte c' t' e' => expr_eqb c c' && expr_eqb t t' && expr_eqb e e'
  | _, _ => false
  end.

Definition is_cmp (o : binop) : bool :=
  match o with Cmpeq | Cmpneq | Cmplts | Cmpltu => true | _ => false end.

(* Expression::bits : a binary node has the bitness of its LEFT operand *)
Fixpoint e_bits (e : expr) : Z :=
  match e with
  | EScalar s => sbits s
  | EConst c => cbits c
  | EBin o l _ => if is_cmp o then 1 else e_bits l
  | EExt _ bits _ => bits
  | EIte _ t _ => e_bits t
  end.

(* checked constructors *)
Definition mk_bin (o : binop) (l r : expr) : res expr :=
  if negb (e_bits l =? e_bits r) then Err ESort else Ok (EBin o l r).
Definition mk_ext (o : extop) (bits : Z) (src : expr) : res expr :=
  match o with
  | Zext | Sext => if (bits <=? e_bits src) || (e_bits src =? 0) then Err ESort else Ok (EExt o bits src)
  | Trun => if (e_bits src <=? bits) || (e_bits src =? 0) then Err ESort else Ok (EExt o bits src)
  end.
Definition mk_ite (c t e : expr) : res expr :=
  if negb (e_bits c =? 1) || negb (e_bits t =? e_bits e) then Err ESort else Ok (EIte c t e).

Definition c_bin (o : binop) : const -> const -> res const :=
  match o with
  | Add => c_add | Sub => c_sub | Mul => c_mul | Divu => c_divu | Modu => c_modu
  | Divs => c_divs | Mods => c_mods | And => c_and | Or => c_or | Xor => c_xor
  | Shl => c_shl | Shr => c_shr | AShr => c_ashr
  | Cmpeq => c_cmpeq | Cmpneq => c_cmpneq | Cmplts => c_cmplts | Cmpltu => c_cmpltu
  end.
Definition c_ext (o : extop) : Z -> const -> res const :=
  match o with Zext => c_zext | Sext => c_sext | Trun => c_trun end.

(* executor::eval -- operands evaluated left to right, `?` on each *)
Fixpoint eval (e : expr) : res const :=
  match e with
  | EScalar _ => Err EExecScalar
  | EConst c => Ok c
  | EBin o l r => a <- eval l ;; b <- eval r ;; c_bin o a b
  | EExt o bits x => a <- eval x ;; c_ext o bits a
  | EIte c t f => cv <- eval c ;; if c_is_one cv then eval t else eval f
  end.

(* Expression::map_to_expression specialised to replace_scalar: children are rebuilt
   through the checked constructors, left to right *)
Fixpoint replace_scalar (e : expr) (s : scalar) (by_ : expr) : res expr :=
  match e with
  | EScalar t => if scalar_eqb t s then Ok by_ else Ok e
  | EConst _ => Ok e
  | EBin o l r => l' <- replace_scalar l s by_ ;; r' <- replace_scalar r s by_ ;; mk_bin o l' r'
  | EExt o bits x => x' <- replace_scalar x s by_ ;; mk_ext o bits x'
  | EIte c t f => c' <- replace_scalar c s by_ ;; t' <- replace_scalar t s by_ ;;
                  f' <- replace_scalar f s by_ ;; mk_ite c' t' f'
  end.

Fixpoint all_constants (e : expr) : bool :=
  match e with
  | EScalar _ => false
  | EConst _ => true
  | EBin _ l r => all_constants l && all_constants r
  | EExt _ _ x => all_constants x
  | EIte c t f => all_constants c && all_constants t && all_constants f
  end.

Fixpoint scalars (e : expr) : list scalar :=
  match e with
  | EScalar s => [s]
  | EConst _ => []
  | EBin _ l r => scalars l ++ scalars r
  | EExt _ _ x => scalars x
  | EIte c t f => scalars c ++ scalars t ++ scalars f
  end.

(* il::expr_const(value: u64, bits) *)
Definition expr_const (v w : Z) : expr := EConst (new_big v w).

(* Expression::sra as repaired by the `fix:` commit *)
Definition sra (lhs rhs : expr) : res expr :=
  if negb (e_bits lhs =? e_bits rhs) then Err ESort else
  let w := e_bits rhs in
  e0 <- mk_bin Shr lhs rhs ;;
  allones <- (if w <=? 64 then Ok (expr_const 18446744073709551615 w)
              else c <- c_sub (new_big 0 w) (new_big 1 w) ;; Ok (EConst c)) ;;
  d <- mk_bin Sub (expr_const w w) rhs ;;
  ov <- mk_bin Cmpltu (expr_const w w) rhs ;;
  amt <- mk_ite ov (expr_const 0 w) d ;;
  mask <- mk_bin Shl allones amt ;;
  neg <- mk_bin Cmplts lhs (expr_const 0 (e_bits lhs)) ;;
  sel <- mk_ite neg mask (expr_const 0 (e_bits lhs)) ;;
  mk_bin Or e0 sel.

(* Expression::rotl *)
Definition rotl (e s : expr) : res expr :=
  a <- mk_bin Shl e s ;;
  d <- mk_bin Sub (expr_const (e_bits e) (e_bits e)) s ;;
  b <- mk_bin Shr e d ;;
  mk_bin Or a b.

(* raw trees sent by the harness: built through the public constructors on both sides *)
Inductive rexpr :=
| RScalar (s : scalar)
| RConst (v w : Z)
| RBin (o : binop) (l r : rexpr)
| RExt (o : extop) (bits : Z) (e : rexpr)
| RIte (c t e : rexpr)
| RSra (l r : rexpr)
| RRotl (l r : rexpr).

Fixpoint build (r : rexpr) : res expr :=
  match r with
  | RScalar s => Ok (EScalar s)
  | RConst v w => Ok (expr_const v w)
  | RBin o l r => l' <- build l ;; r' <- build r ;; mk_bin o l' r'
  | RExt o bits x => x' <- build x ;; mk_ext o bits x'
  | RIte c t f => c' <- build c ;; t' <- build t ;; f' <- build f ;; mk_ite c' t' f'
  | RSra l r => l' <- build l ;; r' <- build r ;; sra l' r'
  | RRotl l r => l' <- build l ;; r' <- build r ;; rotl l' r'
  end.
