(* SSA/SsaArity.v -- [U], unconditional: phi arity by construction of mk_phi.
   Whatever SsaModel.ssa_model returns for an input without phi nodes and with pairwise distinct edges, every
   phi node of the output has exactly one incoming slot per predecessor of its block (in the order of
   predecessor_indices), every slot carries the phi's own name, and the `entry` slot is present iff the block is
   the entry: condition (4) of the validator, as the boolean the validator computes. *)
From Coq Require Import ZArith List Bool NArith Lia.
From Falcon Require Import Base.Res IL.Const IL.Expr IL.Func IL.Loc Exec.Sem
     Graph.NMap Graph.Graph Graph.Algo SSA.SemSSA SSA.FuncEq SSA.SsaCheck SSA.SsaModel SSA.SsaFresh.
Import ListNotations.
Local Open Scope Z_scope.

Definition cpreds (es : list Func.edge) (i : Z) : list Z := map e_head (filter (fun e => e_tail e =? i) es).

Definition shaped (P : Z -> list Z) (en : option Z) (b : block) (ph : phi) : Prop :=
  map fst (phi_incoming ph) = P (b_index b) /\
  (forall ks, In ks (phi_incoming ph) -> sname (snd ks) = phi_name ph) /\
  match phi_entry ph with
  | Some s => en = Some (b_index b) /\ sname s = phi_name ph
  | None => en <> Some (b_index b)
  end.
Definition all_shaped P en (bs : list block) : Prop :=
  forall b ph, In b bs -> In ph (b_phis b) -> shaped P en b ph.

Lemma all_shaped_replace P en l1 b b' l2 :
  all_shaped P en (l1 ++ b :: l2) -> (forall ph, In ph (b_phis b') -> shaped P en b' ph) ->
  all_shaped P en (l1 ++ b' :: l2).
Proof.
  intros H Hb' x ph Hx Hph. apply in_app_or in Hx. destruct Hx as [Hx|[<-|Hx]].
  - apply H; [apply in_or_app; left; assumption|assumption].
  - apply Hb'. assumption.
  - apply H; [apply in_or_app; right; right; assumption|assumption].
Qed.

Lemma update_block_split_idx : forall bs i f bs', update_block bs i f = Ok bs' ->
  exists l1 b l2, bs = l1 ++ b :: l2 /\ bs' = l1 ++ f b :: l2 /\ b_index b = i.
Proof.
  induction bs as [|x t IH]; intros i f bs' H; cbn [update_block] in H; [discriminate|].
  destruct (b_index x =? i) eqn:Ex.
  - injection H as <-. exists [], x, t. apply Z.eqb_eq in Ex. auto.
  - destruct (update_block t i f) as [r|?|] eqn:E; cbn [bind] in H; try discriminate. injection H as <-.
    destruct (IH _ _ _ E) as (l1 & b & l2 & -> & -> & Hb). exists (x :: l1), b, l2. auto.
Qed.

(* ---------------------------------------------------------------- phi insertion *)
Definition J1 (g0 g : cfg) : Prop :=
  Func.g_edges g = Func.g_edges g0 /\ g_entry g = g_entry g0 /\
  all_shaped (cpreds (Func.g_edges g0)) (g_entry g0) (g_blocks g).

Lemma phi_step_shaped g0 s defs entry st d st' : g_entry g0 = Some entry ->
  phi_step s defs entry st d = Ok st' -> J1 g0 (snd st) -> J1 g0 (snd st').
Proof.
  intros Hen H HJ. destruct st as [[q ins] g]. unfold phi_step in H. cbn [snd] in *.
  destruct (memZ (Z.of_N d) ins); [injection H as <-; assumption|].
  destruct (mk_phi g s (Z.of_N d) entry) as [ph|?|] eqn:Em; cbn [bind] in H; try discriminate.
  match type of H with context [update_block ?B ?I ?F] => destruct (update_block B I F) as [bs|?|] eqn:Eu end;
    cbn [bind] in H; try discriminate.
  injection H as <-. cbn [snd]. destruct HJ as (He & Hent & Hsh).
  destruct (update_block_split_idx _ _ _ _ Eu) as (l1 & b & l2 & Hb & Hb' & Hi).
  split; [exact He|]. split; [exact Hent|]. cbn [set_blocks g_blocks]. rewrite Hb'. rewrite Hb in Hsh.
  apply (all_shaped_replace _ _ _ b); [assumption|]. cbn [b_phis b_index]. intros p Hp.
  apply in_app_or in Hp. destruct Hp as [Hp|[<-|[]]].
  - destruct (Hsh b p) as (H1 & H2 & H3); [apply in_or_app; right; left; reflexivity|assumption|]. repeat split; assumption.
  - unfold mk_phi, cfg_predecessor_indices, cfg_edges_in in Em. destruct (has_block g (Z.of_N d)); cbn [bind] in Em; try discriminate.
    injection Em as <-. unfold shaped. cbn [phi_incoming phi_entry phi_name phi_out b_index]. split; [|split].
    + rewrite map_map. cbn [fst]. rewrite map_id. rewrite He, Hi. unfold cpreds. reflexivity.
    + intros ks Hks. apply in_map_iff in Hks. destruct Hks as [x [<- _]]. reflexivity.
    + rewrite Hi. destruct (Z.of_N d =? entry) eqn:Ee.
      * apply Z.eqb_eq in Ee. split; [congruence|reflexivity].
      * apply Z.eqb_neq in Ee. congruence.
Qed.

Lemma phi_loop_shaped g0 dfs s defs entry : g_entry g0 = Some entry -> forall fuel q ins g g',
  phi_loop fuel dfs s defs entry q ins g = Ok g' -> J1 g0 g -> J1 g0 g'.
Proof.
  intros Hen. induction fuel as [|fuel IH]; intros q ins g g' H HJ; cbn [phi_loop] in H; [discriminate|].
  destruct q as [|b q]; [injection H as <-; assumption|].
  destruct (nm_idx (Z.to_N b) dfs) as [df|?|]; cbn [bind] in H; try discriminate.
  match type of H with context [fold_left ?F df (Ok (q, ins, g))] =>
    destruct (fold_left F df (Ok (q, ins, g))) as [[[q2 ins2] g2]|?|] eqn:E2 end; cbn [bind] in H; try discriminate.
  eapply IH; [exact H|].
  refine (fold_res_pres _ (fun st => J1 g0 (snd st)) df _ _ _ E2 HJ).
  intros st d st' _ Hstep Hst. eapply phi_step_shaped; eauto.
Qed.

Lemma insert_phi_nodes_shaped g g1 : insert_phi_nodes g = Ok g1 -> (forall b, In b (g_blocks g) -> b_phis b = []) -> J1 g g1.
Proof.
  unfold insert_phi_nodes. intros H Hno. destruct (g_entry g) as [entry|] eqn:Hen; [|discriminate].
  destruct (cfg_graph g) as [gr|?|]; cbn [bind] in H; try discriminate.
  destruct (compute_dominance_frontiers gr (Z.to_N entry)) as [dfs|?|]; cbn [bind] in H; try discriminate.
  assert (H0 : J1 g g).
  { split; [reflexivity|]. split; [reflexivity|]. intros b ph Hb Hph. rewrite (Hno b Hb) in Hph. destruct Hph. }
  refine (fold_res_pres _ (J1 g) (scalars_mutated_in_blocks g) _ _ _ H H0).
  intros g' [sc defs] g'' _ Hstep Hg'. cbn [fst snd] in Hstep.
  destruct (negb (mem_scalar sc (compute_non_local_scalars g))); [injection Hstep as <-; assumption|].
  eapply phi_loop_shaped; eauto.
Qed.

(* ---------------------------------------------------------------- renaming keeps the shape *)
Lemma rename_phi_outs_shape : forall phis v phis' v', rename_phi_outs v phis = Ok (phis', v') ->
  forall ph', In ph' phis' -> exists ph, In ph phis /\ phi_incoming ph' = phi_incoming ph /\
                                          phi_entry ph' = phi_entry ph /\ phi_name ph' = phi_name ph.
Proof.
  induction phis as [|p t IH]; intros v phis' v' H ph' Hin; cbn [rename_phi_outs] in H.
  - injection H as <- _. destruct Hin.
  - destruct (new_version v (phi_out p)) as [[c1 v1]|?|]; cbn [bind fst snd] in H; try discriminate.
    destruct (rename_phi_outs v1 t) as [[t1 v2]|?|] eqn:E2; cbn [bind fst snd] in H; try discriminate.
    injection H as <- _. destruct Hin as [<-|Hin].
    + exists p. split; [left; reflexivity|]. auto.
    + destruct (IH _ _ _ E2 _ Hin) as (ph & Hph & R). exists ph. split; [right; assumption|assumption].
Qed.

Lemma shaped_transfer P en b b' ph ph' : b_index b' = b_index b ->
  phi_incoming ph' = phi_incoming ph -> phi_entry ph' = phi_entry ph -> phi_name ph' = phi_name ph ->
  shaped P en b ph -> shaped P en b' ph'.
Proof. intros Hi H1 H2 H3 (S1 & S2 & S3). unfold shaped. rewrite Hi, H1, H2, H3. auto. Qed.

Lemma patch_phi_shaped P en b v node ph : shaped P en b ph -> shaped P en b (patch_phi v node ph).
Proof.
  intros (S1 & S2 & S3). unfold shaped, patch_phi. cbn [phi_incoming phi_entry phi_name phi_out]. split; [|split].
  - rewrite <- S1. rewrite map_map. apply map_ext. intros [k sc]. cbn [fst snd]. destruct (k =? node); reflexivity.
  - intros ks Hks. apply in_map_iff in Hks. destruct Hks as [[k sc] [<- Hk]]. specialize (S2 _ Hk). cbn [fst snd] in *.
    destruct (k =? node); cbn [snd set_ssa sname]; assumption.
  - exact S3.
Qed.

Lemma dom_walk_shaped P en : forall fuel dt node g v g' v',
  dom_walk fuel dt node (g, v) = Ok (g', v') -> all_shaped P en (g_blocks g) -> all_shaped P en (g_blocks g').
Proof.
  induction fuel as [|fuel IH]; intros dt node g v g' v' H Hsh; cbn [dom_walk] in H; [discriminate|].
  destruct (cfg_block g node) as [blk|?|] eqn:Eb; cbn [bind] in H; try discriminate.
  destruct (rename_block (start_new_scope v) blk) as [[b' v2]|?|] eqn:Er; cbn [bind fst snd] in H; try discriminate.
  destruct (update_block (g_blocks g) node (fun _ => b')) as [bs1|?|] eqn:Eu; cbn [bind] in H; try discriminate.
  destruct (cfg_successor_indices (set_blocks g bs1) node) as [succs|?|] eqn:Es; cbn [bind] in H; try discriminate.
  match type of H with context [fold_left ?F succs (Ok (set_blocks g bs1))] =>
    destruct (fold_left F succs (Ok (set_blocks g bs1))) as [g2|?|] eqn:E2 end; cbn [bind] in H; try discriminate.
  destruct (successors dt (Z.to_N node)) as [kids|?|] eqn:Ek; cbn [bind] in H; try discriminate.
  match type of H with context [fold_left ?F kids (Ok (g2, v2))] =>
    destruct (fold_left F kids (Ok (g2, v2))) as [[g3 v3]|?|] eqn:E3 end; cbn [bind fst snd] in H; try discriminate.
  injection H as <- _.
  assert (H1 : all_shaped P en bs1).
  { unfold cfg_block in Eb. destruct (find_block (g_blocks g) node) as [blk0|] eqn:Ef; [|discriminate]. injection Eb as ->.
    destruct (find_block_split_first _ _ _ Ef _ _ Eu) as (l1 & l2 & Hb & Hb1). rewrite Hb1. rewrite Hb in Hsh.
    apply (all_shaped_replace _ _ _ blk); [assumption|]. intros ph' Hph'.
    unfold rename_block in Er.
    destruct (rename_phi_outs (start_new_scope v) (b_phis blk)) as [[ps v1]|?|] eqn:E1; cbn [bind fst snd] in Er; try discriminate.
    destruct (rename_instrs v1 (b_instrs blk)) as [[is1 v2']|?|]; cbn [bind fst snd] in Er; try discriminate.
    injection Er as <- _. cbn [b_phis] in Hph'. destruct (rename_phi_outs_shape _ _ _ _ E1 _ Hph') as (ph & Hph & R1 & R2 & R3).
    apply (shaped_transfer P en blk _ ph ph' eq_refl R1 R2 R3). apply Hsh; [apply in_or_app; right; left; reflexivity|assumption]. }
  assert (H2 : all_shaped P en (g_blocks g2)).
  { refine (fold_res_pres _ (fun gc => all_shaped P en (g_blocks gc)) succs _ _ _ E2 H1).
    intros gc s gc' _ Hstep Hgc. cbv beta in Hstep.
    destruct (cfg_edge gc node s) as [ed|?|]; cbn [bind] in Hstep; try discriminate.
    match type of Hstep with context [update_block ?B ?I ?F] => destruct (update_block B I F) as [bs|?|] eqn:Eu2 end;
      cbn [bind] in Hstep; try discriminate.
    injection Hstep as <-. cbn [set_edges set_blocks g_blocks].
    destruct (update_block_split _ _ _ _ Eu2) as (m1 & sb & m2 & Hm & Hm'). rewrite Hm'. rewrite Hm in Hgc.
    apply (all_shaped_replace _ _ _ sb); [assumption|]. cbn [b_phis]. intros ph' Hph'.
    apply in_map_iff in Hph'. destruct Hph' as [ph [<- Hph]].
    apply (shaped_transfer P en sb _ (patch_phi v2 node ph) _ eq_refl eq_refl eq_refl eq_refl). apply patch_phi_shaped.
    apply Hgc; [apply in_or_app; right; left; reflexivity|assumption]. }
  refine (fold_res_pres _ (fun st => all_shaped P en (g_blocks (fst st))) kids _ _ _ E3 H2).
  intros [gc vc] k [gc' vc'] _ Hstep Hgc. cbn [fst] in *. eapply IH; eauto.
Qed.

(* ---------------------------------------------------------------- the boolean of the validator *)
Lemma preds_keys es i : cpreds es i = map fst (filter (fun k => snd k =? i) (map (fun e => (e_head e, e_tail e)) es)).
Proof.
  unfold cpreds. induction es as [|e t IH]; cbn [map filter]; [reflexivity|]. cbn [snd].
  destruct (e_tail e =? i); cbn [map fst]; rewrite IH; reflexivity.
Qed.
Lemma nodup_preds (ks : list (Z * Z)) i : NoDup ks -> NoDup (map fst (filter (fun k => snd k =? i) ks)).
Proof.
  induction 1 as [|[h t] r Hx Hr IH]; cbn [filter map]; [constructor|]. cbn [snd]. destruct (t =? i) eqn:E; [|assumption].
  cbn [map fst]. constructor; [|assumption]. intros Hi. apply in_map_iff in Hi. destruct Hi as [[h2 t2] [E2 H2]].
  apply filter_In in H2. destruct H2 as [H2 E3]. cbn [fst snd] in *. apply Z.eqb_eq in E, E3. subst. contradiction.
Qed.
Lemma NoDup_nodupZ_local l : NoDup l -> nodupZ l = true.
Proof.
  induction 1 as [|x t Hx Ht IH]; cbn [nodupZ]; [reflexivity|]. rewrite IH, andb_true_r. apply negb_true_iff.
  destruct (existsb (Z.eqb x) t) eqn:E; [|reflexivity]. exfalso. apply existsb_exists in E.
  destruct E as [y [Hy E]]. apply Z.eqb_eq in E. subst. contradiction.
Qed.
Lemma memZ_refl_all l : forallb (fun p => memZ p l) l = true.
Proof. apply forallb_forall. intros x Hx. unfold memZ. apply existsb_exists. exists x. split; [assumption|apply Z.eqb_refl]. Qed.

Lemma shaped_arity_ok f' b ph : NoDup (map (fun e => (e_head e, e_tail e)) (f_edges f')) ->
  shaped (cpreds (f_edges f')) (g_entry (f_cfg f')) b ph -> phi_arity_ok f' b ph = true.
Proof.
  intros Hnd (S1 & S2 & S3). unfold phi_arity_ok. fold (cpreds (f_edges f') (b_index b)). unfold preds. fold (cpreds (f_edges f') (b_index b)).
  rewrite S1. rewrite !memZ_refl_all.
  assert (Hn : nodupZ (cpreds (f_edges f') (b_index b)) = true).
  { rewrite preds_keys. apply NoDup_nodupZ_local. apply nodup_preds. assumption. }
  rewrite Hn. cbn [andb].
  assert (Hs : forallb (fun ks => N.eqb (sname (snd ks)) (phi_name ph)) (phi_incoming ph) = true).
  { apply forallb_forall. intros ks Hks. apply N.eqb_eq. apply S2. assumption. }
  rewrite Hs. cbn [andb].
  destruct (phi_entry ph) as [s|].
  - destruct S3 as [E1 E2]. rewrite E1, E2, N.eqb_refl. cbn [optZ_eqb]. rewrite Z.eqb_refl. reflexivity.
  - destruct (optZ_eqb (g_entry (f_cfg f')) (Some (b_index b))) eqn:E; [|reflexivity]. exfalso. apply S3.
    destruct (g_entry (f_cfg f')) as [x|]; cbn [optZ_eqb] in E; [|discriminate]. apply Z.eqb_eq in E. congruence.
Qed.

Lemma all_shaped_ext P P' en bs : (forall i, P i = P' i) -> all_shaped P en bs -> all_shaped P' en bs.
Proof. intros HP H b ph Hb Hph. destruct (H b ph Hb Hph) as (S1 & S2 & S3). unfold shaped. rewrite <- HP. auto. Qed.

Theorem ssa_model_arity f f' : ssa_model f = Ok f' ->
  (forall b, In b (f_blocks f) -> b_phis b = []) ->
  NoDup (map (fun e => (e_head e, e_tail e)) (f_edges f)) ->
  forallb (fun b => forallb (phi_arity_ok f' b) (b_phis b)) (f_blocks f') = true.
Proof.
  intros Hm Hno Hnd. pose proof (ssa_model_erase _ _ Hm) as Her.
  assert (Hk : map (fun e => (e_head e, e_tail e)) (f_edges f') = map (fun e => (e_head e, e_tail e)) (f_edges f)).
  { apply (f_equal (fun x => map (fun e => (e_head e, e_tail e)) (Func.g_edges (f_cfg x)))) in Her.
    unfold erase_func, erase_cfg in Her. cbn [f_cfg Func.g_edges] in Her. rewrite !map_map in Her. exact Her. }
  assert (Hen : g_entry (f_cfg f') = g_entry (f_cfg f)).
  { apply (f_equal (fun x => g_entry (f_cfg x))) in Her. exact Her. }
  unfold ssa_model in Hm.
  destruct (insert_phi_nodes (f_cfg f)) as [g1|?|] eqn:E1; cbn [bind] in Hm; try discriminate.
  destruct (rename_scalars g1) as [g2|?|] eqn:E2; cbn [bind] in Hm; try discriminate. injection Hm as <-.
  destruct (insert_phi_nodes_shaped _ _ E1 Hno) as (_ & _ & Hs1).
  unfold rename_scalars in E2. destruct (g_entry g1) as [entry|]; [|discriminate].
  destruct (cfg_graph g1) as [gr|?|]; cbn [bind] in E2; try discriminate.
  destruct (compute_dominator_tree gr (Z.to_N entry)) as [dt|?|]; cbn [bind] in E2; try discriminate.
  destruct (dom_walk (S (length (g_blocks g1))) dt entry (g1, mkv [] [])) as [[g3 v3]|?|] eqn:Ew; cbn [bind fst] in E2; try discriminate.
  injection E2 as <-. pose proof (dom_walk_shaped _ _ _ _ _ _ _ _ _ Ew Hs1) as Hs2.
  cbn [f_cfg] in *. apply forallb_forall. intros b Hb. apply forallb_forall. intros ph Hph.
  apply shaped_arity_ok.
  - unfold f_edges. cbn [f_cfg]. unfold f_edges in Hk. cbn [f_cfg] in Hk. rewrite Hk. exact Hnd.
  - unfold f_edges. cbn [f_cfg]. rewrite Hen. unfold f_blocks in Hb. cbn [f_cfg] in Hb.
    eapply (all_shaped_ext (cpreds (Func.g_edges (f_cfg f)))); [|exact Hs2| |]; [|exact Hb|exact Hph].
    intros i. rewrite !preds_keys. unfold f_edges in Hk. cbn [f_cfg] in Hk. rewrite Hk. reflexivity.
Qed.
