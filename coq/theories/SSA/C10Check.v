(* SSA/C10Check.v -- the per-case checker evaluated in the kernel by the C10 case files.
   A case = the function f given to falcon::transformation::ssa_transformation, what it returned
   (under catch_unwind), and a few initial states.
   fst (tie)    : SsaModel.ssa_model f (Gallina transcription of the algorithm over the C11 graph models)
                  = the observed result, phi nodes of a block compared as a set.
   snd (oracle) : the transformation succeeded, the VERIFIED validator accepts (f, f')
                  (SsaSound.ssa_check_sound: valid SSA + lock-step simulation for every input), and --
                  as a search aid that yields a concrete diverging state when the validator rejects,
                  and as a cross-check of the theorem when it accepts -- Sem on f and SemSSA on f'
                  run side by side from the case's initial states agree step by step. *)
From Coq Require Import ZArith List Bool NArith.
From Falcon Require Import Base.Res IL.Const IL.Expr IL.Func IL.Loc Exec.Sem SSA.SemSSA SSA.FuncEq SSA.SsaCheck SSA.SsaModel.
Import ListNotations.
Local Open Scope Z_scope.

Inductive case :=
| KSsa (f : func) (obs : res func) (inits : list sstate) (fuel : nat).

(* initial memory: n bytes from [base], given as one numeral (byte k = digit k in base 256) *)
Fixpoint bytes_of (n : nat) (a v : Z) : list (Z * Z) :=
  match n with O => [] | S n => (a, v mod 256) :: bytes_of n (a + 1) (v / 256) end.
Definition init_mem (big : bool) (base : Z) (n : nat) (v : Z) : bmem := mkbmem big (bytes_of n base v).

Definition key_name_eqb (a b : skey) : bool := N.eqb (fst a) (fst b).
Definition ev_agree (a b : event) : bool :=
  match a, b with
  | EvNone, EvNone => true
  | EvAssign k v, EvAssign k' v' => key_name_eqb k k' && const_eqb v v'
  | EvStore x v, EvStore x' v' => (x =? x') && const_eqb v v'
  | EvLoad k x v, EvLoad k' x' v' => key_name_eqb k k' && (x =? x') && const_eqb v v'
  | EvBranch x, EvBranch x' => x =? x'
  | _, _ => false
  end.
Definition mem_agree (a b : bmem) : bool :=
  Bool.eqb (bm_big a) (bm_big b) &&
  leqb (fun x y => (fst x =? fst y) && (snd x =? snd y)) (bm_bytes a) (bm_bytes b).
Definition res_agree (a b : step_result) : bool :=
  match a, b with
  | Next l st ev, Next l' st' ev' => floc_eqb l l' && mem_agree (st_mem st) (st_mem st') && ev_agree ev ev'
  | Goto x st, Goto x' st' => (x =? x') && mem_agree (st_mem st) (st_mem st')
  | Exit st ev, Exit st' ev' => mem_agree (st_mem st) (st_mem st') && ev_agree ev ev'
  | Stuck e, Stuck e' => err_eqb e e'
  | _, _ => false
  end.
Definition item_agree (a b : trace_item) : bool :=
  floc_eqb (ti_loc a) (ti_loc b) && mem_agree (st_mem (ti_before a)) (st_mem (ti_before b)) &&
  res_agree (ti_res a) (ti_res b).

(* first index of an initial state on which the two executions differ *)
Definition run_agree (f f' : func) (fuel : nat) (st : sstate) : bool :=
  match from_function f, ssa_start f' st with
  | Some (Ok l), Some (Ok (l', st')) =>
      floc_eqb l l' && leqb item_agree (sem_run fuel f l st) (ssa_run fuel f' l' st')
  | _, _ => false
  end.

Definition ck (k : case) : bool * bool :=
  match k with
  | KSsa f obs inits fuel =>
      (model_tie f obs,
       match obs with
       | Ok f' => ssa_check f f' && forallb (run_agree f f' fuel) inits
       | _ => false
       end)
  end.

(* diagnosis helpers (used by hand / by notes, not by vcheck) *)
Definition diag (k : case) : list bool :=
  match k with
  | KSsa f (Ok f') inits fuel =>
      let T := infer f' in
      [func_eqb (erase_func f') f; struct_ok f'; defs_ok f'; forallb (block_ok T) (f_blocks f');
       forallb (edge_check f' T) (f_edges f'); entry_ok f' T;
       forallb (fun b => forallb (phi_arity_ok f' b) (b_phis b)) (f_blocks f')] ++ map (run_agree f f' fuel) inits
  | _ => []
  end.
