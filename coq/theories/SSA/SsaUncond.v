(* SSA/SsaUncond.v -- round 4: with C11's unbounded correctness of Semi-NCA (Graph.SemiNcaFinal.snca_correct)
   the hypothesis `semi_nca_ok` of SsaTotal / SsaComplete / SsaIdfModel is a theorem; the only extra premise is
   that the number of blocks fits a usize. *)
From Coq Require Import ZArith List Bool NArith Lia.
From Falcon Require Import Base.Res IL.Const IL.Expr IL.Func IL.Loc Exec.Sem
     Graph.NMap Graph.Graph Graph.NMapFacts Graph.GraphInv Graph.Spec Graph.Algo Graph.Oracle Graph.SemiNcaFinal
     SSA.SemSSA SSA.FuncEq SSA.SsaCheck SSA.SsaModel SSA.SsaTotal SSA.SsaFresh SSA.SsaIdf SSA.SsaIdfModel SSA.SsaComplete.
Import ListNotations.
Local Open Scope Z_scope.

Definition blocks_fit (g : cfg) : Prop := (N.of_nat (length (g_blocks g)) <= usize_max)%N.

Lemma semi_nca_ok_holds g : cfg_wf g -> (forall e, g_entry g = Some e -> In e (bidx g)) -> blocks_fit g -> semi_nca_ok g.
Proof.
  intros Hwf Hent Hfit gr e Eg He.
  destruct (cfg_graph_ok g Hwf) as (gr' & Eg' & Hgi & Hgv & _). rewrite Eg in Eg'. injection Eg' as <-.
  assert (Hr : has_vertex gr (Z.to_N e) = true) by (apply Hgv, block_vsN, Hent; assumption).
  assert (Hlen : (length (vertex_indices gr) <= length (g_blocks g))%nat).
  { replace (length (g_blocks g)) with (length (vsN g)) by (unfold vsN, bidx; rewrite !map_length; reflexivity).
    apply NoDup_incl_length.
    - unfold vertex_indices. apply nsorted_nodup. apply (gi_vsorted gr Hgi).
    - intros v Hv. apply Hgv. apply has_vertex_keys. assumption. }
  destruct (snca_correct gr Hgi (Z.to_N e) Hr) as (m & Em & _ & Hm).
  { unfold blocks_fit in Hfit. lia. }
  exists m. split; assumption.
Qed.

Lemma cfg_inv_entry g e : cfg_inv g = true -> g_entry g = Some e -> In e (bidx g).
Proof.
  intros Hinv He. unfold cfg_inv in Hinv. apply andb_prop in Hinv. destruct Hinv as [Hinv _]. apply andb_prop in Hinv.
  destruct Hinv as [_ Hen]. rewrite He in Hen. apply has_block_bidx. assumption.
Qed.
Lemma cfg_inv_semi_nca g : cfg_inv g = true -> blocks_fit g -> semi_nca_ok g.
Proof. intros Hinv Hfit. apply semi_nca_ok_holds; [apply cfg_inv_wf; assumption| |assumption]. intros e He. eapply cfg_inv_entry; eauto. Qed.

(* [U] totality of the model *)
Theorem ssa_total f e : cfg_inv (f_cfg f) = true -> g_entry (f_cfg f) = Some e -> blocks_fit (f_cfg f) ->
  exists f', ssa_model f = Ok f' /\ erase_func f' = erase_func f.
Proof. intros Hinv He Hfit. apply (ssa_total_partial f e Hinv He). apply cfg_inv_semi_nca; assumption. Qed.

(* [U] the proved part of completeness *)
Theorem ssa_correct_partial' f e :
  cfg_inv (f_cfg f) = true -> g_entry (f_cfg f) = Some e -> erase_func f = f -> blocks_fit (f_cfg f) ->
  exists f', ssa_model f = Ok f' /\
             erase_func f' = f /\ func_eqb (erase_func f') f = true /\ struct_ok f' = true /\
             NoDup (map skey_of (filter versioned (all_defs f'))) /\
             forallb (fun b => forallb (phi_arity_ok f' b) (b_phis b)) (f_blocks f') = true /\
             ssa_check f f' = remaining f'.
Proof. intros Hinv He Hf Hfit. apply (ssa_correct_partial f e Hinv He Hf). apply cfg_inv_semi_nca; assumption. Qed.

(* [U] the placement covers the iterated dominance frontier *)
Theorem idf_covered g g1 e : cfg_inv g = true -> g_entry g = Some e -> blocks_fit g ->
  insert_phi_nodes g = Ok g1 ->
  exists gr, cfg_graph g = Ok gr /\
    forall sc defs, In (sc, defs) (scalars_mutated_in_blocks g) ->
      mem_scalar sc (compute_non_local_scalars g) = true ->
      exists INS, (forall i, In i INS -> has_phi g1 i sc) /\
        forall d y, In (Z.of_N d) defs \/ In (Z.of_N d) INS ->
                    in_DF (edge_keys gr) (Z.to_N e) d y -> In (Z.of_N y) INS.
Proof.
  intros Hinv He Hfit. apply model_idf_covered; [apply cfg_inv_wf; assumption|assumption|eapply cfg_inv_entry; eauto|].
  apply cfg_inv_semi_nca; assumption.
Qed.
