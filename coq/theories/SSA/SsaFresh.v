(* SSA/SsaFresh.v -- [U], unconditional: whatever SsaModel.ssa_model returns, its versioned definitions
   (assign / load destinations, phi outputs, declared intrinsic writes) are pairwise distinct, provided the
   input carries no versions.  Versions are fresh by construction of ScalarVersioning: the per-name counter
   only grows and every new_version hands out the current value.  No dominance argument is needed: renaming a
   block replaces its definitions by fresh ones, whatever was there before. *)
From Coq Require Import ZArith List Bool NArith Lia.
From Falcon Require Import Base.Res IL.Const IL.Expr IL.Func IL.Loc Exec.Sem
     Graph.NMap Graph.Graph Graph.Algo SSA.SemSSA SSA.FuncEq SSA.SsaCheck SSA.SsaModel.
Import ListNotations.
Local Open Scope Z_scope.

Definition cnt (v : vers) (x : N) : N := match assocN (v_counter v) x with Some c => c | None => 1%N end.
Definition vkeys (l : list scalar) : list skey := map skey_of (filter versioned l).
Definition below (v : vers) (k : skey) : Prop :=
  match snd k with Some n => (n < cnt v (fst k))%N | None => True end.
Definition fresh_in (v v' : vers) (k : skey) : Prop :=
  exists n, snd k = Some n /\ (cnt v (fst k) <= n < cnt v' (fst k))%N.
Definition mono (v v' : vers) : Prop := forall x, (cnt v x <= cnt v' x)%N.
(* a batch of keys handed out between v and v' *)
Definition batch (v v' : vers) (ks : list skey) : Prop :=
  NoDup ks /\ (forall k, In k ks -> fresh_in v v' k) /\ mono v v'.

Lemma vkeys_app a b : vkeys (a ++ b) = vkeys a ++ vkeys b.
Proof. unfold vkeys. rewrite filter_app, map_app. reflexivity. Qed.

Lemma mono_refl v : mono v v. Proof. intros x. lia. Qed.
Lemma batch_nil v : batch v v [].
Proof. split; [constructor|]. split; [intros k []|apply mono_refl]. Qed.

Lemma fresh_below v v' k k' : fresh_in v v' k -> below v k' -> k <> k'.
Proof.
  intros (n & Hn & Hr) Hb E. subst k'. unfold below in Hb. rewrite Hn in Hb. lia.
Qed.
Lemma below_mono v v' k : mono v v' -> below v k -> below v' k.
Proof. intros Hm. unfold below. destruct (snd k); [|auto]. specialize (Hm (fst k)). lia. Qed.
Lemma fresh_is_below v v' k : fresh_in v v' k -> below v' k.
Proof. intros (n & Hn & Hr). unfold below. rewrite Hn. lia. Qed.

Lemma NoDup_app_intro {A} (a b : list A) : NoDup a -> NoDup b -> (forall x, In x a -> ~ In x b) -> NoDup (a ++ b).
Proof.
  induction a as [|x t IH]; intros Ha Hb Hd; cbn [app]; [assumption|].
  inversion Ha as [|? ? Hx Ht]; subst. constructor.
  - intros Hi. apply in_app_or in Hi. destruct Hi as [Hi|Hi]; [contradiction|]. apply (Hd x); [left; reflexivity|assumption].
  - apply IH; auto. intros y Hy. apply Hd. right. assumption.
Qed.
Lemma NoDup_app_l {A} (a b : list A) : NoDup (a ++ b) -> NoDup a.
Proof. induction a as [|x t IH]; intros H; [constructor|]. cbn [app] in H. inversion H as [|? ? Hx Ht]; subst.
  constructor; [intros Hi; apply Hx; apply in_or_app; left; assumption|apply IH; assumption]. Qed.
Lemma NoDup_app_r {A} (a b : list A) : NoDup (a ++ b) -> NoDup b.
Proof. induction a as [|x t IH]; intros H; [assumption|]. cbn [app] in H. inversion H; subst. apply IH. assumption. Qed.
Lemma NoDup_app_disj {A} (a b : list A) : NoDup (a ++ b) -> forall x, In x a -> ~ In x b.
Proof.
  induction a as [|y t IH]; intros H x Hx; [destruct Hx|]. cbn [app] in H. inversion H as [|? ? Hy Ht]; subst.
  destruct Hx as [<-|Hx]; [intros Hb; apply Hy; apply in_or_app; right; assumption|apply IH; assumption].
Qed.

Lemma batch_app v v1 v2 k1 k2 : batch v v1 k1 -> batch v1 v2 k2 -> batch v v2 (k1 ++ k2).
Proof.
  intros (N1 & F1 & M1) (N2 & F2 & M2). split; [|split].
  - apply NoDup_app_intro; auto. intros k Hk1 Hk2. apply F1 in Hk1. apply F2 in Hk2.
    apply fresh_is_below in Hk1. exact (fresh_below _ _ _ _ Hk2 Hk1 eq_refl).
  - intros k Hk. apply in_app_or in Hk. destruct Hk as [Hk|Hk].
    + destruct (F1 k Hk) as (n & Hn & Hr). exists n. split; [assumption|]. specialize (M2 (fst k)). lia.
    + destruct (F2 k Hk) as (n & Hn & Hr). exists n. split; [assumption|]. specialize (M1 (fst k)). lia.
  - intros x. specialize (M1 x). specialize (M2 x). lia.
Qed.

Lemma assocN_cons {A} k (a : A) l x : assocN ((k, a) :: l) x = if N.eqb k x then Some a else assocN l x.
Proof. reflexivity. Qed.

Lemma new_version_spec v s c v' : new_version v s = Ok (c, v') ->
  batch v v' [(sname s, Some c)] /\ v_counter v' = (sname s, N.succ c) :: v_counter v.
Proof.
  unfold new_version. destruct (v_scopes v) as [|sc r]; [discriminate|]. intros H. injection H as <- <-.
  split; [|reflexivity]. split; [constructor; [intros []|constructor]|]. split.
  - intros k [<-|[]]. eexists. split; [reflexivity|]. cbn [fst]. unfold cnt at 2. cbn [v_counter].
    rewrite assocN_cons, N.eqb_refl. fold (cnt v (sname s)). lia.
  - intros x. unfold cnt at 2. cbn [v_counter]. rewrite assocN_cons. destruct (N.eqb (sname s) x) eqn:E.
    + apply N.eqb_eq in E. subst x. fold (cnt v (sname s)). lia.
    + fold (cnt v x). lia.
Qed.

Lemma vkeys_one s c : vkeys [set_ssa s (Some c)] = [(sname s, Some c)].
Proof. reflexivity. Qed.

Lemma fresh_expr_spec : forall e v e' v', fresh_expr v e = Ok (e', v') -> batch v v' (vkeys (scalars e')).
Proof.
  induction e as [s|c|o l IHl r IHr|o n x IHx|c IHc t IHt f IHf]; intros v e' v' H; cbn [fresh_expr] in H.
  - destruct (new_version v s) as [[c1 v1]|?|] eqn:E; cbn [bind fst snd] in H; try discriminate.
    injection H as <- <-. cbn [scalars]. rewrite vkeys_one. apply (new_version_spec _ _ _ _ E).
  - injection H as <- <-. apply batch_nil.
  - destruct (fresh_expr v l) as [[l1 v1]|?|] eqn:E1; cbn [bind fst snd] in H; try discriminate.
    destruct (fresh_expr v1 r) as [[r1 v2]|?|] eqn:E2; cbn [bind fst snd] in H; try discriminate.
    injection H as <- <-. cbn [scalars]. rewrite vkeys_app. eapply batch_app; eauto.
  - destruct (fresh_expr v x) as [[x1 v1]|?|] eqn:E1; cbn [bind fst snd] in H; try discriminate.
    injection H as <- <-. cbn [scalars]. eauto.
  - destruct (fresh_expr v c) as [[c1 v1]|?|] eqn:E1; cbn [bind fst snd] in H; try discriminate.
    destruct (fresh_expr v1 t) as [[t1 v2]|?|] eqn:E2; cbn [bind fst snd] in H; try discriminate.
    destruct (fresh_expr v2 f) as [[f1 v3]|?|] eqn:E3; cbn [bind fst snd] in H; try discriminate.
    injection H as <- <-. cbn [scalars]. rewrite !vkeys_app. eapply batch_app; [eauto|]. eapply batch_app; eauto.
Qed.

Lemma fresh_exprs_spec : forall es v es' v', fresh_exprs v es = Ok (es', v') -> batch v v' (vkeys (flat_map scalars es')).
Proof.
  induction es as [|e t IH]; intros v es' v' H; cbn [fresh_exprs] in H.
  - injection H as <- <-. apply batch_nil.
  - destruct (fresh_expr v e) as [[e1 v1]|?|] eqn:E1; cbn [bind fst snd] in H; try discriminate.
    destruct (fresh_exprs v1 t) as [[t1 v2]|?|] eqn:E2; cbn [bind fst snd] in H; try discriminate.
    injection H as <- <-. cbn [flat_map]. rewrite vkeys_app. eapply batch_app; [eapply fresh_expr_spec|]; eauto.
Qed.

Definition op_defs (o : operation) : list scalar := opt_list (op_scalars_written o).

Lemma rename_op_spec v o o' v' : rename_op v o = Ok (o', v') -> batch v v' (vkeys (op_defs o')).
Proof.
  destruct o as [d src|idx src|d idx|t|i|p]; cbn [rename_op]; intros H.
  - destruct (new_version v d) as [[c1 v1]|?|] eqn:E; cbn [bind fst snd] in H; try discriminate.
    injection H as <- <-. unfold op_defs. cbn [op_scalars_written opt_list]. rewrite vkeys_one. apply (new_version_spec _ _ _ _ E).
  - injection H as <- <-. apply batch_nil.
  - destruct (new_version v d) as [[c1 v1]|?|] eqn:E; cbn [bind fst snd] in H; try discriminate.
    injection H as <- <-. unfold op_defs. cbn [op_scalars_written opt_list]. rewrite vkeys_one. apply (new_version_spec _ _ _ _ E).
  - injection H as <- <-. apply batch_nil.
  - destruct (in_written i) as [ws|] eqn:Ew.
    + destruct (fresh_exprs v ws) as [[ws1 v1]|?|] eqn:E; cbn [bind fst snd] in H; try discriminate.
      injection H as <- <-. unfold op_defs. cbn [op_scalars_written intr_scalars_written in_written option_map opt_list].
      eapply fresh_exprs_spec; eauto.
    + injection H as <- <-. unfold op_defs. cbn [op_scalars_written intr_scalars_written in_written option_map opt_list]. apply batch_nil.
  - injection H as <- <-. apply batch_nil.
Qed.

Definition instrs_defs (is_ : list instruction) : list scalar := flat_map (fun i => op_defs (i_op i)) is_.

Lemma rename_instrs_spec : forall is_ v is' v', rename_instrs v is_ = Ok (is', v') -> batch v v' (vkeys (instrs_defs is')).
Proof.
  induction is_ as [|i t IH]; intros v is' v' H; cbn [rename_instrs] in H.
  - injection H as <- <-. apply batch_nil.
  - destruct (rename_op v (i_op i)) as [[o1 v1]|?|] eqn:E1; cbn [bind fst snd] in H; try discriminate.
    destruct (rename_instrs v1 t) as [[t1 v2]|?|] eqn:E2; cbn [bind fst snd] in H; try discriminate.
    injection H as <- <-. unfold instrs_defs. cbn [flat_map i_op]. rewrite vkeys_app.
    eapply batch_app; [eapply rename_op_spec|eapply IH]; eauto.
Qed.

Lemma rename_phi_outs_spec : forall phis v phis' v', rename_phi_outs v phis = Ok (phis', v') ->
  batch v v' (vkeys (map phi_out phis')).
Proof.
  induction phis as [|p t IH]; intros v phis' v' H; cbn [rename_phi_outs] in H.
  - injection H as <- <-. apply batch_nil.
  - destruct (new_version v (phi_out p)) as [[c1 v1]|?|] eqn:E1; cbn [bind fst snd] in H; try discriminate.
    destruct (rename_phi_outs v1 t) as [[t1 v2]|?|] eqn:E2; cbn [bind fst snd] in H; try discriminate.
    injection H as <- <-. cbn [map phi_out].
    change (vkeys (set_ssa (phi_out p) (Some c1) :: map phi_out t1))
      with (vkeys ([set_ssa (phi_out p) (Some c1)] ++ map phi_out t1)).
    rewrite vkeys_app, vkeys_one. eapply batch_app; [apply (new_version_spec _ _ _ _ E1)|eauto].
Qed.

Lemma block_defs_eq b : block_defs b = map phi_out (b_phis b) ++ instrs_defs (b_instrs b).
Proof. reflexivity. Qed.

Lemma rename_block_spec v b b' v' : rename_block v b = Ok (b', v') ->
  batch v v' (vkeys (block_defs b')) /\ b_index b' = b_index b.
Proof.
  unfold rename_block. intros H.
  destruct (rename_phi_outs v (b_phis b)) as [[ps v1]|?|] eqn:E1; cbn [bind fst snd] in H; try discriminate.
  destruct (rename_instrs v1 (b_instrs b)) as [[is1 v2]|?|] eqn:E2; cbn [bind fst snd] in H; try discriminate.
  injection H as <- <-. split; [|reflexivity]. rewrite block_defs_eq. cbn [b_phis b_instrs]. rewrite vkeys_app.
  eapply batch_app; [eapply rename_phi_outs_spec|eapply rename_instrs_spec]; eauto.
Qed.

(* ================================================================ the invariant on a CFG *)
Definition cdefs (g : cfg) : list scalar := flat_map block_defs (g_blocks g).
Definition dkeys (g : cfg) : list skey := vkeys (cdefs g).
Definition Inv (g : cfg) (v : vers) : Prop := NoDup (dkeys g) /\ forall k, In k (dkeys g) -> below v k.

Lemma update_block_split : forall bs i f bs', update_block bs i f = Ok bs' ->
  exists l1 b l2, bs = l1 ++ b :: l2 /\ bs' = l1 ++ f b :: l2.
Proof.
  induction bs as [|x t IH]; intros i f bs' H; cbn [update_block] in H; [discriminate|].
  destruct (b_index x =? i).
  - injection H as <-. exists [], x, t. split; reflexivity.
  - destruct (update_block t i f) as [r|?|] eqn:E; cbn [bind] in H; try discriminate. injection H as <-.
    destruct (IH _ _ _ E) as (l1 & b & l2 & -> & ->). exists (x :: l1), b, l2. split; reflexivity.
Qed.

Lemma flat_defs_split l1 b l2 :
  vkeys (flat_map block_defs (l1 ++ b :: l2)) =
  vkeys (flat_map block_defs l1) ++ vkeys (block_defs b) ++ vkeys (flat_map block_defs l2).
Proof. rewrite flat_map_app. cbn [flat_map]. rewrite !vkeys_app. reflexivity. Qed.

Lemma inv_replace (K1 old K2 ks : list skey) v v' :
  NoDup (K1 ++ old ++ K2) -> (forall k, In k (K1 ++ old ++ K2) -> below v k) -> batch v v' ks ->
  NoDup (K1 ++ ks ++ K2) /\ forall k, In k (K1 ++ ks ++ K2) -> below v' k.
Proof.
  intros Hnd Hb (Nk & Fk & Mk).
  assert (H1 : NoDup K1) by (eapply NoDup_app_l; eassumption).
  assert (H2 : NoDup K2) by (eapply NoDup_app_r, NoDup_app_r; eassumption).
  assert (H12 : forall x, In x K1 -> ~ In x K2).
  { intros x Hx Hx2. apply (NoDup_app_disj _ _ Hnd x Hx). apply in_or_app. right. assumption. }
  split.
  - apply NoDup_app_intro; [assumption| |].
    + apply NoDup_app_intro; [assumption|assumption|]. intros k Hk Hk2.
      apply (fresh_below _ _ _ k (Fk k Hk)); [|reflexivity]. apply Hb. apply in_or_app. right. apply in_or_app. right. assumption.
    + intros k Hk1 Hk. apply in_app_or in Hk. destruct Hk as [Hk|Hk]; [|apply (H12 k); assumption].
      apply (fresh_below _ _ _ k (Fk k Hk)); [|reflexivity]. apply Hb. apply in_or_app. left. assumption.
  - intros k Hk. apply in_app_or in Hk. destruct Hk as [Hk|Hk].
    + apply (below_mono v); [assumption|]. apply Hb. apply in_or_app. left. assumption.
    + apply in_app_or in Hk. destruct Hk as [Hk|Hk]; [eapply fresh_is_below; eauto|].
      apply (below_mono v); [assumption|]. apply Hb. apply in_or_app. right. apply in_or_app. right. assumption.
Qed.

Lemma fold_res_stuck {S X} (step : S -> X -> res S) l : forall (a : res S),
  (match a with Ok _ => False | _ => True end) ->
  fold_left (fun acc x => st <- acc ;; step st x) l a = a.
Proof. induction l as [|x t IH]; intros a Ha; cbn [fold_left]; [reflexivity|]. destruct a; [contradiction| |]; cbn [bind]; apply IH; exact I. Qed.

Lemma fold_res_pres {S X} (step : S -> X -> res S) (P : S -> Prop) : forall l,
  (forall st x st', In x l -> step st x = Ok st' -> P st -> P st') ->
  forall st st', fold_left (fun acc x => s <- acc ;; step s x) l (Ok st) = Ok st' -> P st -> P st'.
Proof.
  induction l as [|x t IH]; intros H st st' E Hst; cbn [fold_left] in E; [injection E as <-; assumption|].
  cbn [bind] in E. destruct (step st x) as [s1|e|] eqn:E1.
  - eapply IH; [|exact E|]; [intros s0 x0 s0' Hx0; apply H; right; assumption|eapply H; [left; reflexivity|exact E1|assumption]].
  - rewrite fold_res_stuck in E by exact I. discriminate.
  - rewrite fold_res_stuck in E by exact I. discriminate.
Qed.

Lemma cnt_start v x : cnt (start_new_scope v) x = cnt v x. Proof. reflexivity. Qed.
Lemma cnt_end v x : cnt (end_scope v) x = cnt v x. Proof. reflexivity. Qed.
Lemma Inv_cnt g v v' : (forall x, cnt v' x = cnt v x) -> Inv g v -> Inv g v'.
Proof. intros Hc [H1 H2]. split; [assumption|]. intros k Hk. specialize (H2 k Hk). unfold below in *. destruct (snd k); [rewrite Hc|]; assumption. Qed.

Lemma patch_defs v node sb :
  block_defs (mkblock (b_index sb) (b_next sb) (b_instrs sb) (map (patch_phi v node) (b_phis sb))) = block_defs sb.
Proof. unfold block_defs. cbn [b_phis b_instrs]. rewrite map_map. reflexivity. Qed.

Lemma dom_walk_inv : forall fuel dt node g v g' v',
  dom_walk fuel dt node (g, v) = Ok (g', v') -> Inv g v -> Inv g' v'.
Proof.
  induction fuel as [|fuel IH]; intros dt node g v g' v' H Hinv; cbn [dom_walk] in H; [discriminate|].
  destruct (cfg_block g node) as [blk|?|] eqn:Eb; cbn [bind] in H; try discriminate.
  destruct (rename_block (start_new_scope v) blk) as [[b' v2]|?|] eqn:Er; cbn [bind fst snd] in H; try discriminate.
  destruct (update_block (g_blocks g) node (fun _ => b')) as [bs1|?|] eqn:Eu; cbn [bind] in H; try discriminate.
  destruct (cfg_successor_indices (set_blocks g bs1) node) as [succs|?|] eqn:Es; cbn [bind] in H; try discriminate.
  match type of H with context [fold_left ?F succs (Ok (set_blocks g bs1))] =>
    destruct (fold_left F succs (Ok (set_blocks g bs1))) as [g2|?|] eqn:E2 end; cbn [bind] in H; try discriminate.
  destruct (successors dt (Z.to_N node)) as [kids|?|] eqn:Ek; cbn [bind] in H; try discriminate.
  match type of H with context [fold_left ?F kids (Ok (g2, v2))] =>
    destruct (fold_left F kids (Ok (g2, v2))) as [[g3 v3]|?|] eqn:E3 end; cbn [bind fst snd] in H; try discriminate.
  injection H as <- <-.
  (* the block gets fresh definitions *)
  destruct (rename_block_spec _ _ _ _ Er) as [Hbatch _].
  destruct (update_block_split _ _ _ _ Eu) as (l1 & b & l2 & Hbs & Hbs1).
  assert (Hinv1 : Inv (set_blocks g bs1) v2).
  { destruct Hinv as [Hnd Hbl]. unfold Inv, dkeys, cdefs in *. cbn [set_blocks g_blocks]. rewrite Hbs in Hnd, Hbl. rewrite Hbs1.
    rewrite flat_defs_split in *. eapply inv_replace; eauto. }
  (* guards and successor phi slots: no definition changes *)
  assert (Hinv2 : Inv g2 v2).
  { refine (fold_res_pres _ (fun gc => Inv gc v2) succs _ _ _ E2 Hinv1).
    intros gc s gc' _ Hstep Hgc. cbv beta in Hstep.
    destruct (cfg_edge gc node s) as [ed|?|]; cbn [bind] in Hstep; try discriminate.
    match type of Hstep with context [update_block ?B ?I ?F] => destruct (update_block B I F) as [bs|?|] eqn:Eu2 end;
      cbn [bind] in Hstep; try discriminate.
    injection Hstep as <-. destruct (update_block_split _ _ _ _ Eu2) as (m1 & sb & m2 & Hm & Hm').
    unfold Inv, dkeys, cdefs in *. cbn [set_edges set_blocks g_blocks]. rewrite Hm in Hgc. rewrite Hm'.
    rewrite flat_defs_split in *. rewrite patch_defs. exact Hgc. }
  (* the children *)
  assert (Hinv3 : Inv g3 v3).
  { refine (fold_res_pres _ (fun st => Inv (fst st) (snd st)) kids _ _ _ E3 Hinv2).
    intros [gc vc] k [gc' vc'] _ Hstep Hgc. cbn [fst snd] in *. eapply IH; eauto. }
  eapply Inv_cnt; [|exact Hinv3]. intros x. apply cnt_end.
Qed.

(* ================================================================ phi insertion adds unversioned outputs only *)
Definition unv (g : cfg) : Prop := forall s, In s (cdefs g) -> sssa s = None.

Lemma add_def_keys (P : scalar -> Prop) : forall m s b, P s ->
  (forall s' ds, In (s', ds) m -> P s') -> forall s' ds, In (s', ds) (add_def m s b) -> P s'.
Proof.
  induction m as [|[s0 bs] t IH]; intros s b Hs Hm s' ds Hin; cbn [add_def] in Hin.
  - destruct Hin as [E|[]]. injection E as <- _. assumption.
  - destruct (scalar_eqb s0 s).
    + destruct Hin as [E|Hin]; [injection E as <- _; eapply Hm; left; reflexivity|eapply Hm; right; eassumption].
    + destruct Hin as [E|Hin]; [injection E as <- _; eapply Hm; left; reflexivity|].
      eapply IH; [exact Hs| |eassumption]. intros s'' ds' Hi'. eapply Hm. right. eassumption.
Qed.

Lemma fold_left_inv' {A B} (f : A -> B -> A) (I : A -> Prop) l :
  (forall a x, In x l -> I a -> I (f a x)) -> forall a, I a -> I (fold_left f l a).
Proof.
  induction l as [|x t IH]; intros H a Ha; cbn [fold_left]; [assumption|].
  apply IH; [intros a' x' Hx'; apply H; right; assumption|apply H; [left; reflexivity|assumption]].
Qed.

Lemma mutated_keys_defs g : forall s ds, In (s, ds) (scalars_mutated_in_blocks g) -> In s (cdefs g).
Proof.
  unfold scalars_mutated_in_blocks.
  apply (fold_left_inv' _ (fun m => forall s ds, In (s, ds) m -> In s (cdefs g))); [|intros s ds []].
  intros m b Hb Hm. apply fold_left_inv'; [|assumption]. intros m2 i Hi Hm2.
  apply fold_left_inv'; [|assumption]. intros m3 sc Hsc Hm3. apply add_def_keys; [|assumption].
  unfold cdefs. apply in_flat_map. exists b. split; [assumption|]. unfold block_defs. apply in_or_app. right.
  apply in_flat_map. exists i. split; assumption.
Qed.

Lemma phi_step_unv s defs entry st d st' : sssa s = None ->
  phi_step s defs entry st d = Ok st' -> unv (snd st) -> unv (snd st').
Proof.
  intros Hs H Hu. destruct st as [[q ins] g]. unfold phi_step in H. cbn [snd] in *.
  destruct (memZ (Z.of_N d) ins); [injection H as <-; assumption|].
  destruct (mk_phi g s (Z.of_N d) entry) as [ph|?|] eqn:Em; cbn [bind] in H; try discriminate.
  match type of H with context [update_block ?B ?I ?F] => destruct (update_block B I F) as [bs|?|] eqn:Eu end;
    cbn [bind] in H; try discriminate.
  injection H as <-. cbn [snd]. destruct (update_block_split _ _ _ _ Eu) as (l1 & b & l2 & Hb & Hb').
  assert (Hout : phi_out ph = s).
  { unfold mk_phi in Em. destruct (cfg_predecessor_indices g (Z.of_N d)); cbn [bind] in Em; try discriminate.
    injection Em as <-. reflexivity. }
  intros x Hx. unfold cdefs in Hx. cbn [set_blocks g_blocks] in Hx. rewrite Hb' in Hx.
  rewrite flat_map_app in Hx. cbn [flat_map] in Hx. apply in_app_or in Hx.
  assert (Hold : forall y, In y (flat_map block_defs l1) \/ In y (block_defs b) \/ In y (flat_map block_defs l2) -> sssa y = None).
  { intros y Hy. apply Hu. unfold cdefs. rewrite Hb, flat_map_app. cbn [flat_map]. apply in_or_app.
    destruct Hy as [Hy|[Hy|Hy]]; [left; assumption|right; apply in_or_app; left; assumption|right; apply in_or_app; right; assumption]. }
  destruct Hx as [Hx|Hx]; [apply Hold; auto|]. apply in_app_or in Hx. destruct Hx as [Hx|Hx]; [|apply Hold; auto].
  unfold block_defs in Hx. cbn [b_phis b_instrs] in Hx. rewrite map_app in Hx. cbn [map] in Hx.
  apply in_app_or in Hx. destruct Hx as [Hx|Hx]; [|apply Hold; right; left; unfold block_defs; apply in_or_app; right; assumption].
  apply in_app_or in Hx. destruct Hx as [Hx|[<-|[]]]; [apply Hold; right; left; unfold block_defs; apply in_or_app; left; assumption|].
  rewrite Hout. assumption.
Qed.

Lemma phi_loop_unv dfs s defs entry : sssa s = None -> forall fuel q ins g g',
  phi_loop fuel dfs s defs entry q ins g = Ok g' -> unv g -> unv g'.
Proof.
  intros Hs. induction fuel as [|fuel IH]; intros q ins g g' H Hu; cbn [phi_loop] in H; [discriminate|].
  destruct q as [|b q]; [injection H as <-; assumption|].
  destruct (nm_idx (Z.to_N b) dfs) as [df|?|]; cbn [bind] in H; try discriminate.
  match type of H with context [fold_left ?F df (Ok (q, ins, g))] =>
    destruct (fold_left F df (Ok (q, ins, g))) as [[[q2 ins2] g2]|?|] eqn:E2 end; cbn [bind] in H; try discriminate.
  eapply IH; [exact H|].
  refine (fold_res_pres _ (fun st => unv (snd st)) df _ _ _ E2 Hu).
  intros st d st' _ Hstep Hst. eapply phi_step_unv; eauto.
Qed.

Lemma insert_phi_nodes_unv g g1 : insert_phi_nodes g = Ok g1 -> unv g -> unv g1.
Proof.
  unfold insert_phi_nodes. intros H Hu. destruct (g_entry g) as [entry|]; [|discriminate].
  destruct (cfg_graph g) as [gr|?|]; cbn [bind] in H; try discriminate.
  destruct (compute_dominance_frontiers gr (Z.to_N entry)) as [dfs|?|]; cbn [bind] in H; try discriminate.
  refine (fold_res_pres _ unv (scalars_mutated_in_blocks g) _ _ _ H Hu).
  intros g' [sc defs] g'' Hin Hstep Hg'. cbn [fst snd] in Hstep.
  destruct (negb (mem_scalar sc (compute_non_local_scalars g))); [injection Hstep as <-; assumption|].
  eapply phi_loop_unv; [|exact Hstep|exact Hg']. apply Hu. eapply mutated_keys_defs. eassumption.
Qed.

Lemma vkeys_unv l : (forall s, In s l -> sssa s = None) -> vkeys l = [].
Proof.
  unfold vkeys. induction l as [|x t IH]; intros H; [reflexivity|]. cbn [filter]. unfold versioned at 1.
  rewrite (H x (or_introl eq_refl)). cbn [is_some]. apply IH. intros s Hs. apply H. right. assumption.
Qed.

(* [U] single definitions, unconditional *)
Theorem ssa_model_single_def f f' : ssa_model f = Ok f' -> (forall s, In s (all_defs f) -> sssa s = None) ->
  NoDup (vkeys (all_defs f')).
Proof.
  unfold ssa_model. intros H Hu.
  destruct (insert_phi_nodes (f_cfg f)) as [g1|?|] eqn:E1; cbn [bind] in H; try discriminate.
  destruct (rename_scalars g1) as [g2|?|] eqn:E2; cbn [bind] in H; try discriminate. injection H as <-.
  pose proof (insert_phi_nodes_unv _ _ E1 Hu) as Hu1.
  unfold rename_scalars in E2. destruct (g_entry g1) as [entry|]; [|discriminate].
  destruct (cfg_graph g1) as [gr|?|]; cbn [bind] in E2; try discriminate.
  destruct (compute_dominator_tree gr (Z.to_N entry)) as [dt|?|]; cbn [bind] in E2; try discriminate.
  destruct (dom_walk (S (length (g_blocks g1))) dt entry (g1, mkv [] [])) as [[g3 v3]|?|] eqn:Ew; cbn [bind fst] in E2; try discriminate.
  injection E2 as <-.
  assert (Hinv : Inv g1 (mkv [] [])).
  { unfold Inv, dkeys. rewrite (vkeys_unv _ Hu1). split; [constructor|intros k []]. }
  destruct (dom_walk_inv _ _ _ _ _ _ _ Ew Hinv) as [Hnd _]. exact Hnd.
Qed.

(* ================================================================ [U] condition (1), unconditional:
   whatever the model returns differs from its input only in `ssa` fields and phi nodes *)
Lemma erase_rename_expr' v e : erase_e (rename_expr v e) = erase_e e.
Proof. induction e; cbn [rename_expr erase_e]; try (unfold erase_s, set_ssa; cbn [sname sbits]); congruence. Qed.

Lemma fresh_expr_erase : forall e v e' v', fresh_expr v e = Ok (e', v') -> erase_e e' = erase_e e.
Proof.
  induction e as [s|c|o l IHl r IHr|o n x IHx|c IHc t IHt f IHf]; intros v e' v' H; cbn [fresh_expr] in H.
  - destruct (new_version v s) as [[c1 v1]|?|]; cbn [bind fst snd] in H; try discriminate. injection H as <- _. reflexivity.
  - injection H as <- _. reflexivity.
  - destruct (fresh_expr v l) as [[l1 v1]|?|] eqn:E1; cbn [bind fst snd] in H; try discriminate.
    destruct (fresh_expr v1 r) as [[r1 v2]|?|] eqn:E2; cbn [bind fst snd] in H; try discriminate.
    injection H as <- _. cbn [erase_e]. rewrite (IHl _ _ _ E1), (IHr _ _ _ E2). reflexivity.
  - destruct (fresh_expr v x) as [[x1 v1]|?|] eqn:E1; cbn [bind fst snd] in H; try discriminate.
    injection H as <- _. cbn [erase_e]. rewrite (IHx _ _ _ E1). reflexivity.
  - destruct (fresh_expr v c) as [[c1 v1]|?|] eqn:E1; cbn [bind fst snd] in H; try discriminate.
    destruct (fresh_expr v1 t) as [[t1 v2]|?|] eqn:E2; cbn [bind fst snd] in H; try discriminate.
    destruct (fresh_expr v2 f) as [[f1 v3]|?|] eqn:E3; cbn [bind fst snd] in H; try discriminate.
    injection H as <- _. cbn [erase_e]. rewrite (IHc _ _ _ E1), (IHt _ _ _ E2), (IHf _ _ _ E3). reflexivity.
Qed.
Lemma fresh_exprs_erase : forall es v es' v', fresh_exprs v es = Ok (es', v') -> map erase_e es' = map erase_e es.
Proof.
  induction es as [|e t IH]; intros v es' v' H; cbn [fresh_exprs] in H; [injection H as <- _; reflexivity|].
  destruct (fresh_expr v e) as [[e1 v1]|?|] eqn:E1; cbn [bind fst snd] in H; try discriminate.
  destruct (fresh_exprs v1 t) as [[t1 v2]|?|] eqn:E2; cbn [bind fst snd] in H; try discriminate.
  injection H as <- _. cbn [map]. rewrite (fresh_expr_erase _ _ _ _ E1), (IH _ _ _ E2). reflexivity.
Qed.
Lemma rename_op_erase v o o' v' : rename_op v o = Ok (o', v') -> erase_op o' = erase_op o.
Proof.
  destruct o as [d src|idx src|d idx|t|i|p]; cbn [rename_op]; intros H.
  - destruct (new_version v d) as [[c1 v1]|?|]; cbn [bind fst snd] in H; try discriminate.
    injection H as <- _. cbn [erase_op]. rewrite erase_rename_expr'. reflexivity.
  - injection H as <- _. cbn [erase_op]. rewrite !erase_rename_expr'. reflexivity.
  - destruct (new_version v d) as [[c1 v1]|?|]; cbn [bind fst snd] in H; try discriminate.
    injection H as <- _. cbn [erase_op]. rewrite erase_rename_expr'. reflexivity.
  - injection H as <- _. cbn [erase_op]. rewrite erase_rename_expr'. reflexivity.
  - assert (Hrd : option_map (map erase_e) (option_map (map (rename_expr v)) (in_read i)) = option_map (map erase_e) (in_read i)).
    { destruct (in_read i); cbn [option_map]; [|reflexivity]. rewrite map_map. f_equal. apply map_ext. intros e. apply erase_rename_expr'. }
    destruct (in_written i) as [ws|] eqn:Ew.
    + destruct (fresh_exprs v ws) as [[ws1 v1]|?|] eqn:E; cbn [bind fst snd] in H; try discriminate.
      injection H as <- _. cbn [erase_op]. unfold erase_intr. cbn [in_mnemonic in_args in_written in_read]. rewrite Hrd, Ew.
      cbn [option_map]. rewrite (fresh_exprs_erase _ _ _ _ E). reflexivity.
    + injection H as <- _. cbn [erase_op]. unfold erase_intr. cbn [in_mnemonic in_args in_written in_read]. rewrite Hrd, Ew. reflexivity.
  - injection H as <- _. reflexivity.
Qed.
Lemma rename_instrs_erase : forall is_ v is' v', rename_instrs v is_ = Ok (is', v') -> map erase_instr is' = map erase_instr is_.
Proof.
  induction is_ as [|i t IH]; intros v is' v' H; cbn [rename_instrs] in H; [injection H as <- _; reflexivity|].
  destruct (rename_op v (i_op i)) as [[o1 v1]|?|] eqn:E1; cbn [bind fst snd] in H; try discriminate.
  destruct (rename_instrs v1 t) as [[t1 v2]|?|] eqn:E2; cbn [bind fst snd] in H; try discriminate.
  injection H as <- _. cbn [map]. rewrite (IH _ _ _ E2). unfold erase_instr at 1 3. cbn [i_index i_op i_addr].
  rewrite (rename_op_erase _ _ _ _ E1). reflexivity.
Qed.
Lemma rename_block_erase v b b' v' : rename_block v b = Ok (b', v') -> erase_block b' = erase_block b.
Proof.
  unfold rename_block. intros H.
  destruct (rename_phi_outs v (b_phis b)) as [[ps v1]|?|]; cbn [bind fst snd] in H; try discriminate.
  destruct (rename_instrs v1 (b_instrs b)) as [[is1 v2]|?|] eqn:E2; cbn [bind fst snd] in H; try discriminate.
  injection H as <- _. unfold erase_block. cbn [b_index b_next b_instrs]. rewrite (rename_instrs_erase _ _ _ _ E2). reflexivity.
Qed.

Lemma erase_blocks_split l1 b b' l2 : erase_block b' = erase_block b ->
  map erase_block (l1 ++ b' :: l2) = map erase_block (l1 ++ b :: l2).
Proof. intros H. rewrite !map_app. cbn [map]. rewrite H. reflexivity. Qed.

Lemma find_block_split_first : forall bs i b, find_block bs i = Some b ->
  forall f bs', update_block bs i f = Ok bs' -> exists l1 l2, bs = l1 ++ b :: l2 /\ bs' = l1 ++ f b :: l2.
Proof.
  induction bs as [|x t IH]; intros i b Hf f bs' Hu; cbn [find_block] in Hf; [discriminate|]. cbn [update_block] in Hu.
  destruct (b_index x =? i).
  - injection Hf as <-. injection Hu as <-. exists [], t. split; reflexivity.
  - destruct (update_block t i f) as [r|?|] eqn:E; cbn [bind] in Hu; try discriminate. injection Hu as <-.
    destruct (IH _ _ Hf _ _ E) as (l1 & l2 & -> & ->). exists (x :: l1), l2. split; reflexivity.
Qed.

Definition ecfg (g : cfg) : cfg := erase_cfg g.
Lemma ecfg_blocks g bs : map erase_block bs = map erase_block (g_blocks g) -> ecfg (set_blocks g bs) = ecfg g.
Proof. intros H. unfold ecfg, erase_cfg, set_blocks. cbn [g_blocks Func.g_edges g_next_index g_entry g_exit]. rewrite H. reflexivity. Qed.

Lemma dom_walk_erase : forall fuel dt node g v g' v',
  dom_walk fuel dt node (g, v) = Ok (g', v') -> ecfg g' = ecfg g.
Proof.
  induction fuel as [|fuel IH]; intros dt node g v g' v' H; cbn [dom_walk] in H; [discriminate|].
  destruct (cfg_block g node) as [blk|?|] eqn:Eb; cbn [bind] in H; try discriminate.
  destruct (rename_block (start_new_scope v) blk) as [[b' v2]|?|] eqn:Er; cbn [bind fst snd] in H; try discriminate.
  destruct (update_block (g_blocks g) node (fun _ => b')) as [bs1|?|] eqn:Eu; cbn [bind] in H; try discriminate.
  destruct (cfg_successor_indices (set_blocks g bs1) node) as [succs|?|] eqn:Es; cbn [bind] in H; try discriminate.
  match type of H with context [fold_left ?F succs (Ok (set_blocks g bs1))] =>
    destruct (fold_left F succs (Ok (set_blocks g bs1))) as [g2|?|] eqn:E2 end; cbn [bind] in H; try discriminate.
  destruct (successors dt (Z.to_N node)) as [kids|?|] eqn:Ek; cbn [bind] in H; try discriminate.
  match type of H with context [fold_left ?F kids (Ok (g2, v2))] =>
    destruct (fold_left F kids (Ok (g2, v2))) as [[g3 v3]|?|] eqn:E3 end; cbn [bind fst snd] in H; try discriminate.
  injection H as <- _.
  assert (H1 : ecfg (set_blocks g bs1) = ecfg g).
  { unfold cfg_block in Eb. destruct (find_block (g_blocks g) node) as [blk0|] eqn:Ef; [|discriminate]. injection Eb as ->.
    destruct (find_block_split_first _ _ _ Ef _ _ Eu) as (l1 & l2 & Hb & Hb1). apply ecfg_blocks. rewrite Hb, Hb1.
    apply erase_blocks_split. eapply rename_block_erase; eauto. }
  assert (H2 : ecfg g2 = ecfg g).
  { refine (fold_res_pres _ (fun gc => ecfg gc = ecfg g) succs _ _ _ E2 H1).
    intros gc s gc' _ Hstep Hgc. cbv beta in Hstep.
    destruct (cfg_edge gc node s) as [ed|?|]; cbn [bind] in Hstep; try discriminate.
    match type of Hstep with context [update_block ?B ?I ?F] => destruct (update_block B I F) as [bs|?|] eqn:Eu2 end;
      cbn [bind] in Hstep; try discriminate.
    injection Hstep as <-. rewrite <- Hgc. destruct (update_block_split _ _ _ _ Eu2) as (m1 & sb & m2 & Hm & Hm').
    unfold ecfg, erase_cfg, set_edges, set_blocks. cbn [g_blocks Func.g_edges g_next_index g_entry g_exit].
    f_equal.
    - rewrite Hm, Hm'. apply erase_blocks_split. reflexivity.
    - rewrite map_map. apply map_ext. intros e. destruct ((e_head e =? node) && (e_tail e =? s)); [|reflexivity].
      unfold erase_edge. cbn [e_head e_tail e_cond]. destruct (e_cond e); cbn [option_map]; [rewrite erase_rename_expr'|]; reflexivity. }
  refine (fold_res_pres _ (fun st => ecfg (fst st) = ecfg g) kids _ _ _ E3 H2).
  intros [gc vc] k [gc' vc'] _ Hstep Hgc. cbn [fst] in *. rewrite <- Hgc. eapply IH; eauto.
Qed.

Lemma phi_step_erase s defs entry st d st' : phi_step s defs entry st d = Ok st' -> ecfg (snd st') = ecfg (snd st).
Proof.
  intros H. destruct st as [[q ins] g]. unfold phi_step in H. cbn [snd] in *.
  destruct (memZ (Z.of_N d) ins); [injection H as <-; reflexivity|].
  destruct (mk_phi g s (Z.of_N d) entry) as [ph|?|]; cbn [bind] in H; try discriminate.
  match type of H with context [update_block ?B ?I ?F] => destruct (update_block B I F) as [bs|?|] eqn:Eu end;
    cbn [bind] in H; try discriminate.
  injection H as <-. cbn [snd]. destruct (update_block_split _ _ _ _ Eu) as (l1 & b & l2 & Hb & Hb').
  apply ecfg_blocks. rewrite Hb, Hb'. apply erase_blocks_split. reflexivity.
Qed.
Lemma phi_loop_erase dfs s defs entry : forall fuel q ins g g',
  phi_loop fuel dfs s defs entry q ins g = Ok g' -> ecfg g' = ecfg g.
Proof.
  induction fuel as [|fuel IH]; intros q ins g g' H; cbn [phi_loop] in H; [discriminate|].
  destruct q as [|b q]; [injection H as <-; reflexivity|].
  destruct (nm_idx (Z.to_N b) dfs) as [df|?|]; cbn [bind] in H; try discriminate.
  match type of H with context [fold_left ?F df (Ok (q, ins, g))] =>
    destruct (fold_left F df (Ok (q, ins, g))) as [[[q2 ins2] g2]|?|] eqn:E2 end; cbn [bind] in H; try discriminate.
  rewrite (IH _ _ _ _ H).
  refine (fold_res_pres _ (fun st => ecfg (snd st) = ecfg g) df _ _ _ E2 eq_refl).
  intros st d st' _ Hstep Hst. rewrite <- Hst. eapply phi_step_erase; eauto.
Qed.

Theorem ssa_model_erase f f' : ssa_model f = Ok f' -> erase_func f' = erase_func f.
Proof.
  unfold ssa_model. intros H.
  destruct (insert_phi_nodes (f_cfg f)) as [g1|?|] eqn:E1; cbn [bind] in H; try discriminate.
  destruct (rename_scalars g1) as [g2|?|] eqn:E2; cbn [bind] in H; try discriminate. injection H as <-.
  assert (H1 : ecfg g1 = ecfg (f_cfg f)).
  { unfold insert_phi_nodes in E1. destruct (g_entry (f_cfg f)) as [entry|]; [|discriminate].
    destruct (cfg_graph (f_cfg f)) as [gr|?|]; cbn [bind] in E1; try discriminate.
    destruct (compute_dominance_frontiers gr (Z.to_N entry)) as [dfs|?|]; cbn [bind] in E1; try discriminate.
    refine (fold_res_pres _ (fun g' => ecfg g' = ecfg (f_cfg f)) (scalars_mutated_in_blocks (f_cfg f)) _ _ _ E1 eq_refl).
    intros g' [sc defs] g'' _ Hstep Hg'. cbn [fst snd] in Hstep. rewrite <- Hg'.
    destruct (negb (mem_scalar sc (compute_non_local_scalars (f_cfg f)))); [injection Hstep as <-; reflexivity|].
    eapply phi_loop_erase; eauto. }
  assert (H2 : ecfg g2 = ecfg g1).
  { unfold rename_scalars in E2. destruct (g_entry g1) as [entry|]; [|discriminate].
    destruct (cfg_graph g1) as [gr|?|]; cbn [bind] in E2; try discriminate.
    destruct (compute_dominator_tree gr (Z.to_N entry)) as [dt|?|]; cbn [bind] in E2; try discriminate.
    destruct (dom_walk (S (length (g_blocks g1))) dt entry (g1, mkv [] [])) as [[g3 v3]|?|] eqn:Ew; cbn [bind fst] in E2; try discriminate.
    injection E2 as <-. eapply dom_walk_erase; eauto. }
  unfold erase_func. cbn [f_addr f_cfg f_index]. unfold ecfg in *. rewrite H2, H1. reflexivity.
Qed.
