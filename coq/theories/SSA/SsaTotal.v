(* SSA/SsaTotal.v -- facts about the MODEL of the algorithm (SsaModel.ssa_model):
   (a) [U] `ssa_total_partial`: on every function with an entry and C15's `cfg_inv` the model returns Ok --
       no Err, no Panic, no fuel exhaustion -- PROVIDED the C11 model of Semi-NCA returns the immediate
       dominator relation on the function's graph (`semi_nca_ok`; C11 proves everything downstream of
       that hypothesis, checks it per output [V] and proves it for all graphs on <= 4 vertices [F]);
   (b) [U] `ssa_model_erase`: whatever the model returns differs from the input only in `ssa` fields
       and phi nodes (condition (1) of the validator), unconditionally. *)
From Coq Require Import ZArith List Bool NArith Lia.
From Falcon Require Import Base.Res IL.Const IL.Expr IL.Func IL.Loc
     Graph.NMap Graph.Graph Graph.NMapFacts Graph.GraphInv Graph.Spec Graph.Algo Graph.Oracle Graph.DomTheory
     Graph.DomModel Graph.FrontierModel
     SSA.SemSSA SSA.FuncEq SSA.SsaCheck SSA.SsaModel.
Import ListNotations.
Local Open Scope Z_scope.

(* ================================================================ renaming: total, and invisible to erase *)
Lemma erase_set_ssa s o : erase_s (set_ssa s o) = erase_s s.
Proof. reflexivity. Qed.

Lemma erase_rename_expr v e : erase_e (rename_expr v e) = erase_e e.
Proof. induction e; cbn [rename_expr erase_e]; try rewrite erase_set_ssa; congruence. Qed.

Definition scoped (v : vers) : Prop := v_scopes v <> [].

Lemma new_version_ok v s : scoped v -> exists c v', new_version v s = Ok (c, v') /\ scoped v'.
Proof.
  unfold scoped, new_version. intros H. destruct (v_scopes v) as [|sc r]; [contradiction|].
  eexists _, _. split; [reflexivity|]. cbn [v_scopes]. discriminate.
Qed.

Lemma fresh_expr_ok : forall e v, scoped v ->
  exists e' v', fresh_expr v e = Ok (e', v') /\ scoped v' /\ erase_e e' = erase_e e.
Proof.
  induction e as [s|c|o l IHl r IHr|o n x IHx|c IHc t IHt f IHf]; intros v Hv; cbn [fresh_expr].
  - destruct (new_version_ok v s Hv) as (c & v' & E & Hv'). rewrite E. cbn [bind fst snd].
    eexists _, _. split; [reflexivity|]. split; [assumption|reflexivity].
  - eexists _, _. split; [reflexivity|]. auto.
  - destruct (IHl v Hv) as (l' & v1 & E1 & H1 & R1). rewrite E1. cbn [bind fst snd].
    destruct (IHr v1 H1) as (r' & v2 & E2 & H2 & R2). rewrite E2. cbn [bind fst snd].
    eexists _, _. split; [reflexivity|]. split; [assumption|]. cbn [erase_e]. congruence.
  - destruct (IHx v Hv) as (x' & v1 & E1 & H1 & R1). rewrite E1. cbn [bind fst snd].
    eexists _, _. split; [reflexivity|]. split; [assumption|]. cbn [erase_e]. congruence.
  - destruct (IHc v Hv) as (c' & v1 & E1 & H1 & R1). rewrite E1. cbn [bind fst snd].
    destruct (IHt v1 H1) as (t' & v2 & E2 & H2 & R2). rewrite E2. cbn [bind fst snd].
    destruct (IHf v2 H2) as (f' & v3 & E3 & H3 & R3). rewrite E3. cbn [bind fst snd].
    eexists _, _. split; [reflexivity|]. split; [assumption|]. cbn [erase_e]. congruence.
Qed.

Lemma fresh_exprs_ok : forall es v, scoped v ->
  exists es' v', fresh_exprs v es = Ok (es', v') /\ scoped v' /\ map erase_e es' = map erase_e es.
Proof.
  induction es as [|e t IH]; intros v Hv; cbn [fresh_exprs].
  - eexists _, _. split; [reflexivity|]. auto.
  - destruct (fresh_expr_ok e v Hv) as (e' & v1 & E1 & H1 & R1). rewrite E1. cbn [bind fst snd].
    destruct (IH v1 H1) as (t' & v2 & E2 & H2 & R2). rewrite E2. cbn [bind fst snd].
    eexists _, _. split; [reflexivity|]. split; [assumption|]. cbn [map]. congruence.
Qed.

Lemma map_erase_rename v es : map erase_e (map (rename_expr v) es) = map erase_e es.
Proof. rewrite map_map. apply map_ext. intros e. apply erase_rename_expr. Qed.

Lemma rename_op_ok v o : scoped v ->
  exists o' v', rename_op v o = Ok (o', v') /\ scoped v' /\ erase_op o' = erase_op o.
Proof.
  intros Hv. destruct o as [d src|idx src|d idx|t|i|p]; cbn [rename_op].
  - destruct (new_version_ok v d Hv) as (c & v' & E & Hv'). rewrite E. cbn [bind fst snd].
    eexists _, _. split; [reflexivity|]. split; [assumption|]. cbn [erase_op]. rewrite erase_rename_expr. reflexivity.
  - eexists _, _. split; [reflexivity|]. split; [assumption|]. cbn [erase_op]. rewrite !erase_rename_expr. reflexivity.
  - destruct (new_version_ok v d Hv) as (c & v' & E & Hv'). rewrite E. cbn [bind fst snd].
    eexists _, _. split; [reflexivity|]. split; [assumption|]. cbn [erase_op]. rewrite erase_rename_expr. reflexivity.
  - eexists _, _. split; [reflexivity|]. split; [assumption|]. cbn [erase_op]. rewrite erase_rename_expr. reflexivity.
  - destruct (in_written i) as [ws|] eqn:Ew.
    + destruct (fresh_exprs_ok ws v Hv) as (ws' & v' & E & Hv' & R). rewrite E. cbn [bind fst snd].
      eexists _, _. split; [reflexivity|]. split; [assumption|]. cbn [erase_op]. unfold erase_intr.
      cbn [in_mnemonic in_args in_written in_read option_map]. rewrite Ew. cbn [option_map]. rewrite R.
      destruct (in_read i); cbn [option_map]; [rewrite map_erase_rename|]; reflexivity.
    + eexists _, _. split; [reflexivity|]. split; [assumption|]. cbn [erase_op]. unfold erase_intr.
      cbn [in_mnemonic in_args in_written in_read option_map]. rewrite Ew. cbn [option_map].
      destruct (in_read i); cbn [option_map]; [rewrite map_erase_rename|]; reflexivity.
  - eexists _, _. split; [reflexivity|]. auto.
Qed.

Lemma rename_instrs_ok : forall is_ v, scoped v ->
  exists is' v', rename_instrs v is_ = Ok (is', v') /\ scoped v' /\ map erase_instr is' = map erase_instr is_.
Proof.
  induction is_ as [|i t IH]; intros v Hv; cbn [rename_instrs].
  - eexists _, _. split; [reflexivity|]. auto.
  - destruct (rename_op_ok v (i_op i) Hv) as (o' & v1 & E1 & H1 & R1). rewrite E1. cbn [bind fst snd].
    destruct (IH v1 H1) as (t' & v2 & E2 & H2 & R2). rewrite E2. cbn [bind fst snd].
    eexists _, _. split; [reflexivity|]. split; [assumption|]. cbn [map]. rewrite R2.
    unfold erase_instr at 1 3. cbn [i_index i_op i_addr]. rewrite R1. reflexivity.
Qed.

Lemma rename_phi_outs_ok : forall phis v, scoped v ->
  exists phis' v', rename_phi_outs v phis = Ok (phis', v') /\ scoped v'.
Proof.
  induction phis as [|p t IH]; intros v Hv; cbn [rename_phi_outs].
  - eexists _, _. split; [reflexivity|]. auto.
  - destruct (new_version_ok v (phi_out p) Hv) as (c & v1 & E1 & H1). rewrite E1. cbn [bind fst snd].
    destruct (IH v1 H1) as (t' & v2 & E2 & H2). rewrite E2. cbn [bind fst snd].
    eexists _, _. split; [reflexivity|]. assumption.
Qed.

Lemma rename_block_ok v b : scoped v ->
  exists b' v', rename_block v b = Ok (b', v') /\ erase_block b' = erase_block b /\ b_index b' = b_index b.
Proof.
  intros Hv. unfold rename_block.
  destruct (rename_phi_outs_ok (b_phis b) v Hv) as (ps & v1 & E1 & H1). rewrite E1. cbn [bind fst snd].
  destruct (rename_instrs_ok (b_instrs b) v1 H1) as (is' & v2 & E2 & H2 & R2). rewrite E2. cbn [bind fst snd].
  eexists _, _. split; [reflexivity|]. split; [|reflexivity].
  unfold erase_block. cbn [b_index b_next b_instrs]. rewrite R2. reflexivity.
Qed.

Lemma start_scoped v : scoped (start_new_scope v).
Proof. unfold scoped, start_new_scope. cbn [v_scopes]. discriminate. Qed.

(* ================================================================ the shape of a CFG *)
Definition bidx (g : cfg) : list Z := map b_index (g_blocks g).
Definition ekeys (g : cfg) : list (Z * Z) := map (fun e => (e_head e, e_tail e)) (Func.g_edges g).

Lemma erase_bidx g g' : erase_cfg g' = erase_cfg g -> bidx g' = bidx g.
Proof.
  intros H. apply (f_equal (fun c => map b_index (g_blocks c))) in H. unfold erase_cfg in H. cbn [g_blocks] in H.
  rewrite !map_map in H. exact H.
Qed.
Lemma erase_ekeys g g' : erase_cfg g' = erase_cfg g -> ekeys g' = ekeys g.
Proof.
  intros H. apply (f_equal (fun c => map (fun e => (e_head e, e_tail e)) (Func.g_edges c))) in H.
  unfold erase_cfg in H. cbn [Func.g_edges] in H. rewrite !map_map in H. exact H.
Qed.
Lemma erase_entry g g' : erase_cfg g' = erase_cfg g -> g_entry g' = g_entry g.
Proof. intros H. apply (f_equal g_entry) in H. exact H. Qed.

Lemma find_block_some bs i : In i (map b_index bs) -> exists b, find_block bs i = Some b /\ b_index b = i.
Proof.
  induction bs as [|x t IH]; intros H; [destruct H|]. cbn [find_block]. destruct (b_index x =? i) eqn:E.
  - apply Z.eqb_eq in E. eauto.
  - destruct H as [H|H]; [cbn in H; rewrite H, Z.eqb_refl in E; discriminate|apply IH; assumption].
Qed.
Lemma has_block_in g i : In i (bidx g) -> has_block g i = true.
Proof. intros H. unfold has_block. destruct (find_block_some _ _ H) as [b [E _]]. rewrite E. reflexivity. Qed.

Lemma update_block_found bs i f blk : find_block bs i = Some blk -> erase_block (f blk) = erase_block blk ->
  exists bs', update_block bs i f = Ok bs' /\ map erase_block bs' = map erase_block bs.
Proof.
  induction bs as [|x t IH]; intros Hf He; cbn [find_block] in Hf; [discriminate|]. cbn [update_block].
  destruct (b_index x =? i) eqn:E.
  - injection Hf as ->. eexists. split; [reflexivity|]. cbn [map]. rewrite He. reflexivity.
  - destruct (IH Hf He) as [bs' [E1 E2]]. rewrite E1. cbn [bind]. eexists. split; [reflexivity|]. cbn [map]. rewrite E2. reflexivity.
Qed.
Lemma update_block_ok bs i f : In i (map b_index bs) -> (forall b, erase_block (f b) = erase_block b) ->
  exists bs', update_block bs i f = Ok bs' /\ map erase_block bs' = map erase_block bs.
Proof. intros Hi Hf. destruct (find_block_some _ _ Hi) as [b [Hb _]]. eapply update_block_found; eauto. Qed.

Lemma set_blocks_erase g bs : map erase_block bs = map erase_block (g_blocks g) -> erase_cfg (set_blocks g bs) = erase_cfg g.
Proof. intros H. unfold erase_cfg, set_blocks. cbn [g_blocks Func.g_edges g_next_index g_entry g_exit]. rewrite H. reflexivity. Qed.
Lemma set_edges_erase g es : map erase_edge es = map erase_edge (Func.g_edges g) -> erase_cfg (set_edges g es) = erase_cfg g.
Proof. intros H. unfold erase_cfg, set_edges. cbn [g_blocks Func.g_edges g_next_index g_entry g_exit]. rewrite H. reflexivity. Qed.

(* what cfg_inv gives, as properties of the shape only *)
Record cfg_wf (g : cfg) : Prop := {
  wf_nodup : NoDup (bidx g);
  wf_nonneg : forall i, In i (bidx g) -> 0 <= i;
  wf_enodup : NoDup (ekeys g);
  wf_ends : forall h t, In (h, t) (ekeys g) -> In h (bidx g) /\ In t (bidx g) }.

Lemma cfg_wf_shape g g' : bidx g' = bidx g -> ekeys g' = ekeys g -> cfg_wf g -> cfg_wf g'.
Proof. intros Hb He [H1 H2 H3 H4]. constructor; rewrite ?Hb, ?He; assumption. Qed.

Lemma sorted_by_head {A} (key : A -> Z) : forall l x, sorted_by key (x :: l) = true -> forall y, In y l -> key x < key y.
Proof.
  induction l as [|z t IH]; intros x H y Hy; [destruct Hy|]. cbn [sorted_by] in H.
  apply andb_prop in H. destruct H as [H1 H2]. apply Z.ltb_lt in H1. destruct Hy as [<-|Hy]; [assumption|].
  specialize (IH z H2 y Hy). lia.
Qed.
Lemma sorted_by_tail {A} (key : A -> Z) l x : sorted_by key (x :: l) = true -> sorted_by key l = true.
Proof. destruct l as [|z t]; [reflexivity|]. cbn [sorted_by]. intros H. apply andb_prop in H. apply H. Qed.
Lemma sorted_by_nodup {A} (key : A -> Z) : forall l, sorted_by key l = true -> NoDup (map key l).
Proof.
  induction l as [|x t IH]; intros H; cbn [map]; constructor.
  - intros Hi. apply in_map_iff in Hi. destruct Hi as [y [E Hy]]. pose proof (sorted_by_head key t x H y Hy). lia.
  - apply IH. eapply sorted_by_tail. eassumption.
Qed.

Definition elt (a b : Func.edge) : Prop := e_head a < e_head b \/ (e_head a = e_head b /\ e_tail a < e_tail b).
Lemma edges_sorted_head : forall l x, edges_sorted (x :: l) = true -> forall y, In y l -> elt x y.
Proof.
  induction l as [|z t IH]; intros x H y Hy; [destruct Hy|]. cbn [edges_sorted] in H.
  apply andb_prop in H. destruct H as [H1 H2].
  assert (Hxz : elt x z).
  { apply orb_prop in H1. destruct H1 as [H1|H1]; [left; apply Z.ltb_lt; assumption|].
    apply andb_prop in H1. destruct H1 as [Ha Hb]. right. apply Z.eqb_eq in Ha. apply Z.ltb_lt in Hb. auto. }
  destruct Hy as [<-|Hy]; [assumption|]. specialize (IH z H2 y Hy). unfold elt in *. lia.
Qed.
Lemma edges_sorted_tail l x : edges_sorted (x :: l) = true -> edges_sorted l = true.
Proof. destruct l as [|z t]; [reflexivity|]. cbn [edges_sorted]. intros H. apply andb_prop in H. apply H. Qed.
Lemma edges_sorted_nodup : forall l, edges_sorted l = true -> NoDup (map (fun e => (e_head e, e_tail e)) l).
Proof.
  induction l as [|x t IH]; intros H; cbn [map]; constructor.
  - intros Hi. apply in_map_iff in Hi. destruct Hi as [y [E Hy]]. pose proof (edges_sorted_head t x H y Hy) as Hl.
    injection E as E1 E2. unfold elt in Hl. lia.
  - apply IH. eapply edges_sorted_tail. eassumption.
Qed.

Lemma has_block_bidx g i : has_block g i = true -> In i (bidx g).
Proof.
  unfold has_block. destruct (find_block (g_blocks g) i) as [b|] eqn:E; [|discriminate]. intros _.
  unfold bidx. clear - E. induction (g_blocks g) as [|x t IH]; [discriminate|]. cbn [find_block] in E. cbn [map].
  destruct (b_index x =? i) eqn:Ex; [apply Z.eqb_eq in Ex; left; assumption|right; apply IH; assumption].
Qed.

Lemma cfg_inv_wf g : cfg_inv g = true -> cfg_wf g.
Proof.
  unfold cfg_inv. intros H.
  apply andb_prop in H. destruct H as [H _]. apply andb_prop in H. destruct H as [H _].
  apply andb_prop in H. destruct H as [H Hblk]. apply andb_prop in H. destruct H as [H Hends].
  apply andb_prop in H. destruct H as [Hbs Hes].
  rewrite forallb_forall in Hblk, Hends. constructor.
  - apply sorted_by_nodup. assumption.
  - intros i Hi. unfold bidx in Hi. apply in_map_iff in Hi. destruct Hi as [b [<- Hb]]. specialize (Hblk _ Hb).
    apply andb_prop in Hblk. destruct Hblk as [Hblk _]. apply andb_prop in Hblk. destruct Hblk as [_ Hblk]. apply Z.leb_le. assumption.
  - apply edges_sorted_nodup. assumption.
  - intros h t Hi. unfold ekeys in Hi. apply in_map_iff in Hi. destruct Hi as [e [E He]]. injection E as <- <-.
    specialize (Hends _ He). apply andb_prop in Hends. destruct Hends. split; apply has_block_bidx; assumption.
Qed.

(* ================================================================ ControlFlowGraph::graph() *)
Definition vsN (g : cfg) : list N := map Z.to_N (bidx g).
Definition esN (g : cfg) : list (N * N) := map (fun k => (Z.to_N (fst k), Z.to_N (snd k))) (ekeys g).

Definition graph_of (vs : list N) (es : list (N * N)) : res gph :=
  g0 <- fold_left (fun acc i => t <- acc ;; insert_vertex t i) vs (Ok (new : gph)) ;;
  fold_left (fun acc e => t <- acc ;; insert_edge t e) es (Ok g0).

Lemma fold_left_map_gen {A B C} (f : A -> C -> A) (h : B -> C) l : forall a,
  fold_left (fun a x => f a (h x)) l a = fold_left f (map h l) a.
Proof. induction l as [|x t IH]; intros a; cbn [fold_left map]; [reflexivity|apply IH]. Qed.

Lemma cfg_graph_of g : cfg_graph g = graph_of (vsN g) (esN g).
Proof.
  unfold cfg_graph, graph_of, vsN, esN, bidx, ekeys. rewrite !map_map.
  rewrite <- (fold_left_map_gen (fun acc i => t <- acc ;; insert_vertex t i) (fun b => Z.to_N (b_index b))).
  match goal with |- context [fold_left ?f (g_blocks g) ?a] => destruct (fold_left f (g_blocks g) a) as [g0|e|] end;
    cbn [bind]; try reflexivity.
  rewrite <- (fold_left_map_gen (fun acc e => t <- acc ;; insert_edge t e)
                                (fun e => (Z.to_N (e_head e), Z.to_N (e_tail e)))). reflexivity.
Qed.

Lemma fold_insert_vertices : forall (l : list N) (t : graph N null_edge) done,
  graph_inv t -> (forall v, has_vertex t v = true <-> In v done) -> g_edges t = [] ->
  NoDup l -> (forall x, In x l -> ~ In x done) ->
  exists t', fold_left (fun acc i => t <- acc ;; insert_vertex t i) l (Ok t) = Ok t' /\ graph_inv t' /\
             (forall v, has_vertex t' v = true <-> In v done \/ In v l) /\ g_edges t' = [].
Proof.
  induction l as [|i r IH]; intros t done Hgi Hv He Hnd Hdis; cbn [fold_left].
  - exists t. split; [reflexivity|]. split; [assumption|]. split; [|assumption]. intros v. rewrite Hv. cbn [In]. tauto.
  - assert (Hni : has_vertex t (@vindex N _ i) = false).
    { cbn [vindex null_vertex_Vertex]. destruct (has_vertex t i) eqn:E; [|reflexivity].
      exfalso. apply (Hdis i); [left; reflexivity|apply Hv; assumption]. }
    destruct (@insert_vertex_inv N null_edge _ _ t i Hgi Hni) as (t1 & E1 & Hgi1 & Hvs1 & Hes1).
    cbn [bind]. rewrite E1. inversion Hnd as [|? ? Hni' Hnd']; subst.
    destruct (IH t1 (i :: done)) as (t' & E' & Hgi' & Hv' & He'); auto.
    + intros v. unfold has_vertex. rewrite Hvs1. cbn [vindex null_vertex_Vertex]. rewrite nm_mem_insert. split.
      * intros H. apply orb_prop in H. destruct H as [H|H]; [apply N.eqb_eq in H; left; auto|right; apply Hv; exact H].
      * intros [<-|H]; [rewrite N.eqb_refl; reflexivity|]. apply orb_true_iff. right. apply Hv. assumption.
    + rewrite Hes1. assumption.
    + intros x Hx [<-|Hd]; [contradiction|]. apply (Hdis x); [right; assumption|assumption].
    + exists t'. split; [exact E'|]. split; [assumption|]. split; [|assumption].
      intros v. rewrite Hv'. cbn [In]. tauto.
Qed.

Lemma fold_insert_edges : forall (l : list (N * N)) (t : graph N (N * N)) done,
  graph_inv t -> (forall h k, has_edge t h k = true <-> In (h, k) done) ->
  NoDup l -> (forall x, In x l -> ~ In x done) ->
  (forall h k, In (h, k) l -> has_vertex t h = true /\ has_vertex t k = true) ->
  exists t', fold_left (fun acc e => t <- acc ;; insert_edge t e) l (Ok t) = Ok t' /\ graph_inv t' /\
             g_vertices t' = g_vertices t /\
             (forall h k, has_edge t' h k = true <-> In (h, k) done \/ In (h, k) l).
Proof.
  induction l as [|[eh et] r IH]; intros t done Hgi He Hnd Hdis Hends; cbn [fold_left].
  - exists t. split; [reflexivity|]. split; [assumption|]. split; [reflexivity|]. intros h k. rewrite He. cbn [In]. tauto.
  - destruct (Hends eh et (or_introl eq_refl)) as [Hh Ht].
    assert (Hne : has_edge t (@ehead (N * N) null_edge_Edge (eh, et)) (@etail (N * N) null_edge_Edge (eh, et)) = false).
    { cbn [ehead etail null_edge_Edge fst snd]. destruct (has_edge t eh et) eqn:E; [|reflexivity].
      exfalso. apply (Hdis (eh, et)); [left; reflexivity|apply He; assumption]. }
    destruct (@insert_edge_inv N (N * N) null_vertex_Vertex null_edge_Edge t (eh, et) Hgi Hne Hh Ht) as (t1 & E1 & Hgi1 & Hvs1 & Hes1).
    cbn [bind]. rewrite E1. inversion Hnd as [|? ? Hni' Hnd']; subst.
    destruct (IH t1 ((eh, et) :: done)) as (t' & E' & Hgi' & Hv' & He'); auto.
    + intros h k. unfold has_edge. rewrite Hes1. cbn [ehead etail null_edge_Edge fst snd]. rewrite em_mem_insert. split.
      * intros H. apply orb_prop in H. destruct H as [H|H]; [apply edge_eqb_eq in H; left; auto|right; apply He; exact H].
      * intros [E|H]; [rewrite <- E; apply orb_true_iff; left; apply edge_eqb_eq; reflexivity|].
        apply orb_true_iff. right. apply He. assumption.
    + intros x Hx [<-|Hd]; [contradiction|]. apply (Hdis x); [right; assumption|assumption].
    + intros h k Hk. unfold has_vertex. rewrite Hvs1. apply Hends. right. assumption.
    + exists t'. split; [exact E'|]. split; [assumption|]. split; [congruence|].
      intros h k. rewrite He'. cbn [In]. tauto.
Qed.

Lemma NoDup_map_in {A B} (h : A -> B) l : (forall x y, In x l -> In y l -> h x = h y -> x = y) -> NoDup l -> NoDup (map h l).
Proof.
  induction l as [|a t IH]; intros Hinj Hnd; cbn [map]; constructor; inversion Hnd as [|? ? Hni Hnd']; subst.
  - intros Hi. apply in_map_iff in Hi. destruct Hi as [y [E Hy]]. apply Hni.
    rewrite (Hinj a y); [assumption|left; reflexivity|right; assumption|symmetry; assumption].
  - apply IH; [|assumption]. intros x y Hx Hy. apply Hinj; right; assumption.
Qed.

Lemma cfg_graph_ok g : cfg_wf g ->
  exists gr, cfg_graph g = Ok gr /\ graph_inv gr /\
             (forall v, has_vertex gr v = true <-> In v (vsN g)) /\
             (forall h t, has_edge gr h t = true <-> In (h, t) (esN g)).
Proof.
  intros [Hnd Hnn Hend Hends]. rewrite cfg_graph_of. unfold graph_of.
  assert (HndN : NoDup (vsN g)).
  { unfold vsN. apply NoDup_map_in; [|assumption]. intros x y Hx Hy E. apply Hnn in Hx. apply Hnn in Hy. lia. }
  destruct (fold_insert_vertices (vsN g) (new : gph) []) as (g0 & E0 & Hgi0 & Hv0 & He0); auto.
  { apply graph_inv_new. }
  { intros v. split; [discriminate|intros []]. }
  match goal with |- context [bind ?X _] => assert (EX : X = Ok g0) by exact E0; rewrite EX end. cbn [bind].
  assert (HendN : NoDup (esN g)).
  { unfold esN. apply NoDup_map_in; [|assumption]. intros [a b] [c d] Hx Hy E. cbn [fst snd] in E.
    destruct (Hends _ _ Hx) as [Ha Hb]. destruct (Hends _ _ Hy) as [Hc Hd].
    apply Hnn in Ha. apply Hnn in Hb. apply Hnn in Hc. apply Hnn in Hd. injection E as E1 E2. f_equal; lia. }
  destruct (fold_insert_edges (esN g) g0 []) as (gr & E1 & Hgi1 & Hv1 & He1); auto.
  { intros h k. unfold has_edge. match goal with |- context [em_mem _ ?X] => assert (EX2 : X = []) by exact He0; rewrite EX2 end.
    split; [discriminate|intros []]. }
  { intros h k Hk. unfold esN in Hk. apply in_map_iff in Hk. destruct Hk as [[a b] [E Hk]]. cbn [fst snd] in E.
    injection E as <- <-. destruct (Hends _ _ Hk) as [Ha Hb].
    split; apply Hv0; right; unfold vsN; apply in_map; assumption. }
  exists gr. split; [exact E1|]. split; [assumption|]. split.
  - intros v. transitivity (has_vertex g0 v = true).
    + unfold has_vertex.
      match goal with |- nm_mem v ?X = true <-> _ => assert (EX3 : X = g_vertices g0) by exact Hv1; rewrite EX3 end.
      reflexivity.
    + rewrite Hv0. cbn [In]. tauto.
  - intros h k. rewrite He1. cbn [In]. tauto.
Qed.

Lemma cfg_graph_shape g g' : bidx g' = bidx g -> ekeys g' = ekeys g -> cfg_graph g' = cfg_graph g.
Proof. intros Hb He. rewrite !cfg_graph_of. unfold vsN, esN. rewrite Hb, He. reflexivity. Qed.

(* vertices of the graph <-> blocks of the function *)
Lemma vsN_block g n : cfg_wf g -> In n (vsN g) -> In (Z.of_N n) (bidx g) /\ Z.to_N (Z.of_N n) = n.
Proof.
  intros Hwf Hn. unfold vsN in Hn. apply in_map_iff in Hn. destruct Hn as [i [<- Hi]].
  pose proof (wf_nonneg g Hwf i Hi). rewrite Z2N.id by assumption. split; [assumption|reflexivity].
Qed.
Lemma block_vsN g i : In i (bidx g) -> In (Z.to_N i) (vsN g).
Proof. intros H. unfold vsN. apply in_map. assumption. Qed.

(* ================================================================ generic folds *)
Lemma fold_left_inv {A B} (f : A -> B -> A) (I : A -> Prop) l :
  (forall a x, In x l -> I a -> I (f a x)) -> forall a, I a -> I (fold_left f l a).
Proof.
  induction l as [|x t IH]; intros H a Ha; cbn [fold_left]; [assumption|].
  apply IH; [intros a' x' Hx'; apply H; right; assumption|apply H; [left; reflexivity|assumption]].
Qed.
Lemma fold_res_inv {S X} (step : S -> X -> res S) (P : S -> Prop) l :
  (forall st x, In x l -> P st -> exists st', step st x = Ok st' /\ P st') ->
  forall st, P st -> exists st', fold_left (fun acc x => st <- acc ;; step st x) l (Ok st) = Ok st' /\ P st'.
Proof.
  induction l as [|x t IH]; intros H st Hst; cbn [fold_left]; [eauto|].
  destruct (H st x (or_introl eq_refl) Hst) as [st1 [E1 H1]]. cbn [bind]. rewrite E1.
  apply IH; [intros st' x' Hx'; apply H; right; assumption|assumption].
Qed.

Lemma memZ_true x l : memZ x l = true -> In x l.
Proof. unfold memZ. intros H. apply existsb_exists in H. destruct H as [y [Hy E]]. apply Z.eqb_eq in E. subst. assumption. Qed.
Lemma memZ_false x l : memZ x l = false -> ~ In x l.
Proof.
  unfold memZ. intros H Hi. assert (existsb (Z.eqb x) l = true); [|congruence].
  apply existsb_exists. exists x. split; [assumption|apply Z.eqb_refl].
Qed.

(* ================================================================ insert_phi_nodes *)
Lemma add_def_in (P : Z -> Prop) : forall m s b, P b ->
  (forall s' ds, In (s', ds) m -> forall x, In x ds -> P x) ->
  forall s' ds, In (s', ds) (add_def m s b) -> forall x, In x ds -> P x.
Proof.
  induction m as [|[s0 bs] t IH]; intros s b Hb Hm s' ds Hin x Hx; cbn [add_def] in Hin.
  - destruct Hin as [E|[]]. injection E as <- <-. destruct Hx as [<-|[]]. assumption.
  - destruct (scalar_eqb s0 s).
    + destruct Hin as [E|Hin]; [|eapply Hm; [right; eassumption|eassumption]]. injection E as <- <-.
      destruct (memZ b bs); [eapply Hm; [left; reflexivity|assumption]|].
      apply in_app_or in Hx. destruct Hx as [Hx|[<-|[]]]; [eapply Hm; [left; reflexivity|assumption]|assumption].
    + destruct Hin as [E|Hin]; [injection E as <- <-; eapply Hm; [left; reflexivity|assumption]|].
      eapply IH; [exact Hb| |eassumption|eassumption]. intros s'' ds' Hi'. eapply Hm. right. eassumption.
Qed.

Lemma mutated_defs_blocks g : forall s ds, In (s, ds) (scalars_mutated_in_blocks g) -> forall x, In x ds -> In x (bidx g).
Proof.
  unfold scalars_mutated_in_blocks.
  apply (fold_left_inv _ (fun m => forall s ds, In (s, ds) m -> forall x, In x ds -> In x (bidx g))); [|intros s ds []].
  intros m b Hb Hm. apply fold_left_inv; [|assumption]. intros m2 i _ Hm2.
  apply fold_left_inv; [|assumption]. intros m3 sc _ Hm3. apply add_def_in; [|assumption].
  unfold bidx. apply in_map. assumption.
Qed.

Section Phi.
  Variable g0 : cfg.
  Hypothesis Hwf : cfg_wf g0.
  Variable gr : gph.
  Hypothesis Hgi : graph_inv gr.
  Hypothesis Hgv : forall v, has_vertex gr v = true <-> In v (vsN g0).
  Variable dfs : nmap nset.
  Hypothesis Hkeys : forall x, nm_mem x dfs = has_vertex gr x.
  Hypothesis Hvals : forall x F y, nm_get x dfs = Some F -> In y F -> has_vertex gr y = true.
  Variables (s : scalar) (defs : list Z) (entry : Z).

  Let nb := length (bidx g0).
  (* state invariant of the work list *)
  Definition pst_ok (M : nat) (st : list Z * list Z * cfg) : Prop :=
    let '(q, ins, g) := st in
    erase_cfg g = erase_cfg g0 /\ (forall b, In b q -> In b (bidx g0)) /\ NoDup ins /\
    (forall b, In b ins -> In b (bidx g0)) /\ (length q + (nb - length ins) <= M)%nat.

  Lemma ins_bound ins : NoDup ins -> (forall b, In b ins -> In b (bidx g0)) -> (length ins <= nb)%nat.
  Proof. intros Hnd Hin. apply NoDup_incl_length; assumption. Qed.

  Lemma phi_step_ok M st d : has_vertex gr d = true -> pst_ok M st ->
    exists st', phi_step s defs entry st d = Ok st' /\ pst_ok M st'.
  Proof.
    intros Hd Hst. destruct st as [[q ins] g]. destruct Hst as (He & Hq & Hnd & Hins & HM).
    apply Hgv in Hd. destruct (vsN_block g0 d Hwf Hd) as [Hdz _]. unfold phi_step.
    destruct (memZ (Z.of_N d) ins) eqn:Em.
    - eexists. split; [reflexivity|]. repeat split; assumption.
    - apply memZ_false in Em.
      assert (Hbg : In (Z.of_N d) (bidx g)) by (rewrite (erase_bidx _ _ He); assumption).
      unfold mk_phi, cfg_predecessor_indices, cfg_edges_in. rewrite (has_block_in g _ Hbg). cbn [bind].
      destruct (update_block_ok (g_blocks g) (Z.of_N d)
                  (fun blk => mkblock (b_index blk) (b_next blk) (b_instrs blk)
                     (b_phis blk ++ [mkphi (map (fun p => (p, s)) (map e_head (filter (fun e => e_tail e =? Z.of_N d) (Func.g_edges g))))
                                           (if Z.of_N d =? entry then Some s else None) s]))) as [bs' [E1 E2]].
      { exact Hbg. }
      { intros b. reflexivity. }
      rewrite E1. cbn [bind]. eexists. split; [reflexivity|].
      assert (Hnd' : NoDup (Z.of_N d :: ins)) by (constructor; assumption).
      assert (Hins' : forall b, In b (Z.of_N d :: ins) -> In b (bidx g0)) by (intros b [<-|Hb]; auto).
      pose proof (ins_bound _ Hnd' Hins') as Hb'. cbn [length] in Hb'.
      split; [rewrite set_blocks_erase; assumption|]. split.
      { destruct (memZ (Z.of_N d) defs); [assumption|]. intros b Hb. apply in_app_or in Hb. destruct Hb as [Hb|[<-|[]]]; auto. }
      split; [assumption|]. split; [assumption|].
      cbn [length]. destruct (memZ (Z.of_N d) defs); [lia|]. rewrite app_length. cbn [length]. lia.
  Qed.

  Lemma phi_loop_ok : forall fuel q ins g, pst_ok (pred fuel) (q, ins, g) -> (0 < fuel)%nat ->
    exists g', phi_loop fuel dfs s defs entry q ins g = Ok g' /\ erase_cfg g' = erase_cfg g0.
  Proof.
    induction fuel as [|fuel IH]; intros q ins g Hst Hf; [lia|]. cbn [phi_loop].
    destruct q as [|b q]; [destruct Hst as (He & _); eauto|].
    destruct Hst as (He & Hq & Hnd & Hins & HM). cbn [pred length] in HM.
    assert (Hb : has_vertex gr (Z.to_N b) = true) by (apply Hgv, block_vsN, Hq; left; reflexivity).
    unfold nm_idx. rewrite <- Hkeys in Hb. apply nm_mem_get in Hb. destruct Hb as [F HF]. rewrite HF.
    cbn [res_of_option bind].
    destruct (fold_res_inv (phi_step s defs entry) (pst_ok (pred fuel)) F) with (st := (q, ins, g)) as [[[q2 ins2] g2] [E2 H2]].
    { intros st d Hd Hst. apply phi_step_ok; [eapply Hvals; eassumption|assumption]. }
    { repeat split; auto; [intros b' Hb'; apply Hq; right; assumption|lia]. }
    rewrite E2. cbn [bind]. apply IH; [assumption|].
    destruct H2 as (_ & _ & Hnd2 & Hins2 & HM2). pose proof (ins_bound _ Hnd2 Hins2). destruct fuel; [|lia].
    cbn [pred] in HM. lia.
  Qed.
End Phi.

(* the hypothesis under which C11 proves its model functions correct: the model of Semi-NCA returns the
   immediate-dominator relation of this function's graph (checked per output by C11's `idom_check` [V];
   proved for all graphs on <= 4 vertices [F]; Georgiadis' correctness proof is not formalised) *)
Definition semi_nca_ok (g : cfg) : Prop :=
  forall gr e, cfg_graph g = Ok gr -> g_entry g = Some e ->
  exists m, compute_immediate_dominators gr (Z.to_N e) = Ok m /\
            idom_check (vertex_indices gr) (edge_keys gr) (Z.to_N e) m = true.

Lemma path_vertex (gr : gph) : graph_inv gr -> forall a l b, path (edge_keys gr) a l b ->
  has_vertex gr a = true -> has_vertex gr b = true.
Proof.
  intros Hgi a l b Hp. induction Hp as [a|a b l c He Hp IH]; intros Ha; [assumption|].
  apply IH. unfold edge in He. apply has_edge_keys in He. eapply has_edge_vertices; eauto.
Qed.

Lemma insert_phi_nodes_ok g0 e : cfg_wf g0 -> g_entry g0 = Some e -> In e (bidx g0) -> semi_nca_ok g0 ->
  exists g1, insert_phi_nodes g0 = Ok g1 /\ erase_cfg g1 = erase_cfg g0.
Proof.
  intros Hwf He Heb Hsn. unfold insert_phi_nodes. rewrite He.
  destruct (cfg_graph_ok g0 Hwf) as (gr & Eg & Hgi & Hgv & Hge). rewrite Eg. cbn [bind].
  destruct (Hsn gr e Eg He) as (m & Em & Hm).
  assert (Hr : has_vertex gr (Z.to_N e) = true) by (apply Hgv, block_vsN; assumption).
  destruct (compute_dominance_frontiers_correct gr Hgi (Z.to_N e) Hr m Em Hm) as (dfs & Ed & Hkeys & Hdf).
  rewrite Ed. cbn [bind].
  apply (fold_res_inv
           (fun g1 sd => if negb (mem_scalar (fst sd) (compute_non_local_scalars g0)) then Ok g1
                         else phi_loop (S (length (snd sd) + length (g_blocks g0))) dfs (fst sd) (snd sd) e (snd sd) [] g1)
           (fun g1 => erase_cfg g1 = erase_cfg g0)); [|reflexivity].
  intros g1 [sc defs] Hin Hg1. cbn [fst snd].
  destruct (negb (mem_scalar sc (compute_non_local_scalars g0))); [eauto|].
  apply (phi_loop_ok g0 Hwf gr Hgv dfs Hkeys); [|repeat split; auto|lia].
  - intros x F y HF Hy. apply (Hdf x F HF) in Hy. destruct Hy as (p & Hp & _). unfold edge in Hp.
    apply has_edge_keys in Hp. eapply has_edge_vertices; eauto.
  - intros b Hb. eapply mutated_defs_blocks; eassumption.
  - constructor.
  - intros b [].
  - cbn [pred length]. unfold bidx. rewrite map_length. lia.
Qed.

(* ================================================================ rename_scalars *)
Lemma find_edge_keys es h t : In (h, t) (map (fun e => (e_head e, e_tail e)) es) -> exists e, find_edge es h t = Some e.
Proof.
  induction es as [|x r IH]; intros Hi; [destruct Hi|]. cbn [find_edge].
  destruct ((e_head x =? h) && (e_tail x =? t)) eqn:E; [eauto|].
  destruct Hi as [Hi|Hi]; [injection Hi as <- <-; rewrite !Z.eqb_refl in E; discriminate|apply IH; assumption].
Qed.

Lemma lookup_all_id (t : tree) : graph_inv t -> forall ss, (forall k, In k ss -> has_vertex t k = true) ->
  lookup_all (g_vertices t) ss = Ok ss.
Proof.
  intros Hgi. induction ss as [|k r IH]; intros H; cbn [lookup_all]; [reflexivity|].
  pose proof (H k (or_introl eq_refl)) as Hk. unfold has_vertex in Hk. apply nm_mem_get in Hk. destruct Hk as [a Ha].
  rewrite Ha. pose proof (gi_vkey t Hgi k a Ha) as Hv. cbn [vindex null_vertex_Vertex] in Hv. subst a.
  rewrite IH; [reflexivity|]. intros k' Hk'. apply H. right. assumption.
Qed.

Lemma erase_patch_edges v node s es :
  map erase_edge (map (fun e => if (e_head e =? node) && (e_tail e =? s)
                                then mkedge (e_head e) (e_tail e) (option_map (rename_expr v) (e_cond e)) else e) es)
  = map erase_edge es.
Proof.
  rewrite map_map. apply map_ext. intros e. destruct ((e_head e =? node) && (e_tail e =? s)); [|reflexivity].
  unfold erase_edge. cbn [e_head e_tail e_cond]. destruct (e_cond e); cbn [option_map]; [rewrite erase_rename_expr|]; reflexivity.
Qed.

Section Walk.
  Variable g0 : cfg.
  Hypothesis Hwf : cfg_wf g0.
  Variable gr : gph.
  Hypothesis Hgi : graph_inv gr.
  Hypothesis Hgv : forall v, has_vertex gr v = true <-> In v (vsN g0).
  Variable r : N.
  Hypothesis Hr : has_vertex gr r = true.
  Variable t : tree.
  Hypothesis Hti : graph_inv t.
  Hypothesis Htv : forall v, has_vertex t v = true <-> Spec.reach (edge_keys gr) r v.
  Hypothesis Hte : forall d v, has_edge t d v = true <-> Spec.idom (edge_keys gr) r d v.

  Let es := edge_keys gr.

  Lemma reach_vertex v : Spec.reach es r v -> In v (vsN g0).
  Proof. intros [l Hp]. apply Hgv. eapply path_vertex; eauto. Qed.

  Lemma dom_walk_ok : forall fuel n g v anc,
    has_vertex t n = true -> erase_cfg g = erase_cfg g0 -> NoDup anc ->
    (forall a, In a anc -> Spec.sdom es r a n) -> (length (vsN g0) < fuel + length anc)%nat ->
    exists g' v', dom_walk fuel t (Z.of_N n) (g, v) = Ok (g', v') /\ erase_cfg g' = erase_cfg g0.
  Proof.
    induction fuel as [|fuel IH]; intros n g v anc Hn He Hnd Hanc Hf.
    - (* the ancestors are distinct vertices other than n: there are fewer than |V| of them *)
      exfalso. assert (Hnd' : NoDup (n :: anc)).
      { constructor; [|assumption]. intros Hi. apply Hanc in Hi. destruct Hi as [_ Hne]. apply Hne. reflexivity. }
      assert (Hincl : incl (n :: anc) (vsN g0)).
      { intros a [<-|Ha]; [apply reach_vertex, Htv; assumption|].
        apply reach_vertex. eapply dom_reach_dominator. apply (Hanc a Ha). }
      pose proof (NoDup_incl_length Hnd' Hincl) as Hl. cbn [length] in Hl. lia.
    - cbn [dom_walk].
      assert (Hnv : In n (vsN g0)) by (apply reach_vertex, Htv; assumption).
      destruct (vsN_block g0 n Hwf Hnv) as [Hnb Hnn].
      assert (Hbg : In (Z.of_N n) (bidx g)) by (rewrite (erase_bidx _ _ He); assumption).
      destruct (find_block_some _ _ Hbg) as [blk [Hfb Hbi]].
      unfold cfg_block. rewrite Hfb. cbn [bind].
      destruct (rename_block_ok (start_new_scope v) blk (start_scoped v)) as (b' & v2 & Erb & Heb & Hib).
      rewrite Erb. cbn [bind fst snd].
      destruct (update_block_found (g_blocks g) (Z.of_N n) (fun _ => b') blk Hfb Heb) as [bs1 [Eu1 Hm1]].
      rewrite Eu1. cbn [bind].
      assert (He1 : erase_cfg (set_blocks g bs1) = erase_cfg g0) by (rewrite set_blocks_erase; assumption).
      assert (Hb1 : In (Z.of_N n) (bidx (set_blocks g bs1))) by (rewrite (erase_bidx _ _ He1); assumption).
      unfold cfg_successor_indices, cfg_edges_out. rewrite (has_block_in _ _ Hb1). cbn [bind].
      (* outgoing guards and successor phi slots *)
      match goal with |- context [fold_left ?F ?L (Ok (set_blocks g bs1))] =>
        destruct (fold_res_inv
                    (fun gc s =>
                       _ <- cfg_edge gc (Z.of_N n) s ;;
                       bs <- update_block (g_blocks gc) s
                               (fun sb => mkblock (b_index sb) (b_next sb) (b_instrs sb) (map (patch_phi v2 (Z.of_N n)) (b_phis sb))) ;;
                       Ok (set_edges (set_blocks gc bs)
                             (map (fun e => if (e_head e =? Z.of_N n) && (e_tail e =? s)
                                            then mkedge (e_head e) (e_tail e) (option_map (rename_expr v2) (e_cond e))
                                            else e) (Func.g_edges gc))))
                    (fun gc => erase_cfg gc = erase_cfg g0) L) with (st := set_blocks g bs1) as [g2 [E2 He2]]
      end.
      { intros gc s Hs Hgc. apply in_map_iff in Hs. destruct Hs as [ed [<- Hed]]. apply filter_In in Hed.
        destruct Hed as [Hed Hh]. apply Z.eqb_eq in Hh.
        assert (Hk : In (Z.of_N n, e_tail ed) (ekeys g0)).
        { rewrite <- (erase_ekeys _ _ He1). unfold ekeys. apply in_map_iff. exists ed. split; [rewrite Hh; reflexivity|exact Hed]. }
        assert (Hk' : In (Z.of_N n, e_tail ed) (ekeys gc)) by (rewrite (erase_ekeys _ _ Hgc); assumption).
        destruct (find_edge_keys _ _ _ Hk') as [e2 Ef]. unfold cfg_edge. rewrite Ef. cbn [bind].
        destruct (wf_ends g0 Hwf _ _ Hk) as [_ Htl].
        assert (Htl' : In (e_tail ed) (bidx gc)) by (rewrite (erase_bidx _ _ Hgc); assumption).
        destruct (update_block_ok (g_blocks gc) (e_tail ed)
                    (fun sb => mkblock (b_index sb) (b_next sb) (b_instrs sb) (map (patch_phi v2 (Z.of_N n)) (b_phis sb))) Htl')
          as [bs2 [Eu2 Hm2]]; [intros b; reflexivity|].
        rewrite Eu2. cbn [bind]. eexists. split; [reflexivity|].
        rewrite set_edges_erase; [rewrite set_blocks_erase; assumption|].
        unfold set_blocks. cbn [Func.g_edges]. apply erase_patch_edges. }
      { assumption. }
      rewrite E2. cbn [bind].
      (* the children in the dominator tree *)
      rewrite Hnn. unfold successors.
      destruct (successor_indices_spec t n Hti Hn) as (ss & Es & _ & Hss). rewrite Es. cbn [bind].
      rewrite (lookup_all_id t Hti ss); [|intros k Hk; apply Hss in Hk; eapply has_edge_vertices; eauto].
      cbn [bind].
      destruct (fold_res_inv (fun st k => dom_walk fuel t (Z.of_N k) st)
                             (fun st => erase_cfg (fst st) = erase_cfg g0) ss) with (st := (g2, v2)) as [[g3 v3] [E3 He3]].
      { intros [gc vc] k Hk Hgc. cbn [fst] in Hgc. apply Hss in Hk.
        pose proof (proj1 (Hte n k) Hk) as Hid. destruct Hid as [[Hdnk Hnek] _].
        destruct (IH k gc vc (n :: anc)) as (g' & v' & E' & He'); auto.
        - eapply has_edge_vertices; eauto.
        - constructor; [|assumption]. intros Hi. apply Hanc in Hi. destruct Hi as [_ Hne]. apply Hne. reflexivity.
        - intros a [<-|Ha]; [split; assumption|]. destruct (Hanc a Ha) as [Hdan Hnean]. split.
          + eapply dom_trans; eassumption.
          + intros ->. apply Hnean. eapply dom_antisym; eassumption.
        - cbn [length]. lia.
        - exists (g', v'). split; [exact E'|exact He']. }
      { exact He2. }
      rewrite E3. cbn [bind fst snd]. eauto.
  Qed.
End Walk.

Lemma rename_scalars_ok g0 g1 e : cfg_wf g0 -> g_entry g0 = Some e -> In e (bidx g0) -> semi_nca_ok g0 ->
  erase_cfg g1 = erase_cfg g0 ->
  exists g2, rename_scalars g1 = Ok g2 /\ erase_cfg g2 = erase_cfg g0.
Proof.
  intros Hwf He Heb Hsn H1. unfold rename_scalars. rewrite (erase_entry _ _ H1), He.
  rewrite (cfg_graph_shape g0 g1 (erase_bidx _ _ H1) (erase_ekeys _ _ H1)).
  destruct (cfg_graph_ok g0 Hwf) as (gr & Eg & Hgi & Hgv & Hge). rewrite Eg. cbn [bind].
  destruct (Hsn gr e Eg He) as (m & Em & Hm).
  assert (Hr : has_vertex gr (Z.to_N e) = true) by (apply Hgv, block_vsN; assumption).
  destruct (dominator_tree_correct gr (Z.to_N e) m Em Hm) as (t & Et & Hti & Htv & Hte).
  rewrite Et. cbn [bind].
  pose proof (wf_nonneg g0 Hwf e Heb) as Hnn.
  destruct (dom_walk_ok g0 Hwf gr Hgi Hgv (Z.to_N e) Hr t Hti Htv Hte (S (length (g_blocks g1))) (Z.to_N e) g1 (mkv [] []) [])
    as (g2 & v2 & E2 & He2); auto.
  - apply Htv. apply reach_root.
  - constructor.
  - intros a [].
  - cbn [length]. unfold vsN. rewrite map_length. rewrite <- (erase_bidx _ _ H1). unfold bidx. rewrite map_length. lia.
  - rewrite Z2N.id in E2 by assumption. rewrite E2. cbn [bind fst]. eauto.
Qed.

(* [U] (a): totality of the model, conditional on the Semi-NCA hypothesis; (b) comes with it *)
Theorem ssa_total_partial f e : cfg_inv (f_cfg f) = true -> g_entry (f_cfg f) = Some e -> semi_nca_ok (f_cfg f) ->
  exists f', ssa_model f = Ok f' /\ erase_func f' = erase_func f.
Proof.
  intros Hinv He Hsn. pose proof (cfg_inv_wf _ Hinv) as Hwf.
  assert (Heb : In e (bidx (f_cfg f))).
  { unfold cfg_inv in Hinv. apply andb_prop in Hinv. destruct Hinv as [Hinv _]. apply andb_prop in Hinv.
    destruct Hinv as [_ Hen]. rewrite He in Hen. apply has_block_bidx. assumption. }
  unfold ssa_model.
  destruct (insert_phi_nodes_ok (f_cfg f) e Hwf He Heb Hsn) as [g1 [E1 H1]]. rewrite E1. cbn [bind].
  destruct (rename_scalars_ok (f_cfg f) g1 e Hwf He Heb Hsn H1) as [g2 [E2 H2]]. rewrite E2. cbn [bind].
  eexists. split; [reflexivity|]. unfold erase_func. cbn [f_addr f_cfg f_index]. rewrite H2. reflexivity.
Qed.
