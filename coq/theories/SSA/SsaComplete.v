(* SSA/SsaComplete.v -- how far completeness ("the model's output always passes the validator") is proved.

   ssa_correct_full (NOT proved; the statement stays visible here):
       forall f e, cfg_inv (f_cfg f) = true -> g_entry (f_cfg f) = Some e -> erase_func f = f ->
       exists f', ssa_model f = Ok f' /\ ssa_check f f' = true.

   ssa_correct_partial (proved, [U]): under the same hypotheses plus C11's `semi_nca_ok`, the model returns
   Ok f', and of the conjuncts of ssa_check f f' the following hold: (1) erase_func f' = f (the boolean
   func_eqb too), struct_ok f', the NoDup half of (2) (every versioned definition is unique); phi arity (4) (SsaArity.v);
   what remains -- stated as `remaining f'` -- is: every versioned use is defined, and the local consistency of the
   inferred typing (block_ok / edge_check / entry_ok, i.e. the iterated-dominance-frontier argument);
   ssa_check f f' = true <-> remaining f'. *)
From Coq Require Import ZArith List Bool NArith Lia.
From Falcon Require Import Base.Res IL.Const IL.Expr IL.Func IL.Loc Exec.Sem
     SSA.SemSSA SSA.FuncEq SSA.SsaCheck SSA.SsaModel SSA.SsaTotal SSA.SsaFresh SSA.SsaArity.
Import ListNotations.
Local Open Scope Z_scope.

(* ---------------------------------------------------------------- eqb is reflexive *)
Lemma leqb_refl {A} (eqb : A -> A -> bool) l : (forall a, In a l -> eqb a a = true) -> leqb eqb l l = true.
Proof.
  induction l as [|a t IH]; intros H; cbn [leqb]; [reflexivity|].
  rewrite (H a (or_introl eq_refl)), IH; [reflexivity|]. intros x Hx. apply H. right. assumption.
Qed.
Lemma oeqb_refl {A} (eqb : A -> A -> bool) o : (forall a, eqb a a = true) -> oeqb eqb o o = true.
Proof. intros H. destruct o; cbn [oeqb]; auto. Qed.
Lemma scalar_eqb_refl s : scalar_eqb s s = true.
Proof. unfold scalar_eqb. rewrite N.eqb_refl, Z.eqb_refl, optN_eqb_refl. reflexivity. Qed.
Lemma const_eqb_refl c : const_eqb c c = true.
Proof. unfold const_eqb. rewrite !Z.eqb_refl. reflexivity. Qed.
Lemma binop_eqb_refl o : binop_eqb o o = true. Proof. destruct o; reflexivity. Qed.
Lemma extop_eqb_refl o : extop_eqb o o = true. Proof. destruct o; reflexivity. Qed.
Lemma expr_eqb_refl e : expr_eqb e e = true.
Proof.
  induction e as [s|c|o l IHl r IHr|o n x IHx|c IHc t IHt f IHf]; cbn [expr_eqb].
  - apply scalar_eqb_refl.
  - apply const_eqb_refl.
  - rewrite binop_eqb_refl, IHl, IHr. reflexivity.
  - rewrite extop_eqb_refl, Z.eqb_refl, IHx. reflexivity.
  - rewrite IHc, IHt, IHf. reflexivity.
Qed.
Lemma exprs_eqb_refl l : leqb expr_eqb l l = true.
Proof. apply leqb_refl. intros a _. apply expr_eqb_refl. Qed.
Lemma intr_eqb_refl i : intr_eqb i i = true.
Proof.
  unfold intr_eqb. rewrite N.eqb_refl, exprs_eqb_refl, !oeqb_refl; [reflexivity| |]; apply exprs_eqb_refl.
Qed.
Lemma op_eqb_refl : forall o, op_eqb o o = true.
Proof.
  fix IH 1. intros o. destruct o as [d s|i s|d i|t|i|p]; cbn [op_eqb].
  - rewrite scalar_eqb_refl, expr_eqb_refl. reflexivity.
  - rewrite !expr_eqb_refl. reflexivity.
  - rewrite scalar_eqb_refl, expr_eqb_refl. reflexivity.
  - apply expr_eqb_refl.
  - apply intr_eqb_refl.
  - destruct p as [q|]; [apply IH|reflexivity].
Qed.
Lemma optZ_eqb'_refl o : optZ_eqb' o o = true.
Proof. apply oeqb_refl. apply Z.eqb_refl. Qed.
Lemma instr_eqb_refl i : instr_eqb i i = true.
Proof. unfold instr_eqb. rewrite Z.eqb_refl, op_eqb_refl, optZ_eqb'_refl. reflexivity. Qed.
Lemma phi_eqb_refl p : phi_eqb p p = true.
Proof.
  unfold phi_eqb. rewrite scalar_eqb_refl, oeqb_refl by apply scalar_eqb_refl.
  rewrite leqb_refl; [reflexivity|]. intros a _. rewrite Z.eqb_refl, scalar_eqb_refl. reflexivity.
Qed.
Lemma block_eqb_refl b : block_eqb b b = true.
Proof.
  unfold block_eqb. rewrite !Z.eqb_refl. rewrite !leqb_refl; [reflexivity| |]; intros a _; [apply phi_eqb_refl|apply instr_eqb_refl].
Qed.
Lemma edge_eqb_refl e : edge_eqb e e = true.
Proof. unfold edge_eqb. rewrite !Z.eqb_refl, oeqb_refl by apply expr_eqb_refl. reflexivity. Qed.
Lemma func_eqb_refl f : func_eqb f f = true.
Proof.
  unfold func_eqb, cfg_eqb. rewrite !Z.eqb_refl, !optZ_eqb'_refl.
  rewrite !leqb_refl; [reflexivity| |]; intros a _; [apply edge_eqb_refl|apply block_eqb_refl].
Qed.

(* ---------------------------------------------------------------- struct_ok *)
Lemma NoDup_nodupZ l : NoDup l -> nodupZ l = true.
Proof.
  induction 1 as [|x t Hx Ht IH]; cbn [nodupZ]; [reflexivity|]. rewrite IH, andb_true_r. apply negb_true_iff.
  destruct (existsb (Z.eqb x) t) eqn:E; [|reflexivity]. exfalso. apply existsb_exists in E.
  destruct E as [y [Hy E]]. apply Z.eqb_eq in E. subst. contradiction.
Qed.
Lemma forallb_map' {A B} (h : A -> B) (p : B -> bool) l : forallb p (map h l) = forallb (fun a => p (h a)) l.
Proof. induction l as [|a t IH]; cbn [map forallb]; [reflexivity|rewrite IH; reflexivity]. Qed.

Lemma forallb_ext' {A} (p q : A -> bool) l : (forall a, p a = q a) -> forallb p l = forallb q l.
Proof. intros H. induction l as [|a t IH]; cbn [forallb]; [reflexivity|rewrite H, IH; reflexivity]. Qed.

Lemma struct_ok_erase f : struct_ok (erase_func f) = struct_ok f.
Proof.
  unfold struct_ok, f_blocks, erase_func. cbn [f_cfg erase_cfg g_blocks]. rewrite map_map. cbn [erase_block b_index].
  f_equal. rewrite forallb_map'. apply forallb_ext'. intros b. cbn [erase_block b_instrs]. rewrite map_map. reflexivity.
Qed.
Lemma cfg_inv_struct f : cfg_inv (f_cfg f) = true -> struct_ok f = true.
Proof.
  intros H. pose proof (cfg_inv_wf _ H) as Hwf. unfold struct_ok. apply andb_true_intro. split.
  - apply NoDup_nodupZ. exact (wf_nodup _ Hwf).
  - unfold cfg_inv in H. apply andb_prop in H. destruct H as [H _]. apply andb_prop in H. destruct H as [H _].
    apply andb_prop in H. destruct H as [_ Hblk]. rewrite forallb_forall in Hblk. apply forallb_forall. intros b Hb.
    specialize (Hblk b Hb). apply andb_prop in Hblk. destruct Hblk as [Hblk _]. apply andb_prop in Hblk. destruct Hblk as [Hblk _].
    apply andb_prop in Hblk. destruct Hblk as [Hblk _]. exact Hblk.
Qed.

(* ---------------------------------------------------------------- an erased function defines no version *)
Lemma scalars_erase e : scalars (erase_e e) = map erase_s (scalars e).
Proof. induction e; cbn [erase_e scalars map]; rewrite ?map_app; congruence. Qed.
Lemma written_erase o : forall s, In s (opt_list (op_scalars_written (erase_op o))) -> sssa s = None.
Proof.
  destruct o as [d src|idx src|d idx|t|i|p]; cbn [erase_op op_scalars_written opt_list]; intros s Hs;
    try (destruct Hs as [<-|[]]; reflexivity); try (destruct Hs; fail).
  unfold intr_scalars_written in Hs. cbn [erase_intr in_written] in Hs. destruct (in_written i) as [ws|]; cbn [option_map opt_list] in Hs; [|destruct Hs].
  apply in_flat_map in Hs. destruct Hs as [e [He Hs]]. apply in_map_iff in He. destruct He as [e0 [<- _]].
  rewrite scalars_erase in Hs. apply in_map_iff in Hs. destruct Hs as [s0 [<- _]]. reflexivity.
Qed.
Lemma erased_defs_unv f : forall s, In s (all_defs (erase_func f)) -> sssa s = None.
Proof.
  intros s Hs. unfold all_defs, f_blocks, erase_func in Hs. cbn [f_cfg erase_cfg g_blocks] in Hs.
  apply in_flat_map in Hs. destruct Hs as [b [Hb Hs]]. apply in_map_iff in Hb. destruct Hb as [b0 [<- _]].
  unfold block_defs in Hs. cbn [erase_block b_phis b_instrs map app] in Hs.
  apply in_flat_map in Hs. destruct Hs as [i [Hi Hs]]. apply in_map_iff in Hi. destruct Hi as [i0 [<- _]].
  cbn [erase_instr i_op] in Hs. eapply written_erase. eassumption.
Qed.

Lemma NoDup_nodup_keys l : NoDup l -> nodup_keys l = true.
Proof.
  induction 1 as [|x t Hx Ht IH]; cbn [nodup_keys]; [reflexivity|]. rewrite IH, andb_true_r. apply negb_true_iff.
  destruct (existsb (skey_eqb x) t) eqn:E; [|reflexivity]. exfalso. apply existsb_exists in E.
  destruct E as [y [Hy E]]. unfold skey_eqb in E. apply andb_prop in E. destruct E as [E1 E2].
  apply N.eqb_eq in E1. apply optN_eqb_sound in E2. destruct x, y. cbn [fst snd] in *. subst. contradiction.
Qed.

(* ---------------------------------------------------------------- the statements *)
Definition ssa_correct_full : Prop :=
  forall f e, cfg_inv (f_cfg f) = true -> g_entry (f_cfg f) = Some e -> erase_func f = f ->
  exists f', ssa_model f = Ok f' /\ ssa_check f f' = true.

(* what is still to be shown of ssa_check f f' *)
Definition remaining (f' : func) : bool :=
  let dk := map skey_of (filter versioned (all_defs f')) in
  let T := infer f' in
  forallb (fun s => negb (versioned s) || existsb (skey_eqb (skey_of s)) dk) (all_uses f') &&
  forallb (block_ok T) (f_blocks f') && forallb (edge_check f' T) (f_edges f') && entry_ok f' T.

Theorem ssa_correct_partial f e :
  cfg_inv (f_cfg f) = true -> g_entry (f_cfg f) = Some e -> erase_func f = f -> semi_nca_ok (f_cfg f) ->
  exists f', ssa_model f = Ok f' /\
             erase_func f' = f /\ func_eqb (erase_func f') f = true /\ struct_ok f' = true /\
             NoDup (map skey_of (filter versioned (all_defs f'))) /\
             forallb (fun b => forallb (phi_arity_ok f' b) (b_phis b)) (f_blocks f') = true /\
             ssa_check f f' = remaining f'.
Proof.
  intros Hinv He Hf Hsn. destruct (ssa_total_partial f e Hinv He Hsn) as [f' [Em He']]. rewrite Hf in He'.
  exists f'. split; [exact Em|]. split; [exact He'|].
  assert (Heq : func_eqb (erase_func f') f = true) by (rewrite He'; apply func_eqb_refl).
  assert (Hst : struct_ok f' = true).
  { rewrite <- struct_ok_erase, He'. apply cfg_inv_struct. assumption. }
  assert (Hnd : NoDup (map skey_of (filter versioned (all_defs f')))).
  { apply (ssa_model_single_def f f' Em). rewrite <- Hf. apply erased_defs_unv. }
  assert (Har : forallb (fun b => forallb (phi_arity_ok f' b) (b_phis b)) (f_blocks f') = true).
  { apply (ssa_model_arity f f' Em).
    - intros b Hb. rewrite <- Hf in Hb. unfold f_blocks, erase_func in Hb. cbn [f_cfg erase_cfg g_blocks] in Hb.
      apply in_map_iff in Hb. destruct Hb as [b0 [<- _]]. reflexivity.
    - exact (wf_enodup _ (cfg_inv_wf _ Hinv)). }
  split; [exact Heq|]. split; [exact Hst|]. split; [exact Hnd|]. split; [exact Har|].
  unfold ssa_check, check_typing, defs_ok, remaining. rewrite Heq, Hst, (NoDup_nodup_keys _ Hnd), Har. cbn [andb].
  rewrite andb_true_r. reflexivity.
Qed.

(* hence, under semi_nca_ok, completeness for f is exactly `remaining` of the model's output *)
Corollary ssa_correct_reduced f e :
  cfg_inv (f_cfg f) = true -> g_entry (f_cfg f) = Some e -> erase_func f = f -> semi_nca_ok (f_cfg f) ->
  (exists f', ssa_model f = Ok f' /\ ssa_check f f' = true) <->
  (exists f', ssa_model f = Ok f' /\ remaining f' = true).
Proof.
  intros Hinv He Hf Hsn. destruct (ssa_correct_partial f e Hinv He Hf Hsn) as (f' & Em & _ & _ & _ & _ & _ & Hr).
  split; intros (f'' & Em' & H); rewrite Em in Em'; injection Em' as <-; exists f'; (split; [exact Em|congruence]).
Qed.

(* ---------------------------------------------------------------- what is still open *)
(* With SsaIdfModel.model_idf_covered, SsaIdf.no_phi_agree and SsaIdf.no_phi_entry the dominance-frontier content of the
   completeness argument is proved.  What is NOT proved is the renaming invariant that connects it to the
   validator: "for every reachable block b, the scope stack of ScalarVersioning at the end of the visit of b maps
   every non-local name to the version installed by its nearest defining dominator of b, each block is renamed
   exactly once, and the final program carries exactly those versions" -- from which block_ok / edge_check /
   entry_ok of a typing follow by no_phi_agree, and then `infer` must find such a typing.  The statement: *)
Definition ssa_remaining_open : Prop :=
  forall f e, cfg_inv (f_cfg f) = true -> g_entry (f_cfg f) = Some e -> erase_func f = f -> semi_nca_ok (f_cfg f) ->
  exists f', ssa_model f = Ok f' /\ remaining f' = true.
