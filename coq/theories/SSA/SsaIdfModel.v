(* SSA/SsaIdfModel.v -- the placement of insert_phi_nodes has the classical iterated-dominance-frontier property,
   stated with the textbook frontier of Graph/Spec.v (uses C11's compute_dominance_frontiers_correct). *)
From Coq Require Import ZArith List Bool NArith Lia.
From Falcon Require Import Base.Res IL.Const IL.Expr IL.Func IL.Loc
     Graph.NMap Graph.Graph Graph.NMapFacts Graph.GraphInv Graph.Spec Graph.Algo Graph.Oracle Graph.DomTheory
     Graph.FrontierModel
     SSA.SemSSA SSA.FuncEq SSA.SsaCheck SSA.SsaModel SSA.SsaTotal SSA.SsaFresh SSA.SsaIdf.
Import ListNotations.
Local Open Scope Z_scope.

(* ---------------------------------------------------------------- the classical IDF property of the placement *)
(* [U] under semi_nca_ok: for every written non-local scalar the phi nodes placed by insert_phi_nodes cover the
   iterated dominance frontier of its definition blocks, with the frontier of Graph/Spec.v (in_DF): this is the
   closure hypothesis of SsaIdf.no_phi_agree / no_phi_entry (D = definition blocks + phi blocks, Dphi = phi blocks) *)
Theorem model_idf_covered g g1 e : cfg_wf g -> g_entry g = Some e -> In e (bidx g) -> semi_nca_ok g ->
  insert_phi_nodes g = Ok g1 ->
  exists gr, cfg_graph g = Ok gr /\
    forall sc defs, In (sc, defs) (scalars_mutated_in_blocks g) ->
      mem_scalar sc (compute_non_local_scalars g) = true ->
      exists INS, (forall i, In i INS -> has_phi g1 i sc) /\
        forall d y, In (Z.of_N d) defs \/ In (Z.of_N d) INS ->
                    in_DF (edge_keys gr) (Z.to_N e) d y -> In (Z.of_N y) INS.
Proof.
  intros Hwf He Heb Hsn Hm. destruct (insert_phi_nodes_idf _ _ Hm) as (e' & gr & dfs & He' & Eg & Ed & Hcl).
  rewrite He in He'. injection He' as <-. exists gr. split; [exact Eg|].
  destruct (cfg_graph_ok g Hwf) as (gr' & Eg' & Hgi & Hgv & _). rewrite Eg in Eg'. injection Eg' as <-.
  destruct (Hsn gr e Eg He) as (m & Em & Hmc).
  assert (Hr : has_vertex gr (Z.to_N e) = true) by (apply Hgv, block_vsN; assumption).
  destruct (compute_dominance_frontiers_correct gr Hgi (Z.to_N e) Hr m Em Hmc) as (dfs' & Ed' & Hkeys & Hdf).
  rewrite Ed in Ed'. injection Ed' as <-.
  intros sc defs Hin Hnl. destruct (Hcl sc defs Hin Hnl) as (INS & I1 & I2). exists INS. split; [exact I1|].
  intros d y Hd Hdf'. 
  assert (Hdv : has_vertex gr d = true).
  { destruct Hdf' as (p & _ & Hdp & _). destruct (DomTheory.dom_reach_dominator _ _ _ _ Hdp) as [l Hl]. eapply path_vertex; eauto. }
  rewrite <- Hkeys in Hdv. apply nm_mem_get in Hdv. destruct Hdv as [F HF].
  apply (I2 (Z.of_N d) F y Hd); [rewrite N2Z.id; exact HF|]. apply (Hdf d F HF). exact Hdf'.
Qed.

