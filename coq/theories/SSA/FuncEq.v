(* SSA/FuncEq.v -- boolean equality on IL functions, with its soundness ([eqb = true -> eq]).
   Used by ssa_check condition (1): erase f' = f. *)
From Coq Require Import ZArith List Bool NArith Lia.
From Falcon Require Import Base.Res IL.Const IL.Expr IL.Func.
Import ListNotations.
Local Open Scope Z_scope.

Fixpoint leqb {A} (eqb : A -> A -> bool) (x y : list A) : bool :=
  match x, y with
  | [], [] => true
  | a :: s, b :: t => eqb a b && leqb eqb s t
  | _, _ => false
  end.
Definition oeqb {A} (eqb : A -> A -> bool) (x y : option A) : bool :=
  match x, y with Some a, Some b => eqb a b | None, None => true | _, _ => false end.

Definition intr_eqb (a b : intrinsic) : bool :=
  N.eqb (in_mnemonic a) (in_mnemonic b) && leqb expr_eqb (in_args a) (in_args b) &&
  oeqb (leqb expr_eqb) (in_written a) (in_written b) && oeqb (leqb expr_eqb) (in_read a) (in_read b).

Fixpoint op_eqb (a b : operation) : bool :=
  match a, b with
  | OAssign d s, OAssign d' s' => scalar_eqb d d' && expr_eqb s s'
  | OStore i s, OStore i' s' => expr_eqb i i' && expr_eqb s s'
  | OLoad d i, OLoad d' i' => scalar_eqb d d' && expr_eqb i i'
  | OBranch t, OBranch t' => expr_eqb t t'
  | OIntrinsic i, OIntrinsic i' => intr_eqb i i'
  | ONop p, ONop p' => match p, p' with
                       | Some x, Some y => op_eqb x y
                       | None, None => true
                       | _, _ => false
                       end
  | _, _ => false
  end.

Definition optZ_eqb' := oeqb Z.eqb.
Definition instr_eqb (a b : instruction) : bool :=
  (i_index a =? i_index b) && op_eqb (i_op a) (i_op b) && optZ_eqb' (i_addr a) (i_addr b).
Definition phi_eqb (a b : phi) : bool :=
  leqb (fun x y => (fst x =? fst y) && scalar_eqb (snd x) (snd y)) (phi_incoming a) (phi_incoming b) &&
  oeqb scalar_eqb (phi_entry a) (phi_entry b) && scalar_eqb (phi_out a) (phi_out b).
Definition block_eqb (a b : block) : bool :=
  (b_index a =? b_index b) && (b_next a =? b_next b) && leqb instr_eqb (b_instrs a) (b_instrs b) &&
  leqb phi_eqb (b_phis a) (b_phis b).
Definition edge_eqb (a b : edge) : bool :=
  (e_head a =? e_head b) && (e_tail a =? e_tail b) && oeqb expr_eqb (e_cond a) (e_cond b).
Definition cfg_eqb (a b : cfg) : bool :=
  leqb block_eqb (g_blocks a) (g_blocks b) && leqb edge_eqb (g_edges a) (g_edges b) &&
  (g_next_index a =? g_next_index b) && optZ_eqb' (g_entry a) (g_entry b) && optZ_eqb' (g_exit a) (g_exit b).
Definition func_eqb (a b : func) : bool :=
  (f_addr a =? f_addr b) && cfg_eqb (f_cfg a) (f_cfg b) && optZ_eqb' (f_index a) (f_index b).

(* ---- soundness ---- *)
Lemma leqb_sound {A} (eqb : A -> A -> bool) :
  forall x, (forall a, In a x -> forall b, eqb a b = true -> a = b) -> forall y, leqb eqb x y = true -> x = y.
Proof.
  induction x as [|a s IH]; intros H [|b t] E; cbn in E; try discriminate; [reflexivity|].
  apply andb_prop in E. destruct E as [E1 E2].
  f_equal; [apply H; [left; reflexivity|assumption]|].
  apply IH; [|assumption]. intros a' Ha'. apply H. right. assumption.
Qed.
Lemma leqb_sound' {A} (eqb : A -> A -> bool) :
  (forall a b, eqb a b = true -> a = b) -> forall x y, leqb eqb x y = true -> x = y.
Proof. intros H x y. apply leqb_sound. intros a _. apply H. Qed.
Lemma oeqb_sound {A} (eqb : A -> A -> bool) :
  (forall a b, eqb a b = true -> a = b) -> forall x y, oeqb eqb x y = true -> x = y.
Proof. intros H [a|] [b|] E; cbn in E; try discriminate; [f_equal; apply H; assumption|reflexivity]. Qed.

Lemma optN_eqb_sound a b : optN_eqb a b = true -> a = b.
Proof. destruct a, b; cbn; try discriminate; [|reflexivity]. intros E. apply N.eqb_eq in E. congruence. Qed.
Lemma optN_eqb_refl a : optN_eqb a a = true.
Proof. destruct a; cbn; [apply N.eqb_refl|reflexivity]. Qed.

Lemma scalar_eqb_sound a b : scalar_eqb a b = true -> a = b.
Proof.
  destruct a as [n w s], b as [n' w' s']. unfold scalar_eqb. cbn. intros E.
  apply andb_prop in E. destruct E as [E E3]. apply andb_prop in E. destruct E as [E1 E2].
  apply N.eqb_eq in E1. apply Z.eqb_eq in E2. apply optN_eqb_sound in E3. congruence.
Qed.
Lemma const_eqb_sound a b : const_eqb a b = true -> a = b.
Proof.
  destruct a, b. unfold const_eqb. cbn. intros E. apply andb_prop in E. destruct E as [E1 E2].
  apply Z.eqb_eq in E1. apply Z.eqb_eq in E2. congruence.
Qed.
Lemma binop_eqb_sound a b : binop_eqb a b = true -> a = b.
Proof. destruct a, b; cbn; congruence. Qed.
Lemma extop_eqb_sound a b : extop_eqb a b = true -> a = b.
Proof. destruct a, b; cbn; congruence. Qed.

Ltac split_andb :=
  repeat match goal with
         | H : _ && _ = true |- _ => apply andb_prop in H; destruct H
         end.

Lemma expr_eqb_sound : forall a b, expr_eqb a b = true -> a = b.
Proof.
  induction a as [s|c|o l IHl r IHr|o n e IHe|c IHc t IHt e IHe]; intros [s'|c'|o' l' r'|o' n' e'|c' t' e'] E;
    cbn in E; try discriminate; split_andb.
  - f_equal. apply scalar_eqb_sound. assumption.
  - f_equal. apply const_eqb_sound. assumption.
  - f_equal; [apply binop_eqb_sound|apply IHl|apply IHr]; assumption.
  - f_equal; [apply extop_eqb_sound|apply Z.eqb_eq|apply IHe]; assumption.
  - f_equal; [apply IHc|apply IHt|apply IHe]; assumption.
Qed.

Lemma intr_eqb_sound a b : intr_eqb a b = true -> a = b.
Proof.
  destruct a, b. unfold intr_eqb. cbn. intros E. split_andb.
  f_equal.
  - apply N.eqb_eq. assumption.
  - apply (leqb_sound' _ expr_eqb_sound). assumption.
  - apply (oeqb_sound _ (leqb_sound' _ expr_eqb_sound)). assumption.
  - apply (oeqb_sound _ (leqb_sound' _ expr_eqb_sound)). assumption.
Qed.

Lemma op_eqb_sound : forall a b, op_eqb a b = true -> a = b.
Proof.
  fix IH 1. intros a b E. destruct a as [d s|i s|d i|t|i|p], b as [d' s'|i' s'|d' i'|t'|i'|p']; cbn in E; try discriminate; split_andb.
  - f_equal; [apply scalar_eqb_sound|apply expr_eqb_sound]; assumption.
  - f_equal; apply expr_eqb_sound; assumption.
  - f_equal; [apply scalar_eqb_sound|apply expr_eqb_sound]; assumption.
  - f_equal; apply expr_eqb_sound; assumption.
  - f_equal; apply intr_eqb_sound; assumption.
  - destruct p as [x|], p' as [y|]; try discriminate; [|reflexivity].
    f_equal. f_equal. apply IH. assumption.
Qed.

Lemma optZ_eqb'_sound a b : optZ_eqb' a b = true -> a = b.
Proof. apply oeqb_sound. intros x y. apply Z.eqb_eq. Qed.

Lemma instr_eqb_sound a b : instr_eqb a b = true -> a = b.
Proof.
  destruct a, b. unfold instr_eqb. cbn. intros E. split_andb.
  f_equal; [apply Z.eqb_eq|apply op_eqb_sound|apply optZ_eqb'_sound]; assumption.
Qed.
Lemma phi_eqb_sound a b : phi_eqb a b = true -> a = b.
Proof.
  destruct a, b. unfold phi_eqb. cbn. intros E. split_andb. f_equal.
  - eapply leqb_sound'; [|eassumption]. intros [k s] [k' s'] E'. cbn in E'. split_andb.
    f_equal; [apply Z.eqb_eq|apply scalar_eqb_sound]; assumption.
  - apply (oeqb_sound _ scalar_eqb_sound). assumption.
  - apply scalar_eqb_sound. assumption.
Qed.
Lemma block_eqb_sound a b : block_eqb a b = true -> a = b.
Proof.
  destruct a, b. unfold block_eqb. cbn. intros E. split_andb. f_equal.
  - apply Z.eqb_eq; assumption.
  - apply Z.eqb_eq; assumption.
  - apply (leqb_sound' _ instr_eqb_sound); assumption.
  - apply (leqb_sound' _ phi_eqb_sound); assumption.
Qed.
Lemma edge_eqb_sound a b : edge_eqb a b = true -> a = b.
Proof.
  destruct a, b. unfold edge_eqb. cbn. intros E. split_andb. f_equal.
  - apply Z.eqb_eq; assumption.
  - apply Z.eqb_eq; assumption.
  - apply (oeqb_sound _ expr_eqb_sound); assumption.
Qed.
Lemma cfg_eqb_sound a b : cfg_eqb a b = true -> a = b.
Proof.
  destruct a, b. unfold cfg_eqb. cbn. intros E. split_andb. f_equal.
  - apply (leqb_sound' _ block_eqb_sound); assumption.
  - apply (leqb_sound' _ edge_eqb_sound); assumption.
  - apply Z.eqb_eq; assumption.
  - apply optZ_eqb'_sound; assumption.
  - apply optZ_eqb'_sound; assumption.
Qed.
Lemma func_eqb_sound a b : func_eqb a b = true -> a = b.
Proof.
  destruct a, b. unfold func_eqb. cbn. intros E. split_andb. f_equal.
  - apply Z.eqb_eq; assumption.
  - apply cfg_eqb_sound; assumption.
  - apply optZ_eqb'_sound; assumption.
Qed.
