(* SSA/SsaModel.v -- Gallina transcription of lib/transformation/ssa_transformation.rs (as repaired:
   compute_non_local_scalars also scans the outgoing edge guards).  Definitions only.

   The graph algorithms (dominance frontiers, dominator tree) are the models of Graph/Algo.v (C11).
   Rust iterates two hash containers here: the HashMap scalar -> defining blocks (the order in which
   the phi nodes of different scalars are pushed onto a block) and the HashSet work-list seeds.  Neither
   order changes the SET of phi nodes nor any version number (counters are per name); the model uses
   first-occurrence order and the tie compares blocks after sorting their phi nodes by name. *)
From Coq Require Import ZArith List Bool NArith.
From Falcon Require Import Base.Res IL.Const IL.Expr IL.Func IL.Loc Graph.NMap Graph.Graph Graph.Algo
     SSA.SemSSA SSA.FuncEq SSA.SsaCheck.
Import ListNotations.
Local Open Scope Z_scope.

Definition gph := graph null_vertex null_edge.

(* ControlFlowGraph::graph(): vertices = block indices, edges = (head, tail) *)
Definition cfg_graph (g : cfg) : res gph :=
  g0 <- fold_left (fun acc b => t <- acc ;; insert_vertex t (Z.to_N (b_index b))) (g_blocks g) (Ok (new : gph)) ;;
  fold_left (fun acc e => t <- acc ;; insert_edge t (Z.to_N (e_head e), Z.to_N (e_tail e))) (Func.g_edges g) (Ok g0).

Definition mem_scalar (s : scalar) (l : list scalar) : bool := existsb (scalar_eqb s) l.
Definition add_scalar (l : list scalar) (s : scalar) : list scalar := if mem_scalar s l then l else l ++ [s].

(* ---------------------------------------------------------------- compute_non_local_scalars *)
Definition non_locals_block (g : cfg) (acc : list scalar) (b : block) : list scalar :=
  let step (st : list scalar * list scalar) (i : instruction) :=
    let '(nl, killed) := st in
    let nl' := fold_left (fun a s => if mem_scalar s killed then a else add_scalar a s)
                         (opt_list (op_scalars_read (i_op i))) nl in
    (nl', fold_left add_scalar (opt_list (op_scalars_written (i_op i))) killed) in
  let '(nl, killed) := fold_left step (b_instrs b) (acc, []) in
  match cfg_edges_out g (b_index b) with
  | Ok es =>
      fold_left (fun a e => match e_cond e with
                            | Some c => fold_left (fun a2 s => if mem_scalar s killed then a2 else add_scalar a2 s) (scalars c) a
                            | None => a
                            end) es nl
  | _ => nl
  end.
Definition compute_non_local_scalars (g : cfg) : list scalar := fold_left (non_locals_block g) (g_blocks g) [].

(* ---------------------------------------------------------------- scalars_mutated_in_blocks *)
Fixpoint add_def (m : list (scalar * list Z)) (s : scalar) (b : Z) : list (scalar * list Z) :=
  match m with
  | [] => [(s, [b])]
  | (s', bs) :: t => if scalar_eqb s' s then (s', if memZ b bs then bs else bs ++ [b]) :: t else (s', bs) :: add_def t s b
  end.
Definition scalars_mutated_in_blocks (g : cfg) : list (scalar * list Z) :=
  fold_left (fun m b =>
               fold_left (fun m2 i => fold_left (fun m3 s => add_def m3 s (b_index b)) (opt_list (op_scalars_written (i_op i))) m2)
                         (b_instrs b) m)
            (g_blocks g) [].

(* ---------------------------------------------------------------- insert_phi_nodes *)
Fixpoint update_block (bs : list block) (i : Z) (f : block -> block) : res (list block) :=
  match bs with
  | [] => Err EGraphVertex
  | b :: t => if b_index b =? i then Ok (f b :: t) else r <- update_block t i f ;; Ok (b :: r)
  end.
Definition set_blocks (g : cfg) (bs : list block) : cfg := mkcfg bs (Func.g_edges g) (g_next_index g) (g_entry g) (g_exit g).
Definition set_edges (g : cfg) (es : list Func.edge) : cfg := mkcfg (g_blocks g) es (g_next_index g) (g_entry g) (g_exit g).

Definition mk_phi (g : cfg) (s : scalar) (df entry : Z) : res phi :=
  ps <- cfg_predecessor_indices g df ;;
  Ok (mkphi (map (fun p => (p, s)) ps) (if df =? entry then Some s else None) s).

(* one dominance-frontier element of the block just popped; state = (queue, insertions, cfg) *)
Definition phi_step (s : scalar) (defs : list Z) (entry : Z) (st : list Z * list Z * cfg) (d : N)
  : res (list Z * list Z * cfg) :=
  let '(q1, ins1, g1) := st in
  let dz := Z.of_N d in
  if memZ dz ins1 then Ok st else
  ph <- mk_phi g1 s dz entry ;;
  bs <- update_block (g_blocks g1) dz
          (fun blk => mkblock (b_index blk) (b_next blk) (b_instrs blk) (b_phis blk ++ [ph])) ;;
  Ok (if memZ dz defs then q1 else q1 ++ [dz], dz :: ins1, set_blocks g1 bs).

(* the work-list loop of one scalar *)
Fixpoint phi_loop (fuel : nat) (dfs : nmap nset) (s : scalar) (defs : list Z) (entry : Z)
         (queue : list Z) (ins : list Z) (g : cfg) : res cfg :=
  match fuel with
  | O => Err EOther
  | S fuel =>
      match queue with
      | [] => Ok g
      | b :: q =>
          df <- nm_idx (Z.to_N b) dfs ;;
          r <- fold_left (fun acc d => st <- acc ;; phi_step s defs entry st d) df (Ok (q, ins, g)) ;;
          let '(q2, ins2, g2) := r in
          phi_loop fuel dfs s defs entry q2 ins2 g2
      end
  end.

Definition insert_phi_nodes (g : cfg) : res cfg :=
  match g_entry g with
  | None => Err ECustom
  | Some entry =>
      gr <- cfg_graph g ;;
      dfs <- compute_dominance_frontiers gr (Z.to_N entry) ;;
      let nl := compute_non_local_scalars g in
      fold_left (fun acc sd =>
                   g1 <- acc ;;
                   if negb (mem_scalar (fst sd) nl) then Ok g1
                   else phi_loop (S (length (snd sd) + length (g_blocks g))) dfs (fst sd) (snd sd) entry (snd sd) [] g1)
                (scalars_mutated_in_blocks g) (Ok g)
  end.

(* ---------------------------------------------------------------- ScalarVersioning *)
Record vers := mkv { v_counter : list (N * N); v_scopes : list (list (N * N)) }.
Fixpoint assocN {A} (l : list (N * A)) (k : N) : option A :=
  match l with [] => None | (k', v) :: t => if N.eqb k' k then Some v else assocN t k end.
Definition start_new_scope (v : vers) : vers :=
  mkv (v_counter v) (match v_scopes v with sc :: _ => sc | [] => [] end :: v_scopes v).
Definition end_scope (v : vers) : vers := mkv (v_counter v) (tl (v_scopes v)).
Definition get_version (v : vers) (s : scalar) : option N :=
  match v_scopes v with [] => None | sc :: _ => assocN sc (sname s) end.
Definition new_version (v : vers) (s : scalar) : res (N * vers) :=
  let c := match assocN (v_counter v) (sname s) with Some c => c | None => 1%N end in
  match v_scopes v with
  | [] => Panic                                         (* scoped_versions.last_mut().unwrap() *)
  | sc :: r => Ok (c, mkv ((sname s, N.succ c) :: v_counter v) (((sname s, c) :: sc) :: r))
  end.

Definition set_ssa (s : scalar) (o : option N) : scalar := mks (sname s) (sbits s) o.
Fixpoint rename_expr (v : vers) (e : expr) : expr :=
  match e with
  | EScalar s => EScalar (set_ssa s (get_version v s))
  | EConst c => EConst c
  | EBin o l r => EBin o (rename_expr v l) (rename_expr v r)
  | EExt o n x => EExt o n (rename_expr v x)
  | EIte c t f => EIte (rename_expr v c) (rename_expr v t) (rename_expr v f)
  end.
(* every scalar occurrence of a written expression gets a fresh version, left to right *)
Fixpoint fresh_expr (v : vers) (e : expr) : res (expr * vers) :=
  match e with
  | EScalar s => r <- new_version v s ;; Ok (EScalar (set_ssa s (Some (fst r))), snd r)
  | EConst c => Ok (EConst c, v)
  | EBin o l r => a <- fresh_expr v l ;; b <- fresh_expr (snd a) r ;; Ok (EBin o (fst a) (fst b), snd b)
  | EExt o n x => a <- fresh_expr v x ;; Ok (EExt o n (fst a), snd a)
  | EIte c t f => a <- fresh_expr v c ;; b <- fresh_expr (snd a) t ;; d <- fresh_expr (snd b) f ;;
                  Ok (EIte (fst a) (fst b) (fst d), snd d)
  end.
Fixpoint fresh_exprs (v : vers) (es : list expr) : res (list expr * vers) :=
  match es with
  | [] => Ok ([], v)
  | e :: t => a <- fresh_expr v e ;; b <- fresh_exprs (snd a) t ;; Ok (fst a :: fst b, snd b)
  end.

Definition rename_op (v : vers) (o : operation) : res (operation * vers) :=
  match o with
  | OAssign d src =>
      let src' := rename_expr v src in
      r <- new_version v d ;; Ok (OAssign (set_ssa d (Some (fst r))) src', snd r)
  | OStore idx src => Ok (OStore (rename_expr v idx) (rename_expr v src), v)
  | OLoad d idx =>
      let idx' := rename_expr v idx in
      r <- new_version v d ;; Ok (OLoad (set_ssa d (Some (fst r))) idx', snd r)
  | OBranch t => Ok (OBranch (rename_expr v t), v)
  | OIntrinsic i =>
      let rd := option_map (map (rename_expr v)) (in_read i) in
      match in_written i with
      | None => Ok (OIntrinsic (mkintr (in_mnemonic i) (in_args i) None rd), v)
      | Some ws => r <- fresh_exprs v ws ;; Ok (OIntrinsic (mkintr (in_mnemonic i) (in_args i) (Some (fst r)) rd), snd r)
      end
  | ONop p => Ok (ONop p, v)
  end.

Fixpoint rename_instrs (v : vers) (is_ : list instruction) : res (list instruction * vers) :=
  match is_ with
  | [] => Ok ([], v)
  | i :: t => a <- rename_op v (i_op i) ;; b <- rename_instrs (snd a) t ;;
              Ok (mkinstr (i_index i) (fst a) (i_addr i) :: fst b, snd b)
  end.
Fixpoint rename_phi_outs (v : vers) (phis : list phi) : res (list phi * vers) :=
  match phis with
  | [] => Ok ([], v)
  | p :: t => r <- new_version v (phi_out p) ;; b <- rename_phi_outs (snd r) t ;;
              Ok (mkphi (phi_incoming p) (phi_entry p) (set_ssa (phi_out p) (Some (fst r))) :: fst b, snd b)
  end.
Definition rename_block (v : vers) (b : block) : res (block * vers) :=
  a <- rename_phi_outs v (b_phis b) ;; c <- rename_instrs (snd a) (b_instrs b) ;;
  Ok (mkblock (b_index b) (b_next b) (fst c) (fst a), snd c).

(* patch the slot for [node] in every phi node of a successor *)
Definition patch_phi (v : vers) (node : Z) (p : phi) : phi :=
  mkphi (map (fun ks => if fst ks =? node then (fst ks, set_ssa (snd ks) (get_version v (snd ks))) else ks) (phi_incoming p))
        (phi_entry p) (phi_out p).

Fixpoint dom_walk (fuel : nat) (dt : tree) (node : Z) (st : cfg * vers) : res (cfg * vers) :=
  match fuel with
  | O => Err EOther
  | S fuel =>
      let '(g, v0) := st in
      let v1 := start_new_scope v0 in
      blk <- cfg_block g node ;;
      rb <- rename_block v1 blk ;;
      let v2 := snd rb in
      bs1 <- update_block (g_blocks g) node (fun _ => fst rb) ;;
      let g1 := set_blocks g bs1 in
      succs <- cfg_successor_indices g1 node ;;
      g2 <- fold_left (fun acc s =>
                         gc <- acc ;;
                         _ <- cfg_edge gc node s ;;
                         let es := map (fun e => if (e_head e =? node) && (e_tail e =? s)
                                                 then mkedge (e_head e) (e_tail e) (option_map (rename_expr v2) (e_cond e))
                                                 else e) (Func.g_edges gc) in
                         bs <- update_block (g_blocks gc) s
                                 (fun sb => mkblock (b_index sb) (b_next sb) (b_instrs sb) (map (patch_phi v2 node) (b_phis sb))) ;;
                         Ok (set_edges (set_blocks gc bs) es))
                      succs (Ok g1) ;;
      kids <- successors dt (Z.to_N node) ;;
      r <- fold_left (fun acc k => s <- acc ;; dom_walk fuel dt (Z.of_N k) s) kids (Ok (g2, v2)) ;;
      Ok (fst r, end_scope (snd r))
  end.

Definition rename_scalars (g : cfg) : res cfg :=
  match g_entry g with
  | None => Err ECustom
  | Some entry =>
      gr <- cfg_graph g ;;
      dt <- compute_dominator_tree gr (Z.to_N entry) ;;
      r <- dom_walk (S (length (g_blocks g))) dt entry (g, mkv [] []) ;;
      Ok (fst r)
  end.

Definition ssa_model (f : func) : res func :=
  g1 <- insert_phi_nodes (f_cfg f) ;;
  g2 <- rename_scalars g1 ;;
  Ok (mkfunc (f_addr f) g2 (f_index f)).

(* ---------------------------------------------------------------- canonical form for the tie *)
Fixpoint insert_phi_sorted (p : phi) (l : list phi) : list phi :=
  match l with
  | [] => [p]
  | q :: t => if N.leb (phi_name p) (phi_name q) then p :: l else q :: insert_phi_sorted p t
  end.
Definition canon_block (b : block) : block :=
  mkblock (b_index b) (b_next b) (b_instrs b) (fold_right insert_phi_sorted [] (b_phis b)).
Definition canon_func (f : func) : func :=
  mkfunc (f_addr f) (set_blocks (f_cfg f) (map canon_block (g_blocks (f_cfg f)))) (f_index f).
Definition res_map {A B} (h : A -> B) (r : res A) : res B :=
  match r with Ok a => Ok (h a) | Err e => Err e | Panic => Panic end.
Definition model_tie (f : func) (obs : res func) : bool :=
  res_eqb func_eqb (res_map canon_func (ssa_model f)) (res_map canon_func obs).
