(* SSA/SsaCheck.v -- the executable validator [ssa_check f f'] of property C10.
   f  = the function given to ssa_transformation,  f' = what it returned.

   ssa_check = (1) erase f' = f   (same blocks, edges, instruction positions / indices / addresses;
                                   only `ssa` fields and phi nodes differ)
             && check_typing f' T  for the typing T found by an UNTRUSTED search [infer]:
               (2) every Some-version has exactly one definition (assign / load / phi / declared
                   intrinsic write) and every Some-version used is defined;
               (3) T (block -> name -> tracked version | untracked; blocks without an entry in T are
                   the ones the search did not reach) is LOCALLY consistent;
               (4) phi arity.
   Everything proved in SsaSound.v is about [check_typing]; [infer] is only a search. *)
From Coq Require Import ZArith List Bool NArith.
From Falcon Require Import Base.Res IL.Const IL.Expr IL.Func IL.Loc Exec.Sem SSA.SemSSA SSA.FuncEq.
Import ListNotations.
Local Open Scope Z_scope.

(* ---------------------------------------------------------------- (1) erasure *)
Definition erase_s (s : scalar) : scalar := mks (sname s) (sbits s) None.
Fixpoint erase_e (e : expr) : expr :=
  match e with
  | EScalar s => EScalar (erase_s s)
  | EConst c => EConst c
  | EBin o l r => EBin o (erase_e l) (erase_e r)
  | EExt o n x => EExt o n (erase_e x)
  | EIte c t f => EIte (erase_e c) (erase_e t) (erase_e f)
  end.
Definition erase_intr (i : intrinsic) : intrinsic :=
  mkintr (in_mnemonic i) (map erase_e (in_args i))
         (option_map (map erase_e) (in_written i)) (option_map (map erase_e) (in_read i)).
Fixpoint erase_op (o : operation) : operation :=
  match o with
  | OAssign d s => OAssign (erase_s d) (erase_e s)
  | OStore i s => OStore (erase_e i) (erase_e s)
  | OLoad d i => OLoad (erase_s d) (erase_e i)
  | OBranch t => OBranch (erase_e t)
  | OIntrinsic i => OIntrinsic (erase_intr i)
  | ONop p => ONop (match p with Some q => Some (erase_op q) | None => None end)
  end.
Definition erase_instr (i : instruction) : instruction := mkinstr (i_index i) (erase_op (i_op i)) (i_addr i).
Definition erase_block (b : block) : block := mkblock (b_index b) (b_next b) (map erase_instr (b_instrs b)) [].
Definition erase_edge (e : edge) : edge := mkedge (e_head e) (e_tail e) (option_map erase_e (e_cond e)).
Definition erase_cfg (g : cfg) : cfg :=
  mkcfg (map erase_block (g_blocks g)) (map erase_edge (g_edges g)) (g_next_index g) (g_entry g) (g_exit g).
Definition erase_func (f : func) : func := mkfunc (f_addr f) (erase_cfg (f_cfg f)) (f_index f).

(* ---------------------------------------------------------------- version typings *)
(* name -> Some v : tracked at version v (v = None: the unversioned entry value);  None : untracked *)
Definition tenv := list (N * option N).
Fixpoint tlookup (G : tenv) (x : N) : option (option N) :=
  match G with [] => None | (y, v) :: t => if N.eqb y x then Some v else tlookup t x end.

Definition is_some {A} (o : option A) : bool := match o with Some _ => true | None => false end.

(* a read is fine when it carries exactly the current version of a tracked name *)
Definition read_ok (G : tenv) (s : scalar) : bool :=
  match tlookup G (sname s) with Some v => optN_eqb v (sssa s) | None => false end.
Definition reads_ok (G : tenv) (ss : list scalar) : bool := forallb (read_ok G) ss.
(* every write carries a version, and installs it *)
Definition writes_ok (ws : list scalar) : bool := forallb (fun s => is_some (sssa s)) ws.
Definition writes_step (G : tenv) (ws : list scalar) : tenv :=
  fold_left (fun g s => (sname s, sssa s) :: g) ws G.

Definition op_ok (G : tenv) (o : operation) : bool :=
  match op_scalars_read o with Some rs => reads_ok G rs | None => true end &&
  match op_scalars_written o with Some ws => writes_ok ws | None => true end.
Definition op_step (G : tenv) (o : operation) : tenv :=
  match op_scalars_written o with Some ws => writes_step G ws | None => G end.

Fixpoint instrs_ok (G : tenv) (is_ : list instruction) : bool :=
  match is_ with [] => true | i :: t => op_ok G (i_op i) && instrs_ok (op_step G (i_op i)) t end.
Fixpoint env_after (G : tenv) (is_ : list instruction) : tenv :=
  match is_ with [] => G | i :: t => env_after (op_step G (i_op i)) t end.

(* block index -> typing at the block's entry (after its phi nodes); absent = not reached *)
Definition typing := list (Z * tenv).
Definition gin (T : typing) (b : Z) : option tenv := assocZ T b.

Definition phi_name (ph : phi) : N := sname (phi_out ph).
Definition find_phi (phis : list phi) (x : N) : option phi := find (fun ph => N.eqb (phi_name ph) x) phis.

Fixpoint nodupN (l : list N) : bool :=
  match l with [] => true | x :: t => negb (existsb (N.eqb x) t) && nodupN t end.
Definition memZ (x : Z) (l : list Z) : bool := existsb (Z.eqb x) l.

(* entering a block whose entry typing is Gs, coming [from] a place whose outgoing typing is gout:
   every name tracked in Gs either has a phi node (whose output is the tracked version, see
   [phis_ok]) whose slot for [from] is that name at the outgoing version, or has no phi node and the
   outgoing version is the tracked one *)
Definition transport_ok (gout : N -> option (option N)) (Gs : tenv) (from : option Z) (phis : list phi) (x : N) : bool :=
  match tlookup Gs x with
  | None => true
  | Some w =>
      match find_phi phis x with
      | Some ph =>
          match phi_select ph from with
          | Some s => N.eqb (sname s) x && match gout x with Some v => optN_eqb v (sssa s) | None => false end
          | None => false
          end
      | None => match gout x with Some v => optN_eqb v w | None => false end
      end
  end.
Definition edge_ok (gout : N -> option (option N)) (Gs : tenv) (from : option Z) (phis : list phi) : bool :=
  forallb (transport_ok gout Gs from phis) (map fst Gs).

(* phi nodes of a reached block: one per name, outputs versioned and tracked at the block entry *)
Definition phis_ok (Gs : tenv) (phis : list phi) : bool :=
  nodupN (map phi_name phis) &&
  forallb (fun ph => match sssa (phi_out ph), tlookup Gs (phi_name ph) with
                     | Some v, Some (Some w) => N.eqb v w
                     | _, _ => false
                     end) phis.

Definition preds (f : func) (b : Z) : list Z := map e_head (filter (fun e => e_tail e =? b) (f_edges f)).

(* (4) arity: exactly one incoming slot per predecessor, the `entry` slot iff the block is the entry;
   every slot is the phi's own name *)
Definition phi_arity_ok (f : func) (b : block) (ph : phi) : bool :=
  let keys := map fst (phi_incoming ph) in
  let ps := preds f (b_index b) in
  nodupZ keys && forallb (fun p => memZ p keys) ps && forallb (fun k => memZ k ps) keys &&
  forallb (fun ks => N.eqb (sname (snd ks)) (phi_name ph)) (phi_incoming ph) &&
  match phi_entry ph with
  | Some s => optZ_eqb (g_entry (f_cfg f)) (Some (b_index b)) && N.eqb (sname s) (phi_name ph)
  | None => negb (optZ_eqb (g_entry (f_cfg f)) (Some (b_index b)))
  end.

(* (3) per block *)
Definition block_ok (T : typing) (b : block) : bool :=
  match gin T (b_index b) with
  | None => true                    (* not reached: nothing is claimed about it *)
  | Some G => phis_ok G (b_phis b) && instrs_ok G (b_instrs b)
  end.
(* (3) per edge *)
Definition edge_check (f : func) (T : typing) (e : edge) : bool :=
  match gin T (e_head e) with
  | None => true
  | Some Gp =>
      match find_block (f_blocks f) (e_head e), find_block (f_blocks f) (e_tail e), gin T (e_tail e) with
      | Some bp, Some bs, Some Gs =>
          let Gout := env_after Gp (b_instrs bp) in
          match e_cond e with Some c => reads_ok Gout (scalars c) | None => true end &&
          edge_ok (tlookup Gout) Gs (Some (e_head e)) (b_phis bs)
      | _, _, _ => false
      end
  end.
(* entry block: reached; the pseudo-edge from outside carries every name at the unversioned value *)
Definition entry_ok (f : func) (T : typing) : bool :=
  match g_entry (f_cfg f) with
  | None => false
  | Some e =>
      match find_block (f_blocks f) e, gin T e with
      | Some b, Some G => edge_ok (fun _ => Some None) G None (b_phis b)
      | _, _ => false
      end
  end.

(* (2) definitions and uses *)
Definition opt_list {A} (o : option (list A)) : list A := match o with Some l => l | None => [] end.
Definition block_defs (b : block) : list scalar :=
  map phi_out (b_phis b) ++ flat_map (fun i => opt_list (op_scalars_written (i_op i))) (b_instrs b).
Definition all_defs (f : func) : list scalar := flat_map block_defs (f_blocks f).
Definition phi_uses (ph : phi) : list scalar :=
  map snd (phi_incoming ph) ++ match phi_entry ph with Some s => [s] | None => [] end.
Definition block_uses (b : block) : list scalar :=
  flat_map phi_uses (b_phis b) ++ flat_map (fun i => opt_list (op_scalars_read (i_op i))) (b_instrs b).
Definition edge_uses (e : edge) : list scalar := match e_cond e with Some c => scalars c | None => [] end.
Definition all_uses (f : func) : list scalar := flat_map block_uses (f_blocks f) ++ flat_map edge_uses (f_edges f).

Definition versioned (s : scalar) : bool := is_some (sssa s).
Fixpoint nodup_keys (l : list skey) : bool :=
  match l with [] => true | k :: t => negb (existsb (skey_eqb k) t) && nodup_keys t end.
Definition defs_ok (f : func) : bool :=
  let dk := map skey_of (filter versioned (all_defs f)) in
  nodup_keys dk &&
  forallb (fun s => negb (versioned s) || existsb (skey_eqb (skey_of s)) dk) (all_uses f).

Definition struct_ok (f : func) : bool :=
  nodupZ (map b_index (f_blocks f)) &&
  forallb (fun b => nodupZ (map i_index (b_instrs b))) (f_blocks f).

Definition check_typing (f : func) (T : typing) : bool :=
  struct_ok f && defs_ok f &&
  forallb (block_ok T) (f_blocks f) &&
  forallb (edge_check f T) (f_edges f) &&
  entry_ok f T &&
  forallb (fun b => forallb (phi_arity_ok f b) (b_phis b)) (f_blocks f).

(* ---------------------------------------------------------------- the search (untrusted) *)
Inductive tv := TBot | TVer (v : option N) | TTop.
Definition tv_join (a b : tv) : tv :=
  match a, b with
  | TBot, x | x, TBot => x
  | TVer v, TVer w => if optN_eqb v w then a else TTop
  | _, _ => TTop
  end.
Definition tv_eqb (a b : tv) : bool :=
  match a, b with
  | TBot, TBot | TTop, TTop => true
  | TVer v, TVer w => optN_eqb v w
  | _, _ => false
  end.
(* per block: one tv per name of the universe, in the universe's order *)
Definition tstate := list (Z * list tv).

Fixpoint add_names (acc : list N) (l : list N) : list N :=
  match l with [] => acc | x :: t => add_names (if existsb (N.eqb x) acc then acc else x :: acc) t end.
Definition names_of (f : func) : list N :=
  add_names [] (map sname (all_defs f ++ all_uses f)).

Fixpoint reach (fuel : nat) (f : func) (r : list Z) : list Z :=
  match fuel with
  | O => r
  | S fuel =>
      let r' := fold_left (fun acc e => if memZ (e_head e) acc && negb (memZ (e_tail e) acc) then e_tail e :: acc else acc)
                          (f_edges f) r in
      reach fuel f r'
  end.

Definition st_get (s : tstate) (b : Z) : list tv := match assocZ s b with Some l => l | None => [] end.
Fixpoint nth_tv (l : list tv) (n : nat) : tv :=
  match l, n with [], _ => TBot | x :: _, O => x | _ :: t, S n => nth_tv t n end.

(* OUT b x = last version written to x in b, or IN b x *)
Definition out_tv (b : block) (inb : list tv) (k : nat) (x : N) : tv :=
  match tlookup (env_after [] (b_instrs b)) x with Some v => TVer v | None => nth_tv inb k end.

Fixpoint enum_from {A} (k : nat) (l : list A) : list (nat * A) :=
  match l with [] => [] | x :: t => (k, x) :: enum_from (S k) t end.

Definition in_tv (f : func) (U : list (nat * N)) (rs : list Z) (s : tstate) (b : block) : list tv :=
  let ps := filter (fun p => memZ p rs) (preds f (b_index b)) in
  let is_entry := optZ_eqb (g_entry (f_cfg f)) (Some (b_index b)) in
  map (fun kx =>
         match find_phi (b_phis b) (snd kx) with
         | Some ph => TVer (sssa (phi_out ph))
         | None =>
             fold_left (fun acc p =>
                          match find_block (f_blocks f) p with
                          | Some bp => tv_join acc (out_tv bp (st_get s p) (fst kx) (snd kx))
                          | None => acc
                          end) ps (if is_entry then TVer None else TBot)
         end) U.

Definition tstate_eqb (a b : tstate) : bool :=
  leqb (fun x y => (fst x =? fst y) && leqb tv_eqb (snd x) (snd y)) a b.

Fixpoint iterate (fuel : nat) (f : func) (U : list (nat * N)) (rs : list Z) (bs : list block) (s : tstate) : tstate :=
  match fuel with
  | O => s
  | S fuel =>
      let s' := map (fun b => (b_index b, in_tv f U rs s b)) bs in
      if tstate_eqb s' s then s else iterate fuel f U rs bs s'
  end.

Definition infer (f : func) : typing :=
  match g_entry (f_cfg f) with
  | None => []
  | Some e =>
      let names := names_of f in
      let U := enum_from 0 names in
      let rs := reach (length (f_blocks f)) f [e] in
      let bs := filter (fun b => memZ (b_index b) rs) (f_blocks f) in
      let s0 := map (fun b => (b_index b, map (fun _ => TBot) names)) bs in
      let s := iterate (2 * length bs * length names + 2) f U rs bs s0 in
      map (fun bl => (fst bl,
                      flat_map (fun xt => match snd xt with TVer v => [(fst xt, v)] | _ => [] end)
                               (combine names (snd bl)))) s
  end.

Definition ssa_check (f f' : func) : bool :=
  func_eqb (erase_func f') f && check_typing f' (infer f').
