(* SSA/SsaSound.v -- soundness of the validator: check_typing f' T = true (for ANY T) implies
   (a) the original function erase f' under Exec/Sem and f' under SSA/SemSSA run in lock step, for
       every initial state and every number of steps  (port of DESIGN-prototypes A.7 to the real IL);
   (b) f' is valid SSA: single assignment, every use names the most recent definition on every CFG
       path from the entry (or the unversioned entry value), phi arity. *)
From Coq Require Import ZArith List Bool NArith Lia.
From Falcon Require Import Base.Res IL.Const IL.ConstSpec IL.Expr IL.ExprSpec IL.Func IL.Loc Exec.Sem
     SSA.SemSSA SSA.FuncEq SSA.SsaCheck.
Import ListNotations.
Local Open Scope Z_scope.

(* ================================================================ environments *)
Lemma skey_eqb_true a b : skey_eqb a b = true -> a = b.
Proof.
  destruct a as [x v], b as [y w]. unfold skey_eqb. cbn [fst snd]. intros E.
  apply andb_prop in E. destruct E as [E1 E2]. apply N.eqb_eq in E1. apply optN_eqb_sound in E2. congruence.
Qed.
Lemma skey_eqb_refl a : skey_eqb a a = true.
Proof. destruct a. unfold skey_eqb. cbn [fst snd]. rewrite N.eqb_refl, optN_eqb_refl. reflexivity. Qed.
Lemma skey_eqb_false a b : a <> b -> skey_eqb a b = false.
Proof. intros Hn. destruct (skey_eqb a b) eqn:E; [|reflexivity]. apply skey_eqb_true in E. contradiction. Qed.

Lemma env_get_set en k v k' : env_get (env_set en k v) k' = if skey_eqb k k' then Some v else env_get en k'.
Proof.
  induction en as [|[k0 v0] t IH]; cbn [env_set env_get].
  - destruct (skey_eqb k k'); reflexivity.
  - destruct (skey_eqb k0 k) eqn:E0.
    + apply skey_eqb_true in E0. subst k0. cbn [env_get]. destruct (skey_eqb k k'); reflexivity.
    + cbn [env_get]. destruct (skey_eqb k0 k') eqn:E1.
      * apply skey_eqb_true in E1. subst k'. rewrite skey_eqb_false; [reflexivity|].
        intros ->. rewrite skey_eqb_refl in E0. discriminate.
      * apply IH.
Qed.
Lemma env_get_remove en k k' : env_get (env_remove en k) k' = if skey_eqb k k' then None else env_get en k'.
Proof.
  induction en as [|[k0 v0] t IH]; cbn [env_remove env_get].
  - destruct (skey_eqb k k'); reflexivity.
  - destruct (skey_eqb k0 k) eqn:E0.
    + apply skey_eqb_true in E0. subst k0. rewrite IH. destruct (skey_eqb k k'); reflexivity.
    + cbn [env_get]. destruct (skey_eqb k0 k') eqn:E1.
      * apply skey_eqb_true in E1. subst k'. rewrite skey_eqb_false; [reflexivity|].
        intros ->. rewrite skey_eqb_refl in E0. discriminate.
      * apply IH.
Qed.
Lemma env_get_put en k o k' : env_get (env_put en k o) k' = if skey_eqb k k' then o else env_get en k'.
Proof. destruct o; cbn [env_put]; [apply env_get_set|apply env_get_remove]. Qed.

(* ================================================================ the relation *)
(* every TRACKED name holds, at its current version in the SSA state, what the name holds in the
   original state (bound to the same constant, or unbound in both) *)
Definition tfun := N -> option (option N).
Definition R (G : tfun) (s s' : senv) : Prop :=
  forall x v, G x = Some v -> env_get s' (x, v) = env_get s (x, None).
Definition st_rel (G : tenv) (st st' : sstate) : Prop :=
  st_mem st = st_mem st' /\ R (tlookup G) (st_env st) (st_env st').

Definition ev_sim (a b : event) : Prop :=
  match a, b with
  | EvNone, EvNone => True
  | EvAssign k v, EvAssign k' v' => fst k = fst k' /\ v = v'
  | EvStore x v, EvStore x' v' => x = x' /\ v = v'
  | EvLoad k x v, EvLoad k' x' v' => fst k = fst k' /\ x = x' /\ v = v'
  | EvBranch x, EvBranch x' => x = x'
  | _, _ => False
  end.

Lemma reads_ok_app G a b : reads_ok G (a ++ b) = true -> reads_ok G a = true /\ reads_ok G b = true.
Proof. unfold reads_ok. rewrite forallb_app. apply andb_prop. Qed.

(* expressions: same value, or the same error *)
Lemma den_sim G s s' : R (tlookup G) s s' -> forall e, reads_ok G (scalars e) = true -> den s' e = den s (erase_e e).
Proof.
  intros HR. induction e as [sc|c|o l IHl r IHr|o n x IHx|c IHc t IHt f IHf]; intros Hok; cbn [scalars erase_e den] in *.
  - unfold reads_ok in Hok. cbn [forallb] in Hok. rewrite andb_true_r in Hok. unfold read_ok in Hok.
    destruct (tlookup G (sname sc)) as [v|] eqn:El; [|discriminate]. apply optN_eqb_sound in Hok. subst v.
    unfold skey_of, erase_s. cbn [sname sssa sbits]. rewrite (HR _ _ El). reflexivity.
  - reflexivity.
  - apply reads_ok_app in Hok. destruct Hok as [H1 H2]. rewrite (IHl H1), (IHr H2). reflexivity.
  - rewrite (IHx Hok). reflexivity.
  - apply reads_ok_app in Hok. destruct Hok as [H1 H2]. apply reads_ok_app in H2. destruct H2 as [H2 H3].
    rewrite (IHc H1), (IHt H2), (IHf H3). reflexivity.
Qed.

Lemma R_write G s s' d val : R (tlookup G) s s' ->
  R (tlookup ((sname d, sssa d) :: G)) (env_set s (skey_of (erase_s d)) val) (env_set s' (skey_of d) val).
Proof.
  intros HR x v Hl. cbn [tlookup] in Hl. unfold skey_of, erase_s. cbn [sname sssa].
  rewrite !env_get_set. destruct (N.eqb (sname d) x) eqn:E.
  - apply N.eqb_eq in E. subst x. injection Hl as <-. rewrite !skey_eqb_refl. reflexivity.
  - assert (Hne : sname d <> x) by (intros K; rewrite K, N.eqb_refl in E; discriminate).
    rewrite !skey_eqb_false; [apply HR; assumption| |]; intros K; injection K; intros; contradiction.
Qed.

Definition op_res_sim (G1 : tenv) (r r' : res (sstate * event)) : Prop :=
  match r, r' with
  | Ok (s1, e1), Ok (s1', e1') => st_rel G1 s1 s1' /\ ev_sim e1 e1'
  | Err a, Err b => a = b
  | Panic, Panic => True
  | _, _ => False
  end.

(* one operation: same value computed / same fault; the relation holds again for the advanced typing *)
Lemma exec_op_sim G st st' o : st_rel G st st' -> op_ok G o = true ->
  op_res_sim (op_step G o) (exec_op st (erase_op o)) (exec_op st' o).
Proof.
  intros [Hm HR] Hok. destruct st as [s m], st' as [s' m']. cbn [st_mem st_env] in *. subst m'.
  unfold op_ok in Hok. apply andb_prop in Hok. destruct Hok as [Hr Hw].
  destruct o as [d src|idx src|d idx|t|i|p]; cbn [op_scalars_read op_scalars_written] in Hr;
    unfold op_step; cbn [op_scalars_written erase_op exec_op st_env st_mem writes_step fold_left].
  - rewrite (den_sim _ _ _ HR _ Hr). destruct (den s (erase_e src)) as [v|e|]; cbn [bind op_res_sim]; auto.
    split; [split; [reflexivity|cbn [st_env]; apply R_write; exact HR]|cbn [ev_sim fst skey_of erase_s sname]; auto].
  - apply reads_ok_app in Hr. destruct Hr as [Hi Hs].
    rewrite (den_sim _ _ _ HR _ Hs), (den_sim _ _ _ HR _ Hi).
    destruct (den s (erase_e src)) as [v|e|]; cbn [bind op_res_sim]; auto.
    destruct (den s (erase_e idx)) as [iv|e|]; cbn [bind op_res_sim]; auto.
    destruct (addr_of iv) as [a|e|]; cbn [bind op_res_sim]; auto.
    destruct (mem_store m a v) as [m1|e|]; cbn [bind op_res_sim]; auto.
    split; [split; [reflexivity|exact HR]|cbn [ev_sim]; auto].
  - rewrite (den_sim _ _ _ HR _ Hr).
    destruct (den s (erase_e idx)) as [iv|e|]; cbn [bind op_res_sim]; auto.
    destruct (addr_of iv) as [a|e|]; cbn [bind op_res_sim]; auto.
    cbn [erase_s sbits].
    destruct (mem_load m a (sbits d)) as [v|e|]; cbn [bind op_res_sim]; auto.
    split; [split; [reflexivity|cbn [st_env]; apply R_write; exact HR]|cbn [ev_sim fst skey_of erase_s sname]; auto].
  - rewrite (den_sim _ _ _ HR _ Hr).
    destruct (den s (erase_e t)) as [tv|e|]; cbn [bind op_res_sim]; auto.
    destruct (addr_of tv) as [a|e|]; cbn [bind op_res_sim]; auto.
    split; [split; [reflexivity|exact HR]|cbn [ev_sim]; auto].
  - cbn [op_res_sim]. reflexivity.
  - cbn [op_res_sim]. split; [split; [reflexivity|exact HR]|exact I].
Qed.

(* ================================================================ phi nodes *)
Lemma phi_writes_get ws en k :
  env_get (phi_writes ws en) k =
  match find (fun w => skey_eqb (fst w) k) ws with Some w => snd w | None => env_get en k end.
Proof.
  induction ws as [|w t IH]; cbn [phi_writes fold_right find]; [reflexivity|].
  fold (phi_writes t en). rewrite env_get_put. destruct (skey_eqb (fst w) k); [reflexivity|apply IH].
Qed.

Lemma phi_reads_find phis from en : forall ws, phi_reads phis from en = Ok ws ->
  forall k, find (fun w => skey_eqb (fst w) k) ws =
            match find (fun ph => skey_eqb (skey_of (phi_out ph)) k) phis with
            | Some ph => match phi_select ph from with
                         | Some s => Some (skey_of (phi_out ph), env_get en (skey_of s))
                         | None => None
                         end
            | None => None
            end.
Proof.
  induction phis as [|ph t IH]; intros ws H k; cbn [phi_reads] in H.
  - injection H as <-. reflexivity.
  - destruct (phi_select ph from) as [s|] eqn:Es; [|discriminate].
    destruct (phi_reads t from en) as [r|e|] eqn:Er; cbn [bind] in H; try discriminate.
    injection H as <-. cbn [find fst]. destruct (skey_eqb (skey_of (phi_out ph)) k); [rewrite Es; reflexivity|].
    apply IH. reflexivity.
Qed.

Lemma phi_reads_ok phis from en : (forall ph, In ph phis -> phi_select ph from <> None) ->
  exists ws, phi_reads phis from en = Ok ws.
Proof.
  induction phis as [|ph t IH]; intros H; cbn [phi_reads]; [eexists; reflexivity|].
  destruct (phi_select ph from) as [s|] eqn:Es; [|exfalso; apply (H ph); [left; reflexivity|assumption]].
  destruct IH as [r Hr]; [intros p Hp; apply H; right; assumption|]. rewrite Hr. cbn [bind]. eexists; reflexivity.
Qed.

Lemma find_phi_In phis x ph : find_phi phis x = Some ph -> In ph phis /\ phi_name ph = x.
Proof.
  unfold find_phi. intros H. apply find_some in H. destruct H as [Hi He]. apply N.eqb_eq in He. auto.
Qed.
Lemma find_phi_none phis x ph : find_phi phis x = None -> In ph phis -> phi_name ph <> x.
Proof.
  unfold find_phi. intros H Hi E. apply (find_none _ _ H) in Hi. rewrite E, N.eqb_refl in Hi. discriminate.
Qed.

(* the first phi node for name x is also the first one writing the key (x, its version) *)
Lemma find_key_of_name phis x ph : find_phi phis x = Some ph ->
  find (fun p => skey_eqb (skey_of (phi_out p)) (x, sssa (phi_out ph))) phis = Some ph.
Proof.
  unfold find_phi. induction phis as [|p t IH]; cbn [find]; [discriminate|].
  destruct (N.eqb (phi_name p) x) eqn:E.
  - intros H. injection H as <-. apply N.eqb_eq in E. unfold phi_name in E. unfold skey_of. rewrite E, skey_eqb_refl. reflexivity.
  - intros H. rewrite skey_eqb_false; [apply IH; assumption|].
    unfold skey_of. intros K. injection K as K1 K2. unfold phi_name in E. rewrite K1, N.eqb_refl in E. discriminate.
Qed.
Lemma find_key_none phis x w : find_phi phis x = None ->
  find (fun p => skey_eqb (skey_of (phi_out p)) (x, w)) phis = None.
Proof.
  unfold find_phi. induction phis as [|p t IH]; cbn [find]; [reflexivity|].
  destruct (N.eqb (phi_name p) x) eqn:E; [discriminate|]. intros H.
  rewrite skey_eqb_false; [apply IH; assumption|].
  unfold skey_of. intros K. injection K as K1 K2. unfold phi_name in E. rewrite K1, N.eqb_refl in E. discriminate.
Qed.

Lemma tlookup_in G x w : tlookup G x = Some w -> In x (map fst G).
Proof.
  induction G as [|[y v] t IH]; cbn [tlookup map fst]; [discriminate|].
  destruct (N.eqb y x) eqn:E; [apply N.eqb_eq in E; left; assumption|right; apply IH; assumption].
Qed.

Lemma nodupN_find phis : nodupN (map phi_name phis) = true -> forall ph, In ph phis -> find_phi phis (phi_name ph) = Some ph.
Proof.
  unfold find_phi. induction phis as [|p t IH]; intros Hn ph Hi; [destruct Hi|].
  cbn [map nodupN] in Hn. apply andb_prop in Hn. destruct Hn as [Hn1 Hn2]. cbn [find].
  destruct Hi as [->|Hi]; [rewrite N.eqb_refl; reflexivity|].
  destruct (N.eqb (phi_name p) (phi_name ph)) eqn:E; [|apply IH; assumption].
  exfalso. apply negb_true_iff in Hn1. assert (existsb (N.eqb (phi_name p)) (map phi_name t) = true); [|congruence].
  apply existsb_exists. exists (phi_name ph). split; [apply in_map; assumption|assumption].
Qed.

(* what phis_ok gives for one phi node *)
Lemma phis_ok_phi Gs phis ph : phis_ok Gs phis = true -> In ph phis ->
  exists v, sssa (phi_out ph) = Some v /\ tlookup Gs (phi_name ph) = Some (Some v).
Proof.
  unfold phis_ok. intros H Hi. apply andb_prop in H. destruct H as [_ H].
  rewrite forallb_forall in H. specialize (H _ Hi).
  destruct (sssa (phi_out ph)) as [v|]; [|discriminate].
  destruct (tlookup Gs (phi_name ph)) as [[w|]|]; try discriminate.
  apply N.eqb_eq in H. subst w. exists v. auto.
Qed.

Lemma edge_ok_transport gout Gs from phis x w : edge_ok gout Gs from phis = true -> tlookup Gs x = Some w ->
  transport_ok gout Gs from phis x = true.
Proof.
  unfold edge_ok. intros H Hl. rewrite forallb_forall in H. apply H. eapply tlookup_in. eassumption.
Qed.

(* every phi node has a slot for the way the block is entered *)
Lemma edge_ok_slots gout Gs from phis : edge_ok gout Gs from phis = true -> phis_ok Gs phis = true ->
  forall ph, In ph phis -> phi_select ph from <> None.
Proof.
  intros He Hp ph Hi. destruct (phis_ok_phi _ _ _ Hp Hi) as [v [Hv Hl]].
  pose proof (edge_ok_transport _ _ _ _ _ _ He Hl) as Ht. unfold transport_ok in Ht. rewrite Hl in Ht.
  unfold phis_ok in Hp. apply andb_prop in Hp. destruct Hp as [Hn _].
  rewrite (nodupN_find _ Hn _ Hi) in Ht. destruct (phi_select ph from); [discriminate|discriminate].
Qed.

(* entering a block: the relation is transported across the phi nodes *)
Lemma edge_sim (gout : tfun) Gs from phis s s' s'' :
  R gout s s' -> edge_ok gout Gs from phis = true -> phis_ok Gs phis = true ->
  phi_exec phis from s' = Ok s'' -> R (tlookup Gs) s s''.
Proof.
  intros HR He Hp Hx x w Hl. unfold phi_exec in Hx.
  destruct (phi_reads phis from s') as [ws|e|] eqn:Er; cbn [bind] in Hx; try discriminate. injection Hx as <-.
  rewrite phi_writes_get, (phi_reads_find _ _ _ _ Er).
  pose proof (edge_ok_transport _ _ _ _ _ _ He Hl) as Ht. unfold transport_ok in Ht. rewrite Hl in Ht.
  destruct (find_phi phis x) as [ph|] eqn:Ef.
  - destruct (find_phi_In _ _ _ Ef) as [Hi Hn].
    destruct (phis_ok_phi _ _ _ Hp Hi) as [v [Hv Hl']]. rewrite Hn, Hl in Hl'. injection Hl' as ->.
    pose proof (find_key_of_name _ _ _ Ef) as Hk. rewrite Hv in Hk. rewrite Hk.
    destruct (phi_select ph from) as [sc|]; [|discriminate]. cbn [snd].
    apply andb_prop in Ht. destruct Ht as [Ht1 Ht2]. apply N.eqb_eq in Ht1.
    destruct (gout x) as [v'|] eqn:Eg; [|discriminate]. apply optN_eqb_sound in Ht2. subst v'.
    unfold skey_of. rewrite Ht1. apply HR. assumption.
  - rewrite (find_key_none _ _ w Ef).
    destruct (gout x) as [v'|] eqn:Eg; [|discriminate]. apply optN_eqb_sound in Ht. subst v'.
    apply HR. assumption.
Qed.

(* ================================================================ erasure commutes with the lookups *)
Lemma find_block_erase bs i : find_block (map erase_block bs) i = option_map erase_block (find_block bs i).
Proof.
  induction bs as [|b t IH]; cbn [map find_block]; [reflexivity|].
  cbn [erase_block b_index]. destruct (b_index b =? i); [reflexivity|apply IH].
Qed.
Lemma find_instr_erase is_ i : find_instr (map erase_instr is_) i = option_map erase_instr (find_instr is_ i).
Proof.
  induction is_ as [|x t IH]; cbn [map find_instr]; [reflexivity|].
  cbn [erase_instr i_index]. destruct (i_index x =? i); [reflexivity|apply IH].
Qed.
Lemma find_edge_erase es h t : find_edge (map erase_edge es) h t = option_map erase_edge (find_edge es h t).
Proof.
  induction es as [|e r IH]; cbn [map find_edge]; [reflexivity|].
  cbn [erase_edge e_head e_tail]. destruct ((e_head e =? h) && (e_tail e =? t)); [reflexivity|apply IH].
Qed.
Lemma has_block_erase g i : has_block (erase_cfg g) i = has_block g i.
Proof.
  unfold has_block, erase_cfg. cbn [g_blocks]. rewrite find_block_erase. destruct (find_block (g_blocks g) i); reflexivity.
Qed.
Lemma filter_head_erase es i :
  filter (fun e => e_head e =? i) (map erase_edge es) = map erase_edge (filter (fun e => e_head e =? i) es).
Proof.
  induction es as [|e r IH]; cbn [map filter]; [reflexivity|].
  cbn [erase_edge e_head]. destruct (e_head e =? i); cbn [map]; rewrite IH; reflexivity.
Qed.
Lemma edge_locs_erase es : edge_locs (map erase_edge es) = edge_locs es.
Proof. unfold edge_locs. rewrite map_map. apply map_ext. intros e. reflexivity. Qed.

Definition out_locs (g : cfg) (i : Z) : res (list floc) := es <- cfg_edges_out g i ;; Ok (edge_locs es).
Lemma out_locs_erase g i : out_locs (erase_cfg g) i = out_locs g i.
Proof.
  unfold out_locs, cfg_edges_out. rewrite has_block_erase. destruct (has_block g i); [|reflexivity].
  cbn [bind]. unfold erase_cfg at 1. cbn [g_edges]. rewrite filter_head_erase, edge_locs_erase. reflexivity.
Qed.

Lemma fwd_scan_erase f' bi idx : forall is_,
  instr_forward_scan (erase_func f') bi (map erase_instr is_) idx = instr_forward_scan f' bi is_ idx.
Proof.
  induction is_ as [|x t IH]; cbn [map instr_forward_scan]; [reflexivity|].
  cbn [erase_instr i_index]. destruct (i_index x =? idx); [|apply IH].
  destruct t as [|y t']; cbn [map]; [|reflexivity].
  change (out_locs (erase_cfg (f_cfg f')) bi = out_locs (f_cfg f') bi). apply out_locs_erase.
Qed.

Lemma block_first_loc_erase b : block_first_loc (erase_block b) = block_first_loc b.
Proof. unfold block_first_loc. cbn [erase_block b_instrs b_index]. destruct (b_instrs b); reflexivity. Qed.

Lemma forward_erase f' l : forward (erase_func f') l = forward f' l.
Proof.
  destruct l as [bi ii|h t|bi]; cbn [forward].
  - unfold f_blocks, erase_func. cbn [f_cfg erase_cfg g_blocks]. rewrite find_block_erase.
    destruct (find_block (g_blocks (f_cfg f')) bi) as [b|]; cbn [option_map]; [|reflexivity].
    cbn [erase_block b_instrs]. apply (fwd_scan_erase f').
  - unfold f_block, cfg_block, erase_func. cbn [f_cfg erase_cfg g_blocks]. rewrite find_block_erase.
    destruct (find_block (g_blocks (f_cfg f')) t) as [b|]; cbn [option_map bind]; [|reflexivity].
    rewrite block_first_loc_erase. reflexivity.
  - change (out_locs (erase_cfg (f_cfg f')) bi = out_locs (f_cfg f') bi). apply out_locs_erase.
Qed.

Lemma loc_instruction_erase f' l : loc_instruction (erase_func f') l = option_map erase_instr (loc_instruction f' l).
Proof.
  destruct l as [bi ii|h t|bi]; cbn [loc_instruction]; try reflexivity.
  unfold f_blocks, erase_func. cbn [f_cfg erase_cfg g_blocks]. rewrite find_block_erase.
  destruct (find_block (g_blocks (f_cfg f')) bi) as [b|]; cbn [option_map]; [|reflexivity].
  unfold block_instruction. cbn [erase_block b_instrs]. apply find_instr_erase.
Qed.
Lemma loc_edge_erase f' l : loc_edge (erase_func f') l = option_map erase_edge (loc_edge f' l).
Proof.
  destruct l as [bi ii|h t|bi]; cbn [loc_edge]; try reflexivity.
  unfold f_edges, erase_func. cbn [f_cfg erase_cfg g_edges]. apply find_edge_erase.
Qed.
Lemma from_function_erase f' : from_function (erase_func f') = from_function f'.
Proof.
  unfold from_function, f_block, cfg_block, erase_func. cbn [f_cfg erase_cfg g_entry g_blocks].
  destruct (g_entry (f_cfg f')) as [e|]; [|reflexivity]. rewrite find_block_erase.
  destruct (find_block (g_blocks (f_cfg f')) e) as [b|]; cbn [option_map bind]; [|reflexivity].
  rewrite block_first_loc_erase. reflexivity.
Qed.

Lemma find_block_In bs i b : find_block bs i = Some b -> In b bs /\ b_index b = i.
Proof.
  induction bs as [|x t IH]; cbn [find_block]; [discriminate|].
  destruct (b_index x =? i) eqn:E.
  - intros H. injection H as <-. apply Z.eqb_eq in E. split; [left; reflexivity|assumption].
  - intros H. destruct (IH H). split; [right; assumption|assumption].
Qed.
Lemma find_edge_In es h t e : find_edge es h t = Some e -> In e es /\ e_head e = h /\ e_tail e = t.
Proof.
  induction es as [|x r IH]; cbn [find_edge]; [discriminate|].
  destruct ((e_head x =? h) && (e_tail x =? t)) eqn:E.
  - intros H. injection H as <-. apply andb_prop in E. destruct E as [E1 E2].
    apply Z.eqb_eq in E1. apply Z.eqb_eq in E2. split; [left; reflexivity|auto].
  - intros H. destruct (IH H) as [H1 H2]. split; [right; assumption|assumption].
Qed.
Lemma find_edge_some es e : In e es -> exists e2, find_edge es (e_head e) (e_tail e) = Some e2.
Proof.
  induction es as [|x r IH]; intros Hi; [destruct Hi|]. cbn [find_edge].
  destruct ((e_head x =? e_head e) && (e_tail x =? e_tail e)) eqn:E; [eexists; reflexivity|].
  destruct Hi as [->|Hi]; [rewrite !Z.eqb_refl in E; discriminate|apply IH; assumption].
Qed.

(* ================================================================ positions inside a block *)
Fixpoint ty_scan (G : tenv) (is_ : list instruction) (idx : Z) : option tenv :=
  match is_ with
  | [] => None
  | x :: rest => if i_index x =? idx then Some G else ty_scan (op_step G (i_op x)) rest idx
  end.

Lemma env_after_app a : forall G0 b, env_after G0 (a ++ b) = env_after (env_after G0 a) b.
Proof. induction a as [|x t IH]; intros G0 b; cbn [app env_after]; [reflexivity|apply IH]. Qed.
Lemma instrs_ok_app a : forall G0 b, instrs_ok G0 (a ++ b) = true ->
  instrs_ok G0 a = true /\ instrs_ok (env_after G0 a) b = true.
Proof.
  induction a as [|x t IH]; intros G0 b H; cbn [app instrs_ok env_after] in *; [auto|].
  apply andb_prop in H. destruct H as [H1 H2]. destruct (IH _ _ H2) as [H3 H4]. rewrite H1, H3. auto.
Qed.
Lemma ty_scan_split : forall is_ G0 i G, ty_scan G0 is_ i = Some G ->
  exists pre x rest, is_ = pre ++ x :: rest /\ i_index x = i /\ G = env_after G0 pre /\
                     (forall z, In z pre -> i_index z <> i).
Proof.
  induction is_ as [|x0 t IH]; intros G0 i G H; cbn [ty_scan] in H; [discriminate|].
  destruct (i_index x0 =? i) eqn:E.
  - injection H as <-. apply Z.eqb_eq in E. exists [], x0, t. cbn [app env_after].
    repeat split; auto; intros z Hz; destruct Hz.
  - destruct (IH _ _ _ H) as (pre & x & rest & -> & Hx & -> & Hp). exists (x0 :: pre), x, rest.
    cbn [app env_after]. repeat split; auto;
    intros z [<-|Hz]; [apply Z.eqb_neq; assumption|apply Hp; assumption].
Qed.
Lemma ty_scan_app pre : forall G0 l i, (forall z, In z pre -> i_index z <> i) ->
  ty_scan G0 (pre ++ l) i = ty_scan (env_after G0 pre) l i.
Proof.
  induction pre as [|x t IH]; intros G0 l i H; cbn [app ty_scan env_after]; [reflexivity|].
  destruct (i_index x =? i) eqn:E; [apply Z.eqb_eq in E; exfalso; apply (H x); [left; reflexivity|assumption]|].
  apply IH. intros z Hz. apply H. right. assumption.
Qed.
Lemma find_instr_split pre x rest : (forall z, In z pre -> i_index z <> i_index x) ->
  find_instr (pre ++ x :: rest) (i_index x) = Some x.
Proof.
  induction pre as [|p t IH]; intros H; cbn [app find_instr].
  - rewrite Z.eqb_refl. reflexivity.
  - destruct (i_index p =? i_index x) eqn:E; [apply Z.eqb_eq in E; exfalso; apply (H p); [left; reflexivity|assumption]|].
    apply IH. intros z Hz. apply H. right. assumption.
Qed.
Lemma fwd_scan_split f bi pre x rest : (forall z, In z pre -> i_index z <> i_index x) ->
  instr_forward_scan f bi (pre ++ x :: rest) (i_index x) =
  match rest with y :: _ => Ok [LInstr bi (i_index y)] | [] => out_locs (f_cfg f) bi end.
Proof.
  induction pre as [|p t IH]; intros H; cbn [app instr_forward_scan].
  - rewrite Z.eqb_refl. destruct rest; reflexivity.
  - destruct (i_index p =? i_index x) eqn:E; [apply Z.eqb_eq in E; exfalso; apply (H p); [left; reflexivity|assumption]|].
    apply IH. intros z Hz. apply H. right. assumption.
Qed.

Lemma nodupZ_NoDup l : nodupZ l = true -> NoDup l.
Proof.
  induction l as [|x t IH]; cbn [nodupZ]; intros H; [constructor|].
  apply andb_prop in H. destruct H as [H1 H2]. constructor; [|apply IH; assumption].
  intros Hi. apply negb_true_iff in H1. assert (existsb (Z.eqb x) t = true); [|congruence].
  apply existsb_exists. exists x. split; [assumption|apply Z.eqb_refl].
Qed.
Lemma nodup_next pre x y rest : NoDup (map i_index (pre ++ x :: y :: rest)) ->
  forall z, In z (pre ++ [x]) -> i_index z <> i_index y.
Proof.
  intros Hn z Hz E. replace (pre ++ x :: y :: rest) with ((pre ++ [x]) ++ y :: rest) in Hn
    by (rewrite <- app_assoc; reflexivity).
  rewrite map_app in Hn. cbn [map] in Hn. apply NoDup_remove_2 in Hn. apply Hn.
  apply in_or_app. left. rewrite <- E. apply in_map. assumption.
Qed.

(* ================================================================ guards *)
Lemma enabled_locs_sub g en : forall ls r, enabled_locs g en ls = Ok r -> forall l, In l r -> In l ls.
Proof.
  induction ls as [|l0 t IH]; intros r H l Hl; cbn [enabled_locs] in H.
  - injection H as <-. destruct Hl.
  - destruct (edge_enabled g en l0) as [b|e|]; cbn [bind] in H; try discriminate.
    destruct (enabled_locs g en t) as [r0|e|] eqn:Er; cbn [bind] in H; try discriminate.
    injection H as <-. destruct b.
    + destruct Hl as [<-|Hl]; [left; reflexivity|right; eapply IH; [reflexivity|assumption]].
    + right. eapply IH; [reflexivity|assumption].
Qed.

(* ================================================================ the lock-step simulation *)
Definition guards_ok_at (f' : func) (G : tenv) (l : floc) : Prop :=
  forall e c, loc_edge f' l = Some e -> e_cond e = Some c -> reads_ok G (scalars c) = true.

Lemma edge_enabled_sim f' G s s' l : R (tlookup G) s s' -> guards_ok_at f' G l ->
  edge_enabled (erase_func f') s l = edge_enabled f' s' l.
Proof.
  intros HR Hg. unfold edge_enabled. rewrite loc_edge_erase.
  destruct (loc_edge f' l) as [e|] eqn:El; cbn [option_map]; [|reflexivity].
  cbn [erase_edge e_cond]. destruct (e_cond e) as [c|] eqn:Ec; cbn [option_map]; [|reflexivity].
  rewrite (den_sim _ _ _ HR c (Hg _ _ El Ec)). reflexivity.
Qed.
Lemma enabled_locs_sim f' G s s' : R (tlookup G) s s' -> forall ls, (forall l, In l ls -> guards_ok_at f' G l) ->
  enabled_locs (erase_func f') s ls = enabled_locs f' s' ls.
Proof.
  intros HR. induction ls as [|l t IH]; intros H; cbn [enabled_locs]; [reflexivity|].
  rewrite (edge_enabled_sim _ _ _ _ _ HR (H l (or_introl eq_refl))).
  rewrite IH; [reflexivity|]. intros l' Hl'. apply H. right. assumption.
Qed.

Lemma sem_step_instr g bi ii x succs st :
  loc_instruction g (LInstr bi ii) = Some x -> forward g (LInstr bi ii) = Ok succs ->
  sem_step g (LInstr bi ii) st =
  match exec_op st (i_op x) with
  | Err e => Stuck e
  | Panic => Stuck EOther
  | Ok (st', EvBranch a) => Goto a st'
  | Ok (st', ev) => choose g st' ev succs
  end.
Proof. intros H1 H2. cbn [sem_step]. rewrite H1, H2. reflexivity. Qed.

Definition res_sim (ty : floc -> option tenv) (r r' : step_result) : Prop :=
  match r, r' with
  | Next l1 s1 e1, Next l1' s1' e1' =>
      l1 = l1' /\ ev_sim e1 e1' /\ exists G1, ty l1 = Some G1 /\ st_rel G1 s1 s1'
  | Goto a s, Goto a' s' => a = a' /\ st_mem s = st_mem s'
  | Exit s e, Exit s' e' => st_mem s = st_mem s' /\ ev_sim e e'
  | Stuck e, Stuck e' => e = e'
  | _, _ => False
  end.

(* one step of the two traces: same location; at that location the typing G relates the states
   (sigma'(x, G x) = sigma x for every tracked x, same memory) and every scalar the instruction reads
   is tracked at exactly the version it names; same outcome *)
Definition item_sim (f' : func) (ty : floc -> option tenv) (a b : trace_item) : Prop :=
  ti_loc a = ti_loc b /\
  (exists G, ty (ti_loc a) = Some G /\ st_rel G (ti_before a) (ti_before b) /\
             (forall i, loc_instruction f' (ti_loc a) = Some i -> op_ok G (i_op i) = true)) /\
  res_sim ty (ti_res a) (ti_res b).

Section Sim.
  Variable f' : func.
  Variable T : typing.
  Hypothesis Hck : check_typing f' T = true.

  (* the typing at a location: Gamma_in of the block advanced over the instructions before it *)
  Definition loc_ty (l : floc) : option tenv :=
    match l with
    | LInstr b i =>
        match find_block (f_blocks f') b, gin T b with
        | Some blk, Some G => ty_scan G (b_instrs blk) i
        | _, _ => None
        end
    | LEdge h t =>
        match find_block (f_blocks f') h, gin T h, find_edge (f_edges f') h t with
        | Some blk, Some G, Some _ => Some (env_after G (b_instrs blk))
        | _, _, _ => None
        end
    | LEmpty b =>
        match find_block (f_blocks f') b, gin T b with
        | Some blk, Some G => match b_instrs blk with [] => Some G | _ => None end
        | _, _ => None
        end
    end.

  Lemma ck_parts :
    struct_ok f' = true /\ defs_ok f' = true /\ forallb (block_ok T) (f_blocks f') = true /\
    forallb (edge_check f' T) (f_edges f') = true /\ entry_ok f' T = true /\
    forallb (fun b => forallb (phi_arity_ok f' b) (b_phis b)) (f_blocks f') = true.
  Proof.
    pose proof Hck as H. unfold check_typing in H.
    apply andb_prop in H. destruct H as [H H6]. apply andb_prop in H. destruct H as [H H5].
    apply andb_prop in H. destruct H as [H H4]. apply andb_prop in H. destruct H as [H H3].
    apply andb_prop in H. destruct H as [H1 H2]. auto 10.
  Qed.

  Lemma block_facts b blk G0 : find_block (f_blocks f') b = Some blk -> gin T b = Some G0 ->
    phis_ok G0 (b_phis blk) = true /\ instrs_ok G0 (b_instrs blk) = true /\ NoDup (map i_index (b_instrs blk)).
  Proof.
    intros Hb Hg. destruct (find_block_In _ _ _ Hb) as [Hi Hx].
    destruct ck_parts as (Hs & _ & Hbl & _). rewrite forallb_forall in Hbl. specialize (Hbl _ Hi).
    unfold block_ok in Hbl. rewrite Hx, Hg in Hbl. apply andb_prop in Hbl. destruct Hbl as [Hp Hio].
    unfold struct_ok in Hs. apply andb_prop in Hs. destruct Hs as [_ Hs]. rewrite forallb_forall in Hs.
    specialize (Hs _ Hi). apply nodupZ_NoDup in Hs. auto.
  Qed.

  Lemma edge_facts e blk G0 : In e (f_edges f') ->
    find_block (f_blocks f') (e_head e) = Some blk -> gin T (e_head e) = Some G0 ->
    exists bs Gs, find_block (f_blocks f') (e_tail e) = Some bs /\ gin T (e_tail e) = Some Gs /\
      (forall c, e_cond e = Some c -> reads_ok (env_after G0 (b_instrs blk)) (scalars c) = true) /\
      edge_ok (tlookup (env_after G0 (b_instrs blk))) Gs (Some (e_head e)) (b_phis bs) = true.
  Proof.
    intros Hi Hb Hg. destruct ck_parts as (_ & _ & _ & He & _). rewrite forallb_forall in He.
    specialize (He _ Hi). unfold edge_check in He. rewrite Hg, Hb in He.
    destruct (find_block (f_blocks f') (e_tail e)) as [bs|]; [|discriminate].
    destruct (gin T (e_tail e)) as [Gs|]; [|discriminate].
    apply andb_prop in He. destruct He as [He1 He2]. exists bs, Gs. repeat split; auto.
    intros c Hc. rewrite Hc in He1. exact He1.
  Qed.

  Lemma choose_sim G1 st1 st1' ev ev' succs : st_rel G1 st1 st1' -> ev_sim ev ev' ->
    (forall l1, In l1 succs -> loc_ty l1 = Some G1 /\ guards_ok_at f' G1 l1) ->
    res_sim loc_ty (choose (erase_func f') st1 ev succs) (choose f' st1' ev' succs).
  Proof.
    intros Hrel Hev Hs. unfold choose. destruct succs as [|l0 t].
    - cbn [res_sim]. destruct Hrel. auto.
    - destruct Hrel as [Hm HR].
      rewrite (enabled_locs_sim _ _ _ _ HR (l0 :: t)); [|intros l Hl; apply Hs; assumption].
      destruct (enabled_locs f' (st_env st1') (l0 :: t)) as [r|e|] eqn:En; cbn [res_sim]; auto.
      destruct r as [|l1 [|l2 r]]; cbn [res_sim]; auto.
      split; [reflexivity|]. split; [assumption|]. exists G1. split; [|split; assumption].
      apply Hs. eapply enabled_locs_sub; [eassumption|left; reflexivity].
  Qed.

  (* leaving block b (after its last instruction, or an empty block) *)
  Lemma out_sim b blk G0 st1 st1' ev ev' : find_block (f_blocks f') b = Some blk -> gin T b = Some G0 ->
    st_rel (env_after G0 (b_instrs blk)) st1 st1' -> ev_sim ev ev' ->
    forall succs, out_locs (f_cfg f') b = Ok succs ->
    res_sim loc_ty (choose (erase_func f') st1 ev succs) (choose f' st1' ev' succs).
  Proof.
    intros Hb Hg Hrel Hev succs Ho. apply (choose_sim (env_after G0 (b_instrs blk))); auto.
    intros l1 Hl1. unfold out_locs, cfg_edges_out in Ho. destruct (has_block (f_cfg f') b); [|discriminate].
    cbn [bind] in Ho. injection Ho as <-. unfold edge_locs in Hl1. apply in_map_iff in Hl1.
    destruct Hl1 as [e [<- He]]. apply filter_In in He. destruct He as [He Hh]. apply Z.eqb_eq in Hh.
    fold (f_edges f') in He. destruct (find_edge_some _ _ He) as [e2 He2]. rewrite Hh in He2.
    split.
    - cbn [loc_ty]. rewrite Hh, Hb, Hg, He2. reflexivity.
    - intros e3 c Hl Hc. cbn [loc_edge] in Hl. rewrite Hh, He2 in Hl. injection Hl as <-.
      destruct (find_edge_In _ _ _ _ He2) as (Hi2 & Hh2 & Ht2).
      assert (Hb2 : find_block (f_blocks f') (e_head e2) = Some blk) by (rewrite Hh2; assumption).
      assert (Hg2 : gin T (e_head e2) = Some G0) by (rewrite Hh2; assumption).
      destruct (edge_facts _ _ _ Hi2 Hb2 Hg2) as (bs & Gs & _ & _ & Hc2 & _). apply Hc2. assumption.
  Qed.

  Lemma first_loc_ty blk G : find_block (f_blocks f') (b_index blk) = Some blk -> gin T (b_index blk) = Some G ->
    loc_ty (block_first_loc blk) = Some G.
  Proof.
    intros Hb Hg. unfold block_first_loc. destruct (b_instrs blk) as [|x t] eqn:Ei; cbn [loc_ty]; rewrite Hb, Hg, Ei.
    - reflexivity.
    - cbn [ty_scan]. rewrite Z.eqb_refl. reflexivity.
  Qed.

  Theorem step_sim l G st st' : loc_ty l = Some G -> st_rel G st st' ->
    res_sim loc_ty (sem_step (erase_func f') l st) (ssa_step f' l st').
  Proof.
    intros Hty Hrel. destruct l as [b i|h t|b].
    - (* an instruction *)
      cbn [loc_ty] in Hty. destruct (find_block (f_blocks f') b) as [blk|] eqn:Hb; [|discriminate].
      destruct (gin T b) as [G0|] eqn:Hg; [|discriminate].
      destruct (block_facts _ _ _ Hb Hg) as (_ & Hio & Hnd).
      destruct (ty_scan_split _ _ _ _ Hty) as (pre & x & rest & Hsplit & Hx & HG & Hpre). subst i.
      rewrite Hsplit in Hio, Hnd. apply instrs_ok_app in Hio. destruct Hio as [_ Hio]. rewrite <- HG in Hio.
      cbn [instrs_ok] in Hio. apply andb_prop in Hio. destruct Hio as [Hop _].
      assert (Hli : loc_instruction f' (LInstr b (i_index x)) = Some x).
      { cbn [loc_instruction]. rewrite Hb. unfold block_instruction. rewrite Hsplit. apply find_instr_split. assumption. }
      assert (Hfw : forward f' (LInstr b (i_index x)) =
                    match rest with y :: _ => Ok [LInstr b (i_index y)] | [] => out_locs (f_cfg f') b end).
      { cbn [forward]. rewrite Hb, Hsplit. apply fwd_scan_split. assumption. }
      pose proof (exec_op_sim _ _ _ _ Hrel Hop) as Hx.
      cbn [ssa_step].
      destruct rest as [|y rest'].
      + (* last instruction of the block *)
        destruct (out_locs (f_cfg f') b) as [succs|e|] eqn:Ho.
        * rewrite (sem_step_instr f' b (i_index x) x succs st' Hli Hfw).
          rewrite (sem_step_instr (erase_func f') b (i_index x) (erase_instr x) succs st);
            [|rewrite loc_instruction_erase, Hli; reflexivity|rewrite forward_erase; exact Hfw].
          cbn [erase_instr i_op].
          assert (HG1 : env_after G0 (b_instrs blk) = op_step G (i_op x)).
          { rewrite Hsplit, env_after_app, <- HG. reflexivity. }
          destruct (exec_op st (erase_op (i_op x))) as [[s1 e1]|e|], (exec_op st' (i_op x)) as [[s1' e1']|e'|];
            cbn [op_res_sim] in Hx; try contradiction; cbn [res_sim]; auto.
          destruct Hx as [Hr1 Hev]. rewrite <- HG1 in Hr1.
          destruct e1, e1'; cbn [ev_sim] in Hev; try contradiction;
            try (eapply out_sim; eauto; fail).
          cbn [res_sim]. destruct Hr1. auto.
        * cbn [sem_step]. rewrite Hli, Hfw, loc_instruction_erase, Hli, forward_erase, Hfw. cbn [option_map erase_instr i_op].
          destruct (exec_op st (erase_op (i_op x))) as [[s1 e1]|e0|], (exec_op st' (i_op x)) as [[s1' e1']|e'|];
            cbn [op_res_sim] in Hx; try contradiction; cbn [res_sim]; auto.
          destruct Hx as [Hr1 Hev].
          destruct e1, e1'; cbn [ev_sim] in Hev; try contradiction; cbn [res_sim]; auto.
          destruct Hr1. auto.
        * cbn [sem_step]. rewrite Hli, Hfw, loc_instruction_erase, Hli, forward_erase, Hfw. cbn [option_map erase_instr i_op].
          destruct (exec_op st (erase_op (i_op x))) as [[s1 e1]|e0|], (exec_op st' (i_op x)) as [[s1' e1']|e'|];
            cbn [op_res_sim] in Hx; try contradiction; cbn [res_sim]; auto.
          destruct Hx as [Hr1 Hev].
          destruct e1, e1'; cbn [ev_sim] in Hev; try contradiction; cbn [res_sim]; auto.
          destruct Hr1. auto.
      + (* the next instruction of the block follows *)
        rewrite (sem_step_instr f' b (i_index x) x [LInstr b (i_index y)] st' Hli Hfw).
        rewrite (sem_step_instr (erase_func f') b (i_index x) (erase_instr x) [LInstr b (i_index y)] st);
          [|rewrite loc_instruction_erase, Hli; reflexivity|rewrite forward_erase; exact Hfw].
        cbn [erase_instr i_op].
        assert (Hnext : loc_ty (LInstr b (i_index y)) = Some (op_step G (i_op x))).
        { cbn [loc_ty]. rewrite Hb, Hg, Hsplit.
          replace (pre ++ x :: y :: rest') with ((pre ++ [x]) ++ y :: rest') by (rewrite <- app_assoc; reflexivity).
          rewrite ty_scan_app; [|apply (nodup_next _ _ _ _ Hnd)].
          cbn [ty_scan]. rewrite Z.eqb_refl, env_after_app, <- HG. reflexivity. }
        destruct (exec_op st (erase_op (i_op x))) as [[s1 e1]|e|], (exec_op st' (i_op x)) as [[s1' e1']|e'|];
          cbn [op_res_sim] in Hx; try contradiction; cbn [res_sim]; auto.
        destruct Hx as [Hr1 Hev].
        destruct e1, e1'; cbn [ev_sim] in Hev; try contradiction;
          try (apply (choose_sim (op_step G (i_op x))); auto;
               intros l1 [<-|[]]; split; [exact Hnext|intros e0 c Hl; discriminate Hl]; fail).
        cbn [res_sim]. destruct Hr1. auto.
    - (* an edge: the phi nodes of the target fire *)
      cbn [loc_ty] in Hty. destruct (find_block (f_blocks f') h) as [blk|] eqn:Hb; [|discriminate].
      destruct (gin T h) as [G0|] eqn:Hg; [|discriminate].
      destruct (find_edge (f_edges f') h t) as [e|] eqn:He; [|discriminate]. injection Hty as <-.
      destruct (find_edge_In _ _ _ _ He) as (Hi & Hh & Ht). subst h t.
      destruct (edge_facts _ _ _ Hi Hb Hg) as (bs & Gs & Hbs & Hgs & _ & Heo).
      destruct (find_block_In _ _ _ Hbs) as [_ Hix].
      assert (Hbs' : find_block (f_blocks f') (b_index bs) = Some bs) by (rewrite Hix; assumption).
      assert (Hgs' : gin T (b_index bs) = Some Gs) by (rewrite Hix; assumption).
      destruct (block_facts _ _ _ Hbs Hgs) as (Hpo & _ & _).
      assert (Hfw : forward f' (LEdge (e_head e) (e_tail e)) = Ok [block_first_loc bs]).
      { cbn [forward]. unfold f_block, cfg_block. fold (f_blocks f'). rewrite Hbs. reflexivity. }
      cbn [sem_step ssa_step]. rewrite forward_erase, Hfw, Hbs.
      destruct Hrel as [Hm HR].
      destruct (phi_reads_ok (b_phis bs) (Some (e_head e)) (st_env st') (edge_ok_slots _ _ _ _ Heo Hpo)) as [ws Hws].
      assert (Hx : phi_exec (b_phis bs) (Some (e_head e)) (st_env st') = Ok (phi_writes ws (st_env st'))).
      { unfold phi_exec. rewrite Hws. reflexivity. }
      rewrite Hx. cbn [res_sim]. split; [reflexivity|]. split; [exact I|]. exists Gs.
      split; [apply first_loc_ty; assumption|]. split; [exact Hm|]. cbn [st_env].
      eapply edge_sim; eauto.
    - (* an empty block *)
      cbn [loc_ty] in Hty. destruct (find_block (f_blocks f') b) as [blk|] eqn:Hb; [|discriminate].
      destruct (gin T b) as [G0|] eqn:Hg; [|discriminate].
      destruct (b_instrs blk) as [|x0 t0] eqn:Ei; [|discriminate]. injection Hty as <-.
      cbn [sem_step ssa_step forward]. fold (out_locs (f_cfg (erase_func f')) b). fold (out_locs (f_cfg f') b).
      change (f_cfg (erase_func f')) with (erase_cfg (f_cfg f')). rewrite out_locs_erase.
      destruct (out_locs (f_cfg f') b) as [succs|e|] eqn:Ho; cbn [res_sim]; auto.
      eapply out_sim; eauto; [rewrite Ei; exact Hrel|exact I].
  Qed.
  Lemma loc_ty_op_ok l G i : loc_ty l = Some G -> loc_instruction f' l = Some i -> op_ok G (i_op i) = true.
  Proof.
    intros Hty Hli. destruct l as [b ii|h t|b]; cbn [loc_instruction] in Hli; try discriminate.
    cbn [loc_ty] in Hty. destruct (find_block (f_blocks f') b) as [blk|] eqn:Hb; [|discriminate].
    destruct (gin T b) as [G0|] eqn:Hg; [|discriminate].
    destruct (block_facts _ _ _ Hb Hg) as (_ & Hio & _).
    destruct (ty_scan_split _ _ _ _ Hty) as (pre & x & rest & Hsplit & Hx & HG & Hpre). subst ii.
    unfold block_instruction in Hli. rewrite Hsplit, (find_instr_split _ _ _ Hpre) in Hli. injection Hli as <-.
    rewrite Hsplit in Hio. apply instrs_ok_app in Hio. destruct Hio as [_ Hio]. rewrite <- HG in Hio.
    cbn [instrs_ok] in Hio. apply andb_prop in Hio. destruct Hio as [Hop _]. exact Hop.
  Qed.

  Theorem run_sim n : forall l G st st', loc_ty l = Some G -> st_rel G st st' ->
    Forall2 (item_sim f' loc_ty) (sem_run n (erase_func f') l st) (ssa_run n f' l st').
  Proof.
    induction n as [|n IH]; intros l G st st' Hty Hrel; cbn [sem_run ssa_run]; [constructor|].
    pose proof (step_sim _ _ _ _ Hty Hrel) as Hs.
    constructor.
    - unfold item_sim. cbn [ti_loc ti_before ti_res]. split; [reflexivity|]. split; [|exact Hs].
      exists G. split; [assumption|]. split; [assumption|]. intros i Hi. eapply loc_ty_op_ok; eauto.
    - destruct (sem_step (erase_func f') l st) as [l1 s1 e1|a s1|s1 e1|e],
               (ssa_step f' l st') as [l1' s1' e1'|a' s1'|s1' e1'|e'];
        cbn [res_sim] in Hs; try contradiction; try constructor.
      destruct Hs as (<- & _ & G1 & Hty1 & Hrel1). eapply IH; eauto.
  Qed.

  Lemma start_sim st : exists l G st',
    from_function (erase_func f') = Some (Ok l) /\ ssa_start f' st = Some (Ok (l, st')) /\
    loc_ty l = Some G /\ st_rel G st st'.
  Proof.
    destruct ck_parts as (_ & _ & _ & _ & Hen & _). unfold entry_ok in Hen.
    destruct (g_entry (f_cfg f')) as [e|] eqn:Ee; [|discriminate].
    destruct (find_block (f_blocks f') e) as [b|] eqn:Hb; [|discriminate].
    destruct (gin T e) as [G|] eqn:Hg; [|discriminate].
    destruct (find_block_In _ _ _ Hb) as [_ Hix].
    destruct (block_facts _ _ _ Hb Hg) as (Hpo & _ & _).
    destruct (phi_reads_ok (b_phis b) None (st_env st) (edge_ok_slots _ _ _ _ Hen Hpo)) as [ws Hws].
    exists (block_first_loc b), G, (mkst (phi_writes ws (st_env st)) (st_mem st)).
    split.
    { rewrite from_function_erase. unfold from_function. rewrite Ee. unfold f_block, cfg_block.
      fold (f_blocks f'). rewrite Hb. reflexivity. }
    split.
    { unfold ssa_start. rewrite Ee. unfold f_block, cfg_block. fold (f_blocks f'). rewrite Hb. cbn [bind].
      unfold phi_exec. rewrite Hws. reflexivity. }
    split; [apply first_loc_ty; rewrite Hix; assumption|].
    split; [reflexivity|]. cbn [st_env]. eapply (edge_sim (fun _ => Some None)); eauto.
    - intros x v Hv. injection Hv as <-. reflexivity.
    - unfold phi_exec. rewrite Hws. reflexivity.
  Qed.
End Sim.

(* the original and the SSA form run in lock step from every initial state, for every number of steps *)
Definition simulates (f f' : func) : Prop :=
  exists ty : floc -> option tenv,
  forall st, exists l st',
    from_function f = Some (Ok l) /\ ssa_start f' st = Some (Ok (l, st')) /\
    forall n, Forall2 (item_sim f' ty) (sem_run n f l st) (ssa_run n f' l st').

Theorem check_typing_simulates f' T : check_typing f' T = true -> simulates (erase_func f') f'.
Proof.
  intros Hck. exists (loc_ty f' T). intros st.
  destruct (start_sim f' T Hck st) as (l & G & st' & H1 & H2 & H3 & H4).
  exists l, st'. split; [assumption|]. split; [assumption|]. intros n. eapply run_sim; eauto.
Qed.

(* ================================================================ validity of the SSA form *)
(* (i) single assignment: the versioned definitions (assign / load / phi / declared intrinsic write)
       are pairwise distinct, and every versioned use is one of them *)
Definition def_keys (f' : func) : list skey := map skey_of (filter versioned (all_defs f')).
Definition single_assignment (f' : func) : Prop :=
  NoDup (def_keys f') /\
  forall s, In s (all_uses f') -> sssa s <> None -> In (skey_of s) (def_keys f').

(* (iii) phi arity *)
Definition phi_arity (f' : func) : Prop :=
  forall b ph, In b (f_blocks f') -> In ph (b_phis b) ->
    NoDup (map fst (phi_incoming ph)) /\
    (forall p, In p (preds f' (b_index b)) <-> In p (map fst (phi_incoming ph))) /\
    (forall ks, In ks (phi_incoming ph) -> sname (snd ks) = phi_name ph) /\
    (phi_entry ph <> None <-> g_entry (f_cfg f') = Some (b_index b)) /\
    (forall s, phi_entry ph = Some s -> sname s = phi_name ph).

(* (ii) every use names the definition that reaches it on every path from the entry.
   [cur] = for every name the version of its most recent definition (None: no definition yet, the
   unversioned entry value).  [reaches f b c]: some CFG path from the entry to block b leaves, after
   b's phi nodes, the most recent definitions c.  Quantifying over all derivations = over all paths. *)
Definition cur := N -> option N.
Definition cur_writes (c : cur) (ws : list scalar) : cur :=
  fold_left (fun c s => fun x => if N.eqb (sname s) x then sssa s else c x) ws c.
Definition cur_op (c : cur) (o : operation) : cur :=
  match op_scalars_written o with Some ws => cur_writes c ws | None => c end.
Fixpoint cur_instrs (c : cur) (is_ : list instruction) : cur :=
  match is_ with [] => c | i :: t => cur_instrs (cur_op c (i_op i)) t end.
Definition cur_phis (c : cur) (phis : list phi) : cur :=
  fun x => match find_phi phis x with Some ph => sssa (phi_out ph) | None => c x end.

Inductive reaches (f : func) : block -> cur -> Prop :=
| reach_entry b :
    g_entry (f_cfg f) = Some (b_index b) -> find_block (f_blocks f) (b_index b) = Some b ->
    reaches f b (cur_phis (fun _ => None) (b_phis b))
| reach_edge p c s e :
    reaches f p c -> In e (f_edges f) -> e_head e = b_index p -> e_tail e = b_index s ->
    find_block (f_blocks f) (b_index s) = Some s ->
    reaches f s (cur_phis (cur_instrs c (b_instrs p)) (b_phis s)).

Definition uses_reached (f' : func) : Prop :=
  (forall b c, reaches f' b c ->
     (* one phi node per name, with a versioned output *)
     NoDup (map phi_name (b_phis b)) /\
     (forall ph, In ph (b_phis b) -> sssa (phi_out ph) <> None) /\
     (* operands and declared intrinsic reads name the most recent definition; writes are versioned *)
     (forall pre i rest, b_instrs b = pre ++ i :: rest ->
        (forall s, In s (opt_list (op_scalars_read (i_op i))) -> sssa s = cur_instrs c pre (sname s)) /\
        (forall s, In s (opt_list (op_scalars_written (i_op i))) -> sssa s <> None)) /\
     (* guards of the outgoing edges *)
     (forall e g s, In e (f_edges f') -> e_head e = b_index b -> e_cond e = Some g -> In s (scalars g) ->
        sssa s = cur_instrs c (b_instrs b) (sname s)) /\
     (* the slot for this block in every phi node of every successor *)
     (forall e sb ph, In e (f_edges f') -> e_head e = b_index b ->
        find_block (f_blocks f') (e_tail e) = Some sb -> In ph (b_phis sb) ->
        exists s, phi_select ph (Some (b_index b)) = Some s /\ sname s = phi_name ph /\
                  sssa s = cur_instrs c (b_instrs b) (phi_name ph))) /\
  (* the `entry` slots name the unversioned entry value *)
  (forall b ph, g_entry (f_cfg f') = Some (b_index b) -> find_block (f_blocks f') (b_index b) = Some b ->
     In ph (b_phis b) -> exists s, phi_entry ph = Some s /\ sname s = phi_name ph /\ sssa s = None).

Definition ssa_valid (f' : func) : Prop := single_assignment f' /\ uses_reached f' /\ phi_arity f'.

Lemma nodup_keys_NoDup l : nodup_keys l = true -> NoDup l.
Proof.
  induction l as [|x t IH]; cbn [nodup_keys]; intros H; [constructor|].
  apply andb_prop in H. destruct H as [H1 H2]. constructor; [|apply IH; assumption].
  intros Hi. apply negb_true_iff in H1. assert (existsb (skey_eqb x) t = true); [|congruence].
  apply existsb_exists. exists x. split; [assumption|apply skey_eqb_refl].
Qed.
Lemma nodupN_NoDup l : nodupN l = true -> NoDup l.
Proof.
  induction l as [|x t IH]; cbn [nodupN]; intros H; [constructor|].
  apply andb_prop in H. destruct H as [H1 H2]. constructor; [|apply IH; assumption].
  intros Hi. apply negb_true_iff in H1. assert (existsb (N.eqb x) t = true); [|congruence].
  apply existsb_exists. exists x. split; [assumption|apply N.eqb_refl].
Qed.
Lemma memZ_In x l : memZ x l = true <-> In x l.
Proof.
  unfold memZ. rewrite existsb_exists. split.
  - intros [y [Hy E]]. apply Z.eqb_eq in E. subst y. assumption.
  - intros H. exists x. split; [assumption|apply Z.eqb_refl].
Qed.
Lemma optZ_eqb_true a b : optZ_eqb a b = true <-> a = b.
Proof.
  destruct a as [x|], b as [y|]; cbn [optZ_eqb]; split; try discriminate; try reflexivity.
  - intros E. apply Z.eqb_eq in E. congruence.
  - intros E. injection E as ->. apply Z.eqb_refl.
Qed.

Definition agree (G : tenv) (c : cur) : Prop := forall x w, tlookup G x = Some w -> c x = w.

Lemma agree_writes ws : forall G c, agree G c -> agree (writes_step G ws) (cur_writes c ws).
Proof.
  unfold writes_step, cur_writes. induction ws as [|s t IH]; intros G c H; cbn [fold_left]; [assumption|].
  apply IH. intros x w Hl. cbn [tlookup] in Hl. destruct (N.eqb (sname s) x); [congruence|apply H; assumption].
Qed.
Lemma agree_op G c o : agree G c -> agree (op_step G o) (cur_op c o).
Proof. intros H. unfold op_step, cur_op. destruct (op_scalars_written o); [apply agree_writes|]; assumption. Qed.
Lemma agree_instrs is_ : forall G c, agree G c -> agree (env_after G is_) (cur_instrs c is_).
Proof.
  induction is_ as [|i t IH]; intros G c H; cbn [env_after cur_instrs]; [assumption|].
  apply IH. apply agree_op. assumption.
Qed.
Lemma agree_edge (gout : tfun) c Gs from phis : (forall x v, gout x = Some v -> c x = v) ->
  edge_ok gout Gs from phis = true -> phis_ok Gs phis = true -> agree Gs (cur_phis c phis).
Proof.
  intros Hg He Hp x w Hl. pose proof (edge_ok_transport _ _ _ _ _ _ He Hl) as Ht.
  unfold transport_ok in Ht. rewrite Hl in Ht. unfold cur_phis.
  destruct (find_phi phis x) as [ph|] eqn:Ef.
  - destruct (find_phi_In _ _ _ Ef) as [Hi Hn]. destruct (phis_ok_phi _ _ _ Hp Hi) as [v [Hv Hl']].
    rewrite Hn, Hl in Hl'. injection Hl' as ->. assumption.
  - destruct (gout x) as [v'|] eqn:Eg; [|discriminate]. apply optN_eqb_sound in Ht. subst v'. apply Hg. assumption.
Qed.

Lemma read_ok_agree G c s : agree G c -> read_ok G s = true -> sssa s = c (sname s).
Proof.
  intros Ha H. unfold read_ok in H. destruct (tlookup G (sname s)) as [v|] eqn:El; [|discriminate].
  apply optN_eqb_sound in H. rewrite (Ha _ _ El). symmetry. assumption.
Qed.

Section Valid.
  Variable f' : func.
  Variable T : typing.
  Hypothesis Hck : check_typing f' T = true.

  Lemma valid_single : single_assignment f'.
  Proof.
    destruct (ck_parts f' T Hck) as (_ & Hd & _). unfold defs_ok in Hd. apply andb_prop in Hd. destruct Hd as [H1 H2].
    split; [apply nodup_keys_NoDup; exact H1|].
    intros s Hs Hv. rewrite forallb_forall in H2. specialize (H2 _ Hs). apply orb_prop in H2. destruct H2 as [H2|H2].
    - unfold versioned in H2. destruct (sssa s); [discriminate|contradiction].
    - apply existsb_exists in H2. destruct H2 as [k [Hk E]]. apply skey_eqb_true in E. rewrite E. exact Hk.
  Qed.

  Lemma valid_arity : phi_arity f'.
  Proof.
    destruct (ck_parts f' T Hck) as (_ & _ & _ & _ & _ & Ha). intros b ph Hb Hph.
    rewrite forallb_forall in Ha. specialize (Ha _ Hb). rewrite forallb_forall in Ha. specialize (Ha _ Hph).
    unfold phi_arity_ok in Ha.
    apply andb_prop in Ha. destruct Ha as [Ha H5]. apply andb_prop in Ha. destruct Ha as [Ha H4].
    apply andb_prop in Ha. destruct Ha as [Ha H3]. apply andb_prop in Ha. destruct Ha as [H1 H2].
    rewrite forallb_forall in H2, H3, H4.
    split; [apply nodupZ_NoDup; exact H1|].
    split; [intros p; split; intros Hp; [apply memZ_In, H2; assumption|apply memZ_In, H3; assumption]|].
    split; [intros ks Hks; apply N.eqb_eq, H4; assumption|].
    destruct (phi_entry ph) as [s|].
    - apply andb_prop in H5. destruct H5 as [H5 H6]. apply optZ_eqb_true in H5. apply N.eqb_eq in H6.
      split; [split; [intros _; assumption|intros _; discriminate]|]. intros s0 E. injection E as <-. assumption.
    - apply negb_true_iff in H5. split; [|intros s0 E; discriminate].
      split; [intros H; contradiction|]. intros E. apply optZ_eqb_true in E. congruence.
  Qed.

  Lemma reaches_typed b c : reaches f' b c ->
    exists G, gin T (b_index b) = Some G /\ agree G c /\ find_block (f_blocks f') (b_index b) = Some b.
  Proof.
    induction 1 as [b He Hb|p c s e Hr IH Hi Hh Ht Hs].
    - destruct (ck_parts f' T Hck) as (_ & _ & _ & _ & Hen & _). unfold entry_ok in Hen. rewrite He, Hb in Hen.
      destruct (gin T (b_index b)) as [G|] eqn:Hg; [|discriminate].
      destruct (block_facts f' T Hck _ _ _ Hb Hg) as (Hpo & _ & _).
      exists G. split; [reflexivity|]. split; [|assumption].
      eapply (agree_edge (fun _ => Some None)); eauto. intros x v E. injection E as <-. reflexivity.
    - destruct IH as (Gp & Hgp & Hap & Hbp). rewrite <- Hh in Hgp, Hbp.
      destruct (edge_facts f' T Hck _ _ _ Hi Hbp Hgp) as (bs & Gs & Hbs & Hgs & _ & Heo).
      rewrite Ht in Hbs, Hgs. rewrite Hs in Hbs. injection Hbs as <-.
      destruct (block_facts f' T Hck _ _ _ Hs Hgs) as (Hpo & _ & _).
      exists Gs. split; [assumption|]. split; [|assumption].
      eapply agree_edge; eauto. intros x v. apply agree_instrs. assumption.
  Qed.

  Lemma valid_uses : uses_reached f'.
  Proof.
    split.
    - intros b c Hr. destruct (reaches_typed _ _ Hr) as (G & Hg & Ha & Hb).
      destruct (block_facts f' T Hck _ _ _ Hb Hg) as (Hpo & Hio & _).
      split; [unfold phis_ok in Hpo; apply andb_prop in Hpo; destruct Hpo as [Hn _]; apply nodupN_NoDup; exact Hn|].
      split; [intros ph Hph; destruct (phis_ok_phi _ _ _ Hpo Hph) as [v [Hv _]]; rewrite Hv; discriminate|].
      split.
      { intros pre i rest Hsplit. rewrite Hsplit in Hio. apply instrs_ok_app in Hio. destruct Hio as [_ Hio].
        cbn [instrs_ok] in Hio. apply andb_prop in Hio. destruct Hio as [Hop _]. unfold op_ok in Hop.
        apply andb_prop in Hop. destruct Hop as [Hrd Hwr]. split.
        - intros s Hs. destruct (op_scalars_read (i_op i)) as [rs|]; [|destruct Hs]. cbn [opt_list] in Hs.
          unfold reads_ok in Hrd. rewrite forallb_forall in Hrd.
          apply (read_ok_agree (env_after G pre)); [apply agree_instrs; assumption|apply Hrd; assumption].
        - intros s Hs. destruct (op_scalars_written (i_op i)) as [ws|]; [|destruct Hs]. cbn [opt_list] in Hs.
          unfold writes_ok in Hwr. rewrite forallb_forall in Hwr. specialize (Hwr _ Hs).
          destruct (sssa s); [discriminate|discriminate]. }
      split.
      { intros e g s Hi Hh Hc Hs. rewrite <- Hh in Hb, Hg.
        destruct (edge_facts f' T Hck _ _ _ Hi Hb Hg) as (bs & Gs & _ & _ & Hgd & _).
        specialize (Hgd _ Hc). unfold reads_ok in Hgd. rewrite forallb_forall in Hgd.
        apply (read_ok_agree (env_after G (b_instrs b))); [apply agree_instrs; assumption|apply Hgd; assumption]. }
      { intros e sb ph Hi Hh Hsb Hph. rewrite <- Hh in Hb, Hg.
        destruct (edge_facts f' T Hck _ _ _ Hi Hb Hg) as (bs & Gs & Hbs & Hgs & _ & Heo).
        rewrite Hsb in Hbs. injection Hbs as <-.
        destruct (block_facts f' T Hck _ _ _ Hsb Hgs) as (Hpo' & _ & _).
        destruct (phis_ok_phi _ _ _ Hpo' Hph) as [v [Hv Hl]].
        pose proof (edge_ok_transport _ _ _ _ _ _ Heo Hl) as Ht. unfold transport_ok in Ht. rewrite Hl in Ht.
        pose proof Hpo' as Hn. unfold phis_ok in Hn. apply andb_prop in Hn. destruct Hn as [Hn _].
        rewrite (nodupN_find _ Hn _ Hph) in Ht. rewrite <- Hh.
        destruct (phi_select ph (Some (e_head e))) as [s|]; [|discriminate].
        apply andb_prop in Ht. destruct Ht as [Ht1 Ht2]. apply N.eqb_eq in Ht1.
        destruct (tlookup (env_after G (b_instrs b)) (phi_name ph)) as [v'|] eqn:El; [|discriminate].
        apply optN_eqb_sound in Ht2. exists s. split; [reflexivity|]. split; [assumption|].
        rewrite <- Ht2. symmetry. apply (agree_instrs (b_instrs b) G c Ha). assumption. }
    - intros b ph He Hb Hph.
      destruct (ck_parts f' T Hck) as (_ & _ & _ & _ & Hen & _). unfold entry_ok in Hen. rewrite He, Hb in Hen.
      destruct (gin T (b_index b)) as [G|] eqn:Hg; [|discriminate].
      destruct (block_facts f' T Hck _ _ _ Hb Hg) as (Hpo & _ & _).
      destruct (phis_ok_phi _ _ _ Hpo Hph) as [v [Hv Hl]].
      pose proof (edge_ok_transport _ _ _ _ _ _ Hen Hl) as Ht. unfold transport_ok in Ht. rewrite Hl in Ht.
      pose proof Hpo as Hn. unfold phis_ok in Hn. apply andb_prop in Hn. destruct Hn as [Hn _].
      rewrite (nodupN_find _ Hn _ Hph) in Ht. cbn [phi_select] in Ht.
      destruct (phi_entry ph) as [s|]; [|discriminate].
      apply andb_prop in Ht. destruct Ht as [Ht1 Ht2]. apply N.eqb_eq in Ht1. apply optN_eqb_sound in Ht2.
      exists s. auto.
  Qed.
End Valid.

Theorem check_typing_valid f' T : check_typing f' T = true -> ssa_valid f'.
Proof.
  intros H. split; [eapply valid_single; eauto|]. split; [eapply valid_uses; eauto|eapply valid_arity; eauto].
Qed.

(* every block that can be reached from the entry is covered by the claims above *)
Theorem ssa_check_sound f f' : ssa_check f f' = true ->
  erase_func f' = f /\ ssa_valid f' /\ simulates f f'.
Proof.
  unfold ssa_check. intros H. apply andb_prop in H. destruct H as [H1 H2].
  apply func_eqb_sound in H1. subst f. split; [reflexivity|].
  split; [eapply check_typing_valid; eauto|eapply check_typing_simulates; eauto].
Qed.

(* what the typing in [item_sim] means for the operands: every scalar read by the instruction about to
   execute has, in the SSA state at the version it names, the binding its name has in the original state *)
Lemma item_operands_agree f' ty a b : item_sim f' ty a b ->
  forall i rs s, loc_instruction f' (ti_loc a) = Some i -> op_scalars_read (i_op i) = Some rs -> In s rs ->
  env_get (st_env (ti_before b)) (skey_of s) = env_get (st_env (ti_before a)) (sname s, None).
Proof.
  intros (_ & (G & _ & [_ HR] & Hop) & _) i rs s Hi Hrs Hs. specialize (Hop _ Hi). unfold op_ok in Hop.
  apply andb_prop in Hop. destruct Hop as [Hrd _]. rewrite Hrs in Hrd. unfold reads_ok in Hrd.
  rewrite forallb_forall in Hrd. specialize (Hrd _ Hs). unfold read_ok in Hrd.
  destruct (tlookup G (sname s)) as [v|] eqn:El; [|discriminate]. apply optN_eqb_sound in Hrd. subst v.
  unfold skey_of. apply HR. assumption.
Qed.
