(* SSA/SsaSmall.v -- [F] small-scope completeness: on a finite, explicitly enumerated family of
   functions the MODEL of the algorithm (SsaModel.ssa_model) succeeds and its output passes the verified
   validator, hence (SsaSound.ssa_check_sound) is valid SSA that simulates the input on every state.

   Family: 1..3 blocks (entry = block 0); every block holds one operation of a 6-element alphabet over
   two 32-bit scalars x, y; the successors of a block are any set of at most two blocks (none: exit; one:
   unconditional edge; two: the complementary guards x == 1 / (x == 1) == 0).  This includes
   self-loops, loops through the entry, unreachable blocks, and scalars read only by guards. *)
From Coq Require Import ZArith List Bool NArith.
From Falcon Require Import Base.Res IL.Const IL.Expr IL.Func IL.Loc SSA.SemSSA SSA.FuncEq SSA.SsaCheck SSA.SsaModel.
Import ListNotations.
Local Open Scope Z_scope.

Definition vx := mks 0%N 32 None.
Definition vy := mks 1%N 32 None.
Definition alphabet : list operation :=
  [ OAssign vx (EConst (mkc 32 1));
    OAssign vy (EScalar vx);
    OAssign vx (EBin Add (EScalar vx) (EScalar vy));
    OLoad vy (EScalar vx);
    OStore (EScalar vy) (EScalar vx);
    ONop None ].
Definition gd := EBin Cmpeq (EScalar vx) (EConst (mkc 32 1)).
Definition ngd := EBin Cmpeq gd (EConst (mkc 1 0)).

Fixpoint lists_of {A} (n : nat) (choices : list A) : list (list A) :=
  match n with
  | O => [[]]
  | S n => flat_map (fun c => map (cons c) (lists_of n choices)) choices
  end.
Fixpoint range (n : nat) : list Z := match n with O => [] | S n => range n ++ [Z.of_nat n] end.
Fixpoint pairs (l : list Z) : list (list Z) :=
  match l with [] => [] | a :: t => map (fun b => [a; b]) t ++ pairs t end.
Definition out_choices (n : nat) : list (list Z) := [] :: map (fun t => [t]) (range n) ++ pairs (range n).

Definition out_edges (h : Z) (ts : list Z) : list edge :=
  match ts with
  | [t] => [mkedge h t None]
  | [t1; t2] => [mkedge h t1 (Some gd); mkedge h t2 (Some ngd)]
  | _ => []
  end.
Fixpoint mk_blocks (i : Z) (ops : list operation) : list block :=
  match ops with [] => [] | o :: t => mkblock i 1 [mkinstr 0 o None] [] :: mk_blocks (i + 1) t end.
Fixpoint mk_edges (i : Z) (outs : list (list Z)) : list edge :=
  match outs with [] => [] | ts :: r => out_edges i ts ++ mk_edges (i + 1) r end.
Definition mk_fun (ops : list operation) (outs : list (list Z)) : func :=
  mkfunc 0 (mkcfg (mk_blocks 0 ops) (mk_edges 0 outs) (Z.of_nat (length ops)) (Some 0) None) None.

Definition passes (f : func) : bool :=
  match ssa_model f with Ok f' => ssa_check f f' | _ => false end.

(* nested, so that no 74 000-element list is ever built *)
Definition family_passes (n : nat) : bool :=
  forallb (fun ops => forallb (fun outs => passes (mk_fun ops outs)) (lists_of n (out_choices n))) (lists_of n alphabet).

Lemma small_family_passes : family_passes 1 && family_passes 2 && family_passes 3 = true.
Proof. vm_compute. reflexivity. Qed.

Global Opaque family_passes.

(* 6 * 2  +  36 * 16  +  216 * 343  =  74 676 functions *)
Theorem ssa_model_passes_small : forall n ops outs, (1 <= n <= 3)%nat ->
  In ops (lists_of n alphabet) -> In outs (lists_of n (out_choices n)) ->
  exists f', ssa_model (mk_fun ops outs) = Ok f' /\ ssa_check (mk_fun ops outs) f' = true.
Proof.
  intros n ops outs Hn Hops Houts. pose proof small_family_passes as H.
  apply andb_prop in H. destruct H as [H H3]. apply andb_prop in H. destruct H as [H1 H2].
  assert (Hp : family_passes n = true).
  { destruct n as [|[|[|[|n]]]].
    - exfalso. destruct Hn as [Hn _]. inversion Hn.
    - exact H1.
    - exact H2.
    - exact H3.
    - exfalso. destruct Hn as [_ Hn]. do 3 apply le_S_n in Hn. inversion Hn. }
  Local Transparent family_passes. unfold family_passes in Hp. rewrite forallb_forall in Hp. specialize (Hp _ Hops).
  rewrite forallb_forall in Hp. specialize (Hp _ Houts). unfold passes in Hp.
  destruct (ssa_model (mk_fun ops outs)) as [f'|e|]; [|discriminate Hp|discriminate Hp].
  exists f'. split; [reflexivity|exact Hp].
Qed.
Print Assumptions ssa_model_passes_small.
