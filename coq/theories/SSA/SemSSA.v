(* SSA/SemSSA.v -- what "executing the SSA form" means (property C10).  Definitions only.

   The state is the one of Exec/Sem.v: a scalar environment keyed by (name, ssa version) and a byte
   memory.  Instructions and edge guards execute exactly as in Sem (sem_step); the only addition is
   the phi nodes: on entering a block along the edge p -> s (location LEdge p s), or on entering the
   function (the `entry` slot), ALL phi nodes of the block fire IN PARALLEL: every one reads, in the
   state before the block, the incoming scalar recorded for the edge just taken and its output
   version takes that binding.  A binding is copied as it is: an undefined incoming scalar leaves
   the output undefined (reading it later is ExecutorScalar, as reading the name would have been in
   the original).  A phi node without a slot for the edge taken is a fault.

   The unversioned key (x, None) is never written by a function in SSA form: it holds the value x
   had when the function was entered. *)
From Coq Require Import ZArith List Bool NArith.
From Falcon Require Import Base.Res IL.Const IL.Expr IL.Func IL.Loc Exec.Sem.
Import ListNotations.
Local Open Scope Z_scope.

Fixpoint env_remove (en : senv) (k : skey) : senv :=
  match en with
  | [] => []
  | (k', v) :: t => if skey_eqb k' k then env_remove t k else (k', v) :: env_remove t k
  end.
(* install a binding or its absence *)
Definition env_put (en : senv) (k : skey) (o : option const) : senv :=
  match o with Some v => env_set en k v | None => env_remove en k end.

Fixpoint assocZ {A} (l : list (Z * A)) (k : Z) : option A :=
  match l with [] => None | (k', v) :: t => if k' =? k then Some v else assocZ t k end.

(* the incoming scalar of a phi node for the way the block was entered:
   [from] = Some p : along the edge p -> block;  None : function entry *)
Definition phi_select (ph : phi) (from : option Z) : option scalar :=
  match from with
  | None => phi_entry ph
  | Some p => assocZ (phi_incoming ph) p
  end.

(* all reads happen in the state before the block *)
Fixpoint phi_reads (phis : list phi) (from : option Z) (en : senv) : res (list (skey * option const)) :=
  match phis with
  | [] => Ok []
  | ph :: t =>
      match phi_select ph from with
      | None => Err EOther
      | Some s => r <- phi_reads t from en ;; Ok ((skey_of (phi_out ph), env_get en (skey_of s)) :: r)
      end
  end.
(* ... then all outputs are written (the first phi node of the list for a given output wins; in a
   function where every version has one definition the order does not matter) *)
Definition phi_writes (ws : list (skey * option const)) (en : senv) : senv :=
  fold_right (fun w e => env_put e (fst w) (snd w)) en ws.
Definition phi_exec (phis : list phi) (from : option Z) (en : senv) : res senv :=
  ws <- phi_reads phis from en ;; Ok (phi_writes ws en).

(* entering the function: the entry block's phi nodes select their `entry` slot *)
Definition ssa_start (f : func) (st : sstate) : option (res (floc * sstate)) :=
  match g_entry (f_cfg f) with
  | None => None
  | Some e => Some (b <- f_block f e ;;
                    en <- phi_exec (b_phis b) None (st_env st) ;;
                    Ok (block_first_loc b, mkst en (st_mem st)))
  end.

Definition ssa_step (f : func) (l : floc) (st : sstate) : step_result :=
  match l with
  | LEdge h t =>
      match forward f l, find_block (f_blocks f) t with
      | Ok [l'], Some b =>
          match phi_exec (b_phis b) (Some h) (st_env st) with
          | Ok en => Next l' (mkst en (st_mem st)) EvNone
          | Err e => Stuck e
          | Panic => Stuck EOther
          end
      | _, _ => Stuck EOther
      end
  | _ => sem_step f l st
  end.

Fixpoint ssa_run (fuel : nat) (f : func) (l : floc) (st : sstate) : list trace_item :=
  match fuel with
  | O => []
  | Datatypes.S fuel =>
      let r := ssa_step f l st in
      mkti l st r :: match r with Next l' st' _ => ssa_run fuel f l' st' | _ => [] end
  end.
