(* SSA/SsaNonLocal.v -- [U] what compute_non_local_scalars (as repaired) guarantees: in every block, a scalar
   read by an instruction, or by the guard of an outgoing edge, is non-local unless an earlier instruction of
   the same block wrote it.  (The pristine code did not scan the guards: defect (b).)  This is the fact the
   completeness argument needs to know that every read is of a tracked name. *)
From Coq Require Import ZArith List Bool NArith Lia.
From Falcon Require Import Base.Res IL.Const IL.Expr IL.Func IL.Loc
     Graph.NMap Graph.Graph Graph.Algo SSA.SemSSA SSA.FuncEq SSA.SsaCheck SSA.SsaModel.
Import ListNotations.
Local Open Scope Z_scope.

Lemma scalar_eqb_refl' s : scalar_eqb s s = true.
Proof. unfold scalar_eqb. rewrite N.eqb_refl, Z.eqb_refl, optN_eqb_refl. reflexivity. Qed.
Lemma mem_scalar_In s l : mem_scalar s l = true <-> In s l.
Proof.
  unfold mem_scalar. rewrite existsb_exists. split.
  - intros [x [Hx E]]. apply scalar_eqb_sound in E. subst. assumption.
  - intros H. exists s. split; [assumption|apply scalar_eqb_refl'].
Qed.
Lemma add_scalar_In l x s : In s (add_scalar l x) <-> In s l \/ s = x.
Proof.
  unfold add_scalar. destruct (mem_scalar x l) eqn:E.
  - apply mem_scalar_In in E. split; [auto|intros [H| ->]; assumption].
  - split; [intros H; apply in_app_or in H; destruct H as [H|[<-|[]]]; auto|].
    intros [H| ->]; apply in_or_app; [left; assumption|right; left; reflexivity].
Qed.

Definition reads (i : instruction) : list scalar := opt_list (op_scalars_read (i_op i)).
Definition writes (i : instruction) : list scalar := opt_list (op_scalars_written (i_op i)).
Definition nlstep (st : list scalar * list scalar) (i : instruction) : list scalar * list scalar :=
  let '(nl, killed) := st in
  (fold_left (fun a s => if mem_scalar s killed then a else add_scalar a s) (reads i) nl,
   fold_left add_scalar (writes i) killed).

Lemma fold_add_In ws : forall k s, In s (fold_left add_scalar ws k) <-> In s k \/ In s ws.
Proof.
  induction ws as [|w t IH]; intros k s; cbn [fold_left]; [cbn [In]; tauto|].
  rewrite IH, add_scalar_In. cbn [In]. intuition.
Qed.
Lemma fold_reads_In killed rs : forall nl,
  incl nl (fold_left (fun a s => if mem_scalar s killed then a else add_scalar a s) rs nl) /\
  forall s, In s rs -> In s (fold_left (fun a s => if mem_scalar s killed then a else add_scalar a s) rs nl) \/ In s killed.
Proof.
  induction rs as [|x t IH]; intros nl; cbn [fold_left]; [split; [apply incl_refl|intros s []]|].
  destruct (IH (if mem_scalar x killed then nl else add_scalar nl x)) as [I1 I2]. split.
  - intros s Hs. apply I1. destruct (mem_scalar x killed); [assumption|apply add_scalar_In; left; assumption].
  - intros s [<-|Hs]; [|apply I2; assumption]. destruct (mem_scalar x killed) eqn:E.
    + right. apply mem_scalar_In. assumption.
    + left. apply I1. apply add_scalar_In. right. reflexivity.
Qed.

Lemma nlsteps_spec : forall l nl k,
  incl nl (fst (fold_left nlstep l (nl, k))) /\
  (forall s, In s (snd (fold_left nlstep l (nl, k))) <-> In s k \/ In s (flat_map writes l)) /\
  forall pre i rest, l = pre ++ i :: rest -> forall s, In s (reads i) ->
    In s (fst (fold_left nlstep l (nl, k))) \/ In s k \/ In s (flat_map writes pre).
Proof.
  induction l as [|x t IH]; intros nl k; cbn [fold_left].
  - split; [apply incl_refl|]. split; [intros s; cbn [snd flat_map In]; tauto|]. intros pre i0 rest H; destruct pre; discriminate.
  - cbn [nlstep]. destruct (fold_reads_In k (reads x) nl) as [R1 R2].
    destruct (IH (fold_left (fun a s => if mem_scalar s k then a else add_scalar a s) (reads x) nl)
                 (fold_left add_scalar (writes x) k)) as (I1 & I2 & I3).
    split; [eapply incl_tran; eassumption|]. split.
    + intros s. rewrite I2, fold_add_In. cbn [flat_map]. rewrite in_app_iff. tauto.
    + intros [|p pre] i0 rest H s Hs; cbn [app] in H; injection H as <- ->.
      * destruct (R2 s Hs) as [Hl|Hk]; [left; apply I1; assumption|right; left; assumption].
      * destruct (I3 pre i0 rest eq_refl s Hs) as [Hl|[Hk|Hw]]; [left; assumption| |].
        -- apply fold_add_In in Hk. destruct Hk as [Hk|Hk]; [right; left; assumption|].
           right. right. cbn [flat_map]. apply in_or_app. left. assumption.
        -- right. right. cbn [flat_map]. apply in_or_app. right. assumption.
Qed.

Lemma non_locals_block_eq g acc b :
  non_locals_block g acc b =
  let '(nl, killed) := fold_left nlstep (b_instrs b) (acc, []) in
  match cfg_edges_out g (b_index b) with
  | Ok es => fold_left (fun a e => match e_cond e with
                                   | Some c => fold_left (fun a2 s => if mem_scalar s killed then a2 else add_scalar a2 s) (scalars c) a
                                   | None => a
                                   end) es nl
  | _ => nl
  end.
Proof. reflexivity. Qed.

Lemma fold_guards_In killed : forall es nl,
  let F := fold_left (fun a e => match e_cond e with
                                  | Some c => fold_left (fun a2 s => if mem_scalar s killed then a2 else add_scalar a2 s) (scalars c) a
                                  | None => a end) es nl in
  incl nl F /\ forall e c s, In e es -> e_cond e = Some c -> In s (scalars c) -> In s F \/ In s killed.
Proof.
  induction es as [|x t IH]; intros nl; cbn [fold_left]; [split; [apply incl_refl|intros e c s []]|].
  cbv zeta in *. destruct (e_cond x) as [cx|] eqn:Ex.
  - destruct (fold_reads_In killed (scalars cx) nl) as [R1 R2].
    destruct (IH (fold_left (fun a2 s => if mem_scalar s killed then a2 else add_scalar a2 s) (scalars cx) nl)) as [I1 I2].
    split; [eapply incl_tran; eassumption|]. intros e c s [<-|He] Hc Hs.
    + rewrite Ex in Hc. injection Hc as <-. destruct (R2 s Hs) as [Hl|Hk]; [left; apply I1; assumption|right; assumption].
    + eapply I2; eauto.
  - destruct (IH nl) as [I1 I2]. split; [assumption|]. intros e c s [<-|He] Hc Hs; [congruence|eapply I2; eauto].
Qed.

Lemma non_locals_block_spec g acc b :
  incl acc (non_locals_block g acc b) /\
  (forall pre i rest, b_instrs b = pre ++ i :: rest -> forall s, In s (reads i) ->
     In s (non_locals_block g acc b) \/ In s (flat_map writes pre)) /\
  (forall es e c s, cfg_edges_out g (b_index b) = Ok es -> In e es -> e_cond e = Some c -> In s (scalars c) ->
     In s (non_locals_block g acc b) \/ In s (flat_map writes (b_instrs b))).
Proof.
  rewrite non_locals_block_eq. destruct (nlsteps_spec (b_instrs b) acc []) as (S1 & S2 & S3).
  destruct (fold_left nlstep (b_instrs b) (acc, [])) as [nl killed]. cbn [fst snd] in *.
  destruct (cfg_edges_out g (b_index b)) as [es|?|].
  - destruct (fold_guards_In killed es nl) as [G1 G2]. cbv zeta in *. split; [eapply incl_tran; eassumption|]. split.
    + intros pre i rest H s Hs. destruct (S3 pre i rest H s Hs) as [Hl|[[]|Hw]]; [left; apply G1; assumption|right; assumption].
    + intros es' e c s E He Hc Hs. injection E as <-. destruct (G2 e c s He Hc Hs) as [Hl|Hk]; [left; assumption|].
      right. apply S2 in Hk. destruct Hk as [[]|Hk]. assumption.
  - split; [assumption|]. split; [|intros; discriminate].
    intros pre i rest H s Hs. destruct (S3 pre i rest H s Hs) as [Hl|[[]|Hw]]; auto.
  - split; [assumption|]. split; [|intros; discriminate].
    intros pre i rest H s Hs. destruct (S3 pre i rest H s Hs) as [Hl|[[]|Hw]]; auto.
Qed.

(* [U] every read that is not preceded by a write in its block -- instruction operand, declared intrinsic read,
   or outgoing edge guard -- is of a non-local scalar *)
Theorem non_locals_cover g b : In b (g_blocks g) ->
  (forall pre i rest, b_instrs b = pre ++ i :: rest -> forall s, In s (reads i) ->
     mem_scalar s (compute_non_local_scalars g) = true \/ In s (flat_map writes pre)) /\
  (forall es e c s, cfg_edges_out g (b_index b) = Ok es -> In e es -> e_cond e = Some c -> In s (scalars c) ->
     mem_scalar s (compute_non_local_scalars g) = true \/ In s (flat_map writes (b_instrs b))).
Proof.
  unfold compute_non_local_scalars. intros Hb.
  assert (Hgen : forall bs acc, incl acc (fold_left (non_locals_block g) bs acc) /\
                 (In b bs -> forall s, In s (non_locals_block g (fold_left (non_locals_block g) [] acc) b) -> True)).
  { intros; split; [|auto]. revert acc. induction bs as [|x t IH]; intros acc; cbn [fold_left]; [apply incl_refl|].
    eapply incl_tran; [apply (non_locals_block_spec g acc x)|apply IH]. }
  assert (Hin : forall bs acc, In b bs -> exists acc', incl (non_locals_block g acc' b) (fold_left (non_locals_block g) bs acc)).
  { induction bs as [|x t IH]; intros acc Hi; [destruct Hi|]. cbn [fold_left]. destruct Hi as [->|Hi].
    - exists acc. apply (Hgen t (non_locals_block g acc b)).
    - apply IH. assumption. }
  destruct (Hin (g_blocks g) [] Hb) as [acc' Hincl].
  destruct (non_locals_block_spec g acc' b) as (_ & B2 & B3). split.
  - intros pre i rest H s Hs. destruct (B2 pre i rest H s Hs) as [Hl|Hw]; [left; apply mem_scalar_In, Hincl; assumption|right; assumption].
  - intros es e c s E He Hc Hs. destruct (B3 es e c s E He Hc Hs) as [Hl|Hw]; [left; apply mem_scalar_In, Hincl; assumption|right; assumption].
Qed.
