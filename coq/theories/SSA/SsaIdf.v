(* SSA/SsaIdf.v -- the dominance-frontier half of completeness.

   (a) [U] pure dominance facts (over Graph/Spec.v): if the set D of blocks that define a name (instruction
       writes and phi nodes) is closed under dominance frontiers into the phi blocks (`df_closed`), then at a
       block s WITHOUT a phi for the name every predecessor p sees the same D-dominators as idom(s)
       (`no_phi_agree`), and at an entry block without phi no definer dominates any predecessor
       (`no_phi_entry`).  This is the step of Cytron et al.'s argument that makes "version at the end of p =
       version at the end of idom(s)" true for dominator-tree renaming.
   (b) [U] the work-list loop of insert_phi_nodes establishes `df_closed` for the scalar it processes
       (`phi_loop_closed`): at the end, for every definition block and every block that received a phi node,
       the whole dominance frontier has a phi node -- given only that the `dominance_frontiers` map lists, for
       each block, its frontier (C11: compute_dominance_frontiers_correct). *)
From Coq Require Import ZArith List Bool NArith Lia.
From Falcon Require Import Base.Res IL.Const IL.Expr IL.Func IL.Loc
     Graph.NMap Graph.Graph Graph.Spec Graph.Algo Graph.DomTheory Graph.ClosureTotal
     SSA.SemSSA SSA.FuncEq SSA.SsaCheck SSA.SsaModel SSA.SsaFresh.
Import ListNotations.

Section Dominance.
  Variable es : list (N * N).
  Variable r : N.
  Variables D Dphi : N -> Prop.       (* blocks defining the name; blocks with a phi node for it *)
  Hypothesis Hclosed : forall d y, D d -> in_DF es r d y -> Dphi y.

  Lemma idom_dom_pred i s p : Spec.idom es r i s -> Spec.edge es p s -> Spec.reach es r p -> Spec.dom es r i p.
  Proof.
    intros [[[Hrs Hi] Hne] _] He Hrp. split; [assumption|]. intros l Hp.
    assert (Hps : Spec.path es r (l ++ [s]) s).
    { clear - Hp He. induction Hp as [a|a b l c Hab Hp IH]; cbn [app].
      - apply path_cons with (b := s); [assumption|constructor].
      - apply path_cons with (b := b); [assumption|apply IH; assumption]. }
    specialize (Hi _ Hps). destruct Hi as [Hi|Hi]; [left; assumption|].
    apply in_app_or in Hi. destruct Hi as [Hi|[Hi|[]]]; [right; assumption|congruence].
  Qed.

  (* a block without phi: every definer dominating a predecessor already dominates the immediate dominator *)
  Theorem no_phi_agree i s p a : Spec.idom es r i s -> ~ Dphi s -> Spec.edge es p s -> Spec.reach es r p ->
    D a -> (Spec.dom es r a p <-> Spec.dom es r a i).
  Proof.
    intros Hid Hnp He Hrp Ha. split.
    - intros Hap. destruct (sdom_dec es r a s) as [Hs|Hs].
      + destruct Hid as [_ Hmin]. apply Hmin. assumption.
      + exfalso. apply Hnp. apply (Hclosed a s Ha). exists p. auto.
    - intros Hai. eapply dom_trans; [exact Hai|]. eapply idom_dom_pred; eauto.
  Qed.

  (* the entry block without phi: no definer dominates a predecessor of the entry (the value on every back
     edge into the entry is still the entry value) *)
  Theorem no_phi_entry p a : ~ Dphi r -> Spec.edge es p r -> D a -> ~ Spec.dom es r a p.
  Proof.
    intros Hnp He Ha Hap. apply Hnp. apply (Hclosed a r Ha). exists p. split; [assumption|]. split; [assumption|].
    intros [Hd Hne]. apply Hne. destruct Hd as [_ Hd]. specialize (Hd [] (path_nil es r)). destruct Hd as [Hd|[]]. auto.
  Qed.
End Dominance.

(* ================================================================ (b) the work list closes the frontier *)
Local Open Scope Z_scope.

(* block i of g carries a phi node whose output is the (unversioned) scalar s *)
Definition has_phi (g : cfg) (i : Z) (s : scalar) : Prop :=
  exists b ph, In b (g_blocks g) /\ b_index b = i /\ In ph (b_phis b) /\ phi_out ph = s.

Lemma update_block_split_idx' : forall bs i f bs', update_block bs i f = Ok bs' ->
  exists l1 b l2, bs = l1 ++ b :: l2 /\ bs' = l1 ++ f b :: l2 /\ b_index b = i.
Proof.
  induction bs as [|x t IH]; intros i f bs' H; cbn [update_block] in H; [discriminate|].
  destruct (b_index x =? i) eqn:Ex.
  - injection H as <-. exists [], x, t. apply Z.eqb_eq in Ex. auto.
  - destruct (update_block t i f) as [r0|?|] eqn:E; cbn [bind] in H; try discriminate. injection H as <-.
    destruct (IH _ _ _ E) as (l1 & b & l2 & -> & -> & Hb). exists (x :: l1), b, l2. auto.
Qed.

Lemma memZ_true' x l : memZ x l = true -> In x l.
Proof. unfold memZ. intros H. apply existsb_exists in H. destruct H as [y [Hy E]]. apply Z.eqb_eq in E. subst. assumption. Qed.

Section WorkList.
  Variables (s : scalar) (defs : list Z) (entry : Z).

  (* one frontier element *)
  Lemma phi_step_facts q1 ins1 g1 d q' ins' g' :
    phi_step s defs entry (q1, ins1, g1) d = Ok (q', ins', g') ->
    (forall i, In i ins1 -> has_phi g1 i s) ->
    incl ins1 ins' /\ incl q1 q' /\ In (Z.of_N d) ins' /\
    (forall x, In x ins' -> In x ins1 \/ In x defs \/ In x q') /\
    (forall i, In i ins' -> has_phi g' i s).
  Proof.
    intros H Hphi. unfold phi_step in H. destruct (memZ (Z.of_N d) ins1) eqn:Em.
    - injection H as <- <- <-. apply memZ_true' in Em.
      repeat split; auto using incl_refl.
    - destruct (mk_phi g1 s (Z.of_N d) entry) as [ph|?|] eqn:Emk; cbn [bind] in H; try discriminate.
      match type of H with context [update_block ?B ?I ?F] => destruct (update_block B I F) as [bs|?|] eqn:Eu end;
        cbn [bind] in H; try discriminate.
      injection H as <- <- <-.
      assert (Hout : phi_out ph = s).
      { unfold mk_phi in Emk. destruct (cfg_predecessor_indices g1 (Z.of_N d)); cbn [bind] in Emk; try discriminate.
        injection Emk as <-. reflexivity. }
      destruct (update_block_split_idx' _ _ _ _ Eu) as (l1 & b & l2 & Hb & Hb' & Hi).
      split; [intros x Hx; right; assumption|]. split.
      { destruct (memZ (Z.of_N d) defs); [apply incl_refl|intros x Hx; apply in_or_app; left; assumption]. }
      split; [left; reflexivity|]. split.
      { intros x [<-|Hx]; [|left; assumption]. destruct (memZ (Z.of_N d) defs) eqn:Ed.
        - right. left. apply memZ_true'. assumption.
        - right. right. apply in_or_app. right. left. reflexivity. }
      intros i [<-|Hi']; unfold has_phi; cbn [set_blocks g_blocks]; rewrite Hb'.
      + eexists _, ph. split; [apply in_or_app; right; left; reflexivity|]. cbn [b_index b_phis].
        split; [assumption|]. split; [apply in_or_app; right; left; reflexivity|assumption].
      + destruct (Hphi i Hi') as (b0 & ph0 & Hb0 & Hi0 & Hp0 & Ho0). rewrite Hb in Hb0.
        apply in_app_or in Hb0. destruct Hb0 as [Hb0|[<-|Hb0]].
        * exists b0, ph0. split; [apply in_or_app; left; assumption|auto].
        * eexists _, ph0. split; [apply in_or_app; right; left; reflexivity|]. cbn [b_index b_phis].
          split; [assumption|]. split; [apply in_or_app; left; assumption|assumption].
        * exists b0, ph0. split; [apply in_or_app; right; right; assumption|auto].
  Qed.

  (* the whole frontier of the popped block *)
  Lemma frontier_facts : forall F q1 ins1 g1 q2 ins2 g2,
    fold_left (fun acc d => st <- acc ;; phi_step s defs entry st d) F (Ok (q1, ins1, g1)) = Ok (q2, ins2, g2) ->
    (forall i, In i ins1 -> has_phi g1 i s) ->
    incl ins1 ins2 /\ incl q1 q2 /\ (forall d, In d F -> In (Z.of_N d) ins2) /\
    (forall x, In x ins2 -> In x ins1 \/ In x defs \/ In x q2) /\
    (forall i, In i ins2 -> has_phi g2 i s).
  Proof.
    induction F as [|d t IH]; intros q1 ins1 g1 q2 ins2 g2 H Hphi; cbn [fold_left] in H.
    - injection H as <- <- <-. repeat split; auto using incl_refl. intros d [].
    - cbn [bind] in H. destruct (phi_step s defs entry (q1, ins1, g1) d) as [[[q' ins'] g']|?|] eqn:E1.
      + destruct (phi_step_facts _ _ _ _ _ _ _ E1 Hphi) as (A1 & A2 & A3 & A4 & A5).
        destruct (IH _ _ _ _ _ _ H A5) as (B1 & B2 & B3 & B4 & B5).
        split; [eapply incl_tran; eassumption|]. split; [eapply incl_tran; eassumption|]. split.
        { intros d' [<-|Hd']; [apply B1; assumption|apply B3; assumption]. }
        split; [|assumption]. intros x Hx. destruct (B4 x Hx) as [Hx'|[Hx'|Hx']]; auto.
        destruct (A4 x Hx') as [Hy|[Hy|Hy]]; auto.
      + rewrite fold_res_stuck in H by exact I. discriminate.
      + rewrite fold_res_stuck in H by exact I. discriminate.
  Qed.

  Variable dfs : nmap nset.
  (* b is still queued, or its whole frontier has phi nodes *)
  Definition settled (q ins : list Z) (b : Z) : Prop :=
    In b q \/ forall F d, nm_get (Z.to_N b) dfs = Some F -> In d F -> In (Z.of_N d) ins.

  Lemma phi_loop_closed : forall fuel q ins g g',
    phi_loop fuel dfs s defs entry q ins g = Ok g' ->
    (forall b, In b defs \/ In b ins -> settled q ins b) -> (forall i, In i ins -> has_phi g i s) ->
    exists INS, incl ins INS /\ (forall i, In i INS -> has_phi g' i s) /\
      forall b F d, In b defs \/ In b INS -> nm_get (Z.to_N b) dfs = Some F -> In d F -> In (Z.of_N d) INS.
  Proof.
    induction fuel as [|fuel IH]; intros q ins g g' H Hinv Hphi; cbn [phi_loop] in H; [discriminate|].
    destruct q as [|b q].
    - injection H as <-. exists ins. split; [apply incl_refl|]. split; [assumption|].
      intros b F d Hb HF Hd. destruct (Hinv b Hb) as [[]|Hs]. eapply Hs; eauto.
    - unfold nm_idx in H. destruct (nm_get (Z.to_N b) dfs) as [F|] eqn:EF; cbn [res_of_option bind] in H; try discriminate.
      match type of H with context [fold_left ?G F (Ok (q, ins, g))] =>
        destruct (fold_left G F (Ok (q, ins, g))) as [[[q2 ins2] g2]|?|] eqn:E2 end; cbn [bind] in H; try discriminate.
      destruct (frontier_facts _ _ _ _ _ _ _ E2 Hphi) as (B1 & B2 & B3 & B4 & B5).
      destruct (IH _ _ _ _ H) as (INS & I1 & I2 & I3); [|assumption|].
      + intros b' Hb'.
        assert (Hold : In b' defs \/ In b' ins -> settled q2 ins2 b').
        { intros Ho. destruct (Hinv b' Ho) as [[<-|Hq]|Hs].
          - right. intros F' d HF' Hd. rewrite EF in HF'. injection HF' as <-. apply B3. assumption.
          - left. apply B2. assumption.
          - right. intros F' d HF' Hd. apply B1. eapply Hs; eauto. }
        destruct Hb' as [Hb'|Hb']; [apply Hold; left; assumption|].
        destruct (B4 b' Hb') as [Hx|[Hx|Hx]]; [apply Hold; right; assumption|apply Hold; left; assumption|left; assumption].
      + exists INS. split; [eapply incl_tran; eassumption|]. split; assumption.
  Qed.
End WorkList.

(* phi nodes are only ever added *)
Lemma phi_step_mono s defs entry st d st' i s' :
  phi_step s defs entry st d = Ok st' -> has_phi (snd st) i s' -> has_phi (snd st') i s'.
Proof.
  intros H Hp. destruct st as [[q ins] g]. unfold phi_step in H. cbn [snd] in *.
  destruct (memZ (Z.of_N d) ins); [injection H as <-; assumption|].
  destruct (mk_phi g s (Z.of_N d) entry) as [ph|?|]; cbn [bind] in H; try discriminate.
  match type of H with context [update_block ?B ?I ?F] => destruct (update_block B I F) as [bs|?|] eqn:Eu end;
    cbn [bind] in H; try discriminate.
  injection H as <-. cbn [snd]. destruct (update_block_split_idx' _ _ _ _ Eu) as (l1 & b & l2 & Hb & Hb' & Hi).
  destruct Hp as (b0 & ph0 & Hb0 & Hi0 & Hp0 & Ho0). unfold has_phi. cbn [set_blocks g_blocks]. rewrite Hb'. rewrite Hb in Hb0.
  apply in_app_or in Hb0. destruct Hb0 as [Hb0|[<-|Hb0]].
  - exists b0, ph0. split; [apply in_or_app; left; assumption|auto].
  - eexists _, ph0. split; [apply in_or_app; right; left; reflexivity|]. cbn [b_index b_phis].
    split; [assumption|]. split; [apply in_or_app; left; assumption|assumption].
  - exists b0, ph0. split; [apply in_or_app; right; right; assumption|auto].
Qed.
Lemma phi_loop_mono dfs s defs entry i s' : forall fuel q ins g g',
  phi_loop fuel dfs s defs entry q ins g = Ok g' -> has_phi g i s' -> has_phi g' i s'.
Proof.
  induction fuel as [|fuel IH]; intros q ins g g' H Hp; cbn [phi_loop] in H; [discriminate|].
  destruct q as [|b q]; [injection H as <-; assumption|].
  destruct (nm_idx (Z.to_N b) dfs) as [df|?|]; cbn [bind] in H; try discriminate.
  match type of H with context [fold_left ?F df (Ok (q, ins, g))] =>
    destruct (fold_left F df (Ok (q, ins, g))) as [[[q2 ins2] g2]|?|] eqn:E2 end; cbn [bind] in H; try discriminate.
  eapply IH; [exact H|].
  refine (fold_res_pres _ (fun st => has_phi (snd st) i s') df _ _ _ E2 Hp).
  intros st d st' _ Hstep Hst. eapply phi_step_mono; eauto.
Qed.

(* every element of a result-fold gets its post-condition, if later steps preserve it *)
Lemma fold_res_each {S X} (step : S -> X -> res S) (Q : X -> S -> Prop) : forall l,
  (forall st x st', In x l -> step st x = Ok st' -> Q x st') ->
  (forall st y st' x, In y l -> step st y = Ok st' -> Q x st -> Q x st') ->
  forall st st', fold_left (fun acc x => s <- acc ;; step s x) l (Ok st) = Ok st' -> forall x, In x l -> Q x st'.
Proof.
  induction l as [|y t IH]; intros H1 H2 st st' E x Hx; [destruct Hx|]. cbn [fold_left bind] in E.
  destruct (step st y) as [s1|e|] eqn:E1.
  - destruct Hx as [<-|Hx].
    + refine (fold_res_pres step (Q y) t _ _ _ E (H1 _ _ _ (or_introl eq_refl) E1)).
      intros s0 z s0' Hz Hs. apply (H2 s0 z s0' y); [right; assumption|assumption].
    + eapply (IH (fun st0 x0 st0' Hx0 => H1 st0 x0 st0' (or_intror Hx0))
                 (fun st0 y0 st0' x0 Hy0 => H2 st0 y0 st0' x0 (or_intror Hy0))); eauto.
  - rewrite fold_res_stuck in E by exact I. discriminate.
  - rewrite fold_res_stuck in E by exact I. discriminate.
Qed.

(* `idf_closed g1 dfs sc defs`: in g1 the phi nodes for sc cover the iterated frontier of its definition blocks *)
Definition idf_closed (g1 : cfg) (dfs : nmap nset) (sc : scalar) (defs : list Z) : Prop :=
  exists INS, (forall i, In i INS -> has_phi g1 i sc) /\
    forall b F d, In b defs \/ In b INS -> nm_get (Z.to_N b) dfs = Some F -> In d F -> In (Z.of_N d) INS.

Lemma idf_closed_mono g g' dfs sc defs : (forall i, has_phi g i sc -> has_phi g' i sc) ->
  idf_closed g dfs sc defs -> idf_closed g' dfs sc defs.
Proof. intros Hm (INS & H1 & H2). exists INS. split; [intros i Hi; apply Hm, H1; assumption|assumption]. Qed.

(* [U] what insert_phi_nodes establishes: for every scalar that is written somewhere and is non-local, the phi
   nodes cover the iterated dominance frontier (w.r.t. the frontier map the function computed) *)
Theorem insert_phi_nodes_idf g g1 : insert_phi_nodes g = Ok g1 ->
  exists entry gr dfs, g_entry g = Some entry /\ cfg_graph g = Ok gr /\
    compute_dominance_frontiers gr (Z.to_N entry) = Ok dfs /\
    forall sc defs, In (sc, defs) (scalars_mutated_in_blocks g) ->
      mem_scalar sc (compute_non_local_scalars g) = true -> idf_closed g1 dfs sc defs.
Proof.
  unfold insert_phi_nodes. intros H. destruct (g_entry g) as [entry|] eqn:Een; [|discriminate].
  destruct (cfg_graph g) as [gr|?|] eqn:Egr; cbn [bind] in H; try discriminate.
  destruct (compute_dominance_frontiers gr (Z.to_N entry)) as [dfs|?|] eqn:Edf; cbn [bind] in H; try discriminate.
  exists entry, gr, dfs. split; [reflexivity|]. split; [reflexivity|]. split; [exact Edf|]. intros sc defs Hin Hnl.
  pose proof (fold_res_each
    (fun g1 sd => if negb (mem_scalar (fst sd) (compute_non_local_scalars g)) then Ok g1
                  else phi_loop (S (length (snd sd) + length (g_blocks g))) dfs (fst sd) (snd sd) entry (snd sd) [] g1)
    (fun sd g' => mem_scalar (fst sd) (compute_non_local_scalars g) = true -> idf_closed g' dfs (fst sd) (snd sd))
    (scalars_mutated_in_blocks g)) as HF.
  apply (HF) with (st := g) (x := (sc, defs)) in H; auto.
  - intros st [sc' defs'] st' _ Hstep Hnl'. cbn [fst snd] in *. rewrite Hnl' in Hstep. cbn [negb] in Hstep.
    destruct (phi_loop_closed _ _ _ _ _ _ _ _ _ Hstep) as (INS & _ & I2 & I3).
    + intros b [Hb|[]]. left. assumption.
    + intros i [].
    + exists INS. split; assumption.
  - intros st [sc' defs'] st' [sc'' defs''] _ Hstep Hq Hnl'. cbn [fst snd] in *. specialize (Hq Hnl').
    destruct (negb (mem_scalar sc' (compute_non_local_scalars g))); [injection Hstep as <-; assumption|].
    eapply idf_closed_mono; [|exact Hq]. intros i Hi. eapply phi_loop_mono; eauto.
Qed.
