(* SSA/SsaRenameEq.v -- [U] the reduction of the edge conditions of the validator to LOCAL equations of
   dominator-tree renaming.  Fix one name.  `defs b`: block b writes it by an instruction; `phi b`: b has a phi
   node for it; the placement covers the iterated frontier (`Hclosed`, proved for the model:
   SsaUncond.idf_covered).  Let vin b / vout b be the version of the name in scope at the entry of b (after its
   phi nodes) / at the end of b.  If they satisfy the three equations a dominator-tree walk with a scope stack
   establishes by construction
       (E1) idom i s, no phi at s      ->  vin s = vout i        (a child starts from its parent's final scope)
       (E3) b has no instruction write ->  vout b = vin b
       (E0) no phi at the entry        ->  vin r = v0            (the unversioned entry value)
   then every predecessor p of a phi-less block s ends with the version s starts with (`edge_agree`), and every
   predecessor of a phi-less entry ends with v0 (`entry_agree`): these are exactly the `edge_ok` obligations of
   the validator for names without phi node.  What remains open for `exists T, check_typing f' T = true` is to
   show that SsaModel.dom_walk establishes (E0)-(E3) for the versions found in its output. *)
From Coq Require Import List Bool NArith Lia.
From Falcon Require Import Graph.Spec Graph.DomTheory Graph.ClosureTotal Graph.IdomExists SSA.SsaIdf.
Import ListNotations.

Lemma path_end_in es a l b : path es a l b -> In b (a :: l).
Proof. induction 1 as [a|a c l d He Hp IH]; [left; reflexivity|right; exact IH]. Qed.
Lemma dom_self es r b : reach es r b -> dom es r b b.
Proof. intros Hr. split; [assumption|]. intros l Hp. eapply path_end_in. eassumption. Qed.

Section Eq.
  Variable es : list (N * N).
  Variable r : N.
  Variable vs : list N.                                   (* the vertices *)
  Hypothesis Hvs : forall v, reach es r v -> In v vs.
  Variables defs phi : N -> Prop.
  Hypothesis Hclosed : forall d y, (defs d \/ phi d) -> in_DF es r d y -> phi y.
  Variable A : Type.
  Variables vin vout : N -> A.
  Variable v0 : A.
  Hypothesis E1 : forall i s, idom es r i s -> ~ phi s -> vin s = vout i.
  Hypothesis E3 : forall b, reach es r b -> ~ defs b -> vout b = vin b.
  Hypothesis E0 : ~ phi r -> vin r = v0.

  (* number of strict dominators: strictly smaller for the immediate dominator *)
  Definition depth (b : N) : nat := length (filter (fun a => if sdom_dec es r a b then true else false) vs).

  Lemma filter_lt {X} (p q : X -> bool) (l : list X) x :
    (forall a, p a = true -> q a = true) -> In x l -> q x = true -> p x = false ->
    (length (filter p l) < length (filter q l))%nat.
  Proof.
    intros Hpq. induction l as [|a t IH]; intros Hx Hq Hp; [destruct Hx|]. cbn [filter].
    assert (Hle : forall t', (length (filter p t') <= length (filter q t'))%nat).
    { induction t' as [|c t' IH']; cbn [filter]; [lia|]. destruct (p c) eqn:Ep; [rewrite (Hpq c Ep); cbn [length]; lia|].
      destruct (q c); cbn [length]; lia. }
    destruct Hx as [->|Hx].
    - rewrite Hp, Hq. cbn [length]. specialize (Hle t). lia.
    - specialize (IH Hx Hq Hp). destruct (p a) eqn:Ep; [rewrite (Hpq a Ep); cbn [length]; lia|].
      destruct (q a); cbn [length]; lia.
  Qed.

  Lemma depth_idom j b : idom es r j b -> (depth j < depth b)%nat.
  Proof.
    intros [[Hjb Hne] Hmin]. unfold depth. apply (filter_lt _ _ vs j).
    - intros a Ha. destruct (sdom_dec es r a j) as [[Haj Hn]|]; [|discriminate].
      destruct (sdom_dec es r a b) as [|Hn']; [reflexivity|]. exfalso. apply Hn'. split; [eapply dom_trans; eassumption|].
      intros ->. apply Hn. eapply dom_antisym; eassumption.
    - apply Hvs. eapply dom_reach_dominator. eassumption.
    - destruct (sdom_dec es r j b) as [|Hn]; [reflexivity|]. exfalso. apply Hn. split; assumption.
    - destruct (sdom_dec es r j j) as [[_ Hn]|]; [exfalso; apply Hn; reflexivity|reflexivity].
  Qed.

  (* walking up the dominator tree from b to i without meeting a definer keeps the version *)
  Lemma chain_agree i : forall n b, (depth b < n)%nat -> reach es r b -> dom es r i b ->
    (forall a, (defs a \/ phi a) -> dom es r a b -> dom es r a i) -> vout b = vout i.
  Proof.
    induction n as [|n IH]; intros b Hn Hrb Hib Hup; [lia|].
    destruct (N.eq_dec b i) as [->|Hne]; [reflexivity|].
    assert (HnD : ~ (defs b \/ phi b)).
    { intros HD. apply Hne. eapply dom_antisym; [|exact Hib]. apply Hup; [assumption|]. apply dom_self. assumption. }
    assert (Hbr : b <> r).
    { intros ->. apply Hne. symmetry. apply (dom_root es r i). assumption. }
    destruct (idom_exists es r b Hrb Hbr) as [j Hj].
    rewrite (E3 b Hrb) by tauto. rewrite (E1 j b Hj) by tauto.
    pose proof Hj as [[Hjb Hjne] Hmin].
    apply IH.
    - pose proof (depth_idom j b Hj). lia.
    - eapply dom_reach_dominator. eassumption.
    - apply Hmin. split; [assumption|]. intros ->. apply Hne. reflexivity.
    - intros a Ha Haj. apply Hup; [assumption|]. eapply dom_trans; eassumption.
  Qed.

  (* ... and up to the root when no definer dominates b *)
  Lemma chain_root : ~ phi r -> forall n b, (depth b < n)%nat -> reach es r b ->
    (forall a, (defs a \/ phi a) -> ~ dom es r a b) -> vout b = v0.
  Proof.
    intros Hnr. induction n as [|n IH]; intros b Hn Hrb Hno; [lia|].
    assert (HnD : ~ (defs b \/ phi b)) by (intros HD; apply (Hno b HD); apply dom_self; assumption).
    rewrite (E3 b Hrb) by tauto.
    destruct (N.eq_dec b r) as [->|Hbr]; [apply E0; assumption|].
    destruct (idom_exists es r b Hrb Hbr) as [j Hj]. rewrite (E1 j b Hj) by tauto.
    pose proof Hj as [[Hjb Hjne] Hmin]. apply IH.
    - pose proof (depth_idom j b Hj). lia.
    - eapply dom_reach_dominator. eassumption.
    - intros a Ha Haj. apply (Hno a Ha). eapply dom_trans; eassumption.
  Qed.

  (* [U] the edge obligation of the validator for a name without phi node at the target *)
  Theorem edge_agree i s p : idom es r i s -> ~ phi s -> edge es p s -> reach es r p -> vout p = vin s.
  Proof.
    intros Hid Hns He Hrp. rewrite (E1 i s Hid Hns). apply (chain_agree i (S (depth p))); [lia|assumption| |].
    - eapply idom_dom_pred; eassumption.
    - intros a Ha Hap. apply (no_phi_agree es r (fun a => defs a \/ phi a) phi Hclosed i s p a); assumption.
  Qed.
  Theorem entry_agree p : ~ phi r -> edge es p r -> reach es r p -> vout p = v0.
  Proof.
    intros Hnr He Hrp. apply (chain_root Hnr (S (depth p))); [lia|assumption|].
    intros a Ha. apply (no_phi_entry es r (fun a => defs a \/ phi a) phi Hclosed p a); assumption.
  Qed.
End Eq.
