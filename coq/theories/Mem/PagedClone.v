(* Mem/PagedClone.v -- clone independence in the handle-table semantics used by the C08 checker.
   In a pure model a clone is the same value, so a store through one handle cannot be seen through
   another: the statement is immediate and says so.  What carries it in Rust is `RC::make_mut`
   under `&mut self`, i.e. the ownership discipline of safe Rust, which is trusted; the
   differential histories contain clones and cross-handle loads for that reason. *)
From Coq Require Import ZArith List Bool.
From Falcon Require Import Base.Res IL.Const Mem.PagedTypes Mem.Paged Mem.PagedSpec Mem.C08Check.
Import ListNotations.

Lemma set_nth_other {A} (l : list A) : forall n x l' k, set_nth l n x = Some l' -> k <> n -> nth_error l' k = nth_error l k.
Proof.
  induction l as [|y t IH]; intros n x l' k E N; cbn in E; [discriminate|].
  destruct n as [|n].
  - injection E as <-. destruct k; [congruence|reflexivity].
  - destruct (set_nth t n x) as [t'|] eqn:E2; [|discriminate]. injection E as <-.
    destruct k; [reflexivity|]. cbn. apply (IH n x t' k E2). congruence.
Qed.

Lemma store_clone_indep_l backs st h a vw vv ob st' h' :
  mstep backs st (OStore h a vw vv) = Some (ob, Some st') -> h' <> h -> nth_error st' h' = nth_error st h'.
Proof.
  cbn [mstep]. destruct (nth_error st h) as [m|]; [|discriminate].
  destruct (Paged.store COps m a (mkc vw vv)) as [m'|e|].
  - destruct (set_nth st h m') as [s|] eqn:E; [|discriminate]. intros H N. injection H as _ <-.
    eapply set_nth_other; eassumption.
  - intros H _. injection H as _ <-. reflexivity.
  - discriminate.
Qed.
