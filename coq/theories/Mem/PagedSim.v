(* Mem/PagedSim.v -- the paged-memory model is parametric in the Value trait: two instances whose
   operations are related stay related through every operation of the model (store, load, ...).
   Instantiated in PagedExpr.v with V1 = il::Expression (constant leaves), V2 = il::Constant,
   R x c := "x evaluates to c and has c's width".  Proofs only. *)
From Coq Require Import ZArith List Bool Lia.
From Falcon Require Import Base.Res IL.Const Mem.PagedTypes Mem.Paged.
Import ListNotations.
Local Open Scope Z_scope.

Inductive Rres {A B} (R : A -> B -> Prop) : res A -> res B -> Prop :=
| RR_ok a b : R a b -> Rres R (Ok a) (Ok b)
| RR_err e : Rres R (Err e) (Err e)
| RR_panic : Rres R Panic Panic.
Inductive Ropt {A B} (R : A -> B -> Prop) : option A -> option B -> Prop :=
| RO_some a b : R a b -> Ropt R (Some a) (Some b)
| RO_none : Ropt R None None.

Lemma Rres_bind {A B A' B'} (RA : A -> B -> Prop) (RB : A' -> B' -> Prop) r1 r2 f g :
  Rres RA r1 r2 -> (forall a b, RA a b -> Rres RB (f a) (g b)) -> Rres RB (bind r1 f) (bind r2 g).
Proof. intros H K. destruct H; cbn [bind]; [apply K; assumption|constructor|constructor]. Qed.
Lemma Rres_bind_same {T A' B'} (RB : A' -> B' -> Prop) (r : res T) f g :
  (forall a, Rres RB (f a) (g a)) -> Rres RB (bind r f) (bind r g).
Proof. intros K. destruct r; cbn [bind]; [apply K|constructor|constructor]. Qed.
Lemma Rres_chain {A B} (R : A -> B -> Prop) r1 r2 : Rres R r1 r2 -> Rres R (chain r1) (chain r2).
Proof. intros H. destruct H; cbn [chain]; constructor; assumption. Qed.

(* related association maps: same keys in the same order, related values *)
Definition Ramap {A B} (R : A -> B -> Prop) (m1 : amap A) (m2 : amap B) : Prop :=
  Forall2 (fun p q => fst p = fst q /\ R (snd p) (snd q)) m1 m2.
Lemma Ramap_aget {A B} (R : A -> B -> Prop) m1 m2 k : Ramap R m1 m2 -> Ropt R (aget m1 k) (aget m2 k).
Proof.
  intros H. induction H as [|[k1 a] [k2 b] t1 t2 [Hk Hr] _ IH]; cbn [aget]; [constructor|].
  cbn in Hk, Hr. subst k2. destruct (k =? k1); [constructor; assumption|exact IH].
Qed.
Lemma Ramap_aset {A B} (R : A -> B -> Prop) m1 m2 k a b : Ramap R m1 m2 -> R a b -> Ramap R (aset m1 k a) (aset m2 k b).
Proof.
  intros H Hab. induction H as [|[k1 a1] [k2 b1] t1 t2 [Hk Hr] Ht IH]; cbn [aset].
  - constructor; [split; [reflexivity|exact Hab]|constructor].
  - cbn in Hk, Hr. subst k2. destruct (k =? k1).
    + constructor; [split; [reflexivity|exact Hab]|exact Ht].
    + constructor; [split; [reflexivity|exact Hr]|exact IH].
Qed.

Section Sim.
  Context {V1 V2 : Type} (W1 : vops V1) (W2 : vops V2) (R : V1 -> V2 -> Prop).
  Hypothesis Hbits : forall x c, R x c -> v_bits W1 x = v_bits W2 c.
  Hypothesis Hconst : forall k, R (v_const W1 k) (v_const W2 k).
  Hypothesis Hshl : forall x c n, R x c -> Rres R (v_shl W1 x n) (v_shl W2 c n).
  Hypothesis Hshr : forall x c n, R x c -> Rres R (v_shr W1 x n) (v_shr W2 c n).
  Hypothesis Htrun : forall x c n, R x c -> Rres R (v_trun W1 x n) (v_trun W2 c n).
  Hypothesis Hzext : forall x c n, R x c -> Rres R (v_zext W1 x n) (v_zext W2 c n).
  Hypothesis Hor : forall x c y d, R x c -> R y d -> Rres R (v_or W1 x y) (v_or W2 c d).

  Inductive Rcell : @cell V1 -> @cell V2 -> Prop :=
  | RC_val x c : R x c -> Rcell (CVal x) (CVal c)
  | RC_ref b : Rcell (CRef b) (CRef b).
  Definition Rpage (p : @page V1) (q : @page V2) : Prop :=
    Ramap Rcell (p_cells p) (p_cells q) /\ p_perm p = p_perm q.
  Definition Rmem (m1 : @mem V1) (m2 : @mem V2) : Prop :=
    m_back m1 = m_back m2 /\ m_end m1 = m_end m2 /\ Ramap Rpage (m_pages m1) (m_pages m2).

  Lemma sim_new e b : Rmem (mnew e b) (mnew e b).
  Proof. repeat split. constructor. Qed.

  Lemma sim_load_cell m1 m2 a : Rmem m1 m2 -> Ropt Rcell (load_cell m1 a) (load_cell m2 a).
  Proof.
    intros (_ & _ & HP). unfold load_cell.
    destruct (Ramap_aget Rpage _ _ (page_addr a) HP) as [p q [Hc _]|]; [|constructor].
    apply Ramap_aget, Hc.
  Qed.

  Lemma sim_store_cell m1 m2 a c1 c2 : Rmem m1 m2 -> Rcell c1 c2 -> Rmem (store_cell m1 a c1) (store_cell m2 a c2).
  Proof.
    intros (Hb & He & HP) Hc. unfold store_cell.
    destruct (Ramap_aget Rpage _ _ (page_addr a) HP) as [p q [Hcs Hpm]|]; cbn [m_back m_end m_pages];
      (split; [exact Hb|]; split; [exact He|]); cbn [m_pages]; apply Ramap_aset; try exact HP.
    - split; cbn [p_cells p_perm]; [apply Ramap_aset; assumption|exact Hpm].
    - split; cbn [p_cells p_perm]; [|reflexivity]. constructor; [split; [reflexivity|exact Hc]|constructor].
  Qed.

  Lemma sim_load_backing m1 m2 a : Rmem m1 m2 -> Ropt R (load_backing W1 m1 a) (load_backing W2 m2 a).
  Proof.
    intros (Hb & _). unfold load_backing. rewrite Hb. destruct (ob_get8 (m_back m2) a); constructor. apply Hconst.
  Qed.

  Lemma sim_backrefs n : forall m1 m2 a i, Rmem m1 m2 -> Rres Rmem (backrefs n m1 a i) (backrefs n m2 a i).
  Proof.
    induction n as [|n IH]; intros m1 m2 a i H; cbn [backrefs]; [constructor; exact H|].
    apply Rres_bind_same. intros x. apply IH. apply sim_store_cell; [exact H|constructor].
  Qed.
  Lemma sim_snb m1 m2 a x c : Rmem m1 m2 -> R x c ->
    Rres Rmem (store_no_backref W1 m1 a x) (store_no_backref W2 m2 a c).
  Proof.
    intros H Hr. unfold store_no_backref. rewrite (Hbits x c Hr). apply sim_backrefs.
    apply sim_store_cell; [exact H|constructor; exact Hr].
  Qed.

  Lemma sim_first m1 m2 a bits : Rmem m1 m2 -> Rres (Ropt R) (first W1 m1 a bits) (first W2 m2 a bits).
  Proof.
    intros H. pose proof H as (_ & He & _). unfold first. rewrite He.
    destruct (sim_load_cell m1 m2 a H) as [c1 c2 Hc|].
    - destruct Hc as [x c Hr|b].
      + rewrite (Hbits x c Hr). destruct (v_bits W2 c <=? bits); [constructor; constructor; exact Hr|].
        destruct (m_end m2).
        * eapply Rres_bind; [apply Htrun, Hr|]. intros r1 r2 Hr2. constructor; constructor; exact Hr2.
        * apply Rres_bind_same. intros d. eapply Rres_bind; [apply Hshr, Hr|]. intros s1 s2 Hs.
          eapply Rres_bind; [apply Htrun, Hs|]. intros r1 r2 Hr2. constructor; constructor; exact Hr2.
      + destruct (sim_load_cell m1 m2 b H) as [d1 d2 Hd|]; [|constructor].
        destruct Hd as [x c Hr|b2]; [|constructor].
        rewrite (Hbits x c Hr).
        eapply Rres_bind.
        * instantiate (1 := R). destruct (m_end m2).
          -- apply Rres_bind_same. intros d. apply Rres_bind_same. intros sh. apply Rres_bind_same. intros tb.
             eapply Rres_bind; [apply Hshr, Hr|]. intros s1 s2 Hs. apply Rres_chain, Htrun, Hs.
          -- apply Rres_bind_same. intros d. apply Rres_bind_same. intros off. apply Rres_bind_same. intros sh.
             apply Rres_bind_same. intros t1. apply Rres_bind_same. intros tb.
             eapply Rres_bind; [apply Hshr, Hr|]. intros s1 s2 Hs. apply Rres_chain, Htrun, Hs.
        * intros p1 p2 Hp. rewrite (Hbits p1 p2 Hp). destruct (bits <? v_bits W2 p2).
          -- eapply Rres_bind; [apply Rres_chain, Htrun, Hp|]. intros r1 r2 Hr2. constructor; constructor; exact Hr2.
          -- constructor; constructor; exact Hp.
    - constructor. apply sim_load_backing, H.
  Qed.

  Lemma sim_bytewise (ld1 : Z -> res (option V1)) (ld2 : Z -> res (option V2)) m1 m2 :
    Rmem m1 m2 -> (forall x, Rres (Ropt R) (ld1 x) (ld2 x)) ->
    forall n a bits bytes off acc1 acc2, Ropt R acc1 acc2 ->
      Rres (Ropt R) (bytewise W1 ld1 m1 a bits bytes n off acc1) (bytewise W2 ld2 m2 a bits bytes n off acc2).
  Proof.
    intros H Hl n. pose proof H as (_ & He & _).
    induction n as [|n IH]; intros a bits bytes off acc1 acc2 Hacc; cbn [bytewise]; [constructor; exact Hacc|].
    apply Rres_bind_same. intros x. eapply Rres_bind; [apply Hl|]. intros o1 o2 Ho.
    assert (Hv: Ropt R (match o1 with Some v => Some v | None => load_backing W1 m1 x end)
                       (match o2 with Some v => Some v | None => load_backing W2 m2 x end)).
    { destruct Ho; [constructor; assumption|apply sim_load_backing, H]. }
    destruct Hv as [v1 v2 Hv|]; [|constructor; constructor].
    eapply Rres_bind; [apply Hzext, Hv|]. intros z1 z2 Hz. rewrite He.
    apply Rres_bind_same. intros sh. eapply Rres_bind; [apply Hshl, Hz|]. intros s1 s2 Hs.
    eapply Rres_bind.
    - instantiate (1 := R). destruct Hacc; [apply Hor; assumption|constructor; exact Hs].
    - intros r1 r2 Hr. apply IH. constructor. exact Hr.
  Qed.

  Lemma sim_load_f fuel : forall m1 m2 a bits, Rmem m1 m2 ->
    Rres (Ropt R) (load_f W1 fuel m1 a bits) (load_f W2 fuel m2 a bits).
  Proof.
    induction fuel as [|f IH]; intros m1 m2 a bits H; cbn [load_f]; [constructor|].
    destruct (negb (bits mod 8 =? 0)); [constructor|]. destruct (bits =? 0); [constructor|].
    eapply Rres_bind; [apply sim_first, H|]. intros f1 f2 Hf.
    destruct Hf as [lv1 lv2 Hlv|]; [|constructor; constructor].
    rewrite (Hbits lv1 lv2 Hlv). destruct (v_bits W2 lv2 =? bits); [constructor; constructor; exact Hlv|].
    apply sim_bytewise; [exact H| |constructor]. intros x. apply IH, H.
  Qed.
  Lemma sim_load m1 m2 a bits : Rmem m1 m2 -> Rres (Ropt R) (load W1 m1 a bits) (load W2 m2 a bits).
  Proof. apply sim_load_f. Qed.

  Lemma sim_store m1 m2 a x c : Rmem m1 m2 -> R x c -> Rres Rmem (Paged.store W1 m1 a x) (Paged.store W2 m2 a c).
  Proof.
    intros H Hr. unfold Paged.store. rewrite (Hbits x c Hr).
    destruct (negb (v_bits W2 c mod 8 =? 0) || (v_bits W2 c =? 0)); [constructor|].
    destruct (USIZE <? a + v_bits W2 c / 8); [constructor|].
    eapply Rres_bind.
    - instantiate (1 := Ropt R).
      destruct (a + v_bits W2 c / 8 =? USIZE); [constructor; constructor|].
      destruct (sim_load_cell m1 m2 (a + v_bits W2 c / 8) H) as [c1 c2 Hc|]; [|constructor; constructor].
      destruct Hc as [y d Hy|b]; [constructor; constructor|].
      destruct (sim_load_cell m1 m2 b H) as [d1 d2 Hd|]; [|constructor].
      destruct Hd as [y d Hy|b2]; [|constructor].
      rewrite (Hbits y d Hy). apply Rres_bind_same. intros dd. apply sim_load, H.
    - intros vtw1 vtw2 Hvtw. eapply Rres_bind.
      + instantiate (1 := Rmem). destruct Hvtw as [w1 w2 Hw|]; [apply sim_snb; assumption|constructor; exact H].
      + intros m1' m2' H'. eapply Rres_bind.
        * instantiate (1 := Ropt (fun p q => fst p = fst q /\ Ropt R (snd p) (snd q))).
          destruct (sim_load_cell m1' m2' a H') as [c1 c2 Hc|]; [|constructor; constructor].
          destruct Hc as [y d Hy|b]; [constructor; constructor|].
          eapply Rres_bind.
          -- instantiate (1 := Rcell). destruct (sim_load_cell m1' m2' b H'); cbn [res_of_option]; constructor; assumption.
          -- intros d1 d2 Hd. eapply Rres_bind.
             ++ instantiate (1 := R). destruct Hd; constructor; assumption.
             ++ intros bv1 bv2 Hbv. rewrite (Hbits bv1 bv2 Hbv).
                apply Rres_bind_same. intros dd.
                apply Rres_bind_same. intros lb. eapply Rres_bind; [apply sim_load, H'|].
                intros r1 r2 Hrr. constructor. constructor. split; [reflexivity|exact Hrr].
        * intros v1 v2 Hv. eapply Rres_bind.
          -- instantiate (1 := Rmem). destruct Hv as [[b1 r1] [b2 r2] [Hb12 Hr12]|]; [|constructor; exact H'].
             cbn in Hb12, Hr12. subst b2. eapply Rres_bind.
             ++ instantiate (1 := R). destruct Hr12; cbn [res_of_option]; constructor; assumption.
             ++ intros w1 w2 Hw. apply sim_snb; assumption.
          -- intros m1'' m2'' H''. apply sim_snb; assumption.
  Qed.
End Sim.
