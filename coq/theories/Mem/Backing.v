(* Mem/Backing.v -- faithful model of lib/memory/backing.rs (after the three repairs recorded in
   notes/C16.md: `?` instead of `unwrap` in `get`, early return of `set_memory` on empty data, section ends
   computed without u64 overflow).

   sections : BTreeMap<u64, Section>  ==  association list with strictly increasing keys,
   manipulated only through bt_get / bt_insert / bt_remove / bt_le (the BTreeMap calls the Rust code makes).
   The permission payload P is never inspected by the code; the model is polymorphic in it
   (P := Z, the bitflags value, for the running model; P := Z * nat in the proofs about regions).

   Exclusive section ends are computed without overflow (u128 / subtraction / checked_add in the repaired
   code), so a section may end exactly at 2^64; `uadd` (overflow-checked u64 addition) remains for clients. *)
From Coq Require Import ZArith List Bool.
From Falcon Require Import Base.Res IL.Const.
Import ListNotations.
Local Open Scope Z_scope.

Definition U64 : Z := 18446744073709551616.

(* u64 `a + b` in a build with overflow checks *)
Definition uadd (a b : Z) : res Z := if a + b <? U64 then Ok (a + b) else Panic.

Definition len {A} (l : list A) : Z := Z.of_nat (length l).
Definition firstn_z {A} (k : Z) (l : list A) : list A := firstn (Z.to_nat k) l.
Definition skipn_z {A} (k : Z) (l : list A) : list A := skipn (Z.to_nat k) l.
Definition nth_z {A} (l : list A) (k : Z) : option A := if k <? 0 then None else nth_error l (Z.to_nat k).

Section Model.
Context {P : Type}.

Definition section : Type := (list Z * P)%type.          (* Section { data, permissions } *)
Definition sections : Type := list (Z * section).        (* BTreeMap<u64, Section> *)

(* BTreeMap::get *)
Fixpoint bt_get (s : sections) (k : Z) : option section :=
  match s with
  | [] => None
  | (a, v) :: t => if a =? k then Some v else bt_get t k
  end.

(* BTreeMap::insert (replaces the value of an existing key) *)
Fixpoint bt_insert (s : sections) (k : Z) (v : section) : sections :=
  match s with
  | [] => [(k, v)]
  | (a, w) :: t => if k <? a then (k, v) :: (a, w) :: t
                   else if k =? a then (k, v) :: t
                   else (a, w) :: bt_insert t k v
  end.

(* BTreeMap::remove *)
Fixpoint bt_remove (s : sections) (k : Z) : sections :=
  match s with
  | [] => []
  | (a, w) :: t => if a =? k then t else (a, w) :: bt_remove t k
  end.

(* range((Included(0), Included(k))).next_back(): the entry with the greatest key <= k *)
Fixpoint bt_le (s : sections) (k : Z) : option (Z * section) :=
  match s with
  | [] => None
  | (a, v) :: t => if a <=? k
                   then match bt_le t k with Some r => Some r | None => Some (a, v) end
                   else None
  end.

(* ------------------------------------------------------------------ set_memory *)

(* the body of `for al in als`; `e2` = `end` = address + data.len() and `e` = `a_end` are u128 values in
   the code (no overflow); `end as u64` is the truncating cast *)
Definition step (ad n : Z) (s : sections) (al : Z * Z) : res sections :=
  let a := fst al in
  let l := snd al in
  let e := a + l in
  let e2 := ad + n in
  if a <? ad then
    (* a < address && a_end > address *)
    if ad <? e then
      if e <=? e2 then
        (* truncate(address - a) *)
        match bt_get s a with
        | None => Panic
        | Some (d, p) => Ok (bt_insert s a (firstn_z (ad - a) d, p))
        end
      else
        let off := (e2 - a) mod U64 in
        match bt_get s a with
        | None => Panic
        | Some (d, p) =>
            if len d <? off then Panic            (* Vec::split_off: at > len *)
            else
              let s1 := bt_insert s a (firstn_z off d, p) in
              let s2 := bt_insert s1 (e2 mod U64) (skipn_z off d, p) in
              match bt_get s2 a with
              | None => Panic
              | Some (d2, p2) => Ok (bt_insert s2 a (firstn_z (ad - a) d2, p2))
              end
        end
    else Ok s
  else
    (* a >= address && a_end <= end *)
    if e <=? e2 then
      match bt_get s a with
      | None => Panic                               (* "About to remove ... but address does not exist" *)
      | Some _ => Ok (bt_remove s a)
      end
    else if a <? e2 then
      let off := (e2 - a) mod U64 in
      match bt_get s a with
      | None => Panic
      | Some (d, p) =>
          if len d <? off then Panic                (* explicit panic!("offset ... is > data.len()") *)
          else Ok (bt_insert (bt_remove s a) (e2 mod U64) (skipn_z off d, p))
      end
    else Ok s.

Fixpoint loop (ad n : Z) (s : sections) (als : list (Z * Z)) : res sections :=
  match als with
  | [] => Ok s
  | al :: t => s' <- step ad n s al ;; loop ad n s' t
  end.

(* the snapshot `als` *)
Definition snap (s : sections) : list (Z * Z) := map (fun kv => (fst kv, len (fst (snd kv)))) s.

Definition set_memory (s : sections) (ad : Z) (data : list Z) (p : P) : res sections :=
  match data with
  | [] => Ok s                                        (* repaired: an empty region changes nothing *)
  | _ =>
      s' <- loop ad (len data) s (snap s) ;;
      Ok (bt_insert s' ad (data, p))
  end.

(* ------------------------------------------------------------------ lookups *)

Definition section_address (s : sections) (x : Z) : res (option Z) :=
  match bt_le s x with
  | None => Ok None
  | Some (a, (d, _)) =>
      (* *section_address <= address && address - *section_address < section.len() *)
      if a <=? x then (if x - a <? len d then Ok (Some a) else Ok None)
      else Ok None
  end.

Definition permissions (s : sections) (x : Z) : res (option P) :=
  sa <- section_address s x ;;
  match sa with
  | None => Ok None
  | Some a => match bt_get s a with None => Panic | Some (_, p) => Ok (Some p) end
  end.

Definition get8 (s : sections) (x : Z) : res (option Z) :=
  sa <- section_address s x ;;
  match sa with
  | None => Ok None
  | Some a =>
      match bt_get s a with
      | None => Panic
      | Some (d, _) => match nth_z d (x - a) with None => Panic | Some b => Ok (Some b) end
      end
  end.

(* four bytes d[off..off+4], each index checked *)
Definition four (d : list Z) (off : Z) : res (Z * Z * Z * Z) :=
  match nth_z d off, nth_z d (off + 1), nth_z d (off + 2), nth_z d (off + 3) with
  | Some b0, Some b1, Some b2, Some b3 => Ok (b0, b1, b2, b3)
  | _, _, _, _ => Panic
  end.

Definition word_of (be : bool) (b : Z * Z * Z * Z) : Z :=
  let '(b0, b1, b2, b3) := b in
  if be then b0 * 16777216 + b1 * 65536 + b2 * 256 + b3
  else b0 + b1 * 256 + b2 * 65536 + b3 * 16777216.

Definition get32 (be : bool) (s : sections) (x : Z) : res (option Z) :=
  sa <- section_address s x ;;
  match sa with
  | None => Ok None
  | Some a =>
      match bt_get s a with
      | None => Panic
      | Some (d, _) =>
          let off := x - a in
          if len d <? off + 4 then Ok None
          else (b <- four d off ;; Ok (Some (word_of be b)))
      end
  end.

(* `(value >> k) as u8` of a u32 *)
Definition byte_of (v k : Z) : Z := (v / 2 ^ k) mod 256.

Definition bytes_of (be : bool) (v : Z) : list Z :=
  if be then [byte_of v 24; byte_of v 16; byte_of v 8; byte_of v 0]
  else [byte_of v 0; byte_of v 8; byte_of v 16; byte_of v 24].

(* d with d[off..off+4] replaced (off + 4 <= len d) *)
Definition patch (d : list Z) (off : Z) (bs : list Z) : list Z :=
  firstn_z off d ++ bs ++ skipn_z (off + len bs) d.

Definition set32 (be : bool) (s : sections) (x v : Z) : res sections :=
  sa <- section_address s x ;;
  match sa with
  | None => Panic                                     (* panic!("Address 0x{:x} has no section") *)
  | Some a =>
      match bt_get s a with
      | None => Panic
      | Some (d, p) =>
          let off := x - a in
          if len d <? off + 4 then Err ECustom
          else Ok (bt_insert s a (patch d off (bytes_of be v), p))
      end
  end.

(* ------------------------------------------------------------------ get *)

(* bytes at address+i, address+i+1, ... (k of them); repaired code: `address.checked_add(i)?` and an
   unmapped byte end the read with None *)
Fixpoint get_rest (s : sections) (x i : Z) (k : nat) : res (option (list Z)) :=
  match k with
  | O => Ok (Some [])
  | S k' =>
      if U64 <=? x + i then Ok None else
      ob <- get8 s (x + i) ;;
      match ob with
      | None => Ok None
      | Some b =>
          r <- get_rest s x (i + 1) k' ;;
          match r with None => Ok None | Some l => Ok (Some (b :: l)) end
      end
  end.

(* value of the expression built by the loop and evaluated: big endian ((b0<<8|b1)<<8|b2)...,
   little endian b0 | b1<<8 | b2<<16 ...; no trimming happens because bits = 8 * number of bytes *)
Definition assemble (be : bool) (l : list Z) : Z :=
  if be then fold_left (fun v b => v * 256 + b) l 0
  else fold_right (fun b v => b + 256 * v) 0 l.

Definition get (be : bool) (s : sections) (x bits : Z) : res (option const) :=
  if negb (bits mod 8 =? 0) || (bits =? 0) then Ok None
  else
    ob <- get8 s x ;;
    match ob with
    | None => Ok None
    | Some b0 =>
        r <- get_rest s x 1 (Z.to_nat (bits / 8 - 1)) ;;
        match r with
        | None => Ok None
        | Some l => Ok (Some (mkc bits (assemble be (b0 :: l))))
        end
    end.

End Model.

Arguments section : clear implicits.
Arguments sections : clear implicits.
