(* Mem/PagedProofs.v -- proofs about the model of Paged.v (V = il::Constant).  Proofs only.
   Part 1: association maps, pages, cells;  Part 2: permissions and equality. *)
From Coq Require Import ZArith List Bool Lia ZifyBool.
From Falcon Require Import Base.Res IL.Const IL.ConstSpec IL.ConstProofs IL.Expr
     Mem.PagedTypes Mem.Paged Mem.PagedSpec Mem.PagedCells.
Import ListNotations.
Local Open Scope Z_scope.
Ltac Zify.zify_post_hook ::= Z.div_mod_to_equations.

Notation cmem := (@mem const).

(* ------------------------------------------------------------------ association maps *)
Lemma aget_aset {A} (m : amap A) k v x : aget (aset m k v) x = if x =? k then Some v else aget m x.
Proof.
  induction m as [|[k' v'] t IH]; cbn [aset aget].
  - reflexivity.
  - destruct (Z.eqb_spec k k') as [->|N]; cbn [aget].
    + destruct (Z.eqb_spec x k'); reflexivity.
    + destruct (Z.eqb_spec x k') as [->|N2].
      * destruct (Z.eqb_spec k' k); [congruence|reflexivity].
      * apply IH.
Qed.

Lemma aget_notin {A} (m : amap A) k : ~ In k (akeys m) -> aget m k = None.
Proof.
  induction m as [|[k' v'] t IH]; cbn; [reflexivity|]. intros H.
  destruct (Z.eqb_spec k k'); [exfalso; apply H; left; congruence|]. apply IH. tauto.
Qed.

Lemma amap_eqb_spec {A} (eqb : A -> A -> bool) m1 m2 :
  amap_eqb eqb m1 m2 = true <-> forall k, opt_eqb eqb (aget m1 k) (aget m2 k) = true.
Proof.
  unfold amap_eqb. rewrite forallb_forall. split.
  - intros H k. destruct (in_dec Z.eq_dec k (akeys m1 ++ akeys m2)) as [I|N]; [apply H, I|].
    rewrite !aget_notin; [reflexivity| |]; intros I; apply N, in_or_app; tauto.
  - intros H k _. apply H.
Qed.

Lemma opt_eqb_refl {A} (eqb : A -> A -> bool) : (forall a, eqb a a = true) -> forall o, opt_eqb eqb o o = true.
Proof. intros H [a|]; cbn; auto. Qed.
Lemma opt_eqb_eq {A} (eqb : A -> A -> bool) : (forall a b, eqb a b = true -> a = b) ->
  forall x y, opt_eqb eqb x y = true -> x = y.
Proof. intros H [a|] [b|]; cbn; try congruence. intros E; f_equal; auto. Qed.

(* ------------------------------------------------------------------ pages and cells *)
Lemma page_split_inj a x : page_addr x = page_addr a -> page_off x = page_off a -> x = a.
Proof. unfold page_addr, page_off, PAGE_SIZE. lia. Qed.

Lemma load_cell_store_cell (m : cmem) a c x :
  load_cell (store_cell m a c) x = if x =? a then Some c else load_cell m x.
Proof.
  unfold load_cell, store_cell.
  destruct (aget (m_pages m) (page_addr a)) as [p|] eqn:E; cbn [m_pages]; rewrite aget_aset.
  - destruct (Z.eqb_spec (page_addr x) (page_addr a)) as [Ep|Np]; cbn [p_cells].
    + rewrite aget_aset. destruct (Z.eqb_spec (page_off x) (page_off a)) as [Eo|No].
      * rewrite (page_split_inj a x Ep Eo), Z.eqb_refl. reflexivity.
      * destruct (Z.eqb_spec x a) as [->|_]; [congruence|]. rewrite Ep, E. reflexivity.
    + destruct (Z.eqb_spec x a) as [->|_]; [congruence|]. reflexivity.
  - destruct (Z.eqb_spec (page_addr x) (page_addr a)) as [Ep|Np]; cbn [p_cells aget].
    + destruct (Z.eqb_spec (page_off x) (page_off a)) as [Eo|No].
      * rewrite (page_split_inj a x Ep Eo), Z.eqb_refl. reflexivity.
      * destruct (Z.eqb_spec x a) as [->|_]; [congruence|]. rewrite Ep, E. reflexivity.
    + destruct (Z.eqb_spec x a) as [->|_]; [congruence|]. reflexivity.
Qed.

(* the permissions recorded for a page (None: no page, or a page without permissions) *)
Definition pperm (m : cmem) (pa : Z) : option perm :=
  match aget (m_pages m) pa with Some p => p_perm p | None => None end.

Lemma permissions_pperm (m : cmem) a :
  permissions m a = match pperm m (page_addr a) with Some p => Some p | None => ob_perm (m_back m) a end.
Proof. reflexivity. Qed.

(* what no store touches: backing, endianness, per-page permissions *)
Definition frame (m m' : cmem) : Prop :=
  m_back m' = m_back m /\ m_end m' = m_end m /\ forall pa, pperm m' pa = pperm m pa.
Lemma frame_refl m : frame m m. Proof. repeat split. Qed.
Lemma frame_trans m1 m2 m3 : frame m1 m2 -> frame m2 m3 -> frame m1 m3.
Proof. intros (A1 & A2 & A3) (B1 & B2 & B3). split; [congruence|]. split; [congruence|]. intros pa. rewrite B3. apply A3. Qed.

Lemma store_cell_frame (m : cmem) a c : frame m (store_cell m a c).
Proof.
  unfold frame, store_cell, pperm.
  destruct (aget (m_pages m) (page_addr a)) as [p|] eqn:E; cbn [m_back m_end m_pages];
    (split; [reflexivity|]; split; [reflexivity|]); intros pa; rewrite aget_aset;
    destruct (Z.eqb_spec pa (page_addr a)) as [->|N]; try reflexivity; try (rewrite E; reflexivity).
Qed.

Lemma frame_permissions m m' a : frame m m' -> permissions m' a = permissions m a.
Proof. intros (A1 & _ & A3). rewrite !permissions_pperm, A3, A1. reflexivity. Qed.

(* ------------------------------------------------------------------ store_no_backref *)
Lemma uadd_ok a b : 0 <= a -> 0 <= b -> a + b < 2^64 -> uadd a b = Ok (a + b).
Proof. intros. unfold uadd, USIZE. destruct (Z.ltb_spec (a + b) (2^64)); [reflexivity|lia]. Qed.
Lemma umul_ok a b : a * b < 2^64 -> umul a b = Ok (a * b).
Proof. intros. unfold umul, USIZE. destruct (Z.ltb_spec (a * b) (2^64)); [reflexivity|lia]. Qed.

Lemma backrefs_spec n : forall (m : cmem) a i, 0 <= a -> 0 <= i -> a + i + Z.of_nat n <= 2^64 ->
  exists m', backrefs n m a i = Ok m' /\ frame m m' /\
    forall x, load_cell m' x = if (a + i <=? x) && (x <? a + i + Z.of_nat n) then Some (CRef a) else load_cell m x.
Proof.
  induction n as [|n IH]; intros m a i Ha Hi Hb.
  - exists m. split; [reflexivity|]. split; [apply frame_refl|]. intros x.
    destruct (Z.leb_spec (a + i) x), (Z.ltb_spec x (a + i + Z.of_nat 0)); try reflexivity. lia.
  - cbn [backrefs]. rewrite uadd_ok by lia. cbn [bind].
    destruct (IH (store_cell m (a + i) (CRef a)) a (i + 1)) as (m' & E & F & L); try lia.
    exists m'. split; [exact E|]. split; [eapply frame_trans; [apply store_cell_frame|exact F]|].
    intros x. rewrite L, load_cell_store_cell.
    destruct (Z.leb_spec (a + (i + 1)) x), (Z.ltb_spec x (a + (i + 1) + Z.of_nat n)),
             (Z.leb_spec (a + i) x), (Z.ltb_spec x (a + i + Z.of_nat (Datatypes.S n))), (Z.eqb_spec x (a + i));
      cbn [andb]; try reflexivity; lia.
Qed.

Lemma snb_spec (m : cmem) a v : 1 <= vk v -> 0 <= a -> a + vk v <= 2^64 ->
  exists m', store_no_backref COps m a v = Ok m' /\ frame m m' /\
    forall x, load_cell m' x = store_nb (load_cell m) a v x.
Proof.
  intros Hk Ha Hb. unfold store_no_backref. cbn [v_bits COps]. fold (vk v).
  destruct (backrefs_spec (Z.to_nat (vk v - 1)) (store_cell m a (CVal v)) a 1) as (m' & E & F & L); try lia.
  exists m'. split; [exact E|]. split; [eapply frame_trans; [apply store_cell_frame|exact F]|].
  intros x. rewrite L, load_cell_store_cell. unfold store_nb.
  rewrite Z2Nat.id by lia.
  destruct (Z.leb_spec (a + 1) x), (Z.ltb_spec x (a + 1 + (vk v - 1))), (Z.eqb_spec x a),
           (Z.ltb_spec a x), (Z.ltb_spec x (a + vk v)); cbn [andb]; try reflexivity; lia.
Qed.

(* ------------------------------------------------------------------ permissions *)
Lemma pperm_page_set (m : cmem) pa p x :
  pperm (page_set_perm m pa p) x = if x =? pa then Some p else pperm m x.
Proof.
  unfold pperm, page_set_perm. destruct (aget (m_pages m) pa) as [pg|] eqn:E; cbn [m_pages];
    rewrite aget_aset; destruct (Z.eqb_spec x pa); reflexivity.
Qed.
Lemma page_set_back (m : cmem) pa p : m_back (page_set_perm m pa p) = m_back m /\ m_end (page_set_perm m pa p) = m_end m.
Proof. unfold page_set_perm. destruct (aget (m_pages m) pa); split; reflexivity. Qed.
Lemma load_cell_page_set (m : cmem) pa p x : load_cell (page_set_perm m pa p) x = load_cell m x.
Proof.
  unfold load_cell, page_set_perm. destruct (aget (m_pages m) pa) as [pg|] eqn:E; cbn [m_pages];
    rewrite aget_aset; destruct (Z.eqb_spec (page_addr x) pa) as [<-|N]; try reflexivity.
  - rewrite E. reflexivity.
  - rewrite E. reflexivity.
Qed.

(* the loop sets exactly the pages pa+off, pa+off+1024, .. below pa+total *)
Lemma set_perm_loop_spec fuel : forall (m : cmem) pa off total p,
  0 <= pa -> 0 <= off -> pa + total <= 2^64 -> total <= 2^63 + 1024 -> (total - off) / PAGE_SIZE + 1 <= Z.of_nat fuel \/ total <= off ->
  exists m', set_perm_loop fuel m pa off total p = Ok m' /\
    m_back m' = m_back m /\ m_end m' = m_end m /\
    (forall x, load_cell m' x = load_cell m x) /\
    forall x, pperm m' x = if (pa + off <=? x) && (x <? pa + total) && ((x - (pa + off)) mod PAGE_SIZE =? 0)
                           then Some p else pperm m x.
Proof.
  unfold PAGE_SIZE.
  induction fuel as [|f IH]; intros m pa off total p Hpa Hoff Hb Hbig Hf.
  - assert (total <= off) by lia. cbn [set_perm_loop]. destruct (Z.ltb_spec off total); [lia|].
    exists m. repeat split; try reflexivity. intros x.
    destruct (Z.leb_spec (pa + off) x), (Z.ltb_spec x (pa + total)); cbn [andb]; try reflexivity. lia.
  - cbn [set_perm_loop]. destruct (Z.ltb_spec off total) as [Hlt|Hge].
    + rewrite uadd_ok by lia. cbn [bind]. unfold PAGE_SIZE.
      assert (Hpg: off + 1024 < 2^64) by lia.
      rewrite uadd_ok by lia. cbn [bind].
      destruct (IH (page_set_perm m (pa + off) p) pa (off + 1024) total p) as (m' & E & B1 & B2 & LC & PP); try lia.
      exists m'. split; [exact E|].
      destruct (page_set_back m (pa + off) p) as [Q1 Q2].
      split; [congruence|]. split; [congruence|]. split.
      * intros x. rewrite LC. apply load_cell_page_set.
      * intros x. rewrite PP, pperm_page_set.
        destruct (Z.leb_spec (pa + (off + 1024)) x), (Z.ltb_spec x (pa + total)), (Z.leb_spec (pa + off) x),
                 (Z.eqb_spec ((x - (pa + (off + 1024))) mod 1024) 0), (Z.eqb_spec ((x - (pa + off)) mod 1024) 0),
                 (Z.eqb_spec x (pa + off)); cbn [andb]; try reflexivity; lia.
    + exists m. repeat split; try reflexivity. intros x.
      destruct (Z.leb_spec (pa + off) x), (Z.ltb_spec x (pa + total)); cbn [andb]; try reflexivity. lia.
Qed.

(* set_permissions on a range that stays below 2^64: no panic, cells/backing untouched, and the
   pages page(a) .. page(a+len-1) (when len >= 1) carry p; every other page is unchanged *)
Lemma set_permissions_spec (m : cmem) a len p : 0 <= a -> 0 <= len < 2^63 -> a + len <= 2^64 ->
  exists m', set_permissions m a len p = Ok m' /\
    m_back m' = m_back m /\ m_end m' = m_end m /\
    (forall x, load_cell m' x = load_cell m x) /\
    forall x, pperm m' (page_addr x) =
              if (page_addr a <=? page_addr x) && (page_addr x <? a + len) then Some p else pperm m (page_addr x).
Proof.
  intros Ha Hl Hb. unfold set_permissions.
  assert (Hpa: 0 <= page_addr a <= a /\ a - page_addr a < 1024) by (unfold page_addr, PAGE_SIZE; lia).
  rewrite uadd_ok by lia. cbn [bind].
  destruct (set_perm_loop_spec (Z.to_nat ((len + (a - page_addr a)) / PAGE_SIZE + 1)) m (page_addr a) 0
              (len + (a - page_addr a)) p) as (m' & E & B1 & B2 & LC & PP); try lia.
  { left. unfold PAGE_SIZE. rewrite Z2Nat.id; lia. }
  exists m'. split; [exact E|]. split; [exact B1|]. split; [exact B2|]. split; [exact LC|].
  intros x. rewrite PP.
  replace (page_addr a + (len + (a - page_addr a))) with (a + len) by lia.
  assert (Hm: (page_addr x - (page_addr a + 0)) mod PAGE_SIZE = 0) by (unfold page_addr, PAGE_SIZE; lia).
  rewrite Hm, Z.add_0_r. cbn [Z.eqb]. rewrite andb_true_r. reflexivity.
Qed.

(* ------------------------------------------------------------------ permission theorems *)
Lemma page_addr_le x : 0 <= x -> 0 <= page_addr x <= x.
Proof. unfold page_addr, PAGE_SIZE. lia. Qed.
Lemma page_addr_mono a x : a <= x -> page_addr a <= page_addr x.
Proof. unfold page_addr, PAGE_SIZE. lia. Qed.

(* permissions set on a range are reported for every address in it *)
Lemma perm_range_l (m m' : cmem) a len p :
  0 <= a -> 0 <= len < 2^63 -> a + len <= 2^64 ->
  set_permissions m a len p = Ok m' -> forall x, a <= x < a + len -> permissions m' x = Some p.
Proof.
  intros Ha Hl Hb E x Hx.
  destruct (set_permissions_spec m a len p Ha Hl Hb) as (m1 & E1 & _ & _ & _ & PP).
  rewrite E in E1. injection E1 as <-.
  rewrite permissions_pperm, PP.
  pose proof (page_addr_mono a x ltac:(lia)). pose proof (page_addr_le x ltac:(lia)).
  destruct (Z.leb_spec (page_addr a) (page_addr x)), (Z.ltb_spec (page_addr x) (a + len)); cbn [andb]; try reflexivity; lia.
Qed.
(* .. and in-range calls never fail *)
Lemma set_permissions_ok (m : cmem) a len p :
  0 <= a -> 0 <= len < 2^63 -> a + len <= 2^64 -> exists m', set_permissions m a len p = Ok m'.
Proof. intros Ha Hl Hb. destruct (set_permissions_spec m a len p Ha Hl Hb) as (m1 & E1 & _). eauto. Qed.
(* pages outside page(a) .. page(a+len-1) keep what they reported; loads are unaffected *)
Lemma set_permissions_other (m m' : cmem) a len p :
  0 <= a -> 0 <= len < 2^63 -> a + len <= 2^64 ->
  set_permissions m a len p = Ok m' ->
  forall x, page_addr x < page_addr a \/ a + len <= page_addr x -> permissions m' x = permissions m x.
Proof.
  intros Ha Hl Hb E x Hx.
  destruct (set_permissions_spec m a len p Ha Hl Hb) as (m1 & E1 & B1 & _ & _ & PP).
  rewrite E in E1. injection E1 as <-.
  rewrite !permissions_pperm, PP, B1.
  destruct (Z.leb_spec (page_addr a) (page_addr x)), (Z.ltb_spec (page_addr x) (a + len)); cbn [andb]; try reflexivity; lia.
Qed.

(* addresses whose page carries no permissions report the backing's; a fresh memory has none *)
Lemma perm_default_backing_l (m : cmem) x :
  pperm m (page_addr x) = None -> permissions m x = ob_perm (m_back m) x.
Proof. intros H. rewrite permissions_pperm, H. reflexivity. Qed.
Lemma pperm_new e b pa : pperm (mnew e b : cmem) pa = None.
Proof. reflexivity. Qed.

(* ------------------------------------------------------------------ stores never change permissions *)
Lemma bind_ok {A B} (r : res A) (f : A -> res B) b : bind r f = Ok b -> exists a, r = Ok a /\ f a = Ok b.
Proof. destruct r as [a|e|]; cbn; try discriminate. eauto. Qed.

Lemma backrefs_frame n : forall (m : cmem) a i m', backrefs n m a i = Ok m' -> frame m m'.
Proof.
  induction n as [|n IH]; intros m a i m' E; cbn [backrefs] in E.
  - injection E as <-. apply frame_refl.
  - apply bind_ok in E as (x & _ & E). eapply frame_trans; [apply store_cell_frame|]. eapply IH, E.
Qed.
Lemma snb_frame (m : cmem) a v m' : store_no_backref COps m a v = Ok m' -> frame m m'.
Proof. unfold store_no_backref. intros E. eapply frame_trans; [apply store_cell_frame|]. eapply backrefs_frame, E. Qed.

Lemma store_frame (m : cmem) a v m' : store COps m a v = Ok m' -> frame m m'.
Proof.
  unfold store. destruct (negb (v_bits COps v mod 8 =? 0) || (v_bits COps v =? 0)); [discriminate|].
  destruct (USIZE <? a + v_bits COps v / 8); [discriminate|]. intros H.
  apply bind_ok in H as (vtw & _ & H).
  apply bind_ok in H as (m1 & H1 & H). apply bind_ok in H as (vtw2 & _ & H). apply bind_ok in H as (m2 & H2 & H).
  assert (F1: frame m m1).
  { destruct vtw as [w|]; [eapply snb_frame, H1|]. injection H1 as <-. apply frame_refl. }
  assert (F2: frame m1 m2).
  { destruct vtw2 as [[b r]|].
    - apply bind_ok in H2 as (w & _ & H2). eapply snb_frame, H2.
    - injection H2 as <-. apply frame_refl. }
  eapply frame_trans; [exact F1|]. eapply frame_trans; [exact F2|]. eapply snb_frame, H.
Qed.

Lemma store_keeps_perms_l (m : cmem) a v m' :
  store COps m a v = Ok m' -> forall x, permissions m' x = permissions m x.
Proof. intros E x. apply frame_permissions. eapply store_frame, E. Qed.

(* ------------------------------------------------------------------ bad widths are rejected *)
Lemma store_bad_width (m : cmem) a v : cbits v mod 8 <> 0 \/ cbits v = 0 -> store COps m a v = Err ECustom.
Proof.
  intros H. unfold store. cbn [v_bits COps].
  destruct (Z.eqb_spec (cbits v mod 8) 0), (Z.eqb_spec (cbits v) 0); cbn [negb orb]; try reflexivity. lia.
Qed.
Lemma load_bad_width (m : cmem) a bits : bits mod 8 <> 0 \/ bits = 0 -> load COps m a bits = Err ECustom.
Proof.
  intros H. unfold load. cbn [load_f].
  destruct (Z.eqb_spec (bits mod 8) 0), (Z.eqb_spec bits 0); cbn [negb]; try reflexivity. lia.
Qed.

(* ------------------------------------------------------------------ equality *)
Lemma const_eqb_true a b : const_eqb a b = true <-> a = b.
Proof.
  destruct a as [w1 v1], b as [w2 v2]. unfold const_eqb; cbn [cbits cval].
  rewrite andb_true_iff, !Z.eqb_eq. split; [intros [-> ->]; reflexivity|intros E; injection E; auto].
Qed.
Lemma cell_eqb_true (a b : ccell) : cell_eqb COps a b = true <-> a = b.
Proof.
  destruct a as [x|x], b as [y|y]; cbn [cell_eqb v_eqb COps]; try (split; [discriminate|congruence]).
  - rewrite const_eqb_true. split; congruence.
  - rewrite Z.eqb_eq. split; congruence.
Qed.
Lemma cells_eqb_refl (c : amap ccell) : amap_eqb (cell_eqb COps) c c = true.
Proof. apply amap_eqb_spec. intros k. apply opt_eqb_refl. intros a. apply cell_eqb_true. reflexivity. Qed.
Lemma page_eqb_refl (p : @page const) : page_eqb COps p p = true.
Proof. unfold page_eqb. rewrite cells_eqb_refl. apply optZ_eqb_eq. reflexivity. Qed.

(* a memory equals its (unmodified) clone: in the model a clone is the same value *)
Lemma mem_eqb_refl (m : cmem) : mem_eqb COps m m = true.
Proof.
  unfold mem_eqb.
  assert (P: amap_eqb (page_eqb COps) (m_pages m) (m_pages m) = true).
  { apply amap_eqb_spec. intros k. apply opt_eqb_refl. apply page_eqb_refl. }
  rewrite P. assert (E: endian_eqb (m_end m) (m_end m) = true) by (apply endian_eqb_eq; reflexivity).
  rewrite E. cbn [andb]. destruct (m_back m) as [b|]; [apply backing_eqb_eq|]; reflexivity.
Qed.

Lemma mem_eqb_cells (m1 m2 : cmem) : mem_eqb COps m1 m2 = true ->
  (forall x, load_cell m1 x = load_cell m2 x) /\ m_end m1 = m_end m2 /\ m_back m1 = m_back m2.
Proof.
  unfold mem_eqb.
  destruct (amap_eqb (page_eqb COps) (m_pages m1) (m_pages m2)) eqn:P; [|discriminate].
  destruct (endian_eqb (m_end m1) (m_end m2)) eqn:E; [|discriminate]. cbn [andb]. intros B.
  split; [|split].
  - intros x. unfold load_cell.
    pose proof (proj1 (amap_eqb_spec _ _ _) P (page_addr x)) as Q.
    destruct (aget (m_pages m1) (page_addr x)) as [p1|], (aget (m_pages m2) (page_addr x)) as [p2|];
      cbn [opt_eqb] in Q; try discriminate; [|reflexivity].
    unfold page_eqb in Q. apply andb_true_iff in Q as [Q _].
    pose proof (proj1 (amap_eqb_spec _ _ _) Q (page_off x)) as R.
    apply (opt_eqb_eq (cell_eqb COps)); [|exact R]. intros a b. apply cell_eqb_true.
  - apply endian_eqb_eq, E.
  - destruct (m_back m1) as [b1|], (m_back m2) as [b2|]; try discriminate; [|reflexivity].
    f_equal. apply backing_eqb_eq, B.
Qed.

(* `load` reads a memory only through its cells, endianness and backing *)
Section LoadExt.
  Variables m1 m2 : cmem.
  Hypothesis Hc : forall x, load_cell m1 x = load_cell m2 x.
  Hypothesis He : m_end m1 = m_end m2.
  Hypothesis Hb : m_back m1 = m_back m2.

  Lemma load_backing_ext x : load_backing COps m1 x = load_backing COps m2 x.
  Proof. unfold load_backing. rewrite Hb. reflexivity. Qed.

  Lemma first_ext a bits : first COps m1 a bits = first COps m2 a bits.
  Proof.
    unfold first. rewrite (Hc a), He.
    destruct (load_cell m2 a) as [[v|b]|]; [reflexivity| |apply f_equal, load_backing_ext].
    rewrite (Hc b). reflexivity.
  Qed.

  Lemma bytewise_ext (ld1 ld2 : Z -> res (option const)) : (forall x, ld1 x = ld2 x) ->
    forall n a bits bytes off acc,
      bytewise COps ld1 m1 a bits bytes n off acc = bytewise COps ld2 m2 a bits bytes n off acc.
  Proof.
    intros Hl n. induction n as [|n IH]; intros a bits bytes off acc; cbn [bytewise]; [reflexivity|].
    destruct (uadd a off) as [x| |]; cbn [bind]; try reflexivity.
    rewrite (Hl x). destruct (ld2 x) as [o|err|]; cbn [bind]; try reflexivity.
    rewrite (load_backing_ext x), He.
    destruct (match o with Some v => Some v | None => load_backing COps m2 x end) as [v|]; [|reflexivity].
    destruct (v_zext COps v bits) as [z|err|]; cbn [bind]; try reflexivity.
    destruct (match m_end m2 with
              | LE => umul off 8
              | BE => d <- usub bytes off;; d1 <- usub d 1;; umul d1 8
              end) as [sh|err|]; cbn [bind]; try reflexivity.
    destruct (v_shl COps z sh) as [s|err|]; cbn [bind]; try reflexivity.
    destruct (match acc with Some r => v_or COps r s | None => Ok s end) as [acc'|err|]; cbn [bind]; try reflexivity.
    apply IH.
  Qed.

  Lemma load_f_ext fuel : forall a bits, load_f COps fuel m1 a bits = load_f COps fuel m2 a bits.
  Proof.
    induction fuel as [|f IH]; intros a bits; cbn [load_f]; [reflexivity|].
    destruct (negb (bits mod 8 =? 0)); [reflexivity|]. destruct (bits =? 0); [reflexivity|].
    rewrite first_ext. destruct (first COps m2 a bits) as [[lv|]|err|]; cbn [bind]; try reflexivity.
    destruct (v_bits COps lv =? bits); [reflexivity|].
    apply bytewise_ext. intros x. apply IH.
  Qed.
End LoadExt.

(* equal memories answer every load identically *)
Lemma eq_same_loads (m1 m2 : cmem) : mem_eqb COps m1 m2 = true ->
  forall a bits, load COps m1 a bits = load COps m2 a bits.
Proof. intros E a bits. destruct (mem_eqb_cells m1 m2 E) as (Hc & He & Hb). apply load_f_ext; assumption. Qed.
