(* Mem/C08CheckE.v -- the C08 checker extended with histories over paged::Memory<il::Expression>.
   Stored values are expression trees with constant AND SCALAR leaves, built through the public
   constructors on both sides (`rexpr`/`build` of IL/Expr.v).  For every load the harness records
   (a) the returned expression tree itself and (b) its value after the case's valuation has been
   substituted for the scalars (`replace_scalar`, then `executor::eval`).  The tie replays the model
   with V = il::Expression (EOps) and demands the SAME TREE (expr_eqb) and the same value; the oracle
   is the byte-array specification applied to the denotations of the stored expressions. *)
From Coq Require Import ZArith List Bool NArith.
From Falcon Require Import Base.Res IL.Const IL.Expr Mem.PagedTypes Mem.Paged Mem.PagedSpec Mem.C08Check.
Import ListNotations.
Local Open Scope Z_scope.

Inductive eop :=
| EStore (h : nat) (a : Z) (r : rexpr)
| ELoadX (h : nat) (a bits : Z) (shape : res (option expr))   (* load, with the tree the implementation returned *)
| EOther (o : op).           (* every other operation, as in C08Check (OStore / OLoad are not used here) *)

Inductive casee :=
| KC (k : case)                                                              (* V = il::Constant *)
| KE (e : endian) (backs : list backing) (b0 : option nat) (val : list (scalar * const)) (ops : list (eop * obs)).   (* V = il::Expression *)

Definition emem := @mem expr.

(* substitute the valuation (in order), then evaluate: Expression::replace_scalar + executor::eval *)
Fixpoint subst_all (val : list (scalar * const)) (x : expr) : res expr :=
  match val with
  | [] => Ok x
  | (s, c) :: t => x' <- replace_scalar x s (EConst c) ;; subst_all t x'
  end.
Definition evalσ (val : list (scalar * const)) (x : expr) : res const := x' <- subst_all val x ;; eval x'.
Definition eval_opt (val : list (scalar * const)) (r : res (option expr)) : res (option const) :=
  o <- r ;; match o with None => Ok None | Some x => c <- evalσ val x ;; Ok (Some c) end.
Definition shape_eqb : res (option expr) -> res (option expr) -> bool := res_eqb (opt_eqb expr_eqb).

Definition estep (backs : list backing) (val : list (scalar * const)) (st : list emem) (o : eop) : option (obs * option (list emem)) :=
  match o with
  | EStore h a r =>
      match nth_error st h, build r with
      | Some m, Ok x =>
          match Paged.store EOps m a x with
          | Ok m' => match set_nth st h m' with Some st' => Some (BUnit (Ok tt), Some st') | None => None end
          | Err e => Some (BUnit (Err e), Some st)
          | Panic => Some (BUnit Panic, None)
          end
      | _, _ => None
      end
  | EOther (OStore _ _ _ _) => None
  | EOther (OLoad _ _ _) => None
  | ELoadX h a bits shape =>
      match nth_error st h with
      | None => None
      | Some m => let x := load EOps m a bits in
                  if shape_eqb x shape then
                    let r := eval_opt val x in
                    Some (BLoad r, match r with Panic => None | _ => Some st end)
                  else None      (* the model returns a different tree: tie fails *)
      end
  | EOther (OClone s d) =>
      match nth_error st s with
      | None => None
      | Some m => match set_nth st d m with Some st' => Some (BUnit (Ok tt), Some st') | None => None end
      end
  | EOther (ONew h e b) =>
      match get_back backs b with
      | None => None
      | Some bk => match set_nth st h (mnew e bk) with Some st' => Some (BUnit (Ok tt), Some st') | None => None end
      end
  | EOther (OSetPerm h a len p) =>
      match nth_error st h with
      | None => None
      | Some m =>
          match set_permissions m a len p with
          | Ok m' => match set_nth st h m' with Some st' => Some (BUnit (Ok tt), Some st') | None => None end
          | Err e => Some (BUnit (Err e), Some st)
          | Panic => Some (BUnit Panic, None)
          end
      end
  | EOther (OPerm h a) =>
      match nth_error st h with
      | None => None
      | Some m => Some (BPerm (Ok (permissions m a)), Some st)
      end
  | EOther (OEq h1 h2) =>
      match nth_error st h1, nth_error st h2 with
      | Some m1, Some m2 => Some (BEq (Ok (mem_eqb EOps m1 m2)), Some st)
      | _, _ => None
      end
  end.

Fixpoint replaye (backs : list backing) (val : list (scalar * const)) (st : list emem) (ops : list (eop * obs)) : bool :=
  match ops with
  | [] => true
  | (o, ob) :: t =>
      match estep backs val st o with
      | None => false
      | Some (mo, st') =>
          obs_eqb mo ob &&
          match st' with
          | Some s => replaye backs val s t
          | None => match t with [] => true | _ => false end
          end
      end
  end.

(* the history seen by the byte-array specification: every stored expression replaced by its value;
   None if some stored tree is ill-sorted or does not evaluate (outside the property) *)
Fixpoint denote_ops (val : list (scalar * const)) (ops : list (eop * obs)) : option (list (op * obs)) :=
  match ops with
  | [] => Some []
  | (EStore h a r, ob) :: t =>
      match (x <- build r ;; evalσ val x), denote_ops val t with
      | Ok c, Some t' => Some ((OStore h a (cbits c) (cval c), ob) :: t')
      | _, _ => None
      end
  | (ELoadX h a bits _, ob) :: t =>
      match denote_ops val t with Some t' => Some ((OLoad h a bits, ob) :: t') | None => None end
  | (EOther o, ob) :: t =>
      match denote_ops val t with Some t' => Some ((o, ob) :: t') | None => None end
  end.

Definition cke (k : casee) : bool * bool :=
  match k with
  | KC c => ck c
  | KE e backs b0 val ops =>
      match get_back backs b0 with
      | None => (false, false)
      | Some bk =>
          let m := mnew e bk in
          let s := mksh e bk [] [] 0%N in
          (replaye backs val [m; m; m] ops,
           match denote_ops val ops with
           | Some ops' => oracle backs 1%N [s; s; s] ops'
           | None => true
           end)
      end
  end.
