(* Mem/PagedSpec.v -- specification of property C08, written from the property text and
   independent of the model in Paged.v (it shares only PagedTypes: endianness, the backing's
   get8/permissions, and `const` as the type of loaded values).

   "A paged memory behaves as a byte array layered over its optional backing":
     byte at x   = the byte written by the most recent store covering x, else the backing's;
     load a n    = the n/8 bytes at a, a+1, .. assembled in the memory's endianness,
                   absent iff one of them is absent;
     permissions = the most recent set_permissions whose range touches the page of x
                   (permissions are page-granular by the documented design), else the backing's;
     equality    = reflexive on unmodified clones, and implies identical loads. *)
From Coq Require Import ZArith List Bool.
From Falcon Require Import Base.Res IL.Const Mem.PagedTypes.
Import ListNotations.
Local Open Scope Z_scope.

Definition bytemap := Z -> option Z.

(* weight of byte i of a k-byte value *)
Definition pos (e : endian) (k i : Z) : Z := match e with LE => i | BE => k - 1 - i end.
(* byte i (in address order) of the k-byte value v *)
Definition byte_of (e : endian) (k v i : Z) : Z := (v / 2 ^ (8 * pos e k i)) mod 256.

(* overwrite the k bytes at a *)
Definition write (bm : bytemap) (a k : Z) (f : Z -> Z) : bytemap :=
  fun x => if (a <=? x) && (x <? a + k) then Some (f (x - a)) else bm x.
(* a store of the constant c (8k bits) at a *)
Definition store_spec (e : endian) (bm : bytemap) (a : Z) (c : const) : bytemap :=
  let k := cbits c / 8 in write bm a k (byte_of e k (cval c)).

(* the bytes at a, a+1, .., a+n-1, if all present *)
Fixpoint gather (bm : bytemap) (a : Z) (n : nat) : option (list Z) :=
  match n with
  | O => Some []
  | S n' => match bm a, gather bm (a + 1) n' with
            | Some y, Some l => Some (y :: l)
            | _, _ => None
            end
  end.
(* sum of byte_i * 256^(pos i) *)
Fixpoint assemble_from (e : endian) (k : Z) (i : Z) (l : list Z) : Z :=
  match l with
  | [] => 0
  | y :: t => y * 2 ^ (8 * pos e k i) + assemble_from e k (i + 1) t
  end.
Definition assemble (e : endian) (l : list Z) : Z := assemble_from e (Zlength l) 0 l.

(* a load of k bytes (8k bits) at a *)
Definition load_spec (e : endian) (bm : bytemap) (a k : Z) : option const :=
  match gather bm a (Z.to_nat k) with
  | Some l => Some (mkc (8 * k) (assemble e l))
  | None => None
  end.

(* ---------------------------------------------------------------- histories (executable) *)
(* the byte array after a list of stores (newest first) over a backing *)
Record sstore := mkss { ss_a : Z; ss_c : const }.
Definition covers (s : sstore) (x : Z) : bool := (ss_a s <=? x) && (x <? ss_a s + cbits (ss_c s) / 8).
Fixpoint byte_at (e : endian) (back : option backing) (log : list sstore) (x : Z) : option Z :=
  match log with
  | [] => ob_get8 back x
  | s :: t => if covers s x then Some (byte_of e (cbits (ss_c s) / 8) (cval (ss_c s)) (x - ss_a s))
              else byte_at e back t x
  end.

(* permissions: page-granular.  A call set_permissions(a, len, p) with len >= 1 touches the
   pages page(a) .. page(a+len-1); with len = 0 the text promises nothing about page(a)
   (PUnknown: the oracle is silent on that page until a later call covers it). *)
Inductive ptouch := PSet (p : perm) | PUnknown.
Record sperm := mksp { sp_a : Z; sp_len : Z; sp_p : perm }.
Definition pg (x : Z) : Z := x / PAGE_SIZE.
Definition touches (s : sperm) (x : Z) : option ptouch :=
  if sp_len s =? 0 then (if pg x =? pg (sp_a s) then Some PUnknown else None)
  else if (pg (sp_a s) <=? pg x) && (pg x <=? pg (sp_a s + sp_len s - 1)) then Some (PSet (sp_p s)) else None.
Fixpoint perm_at (back : option backing) (plog : list sperm) (x : Z) : option (option perm) :=
  match plog with
  | [] => Some (ob_perm back x)
  | s :: t => match touches s x with
              | Some (PSet p) => Some (Some p)
              | Some PUnknown => None            (* silent *)
              | None => perm_at back t x
              end
  end.
