(* Mem/PagedExpr.v -- V = il::Expression.  A memory of expressions and a memory of constants that
   went through the same operations with related values (x evaluates to c, same width) stay related,
   and every load from the expression memory *evaluates* to the load from the constant memory --
   hence to the specified bytes (abs_load).  The statement is about the denotation (`eval`) of the
   returned expression, as `impl Value for il::Expression` only builds constructors.  Proofs only. *)
From Coq Require Import ZArith List Bool Lia.
From Falcon Require Import Base.Res IL.Const IL.Expr Mem.PagedTypes Mem.Paged Mem.PagedSpec Mem.PagedCells
     Mem.PagedProofs Mem.PagedLoad Mem.PagedSim.
Import ListNotations.
Local Open Scope Z_scope.

(* denotation of an expression under a valuation of its scalars (executor::eval after the scalars
   have been replaced by constants; eval itself is the empty valuation: evalv_none) *)
Fixpoint evalv (sg : scalar -> option const) (e : expr) : res const :=
  match e with
  | EScalar s => match sg s with Some c => Ok c | None => Err EExecScalar end
  | EConst c => Ok c
  | EBin o l r => a <- evalv sg l ;; b <- evalv sg r ;; c_bin o a b
  | EExt o bits x => a <- evalv sg x ;; c_ext o bits a
  | EIte c t f => cv <- evalv sg c ;; if c_is_one cv then evalv sg t else evalv sg f
  end.
Lemma evalv_none e : evalv (fun _ => None) e = eval e.
Proof.
  induction e as [s|c|o l IHl r IHr|o bits x IH|c IHc t IHt f IHf]; cbn [evalv eval]; try reflexivity.
  - rewrite IHl, IHr. reflexivity.
  - rewrite IH. reflexivity.
  - rewrite IHc, IHt, IHf. reflexivity.
Qed.

Section Valuation.
Variable sg : scalar -> option const.

(* x denotes c (under the valuation) and has its width *)
Definition Rv (x : expr) (c : const) : Prop := evalv sg x = Ok c /\ e_bits x = cbits c.

Lemma Rv_const k : Rv (EConst k) k.
Proof. split; reflexivity. Qed.

Lemma e_bits_expr_const n w : e_bits (expr_const n w) = w.
Proof. reflexivity. Qed.

Lemma sim_shl x c n : Rv x c -> Rres Rv (ev_shl x n) (cv_shl c n).
Proof.
  intros [He Hb]. unfold ev_shl, cv_shl, mk_bin. cbn [e_bits]. rewrite Hb, e_bits_expr_const, Z.eqb_refl.
  cbn [negb bind eval]. unfold expr_const. cbn [eval bind c_bin].
  unfold c_shl at 1. unfold same_sort. cbn [cbits new_big]. rewrite Z.eqb_refl. cbn [negb].
  constructor. split; [cbn [evalv]; rewrite He; cbn [bind c_bin]; unfold c_shl, same_sort; cbn [cbits new_big]; rewrite Z.eqb_refl; reflexivity|].
  cbn [e_bits is_cmp cbits new_big]. exact Hb.
Qed.
Lemma sim_shr x c n : Rv x c -> Rres Rv (ev_shr x n) (cv_shr c n).
Proof.
  intros [He Hb]. unfold ev_shr, cv_shr, mk_bin. cbn [e_bits]. rewrite Hb, e_bits_expr_const, Z.eqb_refl.
  cbn [negb bind eval]. unfold expr_const. cbn [eval bind c_bin].
  unfold c_shr at 1. unfold same_sort. cbn [cbits new_big]. rewrite Z.eqb_refl. cbn [negb].
  constructor. split; [cbn [evalv]; rewrite He; cbn [bind c_bin]; unfold c_shr, same_sort; cbn [cbits new_big]; rewrite Z.eqb_refl; reflexivity|].
  cbn [e_bits is_cmp cbits new_big]. exact Hb.
Qed.
Lemma sim_or x c y d : Rv x c -> Rv y d -> Rres Rv (mk_bin Or x y) (cv_or c d).
Proof.
  intros [He Hb] [He2 Hb2]. unfold cv_or, mk_bin. cbn [e_bits]. rewrite Hb, Hb2.
  destruct (Z.eqb_spec (cbits c) (cbits d)) as [E|N]; cbn [negb bind]; [|constructor].
  cbn [eval bind c_bin]. unfold c_or at 1. unfold same_sort. rewrite E, Z.eqb_refl. cbn [negb].
  constructor. split; [cbn [evalv]; rewrite He, He2; cbn [bind c_bin]; unfold c_or, same_sort; rewrite E, Z.eqb_refl; reflexivity|].
  cbn [e_bits is_cmp cbits new_big]. rewrite Hb. exact E.
Qed.
Lemma sim_trun x c n : Rv x c -> Rres Rv (mk_ext Trun n x) (cv_trun c n).
Proof.
  intros [He Hb]. unfold cv_trun, mk_ext. cbn [e_bits]. rewrite Hb.
  destruct ((cbits c <=? n) || (cbits c =? 0)) eqn:G; cbn [bind]; [constructor|].
  apply orb_false_iff in G as [G1 G2]. cbn [eval bind c_ext]. unfold c_trun at 1. rewrite G1.
  constructor. split; [cbn [evalv]; rewrite He; cbn [bind c_ext]; unfold c_trun; rewrite G1; reflexivity|reflexivity].
Qed.
Lemma sim_zext x c n : Rv x c -> Rres Rv (mk_ext Zext n x) (cv_zext c n).
Proof.
  intros [He Hb]. unfold cv_zext, mk_ext. cbn [e_bits]. rewrite Hb.
  destruct ((n <=? cbits c) || (cbits c =? 0)) eqn:G; cbn [bind]; [constructor|].
  apply orb_false_iff in G as [G1 G2]. cbn [eval bind c_ext]. unfold c_zext at 1. rewrite G1.
  constructor. split; [cbn [evalv]; rewrite He; cbn [bind c_ext]; unfold c_zext; rewrite G1; reflexivity|reflexivity].
Qed.

Definition Rmem_e := Rmem (V1 := expr) (V2 := const) Rv.

(* stores of related values keep the two memories related (same result kind otherwise) *)
Theorem expr_store_sim (me : @mem expr) (mc : @mem const) a x c :
  Rmem_e me mc -> Rv x c -> Rres Rmem_e (Paged.store EOps me a x) (Paged.store COps mc a c).
Proof.
  apply (sim_store EOps COps Rv); cbn [v_bits v_const v_shl v_shr v_trun v_zext v_or EOps COps].
  - intros y d [_ H]. exact H.
  - exact Rv_const.
  - exact sim_shl.
  - exact sim_shr.
  - exact sim_trun.
  - exact sim_zext.
  - exact sim_or.
Qed.

(* every load from the expression memory denotes the load from the constant memory *)
Theorem expr_load_sim (me : @mem expr) (mc : @mem const) a bits :
  Rmem_e me mc -> Rres (Ropt Rv) (load EOps me a bits) (load COps mc a bits).
Proof.
  apply (sim_load EOps COps Rv); cbn [v_bits v_const v_shl v_shr v_trun v_zext v_or EOps COps].
  - intros y d [_ H]. exact H.
  - exact Rv_const.
  - exact sim_shl.
  - exact sim_shr.
  - exact sim_trun.
  - exact sim_zext.
  - exact sim_or.
Qed.

Lemma expr_new_sim e b : Rmem_e (mnew e b) (mnew e b).
Proof. apply sim_new. Qed.

(* hence: a load from an expression memory related to a constant memory satisfying the invariant
   returns an expression that evaluates to exactly the specified value (None iff a byte is absent) *)
Theorem expr_abs_load_l (me : @mem expr) (mc : @mem const) a n :
  Rmem_e me mc -> InvM mc -> back_ok (m_back mc) -> 1 <= n -> 8 * n < 2^63 -> 0 <= a -> a + n <= 2^64 ->
  match load_spec (m_end mc) (mabs mc) a n with
  | Some c => exists x, load EOps me a (8 * n) = Ok (Some x) /\ evalv sg x = Ok c /\ e_bits x = 8 * n
  | None => load EOps me a (8 * n) = Ok None
  end.
Proof.
  intros HR HM Hbk Hn H63 Ha Han.
  pose proof (expr_load_sim me mc a (8 * n) HR) as S. rewrite (abs_load_l mc a n HM Hbk Hn H63 Ha Han) in S.
  remember (load EOps me a (8 * n)) as r1 eqn:E1. clear E1.
  destruct (load_spec (m_end mc) (mabs mc) a n) as [c|] eqn:L.
  - inversion S as [o1 o2 Hr| |]; subst. inversion Hr as [x c' [He Hb]|]; subst.
    exists x. split; [reflexivity|]. split; [exact He|].
    rewrite Hb. unfold load_spec in L. destruct (gather (mabs mc) a (Z.to_nat n)); [|discriminate].
    injection L as <-. reflexivity.
  - inversion S as [o1 o2 Hr| |]; subst. inversion Hr; subst. reflexivity.
Qed.
End Valuation.
