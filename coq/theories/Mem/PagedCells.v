(* Mem/PagedCells.v -- the cell level of paged memory: value/back-reference cells over an
   unbounded address line, the three-phase cstore as a function on cell maps, the representation
   invariant, the byte-level abstraction, and `store_refines` (ported from the proved prototype,
   DESIGN-prototypes.md A.6, with values = il::Constant of 8k bits).  PagedProofs.v connects
   the model of Paged.v (pages, u64 arithmetic, the Value trait) to this level. *)
From Coq Require Import ZArith List Bool Lia ZifyBool.
From Falcon Require Import Base.Res IL.Const Mem.PagedTypes Mem.Paged Mem.PagedSpec.
Local Open Scope Z_scope.
Ltac Zify.zify_post_hook ::= Z.div_mod_to_equations.

Definition ccell := @cell const.
Definition cells := Z -> option ccell.
Definition bytes := Z -> option Z.

(* width in bytes *)
Definition vk (c : const) : Z := cbits c / 8.
(* byte i (address order) of a stored constant: the specification's byte_of *)
Definition bo (e : endian) (c : const) (i : Z) : Z := byte_of e (vk c) (cval c) i.
(* bytes [i, i+n) of v, as a value: what `load` returns for a backref / what `trun`/`shr` compute *)
Definition subval (e : endian) (v : const) (i n : Z) : const :=
  match e with
  | LE => mkc (8 * n) ((cval v / 2^(8*i)) mod 2^(8*n))
  | BE => mkc (8 * n) ((cval v / 2^(8*(vk v - i - n))) mod 2^(8*n))
  end.

(* a storable value: a positive number of whole bytes (fewer than 2^63 bits), value in range *)
Definition wfv (v : const) := 1 <= vk v /\ (cbits v = 8 * vk v /\ 8 * vk v < 2^63 /\ 0 <= cval v < 2^(8 * vk v)).

Definition store_nb (c : cells) (a : Z) (v : const) : cells :=
  fun x => if x =? a then Some (CVal v)
           else if (a <? x) && (x <? a + vk v) then Some (CRef a) else c x.

Definition cstore (e : endian) (c : cells) (a : Z) (v : const) : cells :=
  let after := a + vk v in
  let c1 := match c after with
            | Some (CRef b) => match c b with
                               | Some (CVal bv) => store_nb c after (subval e bv (after - b) (b + vk bv - after))
                               | _ => c end
            | _ => c end in
  let c2 := match c1 a with
            | Some (CRef b) => match c1 b with
                               | Some (CVal bv) => store_nb c1 b (subval e bv 0 (a - b))
                               | _ => c1 end
            | _ => c1 end in
  store_nb c2 a v.

Definition abs (e : endian) (back : bytes) (c : cells) (x : Z) : option Z :=
  match c x with
  | Some (CVal v) => Some (bo e v 0)
  | Some (CRef b) => match c b with Some (CVal v) => Some (bo e v (x - b)) | _ => None end
  | None => back x
  end.

Definition Inv (c : cells) : Prop :=
  (forall x b, c x = Some (CRef b) -> exists v, c b = Some (CVal v) /\ b < x < b + vk v) /\
  (forall b v, c b = Some (CVal v) -> wfv v /\ forall x, b < x < b + vk v -> c x = Some (CRef b)).

(* ---------- arithmetic of sub-values ---------- *)
Lemma pow8 n : 0 <= n -> 0 < 2^(8*n). Proof. intros; apply Z.pow_pos_nonneg; lia. Qed.

Lemma div_mod_byte x i n j : 0 <= i -> 0 <= j < n ->
  ((x / 2^(8*i)) mod 2^(8*n)) / 2^(8*j) mod 256 = (x / 2^(8*(i+j))) mod 256.
Proof.
  intros Hi Hj.
  change 256 with (2^8).
  apply Z.bits_inj'; intros k Hk.
  destruct (Z.ltb_spec k 8).
  - rewrite !Z.mod_pow2_bits_low by lia.
    rewrite !Z.div_pow2_bits by lia.
    rewrite Z.mod_pow2_bits_low by lia.
    rewrite Z.div_pow2_bits by lia. f_equal. lia.
  - rewrite !Z.mod_pow2_bits_high by lia. reflexivity.
Qed.

Lemma vk_mkc n x : vk (mkc (8 * n) x) = n.
Proof. unfold vk; cbn [cbits]. rewrite Z.mul_comm. apply Z.div_mul. lia. Qed.
Lemma vk_subval e v i n : vk (subval e v i n) = n. Proof. destruct e; apply vk_mkc. Qed.

Lemma subval_wf e v i n : 1 <= n -> 8 * n < 2^63 -> wfv (subval e v i n).
Proof.
  intros Hn Hb. unfold wfv. rewrite vk_subval.
  destruct e; cbn [subval cbits cval]; (split; [lia|]; split; [reflexivity|]; split; [lia|]);
    apply Z.mod_pos_bound, pow8; lia.
Qed.

Lemma bo_subval e v i n j : 0 <= i -> 0 <= j < n -> i + n <= vk v ->
  bo e (subval e v i n) j = bo e v (i + j).
Proof.
  intros Hi Hj Hn. unfold bo. rewrite vk_subval. unfold byte_of. destruct e; cbn [subval cval pos].
  - apply div_mod_byte; lia.
  - replace (vk v - 1 - (i + j)) with ((vk v - i - n) + (n - 1 - j)) by lia.
    apply div_mod_byte; lia.
Qed.

(* sub-values taken inside a well-formed value are well formed *)
Lemma subval_wf_in e v i n : wfv v -> 1 <= n -> n <= vk v -> wfv (subval e v i n).
Proof. intros (_ & _ & Hb & _) Hn Hle. apply subval_wf; lia. Qed.

(* ---------- shape of the cells after a cstore ---------- *)
Definition tail_part (e : endian) (c : cells) (after : Z) (tl : option (Z * const)) (x : Z) : option cell :=
  match tl with
  | Some (b, bv) => if x =? after then Some (CVal (subval e bv (after - b) (b + vk bv - after)))
                    else if (after <? x) && (x <? b + vk bv) then Some (CRef after) else c x
  | None => c x
  end.
Definition shape (e : endian) (c : cells) (a : Z) (v : const) (tl hd : option (Z * const)) (x : Z) : option cell :=
  if x =? a then Some (CVal v)
  else if (a <? x) && (x <? a + vk v) then Some (CRef a)
  else match hd with
       | Some (b', bv') => if x =? b' then Some (CVal (subval e bv' 0 (a - b')))
                           else if (b' <? x) && (x <? a) then Some (CRef b') else tail_part e c (a + vk v) tl x
       | None => tail_part e c (a + vk v) tl x
       end.
Definition info_ok (c : cells) (p : Z) (i : option (Z * const)) : Prop :=
  match i with
  | Some (b, bv) => c p = Some (CRef b) /\ c b = Some (CVal bv) /\ b < p < b + vk bv /\ wfv bv
  | None => forall b, c p <> Some (CRef b)
  end.

Lemma info_exists c p : Inv c -> exists i, info_ok c p i.
Proof.
  intros [I1 I2]. destruct (c p) as [[w|b]|] eqn:E.
  - exists None. cbn. intros b; rewrite E; congruence.
  - destruct (I1 p b E) as (bv & Hb & Hr). exists (Some (b, bv)). cbn. rewrite E.
    split; [reflexivity|]. split; [assumption|]. split; [lia|]. apply (I2 b bv Hb).
  - exists None. cbn. intros b; rewrite E; congruence.
Qed.

Lemma store_shape e c a v tl hd : Inv c -> wfv v ->
  info_ok c (a + vk v) tl -> info_ok c a hd -> forall x, cstore e c a v x = shape e c a v tl hd x.
Proof.
  intros HI [Hk Hv] Htl Hhd x. unfold cstore, shape.
  set (after := a + vk v) in *.
  (* c1 *)
  set (c1 := match c after with Some (CRef b) => match c b with Some (CVal bv) => store_nb c after (subval e bv (after - b) (b + vk bv - after)) | _ => c end | _ => c end).
  assert (Hc1: forall y, c1 y = tail_part e c after tl y).
  { intros y. unfold c1, tail_part. destruct tl as [[b bv]|]; cbn in Htl.
    - destruct Htl as (E1 & E2 & _ & _). rewrite E1, E2. unfold store_nb. rewrite vk_subval.
      replace (after + (b + vk bv - after)) with (b + vk bv) by lia. reflexivity.
    - destruct (c after) as [[w|b]|] eqn:E; try reflexivity. exfalso; exact (Htl b eq_refl). }
  assert (Hc1a: c1 a = c a).
  { rewrite Hc1. unfold tail_part. destruct tl as [[b bv]|]; [|reflexivity].
    destruct (Z.eqb_spec a after); [lia|]. destruct (Z.ltb_spec after a); [lia|]. reflexivity. }
  rewrite Hc1a.
  destruct hd as [[b' bv']|]; cbn in Hhd.
  - destruct Hhd as (E1 & E2 & Hr & Hw). rewrite E1.
    assert (Hc1b: c1 b' = Some (CVal bv')).
    { rewrite Hc1. unfold tail_part. destruct tl as [[b bv]|]; [|assumption].
      destruct (Z.eqb_spec b' after); [lia|]. destruct (Z.ltb_spec after b'); [lia|]. assumption. }
    rewrite Hc1b. unfold store_nb at 1. unfold store_nb at 1.
    rewrite vk_subval. replace (b' + (a - b')) with a by lia. change (a + vk v) with after.
    destruct (Z.eqb_spec x a); [reflexivity|].
    destruct ((a <? x) && (x <? after)); [reflexivity|].
    destruct (Z.eqb_spec x b'); [reflexivity|].
    destruct ((b' <? x) && (x <? a)); [reflexivity|]. apply Hc1.
  - assert (Hnr: match c a with Some (CRef b) => False | _ => True end).
    { destruct (c a) as [[w|b]|] eqn:E; try exact I. exact (Hhd b eq_refl). }
    destruct (c a) as [[w|b]|]; try contradiction;
      (unfold store_nb; change (a + vk v) with after; destruct (Z.eqb_spec x a); [reflexivity|];
       destruct ((a <? x) && (x <? after)); [reflexivity|]; apply Hc1).
Qed.

(* ---------- regions touched by a cstore ---------- *)
Section Store.
  Variables (e : endian) (c : cells) (a : Z) (v : const) (tl hd : option (Z * const)).
  Hypothesis HI : Inv c.
  Hypothesis Hv : wfv v.
  Hypothesis Htl : info_ok c (a + vk v) tl.
  Hypothesis Hhd : info_ok c a hd.
  Let after := a + vk v.
  Let c' := cstore e c a v.

  Definition in_new x := a <= x < after.
  Definition in_hd x := match hd with Some (b', _) => b' <= x < a | None => False end.
  Definition in_tl x := match tl with Some (b, bv) => after <= x < b + vk bv | None => False end.
  Definition modified x := in_new x \/ in_hd x \/ in_tl x.

  Lemma S x : c' x = shape e c a v tl hd x.
  Proof. apply store_shape; assumption. Qed.

  Lemma unmod_same x : ~ modified x -> c' x = c x.
  Proof.
    intros N. rewrite S. unfold shape, tail_part. unfold modified, in_new, in_hd, in_tl, after in N.
    pose proof (proj1 Hv) as Hk. pose proof Hhd as Hh. pose proof Htl as Ht. unfold info_ok in Hh, Ht.
    destruct hd as [[b' bv']|]; destruct tl as [[b bv]|];
    try (destruct Hh as (_ & _ & Hh & _)); try (destruct Ht as (_ & _ & Ht & _));
    repeat match goal with
           | |- context [?p =? ?q] => destruct (Z.eqb_spec p q)
           | |- context [?p <? ?q] => destruct (Z.ltb_spec p q)
           end; cbn [andb]; try reflexivity; exfalso; lia.
  Qed.

  (* facts about the two pieces of bookkeeping *)
  Lemma tl_unique r w : c after = Some (CRef r) -> c r = Some (CVal w) -> tl = Some (r, w).
  Proof.
    intros E1 E2. unfold after in *. destruct tl as [[b bv]|]; cbn in Htl.
    - destruct Htl as (F1 & F2 & _). rewrite F1 in E1. injection E1 as <-. rewrite F2 in E2. injection E2 as <-. reflexivity.
    - exfalso; exact (Htl r E1).
  Qed.
  Lemma hd_unique r w : c a = Some (CRef r) -> c r = Some (CVal w) -> hd = Some (r, w).
  Proof.
    intros E1 E2. destruct hd as [[b bv]|]; cbn in Hhd.
    - destruct Hhd as (F1 & F2 & _). rewrite F1 in E1. injection E1 as <-. rewrite F2 in E2. injection E2 as <-. reflexivity.
    - exfalso; exact (Hhd r E1).
  Qed.

  Lemma owner_unmod x r : c x = Some (CRef r) -> ~ modified x -> ~ modified r.
  Proof.
    destruct HI as [I1 I2]. intros Ex Nx. destruct (I1 x r Ex) as (w & Er & Hr).
    destruct (I2 r w Er) as [_ Hfill]. destruct Hv as [Hk _].
    intros M.
    assert (T1: c (a + vk v) = Some (CRef r) -> tl = Some (r, w)) by (intros E; exact (tl_unique r w E Er)).
    unfold modified, in_new, in_hd, in_tl, after in *.
    destruct M as [M|[M|M]].
    - (* owner inside the written range: its tail passes `after` *)
      assert (a + vk v <= x) by lia.
      assert (Ea: c (a + vk v) = Some (CRef r)) by (apply Hfill; lia).
      rewrite (T1 Ea) in Nx. lia.
    - destruct hd as [[b' bv']|]; [|contradiction]. cbn in Hhd.
      destruct Hhd as (F1 & F2 & F3 & F4). destruct (I2 b' bv' F2) as [_ Hfill'].
      destruct (Z.eq_dec r b') as [->|Nr].
      + rewrite F2 in Er. injection Er as <-.
        assert (a + vk v <= x) by lia.
        assert (Ea: c (a + vk v) = Some (CRef b')) by (apply Hfill'; lia).
        rewrite (T1 Ea) in Nx. lia.
      + rewrite (Hfill' r) in Er by lia. discriminate.
    - destruct tl as [[b bv]|]; [|contradiction]. cbn in Htl.
      destruct Htl as (F1 & F2 & F3 & F4). destruct (I2 b bv F2) as [_ Hfill'].
      destruct (Z.eq_dec r (a + vk v)) as [->|Nr]; [congruence|].
      rewrite (Hfill' r) in Er by lia. discriminate.
  Qed.

  Lemma val_unmod b0 w x : c b0 = Some (CVal w) -> ~ modified b0 -> b0 < x < b0 + vk w -> ~ modified x.
  Proof.
    destruct HI as [I1 I2]. intros E0 N0 Hx. destruct (I2 b0 w E0) as [_ Hfill]. destruct Hv as [Hk _].
    intros M.
    assert (T2: c a = Some (CRef b0) -> hd = Some (b0, w)) by (intros E; exact (hd_unique b0 w E E0)).
    unfold modified, in_new, in_hd, in_tl, after in *.
    destruct M as [M|[M|M]].
    - assert (b0 < a) by lia.
      assert (Ea: c a = Some (CRef b0)) by (apply Hfill; lia).
      rewrite (T2 Ea) in N0. lia.
    - destruct hd as [[b' bv']|]; [|contradiction]. cbn in Hhd.
      destruct Hhd as (F1 & F2 & F3 & F4). destruct (I2 b' bv' F2) as [_ Hfill'].
      pose proof (Hfill x Hx) as Ex.
      destruct (Z.eq_dec x b') as [->|Nx]; [congruence|].
      rewrite (Hfill' x) in Ex by lia. injection Ex as ->. lia.
    - destruct tl as [[b bv]|]; [|contradiction]. cbn in Htl.
      destruct Htl as (F1 & F2 & F3 & F4). destruct (I2 b bv F2) as [_ Hfill'].
      pose proof (Hfill x Hx) as Ex.
      assert (Eb: c x = Some (CRef b)).
      { destruct (Z.eq_dec x (a + vk v)) as [->|Nx]; [assumption|]. apply Hfill'; lia. }
      rewrite Eb in Ex. injection Ex as ->.
      rewrite F2 in E0. injection E0 as <-.
      assert (b0 < a) by lia.
      assert (Ea: c a = Some (CRef b0)) by (apply Hfill'; lia).
      rewrite (T2 Ea) in N0. lia.
  Qed.

  (* values of c' at the three anchors and inside the three regions *)
  Lemma at_a : c' a = Some (CVal v).
  Proof. rewrite S. unfold shape. rewrite Z.eqb_refl. reflexivity. Qed.
  Lemma in_a x : a < x < after -> c' x = Some (CRef a).
  Proof. intros H. rewrite S. unfold shape. fold after. destruct (Z.eqb_spec x a); [lia|].
         destruct (Z.ltb_spec a x), (Z.ltb_spec x after); try lia. reflexivity. Qed.
  Lemma at_hd b' bv' : hd = Some (b', bv') -> c' b' = Some (CVal (subval e bv' 0 (a - b'))).
  Proof. intros E. pose proof Hhd as H. rewrite E in H. cbn in H. destruct H as (_ & _ & H & _).
         pose proof (proj1 Hv). rewrite S. unfold shape. rewrite E. fold after.
         destruct (Z.eqb_spec b' a); [lia|]. destruct (Z.ltb_spec a b'); [lia|]. cbn [andb].
         rewrite Z.eqb_refl. reflexivity. Qed.
  Lemma in_hd_ref b' bv' x : hd = Some (b', bv') -> b' < x < a -> c' x = Some (CRef b').
  Proof. intros E Hx. pose proof (proj1 Hv). rewrite S. unfold shape. rewrite E. fold after.
         destruct (Z.eqb_spec x a); [lia|]. destruct (Z.ltb_spec a x); [lia|]. cbn [andb].
         destruct (Z.eqb_spec x b'); [lia|]. destruct (Z.ltb_spec b' x), (Z.ltb_spec x a); try lia. reflexivity. Qed.
  Lemma at_tl b bv : tl = Some (b, bv) -> c' after = Some (CVal (subval e bv (after - b) (b + vk bv - after))).
  Proof. intros E. pose proof (proj1 Hv). rewrite S. unfold shape, tail_part. rewrite E. fold after.
         destruct (Z.eqb_spec after a); [unfold after in *; lia|].
         destruct (Z.ltb_spec a after), (Z.ltb_spec after after); try lia. cbn [andb].
         destruct hd as [[b' bv']|].
         - cbn in Hhd. destruct Hhd as (_ & _ & F & _).
           destruct (Z.eqb_spec after b'); [unfold after in *; lia|].
           destruct (Z.ltb_spec b' after), (Z.ltb_spec after a); try (unfold after in *; lia); cbn [andb]; rewrite Z.eqb_refl; reflexivity.
         - rewrite Z.eqb_refl. reflexivity. Qed.
  Lemma in_tl_ref b bv x : tl = Some (b, bv) -> after < x < b + vk bv -> c' x = Some (CRef after).
  Proof. intros E Hx. pose proof (proj1 Hv). rewrite S. unfold shape, tail_part. rewrite E. fold after.
         destruct (Z.eqb_spec x a); [unfold after in *; lia|].
         destruct (Z.ltb_spec a x), (Z.ltb_spec x after); try (unfold after in *; lia). cbn [andb].
         assert (T: (if x =? after then Some (CVal (subval e bv (after - b) (b + vk bv - after)))
                     else if (after <? x) && (x <? b + vk bv) then Some (CRef after) else c x) = Some (CRef after)).
         { destruct (Z.eqb_spec x after); [lia|]. destruct (Z.ltb_spec after x), (Z.ltb_spec x (b + vk bv)); try lia. reflexivity. }
         destruct hd as [[b' bv']|]; [|exact T].
         cbn in Hhd. destruct Hhd as (_ & _ & F & _).
         destruct (Z.eqb_spec x b'); [unfold after in *; lia|].
         destruct (Z.ltb_spec b' x), (Z.ltb_spec x a); try (unfold after in *; lia); exact T. Qed.

  Lemma hd_cases : hd = None \/ exists b' bv', hd = Some (b', bv').
  Proof. destruct hd as [[b' bv']|]; eauto. Qed.
  Lemma tl_cases : tl = None \/ exists b bv, tl = Some (b, bv).
  Proof. destruct tl as [[b bv]|]; eauto. Qed.
  Lemma hd_facts b' bv' : hd = Some (b', bv') -> c a = Some (CRef b') /\ c b' = Some (CVal bv') /\ b' < a < b' + vk bv' /\ wfv bv'.
  Proof. intros E. pose proof Hhd as H. rewrite E in H. exact H. Qed.
  Lemma tl_facts b bv : tl = Some (b, bv) -> c after = Some (CRef b) /\ c b = Some (CVal bv) /\ b < after < b + vk bv /\ wfv bv.
  Proof. intros E. pose proof Htl as H. rewrite E in H. exact H. Qed.

  Lemma classify x : in_new x \/ in_hd x \/ in_tl x \/ ~ modified x.
  Proof. unfold modified, in_new, in_hd, in_tl. destruct hd as [[b' bv']|], tl as [[b bv]|]; lia. Qed.

  Theorem store_inv : Inv c'.
  Proof.
    pose proof HI as [I1 I2]. pose proof Hv as [Hk Hvr]. split.
    - intros x r Ex. destruct (classify x) as [M|[M|[M|M]]].
      + unfold in_new in M. destruct (Z.eq_dec x a) as [->|N]; [rewrite at_a in Ex; discriminate|].
        rewrite in_a in Ex by lia. injection Ex as <-. exists v. split; [apply at_a|unfold after in *; lia].
      + unfold in_hd in M. destruct hd_cases as [Eh|(b' & bv' & Eh)]; rewrite Eh in M; [contradiction|].
        destruct (Z.eq_dec x b') as [->|N]; [rewrite (at_hd b' bv' Eh) in Ex; discriminate|].
        rewrite (in_hd_ref b' bv' x Eh) in Ex by lia. injection Ex as <-.
        eexists. split; [apply (at_hd b' bv' Eh)|]. rewrite vk_subval. lia.
      + unfold in_tl in M. destruct tl_cases as [Et|(b & bv & Et)]; rewrite Et in M; [contradiction|].
        destruct (Z.eq_dec x after) as [->|N]; [rewrite (at_tl b bv Et) in Ex; discriminate|].
        rewrite (in_tl_ref b bv x Et) in Ex by lia. injection Ex as <-.
        eexists. split; [apply (at_tl b bv Et)|]. rewrite vk_subval. lia.
      + rewrite (unmod_same x M) in Ex. destruct (I1 x r Ex) as (w & Er & Hr).
        exists w. split; [|assumption]. rewrite unmod_same; [assumption|]. exact (owner_unmod x r Ex M).
    - intros b0 w E0. destruct (classify b0) as [M|[M|[M|M]]].
      + unfold in_new in M. destruct (Z.eq_dec b0 a) as [->|N].
        * rewrite at_a in E0. injection E0 as <-. split; [assumption|]. intros x Hx. apply in_a. unfold after; lia.
        * rewrite in_a in E0 by lia. discriminate.
      + unfold in_hd in M. destruct hd_cases as [Eh|(b' & bv' & Eh)]; rewrite Eh in M; [contradiction|].
        destruct (hd_facts b' bv' Eh) as (_ & _ & F & F4).
        destruct (Z.eq_dec b0 b') as [->|N].
        * rewrite (at_hd b' bv' Eh) in E0. injection E0 as <-. split; [apply subval_wf_in; [assumption|lia|lia]|].
          intros x Hx. rewrite vk_subval in Hx. apply (in_hd_ref b' bv' x Eh). lia.
        * rewrite (in_hd_ref b' bv' b0 Eh) in E0 by lia. discriminate.
      + unfold in_tl in M. destruct tl_cases as [Et|(b & bv & Et)]; rewrite Et in M; [contradiction|].
        destruct (tl_facts b bv Et) as (_ & _ & F & F4).
        destruct (Z.eq_dec b0 after) as [->|N].
        * rewrite (at_tl b bv Et) in E0. injection E0 as <-. split; [apply subval_wf_in; [assumption|lia|lia]|].
          intros x Hx. rewrite vk_subval in Hx. apply (in_tl_ref b bv x Et). lia.
        * rewrite (in_tl_ref b bv b0 Et) in E0 by lia. discriminate.
      + rewrite (unmod_same b0 M) in E0. destruct (I2 b0 w E0) as [Hw Hfill]. split; [assumption|].
        intros x Hx. rewrite unmod_same; [apply Hfill; assumption|]. exact (val_unmod b0 w x E0 M Hx).
  Qed.

  Theorem store_abs back x :
    abs e back c' x = if (a <=? x) && (x <? after) then Some (bo e v (x - a)) else abs e back c x.
  Proof.
    pose proof HI as [I1 I2]. pose proof Hv as [Hk Hvr]. unfold abs at 1.
    destruct (classify x) as [M|[M|[M|M]]].
    - unfold in_new in M. destruct (Z.leb_spec a x), (Z.ltb_spec x after); try lia. cbn [andb].
      destruct (Z.eq_dec x a) as [->|N]; [rewrite at_a; do 2 f_equal; lia|].
      rewrite in_a by lia. rewrite at_a. reflexivity.
    - unfold in_hd in M. destruct hd_cases as [Eh|(b' & bv' & Eh)]; rewrite Eh in M; [contradiction|].
      destruct (hd_facts b' bv' Eh) as (F1 & F2 & F3 & F4). destruct (I2 b' bv' F2) as [_ Hfill].
      destruct (Z.leb_spec a x); [lia|]. cbn [andb]. unfold abs.
      destruct (Z.eq_dec x b') as [->|N].
      + rewrite (at_hd b' bv' Eh), F2. f_equal. rewrite bo_subval by lia. f_equal.
      + rewrite (in_hd_ref b' bv' x Eh) by lia. rewrite (at_hd b' bv' Eh).
        rewrite (Hfill x) by lia. rewrite F2. f_equal. rewrite bo_subval by lia. f_equal.
    - unfold in_tl in M. destruct tl_cases as [Et|(b & bv & Et)]; rewrite Et in M; [contradiction|].
      destruct (tl_facts b bv Et) as (F1 & F2 & F3 & F4). destruct (I2 b bv F2) as [_ Hfill].
      destruct (Z.ltb_spec x after); [lia|]. rewrite andb_false_r. unfold abs.
      destruct (Z.eq_dec x after) as [->|N].
      + rewrite (at_tl b bv Et), F1, F2. f_equal. rewrite bo_subval by lia. f_equal. lia.
      + rewrite (in_tl_ref b bv x Et) by lia. rewrite (at_tl b bv Et).
        rewrite (Hfill x) by lia. rewrite F2. f_equal. rewrite bo_subval by lia. f_equal. lia.
    - assert (Hout: (a <=? x) && (x <? after) = false).
      { unfold modified, in_new in M. destruct (Z.leb_spec a x), (Z.ltb_spec x after); try reflexivity. lia. }
      rewrite Hout. unfold abs. rewrite (unmod_same x M).
      destruct (c x) as [[w|r]|] eqn:Ex; try reflexivity.
      rewrite (unmod_same r (owner_unmod x r Ex M)). reflexivity.
  Qed.
End Store.

(* C08, cstore half: for every state satisfying the representation invariant, every address, every value of
   any byte width >= 1, both endiannesses: the invariant is preserved and the byte-level abstraction is
   exactly "write these bytes, leave everything else". *)
Theorem store_refines e c a v back : Inv c -> wfv v ->
  Inv (cstore e c a v) /\
  forall x, abs e back (cstore e c a v) x =
            if (a <=? x) && (x <? a + vk v) then Some (bo e v (x - a)) else abs e back c x.
Proof.
  intros HI Hv. destruct (info_exists c (a + vk v) HI) as [tl Htl]. destruct (info_exists c a HI) as [hd Hhd].
  split; [eapply store_inv; eassumption|]. intros x. eapply store_abs; eassumption.
Qed.
