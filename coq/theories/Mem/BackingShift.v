(* Mem/BackingShift.v -- set_memory is translation invariant: shifting every key of an invariant state and
   the written address by B shifts the result (used by C19 for the sections() part of rebase_uniform). *)
From Coq Require Import ZArith List Bool Lia.
From Falcon Require Import Base.Res IL.Const Mem.Backing Mem.BackingSpec Mem.BackingProofs.
Import ListNotations.
Local Open Scope Z_scope.

Section Shift.
Context {P : Type}.
Notation sections := (sections P).

Definition kshift (B : Z) (s : sections) : sections := map (fun kv => (fst kv + B, snd kv)) s.

(* the value set_memory returns on an invariant state *)
Lemma set_memory_eq (s : sections) ad data (p : P) :
  wf 0 s -> 0 <= ad -> ad + len data <= U64 -> 0 < len data ->
  set_memory s ad data p = Ok (bt_insert (adjust ad (len data) s) ad (data, p)).
Proof.
  intros W A B L. rewrite set_memory_nonempty by assumption.
  assert (Hl : loop ad (len data) ([] ++ s) (snap s) = Ok ([] ++ adjust ad (len data) s)).
  { eapply loop_adjust with (lo := 0); first [assumption | lia | constructor]. }
  cbn [app] in Hl. rewrite Hl. reflexivity.
Qed.

Lemma adj1_shift B ad n a d (p : P) : adj1 (ad + B) n (a + B) d p = kshift B (adj1 ad n a d p).
Proof.
  unfold adj1.
  destruct (Z.ltb_spec a ad); destruct (Z.ltb_spec (a + B) (ad + B)); try lia.
  - destruct (Z.ltb_spec ad (a + len d)); destruct (Z.ltb_spec (ad + B) (a + B + len d)); try lia; [|reflexivity].
    destruct (Z.leb_spec (a + len d) (ad + n)); destruct (Z.leb_spec (a + B + len d) (ad + B + n)); try lia.
    + cbn [kshift map fst snd]. replace (ad + B - (a + B)) with (ad - a) by lia. reflexivity.
    + cbn [kshift map fst snd]. replace (ad + B - (a + B)) with (ad - a) by lia.
      replace (ad + B + n - (a + B)) with (ad + n - a) by lia. replace (ad + n + B) with (ad + B + n) by lia. reflexivity.
  - destruct (Z.leb_spec (a + len d) (ad + n)); destruct (Z.leb_spec (a + B + len d) (ad + B + n)); try lia; [reflexivity|].
    destruct (Z.ltb_spec a (ad + n)); destruct (Z.ltb_spec (a + B) (ad + B + n)); try lia; [|reflexivity].
    cbn [kshift map fst snd]. replace (ad + B + n - (a + B)) with (ad + n - a) by lia.
    replace (ad + n + B) with (ad + B + n) by lia. reflexivity.
Qed.

Lemma adjust_shift B ad n (s : sections) : adjust (ad + B) n (kshift B s) = kshift B (adjust ad n s).
Proof.
  induction s as [|[a [d p]] t IH]; [reflexivity|]. cbn [kshift map adjust fst snd].
  fold (kshift B t). rewrite IH, adj1_shift. unfold kshift. rewrite map_app. reflexivity.
Qed.

Lemma bt_insert_shift B (s : sections) k v : bt_insert (kshift B s) (k + B) v = kshift B (bt_insert s k v).
Proof.
  induction s as [|[a w] t IH]; [reflexivity|]. cbn [kshift map bt_insert fst snd].
  destruct (Z.ltb_spec k a); destruct (Z.ltb_spec (k + B) (a + B)); try lia; [reflexivity|].
  destruct (Z.eqb_spec k a); destruct (Z.eqb_spec (k + B) (a + B)); try lia; [reflexivity|].
  cbn [map fst snd]. f_equal. apply IH.
Qed.

(* [U] translation invariance on invariant states *)
Theorem set_memory_shift B (s : sections) ad data (p : P) :
  wf 0 s -> wf 0 (kshift B s) -> 0 <= ad -> 0 <= ad + B -> ad + len data <= U64 -> ad + B + len data <= U64 ->
  exists s', set_memory s ad data p = Ok s' /\ set_memory (kshift B s) (ad + B) data p = Ok (kshift B s').
Proof.
  intros W WB A AB E EB. destruct (Z.eq_dec (len data) 0) as [Z0|NZ].
  - apply len_nil_inv in Z0. subst data. exists s. split; reflexivity.
  - assert (L : 0 < len data) by (pose proof (len_nonneg data); lia).
    eexists. split; [apply set_memory_eq; assumption|].
    rewrite set_memory_eq by assumption. rewrite adjust_shift, bt_insert_shift. reflexivity.
Qed.

End Shift.
