(* Mem/PagedStore.v -- `store` of the model (pages, u64 arithmetic, internal loads through the
   Value trait) computes the cell-level three-phase store of PagedCells.v, hence preserves the
   representation invariant and is a byte-array write.  Proofs only. *)
From Coq Require Import ZArith List Bool Lia ZifyBool.
From Falcon Require Import Base.Res IL.Const IL.ConstSpec IL.ConstProofs IL.Expr
     Mem.PagedTypes Mem.Paged Mem.PagedSpec Mem.PagedCells Mem.PagedProofs Mem.PagedLoad.
Import ListNotations.
Local Open Scope Z_scope.
Ltac Zify.zify_post_hook ::= Z.div_mod_to_equations.

(* loading a proper prefix of the value that starts at b reads that one cell only
   (no invariant needed: this is the load `store` issues on a half-updated memory) *)
Lemma load_prefix (m : cmem) b w n : load_cell m b = Some (CVal w) -> wfv w -> 1 <= n < vk w ->
  load COps m b (8 * n) = Ok (Some (subval (m_end m) w 0 n)).
Proof.
  intros E Hw Hn. destruct (wfv_shape w Hw) as (k & wv & -> & Hk & Hk63 & Hr). rewrite vk_mkc in Hn.
  unfold load. rewrite load_f_S.
  replace (8 * n mod 8) with 0 by lia. change (0 =? 0) with true. cbn [negb].
  destruct (Z.eqb_spec (8 * n) 0); [lia|].
  unfold first. rewrite E. cbn [v_bits COps cbits]. destruct (Z.leb_spec (8 * k) (8 * n)); [lia|].
  destruct (m_end m) eqn:Ee; cbn [v_trun v_shr COps].
  - rewrite cv_trun_ok by lia. cbn [bind v_bits COps cbits]. rewrite Z.eqb_refl. do 2 f_equal.
    unfold subval; cbn [cval]. rewrite Z.mul_0_r, Z.pow_0_r, Z.div_1_r. reflexivity.
  - rewrite usub_ok by lia. cbn [bind]. rewrite cv_shr_ok by first [lia | (split; lia)]. cbn [bind].
    rewrite cv_trun_ok by lia. cbn [bind v_bits COps cbits]. rewrite Z.eqb_refl. do 2 f_equal. mkc_eq.
Qed.

(* the specified load of bytes [i, i+k') of the value at b is that sub-value *)
Lemma load_spec_val (m : cmem) b w i k' :
  InvM m -> load_cell m b = Some (CVal w) -> 0 <= i -> 1 <= k' -> i + k' <= vk w ->
  load_spec (m_end m) (mabs m) (b + i) k' = Some (subval (m_end m) w i k').
Proof.
  intros HM E Hi Hk Hle. pose proof HM as [HI _]. destruct (proj2 HI b w E) as [Hw _].
  assert (Hsw: wfv (subval (m_end m) w i k')) by (apply subval_wf_in; [assumption|lia|lia]).
  destruct (wfv_shape _ Hsw) as (k2 & v2 & Esv & _ & _ & Hr2).
  assert (k2 = k') by (rewrite <- (vk_subval (m_end m) w i k'), Esv, vk_mkc; reflexivity). subst k2.
  unfold load_spec. rewrite <- (Z.add_0_r (b + i)).
  rewrite (gather_tab (mabs m) (b + i) (fun t => byte_of (m_end m) k' v2 t) (Z.to_nat k') 0).
  - rewrite assemble_own by lia. rewrite Esv. reflexivity.
  - intros t Ht. rewrite Z2Nat.id in Ht by lia. replace (b + i + t) with (b + (i + t)) by lia.
    unfold mabs. rewrite (abs_of_val _ _ _ b w (i + t)) by (assumption || lia). f_equal.
    rewrite <- (bo_subval (m_end m) w i k' t) by lia. rewrite Esv. unfold bo. rewrite vk_mkc. reflexivity.
Qed.

Lemma store_nb_ext c c' p w : (forall x, c x = c' x) -> forall x, store_nb c p w x = store_nb c' p w x.
Proof. intros H x. unfold store_nb. rewrite H. reflexivity. Qed.

(* phases 2 and 3 on a memory m1 whose cells are c1 *)
Lemma store_phases23 (m m1 : cmem) (c1 : cells) a v :
  frame m m1 -> (forall x, load_cell m1 x = c1 x) ->
  (forall b, c1 a = Some (CRef b) ->
     exists bv, c1 b = Some (CVal bv) /\ wfv bv /\ 0 <= b /\ b < a < b + vk bv /\ b + vk bv <= 2^64) ->
  1 <= vk v -> 0 <= a -> a + vk v <= 2^64 ->
  exists m',
    (vtw2 <- match load_cell m1 a with
             | Some (CRef b) =>
                 c <- res_of_option (load_cell m1 b) ;;
                 bv <- match c with CVal bv => Ok bv | CRef _ => Panic end ;;
                 d <- usub (b + v_bits COps bv / 8) a ;;
                 lb <- usub (v_bits COps bv) ((d * 8) mod USIZE) ;;
                 r <- load COps m1 b lb ;;
                 Ok (Some (b, r))
             | _ => Ok None
             end ;;
     m2 <- match vtw2 with
           | Some (b, r) => w <- res_of_option r ;; store_no_backref COps m1 b w
           | None => Ok m1
           end ;;
     store_no_backref COps m2 a v) = Ok m' /\ frame m m' /\
    forall x, load_cell m' x =
      store_nb (match c1 a with
                | Some (CRef b) => match c1 b with
                                   | Some (CVal bv) => store_nb c1 b (subval (m_end m) bv 0 (a - b))
                                   | _ => c1 end
                | _ => c1 end) a v x.
Proof.
  intros F1 L1 H2 Hk Ha Hb. assert (Ee: m_end m1 = m_end m) by apply F1.
  rewrite (L1 a).
  destruct (c1 a) as [[w|b]|] eqn:E.
  - cbn [bind]. destruct (snb_spec m1 a v Hk Ha Hb) as (m' & E' & F' & L'). exists m'.
    split; [exact E'|]. split; [eapply frame_trans; eassumption|].
    intros x. rewrite L'. apply store_nb_ext, L1.
  - destruct (H2 b eq_refl) as (bv & Eb & Hbw & Hb0 & Hr & Hb64). rewrite (L1 b), Eb. cbn [res_of_option bind].
    pose proof Hbw as (Hbk & Hbbits & Hb63 & Hbr). cbn [v_bits COps]. rewrite Hbbits.
    replace (8 * vk bv / 8) with (vk bv) by (rewrite Z.mul_comm, Z.div_mul; lia).
    rewrite usub_ok by lia. cbn [bind].
    rewrite (Z.mod_small ((b + vk bv - a) * 8)) by (unfold USIZE; lia).
    rewrite usub_ok by lia. cbn [bind].
    replace (8 * vk bv - (b + vk bv - a) * 8) with (8 * (a - b)) by lia.
    rewrite (load_prefix m1 b bv (a - b)); [|rewrite L1; exact Eb|exact Hbw|lia].
    cbn [bind res_of_option]. rewrite Ee.
    destruct (snb_spec m1 b (subval (m_end m) bv 0 (a - b))) as (m2 & E2 & F2 & L2);
      [rewrite vk_subval; lia|lia|rewrite vk_subval; lia|].
    rewrite E2. cbn [bind].
    destruct (snb_spec m2 a v Hk Ha Hb) as (m' & E' & F' & L'). exists m'.
    split; [exact E'|]. split; [eapply frame_trans; [exact F1|]; eapply frame_trans; eassumption|].
    intros x. rewrite L'. apply store_nb_ext. intros y. rewrite L2. apply store_nb_ext, L1.
  - cbn [bind]. destruct (snb_spec m1 a v Hk Ha Hb) as (m' & E' & F' & L'). exists m'.
    split; [exact E'|]. split; [eapply frame_trans; eassumption|].
    intros x. rewrite L'. apply store_nb_ext, L1.
Qed.

(* store on a memory satisfying the invariant: no error, no panic, and exactly the cell-level store;
   the write may end exactly at 2^64 *)
Theorem store_ok (m : cmem) a v : InvM m -> back_ok (m_back m) -> wfv v -> 0 <= a -> a + vk v <= 2^64 ->
  exists m', Paged.store COps m a v = Ok m' /\ frame m m' /\
     forall x, load_cell m' x = cstore (m_end m) (load_cell m) a v x.
Proof.
  intros HM Hbk Hv Ha Hb. pose proof HM as [HI HD]. pose proof HI as [I1 I2].
  destruct Hv as (Hk1 & Hbits & Hk63 & Hvr).
  unfold Paged.store. cbn [v_bits COps]. rewrite Hbits.
  replace (8 * vk v mod 8) with 0 by lia. change (0 =? 0) with true.
  destruct (Z.eqb_spec (8 * vk v) 0); [lia|]. cbn [negb orb].
  replace (8 * vk v / 8) with (vk v) by (rewrite Z.mul_comm, Z.div_mul; lia).
  unfold cstore. set (after := a + vk v) in *.
  destruct (Z.ltb_spec USIZE after) as [Hw|_]; [unfold USIZE in Hw; lia|].
  (* what phase 2 needs to know about the cells after phase 1 *)
  assert (H2: forall (c1 : cells), c1 a = load_cell m a ->
              (forall b, b < a -> c1 b = load_cell m b) ->
              forall b, c1 a = Some (CRef b) ->
              exists bv, c1 b = Some (CVal bv) /\ wfv bv /\ 0 <= b /\ b < a < b + vk bv /\ b + vk bv <= 2^64).
  { intros c1 Ea Elt b E. rewrite Ea in E. destruct (I1 a b E) as (bv & Eb & Hr).
    destruct (InvM_range m HM b bv Eb). destruct (I2 b bv Eb) as [Hbw _].
    exists bv. rewrite Elt by lia. refine (conj Eb (conj Hbw _)). lia. }
  assert (SIMPLE: load_cell m after = None \/ (exists w, load_cell m after = Some (CVal w)) ->
          exists m', (m1 <- Ok m ;;
                      vtw2 <- match load_cell m1 a with
                              | Some (CRef b) =>
                                  c <- res_of_option (load_cell m1 b) ;;
                                  bv <- match c with CVal bv => Ok bv | CRef _ => Panic end ;;
                                  d <- usub (b + v_bits COps bv / 8) a ;;
                                  lb <- usub (v_bits COps bv) ((d * 8) mod USIZE) ;;
                                  r <- load COps m1 b lb ;;
                                  Ok (Some (b, r))
                              | _ => Ok None
                              end ;;
                      m2 <- match vtw2 with
                            | Some (b, r) => w <- res_of_option r ;; store_no_backref COps m1 b w
                            | None => Ok m1
                            end ;;
                      store_no_backref COps m2 a v) = Ok m' /\ frame m m' /\
            forall x, load_cell m' x =
              store_nb (match load_cell m a with
                        | Some (CRef b) => match load_cell m b with
                                           | Some (CVal bv) => store_nb (load_cell m) b (subval (m_end m) bv 0 (a - b))
                                           | _ => load_cell m end
                        | _ => load_cell m end) a v x).
  { intros _. cbn [bind].
    destruct (store_phases23 m m (load_cell m) a v (frame_refl m) (fun x => eq_refl)) as (m' & E' & F' & L'); try lia.
    { apply H2; reflexivity. }
    exists m'. split; [exact E'|]. split; [exact F'|]. exact L'. }
  destruct (Z.eqb_spec after USIZE) as [Etop|Ntop].
  - (* the write ends exactly at the top: no cell after it *)
    assert (Eaf: load_cell m after = None).
    { destruct (load_cell m after) eqn:E; [|reflexivity]. exfalso.
      assert (0 <= after < 2^64) by (apply HD; rewrite E; discriminate). unfold USIZE in Etop. lia. }
    rewrite Eaf. apply SIMPLE. left. exact Eaf.
  - assert (Haf: after < 2^64) by (unfold USIZE in Ntop; lia).
    destruct (load_cell m after) as [[w|b]|] eqn:Eaf.
    + apply SIMPLE. right. eauto.
    + destruct (I1 after b Eaf) as (bv & Eb & Hr1). rewrite Eb.
      destruct (InvM_range m HM b bv Eb) as [Hb0 Hb64]. destruct (I2 b bv Eb) as [Hbw _].
      pose proof Hbw as (Hbk1 & Hbbits & Hb63 & Hbr). cbn [v_bits COps]. rewrite Hbbits.
      replace (8 * vk bv / 8) with (vk bv) by (rewrite Z.mul_comm, Z.div_mul; lia).
      rewrite usub_ok by lia. cbn [bind].
      rewrite (Z.mod_small ((b + vk bv - after) * 8)) by (unfold USIZE; lia).
      replace ((b + vk bv - after) * 8) with (8 * (b + vk bv - after)) by lia.
      rewrite abs_load_l by (assumption || lia).
      pose proof (load_spec_val m b bv (after - b) (b + vk bv - after) HM Eb ltac:(lia) ltac:(lia) ltac:(lia)) as LS.
      replace (b + (after - b)) with after in LS by lia. rewrite LS. cbn [bind].
      destruct (snb_spec m after (subval (m_end m) bv (after - b) (b + vk bv - after))) as (m1 & E1 & F1 & L1);
        [rewrite vk_subval; lia|lia|rewrite vk_subval; lia|].
      rewrite E1. cbn [bind].
      destruct (store_phases23 m m1 (store_nb (load_cell m) after (subval (m_end m) bv (after - b) (b + vk bv - after))) a v F1 L1)
        as (m' & E' & F' & L'); try lia.
      { apply H2.
        - unfold store_nb. destruct (Z.eqb_spec a after); [lia|]. destruct (Z.ltb_spec after a); [lia|]. reflexivity.
        - intros y Hy. unfold store_nb. destruct (Z.eqb_spec y after); [lia|]. destruct (Z.ltb_spec after y); [lia|]. reflexivity. }
      exists m'. split; [exact E'|]. split; [exact F'|]. exact L'.
    + apply SIMPLE. left. reflexivity.
Qed.

(* ------------------------------------------------------------------ invariant preservation, abs_store *)
Lemma Inv_ext (c c' : cells) : (forall x, c x = c' x) -> Inv c -> Inv c'.
Proof.
  intros H [I1 I2]. split.
  - intros x b E. rewrite <- H in E. destruct (I1 x b E) as (v & Eb & Hr). exists v. rewrite <- H. auto.
  - intros b v E. rewrite <- H in E. destruct (I2 b v E) as [Hw Hf]. split; [assumption|].
    intros x Hx. rewrite <- H. auto.
Qed.
Lemma abs_ext e back (c c' : cells) : (forall x, c x = c' x) -> forall x, abs e back c x = abs e back c' x.
Proof. intros H x. unfold abs. rewrite H. destruct (c' x) as [[v|b]|]; try reflexivity. rewrite H. reflexivity. Qed.

Definition inb (x : Z) : Prop := 0 <= x < 2^64.
Lemma store_nb_bound (c : cells) p w : (forall x, c x <> None -> inb x) -> 0 <= p -> p + vk w <= 2^64 -> 1 <= vk w ->
  forall x, store_nb c p w x <> None -> inb x.
Proof.
  intros D Hp Hb Hk x. unfold store_nb, inb.
  destruct (Z.eqb_spec x p); [lia|]. destruct (Z.ltb_spec p x), (Z.ltb_spec x (p + vk w)); cbn [andb]; try (apply D). lia.
Qed.

Lemma cstore_bound e (c : cells) a v :
  Inv c -> (forall x, c x <> None -> inb x) -> 1 <= vk v -> 0 <= a -> a + vk v <= 2^64 ->
  forall x, cstore e c a v x <> None -> inb x.
Proof.
  intros [I1 I2] D Hk Ha Hb. unfold cstore. set (after := a + vk v).
  set (c1 := match c after with
             | Some (CRef b) => match c b with
                                | Some (CVal bv) => store_nb c after (subval e bv (after - b) (b + vk bv - after))
                                | _ => c end
             | _ => c end).
  assert (D1: forall x, c1 x <> None -> inb x).
  { unfold c1. destruct (c after) as [[w|b]|] eqn:Eaf; try exact D.
    destruct (I1 after b Eaf) as (bv & Eb & Hr). rewrite Eb.
    destruct (I2 b bv Eb) as [(Hbk & _) Hfill].
    assert (inb (b + vk bv - 1)).
    { apply D. destruct (Z.eq_dec (b + vk bv - 1) b) as [E1|N1]; [rewrite E1, Eb; discriminate|].
      rewrite (Hfill (b + vk bv - 1)) by lia. discriminate. }
    assert (inb after) by (apply D; rewrite Eaf; discriminate).
    apply store_nb_bound; try assumption; unfold inb in *; rewrite ?vk_subval; lia. }
  set (c2 := match c1 a with
             | Some (CRef b) => match c1 b with
                                | Some (CVal bv) => store_nb c1 b (subval e bv 0 (a - b))
                                | _ => c1 end
             | _ => c1 end).
  assert (D2: forall x, c2 x <> None -> inb x).
  { unfold c2. destruct (c1 a) as [[w|b]|] eqn:Ea; try exact D1.
    destruct (c1 b) as [[bv|b2]|] eqn:Eb; try exact D1.
    assert (inb b) by (apply D1; rewrite Eb; discriminate).
    destruct (Z_le_gt_dec a b) as [Hle|Hgt].
    - (* degenerate (excluded by the invariant, but harmless): an empty or negative range *)
      intros x. unfold store_nb. rewrite vk_subval.
      destruct (Z.eqb_spec x b) as [->|N]; [intros _; assumption|].
      destruct (Z.ltb_spec b x), (Z.ltb_spec x (b + (a - b))); cbn [andb]; try apply D1. lia.
    - apply store_nb_bound; try assumption; unfold inb in *; rewrite ?vk_subval; lia. }
  apply store_nb_bound; try assumption; lia.
Qed.

(* C08, store half at the level of the model: for every memory satisfying the invariant, every
   address and every constant of k >= 1 bytes with a + k <= 2^64, both endiannesses, any page
   crossing: `store` succeeds, the invariant is preserved, backing/endianness/permissions are
   untouched, and the byte array is updated by exactly "write these k bytes" *)
Theorem abs_store_l (m : cmem) a v :
  InvM m -> back_ok (m_back m) -> wfv v -> 0 <= a -> a + vk v <= 2^64 ->
  exists m', Paged.store COps m a v = Ok m' /\ InvM m' /\ frame m m' /\
     forall x, mabs m' x = store_spec (m_end m) (mabs m) a v x.
Proof.
  intros HM Hbk Hv Ha Hb. destruct (store_ok m a v HM Hbk Hv Ha Hb) as (m' & E & F & L).
  pose proof HM as [HI HD]. destruct (store_refines (m_end m) (load_cell m) a v (ob_get8 (m_back m)) HI Hv) as [HI' HA].
  exists m'. split; [exact E|]. split; [|split; [exact F|]].
  - split.
    + apply (Inv_ext (cstore (m_end m) (load_cell m) a v)); [intros x; symmetry; apply L|exact HI'].
    + intros x Hx. rewrite L in Hx. apply (cstore_bound (m_end m) (load_cell m) a v HI HD (proj1 Hv) Ha Hb x Hx).
  - intros x. unfold mabs. destruct F as (F1 & F2 & _). rewrite F1, F2.
    rewrite (abs_ext _ _ _ _ L x), HA. reflexivity.
Qed.

(* ------------------------------------------------------------------ all operation sequences *)
Lemma set_perm_loop_cells fuel : forall (m : cmem) pa off total p m',
  set_perm_loop fuel m pa off total p = Ok m' ->
  (forall x, load_cell m' x = load_cell m x) /\ m_back m' = m_back m /\ m_end m' = m_end m.
Proof.
  induction fuel as [|f IH]; intros m pa off total p m' E; cbn [set_perm_loop] in E.
  - destruct (off <? total); [discriminate|]. injection E as <-. auto.
  - destruct (off <? total); [|injection E as <-; auto].
    apply bind_ok in E as (x & _ & E). apply bind_ok in E as (off' & _ & E).
    destruct (IH _ _ _ _ _ _ E) as (L & B1 & B2). destruct (page_set_back m x p) as [Q1 Q2].
    split; [intros y; rewrite L; apply load_cell_page_set|]. split; congruence.
Qed.
Lemma set_permissions_cells (m : cmem) a len p m' : set_permissions m a len p = Ok m' ->
  (forall x, load_cell m' x = load_cell m x) /\ m_back m' = m_back m /\ m_end m' = m_end m.
Proof. unfold set_permissions. intros E. apply bind_ok in E as (t & _ & E). eapply set_perm_loop_cells, E. Qed.

(* a write reaching beyond 2^64 is rejected (no panic) *)
Lemma store_wrap_err (m : cmem) a v : cbits v mod 8 = 0 -> cbits v <> 0 -> 2^64 < a + vk v ->
  Paged.store COps m a v = Err ECustom.
Proof.
  intros H8 H0 Hw. unfold Paged.store. cbn [v_bits COps].
  destruct (Z.eqb_spec (cbits v mod 8) 0); [|lia]. destruct (Z.eqb_spec (cbits v) 0); [lia|]. cbn [negb orb].
  fold (vk v). unfold USIZE. destruct (Z.ltb_spec (2^64) (a + vk v)); [reflexivity|lia].
Qed.

Inductive mop := MStore (a : Z) (v : const) | MSetPerm (a len : Z) (p : perm).
(* a store the implementation rejects (bad width) leaves the memory as it was *)
Definition apply_op (r : res cmem) (o : mop) : res cmem :=
  m <- r ;;
  match o with
  | MStore a v => match Paged.store COps m a v with Ok m' => Ok m' | Err _ => Ok m | Panic => Panic end
  | MSetPerm a len p => set_permissions m a len p
  end.
Definition run (m0 : cmem) (ops : list mop) : res cmem := fold_left apply_op ops (Ok m0).

(* operations as the Rust API can issue them: u64 addresses, constants trimmed to their width, < 2^63 bits *)
Definition op_ok (o : mop) : Prop :=
  match o with
  | MStore a v => 0 <= a /\ 0 <= cval v < 2^(cbits v) /\ cbits v < 2^63
  | MSetPerm a len p => True
  end.

Definition Good (m : cmem) : Prop := InvM m /\ back_ok (m_back m).

Lemma apply_op_good (m : cmem) o m' : Good m -> op_ok o -> apply_op (Ok m) o = Ok m' -> Good m'.
Proof.
  intros [HM Hbk] Hok E. destruct o as [a v|a len p]; cbn [apply_op bind] in E.
  - destruct Hok as (Ha & Hr & H63).
    destruct (Z.eq_dec (cbits v mod 8) 0) as [E8|N8]; [destruct (Z.eq_dec (cbits v) 0) as [E0|N0]|].
    + rewrite store_bad_width in E by lia. injection E as <-. split; assumption.
    + assert (Hv: wfv v).
      { unfold wfv, vk. assert (0 <= cbits v). { destruct (Z_lt_le_dec (cbits v) 0) as [Hn|]; [|assumption].
          rewrite (Z.pow_neg_r 2 (cbits v)) in Hr by assumption. lia. }
        replace (8 * (cbits v / 8)) with (cbits v) by lia. repeat split; lia. }
      destruct (Z_le_gt_dec (a + vk v) (2^64)) as [Hle|Hgt].
      * destruct (abs_store_l m a v HM Hbk Hv Ha Hle) as (m1 & E1 & HM1 & (F1 & _) & _).
        rewrite E1 in E. injection E as <-. split; [assumption|]. rewrite F1. assumption.
      * rewrite (store_wrap_err m a v) in E by (assumption || lia). injection E as <-. split; assumption.
    + rewrite store_bad_width in E by lia. injection E as <-. split; assumption.
  - destruct (set_permissions_cells m a len p m' E) as (L & B1 & B2). destruct HM as [HI HD]. split.
    + split; [apply (Inv_ext (load_cell m)); [intros x; symmetry; apply L|exact HI]|].
      intros x Hx. rewrite L in Hx. apply HD, Hx.
    + rewrite B1. assumption.
Qed.

Lemma run_good ops : forall m0 m, Good m0 -> Forall op_ok ops -> run m0 ops = Ok m -> Good m.
Proof.
  unfold run. induction ops as [|o ops IH]; intros m0 m G F E; cbn [fold_left] in E.
  - injection E as <-. exact G.
  - inversion F as [|o' ops' Ho Hops]; subst.
    destruct (apply_op (Ok m0) o) as [m1|err|] eqn:E1.
    + apply (IH m1 m); [eapply apply_op_good; eassumption|assumption|assumption].
    + exfalso. clear - E. induction ops as [|o2 ops IH2]; cbn in E; [discriminate|]. apply IH2, E.
    + exfalso. clear - E. induction ops as [|o2 ops IH2]; cbn in E; [discriminate|]. apply IH2, E.
Qed.

Lemma good_new e b : back_ok b -> Good (mnew e b : cmem).
Proof.
  intros Hb. split; [|exact Hb]. split; [split|]; cbn.
  - intros x r E. discriminate.
  - intros r v E. discriminate.
  - intros x Hx. exfalso. apply Hx. reflexivity.
Qed.
