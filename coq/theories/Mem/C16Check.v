(* Mem/C16Check.v -- per-case checker of property C16, evaluated in the kernel by the case files:
   fst = tie (model = observed), snd = oracle (observed satisfies the specification of BackingSpec.v;
   the oracle never calls the model). *)
From Coq Require Import ZArith List Bool NArith String Ascii.
From Falcon Require Import Base.Res IL.Const Mem.Backing Mem.BackingSpec.
Import ListNotations.
Local Open Scope Z_scope.

(* compact observations: Some v | Some (Constant bits v) | None | Panic | Err *)
Inductive ob := V (v : Z) | W (bits v : Z) | U | PA | ER.

Definition ob_eqb (x y : ob) : bool :=
  match x, y with
  | V a, V b => a =? b
  | W a b, W c d => (a =? c) && (b =? d)
  | U, U | PA, PA | ER, ER => true
  | _, _ => false
  end.

Fixpoint list_eqb {A} (e : A -> A -> bool) (x y : list A) : bool :=
  match x, y with
  | [], [] => true
  | a :: s, b :: t => e a b && list_eqb e s t
  | _, _ => false
  end.

(* ---- compact text encoding of the case files (hex strings parse an order of magnitude faster
   than list literals): bytes = 2 hex digits, observations = fixed-width tokens *)
Definition nib_of_ascii (c : ascii) : Z :=
  let n := Z.of_N (N_of_ascii c) in if n <? 58 then n - 48 else n - 87.
Definition ascii_of_nib (n : Z) : ascii := ascii_of_N (Z.to_N (if n <? 10 then n + 48 else n + 87)).

Fixpoint bytes_of_hex (s : string) : list Z :=
  match s with
  | String a (String b t) => (nib_of_ascii a * 16 + nib_of_ascii b) :: bytes_of_hex t
  | _ => []
  end.

(* w hex digits of v, most significant first *)
Fixpoint hex_acc (w : nat) (v : Z) (acc : string) : string :=
  match w with O => acc | S w' => hex_acc w' (v / 16) (String (ascii_of_nib (v mod 16)) acc) end.
Fixpoint rep (w : nat) (c : ascii) : string := match w with O => EmptyString | S w' => String c (rep w' c) end.

(* token of width w for an observation *)
Definition tok (w : nat) (o : ob) : string :=
  match o with
  | V v => hex_acc w v EmptyString
  | W bits v => if Z.of_nat w * 4 =? bits then hex_acc w v EmptyString else rep w "X"%char
  | U => rep w "U"%char
  | PA => rep w "P"%char
  | ER => rep w "E"%char
  end.

Fixpoint take (w : nat) (s : string) : string :=
  match w, s with S w', String c t => String c (take w' t) | _, _ => EmptyString end.
Fixpoint drop (w : nat) (s : string) : string :=
  match w, s with S w', String _ t => drop w' t | _, _ => s end.
(* the tokens of width w (w >= 1) of s *)
Fixpoint tokens_fuel (fuel w : nat) (s : string) : list string :=
  match fuel, s with
  | S f, String _ _ => take w s :: tokens_fuel f w (drop w s)
  | _, _ => []
  end.
Definition tokens (w : nat) (s : string) : list string := tokens_fuel (String.length s) (Nat.max w 1) s.

Inductive op := OWrite (a : Z) (d : list Z) (p : Z) | OSet32 (a v : Z).
Inductive xop := XW (a : Z) (hex : string) (p : Z) | XS (a v : Z).
Definition op_of (x : xop) : op := match x with XW a h p => OWrite a (bytes_of_hex h) p | XS a v => OSet32 a v end.

(* big-endian flag; history; one char per operation ("k" Ok, "e" Err, "p" panic -- the history ends there);
   sections() afterwards as (address, hex data, permissions), None when the history panicked;
   sweep base lo with get8 tokens (2 chars) and permissions tokens (1 char) at lo, lo+1, ...;
   second sweep base lo2 with get32 tokens (8 chars) and get(_, gbits) tokens (gbits/4 chars);
   extra probes (address, bits, token of max(1, bits/4) chars) *)
Inductive case :=
| K (be : bool) (xops : list xop) (ores : string) (layout : option (list (Z * string * Z))) (lo : Z)
    (g8 pm : string) (lo2 : Z) (g32 : string) (gbits : Z) (gs : string) (gx : list (Z * Z * string)).

(* ------------------------------------------------------------------ model side *)

Definition ob_z (r : res (option Z)) : ob :=
  match r with Ok (Some v) => V v | Ok None => U | Err _ => ER | Panic => PA end.
Definition ob_c (r : res (option const)) : ob :=
  match r with Ok (Some c) => W (cbits c) (cval c) | Ok None => U | Err _ => ER | Panic => PA end.

Definition do_op (be : bool) (s : sections Z) (o : op) : res (sections Z) :=
  match o with
  | OWrite a d p => set_memory s a d p
  | OSet32 a v => set32 be s a v
  end.

Fixpoint run (be : bool) (s : sections Z) (ops : list op) : string * option (sections Z) :=
  match ops with
  | [] => (EmptyString, Some s)
  | o :: t =>
      match do_op be s o with
      | Ok s' => let r := run be s' t in (String "k"%char (fst r), snd r)
      | Err _ => let r := run be s t in (String "e"%char (fst r), snd r)
      | Panic => ("p"%string, None)
      end
  end.

Fixpoint sweep (f : Z -> string) (x : Z) (k : nat) : string :=
  match k with O => EmptyString | S k' => (f x ++ sweep f (x + 1) k')%string end.

Definition sec_eqb (x y : Z * section Z) : bool :=
  (fst x =? fst y) && list_eqb Z.eqb (fst (snd x)) (fst (snd y)) && (snd (snd x) =? snd (snd y)).
Definition layout_of (l : list (Z * string * Z)) : sections Z :=
  map (fun q => (fst (fst q), (bytes_of_hex (snd (fst q)), snd q))) l.

Definition wbits (bits : Z) : nat := Nat.max 1 (Z.to_nat (bits / 4)).
Definition ntok (w : nat) (s : string) : nat := Nat.div (String.length s) w.

Definition tie (k : case) : bool :=
  match k with
  | K be xops ores layout lo g8 pm lo2 g32 gbits gs gx =>
      let r := run be [] (map op_of xops) in
      String.eqb (fst r) ores &&
      match snd r, layout with
      | None, None =>
          String.eqb g8 EmptyString && String.eqb pm EmptyString && String.eqb g32 EmptyString && String.eqb gs EmptyString
          && match gx with [] => true | _ => false end
      | Some s, Some l =>
          list_eqb sec_eqb s (layout_of l) &&
          String.eqb (sweep (fun x => tok 2 (ob_z (get8 s x))) lo (ntok 2 g8)) g8 &&
          String.eqb (sweep (fun x => tok 1 (ob_z (permissions s x))) lo (ntok 1 pm)) pm &&
          String.eqb (sweep (fun x => tok 8 (ob_z (get32 be s x))) lo2 (ntok 8 g32)) g32 &&
          String.eqb (sweep (fun x => tok (wbits gbits) (ob_c (get be s x gbits))) lo2 (ntok (wbits gbits) gs)) gs &&
          forallb (fun q => String.eqb (tok (wbits (snd (fst q))) (ob_c (get be s (fst (fst q)) (snd (fst q))))) (snd q)) gx
      | _, _ => false
      end
  end.

(* ------------------------------------------------------------------ specification side *)

Definition smap := amap (Z * nat).        (* byte, (permissions, writer id) *)

(* the four addresses a..a+3 currently show the same region write *)
Definition same_region (m : smap) (a : Z) : bool :=
  match m a, m (a + 1), m (a + 2), m (a + 3) with
  | Some (_, (_, i0)), Some (_, (_, i1)), Some (_, (_, i2)), Some (_, (_, i3)) =>
      Nat.eqb i0 i1 && Nat.eqb i0 i2 && Nat.eqb i0 i3
  | _, _, _, _ => false
  end.

(* regions that wrap the address space (end beyond 2^64) are outside the property's domain;
   a region ending exactly at 2^64 is judged *)
Definition wraps (a : Z) (d : list Z) : bool := negb ((0 <=? a) && (a + Z.of_nat (List.length d) <=? 18446744073709551616)).

Inductive verdict := Bad | Silent | Good (m : smap).

Fixpoint orc_ops (be : bool) (m : smap) (i : nat) (ops : list op) (ores : string) : verdict :=
  match ops, ores with
  | [], EmptyString => Good m
  | OWrite a d p :: t, String r rt =>
      if wraps a d then Silent
      else if Ascii.eqb r "k"%char then orc_ops be (overwrite m a d (p, i)) (S i) t rt
           else Bad                                    (* a region write succeeds *)
  | OSet32 a v :: t, String r rt =>
      if same_region m a then
        if Ascii.eqb r "k"%char then orc_ops be (write32 be m a v) (S i) t rt
        else Bad                                       (* a 32-bit write inside one region succeeds *)
      else
        if Ascii.eqb r "e"%char then orc_ops be m (S i) t rt   (* refused: nothing altered *)
        else Silent                                    (* the property does not say what happens *)
  | _, _ => Bad
  end.

Fixpoint disjoint_from (lo : Z) (l : sections Z) : bool :=
  match l with
  | [] => true
  | (a, (d, _)) :: t => (lo <=? a) && disjoint_from (a + Z.of_nat (List.length d)) t
  end.

Definition exp8 (m : smap) (x : Z) : ob := match read8 m x with Some b => V b | None => U end.
Definition expp (m : smap) (x : Z) : ob := match tag_at m x with Some (p, _) => V p | None => U end.

Fixpoint sweep_ok (f : Z -> string -> bool) (x : Z) (l : list string) : bool :=
  match l with [] => true | o :: t => f x o && sweep_ok f (x + 1) t end.

Definition ok32 (be : bool) (m : smap) (x : Z) (o : string) : bool :=
  if same_region m x then match read32 be m x with Some v => String.eqb o (tok 8 (V v)) | None => false end
  else true.
Definition okget (be : bool) (m : smap) (x bits : Z) (o : string) : bool :=
  if (bits mod 8 =? 0) && (0 <? bits) then
    String.eqb o (tok (wbits bits) (match read be m x bits with Some c => W (cbits c) (cval c) | None => U end))
  else true.

Definition oracle (k : case) : bool :=
  match k with
  | K be xops ores layout lo g8 pm lo2 g32 gbits gs gx =>
      match orc_ops be empty_map O (map op_of xops) ores with
      | Bad => false
      | Silent => true
      | Good m =>
          match layout with
          | None => false
          | Some l =>
              disjoint_from 0 (layout_of l) &&
              sweep_ok (fun x o => String.eqb o (tok 2 (exp8 m x))) lo (tokens 2 g8) &&
              sweep_ok (fun x o => String.eqb o (tok 1 (expp m x))) lo (tokens 1 pm) &&
              sweep_ok (ok32 be m) lo2 (tokens 8 g32) &&
              sweep_ok (fun x o => okget be m x gbits o) lo2 (tokens (wbits gbits) gs) &&
              forallb (fun q => okget be m (fst (fst q)) (snd (fst q)) (snd q)) gx
          end
      end
  end.

Definition ck (k : case) : bool * bool := (tie k, oracle k).
