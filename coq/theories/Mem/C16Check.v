(* Mem/C16Check.v -- per-case checker of property C16, evaluated in the kernel by the case files:
   fst = tie (model = observed), snd = oracle (observed satisfies the specification of BackingSpec.v;
   the oracle never calls the model). *)
From Coq Require Import ZArith List Bool NArith.
From Falcon Require Import Base.Res IL.Const Mem.Backing Mem.BackingSpec.
Import ListNotations.
Local Open Scope Z_scope.

(* compact observations: Some v | Some (Constant bits v) | None | Panic | Err *)
Inductive ob := V (v : Z) | W (bits v : Z) | U | PA | ER.

Definition ob_eqb (x y : ob) : bool :=
  match x, y with
  | V a, V b => a =? b
  | W a b, W c d => (a =? c) && (b =? d)
  | U, U | PA, PA | ER, ER => true
  | _, _ => false
  end.

Fixpoint list_eqb {A} (e : A -> A -> bool) (x y : list A) : bool :=
  match x, y with
  | [], [] => true
  | a :: s, b :: t => e a b && list_eqb e s t
  | _, _ => false
  end.

Inductive op := OWrite (a : Z) (d : list Z) (p : Z) | OSet32 (a v : Z).

(* be, history, result of each operation (history ends at the first panic), sections() afterwards
   (None when the history panicked), sweep base, observed get8 / permissions / get32 / get(_, gbits) at
   lo, lo+1, ..., and extra (address, bits, get result) probes *)
Inductive case :=
| K (be : bool) (ops : list op) (ores : list ob) (layout : option (sections Z)) (lo : Z)
    (g8 pm g32 : list ob) (gbits : Z) (gs : list ob) (gx : list (Z * Z * ob)).

(* ------------------------------------------------------------------ model side *)

Definition ob_z (r : res (option Z)) : ob :=
  match r with Ok (Some v) => V v | Ok None => U | Err _ => ER | Panic => PA end.
Definition ob_c (r : res (option const)) : ob :=
  match r with Ok (Some c) => W (cbits c) (cval c) | Ok None => U | Err _ => ER | Panic => PA end.

Definition do_op (be : bool) (s : sections Z) (o : op) : res (sections Z) :=
  match o with
  | OWrite a d p => set_memory s a d p
  | OSet32 a v => set32 be s a v
  end.

Fixpoint run (be : bool) (s : sections Z) (ops : list op) : list ob * option (sections Z) :=
  match ops with
  | [] => ([], Some s)
  | o :: t =>
      match do_op be s o with
      | Ok s' => let r := run be s' t in (V 0 :: fst r, snd r)
      | Err _ => let r := run be s t in (ER :: fst r, snd r)
      | Panic => ([PA], None)
      end
  end.

Fixpoint sweep (f : Z -> ob) (x : Z) (k : nat) : list ob :=
  match k with O => [] | S k' => f x :: sweep f (x + 1) k' end.

Definition sec_eqb (x y : Z * section Z) : bool :=
  (fst x =? fst y) && list_eqb Z.eqb (fst (snd x)) (fst (snd y)) && (snd (snd x) =? snd (snd y)).

Definition tie (k : case) : bool :=
  match k with
  | K be ops ores layout lo g8 pm g32 gbits gs gx =>
      let r := run be [] ops in
      list_eqb ob_eqb (fst r) ores &&
      match snd r, layout with
      | None, None => match g8, pm, g32, gs, gx with [], [], [], [], [] => true | _, _, _, _, _ => false end
      | Some s, Some l =>
          list_eqb sec_eqb s l &&
          list_eqb ob_eqb (sweep (fun x => ob_z (get8 s x)) lo (length g8)) g8 &&
          list_eqb ob_eqb (sweep (fun x => ob_z (permissions s x)) lo (length pm)) pm &&
          list_eqb ob_eqb (sweep (fun x => ob_z (get32 be s x)) lo (length g32)) g32 &&
          list_eqb ob_eqb (sweep (fun x => ob_c (get be s x gbits)) lo (length gs)) gs &&
          forallb (fun q => ob_eqb (ob_c (get be s (fst (fst q)) (snd (fst q)))) (snd q)) gx
      | _, _ => false
      end
  end.

(* ------------------------------------------------------------------ specification side *)

Definition smap := amap (Z * nat).        (* byte, (permissions, writer id) *)

(* the four addresses a..a+3 currently show the same region write *)
Definition same_region (m : smap) (a : Z) : bool :=
  match m a, m (a + 1), m (a + 2), m (a + 3) with
  | Some (_, (_, i0)), Some (_, (_, i1)), Some (_, (_, i2)), Some (_, (_, i3)) =>
      Nat.eqb i0 i1 && Nat.eqb i0 i2 && Nat.eqb i0 i3
  | _, _, _, _ => false
  end.

(* regions whose exclusive end is not a u64 are outside the property's domain *)
Definition wraps (a : Z) (d : list Z) : bool := negb ((0 <=? a) && (a + Z.of_nat (length d) <? 18446744073709551616)).

Inductive verdict := Bad | Silent | Good (m : smap).

Fixpoint orc_ops (be : bool) (m : smap) (i : nat) (ops : list op) (ores : list ob) : verdict :=
  match ops, ores with
  | [], [] => Good m
  | OWrite a d p :: t, r :: rt =>
      if wraps a d then Silent
      else match r with
           | V 0 => orc_ops be (overwrite m a d (p, i)) (S i) t rt
           | _ => Bad                                  (* a region write succeeds *)
           end
  | OSet32 a v :: t, r :: rt =>
      if same_region m a then
        match r with
        | V 0 => orc_ops be (write32 be m a v) (S i) t rt
        | _ => Bad                                     (* a 32-bit write inside one region succeeds *)
        end
      else
        match r with
        | ER => orc_ops be m (S i) t rt                (* refused: nothing altered *)
        | _ => Silent                                  (* the property does not say what happens *)
        end
  | _, _ => Bad
  end.

Fixpoint disjoint_from (lo : Z) (l : sections Z) : bool :=
  match l with
  | [] => true
  | (a, (d, _)) :: t => (lo <=? a) && disjoint_from (a + Z.of_nat (length d)) t
  end.

Definition exp8 (m : smap) (x : Z) : ob := match read8 m x with Some b => V b | None => U end.
Definition expp (m : smap) (x : Z) : ob := match tag_at m x with Some (p, _) => V p | None => U end.
Definition ok32 (be : bool) (m : smap) (x : Z) (o : ob) : bool :=
  if same_region m x then match read32 be m x with Some v => ob_eqb o (V v) | None => false end
  else true.
Definition okget (be : bool) (m : smap) (x bits : Z) (o : ob) : bool :=
  if (bits mod 8 =? 0) && (0 <? bits) then
    ob_eqb o (match read be m x bits with Some c => W (cbits c) (cval c) | None => U end)
  else true.

Fixpoint sweep_ok (f : Z -> ob -> bool) (x : Z) (l : list ob) : bool :=
  match l with [] => true | o :: t => f x o && sweep_ok f (x + 1) t end.

Definition oracle (k : case) : bool :=
  match k with
  | K be ops ores layout lo g8 pm g32 gbits gs gx =>
      match orc_ops be empty_map O ops ores with
      | Bad => false
      | Silent => true
      | Good m =>
          match layout with
          | None => false
          | Some l =>
              disjoint_from 0 l &&
              sweep_ok (fun x o => ob_eqb o (exp8 m x)) lo g8 &&
              sweep_ok (fun x o => ob_eqb o (expp m x)) lo pm &&
              sweep_ok (ok32 be m) lo g32 &&
              sweep_ok (fun x o => okget be m x gbits o) lo gs &&
              forallb (fun q => okget be m (fst (fst q)) (snd (fst q)) (snd q)) gx
          end
      end
  end.

Definition ck (k : case) : bool * bool := (tie k, oracle k).
