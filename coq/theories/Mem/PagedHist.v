(* Mem/PagedHist.v -- the property over whole histories: after ANY sequence of stores (any byte
   width >= 1, any overlap, any page crossing) and set_permissions calls on a fresh memory, the
   byte array the memory denotes is "the last store covering the address, else the backing's
   byte" (PagedSpec.byte_at over the log of accepted stores), and every load returns the
   specified assembly of those bytes.  Proofs only. *)
From Coq Require Import ZArith List Bool Lia ZifyBool.
From Falcon Require Import Base.Res IL.Const Mem.PagedTypes Mem.Paged Mem.PagedSpec Mem.PagedCells
     Mem.PagedProofs Mem.PagedLoad Mem.PagedStore.
Import ListNotations.
Local Open Scope Z_scope.
Ltac Zify.zify_post_hook ::= Z.div_mod_to_equations.

(* widths `store` accepts *)
Definition okw (v : const) : bool := (cbits v mod 8 =? 0) && negb (cbits v =? 0).
(* the log of accepted stores, newest first *)
Definition log_step (log : list sstore) (o : mop) : list sstore :=
  match o with
  | MStore a v => if okw v then mkss a v :: log else log
  | MSetPerm _ _ _ => log
  end.
Definition slog (ops : list mop) (log0 : list sstore) : list sstore := fold_left log_step ops log0.

(* memory m denotes the byte array of `log` over backing b, in endianness e *)
Definition denotes (e : endian) (b : option backing) (log : list sstore) (m : cmem) : Prop :=
  Good m /\ m_end m = e /\ m_back m = b /\ forall x, mabs m x = byte_at e b log x.

Lemma wfv_of_ok v : okw v = true -> 0 <= cval v < 2^(cbits v) -> cbits v < 2^63 -> wfv v.
Proof.
  unfold okw. intros H Hr H63. apply andb_true_iff in H as [H8 H0].
  apply Z.eqb_eq in H8. apply negb_true_iff, Z.eqb_neq in H0.
  assert (0 <= cbits v). { destruct (Z_lt_le_dec (cbits v) 0) as [Hn|]; [|assumption].
    rewrite (Z.pow_neg_r 2 (cbits v)) in Hr by assumption. lia. }
  unfold wfv, vk. replace (8 * (cbits v / 8)) with (cbits v) by lia. repeat split; lia.
Qed.

Lemma step_denotes e b log (m : cmem) o m' :
  denotes e b log m -> op_ok o -> apply_op (Ok m) o = Ok m' -> denotes e b (log_step log o) m'.
Proof.
  intros (G & Ee & Eb & HA) Hok E. pose proof G as [HM Hbk].
  destruct o as [a v|a len p]; cbn [apply_op bind log_step] in *.
  - destruct Hok as (Ha & Hr & H63). destruct (okw v) eqn:W.
    + pose proof (wfv_of_ok v W Hr H63) as Hv.
      destruct (Z_lt_le_dec (a + vk v) (2^64)) as [Hlt|Hge].
      * destruct (abs_store_l m a v HM Hbk Hv Ha Hlt) as (m1 & E1 & HM1 & (F1 & F2 & F3) & A1).
        rewrite E1 in E. injection E as <-.
        split; [split|]. { exact HM1. } { rewrite F1. exact Hbk. }
        split; [congruence|]. split; [congruence|].
        intros x. rewrite A1. unfold store_spec, write. cbn [byte_at covers ss_a ss_c]. rewrite Ee, HA. reflexivity.
      * exfalso. unfold okw in W. apply andb_true_iff in W as [W8 W0]. apply negb_true_iff in W0.
        unfold Paged.store in E. cbn [v_bits COps] in E. rewrite W8, W0 in E. cbn [negb orb] in E.
        unfold uadd in E. fold (vk v) in E. unfold USIZE in E.
        destruct (Z.ltb_spec (a + vk v) (2^64)); [lia|]. cbn [bind] in E. discriminate.
    + assert (Hbad: cbits v mod 8 <> 0 \/ cbits v = 0).
      { unfold okw in W. apply andb_false_iff in W as [W|W]; [left; apply Z.eqb_neq, W|right].
        apply negb_false_iff, Z.eqb_eq in W. exact W. }
      rewrite store_bad_width in E by exact Hbad. injection E as <-. repeat split; assumption.
  - destruct (set_permissions_cells m a len p m' E) as (L & B1 & B2).
    assert (G': Good m') by (eapply (apply_op_good m (MSetPerm a len p)); [exact G|exact I|exact E]).
    split; [exact G'|]. split; [congruence|]. split; [congruence|].
    intros x. rewrite <- HA. unfold mabs. rewrite B1, B2. apply abs_ext. exact L.
Qed.

Lemma run_denotes e b ops : forall log (m0 m : cmem),
  denotes e b log m0 -> Forall op_ok ops -> run m0 ops = Ok m -> denotes e b (slog ops log) m.
Proof.
  unfold run, slog. induction ops as [|o ops IH]; intros log m0 m D F E; cbn [fold_left] in *.
  - injection E as <-. exact D.
  - inversion F as [|o' ops' Ho Hops]; subst.
    destruct (apply_op (Ok m0) o) as [m1|err|] eqn:E1.
    + apply (IH (log_step log o) m1 m); [eapply step_denotes; eassumption|assumption|assumption].
    + exfalso. clear - E. induction ops as [|o2 ops IH2]; cbn in E; [discriminate|]. apply IH2, E.
    + exfalso. clear - E. induction ops as [|o2 ops IH2]; cbn in E; [discriminate|]. apply IH2, E.
Qed.

(* C08 over histories: any operation list issued through the API on a fresh memory that runs without
   panicking leaves a memory whose every load (n >= 1 bytes, range inside the address space) returns
   the n bytes "most recently stored at each address, falling back to the backing's bytes",
   assembled in the memory's endianness, and None iff some byte was never stored nor backed *)
Theorem history_loads_l e b ops (m : cmem) :
  back_ok b -> Forall op_ok ops -> run (mnew e b) ops = Ok m ->
  forall a n, 1 <= n -> 8 * n < 2^63 -> 0 <= a -> a + n <= 2^64 ->
  load COps m a (8 * n) = Ok (load_spec e (byte_at e b (slog ops [])) a n).
Proof.
  intros Hb F E a n Hn H63 Ha Han.
  assert (D0: denotes e b [] (mnew e b : cmem)).
  { split; [apply good_new, Hb|]. split; [reflexivity|]. split; [reflexivity|]. intros x. reflexivity. }
  destruct (run_denotes e b ops [] (mnew e b) m D0 F E) as ([HM Hbk] & Ee & Eb & HA).
  rewrite abs_load_l by assumption. rewrite Ee. f_equal. unfold load_spec.
  assert (G: forall c a0, gather (mabs m) a0 c = gather (byte_at e b (slog ops [])) a0 c).
  { induction c as [|c IH]; intros a0; cbn [gather]; [reflexivity|]. rewrite HA, IH. reflexivity. }
  rewrite G. reflexivity.
Qed.
