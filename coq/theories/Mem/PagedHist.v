(* Mem/PagedHist.v -- the property over whole histories: after ANY sequence of stores (any byte
   width >= 1, any overlap, any page crossing) and set_permissions calls on a fresh memory, the
   byte array the memory denotes is "the last store covering the address, else the backing's
   byte" (PagedSpec.byte_at over the log of accepted stores), and every load returns the
   specified assembly of those bytes.  Proofs only. *)
From Coq Require Import ZArith List Bool Lia ZifyBool.
From Falcon Require Import Base.Res IL.Const Mem.PagedTypes Mem.Paged Mem.PagedSpec Mem.PagedCells
     Mem.PagedProofs Mem.PagedLoad Mem.PagedStore.
Import ListNotations.
Local Open Scope Z_scope.
Ltac Zify.zify_post_hook ::= Z.div_mod_to_equations.

(* widths `store` accepts *)
Definition okw (v : const) : bool := (cbits v mod 8 =? 0) && negb (cbits v =? 0).
(* stores `store` accepts: a good width and a range that ends at 2^64 at the latest *)
Definition oks (a : Z) (v : const) : bool := okw v && (a + vk v <=? 2^64).
(* the log of accepted stores, newest first *)
Definition log_step (log : list sstore) (o : mop) : list sstore :=
  match o with
  | MStore a v => if oks a v then mkss a v :: log else log
  | MSetPerm _ _ _ => log
  end.
Definition slog (ops : list mop) (log0 : list sstore) : list sstore := fold_left log_step ops log0.

(* memory m denotes the byte array of `log` over backing b, in endianness e *)
Definition denotes (e : endian) (b : option backing) (log : list sstore) (m : cmem) : Prop :=
  Good m /\ m_end m = e /\ m_back m = b /\ forall x, mabs m x = byte_at e b log x.

Lemma wfv_of_ok v : okw v = true -> 0 <= cval v < 2^(cbits v) -> cbits v < 2^63 -> wfv v.
Proof.
  unfold okw. intros H Hr H63. apply andb_true_iff in H as [H8 H0].
  apply Z.eqb_eq in H8. apply negb_true_iff, Z.eqb_neq in H0.
  assert (0 <= cbits v). { destruct (Z_lt_le_dec (cbits v) 0) as [Hn|]; [|assumption].
    rewrite (Z.pow_neg_r 2 (cbits v)) in Hr by assumption. lia. }
  unfold wfv, vk. replace (8 * (cbits v / 8)) with (cbits v) by lia. repeat split; lia.
Qed.

Lemma step_denotes e b log (m : cmem) o m' :
  denotes e b log m -> op_ok o -> apply_op (Ok m) o = Ok m' -> denotes e b (log_step log o) m'.
Proof.
  intros (G & Ee & Eb & HA) Hok E. pose proof G as [HM Hbk].
  destruct o as [a v|a len p]; cbn [apply_op bind log_step] in *.
  - destruct Hok as (Ha & Hr & H63). unfold oks. destruct (okw v) eqn:W; cbn [andb].
    + pose proof (wfv_of_ok v W Hr H63) as Hv.
      destruct (Z.leb_spec (a + vk v) (2^64)) as [Hle|Hgt].
      * destruct (abs_store_l m a v HM Hbk Hv Ha Hle) as (m1 & E1 & HM1 & (F1 & F2 & F3) & A1).
        rewrite E1 in E. injection E as <-.
        split; [split|]. { exact HM1. } { rewrite F1. exact Hbk. }
        split; [congruence|]. split; [congruence|].
        intros x. rewrite A1. unfold store_spec, write. cbn [byte_at covers ss_a ss_c]. rewrite Ee, HA. reflexivity.
      * unfold okw in W. apply andb_true_iff in W as [W8 W0]. apply negb_true_iff in W0.
        apply Z.eqb_eq in W8. apply Z.eqb_neq in W0.
        rewrite (store_wrap_err m a v W8 W0 Hgt) in E. injection E as <-. exact (conj G (conj Ee (conj Eb HA))).
    + assert (Hbad: cbits v mod 8 <> 0 \/ cbits v = 0).
      { unfold okw in W. apply andb_false_iff in W as [W|W]; [left; apply Z.eqb_neq, W|right].
        apply negb_false_iff, Z.eqb_eq in W. exact W. }
      rewrite store_bad_width in E by exact Hbad. injection E as <-. exact (conj G (conj Ee (conj Eb HA))).
  - destruct (set_permissions_cells m a len p m' E) as (L & B1 & B2).
    assert (G': Good m') by (eapply (apply_op_good m (MSetPerm a len p)); [exact G|exact I|exact E]).
    split; [exact G'|]. split; [congruence|]. split; [congruence|].
    intros x. rewrite <- HA. unfold mabs. rewrite B1, B2. apply abs_ext. exact L.
Qed.

Lemma run_denotes e b ops : forall log (m0 m : cmem),
  denotes e b log m0 -> Forall op_ok ops -> run m0 ops = Ok m -> denotes e b (slog ops log) m.
Proof.
  unfold run, slog. induction ops as [|o ops IH]; intros log m0 m D F E; cbn [fold_left] in *.
  - injection E as <-. exact D.
  - inversion F as [|o' ops' Ho Hops]; subst.
    destruct (apply_op (Ok m0) o) as [m1|err|] eqn:E1.
    + apply (IH (log_step log o) m1 m); [eapply step_denotes; eassumption|assumption|assumption].
    + exfalso. clear - E. induction ops as [|o2 ops IH2]; cbn in E; [discriminate|]. apply IH2, E.
    + exfalso. clear - E. induction ops as [|o2 ops IH2]; cbn in E; [discriminate|]. apply IH2, E.
Qed.

(* C08 over histories: any operation list issued through the API on a fresh memory that runs without
   panicking leaves a memory whose every load (n >= 1 bytes, range inside the address space) returns
   the n bytes "most recently stored at each address, falling back to the backing's bytes",
   assembled in the memory's endianness, and None iff some byte was never stored nor backed *)
Theorem history_loads_l e b ops (m : cmem) :
  back_ok b -> Forall op_ok ops -> run (mnew e b) ops = Ok m ->
  forall a n, 1 <= n -> 8 * n < 2^63 -> 0 <= a -> a + n <= 2^64 ->
  load COps m a (8 * n) = Ok (load_spec e (byte_at e b (slog ops [])) a n).
Proof.
  intros Hb F E a n Hn H63 Ha Han.
  assert (D0: denotes e b [] (mnew e b : cmem)).
  { split; [apply good_new, Hb|]. split; [reflexivity|]. split; [reflexivity|]. intros x. reflexivity. }
  destruct (run_denotes e b ops [] (mnew e b) m D0 F E) as ([HM Hbk] & Ee & Eb & HA).
  rewrite abs_load_l by assumption. rewrite Ee. f_equal. unfold load_spec.
  assert (G: forall c a0, gather (mabs m) a0 c = gather (byte_at e b (slog ops [])) a0 c).
  { induction c as [|c IH]; intros a0; cbn [gather]; [reflexivity|]. rewrite HA, IH. reflexivity. }
  rewrite G. reflexivity.
Qed.

(* ------------------------------------------------------------------ permissions over histories *)
Definition plog_step (pl : list sperm) (o : mop) : list sperm :=
  match o with MSetPerm a len p => mksp a len p :: pl | MStore _ _ => pl end.
Definition splog (ops : list mop) (pl0 : list sperm) : list sperm := fold_left plog_step ops pl0.

(* set_permissions ranges the theorems speak about: inside the address space, shorter than 2^63 *)
Definition op_ok_p (o : mop) : Prop :=
  match o with
  | MSetPerm a len p => 0 <= a /\ 0 <= len < 2^63 /\ a + len <= 2^64
  | MStore _ _ => True
  end.

Definition pdenotes (b : option backing) (pl : list sperm) (m : cmem) : Prop :=
  m_back m = b /\ forall x, 0 <= x -> match perm_at b pl x with Some r => permissions m x = r | None => True end.

Lemma pstep_denotes b pl (m : cmem) o m' :
  pdenotes b pl m -> op_ok_p o -> apply_op (Ok m) o = Ok m' -> pdenotes b (plog_step pl o) m'.
Proof.
  intros (Eb & HP) Hok E. destruct o as [a v|a len p]; cbn [apply_op bind plog_step] in *.
  - destruct (Paged.store COps m a v) as [m1|err|] eqn:E1; try discriminate; injection E as <-.
    + destruct (store_frame m a v m1 E1) as (F1 & _). split; [congruence|].
      intros x Hx. specialize (HP x Hx). destruct (perm_at b pl x); [|exact I].
      rewrite (store_keeps_perms_l m a v m1 E1). exact HP.
    + split; assumption.
  - destruct Hok as (Ha & Hl & Hb).
    destruct (set_permissions_spec m a len p Ha Hl Hb) as (m1 & E1 & B1 & _ & _ & PP).
    rewrite E in E1. injection E1 as <-. split; [congruence|].
    intros x Hx. cbn [perm_at]. unfold touches. cbn [sp_a sp_len sp_p].
    rewrite permissions_pperm, PP, B1. unfold pg, page_addr, PAGE_SIZE in *.
    destruct (Z.eqb_spec len 0) as [L0|L0].
    + destruct (Z.eqb_spec (x / 1024) (a / 1024)); [exact I|].
      destruct (Z.leb_spec (a - a mod 1024) (x - x mod 1024)), (Z.ltb_spec (x - x mod 1024) (a + len)); cbn [andb]; try lia;
        (specialize (HP x Hx); destruct (perm_at b pl x); [|exact I]; rewrite <- HP, permissions_pperm; unfold page_addr, PAGE_SIZE; reflexivity).
    + destruct (Z.leb_spec (a / 1024) (x / 1024)), (Z.leb_spec (x / 1024) ((a + len - 1) / 1024)); cbn [andb];
      destruct (Z.leb_spec (a - a mod 1024) (x - x mod 1024)), (Z.ltb_spec (x - x mod 1024) (a + len)); cbn [andb]; try lia; try reflexivity;
        (specialize (HP x Hx); destruct (perm_at b pl x); [|exact I]; rewrite <- HP, permissions_pperm; unfold page_addr, PAGE_SIZE; reflexivity).
Qed.

(* permissions after any history: the most recent set_permissions whose range touches the page of x
   (page-granular by design), else the backing's; stores never matter.  `perm_at` answers None only
   for a page named by an empty range (len = 0), where the property promises nothing. *)
Theorem history_perms_l e b ops (m : cmem) :
  Forall op_ok_p ops -> run (mnew e b) ops = Ok m ->
  forall x, 0 <= x -> match perm_at b (splog ops []) x with Some r => permissions m x = r | None => True end.
Proof.
  intros F E.
  assert (D0: pdenotes b [] (mnew e b : cmem)).
  { split; [reflexivity|]. intros x Hx. cbn [perm_at]. reflexivity. }
  assert (H: forall ops pl (m0 m : cmem), pdenotes b pl m0 -> Forall op_ok_p ops -> run m0 ops = Ok m ->
             pdenotes b (splog ops pl) m).
  { unfold run, splog. clear. induction ops as [|o ops IH]; intros pl m0 m D F E; cbn [fold_left] in *.
    - injection E as <-. exact D.
    - inversion F as [|o' ops' Ho Hops]; subst.
      destruct (apply_op (Ok m0) o) as [m1|err|] eqn:E1.
      + apply (IH (plog_step pl o) m1 m); [eapply pstep_denotes; eassumption|assumption|assumption].
      + exfalso. clear - E. induction ops as [|o2 ops IH2]; cbn in E; [discriminate|]. apply IH2, E.
      + exfalso. clear - E. induction ops as [|o2 ops IH2]; cbn in E; [discriminate|]. apply IH2, E. }
  exact (proj2 (H ops [] (mnew e b) m D0 F E)).
Qed.

(* the repaired behaviour at the top of the address space, as witnesses: a store that ends exactly
   at 2^64 succeeds and is read back; one byte more is an error, not a panic *)
Example store_at_top_ok :
  (m <- Paged.store COps (mnew LE None) (2^64 - 4) (mkc 32 287454020) ;; load COps m (2^64 - 2) 16)
  = Ok (Some (mkc 16 4386)).
Proof. vm_compute. reflexivity. Qed.
Example store_past_top_err : Paged.store COps (mnew LE None) (2^64 - 3) (mkc 32 1) = Err ECustom.
Proof. vm_compute. reflexivity. Qed.
