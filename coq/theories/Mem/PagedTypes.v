(* Mem/PagedTypes.v -- the vocabulary shared by the model (Paged.v) and the specification
   (PagedSpec.v) of lib/memory/paged.rs: endianness, permissions, unsigned 64-bit arithmetic
   of a debug build, and the *stand-in* for lib/memory/backing.rs.

   The backing memory is property C16's subject (Mem/Backing*.v, other owner).  C08 needs only
   `get8` and `permissions` of it, so a backing is given here by the list of its sections
   exactly as `backing::Memory::sections()` iterates them (ascending, unique keys), with
   `section_address` = greatest key <= address followed by the range test.  Sections are
   assumed (and generated) not to reach 2^64, so `section_address + len` never overflows. *)
From Coq Require Import ZArith List Bool.
From Falcon Require Import Base.Res IL.Const.
Import ListNotations.
Local Open Scope Z_scope.

Inductive endian := LE | BE.
Definition endian_eqb (a b : endian) : bool :=
  match a, b with LE, LE | BE, BE => true | _, _ => false end.
Lemma endian_eqb_eq a b : endian_eqb a b = true <-> a = b.
Proof. destruct a, b; cbn; split; congruence. Qed.

(* MemoryPermissions bitflags: READ 1, WRITE 2, EXECUTE 4 *)
Definition perm := Z.

Definition section := (Z * (list Z * perm))%type.
Record backing := mkback { b_end : endian; b_secs : list section }.

Fixpoint sec_floor (l : list section) (a : Z) (best : option section) : option section :=
  match l with
  | [] => best
  | (k, s) :: t =>
      if (k <=? a) && (match best with Some (k', _) => k' <? k | None => true end)
      then sec_floor t a (Some (k, s)) else sec_floor t a best
  end.

(* backing::Memory::section_address *)
Definition b_section (b : backing) (a : Z) : option section :=
  match sec_floor (b_secs b) a None with
  | Some (k, (d, p)) => if (k <=? a) && (a <? k + Zlength d) then Some (k, (d, p)) else None
  | None => None
  end.
(* backing::Memory::get8 *)
Definition b_get8 (b : backing) (a : Z) : option Z :=
  match b_section b a with
  | Some (k, (d, _)) => nth_error d (Z.to_nat (a - k))
  | None => None
  end.
(* backing::Memory::permissions *)
Definition b_perm (b : backing) (a : Z) : option perm :=
  match b_section b a with Some (_, (_, p)) => Some p | None => None end.

Definition ob_get8 (b : option backing) (a : Z) : option Z :=
  match b with Some b => b_get8 b a | None => None end.
Definition ob_perm (b : option backing) (a : Z) : option perm :=
  match b with Some b => b_perm b a | None => None end.

(* every byte the backing hands out is a u8 *)
Definition back_ok (b : option backing) : Prop := forall x y, ob_get8 b x = Some y -> 0 <= y < 256.

Fixpoint list_eqb {A} (eqb : A -> A -> bool) (l1 l2 : list A) : bool :=
  match l1, l2 with
  | [], [] => true
  | x :: t, y :: u => eqb x y && list_eqb eqb t u
  | _, _ => false
  end.
Lemma list_eqb_eq {A} (eqb : A -> A -> bool) :
  (forall a b, eqb a b = true <-> a = b) -> forall l1 l2, list_eqb eqb l1 l2 = true <-> l1 = l2.
Proof.
  intros H l1. induction l1 as [|x t IH]; intros [|y u]; cbn; try (split; congruence).
  rewrite andb_true_iff, H, IH. split; [intros [-> ->]; reflexivity|intros E; injection E; auto].
Qed.

Definition section_eqb (s1 s2 : section) : bool :=
  (fst s1 =? fst s2) && list_eqb Z.eqb (fst (snd s1)) (fst (snd s2)) && (snd (snd s1) =? snd (snd s2)).
Lemma section_eqb_eq s1 s2 : section_eqb s1 s2 = true <-> s1 = s2.
Proof.
  destruct s1 as [k1 [d1 p1]], s2 as [k2 [d2 p2]]. unfold section_eqb; cbn.
  rewrite !andb_true_iff, !Z.eqb_eq, (list_eqb_eq Z.eqb Z.eqb_eq).
  split; [intros [[-> ->] ->]; reflexivity|intros E; injection E; auto].
Qed.
(* derived PartialEq of backing::Memory: endian, then the BTreeMap of sections *)
Definition backing_eqb (a b : backing) : bool :=
  endian_eqb (b_end a) (b_end b) && list_eqb section_eqb (b_secs a) (b_secs b).
Lemma backing_eqb_eq a b : backing_eqb a b = true <-> a = b.
Proof.
  destruct a as [e1 s1], b as [e2 s2]. unfold backing_eqb; cbn.
  rewrite andb_true_iff, endian_eqb_eq, (list_eqb_eq section_eqb section_eqb_eq).
  split; [intros [-> ->]; reflexivity|intros E; injection E; auto].
Qed.

(* u64 / usize arithmetic of a build with overflow checks (the harness profile) *)
Definition uadd (a b : Z) : res Z := if a + b <? USIZE then Ok (a + b) else Panic.
Definition umul (a b : Z) : res Z := if a * b <? USIZE then Ok (a * b) else Panic.

Definition PAGE_SIZE : Z := 1024.
(* address & PAGE_MASK  and  address & (PAGE_SIZE - 1), for 0 <= address < 2^64 *)
Definition page_addr (a : Z) : Z := a - a mod PAGE_SIZE.
Definition page_off (a : Z) : Z := a mod PAGE_SIZE.

Definition optZ_eqb (a b : option Z) : bool :=
  match a, b with Some x, Some y => x =? y | None, None => true | _, _ => false end.
Lemma optZ_eqb_eq a b : optZ_eqb a b = true <-> a = b.
Proof. destruct a, b; cbn; rewrite ?Z.eqb_eq; split; congruence. Qed.
