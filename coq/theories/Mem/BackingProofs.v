(* Mem/BackingProofs.v -- the model of Mem/Backing.v refines the specification of Mem/BackingSpec.v.
   Representation invariant [wf]: keys strictly increasing, every section non-empty, consecutive
   sections do not overlap, every exclusive end is a u64.  Abstraction [abs]: sections -> amap. *)
From Coq Require Import ZArith List Bool Lia.
From Falcon Require Import Base.Res IL.Const Mem.Backing Mem.BackingSpec.
Import ListNotations.
Local Open Scope Z_scope.

(* ------------------------------------------------------------------ lists *)
Lemma len_nonneg {A} (l : list A) : 0 <= len l.
Proof. unfold len; lia. Qed.

Lemma len_nil_inv {A} (l : list A) : len l = 0 -> l = [].
Proof. destruct l; cbn; [reflexivity|unfold len; cbn; lia]. Qed.

Lemma len_cons {A} (a : A) l : len (a :: l) = 1 + len l.
Proof. unfold len; cbn [length]; lia. Qed.

Lemma len_app {A} (l m : list A) : len (l ++ m) = len l + len m.
Proof. unfold len; rewrite app_length; lia. Qed.

Lemma len_firstn_z {A} k (l : list A) : 0 <= k <= len l -> len (firstn_z k l) = k.
Proof. unfold len, firstn_z; intros H. rewrite firstn_length. lia. Qed.

Lemma len_skipn_z {A} k (l : list A) : 0 <= k <= len l -> len (skipn_z k l) = len l - k.
Proof. unfold len, skipn_z; intros H. rewrite skipn_length. lia. Qed.

Lemma nth_error_firstn' {A} : forall n i (l : list A),
  nth_error (firstn n l) i = if (i <? n)%nat then nth_error l i else None.
Proof.
  induction n as [|n IH]; intros i l.
  - cbn. destruct i; reflexivity.
  - destruct l as [|a l]; cbn [firstn].
    + destruct i; cbn [nth_error]; match goal with |- context [if ?c then _ else _] => destruct c end; reflexivity.
    + destruct i as [|i]; [reflexivity|]. cbn [nth_error]. rewrite IH.
      change (S i <? S n)%nat with (i <? n)%nat. reflexivity.
Qed.

Lemma nth_error_skipn' {A} : forall n i (l : list A), nth_error (skipn n l) i = nth_error l (n + i).
Proof.
  induction n as [|n IH]; intros i l; [reflexivity|].
  destruct l as [|a l]; cbn [skipn]; [destruct i; reflexivity|]. apply IH.
Qed.

(* ------------------------------------------------------------------ region_at *)
Section R.
Context {T : Type}.

Lemma region_at_slow_eq (a : Z) (d : list Z) (t : T) x : region_at a d t x = region_at_slow a d t x.
Proof.
  unfold region_at, region_at_slow. destruct (Z.leb_spec a x); [|reflexivity]. cbn [andb].
  destruct (Z.ltb_spec (x - a) (Z.of_nat (length d))); [reflexivity|].
  assert (N : nth_error d (Z.to_nat (x - a)) = None) by (apply nth_error_None; lia). rewrite N. reflexivity.
Qed.

Lemma region_at_none (a : Z) (d : list Z) (t : T) x :
  region_at a d t x = None <-> (x < a \/ a + len d <= x).
Proof.
  rewrite region_at_slow_eq. unfold region_at_slow, len. destruct (Z.leb_spec a x) as [H|H]; [|split; [lia|reflexivity]].
  destruct (nth_error d (Z.to_nat (x - a))) eqn:E.
  - split; [discriminate|]. intros [?|?]; [lia|].
    assert (nth_error d (Z.to_nat (x - a)) = None) by (apply nth_error_None; lia). congruence.
  - apply nth_error_None in E. split; [lia|reflexivity].
Qed.

Lemma region_at_some (a : Z) (d : list Z) (t : T) x :
  a <= x < a + len d -> exists b, nth_error d (Z.to_nat (x - a)) = Some b /\ region_at a d t x = Some (b, t).
Proof.
  intros H. rewrite region_at_slow_eq. unfold region_at_slow. destruct (Z.leb_spec a x); [|lia].
  destruct (nth_error d (Z.to_nat (x - a))) eqn:E; [eauto|].
  apply nth_error_None in E. unfold len in H. lia.
Qed.

Lemma region_at_some_inv (a : Z) (d : list Z) (t : T) x r :
  region_at a d t x = Some r -> a <= x < a + len d /\ snd r = t.
Proof.
  intros H. destruct (Z.lt_ge_cases x a) as [L|L].
  - assert (N : region_at a d t x = None) by (apply region_at_none; lia). congruence.
  - destruct (Z.lt_ge_cases x (a + len d)) as [L2|L2].
    + destruct (region_at_some a d t x) as (b & _ & E); [lia|]. rewrite E in H. inversion H; subst; cbn; split; [lia|reflexivity].
    + assert (N : region_at a d t x = None) by (apply region_at_none; lia). congruence.
Qed.

Lemma region_at_firstn (a k : Z) (d : list Z) (t : T) x :
  0 <= k -> region_at a (firstn_z k d) t x = if x <? a + k then region_at a d t x else None.
Proof.
  intros Hk. rewrite !region_at_slow_eq. unfold region_at_slow, firstn_z. destruct (Z.leb_spec a x) as [H|H]; [|destruct (_ <? _); reflexivity].
  rewrite nth_error_firstn'.
  destruct (Z.ltb_spec x (a + k)); destruct (Nat.ltb_spec (Z.to_nat (x - a)) (Z.to_nat k)); try reflexivity; lia.
Qed.

Lemma region_at_skipn (a k : Z) (d : list Z) (t : T) x :
  0 <= k -> region_at (a + k) (skipn_z k d) t x = if a + k <=? x then region_at a d t x else None.
Proof.
  intros Hk. rewrite !region_at_slow_eq. unfold region_at_slow, skipn_z. destruct (Z.leb_spec (a + k) x) as [H|H]; [|reflexivity].
  destruct (Z.leb_spec a x); [|lia]. rewrite nth_error_skipn'.
  replace (Z.to_nat k + Z.to_nat (x - (a + k)))%nat with (Z.to_nat (x - a)) by lia. reflexivity.
Qed.

Lemma region_at_skipn' (a e : Z) (d : list Z) (t : T) x :
  a <= e -> region_at e (skipn_z (e - a) d) t x = if e <=? x then region_at a d t x else None.
Proof.
  intros H. pose proof (region_at_skipn a (e - a) d t x ltac:(lia)) as R.
  replace (a + (e - a)) with e in R by lia. exact R.
Qed.

End R.

(* ------------------------------------------------------------------ invariant, abstraction *)
Section Proofs.
Context {P : Type}.
Notation sections := (sections P).
Notation section := (section P).

Fixpoint wf (lo : Z) (s : sections) : Prop :=
  match s with
  | [] => True
  | (a, (d, _)) :: t => lo <= a /\ 0 < len d /\ a + len d <= U64 /\ wf (a + len d) t
  end.

Fixpoint abs (s : sections) : amap P :=
  match s with
  | [] => empty_map
  | (a, (d, p)) :: t => overwrite (abs t) a d p
  end.

Lemma wf_weaken s : forall lo lo', wf lo s -> lo' <= lo -> wf lo' s.
Proof. destruct s as [|[a [d p]] t]; cbn; [tauto|]. intros; intuition lia. Qed.

Lemma abs_app s1 s2 x : abs (s1 ++ s2) x = match abs s1 x with Some r => Some r | None => abs s2 x end.
Proof.
  induction s1 as [|[a [d p]] t IH]; cbn [abs app]; [reflexivity|].
  unfold overwrite. destruct (region_at a d p x); [reflexivity|apply IH].
Qed.

Lemma abs_below s : forall lo x, wf lo s -> x < lo -> abs s x = None.
Proof.
  induction s as [|[a [d p]] t IH]; intros lo x W L; [reflexivity|].
  cbn in W. destruct W as (W1 & W2 & W3 & W4). cbn [abs]. unfold overwrite.
  assert (N : region_at a d p x = None) by (apply region_at_none; lia). rewrite N.
  apply (IH (a + len d)); [assumption|lia].
Qed.

Lemma abs_some_bound s : forall lo x r, wf lo s -> abs s x = Some r -> lo <= x /\ x < U64.
Proof.
  induction s as [|[a [d p]] t IH]; intros lo x r W E; [discriminate|].
  cbn in W. destruct W as (W1 & W2 & W3 & W4). cbn [abs] in E. unfold overwrite in E.
  destruct (region_at a d p x) eqn:R.
  - apply region_at_some_inv in R. lia.
  - destruct (IH _ _ _ W4 E). lia.
Qed.

(* ------------------------------------------------------------------ BTreeMap operations on sorted lists *)
Definition keys_lt (pre : sections) (k : Z) : Prop := Forall (fun kv => fst kv < k) pre.
Definition lb (k : Z) (post : sections) : Prop :=
  match post with [] => True | (b, _) :: _ => k < b end.

Lemma keys_lt_mono pre k k' : keys_lt pre k -> k <= k' -> keys_lt pre k'.
Proof. unfold keys_lt. intros H L. eapply Forall_impl; [|exact H]. cbn; intros; lia. Qed.

Lemma keys_lt_app pre q k : keys_lt pre k -> keys_lt q k -> keys_lt (pre ++ q) k.
Proof. unfold keys_lt. intros. apply Forall_app; split; assumption. Qed.

Lemma wf_lb lo t k : wf lo t -> k < lo -> lb k t.
Proof. destruct t as [|[b [d p]] t]; cbn; [trivial|]. intros; lia. Qed.

Lemma bt_get_app pre a v post : keys_lt pre a -> bt_get (pre ++ (a, v) :: post) a = Some v.
Proof.
  induction pre as [|[b w] pre IH]; intros H; cbn [app bt_get].
  - rewrite Z.eqb_refl. reflexivity.
  - inversion H as [|? ? Hb Hr]; subst. cbn in Hb.
    destruct (Z.eqb_spec b a); [lia|]. apply IH; assumption.
Qed.

Lemma bt_insert_app pre post k v : keys_lt pre k -> bt_insert (pre ++ post) k v = pre ++ bt_insert post k v.
Proof.
  induction pre as [|[b w] pre IH]; intros H; cbn [app bt_insert]; [reflexivity|].
  inversion H as [|? ? Hb Hr]; subst. cbn in Hb.
  destruct (Z.ltb_spec k b); [lia|]. destruct (Z.eqb_spec k b); [lia|]. rewrite IH by assumption. reflexivity.
Qed.

Lemma bt_insert_same (post : sections) k w v : bt_insert ((k, w) :: post) k v = (k, v) :: post.
Proof. cbn [bt_insert]. rewrite Z.ltb_irrefl, Z.eqb_refl. reflexivity. Qed.

Lemma bt_insert_front (post : sections) k v : lb k post -> bt_insert post k v = (k, v) :: post.
Proof.
  destruct post as [|[b w] post]; cbn [lb bt_insert]; [reflexivity|].
  intros H. destruct (Z.ltb_spec k b); [reflexivity|lia].
Qed.

Lemma bt_remove_app pre a v post : keys_lt pre a -> bt_remove (pre ++ (a, v) :: post) a = pre ++ post.
Proof.
  induction pre as [|[b w] pre IH]; intros H; cbn [app bt_remove].
  - rewrite Z.eqb_refl. reflexivity.
  - inversion H as [|? ? Hb Hr]; subst. cbn in Hb.
    destruct (Z.eqb_spec b a); [lia|]. rewrite IH by assumption. reflexivity.
Qed.

(* ------------------------------------------------------------------ set_memory: the loop *)
Section SetMemory.
Variables (ad n : Z).
Hypothesis Had : 0 <= ad.
Hypothesis Hn : 0 < n.
Hypothesis He2 : ad + n <= U64.

(* what the loop body leaves of one old section *)
Definition adj1 (a : Z) (d : list Z) (p : P) : sections :=
  let l := len d in
  let e2 := ad + n in
  if a <? ad then
    if ad <? a + l then
      if a + l <=? e2 then [(a, (firstn_z (ad - a) d, p))]
      else [(a, (firstn_z (ad - a) (firstn_z (e2 - a) d), p)); (e2, (skipn_z (e2 - a) d, p))]
    else [(a, (d, p))]
  else if a + l <=? e2 then []
  else if a <? e2 then [(e2, (skipn_z (e2 - a) d, p))]
  else [(a, (d, p))].

Fixpoint adjust (s : sections) : sections :=
  match s with
  | [] => []
  | (a, (d, p)) :: t => adj1 a d p ++ adjust t
  end.

Lemma uadd_ok a b : a + b < U64 -> uadd a b = Ok (a + b).
Proof. unfold uadd. intros H. destruct (Z.ltb_spec (a + b) U64); [reflexivity|lia]. Qed.

Lemma adj1_keys a d p : 0 < len d -> keys_lt (adj1 a d p) (a + len d).
Proof.
  intros L. unfold adj1, keys_lt.
  destruct (Z.ltb_spec a ad); [destruct (Z.ltb_spec ad (a + len d)); [destruct (Z.leb_spec (a + len d) (ad + n))|]|
    destruct (Z.leb_spec (a + len d) (ad + n)); [|destruct (Z.ltb_spec a (ad + n))]];
  repeat constructor; cbn; lia.
Qed.

Lemma step_spec pre a d p t :
  keys_lt pre a -> 0 <= a -> 0 < len d -> a + len d <= U64 -> wf (a + len d) t ->
  step ad n (pre ++ (a, (d, p)) :: t) (a, len d) = Ok (pre ++ adj1 a d p ++ t).
Proof.
  intros K A0 L B W. unfold step, adj1. cbn [fst snd].
  assert (LBt : forall k, k < a + len d -> lb k t) by (intros; eapply wf_lb; eauto).
  destruct (Z.ltb_spec a ad) as [C1|C1].
  - destruct (Z.ltb_spec ad (a + len d)) as [C2|C2]; [|reflexivity].
    destruct (Z.leb_spec (a + len d) (ad + n)) as [C3|C3].
    + rewrite bt_get_app by assumption. rewrite bt_insert_app by assumption.
      rewrite bt_insert_same. reflexivity.
    + rewrite (Z.mod_small (ad + n - a)) by lia. rewrite (Z.mod_small (ad + n)) by lia.
      rewrite bt_get_app by assumption.
      destruct (Z.ltb_spec (len d) (ad + n - a)); [lia|].
      rewrite (bt_insert_app pre _ a) by assumption. rewrite bt_insert_same.
      rewrite (bt_insert_app pre _ (ad + n)) by (eapply keys_lt_mono; [eassumption|lia]).
      cbn [bt_insert]. destruct (Z.ltb_spec (ad + n) a); [lia|]. destruct (Z.eqb_spec (ad + n) a); [lia|].
      rewrite (bt_insert_front t) by (apply LBt; lia).
      rewrite bt_get_app by assumption. rewrite bt_insert_app by assumption. rewrite bt_insert_same.
      reflexivity.
  - destruct (Z.leb_spec (a + len d) (ad + n)) as [C3|C3].
    + rewrite bt_get_app by assumption. rewrite bt_remove_app by assumption. reflexivity.
    + destruct (Z.ltb_spec a (ad + n)) as [C4|C4]; [|reflexivity].
      rewrite (Z.mod_small (ad + n - a)) by lia. rewrite (Z.mod_small (ad + n)) by lia.
      rewrite bt_get_app by assumption.
      destruct (Z.ltb_spec (len d) (ad + n - a)); [lia|].
      rewrite bt_remove_app by assumption.
      rewrite bt_insert_app by (eapply keys_lt_mono; [eassumption|lia]).
      rewrite (bt_insert_front t) by (apply LBt; lia). reflexivity.
Qed.

Lemma loop_adjust rest : forall pre lo,
  0 <= lo -> wf lo rest -> keys_lt pre lo ->
  loop ad n (pre ++ rest) (snap rest) = Ok (pre ++ adjust rest).
Proof.
  induction rest as [|[a [d p]] t IH]; intros pre lo L0 W K; [reflexivity|].
  cbn in W. destruct W as (W1 & W2 & W3 & W4).
  cbn [snap map loop fst snd adjust].
  rewrite step_spec; [|eapply keys_lt_mono; eauto|lia|assumption..].
  cbn [bind]. rewrite app_assoc. change (map _ t) with (snap t).
  rewrite (IH (pre ++ adj1 a d p) (a + len d)); [rewrite app_assoc; reflexivity|lia|assumption|].
  apply keys_lt_app; [eapply keys_lt_mono; [eassumption|lia]|apply adj1_keys; assumption].
Qed.

Definition in_region (x : Z) : bool := (ad <=? x) && (x <? ad + n).

Lemma abs_adj1 a d p x :
  abs (adj1 a d p) x = if in_region x then None else region_at a d p x.
Proof.
  unfold adj1, in_region.
  destruct (Z.ltb_spec a ad) as [C1|C1].
  - destruct (Z.ltb_spec ad (a + len d)) as [C2|C2].
    + destruct (Z.leb_spec (a + len d) (ad + n)) as [C3|C3]; cbn [abs]; unfold overwrite, empty_map.
      * rewrite region_at_firstn by lia. replace (a + (ad - a)) with ad by lia.
        destruct (Z.leb_spec ad x); destruct (Z.ltb_spec x ad); try lia; cbn [andb].
        -- destruct (Z.ltb_spec x (ad + n)); [reflexivity|].
           symmetry. apply region_at_none. lia.
        -- destruct (region_at a d p x); reflexivity.
      * rewrite !region_at_firstn by lia. replace (a + (ad - a)) with ad by lia.
        replace (a + (ad + n - a)) with (ad + n) by lia.
        rewrite region_at_skipn' by lia.
        destruct (Z.leb_spec ad x); destruct (Z.ltb_spec x ad); try lia; cbn [andb].
        -- destruct (Z.ltb_spec x (ad + n)); destruct (Z.leb_spec (ad + n) x); try lia; try reflexivity.
           destruct (region_at a d p x); reflexivity.
        -- destruct (Z.ltb_spec x (ad + n)); [|lia]. destruct (Z.leb_spec (ad + n) x); [lia|].
           destruct (region_at a d p x); reflexivity.
    + cbn [abs]; unfold overwrite, empty_map.
      destruct (Z.leb_spec ad x); cbn [andb].
      * assert (N : region_at a d p x = None) by (apply region_at_none; lia). rewrite N.
        destruct (_ <? _); reflexivity.
      * destruct (region_at a d p x); reflexivity.
  - destruct (Z.leb_spec (a + len d) (ad + n)) as [C3|C3].
    + cbn [abs]. unfold empty_map.
      destruct (Z.leb_spec ad x); cbn [andb]; [destruct (Z.ltb_spec x (ad + n)); [reflexivity|]|];
        symmetry; apply region_at_none; lia.
    + destruct (Z.ltb_spec a (ad + n)) as [C4|C4]; cbn [abs]; unfold overwrite, empty_map.
      * rewrite region_at_skipn' by lia.
        destruct (Z.leb_spec ad x); cbn [andb].
        -- destruct (Z.ltb_spec x (ad + n)); destruct (Z.leb_spec (ad + n) x); try lia; try reflexivity.
           destruct (region_at a d p x); reflexivity.
        -- destruct (Z.leb_spec (ad + n) x); [lia|]. symmetry; apply region_at_none; lia.
      * destruct (Z.leb_spec ad x); cbn [andb].
        -- destruct (Z.ltb_spec x (ad + n)).
           ++ assert (N : region_at a d p x = None) by (apply region_at_none; lia). rewrite N. reflexivity.
           ++ destruct (region_at a d p x); reflexivity.
        -- destruct (region_at a d p x); reflexivity.
Qed.

Lemma abs_adjust s x : abs (adjust s) x = if in_region x then None else abs s x.
Proof.
  induction s as [|[a [d p]] t IH]; cbn [adjust abs].
  - destruct (in_region x); reflexivity.
  - rewrite abs_app, abs_adj1, IH. unfold overwrite. destruct (in_region x); [reflexivity|].
    destruct (region_at a d p x); reflexivity.
Qed.

(* sections at or above the region start: what remains starts at or above the region end *)
Lemma wf_adjust_hi s : forall lo, wf lo s -> ad <= lo -> wf (Z.max lo (ad + n)) (adjust s).
Proof.
  induction s as [|[a [d p]] t IH]; intros lo W L; [exact I|].
  cbn in W. destruct W as (W1 & W2 & W3 & W4). cbn [adjust]. unfold adj1.
  destruct (Z.ltb_spec a ad); [lia|].
  specialize (IH (a + len d) W4 ltac:(lia)).
  destruct (Z.leb_spec (a + len d) (ad + n)) as [C3|C3]; cbn [app].
  - eapply wf_weaken; [exact IH|lia].
  - destruct (Z.ltb_spec a (ad + n)) as [C4|C4]; cbn [app wf].
    + rewrite len_skipn_z by lia. repeat split; try lia. eapply wf_weaken; [exact IH|lia].
    + repeat split; try lia. eapply wf_weaken; [exact IH|lia].
Qed.

Lemma wf_insert_adjust data p s : len data = n -> forall lo,
  wf lo s -> lo <= ad -> wf lo (bt_insert (adjust s) ad (data, p)).
Proof.
  intros Ld. induction s as [|[a [d q]] t IH]; intros lo W L.
  - cbn. repeat split; lia.
  - pose proof W as W0. cbn in W. destruct W as (W1 & W2 & W3 & W4).
    destruct (Z.lt_ge_cases a ad) as [C1|C1].
    + cbn [adjust]. unfold adj1. destruct (Z.ltb_spec a ad); [|lia].
      destruct (Z.ltb_spec ad (a + len d)) as [C2|C2].
      * destruct (Z.leb_spec (a + len d) (ad + n)) as [C3|C3]; cbn [app bt_insert].
        -- destruct (Z.ltb_spec ad a); [lia|]. destruct (Z.eqb_spec ad a); [lia|].
           cbn [wf]. rewrite len_firstn_z by lia. repeat split; try lia.
           replace (a + (ad - a)) with ad by lia. apply IH; [|lia].
           eapply wf_weaken; [exact W4|lia].
        -- destruct (Z.ltb_spec ad a); [lia|]. destruct (Z.eqb_spec ad a); [lia|].
           destruct (Z.ltb_spec ad (ad + n)); [|lia].
           cbn [wf]. rewrite (len_firstn_z (ad - a)) by (rewrite len_firstn_z; lia).
           rewrite len_skipn_z by lia. repeat split; try lia.
           eapply wf_weaken; [apply (wf_adjust_hi t (a + len d)); [assumption|lia]|lia].
      * cbn [app bt_insert]. destruct (Z.ltb_spec ad a); [lia|]. destruct (Z.eqb_spec ad a); [lia|].
        cbn [wf]. repeat split; try lia. apply IH; [assumption|lia].
    + assert (Wa : wf ad ((a, (d, q)) :: t)) by (cbn; repeat split; try lia; assumption).
      pose proof (wf_adjust_hi _ _ Wa ltac:(lia)) as WA.
      rewrite bt_insert_front by (eapply wf_lb; [exact WA|lia]).
      cbn [wf]. repeat split; try lia. eapply wf_weaken; [exact WA|lia].
Qed.

End SetMemory.

Lemma abs_bt_insert s : forall k d p x,
  0 < len d ->
  (forall y, region_at k d p y <> None -> abs s y = None) ->
  abs (bt_insert s k (d, p)) x = overwrite (abs s) k d p x.
Proof.
  induction s as [|[a [dw pw]] t IH]; intros k d p x L H; [reflexivity|].
  cbn [bt_insert]. destruct (Z.ltb_spec k a) as [C|C]; [reflexivity|].
  destruct (Z.eqb_spec k a) as [E|E].
  - subst a. cbn [abs]. unfold overwrite at 1 2. destruct (region_at k d p x) eqn:R; [reflexivity|].
    assert (N : abs ((k, (dw, pw)) :: t) k = None).
    { apply H. destruct (region_at_some k d p k) as (b & _ & Eb); [lia|]. congruence. }
    cbn [abs] in N. unfold overwrite in N. destruct (region_at k dw pw k) eqn:R2; [discriminate|].
    apply region_at_none in R2. assert (dw = []) by (apply len_nil_inv; pose proof (len_nonneg dw); lia). subst dw.
    unfold overwrite. assert (N2 : region_at k [] pw x = None) by (apply region_at_none; cbn; lia).
    rewrite N2. reflexivity.
  - cbn [abs]. unfold overwrite at 1. rewrite IH; [|assumption|].
    + unfold overwrite. destruct (region_at k d p x) eqn:R; [|reflexivity].
      assert (N : abs ((a, (dw, pw)) :: t) x = None) by (apply H; congruence).
      cbn [abs] in N. unfold overwrite in N. destruct (region_at a dw pw x); [discriminate|reflexivity].
    + intros y Hy. specialize (H y Hy). cbn [abs] in H. unfold overwrite in H.
      destruct (region_at a dw pw y); [discriminate|assumption].
Qed.

(* ------------------------------------------------------------------ set_memory refines overwrite *)
Lemma set_memory_nonempty (s : sections) ad data (p : P) : 0 < len data ->
  set_memory s ad data p = (s' <- loop ad (len data) s (snap s) ;; Ok (bt_insert s' ad (data, p))).
Proof. destruct data; [unfold len; cbn; lia|reflexivity]. Qed.

Theorem set_memory_spec (s : sections) ad data (p : P) :
  wf 0 s -> 0 <= ad -> ad + len data <= U64 ->
  exists s', set_memory s ad data p = Ok s' /\ wf 0 s' /\ forall x, abs s' x = overwrite (abs s) ad data p x.
Proof.
  intros W A B. destruct (Z.eq_dec (len data) 0) as [Z0|NZ].
  - apply len_nil_inv in Z0. subst data.
    exists s. split; [reflexivity|]. split; [assumption|]. intros x. unfold overwrite.
    assert (N : region_at ad [] p x = None) by (apply region_at_none; cbn; lia). rewrite N. reflexivity.
  - assert (L : 0 < len data) by (pose proof (len_nonneg data); lia).
    exists (bt_insert (adjust ad (len data) s) ad (data, p)). split; [|split].
    + rewrite set_memory_nonempty by assumption.
      assert (Hl : loop ad (len data) ([] ++ s) (snap s) = Ok ([] ++ adjust ad (len data) s)).
      { eapply loop_adjust with (lo := 0); first [assumption | lia | constructor]. }
      cbn [app] in Hl.
      rewrite Hl. reflexivity.
    + apply wf_insert_adjust; try assumption; try reflexivity; try lia.
    + intros x. rewrite abs_bt_insert; [|assumption|].
      * unfold overwrite. destruct (region_at ad data p x) eqn:R; [reflexivity|].
        rewrite abs_adjust by (try assumption; lia). unfold in_region.
        apply region_at_none in R.
        destruct (Z.leb_spec ad x); destruct (Z.ltb_spec x (ad + len data)); cbn [andb]; try reflexivity; lia.
      * intros y Hy. rewrite abs_adjust by (try assumption; lia). unfold in_region.
        destruct (region_at ad data p y) eqn:R; [|congruence]. apply region_at_some_inv in R.
        destruct (Z.leb_spec ad y); destruct (Z.ltb_spec y (ad + len data)); cbn [andb]; try reflexivity; lia.
Qed.

(* ------------------------------------------------------------------ lookups *)
Fixpoint find_sec (s : sections) (x : Z) : option (Z * section) :=
  match s with
  | [] => None
  | (a, (d, p)) :: t => if (a <=? x) && (x <? a + len d) then Some (a, (d, p)) else find_sec t x
  end.

Lemma find_sec_below s : forall lo x, wf lo s -> x < lo -> find_sec s x = None /\ bt_le s x = None.
Proof.
  induction s as [|[a [d p]] t IH]; intros lo x W L; [split; reflexivity|].
  cbn in W. destruct W as (W1 & W2 & W3 & W4). cbn [find_sec bt_le].
  destruct (Z.leb_spec a x); [lia|]. cbn [andb]. split; [|reflexivity].
  apply (IH (a + len d)); [assumption|lia].
Qed.

Lemma find_sec_inv s : forall lo x a d p, wf lo s -> find_sec s x = Some (a, (d, p)) ->
  bt_get s a = Some (d, p) /\ lo <= a /\ a <= x < a + len d /\ 0 < len d /\ a + len d <= U64.
Proof.
  induction s as [|[a0 [d0 p0]] t IH]; intros lo x a d p W F; [discriminate|].
  cbn in W. destruct W as (W1 & W2 & W3 & W4). cbn [find_sec] in F. cbn [bt_get].
  destruct (Z.leb_spec a0 x); destruct (Z.ltb_spec x (a0 + len d0)); cbn [andb] in F;
    try (destruct (IH _ _ _ _ _ W4 F) as (G & B1 & B2 & B3); destruct (Z.eqb_spec a0 a); [lia|];
         repeat split; try assumption; lia).
  inversion F; subst. rewrite Z.eqb_refl. repeat split; try reflexivity; lia.
Qed.

Lemma find_sec_same s : forall lo x y a d p, wf lo s -> find_sec s x = Some (a, (d, p)) ->
  a <= y < a + len d -> find_sec s y = Some (a, (d, p)).
Proof.
  induction s as [|[a0 [d0 p0]] t IH]; intros lo x y a d p W F R; [discriminate|].
  cbn in W. destruct W as (W1 & W2 & W3 & W4). cbn [find_sec] in *.
  destruct (Z.leb_spec a0 x); destruct (Z.ltb_spec x (a0 + len d0)); cbn [andb] in F.
  1: { inversion F; subst. destruct (Z.leb_spec a y); destruct (Z.ltb_spec y (a + len d)); try lia. reflexivity. }
  all: destruct (find_sec_inv _ _ _ _ _ _ W4 F) as (_ & B1 & B2);
       destruct (Z.leb_spec a0 y); destruct (Z.ltb_spec y (a0 + len d0)); cbn [andb]; try lia;
       eapply IH; eassumption.
Qed.

Lemma abs_find s x : abs s x = match find_sec s x with Some (a, (d, p)) => region_at a d p x | None => None end.
Proof.
  induction s as [|[a [d p]] t IH]; [reflexivity|]. cbn [abs find_sec]. unfold overwrite.
  destruct (Z.leb_spec a x); destruct (Z.ltb_spec x (a + len d)); cbn [andb].
  - destruct (region_at_some a d p x) as (b & _ & E); [lia|]. rewrite E. reflexivity.
  - assert (N : region_at a d p x = None) by (apply region_at_none; lia). rewrite N. apply IH.
  - assert (N : region_at a d p x = None) by (apply region_at_none; lia). rewrite N. apply IH.
  - assert (N : region_at a d p x = None) by (apply region_at_none; lia). rewrite N. apply IH.
Qed.

Lemma section_address_spec s : forall lo x, wf lo s ->
  section_address s x = Ok (option_map fst (find_sec s x)).
Proof.
  induction s as [|[a [d p]] t IH]; intros lo x W; [reflexivity|].
  pose proof W as W0. cbn in W. destruct W as (W1 & W2 & W3 & W4).
  destruct (Z.lt_ge_cases x a) as [C|C].
  - unfold section_address. cbn [bt_le find_sec]. destruct (Z.leb_spec a x); [lia|]. cbn [andb].
    destruct (find_sec_below t (a + len d) x W4 ltac:(lia)) as (F & _). rewrite F. reflexivity.
  - destruct (Z.lt_ge_cases x (a + len d)) as [C2|C2].
    + unfold section_address. cbn [bt_le find_sec].
      destruct (find_sec_below t (a + len d) x W4 ltac:(lia)) as (_ & B). rewrite B.
      assert (E1 : (a <=? x) = true) by (apply Z.leb_le; lia).
      assert (E2 : (x <? a + len d) = true) by (apply Z.ltb_lt; lia).
      assert (E3 : (x - a <? len d) = true) by (apply Z.ltb_lt; lia).
      rewrite ?E1. cbn iota beta. rewrite ?E1. cbn [andb]. rewrite ?E3, ?E2. reflexivity.
    + assert (E : section_address ((a, (d, p)) :: t) x = section_address t x).
      { unfold section_address. cbn [bt_le].
        assert (E1 : (a <=? x) = true) by (apply Z.leb_le; lia).
        assert (E2 : (x - a <? len d) = false) by (apply Z.ltb_ge; lia).
        rewrite E1. destruct (bt_le t x) as [[a1 [d1 p1]]|]; [reflexivity|].
        rewrite ?E1. rewrite E2. reflexivity. }
      etransitivity; [exact E|]. cbn [find_sec].
      destruct (Z.leb_spec a x); destruct (Z.ltb_spec x (a + len d)); try lia; cbn [andb].
      eapply IH; eassumption.
Qed.

Lemma nth_z_region a (d : list Z) (p : P) x : a <= x < a + len d ->
  exists b, nth_z d (x - a) = Some b /\ region_at a d p x = Some (b, p).
Proof.
  intros R. destruct (region_at_some a d p x R) as (b & N & E). exists b. split; [|assumption].
  unfold nth_z. destruct (Z.ltb_spec (x - a) 0); [lia|assumption].
Qed.

Theorem get8_spec s x : wf 0 s -> get8 s x = Ok (read8 (abs s) x).
Proof.
  intros W. unfold get8, read8. rewrite (section_address_spec s 0 x W). cbn [bind]. rewrite abs_find.
  destruct (find_sec s x) as [[a [d p]]|] eqn:F; cbn [option_map fst]; [|reflexivity].
  destruct (find_sec_inv _ _ _ _ _ _ W F) as (G & _ & R & _). rewrite G.
  destruct (nth_z_region a d p x R) as (b & N & E). rewrite N, E. reflexivity.
Qed.

Theorem permissions_spec s x : wf 0 s -> permissions s x = Ok (tag_at (abs s) x).
Proof.
  intros W. unfold permissions, tag_at. rewrite (section_address_spec s 0 x W). cbn [bind]. rewrite abs_find.
  destruct (find_sec s x) as [[a [d p]]|] eqn:F; cbn [option_map fst]; [|reflexivity].
  destruct (find_sec_inv _ _ _ _ _ _ W F) as (G & _ & R & _). rewrite G.
  destruct (nth_z_region a d p x R) as (b & N & E). rewrite E. reflexivity.
Qed.

(* ------------------------------------------------------------------ get *)
Lemma get_rest_spec s x : wf 0 s -> forall k i,
  get_rest s x i k = Ok (read_bytes (abs s) (x + i) k).
Proof.
  intros W. induction k as [|k IH]; intros i; [reflexivity|].
  cbn [get_rest read_bytes]. destruct (Z.leb_spec U64 (x + i)) as [O|O].
  - unfold read8. destruct (abs s (x + i)) as [r|] eqn:E; [|reflexivity].
    destruct (abs_some_bound _ _ _ _ W E). lia.
  - rewrite get8_spec by assumption. cbn [bind].
    unfold read8 at 2. destruct (abs s (x + i)) as [[b t]|] eqn:E; cbn [option_map fst].
    + rewrite IH. cbn [bind].
      replace (x + (i + 1)) with (x + i + 1) by lia. unfold read8 at 1. rewrite E. cbn [option_map fst].
      destruct (read_bytes (abs s) (x + i + 1) k); reflexivity.
    + unfold read8. rewrite E. reflexivity.
Qed.

Lemma le_value_app l b : le_value (l ++ [b]) = le_value l + b * 256 ^ len l.
Proof.
  induction l as [|a l IH]; cbn [app le_value].
  - change (256 ^ len (@nil Z)) with 1. ring.
  - rewrite IH, len_cons. rewrite Z.pow_add_r by (pose proof (len_nonneg l); lia).
    change (256 ^ 1) with 256. ring.
Qed.

Lemma fold_be l : forall acc, fold_left (fun v b => v * 256 + b) l acc = le_value (rev l) + acc * 256 ^ len l.
Proof.
  induction l as [|b l IH]; intros acc; cbn [fold_left rev].
  - change (256 ^ len (@nil Z)) with 1. cbn [le_value]. ring.
  - rewrite IH, le_value_app, len_cons. unfold len at 2. rewrite rev_length. fold (len l).
    rewrite Z.pow_add_r by (pose proof (len_nonneg l); lia). change (256 ^ 1) with 256. ring.
Qed.

Lemma assemble_value be l : assemble be l = value_of be l.
Proof.
  unfold assemble, value_of. destruct be.
  - rewrite fold_be. ring.
  - induction l as [|b l IH]; cbn [fold_right le_value]; [reflexivity|]. rewrite IH. reflexivity.
Qed.

Theorem get_spec be s x bits : wf 0 s -> bits mod 8 = 0 -> 0 < bits ->
  get be s x bits = Ok (read be (abs s) x bits).
Proof.
  intros W M B. unfold get, read.
  destruct (Z.eqb_spec (bits mod 8) 0); [|lia]. destruct (Z.eqb_spec bits 0); [lia|]. cbn [negb orb].
  assert (K : Z.to_nat (bits / 8) = S (Z.to_nat (bits / 8 - 1))).
  { pose proof (Z.div_mod bits 8 ltac:(lia)). lia. }
  rewrite K. cbn [read_bytes]. rewrite get8_spec by assumption. cbn [bind].
  unfold read8 at 2. destruct (abs s x) as [[b t]|] eqn:E; cbn [option_map fst].
  - rewrite get_rest_spec by assumption. cbn [bind].
    unfold read8. rewrite E. cbn [option_map fst].
    destruct (read_bytes (abs s) (x + 1) (Z.to_nat (bits / 8 - 1))); cbn [option_map]; [|reflexivity].
    rewrite assemble_value. reflexivity.
  - unfold read8. rewrite E. reflexivity.
Qed.

Theorem get_invalid be (s : sections) x bits : (bits mod 8 <> 0 \/ bits = 0) -> get be s x bits = Ok None.
Proof.
  intros H. unfold get. destruct (Z.eqb_spec (bits mod 8) 0); destruct (Z.eqb_spec bits 0); cbn [negb orb]; try reflexivity; lia.
Qed.

(* ------------------------------------------------------------------ get32 *)
Lemma abs_in_section s x y a d p : wf 0 s -> find_sec s x = Some (a, (d, p)) -> a <= y < a + len d ->
  exists b, nth_z d (y - a) = Some b /\ abs s y = Some (b, p).
Proof.
  intros W F R. rewrite abs_find. rewrite (find_sec_same s 0 x y a d p W F R).
  apply nth_z_region. assumption.
Qed.

Lemma word_value be b0 b1 b2 b3 : word_of be (b0, b1, b2, b3) = value_of be [b0; b1; b2; b3].
Proof. unfold word_of, value_of. destruct be; cbn [rev app le_value]; ring. Qed.

(* a 32-bit read whose four bytes lie in one stored section returns them, assembled *)
Theorem get32_within be s x a d p : wf 0 s -> find_sec s x = Some (a, (d, p)) -> x + 4 <= a + len d ->
  exists v, read32 be (abs s) x = Some v /\ get32 be s x = Ok (Some v).
Proof.
  intros W F R. destruct (find_sec_inv _ _ _ _ _ _ W F) as (G & _ & R0 & _).
  destruct (abs_in_section s x x a d p W F ltac:(lia)) as (b0 & N0 & A0).
  destruct (abs_in_section s x (x + 1) a d p W F ltac:(lia)) as (b1 & N1 & A1).
  destruct (abs_in_section s x (x + 2) a d p W F ltac:(lia)) as (b2 & N2 & A2).
  destruct (abs_in_section s x (x + 3) a d p W F ltac:(lia)) as (b3 & N3 & A3).
  exists (value_of be [b0; b1; b2; b3]). split.
  - unfold read32. cbn [read_bytes]. unfold read8.
    replace (x + 1 + 1) with (x + 2) by lia. replace (x + 2 + 1) with (x + 3) by lia.
    rewrite A0, A1, A2, A3. reflexivity.
  - unfold get32. rewrite (section_address_spec s 0 x W), F. cbn [bind option_map fst]. rewrite G.
    destruct (Z.ltb_spec (len d) (x - a + 4)); [lia|]. unfold four.
    replace (x + 1 - a) with (x - a + 1) in N1 by lia. replace (x + 2 - a) with (x - a + 2) in N2 by lia.
    replace (x + 3 - a) with (x - a + 3) in N3 by lia.
    rewrite N0, N1, N2, N3. cbn [bind]. rewrite word_value. reflexivity.
Qed.

(* otherwise (start unmapped, or fewer than four bytes left in the section) the read is absent *)
Theorem get32_outside be s x : wf 0 s ->
  match find_sec s x with Some (a, (d, _)) => a + len d < x + 4 | None => True end ->
  get32 be s x = Ok None.
Proof.
  intros W H. unfold get32. rewrite (section_address_spec s 0 x W).
  destruct (find_sec s x) as [[a [d p]]|] eqn:F; cbn [bind option_map fst]; [|reflexivity].
  destruct (find_sec_inv _ _ _ _ _ _ W F) as (G & _). rewrite G.
  destruct (Z.ltb_spec (len d) (x - a + 4)); [reflexivity|lia].
Qed.

(* ------------------------------------------------------------------ set32 *)
Lemma replace_spec s : forall lo x a d p d', wf lo s -> find_sec s x = Some (a, (d, p)) -> len d' = len d ->
  wf lo (bt_insert s a (d', p)) /\
  (forall y, abs (bt_insert s a (d', p)) y = if (a <=? y) && (y <? a + len d) then region_at a d' p y else abs s y) /\
  map (fun kv => (fst kv, len (fst (snd kv)), snd (snd kv))) (bt_insert s a (d', p)) =
  map (fun kv => (fst kv, len (fst (snd kv)), snd (snd kv))) s.
Proof.
  induction s as [|[a0 [d0 p0]] t IH]; intros lo x a d p d' W F L; [discriminate|].
  pose proof W as W0. cbn in W. destruct W as (W1 & W2 & W3 & W4). cbn [find_sec] in F.
  destruct (Z.leb_spec a0 x); destruct (Z.ltb_spec x (a0 + len d0)); cbn [andb] in F.
  1: { inversion F; subst a0 d0 p0. rewrite bt_insert_same. split; [|split].
       - cbn [wf]. rewrite L. repeat split; assumption.
       - intros y. cbn [abs]. unfold overwrite.
         destruct (Z.leb_spec a y); destruct (Z.ltb_spec y (a + len d)); cbn [andb].
         + destruct (region_at_some a d' p y) as (b & _ & E); [lia|]. rewrite E. reflexivity.
         + assert (N : region_at a d' p y = None) by (apply region_at_none; lia).
           assert (N' : region_at a d p y = None) by (apply region_at_none; lia). rewrite N, N'. reflexivity.
         + assert (N : region_at a d' p y = None) by (apply region_at_none; lia).
           assert (N' : region_at a d p y = None) by (apply region_at_none; lia). rewrite N, N'. reflexivity.
         + assert (N : region_at a d' p y = None) by (apply region_at_none; lia).
           assert (N' : region_at a d p y = None) by (apply region_at_none; lia). rewrite N, N'. reflexivity.
       - cbn [map fst snd]. rewrite L. reflexivity. }
  all: destruct (find_sec_inv _ _ _ _ _ _ W4 F) as (_ & B1 & B2 & _);
       destruct (IH _ _ _ _ _ _ W4 F L) as (I1 & I2 & I3);
       cbn [bt_insert]; destruct (Z.ltb_spec a a0); [lia|]; destruct (Z.eqb_spec a a0); [lia|];
       (split; [|split]);
       [ cbn [wf]; repeat split; assumption
       | intros y; cbn [abs]; unfold overwrite; rewrite I2;
         destruct (region_at a0 d0 p0 y) eqn:R; [|reflexivity];
         apply region_at_some_inv in R;
         destruct (Z.leb_spec a y); destruct (Z.ltb_spec y (a + len d)); cbn [andb]; try reflexivity; lia
       | cbn [map]; rewrite I3; reflexivity ].
Qed.

Lemma nth_error_patch (d bs : list Z) off i : 0 <= off -> off + len bs <= len d ->
  nth_error (patch d off bs) i =
  if (Z.of_nat i <? off) then nth_error d i
  else if (Z.of_nat i <? off + len bs) then nth_error bs (i - Z.to_nat off) else nth_error d i.
Proof.
  intros H0 H1. unfold patch, firstn_z, skipn_z.
  assert (Lf : length (firstn (Z.to_nat off) d) = Z.to_nat off) by (rewrite firstn_length; unfold len in *; lia).
  destruct (Z.ltb_spec (Z.of_nat i) off).
  - rewrite nth_error_app1 by lia. rewrite nth_error_firstn'.
    destruct (Nat.ltb_spec i (Z.to_nat off)); [reflexivity|lia].
  - rewrite nth_error_app2 by lia. rewrite Lf.
    destruct (Z.ltb_spec (Z.of_nat i) (off + len bs)).
    + rewrite nth_error_app1 by (unfold len in *; lia). reflexivity.
    + rewrite nth_error_app2 by (unfold len in *; lia). rewrite nth_error_skipn'.
      f_equal. unfold len in *. lia.
Qed.

Lemma len_patch (d bs : list Z) off : 0 <= off -> off + len bs <= len d -> len (patch d off bs) = len d.
Proof.
  intros H0 H1. unfold patch. rewrite !len_app, len_firstn_z, len_skipn_z; pose proof (len_nonneg bs); lia.
Qed.

Lemma bytes_of_mem be v : bytes_of be v = mem_bytes32 be v.
Proof.
  unfold bytes_of, mem_bytes32, le_bytes32, byte_of.
  change (2 ^ 24) with 16777216. change (2 ^ 16) with 65536. change (2 ^ 8) with 256. change (2 ^ 0) with 1.
  rewrite Z.div_1_r. destruct be; reflexivity.
Qed.

(* a 32-bit write whose four bytes lie in one stored section: the four bytes change, tags and layout stay *)
Theorem set32_within be s x v a d p : wf 0 s -> find_sec s x = Some (a, (d, p)) -> x + 4 <= a + len d ->
  exists s', set32 be s x v = Ok s' /\ wf 0 s' /\
             (forall y, abs s' y = write32 be (abs s) x v y) /\
             map (fun kv => (fst kv, len (fst (snd kv)), snd (snd kv))) s' =
             map (fun kv => (fst kv, len (fst (snd kv)), snd (snd kv))) s.
Proof.
  intros W F R. destruct (find_sec_inv _ _ _ _ _ _ W F) as (G & _ & R0 & _).
  assert (Lb : len (bytes_of be v) = 4) by (destruct be; reflexivity).
  assert (Lp : len (patch d (x - a) (bytes_of be v)) = len d) by (apply len_patch; lia).
  destruct (replace_spec s 0 x a d p _ W F Lp) as (I1 & I2 & I3).
  eexists. split; [|split; [exact I1|split; [|exact I3]]].
  - unfold set32. rewrite (section_address_spec s 0 x W), F. cbn [bind option_map fst]. rewrite G.
    destruct (Z.ltb_spec (len d) (x - a + 4)); [lia|]. reflexivity.
  - intros y. rewrite I2. unfold write32.
    destruct (Z.leb_spec x y); destruct (Z.ltb_spec y (x + 4)); cbn [andb].
    + destruct (Z.leb_spec a y); destruct (Z.ltb_spec y (a + len d)); try lia; cbn [andb].
      destruct (abs_in_section s x y a d p W F ltac:(lia)) as (b & _ & A). rewrite A.
      rewrite region_at_slow_eq. unfold region_at_slow. destruct (Z.leb_spec a y); [|lia].
      rewrite nth_error_patch by lia. rewrite Lb.
      destruct (Z.ltb_spec (Z.of_nat (Z.to_nat (y - a))) (x - a)); [lia|].
      destruct (Z.ltb_spec (Z.of_nat (Z.to_nat (y - a))) (x - a + 4)); [|lia].
      replace (Z.to_nat (y - a) - Z.to_nat (x - a))%nat with (Z.to_nat (y - x)) by lia.
      rewrite bytes_of_mem.
      destruct (nth_error (mem_bytes32 be v) (Z.to_nat (y - x))) eqn:E; [reflexivity|].
      apply nth_error_None in E. assert (length (mem_bytes32 be v) = 4%nat) by (destruct be; reflexivity). lia.
    + destruct (Z.leb_spec a y); destruct (Z.ltb_spec y (a + len d)); cbn [andb]; try reflexivity.
      destruct (abs_in_section s x y a d p W F ltac:(lia)) as (b & N & A). rewrite A.
      rewrite region_at_slow_eq. unfold region_at_slow. destruct (Z.leb_spec a y); [|lia].
      rewrite nth_error_patch by lia. rewrite Lb.
      destruct (Z.ltb_spec (Z.of_nat (Z.to_nat (y - a))) (x - a)); [lia|].
      destruct (Z.ltb_spec (Z.of_nat (Z.to_nat (y - a))) (x - a + 4)); [lia|].
      unfold nth_z in N. destruct (Z.ltb_spec (y - a) 0); [lia|]. rewrite N. reflexivity.
    + destruct (Z.leb_spec a y); destruct (Z.ltb_spec y (a + len d)); cbn [andb]; try reflexivity.
      destruct (abs_in_section s x y a d p W F ltac:(lia)) as (b & N & A). rewrite A.
      rewrite region_at_slow_eq. unfold region_at_slow. destruct (Z.leb_spec a y); [|lia].
      rewrite nth_error_patch by lia. rewrite Lb.
      destruct (Z.ltb_spec (Z.of_nat (Z.to_nat (y - a))) (x - a)); [|lia].
      unfold nth_z in N. destruct (Z.ltb_spec (y - a) 0); [lia|]. rewrite N. reflexivity.
    + lia.
Qed.

(* outside one section: refused (mapped start, fewer than four bytes left) or panic (unmapped start) *)
Theorem set32_outside be s x v : wf 0 s ->
  set32 be s x v = match find_sec s x with
                   | Some (a, (d, _)) => if len d <? x - a + 4 then Err ECustom else set32 be s x v
                   | None => Panic
                   end.
Proof.
  intros W. unfold set32 at 1. rewrite (section_address_spec s 0 x W).
  destruct (find_sec s x) as [[a [d p]]|] eqn:F; cbn [bind option_map fst]; [|reflexivity].
  destruct (find_sec_inv _ _ _ _ _ _ W F) as (G & _). rewrite G.
  destruct (Z.ltb_spec (len d) (x - a + 4)); [reflexivity|].
  unfold set32. rewrite (section_address_spec s 0 x W), F. cbn [bind option_map fst]. rewrite G.
  destruct (Z.ltb_spec (len d) (x - a + 4)); [lia|reflexivity].
Qed.

Lemma set32_ok_wf be s x v s' : wf 0 s -> set32 be s x v = Ok s' -> wf 0 s'.
Proof.
  intros W E. rewrite set32_outside in E by assumption.
  destruct (find_sec s x) as [[a [d p]]|] eqn:F; [|discriminate].
  destruct (Z.ltb_spec (len d) (x - a + 4)); [discriminate|].
  destruct (find_sec_inv _ _ _ _ _ _ W F) as (_ & _ & R0 & _).
  destruct (set32_within be s x v a d p W F ltac:(lia)) as (s2 & E2 & W2 & _). congruence.
Qed.

(* ------------------------------------------------------------------ the stored sections never overlap *)
Definition no_overlap (x y : Z * section) : Prop := fst x < fst y /\ fst x + len (fst (snd x)) <= fst y.

Lemma wf_keys_ge s : forall lo, wf lo s -> Forall (fun y => lo <= fst y) s.
Proof.
  induction s as [|[a [d p]] t IH]; intros lo W; [constructor|].
  cbn in W. destruct W as (W1 & W2 & W3 & W4). constructor; [exact W1|].
  eapply Forall_impl; [|apply (IH _ W4)]. cbn. intros; lia.
Qed.

Theorem wf_disjoint s : forall lo, wf lo s -> ForallOrdPairs no_overlap s /\ Forall (fun y => 0 < len (fst (snd y))) s.
Proof.
  induction s as [|[a [d p]] t IH]; intros lo W; [split; constructor|].
  cbn in W. destruct W as (W1 & W2 & W3 & W4). destruct (IH _ W4) as (I1 & I2). split.
  - constructor; [|assumption]. eapply Forall_impl; [|apply (wf_keys_ge _ _ W4)].
    unfold no_overlap. cbn. intros; lia.
  - constructor; assumption.
Qed.

(* ------------------------------------------------------------------ histories *)
Inductive hop := HWrite (a : Z) (d : list Z) (p : P) | HSet32 (a v : Z).

(* the region does not wrap the address space: it ends at or below 2^64 *)
Definition region_ok (a : Z) (d : list Z) : Prop := 0 <= a /\ a + len d <= U64.
Definition hop_ok (o : hop) : Prop := match o with HWrite a d _ => region_ok a d | HSet32 _ _ => True end.

(* a refused set32 (Err) leaves the memory as it was; a panic ends the history *)
Fixpoint run_ops (be : bool) (s : sections) (ops : list hop) : res sections :=
  match ops with
  | [] => Ok s
  | o :: t =>
      match (match o with HWrite a d p => set_memory s a d p | HSet32 a v => set32 be s a v end) with
      | Ok s' => run_ops be s' t
      | Err _ => run_ops be s t
      | Panic => Panic
      end
  end.

Theorem run_ops_wf be ops : forall s s', Forall hop_ok ops -> wf 0 s -> run_ops be s ops = Ok s' -> wf 0 s'.
Proof.
  induction ops as [|o t IH]; intros s s' F W E; [cbn in E; congruence|].
  inversion F as [|? ? Ho Ft]; subst. cbn [run_ops] in E. destruct o as [a d p|a v].
  - destruct Ho as (A & B). destruct (set_memory_spec s a d p W A B) as (s1 & E1 & W1 & _).
    rewrite E1 in E. eapply IH; eassumption.
  - destruct (set32 be s a v) as [s1|e|] eqn:E1; [|eapply IH; eassumption|discriminate].
    eapply IH; [assumption| |exact E]. eapply set32_ok_wf; eassumption.
Qed.

Fixpoint run_writes (s : sections) (ws : list (Z * list Z * P)) : res sections :=
  match ws with
  | [] => Ok s
  | (a, d, p) :: t => s' <- set_memory s a d p ;; run_writes s' t
  end.

Lemma write_all_ext (ws : list (Z * list Z * P)) : forall m m' : amap P,
  (forall x, m x = m' x) -> forall x, write_all m ws x = write_all m' ws x.
Proof.
  induction ws as [|[[a d] p] t IH]; intros m m' H x; cbn [write_all]; [apply H|].
  apply IH. intros y. unfold overwrite. rewrite H. reflexivity.
Qed.

Theorem run_writes_spec ws : forall s,
  Forall (fun w => region_ok (fst (fst w)) (snd (fst w))) ws -> wf 0 s ->
  exists s', run_writes s ws = Ok s' /\ wf 0 s' /\ forall x, abs s' x = write_all (abs s) ws x.
Proof.
  induction ws as [|[[a d] p] t IH]; intros s F W.
  - exists s. split; [reflexivity|]. split; [assumption|reflexivity].
  - inversion F as [|? ? Ho Ft]; subst. cbn [fst snd] in Ho. destruct Ho as (A & B).
    destruct (set_memory_spec s a d p W A B) as (s1 & E1 & W1 & A1).
    destruct (IH s1 Ft W1) as (s2 & E2 & W2 & A2).
    exists s2. split; [cbn [run_writes]; rewrite E1; exact E2|]. split; [assumption|].
    intros x. rewrite A2. cbn [write_all]. apply write_all_ext. exact A1.
Qed.

Lemma write_all_uncovered (ws : list (Z * list Z * P)) : forall (m : amap P) x,
  Forall (fun w => ~ covers w x) ws -> write_all m ws x = m x.
Proof.
  induction ws as [|[[a d] p] t IH]; intros m x F; [reflexivity|].
  inversion F as [|? ? Hc Ft]; subst. cbn [write_all]. rewrite IH by assumption.
  unfold overwrite. unfold covers in Hc. cbn [fst snd] in Hc.
  assert (N : region_at a d p x = None) by (apply region_at_none; unfold len; lia). rewrite N. reflexivity.
Qed.

(* ------------------------------------------------------------------ statements used by Props/C16.v *)
Theorem sections_disjoint_thm be (ops : list hop) s :
  Forall hop_ok ops -> run_ops be [] ops = Ok s ->
  wf 0 s /\ ForallOrdPairs no_overlap s /\ Forall (fun y => 0 < len (fst (snd y))) s.
Proof.
  intros F E. assert (W : wf 0 s) by (eapply (run_ops_wf be ops []); [exact F|exact I|exact E]).
  split; [assumption|]. eapply wf_disjoint; eassumption.
Qed.

Theorem abs_set_memory_thm (ws : list (Z * list Z * P)) :
  Forall (fun w => region_ok (fst (fst w)) (snd (fst w))) ws ->
  exists s, run_writes [] ws = Ok s /\ wf 0 s /\ forall x, abs s x = write_all empty_map ws x.
Proof. intros F. destruct (run_writes_spec ws [] F I) as (s & E & W & A). exists s. auto. Qed.

Theorem never_covered_thm (ws : list (Z * list Z * P)) x :
  Forall (fun w => region_ok (fst (fst w)) (snd (fst w))) ws ->
  Forall (fun w => ~ covers w x) ws ->
  exists s, run_writes [] ws = Ok s /\ get8 s x = Ok None /\ permissions s x = Ok None.
Proof.
  intros F C. destruct (abs_set_memory_thm ws F) as (s & E & W & A). exists s. split; [assumption|].
  rewrite get8_spec, permissions_spec by assumption. unfold read8, tag_at.
  rewrite A, write_all_uncovered by assumption. split; reflexivity.
Qed.

Theorem get32_spec_thm be s x : wf 0 s ->
  match find_sec s x with
  | Some (a, (d, _)) =>
      if x + 4 <=? a + len d
      then exists v, read32 be (abs s) x = Some v /\ get32 be s x = Ok (Some v)
      else get32 be s x = Ok None
  | None => get32 be s x = Ok None
  end.
Proof.
  intros W. destruct (find_sec s x) as [[a [d p]]|] eqn:F.
  - destruct (Z.leb_spec (x + 4) (a + len d)).
    + eapply get32_within; eassumption.
    + apply get32_outside; [assumption|]. rewrite F. lia.
  - apply get32_outside; [assumption|]. rewrite F. exact I.
Qed.

Theorem set32_spec_thm be s x v : wf 0 s ->
  match find_sec s x with
  | Some (a, (d, _)) =>
      if x + 4 <=? a + len d
      then exists s', set32 be s x v = Ok s' /\ wf 0 s' /\
                      (forall y, abs s' y = write32 be (abs s) x v y) /\
                      map (fun kv => (fst kv, len (fst (snd kv)), snd (snd kv))) s' =
                      map (fun kv => (fst kv, len (fst (snd kv)), snd (snd kv))) s
      else set32 be s x v = Err ECustom
  | None => set32 be s x v = Panic
  end.
Proof.
  intros W. destruct (find_sec s x) as [[a [d p]]|] eqn:F.
  - destruct (Z.leb_spec (x + 4) (a + len d)).
    + eapply set32_within; eassumption.
    + rewrite set32_outside, F by assumption. destruct (Z.ltb_spec (len d) (x - a + 4)); [reflexivity|lia].
  - rewrite set32_outside, F by assumption. reflexivity.
Qed.

(* find_sec is the section that covers x, if any (so the case split above is about the stored sections) *)
Theorem find_sec_spec s x : wf 0 s ->
  match find_sec s x with
  | Some (a, (d, p)) => In (a, (d, p)) s /\ a <= x < a + len d
  | None => forall a d p, In (a, (d, p)) s -> ~ (a <= x < a + len d)
  end.
Proof.
  intros _. induction s as [|[a0 [d0 p0]] t IH]; cbn [find_sec]; [intros a d p []|].
  destruct (Z.leb_spec a0 x); destruct (Z.ltb_spec x (a0 + len d0)); cbn [andb].
  1: { split; [left; reflexivity|lia]. }
  all: destruct (find_sec t x) as [[a [d p]]|];
       [ destruct IH as (I1 & I2); split; [right; assumption|assumption]
       | intros a d p [E|Hin]; [inversion E; subst; lia|eapply IH; eassumption] ].
Qed.

End Proofs.
