(* Mem/Paged.v -- faithful model of lib/memory/paged.rs (Memory<V>) and lib/memory/value.rs.

   pages : HashMap<u64, RC<Page>>  ~  association list keyed by page address (lookups and
   equality are semantic, so the iteration order of the hash map is irrelevant);
   Page.cells : Vec<Option<MemoryCell>> (1024 entries)  ~  association list keyed by offset.
   u64/usize additions, subtractions, multiplications are the checked ones of the harness
   build (overflow => Panic).  `RC::make_mut` is copy-on-write: in a pure model a clone is
   the same value; independence of clones is Rust's ownership discipline (trusted). *)
From Coq Require Import ZArith List Bool.
From Falcon Require Import Base.Res IL.Const IL.Expr Mem.PagedTypes.
Import ListNotations.
Local Open Scope Z_scope.

(* ------------------------------------------------------------------ association maps *)
Definition amap (A : Type) := list (Z * A).
Fixpoint aget {A} (m : amap A) (k : Z) : option A :=
  match m with
  | [] => None
  | (k', v) :: t => if k =? k' then Some v else aget t k
  end.
Fixpoint aset {A} (m : amap A) (k : Z) (v : A) : amap A :=
  match m with
  | [] => [(k, v)]
  | (k', v') :: t => if k =? k' then (k, v) :: t else (k', v') :: aset t k v
  end.
Definition akeys {A} (m : amap A) : list Z := map fst m.
Definition opt_eqb {A} (eqb : A -> A -> bool) (a b : option A) : bool :=
  match a, b with Some x, Some y => eqb x y | None, None => true | _, _ => false end.
(* equality of two maps as finite functions *)
Definition amap_eqb {A} (eqb : A -> A -> bool) (m1 m2 : amap A) : bool :=
  forallb (fun k => opt_eqb eqb (aget m1 k) (aget m2 k)) (akeys m1 ++ akeys m2).

(* ------------------------------------------------------------------ the Value trait *)
Record vops (V : Type) := mkvops {
  v_const : const -> V;
  v_bits : V -> Z;
  v_shl : V -> Z -> res V;
  v_shr : V -> Z -> res V;
  v_trun : V -> Z -> res V;
  v_zext : V -> Z -> res V;
  v_or : V -> V -> res V;
  v_eqb : V -> V -> bool
}.
Arguments v_const {V}. Arguments v_bits {V}. Arguments v_shl {V}. Arguments v_shr {V}.
Arguments v_trun {V}. Arguments v_zext {V}. Arguments v_or {V}. Arguments v_eqb {V}.

(* impl Value for il::Constant: every operation builds an Expression through the checked
   constructors and evaluates it *)
Definition cv_shl (c : const) (n : Z) : res const :=
  e <- mk_bin Shl (EConst c) (expr_const n (cbits c)) ;; eval e.
Definition cv_shr (c : const) (n : Z) : res const :=
  e <- mk_bin Shr (EConst c) (expr_const n (cbits c)) ;; eval e.
Definition cv_trun (c : const) (bits : Z) : res const := e <- mk_ext Trun bits (EConst c) ;; eval e.
Definition cv_zext (c : const) (bits : Z) : res const := e <- mk_ext Zext bits (EConst c) ;; eval e.
Definition cv_or (a b : const) : res const := e <- mk_bin Or (EConst a) (EConst b) ;; eval e.
Definition COps : vops const :=
  mkvops const (fun c => c) cbits cv_shl cv_shr cv_trun cv_zext cv_or const_eqb.

(* impl Value for il::Expression: constructors only *)
Definition ev_shl (x : expr) (n : Z) : res expr := mk_bin Shl x (expr_const n (e_bits x)).
Definition ev_shr (x : expr) (n : Z) : res expr := mk_bin Shr x (expr_const n (e_bits x)).
Definition EOps : vops expr :=
  mkvops expr EConst e_bits ev_shl ev_shr (fun x b => mk_ext Trun b x) (fun x b => mk_ext Zext b x)
         (mk_bin Or) expr_eqb.

(* `.map_err(|e| e.chain(..))`: Error::Chain is reported as EOther by fvh::err_kind *)
Definition chain {A} (r : res A) : res A := match r with Err _ => Err EOther | x => x end.

Section Model.
  Context {V : Type} (W : vops V).

  Inductive cell := CVal (v : V) | CRef (b : Z).
  Record page := mkpage { p_cells : amap cell; p_perm : option perm }.
  Record mem := mkmem { m_back : option backing; m_end : endian; m_pages : amap page }.

  Definition cell_eqb (a b : cell) : bool :=
    match a, b with
    | CVal x, CVal y => v_eqb W x y
    | CRef x, CRef y => x =? y
    | _, _ => false
    end.
  (* derived PartialEq of Page: the cell vector, then the permissions *)
  Definition page_eqb (p q : page) : bool :=
    amap_eqb cell_eqb (p_cells p) (p_cells q) && optZ_eqb (p_perm p) (p_perm q).

  (* Memory::new / new_with_backing *)
  Definition mnew (e : endian) (b : option backing) : mem := mkmem b e [].

  (* Memory::store_cell *)
  Definition store_cell (m : mem) (a : Z) (c : cell) : mem :=
    let pa := page_addr a in
    let off := page_off a in
    match aget (m_pages m) pa with
    | Some p => mkmem (m_back m) (m_end m) (aset (m_pages m) pa (mkpage (aset (p_cells p) off c) (p_perm p)))
    | None => mkmem (m_back m) (m_end m) (aset (m_pages m) pa (mkpage [(off, c)] None))
    end.
  (* Memory::load_cell *)
  Definition load_cell (m : mem) (a : Z) : option cell :=
    match aget (m_pages m) (page_addr a) with
    | Some p => aget (p_cells p) (page_off a)
    | None => None
    end.
  (* Memory::load_backing *)
  Definition load_backing (m : mem) (a : Z) : option V :=
    match ob_get8 (m_back m) a with Some y => Some (v_const W (new_big y 8)) | None => None end.

  (* Memory::store_no_backref : `address + i as u64` is a checked addition *)
  Fixpoint backrefs (n : nat) (m : mem) (a i : Z) : res mem :=
    match n with
    | O => Ok m
    | S n' => x <- uadd a i ;; backrefs n' (store_cell m x (CRef a)) a (i + 1)
    end.
  Definition store_no_backref (m : mem) (a : Z) (v : V) : res mem :=
    let bytes := v_bits W v / 8 in
    backrefs (Z.to_nat (bytes - 1)) (store_cell m a (CVal v)) a 1.

  (* Memory::load, "our first load" *)
  Definition first (m : mem) (a bits : Z) : res (option V) :=
    match load_cell m a with
    | Some (CVal v) =>
        if v_bits W v <=? bits then Ok (Some v)
        else match m_end m with
             | LE => r <- v_trun W v bits ;; Ok (Some r)
             | BE => d <- usub (v_bits W v) bits ;; s <- v_shr W v d ;; r <- v_trun W s bits ;; Ok (Some r)
             end
    | Some (CRef b) =>
        match load_cell m b with
        | None => Err ECustom
        | Some (CRef _) => Err ECustom
        | Some (CVal v) =>
            p <- match m_end m with
                 | LE => d <- usub a b ;; sh <- umul d 8 ;; tb <- usub (v_bits W v) sh ;;
                         s <- v_shr W v sh ;; chain (v_trun W s tb)
                 | BE => d <- usub a b ;; off <- umul d 8 ;;
                         sh <- (x <- uadd bits off ;;
                                if v_bits W v <=? x then Ok 0
                                else y <- usub (v_bits W v) bits ;; usub y off) ;;
                         t1 <- usub (v_bits W v) off ;; tb <- usub t1 sh ;;
                         s <- v_shr W v sh ;; chain (v_trun W s tb)
                 end ;;
            if bits <? v_bits W p then r <- chain (v_trun W p bits) ;; Ok (Some r) else Ok (Some p)
        end
    | None => Ok (load_backing m a)
    end.

  (* the single-byte fallback loop of Memory::load; `ld8` is the recursive `self.load(_, 8)` *)
  Fixpoint bytewise (ld8 : Z -> res (option V)) (m : mem) (a bits bytes : Z) (n : nat) (off : Z)
           (acc : option V) : res (option V) :=
    match n with
    | O => Ok acc
    | S n' =>
        x <- uadd a off ;;
        o <- ld8 x ;;
        match (match o with Some v => Some v | None => load_backing m x end) with
        | None => Ok None
        | Some v =>
            z <- v_zext W v bits ;;
            sh <- match m_end m with
                  | BE => d <- usub bytes off ;; d1 <- usub d 1 ;; umul d1 8
                  | LE => umul off 8
                  end ;;
            s <- v_shl W z sh ;;
            acc' <- match acc with Some r => v_or W r s | None => Ok s end ;;
            bytewise ld8 m a bits bytes n' (off + 1) (Some acc')
        end
    end.

  (* Memory::load.  The recursion `self.load(address + offset, 8)` is bounded by `fuel`:
     an 8-bit load whose first phase did not produce 8 bits would recurse for ever in Rust
     (stack exhaustion); the model says Panic.  Unreachable under the invariant (load_f_fuel). *)
  Fixpoint load_f (fuel : nat) (m : mem) (a bits : Z) : res (option V) :=
    match fuel with
    | O => Panic
    | S fuel' =>
        if negb (bits mod 8 =? 0) then Err ECustom
        else if bits =? 0 then Err ECustom
        else
          f <- first m a bits ;;
          match f with
          | None => Ok None
          | Some lv =>
              if v_bits W lv =? bits then Ok (Some lv)
              else bytewise (fun x => load_f fuel' m x 8) m a bits (bits / 8) (Z.to_nat (bits / 8)) 0 None
          end
    end.
  Definition load (m : mem) (a bits : Z) : res (option V) := load_f 2 m a bits.

  (* Memory::store (as repaired: the end of the write and the two `backref_furthest_address` are
     computed in u128, so a write may end exactly at 2^64 -- there is then no cell after it and the
     tail phase is skipped -- and a write reaching beyond 2^64 is an error, not a panic).
     u128 sums cannot overflow here; the u128 subtractions are checked; `as usize` truncates.
     An `Err` raised after the first re-homing would leave the Rust memory partially updated; the
     model returns the error only (no such error exists under the invariant: store_ok). *)
  Definition store (m : mem) (a : Z) (v : V) : res mem :=
    let bits := v_bits W v in
    if negb (bits mod 8 =? 0) || (bits =? 0) then Err ECustom else
    let endw := a + bits / 8 in
    if USIZE <? endw then Err ECustom else
    vtw <- (if endw =? USIZE then Ok None else
            match load_cell m endw with
            | Some (CRef b) =>
                match load_cell m b with
                | None => Err ECustom
                | Some (CRef _) => Err ECustom
                | Some (CVal bv) =>
                    let far := b + v_bits W bv / 8 in
                    d <- usub far endw ;;
                    load m endw ((d * 8) mod USIZE)
                end
            | _ => Ok None
            end) ;;
    m1 <- match vtw with Some w => store_no_backref m endw w | None => Ok m end ;;
    vtw2 <- match load_cell m1 a with
            | Some (CRef b) =>
                c <- res_of_option (load_cell m1 b) ;;
                bv <- match c with CVal bv => Ok bv | CRef _ => Panic end ;;
                let far := b + v_bits W bv / 8 in
                d <- usub far a ;;
                lb <- usub (v_bits W bv) ((d * 8) mod USIZE) ;;
                r <- load m1 b lb ;;
                Ok (Some (b, r))
            | _ => Ok None
            end ;;
    m2 <- match vtw2 with
          | Some (b, r) => w <- res_of_option r ;; store_no_backref m1 b w
          | None => Ok m1
          end ;;
    store_no_backref m2 a v.

  (* impl PartialEq for Memory (as repaired: two memories without backing compare by pages/endian) *)
  Definition mem_eqb (m1 m2 : mem) : bool :=
    if amap_eqb page_eqb (m_pages m1) (m_pages m2) && endian_eqb (m_end m1) (m_end m2) then
      match m_back m1, m_back m2 with
      | Some b1, Some b2 => backing_eqb b1 b2          (* RC::ptr_eq || == *)
      | None, None => true
      | _, _ => false
      end
    else false.

  (* Memory::permissions (as repaired: a page without permissions of its own falls back) *)
  Definition permissions (m : mem) (a : Z) : option perm :=
    match (match aget (m_pages m) (page_addr a) with Some p => p_perm p | None => None end) with
    | Some p => Some p
    | None => ob_perm (m_back m) a
    end.

  Definition page_set_perm (m : mem) (pa : Z) (p : perm) : mem :=
    match aget (m_pages m) pa with
    | Some pg => mkmem (m_back m) (m_end m) (aset (m_pages m) pa (mkpage (p_cells pg) (Some p)))
    | None => mkmem (m_back m) (m_end m) (aset (m_pages m) pa (mkpage [] (Some p)))
    end.
  (* Memory::set_permissions (as repaired): `while offset < total_length`, page = page_address + offset *)
  Fixpoint set_perm_loop (fuel : nat) (m : mem) (pa off total : Z) (p : perm) : res mem :=
    if off <? total then
      match fuel with
      | O => Panic
      | S f => x <- uadd pa off ;; off' <- uadd off PAGE_SIZE ;;
               set_perm_loop f (page_set_perm m x p) pa off' total p
      end
    else Ok m.
  Definition set_permissions (m : mem) (a len : Z) (p : perm) : res mem :=
    let pa := page_addr a in
    total <- uadd len (a - pa) ;;
    set_perm_loop (Z.to_nat (total / PAGE_SIZE + 1)) m pa 0 total p.
End Model.

Arguments CVal {V} v. Arguments CRef {V} b.
Arguments mkpage {V}. Arguments p_cells {V}. Arguments p_perm {V}.
Arguments mkmem {V}. Arguments m_back {V}. Arguments m_end {V}. Arguments m_pages {V}.
Arguments mnew {V}. Arguments backrefs {V}.
Arguments load_cell {V}. Arguments store_cell {V}.
Arguments permissions {V}. Arguments set_permissions {V}. Arguments page_set_perm {V}. Arguments set_perm_loop {V}.
