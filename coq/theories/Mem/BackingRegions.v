(* Mem/BackingRegions.v -- "region" at the level of the specification: the visible part of one region
   write.  The code never inspects the permission payload, so a history can be run with payloads
   (permissions, writer id); erasing the ids gives the real run (pmap lemmas).  On the tagged run
   every stored section is a maximal run of addresses showing the same writer id; hence four consecutive
   addresses that show the same region write lie in one stored section, and get32/set32 succeed there. *)
From Coq Require Import ZArith List Bool Lia.
From Falcon Require Import Base.Res IL.Const Mem.Backing Mem.BackingSpec Mem.BackingProofs.
Import ListNotations.
Local Open Scope Z_scope.

Definition rmap {A B} (g : A -> B) (r : res A) : res B :=
  match r with Ok x => Ok (g x) | Err e => Err e | Panic => Panic end.

(* ------------------------------------------------------------------ the payload is never inspected *)
Section PMap.
Context {P Q : Type} (f : P -> Q).

Definition pmap (s : sections P) : sections Q :=
  map (fun kv => (fst kv, (fst (snd kv), f (snd (snd kv))))) s.

Lemma bt_get_pmap s k : bt_get (pmap s) k = option_map (fun v => (fst v, f (snd v))) (bt_get s k).
Proof.
  induction s as [|[a [d p]] t IH]; [reflexivity|]. cbn [pmap map bt_get fst snd].
  destruct (a =? k); [reflexivity|apply IH].
Qed.

Lemma bt_insert_pmap s k d p : bt_insert (pmap s) k (d, f p) = pmap (bt_insert s k (d, p)).
Proof.
  induction s as [|[a [d0 p0]] t IH]; [reflexivity|]. cbn [pmap map bt_insert fst snd].
  destruct (k <? a); [reflexivity|]. destruct (k =? a); [reflexivity|].
  cbn [map fst snd]. f_equal. apply IH.
Qed.

Lemma bt_remove_pmap s k : bt_remove (pmap s) k = pmap (bt_remove s k).
Proof.
  induction s as [|[a [d0 p0]] t IH]; [reflexivity|]. cbn [pmap map bt_remove fst snd].
  destruct (a =? k); [reflexivity|]. cbn [map fst snd]. f_equal. apply IH.
Qed.

Lemma bt_le_pmap s k : bt_le (pmap s) k = option_map (fun kv => (fst kv, (fst (snd kv), f (snd (snd kv))))) (bt_le s k).
Proof.
  induction s as [|[a [d p]] t IH]; [reflexivity|]. cbn [pmap map bt_le fst snd].
  destruct (a <=? k); [|reflexivity]. fold (pmap t). rewrite IH. destruct (bt_le t k); reflexivity.
Qed.

Lemma snap_pmap s : snap (pmap s) = snap s.
Proof. unfold snap, pmap. rewrite map_map. reflexivity. Qed.

Lemma step_pmap ad n s al : step ad n (pmap s) al = rmap pmap (step ad n s al).
Proof.
  unfold step. destruct (fst al <? ad).
  - destruct (ad <? fst al + snd al); [|reflexivity].
    destruct (fst al + snd al <=? ad + n).
    + rewrite bt_get_pmap. destruct (bt_get s (fst al)) as [[d p]|]; cbn [option_map fst snd rmap]; [|reflexivity].
      rewrite bt_insert_pmap. reflexivity.
    + rewrite bt_get_pmap. destruct (bt_get s (fst al)) as [[d p]|]; cbn [option_map fst snd rmap]; [|reflexivity].
      destruct (len d <? (ad + n - fst al) mod U64); [reflexivity|].
      rewrite !bt_insert_pmap, bt_get_pmap.
      destruct (bt_get _ (fst al)) as [[d2 p2]|]; cbn [option_map fst snd rmap]; [|reflexivity].
      rewrite bt_insert_pmap. reflexivity.
  - destruct (fst al + snd al <=? ad + n).
    + rewrite bt_get_pmap. destruct (bt_get s (fst al)) as [[d p]|]; cbn [option_map fst snd rmap]; [|reflexivity].
      rewrite bt_remove_pmap. reflexivity.
    + destruct (fst al <? ad + n); [|reflexivity].
      rewrite bt_get_pmap. destruct (bt_get s (fst al)) as [[d p]|]; cbn [option_map fst snd rmap]; [|reflexivity].
      destruct (len d <? (ad + n - fst al) mod U64); [reflexivity|].
      rewrite bt_remove_pmap, bt_insert_pmap. reflexivity.
Qed.

Lemma loop_pmap ad n als : forall s, loop ad n (pmap s) als = rmap pmap (loop ad n s als).
Proof.
  induction als as [|al t IH]; intros s; [reflexivity|]. cbn [loop]. rewrite step_pmap.
  destruct (step ad n s al) as [s1| |]; cbn [bind rmap]; try reflexivity. apply IH.
Qed.

Lemma set_memory_pmap s ad data p : set_memory (pmap s) ad data (f p) = rmap pmap (set_memory s ad data p).
Proof.
  unfold set_memory. destruct data as [|b data]; [reflexivity|].
  rewrite snap_pmap, loop_pmap. destruct (loop ad _ s (snap s)) as [s1| |]; cbn [bind rmap]; try reflexivity.
  rewrite bt_insert_pmap. reflexivity.
Qed.

Lemma section_address_pmap s x : section_address (pmap s) x = section_address s x.
Proof.
  unfold section_address. rewrite bt_le_pmap. destruct (bt_le s x) as [[a [d p]]|]; reflexivity.
Qed.

Lemma set32_pmap be s x v : set32 be (pmap s) x v = rmap pmap (set32 be s x v).
Proof.
  unfold set32. rewrite section_address_pmap.
  destruct (section_address s x) as [[a|]| |]; cbn [bind rmap]; try reflexivity.
  rewrite bt_get_pmap. destruct (bt_get s a) as [[d p]|]; cbn [option_map fst snd rmap]; [|reflexivity].
  destruct (len d <? x - a + 4); [reflexivity|]. rewrite bt_insert_pmap. reflexivity.
Qed.

Lemma get32_pmap be s x : get32 be (pmap s) x = get32 be s x.
Proof.
  unfold get32. rewrite section_address_pmap.
  destruct (section_address s x) as [[a|]| |]; cbn [bind]; try reflexivity.
  rewrite bt_get_pmap. destruct (bt_get s a) as [[d p]|]; reflexivity.
Qed.

End PMap.

(* ------------------------------------------------------------------ tagged histories *)
Section Regions.
Context {P : Type}.
Notation T := (P * nat)%type.

Definition tag_op (i : nat) (o : @hop P) : @hop T :=
  match o with HWrite a d p => HWrite a d (p, i) | HSet32 a v => HSet32 a v end.
Fixpoint tag_ops (i : nat) (ops : list (@hop P)) : list (@hop T) :=
  match ops with [] => [] | o :: t => tag_op i o :: tag_ops (S i) t end.

(* the real run is the tagged run with the ids erased *)
Lemma run_ops_erase be ops : forall i (s : sections T),
  run_ops be (pmap fst s) ops = rmap (pmap fst) (run_ops be s (tag_ops i ops)).
Proof.
  induction ops as [|o t IH]; intros i s; [reflexivity|]. cbn [tag_ops run_ops].
  destruct o as [a d p|a v]; cbn [tag_op].
  - change p with (fst (p, i)) at 1. rewrite set_memory_pmap.
    destruct (set_memory s a d (p, i)) as [s1|e|]; cbn [rmap]; [apply IH|apply IH|reflexivity].
  - rewrite set32_pmap. destruct (set32 be s a v) as [s1|e|]; cbn [rmap]; [apply IH|apply IH|reflexivity].
Qed.

(* every stored section is a maximal run of one writer id, and ids are below k *)
Definition id_at (m : amap T) (x : Z) : option nat := option_map (fun r => snd (snd r)) (m x).

Definition maximal (k : nat) (s : sections T) : Prop :=
  forall a d p i, In (a, (d, (p, i))) s ->
    (i < k)%nat /\ id_at (abs s) (a - 1) <> Some i /\ id_at (abs s) (a + len d) <> Some i.

Lemma in_bt_insert (s : sections T) k v x : In x (bt_insert s k v) -> x = (k, v) \/ In x s.
Proof.
  induction s as [|[a w] t IH]; cbn [bt_insert]; [intros [E|[]]; auto|].
  destruct (k <? a); [intros [E|H]; auto|].
  destruct (k =? a); [intros [E|H]; [auto|right; right; assumption]|].
  intros [E|H]; [right; left; assumption|]. destruct (IH H); [auto|right; right; assumption].
Qed.

Lemma in_adjust ad n (s : sections T) a' d' q : 0 < n ->
  In (a', (d', q)) (adjust ad n s) ->
  exists a d, In (a, (d, q)) s /\
    (a' = a \/ (a' = ad + n /\ a < ad + n)) /\
    (a' + len d' = a + len d \/ (a' + len d' = ad /\ ad < a + len d)) /\
    (a' + len d' <= ad \/ ad + n <= a').
Proof.
  intros Hn. induction s as [|[a [d p]] t IH]; [intros []|].
  cbn [adjust]. intros H. apply in_app_or in H. destruct H as [H|H].
  - exists a, d. unfold adj1 in H.
    destruct (Z.ltb_spec a ad); [destruct (Z.ltb_spec ad (a + len d)); [destruct (Z.leb_spec (a + len d) (ad + n))|]|
      destruct (Z.leb_spec (a + len d) (ad + n)); [|destruct (Z.ltb_spec a (ad + n))]];
    cbn [In] in H; repeat (destruct H as [H|H]; [inversion H; subst; clear H|]); try contradiction;
    (split; [left; reflexivity|]);
    rewrite ?len_firstn_z, ?len_skipn_z by (rewrite ?len_firstn_z; lia); lia.
  - destruct (IH H) as (a0 & d0 & I0 & R). exists a0, d0. split; [right; assumption|assumption].
Qed.

Lemma id_at_overwrite (m : amap T) a d p i x :
  id_at (overwrite m a d (p, i)) x = if (a <=? x) && (x <? a + len d) then Some i else id_at m x.
Proof.
  unfold id_at, overwrite.
  destruct (Z.leb_spec a x); destruct (Z.ltb_spec x (a + len d)); cbn [andb].
  - destruct (region_at_some a d (p, i) x) as (b & _ & E); [lia|]. rewrite E. reflexivity.
  - assert (N : region_at a d (p, i) x = None) by (apply region_at_none; lia). rewrite N. reflexivity.
  - assert (N : region_at a d (p, i) x = None) by (apply region_at_none; lia). rewrite N. reflexivity.
  - assert (N : region_at a d (p, i) x = None) by (apply region_at_none; lia). rewrite N. reflexivity.
Qed.

Lemma id_at_ext (m m' : amap T) x : m x = m' x -> id_at m x = id_at m' x.
Proof. unfold id_at. intros ->. reflexivity. Qed.

Lemma find_sec_in (s : sections T) x v : find_sec s x = Some v -> In v s.
Proof.
  induction s as [|[a9 [d9 q9]] t IH]; [discriminate|]. cbn [find_sec].
  destruct ((a9 <=? x) && (x <? a9 + len d9)); [intros F; inversion F; left; reflexivity|right; auto].
Qed.

Lemma abs_id_in (s : sections T) x i : id_at (abs s) x = Some i -> exists a d p, In (a, (d, (p, i))) s.
Proof.
  unfold id_at. rewrite abs_find. destruct (find_sec s x) as [[a [d [p j]]]|] eqn:F; [|discriminate].
  apply find_sec_in in F.
  destruct (region_at a d (p, j) x) as [r|] eqn:R; [|discriminate].
  apply region_at_some_inv in R. destruct R as (_ & R). cbn [option_map]. rewrite R. cbn [snd].
  intros H. inversion H; subst. eauto.
Qed.

Lemma set_memory_maximal k (s : sections T) ad data p s' :
  wf 0 s -> maximal k s -> 0 <= ad -> ad + len data <= U64 ->
  set_memory s ad data (p, k) = Ok s' -> wf 0 s' /\ maximal (S k) s'.
Proof.
  intros W M A B E. destruct (set_memory_spec s ad data (p, k) W A B) as (s1 & E1 & W1 & A1).
  rewrite E in E1. inversion E1; subst s1. split; [assumption|].
  destruct (Z.eq_dec (len data) 0) as [Z0|NZ].
  { apply len_nil_inv in Z0. subst data. cbn in E. inversion E; subst s'.
    intros a d q i H. destruct (M a d q i H) as (M1 & M2 & M3). repeat split; try assumption. lia. }
  assert (L : 0 < len data) by (pose proof (len_nonneg data); lia).
  assert (Es : s' = bt_insert (adjust ad (len data) s) ad (data, (p, k))).
  { rewrite set_memory_nonempty in E by assumption.
    assert (Hl : loop ad (len data) ([] ++ s) (snap s) = Ok ([] ++ adjust ad (len data) s)).
    { eapply loop_adjust with (lo := 0); first [assumption | lia | constructor]. }
    cbn [app] in Hl. rewrite Hl in E. cbn [bind] in E. inversion E. reflexivity. }
  assert (OLD : forall x j, id_at (abs s) x = Some j -> (j < k)%nat).
  { intros x j H. destruct (abs_id_in s x j H) as (a & d & q & I0). apply (M a d q j I0). }
  assert (IDS : forall x, id_at (abs s') x = if (ad <=? x) && (x <? ad + len data) then Some k else id_at (abs s) x).
  { intros x. rewrite (id_at_ext _ _ x (A1 x)). apply id_at_overwrite. }
  intros a' d' q i H. rewrite Es in H. apply in_bt_insert in H. destruct H as [H|H].
  - inversion H; subst a' d' q i. split; [lia|]. rewrite !IDS.
    destruct (Z.leb_spec ad (ad - 1)); [lia|]. cbn [andb].
    destruct (Z.ltb_spec (ad + len data) (ad + len data)); [lia|]. rewrite andb_false_r.
    split; intros C; apply OLD in C; lia.
  - apply in_adjust in H; [|assumption]. destruct H as (a & d & I0 & Ha & He & Hd).
    destruct (M a d q i I0) as (M1 & M2 & M3). split; [lia|]. rewrite !IDS.
    assert (Wd : 0 < len d' \/ True) by (right; exact I).
    split.
    + destruct (Z.leb_spec ad (a' - 1)); destruct (Z.ltb_spec (a' - 1) (ad + len data)); cbn [andb];
        try (intros C; inversion C; lia).
      all: destruct Ha as [Ha|(Ha & Ha')]; [subst a'; exact M2|lia].
    + destruct (Z.leb_spec ad (a' + len d')); destruct (Z.ltb_spec (a' + len d') (ad + len data)); cbn [andb];
        try (intros C; inversion C; lia).
      all: destruct He as [He|(He & He')]; [rewrite He; exact M3|lia].
Qed.

Lemma maximal_mono k k' (s : sections T) : maximal k s -> (k <= k')%nat -> maximal k' s.
Proof. intros M L a d p i H. destruct (M a d p i H) as (M1 & M2 & M3). repeat split; try assumption. lia. Qed.

Lemma id_at_write32 be (m : amap T) x v y : id_at (write32 be m x v) y = id_at m y.
Proof.
  unfold id_at, write32. destruct (Z.leb_spec x y); destruct (Z.ltb_spec y (x + 4)); cbn [andb]; try reflexivity.
  destruct (m y) as [[b t]|]; [|reflexivity].
  destruct (nth_error (mem_bytes32 be v) (Z.to_nat (y - x))) eqn:E; [reflexivity|].
  apply nth_error_None in E. assert (length (mem_bytes32 be v) = 4%nat) by (destruct be; reflexivity). lia.
Qed.

Lemma set32_maximal be k (s : sections T) x v s' :
  wf 0 s -> maximal k s -> set32 be s x v = Ok s' -> wf 0 s' /\ maximal k s'.
Proof.
  intros W M E. pose proof (set32_spec_thm be s x v W) as S.
  destruct (find_sec s x) as [[a [d q]]|]; [|congruence].
  destruct (x + 4 <=? a + len d); [|congruence].
  destruct S as (s1 & E1 & W1 & A1 & L1). rewrite E in E1. inversion E1; subst s1. split; [assumption|].
  intros a' d' p i H.
  assert (H2 : exists d0, In (a', (d0, (p, i))) s /\ len d0 = len d').
  { apply (in_map (fun kv => (fst kv, len (fst (snd kv)), snd (snd kv)))) in H. rewrite L1 in H.
    apply in_map_iff in H. destruct H as ([a0 [d0 q0]] & Eq & I0). cbn [fst snd] in Eq. inversion Eq; subst.
    exists d0. split; [assumption|reflexivity]. }
  destruct H2 as (d0 & I0 & Ld). destruct (M a' d0 p i I0) as (M1 & M2 & M3).
  split; [assumption|]. rewrite !(id_at_ext _ _ _ (A1 _)), !id_at_write32. rewrite <- Ld. split; assumption.
Qed.

Theorem tagged_run_inv be ops : forall k (s s' : sections T),
  Forall hop_ok ops -> wf 0 s -> maximal k s -> run_ops be s (tag_ops k ops) = Ok s' ->
  wf 0 s' /\ maximal (k + length ops) s'.
Proof.
  induction ops as [|o t IH]; intros k s s' F W M E.
  - cbn in E. inversion E; subst. split; [assumption|]. eapply maximal_mono; [eassumption|lia].
  - inversion F as [|? ? Ho Ft]; subst. cbn [tag_ops run_ops] in E. cbn [length].
    replace (k + S (length t))%nat with (S k + length t)%nat by lia.
    destruct o as [a d p|a v]; cbn [tag_op] in E.
    + destruct Ho as (A & B). destruct (set_memory s a d (p, k)) as [s1|e|] eqn:E1.
      * destruct (set_memory_maximal k s a d p s1 W M A B E1) as (W1 & M1). eapply IH; eassumption.
      * destruct (set_memory_spec s a d (p, k) W A B) as (s2 & E2 & _). congruence.
      * discriminate.
    + destruct (set32 be s a v) as [s1|e|] eqn:E1; [| |discriminate].
      * destruct (set32_maximal be k s a v s1 W M E1) as (W1 & M1).
        eapply IH; [assumption|exact W1|eapply maximal_mono; [exact M1|lia]|exact E].
      * eapply IH; [assumption|exact W|eapply maximal_mono; [exact M|lia]|exact E].
Qed.

(* four consecutive addresses showing the same region write lie in one stored section *)
Definition same_write (m : amap T) (x : Z) : Prop :=
  exists i, id_at m x = Some i /\ id_at m (x + 1) = Some i /\ id_at m (x + 2) = Some i /\ id_at m (x + 3) = Some i.

Lemma same_write_one_section k (s : sections T) x : wf 0 s -> maximal k s -> same_write (abs s) x ->
  exists a d q, find_sec s x = Some (a, (d, q)) /\ x + 4 <= a + len d.
Proof.
  intros W M (i & I0 & I1 & I2 & I3).
  pose proof I0 as J0. unfold id_at in J0. rewrite abs_find in J0.
  destruct (find_sec s x) as [[a [d [p j]]]|] eqn:F; [|discriminate].
  destruct (find_sec_inv _ _ _ _ _ _ W F) as (_ & _ & R & _).
  destruct (region_at a d (p, j) x) as [r|] eqn:Rg; [|discriminate].
  apply region_at_some_inv in Rg. destruct Rg as (_ & Rg). cbn [option_map] in J0. rewrite Rg in J0. cbn [snd] in J0.
  inversion J0; subst j.
  exists a, d, (p, i). split; [reflexivity|].
  destruct (Z.le_gt_cases (x + 4) (a + len d)) as [|C]; [assumption|exfalso].
  destruct (M a d p i (find_sec_in _ _ _ F)) as (_ & _ & M3).
  assert (Y : a + len d = x + 1 \/ a + len d = x + 2 \/ a + len d = x + 3) by lia.
  destruct Y as [Y|[Y|Y]]; rewrite Y in M3; congruence.
Qed.

Lemma maximal_nil : maximal 0 (@nil (Z * section T)).
Proof. intros a d p i []. Qed.

(* [U] for every history (regions not wrapping): if after it four consecutive addresses show the same
   region write, get32 there returns the four bytes in the memory's endianness, and set32 there replaces
   exactly them, keeping every permission and writer -- on the REAL run (ids erased) *)
Theorem region_access_thm be (ops : list (@hop P)) (s : sections T) x :
  Forall hop_ok ops -> run_ops be [] (tag_ops 0 ops) = Ok s -> same_write (abs s) x ->
  run_ops be [] ops = Ok (pmap fst s) /\
  (exists v, read32 be (abs s) x = Some v /\ get32 be (pmap fst s) x = Ok (Some v)) /\
  (forall v, exists s', set32 be s x v = Ok s' /\ set32 be (pmap fst s) x v = Ok (pmap fst s') /\
                        wf 0 s' /\ forall y, abs s' y = write32 be (abs s) x v y).
Proof.
  intros F E SW.
  destruct (tagged_run_inv be ops 0 [] s F I maximal_nil E) as (W & M).
  destruct (same_write_one_section _ s x W M SW) as (a & d & q & Fs & R).
  split; [|split].
  - change (@nil (Z * section P)) with (pmap (@fst P nat) []). rewrite (run_ops_erase be ops 0), E. reflexivity.
  - destruct (get32_within be s x a d q W Fs R) as (v & R32 & G). exists v. split; [assumption|].
    rewrite get32_pmap. assumption.
  - intros v. destruct (set32_within be s x v a d q W Fs R) as (s' & E' & W' & A' & _).
    exists s'. split; [assumption|]. split; [rewrite set32_pmap, E'; reflexivity|]. split; assumption.
Qed.

End Regions.
