(* Mem/C08Check.v -- per-case checker evaluated in the kernel by the C08 case files.
   A case is a history over up to three memory handles with the result the implementation
   produced after every operation.
     fst (tie)    : replaying the history in the model (Paged.v, V = il::Constant) gives
                    exactly the observed results;
     snd (oracle) : the observed results satisfy the specification (PagedSpec.v), computed
                    from the logs of stores / set_permissions, never from the model.
   The oracle is silent where the property is: widths that are not a positive multiple of 8,
   address ranges reaching beyond 2^64 (ranges ending exactly at 2^64 are judged), pages named by
   an empty set_permissions range. *)
From Coq Require Import ZArith List Bool NArith.
From Falcon Require Import Base.Res IL.Const IL.Expr Mem.PagedTypes Mem.Paged Mem.PagedSpec.
Import ListNotations.
Local Open Scope Z_scope.

Inductive op :=
| OStore (h : nat) (a : Z) (vw vv : Z)         (* store the constant vv:vw at a *)
| OLoad (h : nat) (a bits : Z)
| OClone (src dst : nat)
| ONew (h : nat) (e : endian) (b : option nat)  (* fresh memory; backing = entry of the case's table *)
| OSetPerm (h : nat) (a len : Z) (p : perm)
| OPerm (h : nat) (a : Z)
| OEq (h1 h2 : nat).

Inductive obs :=
| BUnit (r : res unit)
| BLoad (r : res (option const))
| BPerm (r : res (option Z))
| BEq (r : res bool).

Inductive case := KHist (e : endian) (backs : list backing) (b0 : option nat) (ops : list (op * obs)).

Definition unit_eqb (_ _ : unit) : bool := true.
Definition obs_eqb (x y : obs) : bool :=
  match x, y with
  | BUnit a, BUnit b => res_eqb unit_eqb a b
  | BLoad a, BLoad b => res_eqb (opt_eqb const_eqb) a b
  | BPerm a, BPerm b => res_eqb optZ_eqb a b
  | BEq a, BEq b => res_eqb Bool.eqb a b
  | _, _ => false
  end.

Fixpoint set_nth {A} (l : list A) (n : nat) (x : A) : option (list A) :=
  match l, n with
  | [], _ => None
  | _ :: t, O => Some (x :: t)
  | y :: t, S n' => match set_nth t n' x with Some t' => Some (y :: t') | None => None end
  end.

Definition get_back (backs : list backing) (b : option nat) : option (option backing) :=
  match b with
  | None => Some None
  | Some i => match nth_error backs i with Some bk => Some (Some bk) | None => None end
  end.

(* ------------------------------------------------------------------ tie: model replay *)
Definition cmem := @mem const.

(* one model step: the model's observable result and the state afterwards (None after a panic,
   where the Rust handle may be half-updated and the harness ends the history) *)
Definition mstep (backs : list backing) (st : list cmem) (o : op) : option (obs * option (list cmem)) :=
  match o with
  | OStore h a vw vv =>
      match nth_error st h with
      | None => None
      | Some m =>
          match store COps m a (mkc vw vv) with
          | Ok m' => match set_nth st h m' with Some st' => Some (BUnit (Ok tt), Some st') | None => None end
          | Err e => Some (BUnit (Err e), Some st)
          | Panic => Some (BUnit Panic, None)
          end
      end
  | OLoad h a bits =>
      match nth_error st h with
      | None => None
      | Some m => let r := load COps m a bits in
                  Some (BLoad r, match r with Panic => None | _ => Some st end)
      end
  | OClone s d =>
      match nth_error st s with
      | None => None
      | Some m => match set_nth st d m with Some st' => Some (BUnit (Ok tt), Some st') | None => None end
      end
  | ONew h e b =>
      match get_back backs b with
      | None => None
      | Some bk => match set_nth st h (mnew e bk) with Some st' => Some (BUnit (Ok tt), Some st') | None => None end
      end
  | OSetPerm h a len p =>
      match nth_error st h with
      | None => None
      | Some m =>
          match set_permissions m a len p with
          | Ok m' => match set_nth st h m' with Some st' => Some (BUnit (Ok tt), Some st') | None => None end
          | Err e => Some (BUnit (Err e), Some st)
          | Panic => Some (BUnit Panic, None)
          end
      end
  | OPerm h a =>
      match nth_error st h with
      | None => None
      | Some m => Some (BPerm (Ok (permissions m a)), Some st)
      end
  | OEq h1 h2 =>
      match nth_error st h1, nth_error st h2 with
      | Some m1, Some m2 => Some (BEq (Ok (mem_eqb COps m1 m2)), Some st)
      | _, _ => None
      end
  end.

Fixpoint replay (backs : list backing) (st : list cmem) (ops : list (op * obs)) : bool :=
  match ops with
  | [] => true
  | (o, ob) :: t =>
      match mstep backs st o with
      | None => false
      | Some (mo, st') =>
          obs_eqb mo ob &&
          match st' with
          | Some s => replay backs s t
          | None => match t with [] => true | _ => false end
          end
      end
  end.

(* ------------------------------------------------------------------ oracle: specification *)
Record shandle := mksh {
  s_e : endian; s_back : option backing;
  s_log : list sstore; s_plog : list sperm;
  s_gen : N     (* identity of the contents: copied by clone, renewed by every mutation *)
}.

Definition valid_width (w : Z) : bool := (w mod 8 =? 0) && (8 <=? w).

(* addresses at which two byte arrays over these logs/backings could differ (and one before) *)
Definition cand_store (s : sstore) : list Z :=
  map (fun i => ss_a s - 1 + Z.of_nat i) (seq 0 (Z.to_nat (cbits (ss_c s) / 8 + 2))).
Definition cand_sec (s : section) : list Z :=
  map (fun i => fst s - 1 + Z.of_nat i) (seq 0 (S (S (length (fst (snd s)))))).
Definition cands (h : shandle) : list Z :=
  flat_map cand_store (s_log h) ++
  match s_back h with Some b => flat_map cand_sec (b_secs b) | None => [] end.

Definition same_loads (h1 h2 : shandle) : bool :=
  let b1 := byte_at (s_e h1) (s_back h1) (s_log h1) in
  let b2 := byte_at (s_e h2) (s_back h2) (s_log h2) in
  forallb (fun x => opt_eqb const_eqb (load_spec (s_e h1) b1 x 1) (load_spec (s_e h2) b2 x 1) &&
                    opt_eqb const_eqb (load_spec (s_e h1) b1 x 2) (load_spec (s_e h2) b2 x 2))
          (cands h1 ++ cands h2).

Definition is_ok_unit (ob : obs) : bool := match ob with BUnit (Ok _) => true | _ => false end.

(* None = the rest of the history is outside the property's statement (silent) *)
Definition ostep (backs : list backing) (gen : N) (st : list shandle) (o : op) (ob : obs)
  : bool * option (N * list shandle) :=
  match o with
  | OStore h a vw vv =>
      match nth_error st h with
      | None => (false, None)
      | Some s =>
          if valid_width vw && (a + vw / 8 <=? USIZE) then
            (* any byte-multiple width at any address whose range lies in the address space,
               ranges ending exactly at 2^64 included: the store must succeed *)
            let s' := mksh (s_e s) (s_back s) (mkss a (mkc vw vv) :: s_log s) (s_plog s) gen in
            match set_nth st h s' with
            | Some st' => (is_ok_unit ob, Some (N.succ gen, st'))
            | None => (false, None)
            end
          else match ob with     (* bad width, or a range that wraps 2^64: silent *)
               | BUnit (Err _) => (true, Some (gen, st))   (* a rejected store stores nothing *)
               | _ => (true, None)
               end
      end
  | OLoad h a bits =>
      match nth_error st h with
      | None => (false, None)
      | Some s =>
          if valid_width bits && (a + bits / 8 <=? USIZE) then
            (obs_eqb ob (BLoad (Ok (load_spec (s_e s) (byte_at (s_e s) (s_back s) (s_log s)) a (bits / 8)))),
             Some (gen, st))
          else (true, match ob with BLoad Panic => None | _ => Some (gen, st) end)
      end
  | OClone sr d =>
      match nth_error st sr with
      | None => (false, None)
      | Some s => match set_nth st d s with
                  | Some st' => (is_ok_unit ob, Some (gen, st'))
                  | None => (false, None)
                  end
      end
  | ONew h e b =>
      match get_back backs b with
      | None => (false, None)
      | Some bk => match set_nth st h (mksh e bk [] [] gen) with
                   | Some st' => (is_ok_unit ob, Some (N.succ gen, st'))
                   | None => (false, None)
                   end
      end
  | OSetPerm h a len p =>
      match nth_error st h with
      | None => (false, None)
      | Some s =>
          if a + len <=? USIZE then
            let s' := mksh (s_e s) (s_back s) (s_log s) (mksp a len p :: s_plog s) gen in
            match set_nth st h s' with
            | Some st' => (is_ok_unit ob, Some (N.succ gen, st'))
            | None => (false, None)
            end
          else (true, None)
      end
  | OPerm h a =>
      match nth_error st h with
      | None => (false, None)
      | Some s =>
          (match perm_at (s_back s) (s_plog s) a with
           | Some expected => obs_eqb ob (BPerm (Ok expected))
           | None => true
           end, Some (gen, st))
      end
  | OEq h1 h2 =>
      match nth_error st h1, nth_error st h2 with
      | Some s1, Some s2 =>
          (match ob with
           | BEq (Ok b) =>
               (* reflexive on unmodified clones; equal memories load identically *)
               (if N.eqb (s_gen s1) (s_gen s2) then b else true) &&
               (if b then same_loads s1 s2 else true)
           | _ => false
           end, Some (gen, st))
      | _, _ => (false, None)
      end
  end.

Fixpoint oracle (backs : list backing) (gen : N) (st : list shandle) (ops : list (op * obs)) : bool :=
  match ops with
  | [] => true
  | (o, ob) :: t =>
      let '(ok, nx) := ostep backs gen st o ob in
      ok && match nx with Some (g, st') => oracle backs g st' t | None => true end
  end.

Definition ck (k : case) : bool * bool :=
  match k with
  | KHist e backs b0 ops =>
      match get_back backs b0 with
      | None => (false, false)
      | Some bk =>
          let m := mnew e bk in
          let s := mksh e bk [] [] 0%N in
          (replay backs [m; m; m] ops, oracle backs 1%N [s; s; s] ops)
      end
  end.
