(* Mem/BackingFree.v -- writes into free space: a region write that overlaps no stored section only adds
   one section (nothing is cut), so pairwise disjoint region writes end as one stored section each.
   Used by C19 to discharge "the relocation slot lies inside one stored section" from the ELF description. *)
From Coq Require Import ZArith List Bool Lia.
From Falcon Require Import Base.Res IL.Const Mem.Backing Mem.BackingSpec Mem.BackingProofs.
Import ListNotations.
Local Open Scope Z_scope.

Section Free.
Context {P : Type}.
Notation sections := (sections P).

Lemma In_find_sec (s : sections) : forall lo a d p x, wf lo s -> In (a, (d, p)) s -> a <= x < a + len d ->
  find_sec s x = Some (a, (d, p)).
Proof.
  induction s as [|[a0 [d0 p0]] t IH]; intros lo a d p x W I R; [destruct I|].
  cbn in W. destruct W as (W1 & W2 & W3 & W4). cbn [find_sec]. destruct I as [E|I].
  - inversion E; subst. destruct (Z.leb_spec a x); destruct (Z.ltb_spec x (a + len d)); try lia. reflexivity.
  - pose proof (wf_keys_ge _ _ W4) as G. pose proof (proj1 (Forall_forall _ _) G _ I) as Ga. cbn [fst snd] in Ga.
    destruct (Z.leb_spec a0 x); destruct (Z.ltb_spec x (a0 + len d0)); cbn [andb]; try lia; eapply IH; eassumption.
Qed.

(* no stored section overlaps [ad, ad + n) *)
Definition free (s : sections) (ad n : Z) : Prop :=
  Forall (fun kv => fst kv + len (fst (snd kv)) <= ad \/ ad + n <= fst kv) s.

Lemma abs_none_free (s : sections) lo ad n : wf lo s -> 0 < n -> (forall y, ad <= y < ad + n -> abs s y = None) -> free s ad n.
Proof.
  intros W N H. apply Forall_forall. intros [a [d p]] I. cbn [fst snd].
  destruct (wf_disjoint _ _ W) as (_ & NE). pose proof (proj1 (Forall_forall _ _) NE _ I) as L. cbn [fst snd] in L.
  destruct (Z.le_gt_cases (a + len d) ad) as [|C1]; [left; assumption|].
  destruct (Z.le_gt_cases (ad + n) a) as [|C2]; [right; assumption|]. exfalso.
  set (y := Z.max a ad). assert (Ry : a <= y < a + len d) by (unfold y; lia).
  specialize (H y ltac:(unfold y; lia)). rewrite abs_find, (In_find_sec s lo a d p y W I Ry) in H.
  destruct (region_at_some a d p y Ry) as (b & _ & E). congruence.
Qed.

Lemma adjust_free (s : sections) ad n : forall lo, wf lo s -> 0 <= n -> free s ad n -> adjust ad n s = s.
Proof.
  induction s as [|[a [d p]] t IH]; intros lo W N F; [reflexivity|].
  cbn in W. destruct W as (W1 & W2 & W3 & W4). inversion F as [|? ? Fa Ft]; subst. cbn [fst snd] in Fa.
  cbn [adjust]. rewrite (IH _ W4 N Ft). unfold adj1.
  destruct (Z.ltb_spec a ad); [destruct (Z.ltb_spec ad (a + len d)); [lia|reflexivity]|].
  destruct (Z.leb_spec (a + len d) (ad + n)); [lia|]. destruct (Z.ltb_spec a (ad + n)); [lia|reflexivity].
Qed.

Lemma bt_insert_in_new (s : sections) k v : In (k, v) (bt_insert s k v).
Proof.
  induction s as [|[a w] t IH]; cbn [bt_insert]; [left; reflexivity|].
  destruct (k <? a); [left; reflexivity|]. destruct (k =? a); [left; reflexivity|right; assumption].
Qed.

Lemma bt_insert_in_old (s : sections) k v x : In x s -> fst x <> k -> In x (bt_insert s k v).
Proof.
  induction s as [|[a w] t IH]; intros I N; [destruct I|]. cbn [bt_insert].
  destruct (k <? a); [right; assumption|]. destruct (Z.eqb_spec k a).
  - destruct I as [E|I]; [subst x; cbn in N; congruence|right; assumption].
  - destruct I as [E|I]; [left; assumption|right; apply IH; assumption].
Qed.

(* [U] a non-empty write into free space: the old sections stay as they are, the region is one new section *)
Theorem set_memory_free (s : sections) ad data (p : P) :
  wf 0 s -> 0 <= ad -> ad + len data <= U64 -> 0 < len data -> free s ad (len data) ->
  exists s', set_memory s ad data p = Ok s' /\ wf 0 s' /\ In (ad, (data, p)) s' /\ (forall x, In x s -> In x s') /\
             (forall x, abs s' x = overwrite (abs s) ad data p x).
Proof.
  intros W A B L F. destruct (set_memory_spec s ad data p W A B) as (s' & E & W' & A').
  exists s'. split; [assumption|]. split; [assumption|].
  assert (Es : s' = bt_insert s ad (data, p)).
  { rewrite set_memory_nonempty in E by assumption.
    assert (Hl : loop ad (len data) ([] ++ s) (snap s) = Ok ([] ++ adjust ad (len data) s)).
    { eapply loop_adjust with (lo := 0); first [assumption | lia | constructor]. }
    cbn [app] in Hl. rewrite Hl in E. cbn [bind] in E. inversion E.
    rewrite (adjust_free s ad (len data) 0 W ltac:(lia) F). reflexivity. }
  subst s'. split; [apply bt_insert_in_new|]. split; [|assumption].
  intros [a [d q]] I. apply bt_insert_in_old; [assumption|]. cbn [fst].
  pose proof (proj1 (Forall_forall _ _) F _ I) as Fa. cbn [fst snd] in Fa.
  destruct (wf_disjoint _ _ W) as (_ & NE). pose proof (proj1 (Forall_forall _ _) NE _ I) as La. cbn [fst snd] in La. lia.
Qed.

(* copy of a section list into a memory (ElfLinker::load_elf): when the list is invariant and all of it is free
   in the memory, every section of both survives uncut, and the result denotes the list over the memory *)
Fixpoint copy_all (m : sections) (l : sections) : res sections :=
  match l with
  | [] => Ok m
  | (a, (d, p)) :: t => m' <- set_memory m a d p ;; copy_all m' t
  end.

Theorem copy_all_free (l : sections) : forall lo m, wf lo l -> 0 <= lo -> wf 0 m ->
  (forall y, abs l y <> None -> abs m y = None) ->
  exists m', copy_all m l = Ok m' /\ wf 0 m' /\ (forall x, In x m -> In x m') /\ (forall x, In x l -> In x m') /\
             (forall y, abs m' y = match abs l y with Some r => Some r | None => abs m y end).
Proof.
  induction l as [|[a [d p]] t IH]; intros lo m W L0 Wm H.
  - exists m. split; [reflexivity|]. split; [assumption|]. split; [auto|]. split; [intros x []|reflexivity].
  - pose proof W as W0. cbn in W. destruct W as (W1 & W2 & W3 & W4). cbn [copy_all].
    assert (Fr : free m a (len d)).
    { eapply abs_none_free; [exact Wm|assumption|]. intros y Ry. apply H. cbn [abs]. unfold overwrite.
      destruct (region_at_some a d p y Ry) as (b & _ & E). rewrite E. discriminate. }
    destruct (set_memory_free m a d p Wm ltac:(lia) W3 W2 Fr) as (m1 & E1 & W1' & I1 & P1 & A1).
    rewrite E1. cbn [bind].
    assert (H1 : forall y, abs t y <> None -> abs m1 y = None).
    { intros y Hy. rewrite A1. unfold overwrite.
      assert (Ny : region_at a d p y = None).
      { destruct (region_at a d p y) eqn:R; [|reflexivity]. apply region_at_some_inv in R.
        rewrite (abs_below t (a + len d) y W4) in Hy by lia. congruence. }
      rewrite Ny. apply H. cbn [abs]. unfold overwrite. rewrite Ny. assumption. }
    destruct (IH (a + len d) m1 W4 ltac:(lia) W1' H1) as (m' & E' & W' & Pm & Pl & A').
    exists m'. split; [assumption|]. split; [assumption|]. split; [auto|]. split.
    + intros x [Ex|Ix]; [subst x; apply Pm; assumption|apply Pl; assumption].
    + intros y. rewrite A'. cbn [abs]. unfold overwrite. rewrite A1. unfold overwrite.
      destruct (abs t y) eqn:At; [|destruct (region_at a d p y); reflexivity].
      assert (Ny : region_at a d p y = None).
      { destruct (region_at a d p y) eqn:R; [|reflexivity]. apply region_at_some_inv in R.
        rewrite (abs_below t (a + len d) y W4) in At by lia. discriminate. }
      rewrite Ny. reflexivity.
Qed.

End Free.
