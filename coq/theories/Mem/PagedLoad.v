(* Mem/PagedLoad.v -- `load` of the model returns the specified bytes (Proofs only).
   Part 1: the Value operations on il::Constant used by load;  Part 2: the first phase;
   Part 3: the byte-wise reassembly;  Part 4: abs_load. *)
From Coq Require Import ZArith List Bool Lia ZifyBool.
From Falcon Require Import Base.Res IL.Const IL.ConstSpec IL.ConstProofs IL.Expr
     Mem.PagedTypes Mem.Paged Mem.PagedSpec Mem.PagedCells Mem.PagedProofs.
Import ListNotations.
Local Open Scope Z_scope.
Ltac Zify.zify_post_hook ::= Z.div_mod_to_equations.

(* ------------------------------------------------------------------ value operations *)
Lemma expr_const_small n w : 0 <= w -> 0 <= n < 2^w -> expr_const n w = EConst (mkc w n).
Proof. intros Hw Hn. unfold expr_const. rewrite new_big_spec by assumption. rewrite U_small by (split; lia). reflexivity. Qed.

Lemma cv_trun_ok w a n : 0 <= n < w -> cv_trun (mkc w a) n = Ok (mkc n (a mod 2^n)).
Proof.
  intros Hn. unfold cv_trun, mk_ext. cbn [e_bits cbits].
  destruct (Z.leb_spec w n); [lia|]. destruct (Z.eqb_spec w 0); [lia|]. cbn [orb bind eval c_ext].
  rewrite c_trun_spec by lia. destruct (Z.leb_spec w n); [lia|]. reflexivity.
Qed.

Lemma cv_zext_ok w a n : 0 < w < n -> inr w a -> cv_zext (mkc w a) n = Ok (mkc n a).
Proof.
  intros Hn Ha. unfold cv_zext, mk_ext. cbn [e_bits cbits].
  destruct (Z.leb_spec n w); [lia|]. destruct (Z.eqb_spec w 0); [lia|]. cbn [orb bind eval c_ext].
  rewrite c_zext_spec by (assumption || lia). destruct (Z.leb_spec n w); [lia|]. reflexivity.
Qed.

Lemma cv_shr_ok w a n : 0 < w < 2^64 -> inr w a -> 0 <= n < w -> cv_shr (mkc w a) n = Ok (mkc w (a / 2^n)).
Proof.
  intros Hw Ha Hn. unfold cv_shr. cbn [cbits].
  pose proof (lt_pow2 w ltac:(lia)).
  rewrite expr_const_small by lia. unfold mk_bin. cbn [e_bits cbits]. rewrite Z.eqb_refl. cbn [negb bind eval c_bin].
  rewrite c_shr_spec by (try assumption; try lia; split; lia).
  unfold s_shr. destruct (Z.leb_spec w n); [lia|]. reflexivity.
Qed.

Lemma cv_shl_ok w a n : 0 < w < 2^64 -> 0 <= n < w -> 0 <= a -> a * 2^n < 2^w ->
  cv_shl (mkc w a) n = Ok (mkc w (a * 2^n)).
Proof.
  intros Hw Hn Ha Hb. unfold cv_shl. cbn [cbits].
  pose proof (lt_pow2 w ltac:(lia)).
  rewrite expr_const_small by lia. unfold mk_bin. cbn [e_bits cbits]. rewrite Z.eqb_refl. cbn [negb bind eval c_bin].
  rewrite c_shl_spec by (try lia; split; lia).
  unfold s_shl. destruct (Z.leb_spec w n); [lia|]. rewrite U_small; [reflexivity|].
  split; [|assumption]. apply Z.mul_nonneg_nonneg; [assumption|]. apply Z.pow_nonneg. lia.
Qed.

Lemma cv_or_ok w a b : 0 <= w -> inr w a -> inr w b -> cv_or (mkc w a) (mkc w b) = Ok (mkc w (Z.lor a b)).
Proof.
  intros Hw Ha Hb. unfold cv_or, mk_bin. cbn [e_bits cbits]. rewrite Z.eqb_refl. cbn [negb bind eval c_bin].
  rewrite c_or_spec by assumption. reflexivity.
Qed.

(* ------------------------------------------------------------------ invariant and abstraction of the model *)
(* representation invariant of a memory: the cell-level invariant, and every occupied cell lies
   in the u64 address space (so a stored value ends at 2^64 at the latest) *)
Definition InvM (m : cmem) : Prop :=
  Inv (load_cell m) /\ forall x, load_cell m x <> None -> 0 <= x < 2^64.
Lemma InvM_range (m : cmem) : InvM m -> forall b v, load_cell m b = Some (CVal v) -> 0 <= b /\ b + vk v <= 2^64.
Proof.
  intros [[I1 I2] D] b v E. destruct (I2 b v E) as [(Hk & _) Hfill].
  assert (Hb: 0 <= b < 2^64) by (apply D; rewrite E; discriminate).
  destruct (Z.eq_dec (vk v) 1) as [E1|N1]; [lia|].
  assert (Hl: 0 <= b + vk v - 1 < 2^64) by (apply D; rewrite (Hfill (b + vk v - 1)) by lia; discriminate).
  lia.
Qed.
(* the byte array a memory denotes *)
Definition mabs (m : cmem) : Z -> option Z := abs (m_end m) (ob_get8 (m_back m)) (load_cell m).

Lemma abs_of_val e back c a w i : Inv c -> c a = Some (CVal w) -> 0 <= i < vk w ->
  abs e back c (a + i) = Some (bo e w i).
Proof.
  intros [I1 I2] E Hi. destruct (I2 a w E) as [_ Hfill]. unfold abs.
  destruct (Z.eq_dec i 0) as [->|N].
  - rewrite Z.add_0_r, E. reflexivity.
  - rewrite (Hfill (a + i)) by lia. rewrite E. do 2 f_equal. lia.
Qed.

Lemma mod_mod_pow x m n : 0 <= n <= m -> (x mod 2^(8*m)) mod 2^(8*n) = x mod 2^(8*n).
Proof.
  intros H. symmetry. apply Znumtheory.Zmod_div_mod; try (apply Z.pow_pos_nonneg; lia).
  exists (2^(8*(m-n))). rewrite <- Z.pow_add_r by lia. f_equal. lia.
Qed.

(* what the first phase returns: nothing iff the first byte is absent, else a well-formed value of
   at most n bytes whose bytes are the abstract bytes at a.. *)
Definition first_post (m : cmem) (a n : Z) (r : option const) : Prop :=
  match r with
  | None => mabs m a = None
  | Some p => wfv p /\ vk p <= n /\ forall i, 0 <= i < vk p -> mabs m (a + i) = Some (bo (m_end m) p i)
  end.

Lemma subval_post (m : cmem) b w i0 k a n :
  InvM m -> load_cell m b = Some (CVal w) -> a = b + i0 -> 0 <= i0 -> 1 <= k -> i0 + k <= vk w -> k <= n ->
  first_post m a n (Some (subval (m_end m) w i0 k)).
Proof.
  intros [HI HR] E -> Hi Hk Hle Hn. pose proof HI as [I1 I2]. destruct (I2 b w E) as [Hw _].
  cbn [first_post]. split; [apply subval_wf_in; [assumption|lia|lia]|]. rewrite vk_subval. split; [assumption|].
  intros i Hr. rewrite bo_subval by lia. replace (b + i0 + i) with (b + (i0 + i)) by lia.
  unfold mabs. apply abs_of_val; [assumption|assumption|lia].
Qed.

Ltac mkc_eq := unfold subval; rewrite ?vk_mkc; cbn [cbits cval]; repeat (f_equal; try lia).

Lemma wfv_shape w : wfv w -> exists k v, w = mkc (8 * k) v /\ 1 <= k /\ 8 * k < 2^63 /\ 0 <= v < 2^(8*k).
Proof.
  intros (Hk & Hb & Hlt & Hr). exists (vk w), (cval w). destruct w as [wb wv]. cbn [cbits cval] in Hb |- *.
  split; [rewrite <- Hb; reflexivity|]. auto.
Qed.

Lemma first_ok (m : cmem) a n : InvM m -> back_ok (m_back m) -> 1 <= n -> 8 * n < 2^63 ->
  exists r, first COps m a (8 * n) = Ok r /\ first_post m a n r.
Proof.
  intros HM Hbk Hn Hn64. pose proof HM as [HI HR]. pose proof HI as [I1 I2]. unfold first.
  destruct (load_cell m a) as [[w|b]|] eqn:Ea.
  - (* a value starts here *)
    destruct (I2 a w Ea) as [Hw _]. destruct (wfv_shape w Hw) as (k & wv & -> & Hk & Hk64 & Hr).
    cbn [v_bits COps cbits].
    destruct (Z.leb_spec (8 * k) (8 * n)).
    + eexists. split; [reflexivity|]. cbn [first_post]. split; [assumption|]. rewrite vk_mkc. split; [lia|].
      intros i Hi. unfold mabs. apply abs_of_val; [assumption|assumption|rewrite vk_mkc; assumption].
    + destruct (m_end m) eqn:Ee; cbn [v_trun v_shr COps].
      * rewrite cv_trun_ok by lia. cbn [bind]. eexists. split; [reflexivity|].
        replace (mkc (8 * n) (wv mod 2 ^ (8 * n))) with (subval (m_end m) (mkc (8 * k) wv) 0 n)
          by (rewrite Ee; unfold subval; cbn [cval]; rewrite Z.mul_0_r, Z.pow_0_r, Z.div_1_r; reflexivity).
        apply (subval_post m a (mkc (8 * k) wv) 0 n a n); try assumption; rewrite ?vk_mkc; lia.
      * rewrite usub_ok by lia. cbn [bind].
        rewrite cv_shr_ok by (try lia; split; lia). cbn [bind].
        rewrite cv_trun_ok by lia. cbn [bind]. eexists. split; [reflexivity|].
        replace (mkc (8 * n) ((wv / 2 ^ (8 * k - 8 * n)) mod 2 ^ (8 * n))) with (subval (m_end m) (mkc (8 * k) wv) 0 n)
          by (rewrite Ee; mkc_eq).
        apply (subval_post m a (mkc (8 * k) wv) 0 n a n); try assumption; rewrite ?vk_mkc; lia.
  - (* inside a value that starts at b *)
    destruct (I1 a b Ea) as (w & Eb & Hab). rewrite Eb. destruct (I2 b w Eb) as [Hw _].
    destruct (InvM_range m HM b w Eb) as [Hb0 Hb64].
    destruct (wfv_shape w Hw) as (k & wv & -> & Hk & Hk64 & Hr). rewrite vk_mkc in Hab, Hb64.
    cbn [v_bits COps cbits]. set (d := a - b). assert (Hd: 1 <= d < k) by (unfold d; lia).
    assert (POST: forall k', 1 <= k' -> d + k' <= k -> k' <= n ->
                  first_post m a n (Some (subval (m_end m) (mkc (8 * k) wv) d k'))).
    { intros k' H1 H2 H3. apply (subval_post m b (mkc (8 * k) wv) d k' a n); try assumption; rewrite ?vk_mkc; unfold d; lia. }
    destruct (m_end m) eqn:Ee; cbn [v_trun v_shr COps].
    + (* little endian *)
      rewrite usub_ok by lia. cbn [bind]. fold d. rewrite umul_ok by lia. cbn [bind].
      rewrite usub_ok by lia. cbn [bind].
      rewrite cv_shr_ok by (try lia; split; lia). cbn [bind].
      rewrite cv_trun_ok by lia. cbn [chain bind cbits].
      destruct (Z.ltb_spec (8 * n) (8 * k - d * 8)).
      * rewrite cv_trun_ok by lia. cbn [chain bind]. eexists. split; [reflexivity|].
        replace (8 * k - d * 8) with (8 * (k - d)) by lia. rewrite mod_mod_pow by lia.
        replace (mkc (8 * n) ((wv / 2 ^ (d * 8)) mod 2 ^ (8 * n))) with (subval LE (mkc (8 * k) wv) d n) by mkc_eq.
        apply POST; lia.
      * eexists. split; [reflexivity|].
        replace (mkc (8 * k - d * 8) ((wv / 2 ^ (d * 8)) mod 2 ^ (8 * k - d * 8)))
          with (subval LE (mkc (8 * k) wv) d (k - d)) by mkc_eq.
        apply POST; lia.
    + (* big endian *)
      rewrite usub_ok by lia. cbn [bind]. fold d. rewrite umul_ok by lia. cbn [bind].
      rewrite uadd_ok by lia. cbn [bind].
      destruct (Z.leb_spec (8 * k) (8 * n + d * 8)); cbn [bind].
      * rewrite usub_ok by lia. cbn [bind]. rewrite usub_ok by lia. cbn [bind].
        rewrite cv_shr_ok by (try lia; split; lia). cbn [bind].
        rewrite cv_trun_ok by lia. cbn [chain bind cbits].
        destruct (Z.ltb_spec (8 * n) (8 * k - d * 8 - 0)); [lia|].
        eexists. split; [reflexivity|].
        replace (mkc (8 * k - d * 8 - 0) ((wv / 2 ^ 0) mod 2 ^ (8 * k - d * 8 - 0)))
          with (subval BE (mkc (8 * k) wv) d (k - d)) by mkc_eq.
        apply POST; lia.
      * rewrite usub_ok by lia. cbn [bind]. rewrite usub_ok by lia. cbn [bind].
        rewrite usub_ok by lia. cbn [bind]. rewrite usub_ok by lia. cbn [bind].
        rewrite cv_shr_ok by (try lia; split; lia). cbn [bind].
        rewrite cv_trun_ok by lia. cbn [chain bind cbits].
        destruct (Z.ltb_spec (8 * n) (8 * k - d * 8 - (8 * k - 8 * n - d * 8))); [lia|].
        eexists. split; [reflexivity|].
        replace (mkc (8 * k - d * 8 - (8 * k - 8 * n - d * 8))
                     ((wv / 2 ^ (8 * k - 8 * n - d * 8)) mod 2 ^ (8 * k - d * 8 - (8 * k - 8 * n - d * 8))))
          with (subval BE (mkc (8 * k) wv) d n) by mkc_eq.
        apply POST; lia.
  - (* no cell: the backing *)
    unfold load_backing. destruct (ob_get8 (m_back m) a) as [y|] eqn:Ey.
    + pose proof (Hbk a y Ey) as Hy. eexists. split; [reflexivity|]. cbn [v_const COps].
      rewrite new_big_spec by lia. rewrite U_small by (split; lia).
      cbn [first_post]. change (vk (mkc 8 y)) with 1.
      split; [unfold wfv; change (vk (mkc 8 y)) with 1; cbn [cbits cval]; lia|]. split; [lia|].
      intros i Hi. assert (i = 0) by lia. subst i. rewrite Z.add_0_r. unfold mabs, abs. rewrite Ea, Ey. f_equal.
      unfold bo. change (vk (mkc 8 y)) with 1. unfold byte_of. cbn [cval].
      replace (8 * pos (m_end m) 1 0) with 0 by (destruct (m_end m); cbn; lia).
      rewrite Z.pow_0_r, Z.div_1_r. symmetry. apply Z.mod_small. lia.
    + eexists. split; [reflexivity|]. cbn [first_post]. unfold mabs, abs. rewrite Ea, Ey. reflexivity.
Qed.

(* ------------------------------------------------------------------ gathering and assembling bytes *)
Fixpoint tab (d : Z -> Z) (i : Z) (n : nat) : list Z :=
  match n with O => [] | Datatypes.S n' => d i :: tab d (i + 1) n' end.

Lemma gather_tab bm a d n : forall t0, (forall t, t0 <= t < t0 + Z.of_nat n -> bm (a + t) = Some (d t)) ->
  gather bm (a + t0) n = Some (tab d t0 n).
Proof.
  induction n as [|n IH]; intros t0 H; cbn [gather tab]; [reflexivity|].
  rewrite (H t0) by lia. replace (a + t0 + 1) with (a + (t0 + 1)) by lia.
  rewrite IH; [reflexivity|]. intros t Ht. apply H. lia.
Qed.

Lemma gather_none bm a n : forall t0 t, t0 <= t < t0 + Z.of_nat n -> bm (a + t) = None -> gather bm (a + t0) n = None.
Proof.
  induction n as [|n IH]; intros t0 t Ht E; [lia|]. cbn [gather].
  destruct (Z.eq_dec t t0) as [->|N]; [rewrite E; reflexivity|].
  replace (a + t0 + 1) with (a + (t0 + 1)) by lia. rewrite (IH (t0 + 1) t) by (assumption || lia).
  destruct (bm (a + t0)); reflexivity.
Qed.

Lemma Zlength_tab d n : forall i, Zlength (tab d i n) = Z.of_nat n.
Proof. induction n as [|n IH]; intros i; cbn [tab]; [reflexivity|]. rewrite Zlength_cons, IH. lia. Qed.

Lemma pow8_succ n : 0 <= n -> 2^(8 * (n + 1)) = 256 * 2^(8 * n).
Proof. intros. replace (8 * (n + 1)) with (8 + 8 * n) by lia. rewrite Z.pow_add_r by lia. reflexivity. Qed.

(* little endian: digit t has weight 256^t *)
Lemma asmLE u k n : forall j, 0 <= j ->
  assemble_from LE k j (tab (fun t => (u / 2^(8*t)) mod 256) j n) = ((u / 2^(8*j)) mod 2^(8 * Z.of_nat n)) * 2^(8*j).
Proof.
  induction n as [|n IH]; intros j Hj; cbn [tab assemble_from].
  - cbn [Z.of_nat]. rewrite Z.mul_0_r, Z.pow_0_r, Z.mod_1_r. reflexivity.
  - rewrite IH by lia. cbn [pos]. rewrite Nat2Z.inj_succ. unfold Z.succ.
    rewrite (pow8_succ (Z.of_nat n)) by lia. rewrite (pow8_succ j) by lia.
    assert (P: 0 < 2^(8*j)) by (apply Z.pow_pos_nonneg; lia).
    assert (M: 0 < 2^(8 * Z.of_nat n)) by (apply Z.pow_pos_nonneg; lia).
    replace (u / (256 * 2^(8*j))) with (u / 2^(8*j) / 256) by (rewrite Z.div_div by lia; f_equal; lia).
    rewrite (Z.rem_mul_r (u / 2^(8*j)) 256 (2^(8 * Z.of_nat n))) by lia. ring.
Qed.

(* big endian: digit t of k has weight 256^(k-1-t) *)
Lemma asmBE u k n : forall j, 0 <= j -> j + Z.of_nat n = k ->
  assemble_from BE k j (tab (fun t => (u / 2^(8*(k-1-t))) mod 256) j n) = u mod 2^(8 * Z.of_nat n).
Proof.
  induction n as [|n IH]; intros j Hj Hk; cbn [tab assemble_from].
  - cbn [Z.of_nat]. rewrite Z.mul_0_r, Z.pow_0_r, Z.mod_1_r. reflexivity.
  - rewrite IH by lia. cbn [pos]. rewrite Nat2Z.inj_succ in *. unfold Z.succ in *.
    replace (k - 1 - j) with (Z.of_nat n) by lia.
    rewrite (pow8_succ (Z.of_nat n)) by lia.
    assert (M: 0 < 2^(8 * Z.of_nat n)) by (apply Z.pow_pos_nonneg; lia).
    replace (256 * 2^(8 * Z.of_nat n)) with (2^(8 * Z.of_nat n) * 256) by ring.
    rewrite (Z.rem_mul_r u (2^(8 * Z.of_nat n)) 256) by lia. ring.
Qed.

(* a well-formed constant is the assembly of its own bytes *)
Lemma assemble_own e n v : 0 <= n -> 0 <= v < 2^(8*n) ->
  assemble e (tab (fun t => byte_of e n v t) 0 (Z.to_nat n)) = v.
Proof.
  intros Hn Hv. unfold assemble. rewrite Zlength_tab, Z2Nat.id by lia.
  destruct e; unfold byte_of; cbn [pos].
  - rewrite asmLE by lia. rewrite Z2Nat.id by lia. rewrite Z.mul_0_r, Z.pow_0_r, Z.div_1_r, Z.mul_1_r.
    apply Z.mod_small. assumption.
  - rewrite asmBE by (rewrite ?Z2Nat.id; lia). rewrite Z2Nat.id by lia. apply Z.mod_small. assumption.
Qed.

(* ------------------------------------------------------------------ the single-byte loads *)
Lemma mabs_none (m : cmem) x : InvM m -> mabs m x = None -> load_backing COps m x = None.
Proof.
  intros [[I1 I2] _]. unfold mabs, abs, load_backing.
  destruct (load_cell m x) as [[w|b]|] eqn:E; [discriminate| |].
  - destruct (I1 x b E) as (w & Eb & _). rewrite Eb. discriminate.
  - intros ->. reflexivity.
Qed.

Lemma load8 (m : cmem) x : InvM m -> back_ok (m_back m) ->
  load_f COps 1 m x 8 = Ok (match mabs m x with Some y => Some (mkc 8 y) | None => None end) /\
  forall y, mabs m x = Some y -> 0 <= y < 256.
Proof.
  intros HM Hbk. cbn [load_f]. change (8 mod 8 =? 0) with true. change (8 =? 0) with false. cbn [negb].
  change 8 with (8 * 1) at 1.
  destruct (first_ok m x 1 HM Hbk ltac:(lia) ltac:(lia)) as (r & E & P). rewrite E. cbn [bind].
  destruct r as [p|]; cbn [first_post] in P.
  - destruct P as (Hw & Hk1 & Hb). destruct (wfv_shape p Hw) as (k & v & -> & Hk & _ & Hr).
    rewrite vk_mkc in Hk1, Hb. assert (k = 1) by lia. subst k.
    cbn [v_bits COps cbits]. change (8 * 1 =? 8) with true. cbn iota.
    specialize (Hb 0 ltac:(lia)). rewrite Z.add_0_r in Hb. rewrite Hb.
    assert (Ev: bo (m_end m) (mkc (8 * 1) v) 0 = v).
    { unfold bo. rewrite vk_mkc. unfold byte_of. cbn [cval].
      replace (8 * pos (m_end m) 1 0) with 0 by (destruct (m_end m); cbn; lia).
      rewrite Z.pow_0_r, Z.div_1_r. apply Z.mod_small. change (2^(8*1)) with 256 in Hr. lia. }
    rewrite Ev. split; [reflexivity|]. intros y Ey. injection Ey as <-. change (2^(8*1)) with 256 in Hr. lia.
  - rewrite P. split; [reflexivity|]. discriminate.
Qed.

Lemma shl_bound y sh w : 0 <= y < 256 -> 0 <= sh -> sh + 8 <= w -> y * 2^sh < 2^w.
Proof.
  intros Hy Hs Hw. assert (P: 0 < 2^sh) by (apply Z.pow_pos_nonneg; lia).
  assert (E: 2^(sh + 8) = 2^sh * 256) by (rewrite Z.pow_add_r by lia; reflexivity).
  pose proof (pow_mono_le (sh + 8) w ltac:(lia)). nia.
Qed.

(* ------------------------------------------------------------------ the byte-wise reassembly *)
Section Bytewise.
  Variables (m : cmem) (a n : Z).
  Hypothesis HM : InvM m.
  Hypothesis Hbk : back_ok (m_back m).
  Hypothesis Hn : 2 <= n.
  Hypothesis Hn63 : 8 * n < 2^63.
  Hypothesis Ha : 0 <= a.
  Hypothesis Han : a + n <= 2^64.

  Definition accopt (off accv : Z) : option const := if off =? 0 then None else Some (mkc (8 * n) accv).
  (* the accumulated value occupies exactly the digits processed so far *)
  Definition accinv (e : endian) (off accv : Z) : Prop :=
    match e with
    | LE => 0 <= accv < 2^(8 * off)
    | BE => exists q, 0 <= q < 2^(8 * off) /\ accv = q * 2^(8 * (n - off))
    end.

  Lemma accinv_inr e off accv : 0 <= off <= n -> accinv e off accv -> inr (8 * n) accv.
  Proof.
    intros Ho. destruct e; cbn [accinv].
    - intros H. pose proof (pow_mono_le (8 * off) (8 * n) ltac:(lia)). split; lia.
    - intros (q & Hq & ->).
      assert (E: 2^(8 * n) = 2^(8 * off) * 2^(8 * (n - off))) by (rewrite <- Z.pow_add_r by lia; f_equal; lia).
      assert (P: 0 < 2^(8 * (n - off))) by (apply Z.pow_pos_nonneg; lia).
      split; nia.
  Qed.

  (* one iteration: zext, shl, or *)
  Lemma byte_step off accv y (K : const -> res (option const)) :
    0 <= off < n -> 0 <= y < 256 -> accinv (m_end m) off accv -> (off = 0 -> accv = 0) ->
    (z <- v_zext COps (mkc 8 y) (8 * n) ;;
     sh <- match m_end m with
           | BE => d <- usub n off ;; d1 <- usub d 1 ;; umul d1 8
           | LE => umul off 8
           end ;;
     s <- v_shl COps z sh ;;
     acc' <- match accopt off accv with Some r => v_or COps r s | None => Ok s end ;;
     K acc') = K (mkc (8 * n) (accv + y * 2^(8 * pos (m_end m) n off))) /\
    accinv (m_end m) (off + 1) (accv + y * 2^(8 * pos (m_end m) n off)).
  Proof.
    intros Ho Hy Hacc H0. cbn [v_zext v_shl v_or COps].
    rewrite cv_zext_ok by first [lia | (split; lia)]. cbn [bind].
    pose proof (accinv_inr (m_end m) off accv ltac:(lia) Hacc) as Hin.
    destruct (m_end m) eqn:Ee; cbn [pos accinv] in *.
    - (* LE *)
      rewrite umul_ok by lia. cbn [bind].
      assert (Hb: y * 2^(off * 8) < 2^(8 * n)) by (apply shl_bound; lia).
      rewrite cv_shl_ok by lia. cbn [bind].
      replace (off * 8) with (8 * off) in * by lia.
      assert (P: 0 < 2^(8 * off)) by (apply Z.pow_pos_nonneg; lia).
      assert (Hsum: accinv LE (off + 1) (accv + y * 2^(8 * off))).
      { cbn [accinv]. rewrite pow8_succ by lia. nia. }
      split; [|exact Hsum].
      unfold accopt. destruct (Z.eqb_spec off 0) as [E0|N0]; cbn [bind].
      + rewrite (H0 E0). reflexivity.
      + rewrite cv_or_ok by first [lia | assumption | (split; [nia|lia])]. cbn [bind].
        rewrite lor_lo_hi by first [lia | (split; lia)]. reflexivity.
    - (* BE *)
      rewrite usub_ok by lia. cbn [bind]. rewrite usub_ok by lia. cbn [bind]. rewrite umul_ok by lia. cbn [bind].
      assert (Hb: y * 2^((n - off - 1) * 8) < 2^(8 * n)) by (apply shl_bound; lia).
      rewrite cv_shl_ok by lia. cbn [bind].
      replace ((n - off - 1) * 8) with (8 * (n - 1 - off)) in * by lia.
      destruct Hacc as (q & Hq & Eq).
      assert (P: 0 < 2^(8 * (n - 1 - off))) by (apply Z.pow_pos_nonneg; lia).
      assert (E1: 2^(8 * (n - off)) = 256 * 2^(8 * (n - 1 - off))).
      { replace (n - off) with ((n - 1 - off) + 1) by lia. apply pow8_succ. lia. }
      assert (Hsum: accinv BE (off + 1) (accv + y * 2^(8 * (n - 1 - off)))).
      { cbn [accinv]. exists (q * 256 + y). rewrite pow8_succ by lia.
        replace (n - (off + 1)) with (n - 1 - off) by lia. split; [lia|]. rewrite Eq, E1. ring. }
      split; [|exact Hsum].
      unfold accopt. destruct (Z.eqb_spec off 0) as [E0|N0]; cbn [bind].
      + rewrite (H0 E0). reflexivity.
      + rewrite cv_or_ok by first [lia | assumption | (split; [nia|lia])]. cbn [bind].
        rewrite Eq. rewrite lor_hi_lo by first [lia | (split; [nia|rewrite E1; nia])]. reflexivity.
  Qed.

  Lemma bytewise_ok : forall cnt off accv,
    0 <= off -> off + Z.of_nat cnt = n -> accinv (m_end m) off accv -> (off = 0 -> accv = 0) ->
    bytewise COps (fun x => load_f COps 1 m x 8) m a (8 * n) n cnt off (accopt off accv) =
    Ok (match gather (mabs m) (a + off) cnt with
        | Some l => accopt (off + Z.of_nat cnt) (accv + assemble_from (m_end m) n off l)
        | None => None
        end).
  Proof.
    induction cnt as [|cnt IH]; intros off accv Ho Hc Hacc H0.
    - cbn [bytewise gather assemble_from Z.of_nat]. rewrite !Z.add_0_r. reflexivity.
    - rewrite Nat2Z.inj_succ in Hc. unfold Z.succ in Hc.
      cbn [bytewise gather]. rewrite uadd_ok by lia. cbn [bind].
      destruct (load8 m (a + off) HM Hbk) as [E8 R8]. rewrite E8. cbn [bind].
      destruct (mabs m (a + off)) as [y|] eqn:Ey.
      + pose proof (R8 y eq_refl) as Hy.
        destruct (byte_step off accv y
                   (fun acc' => bytewise COps (fun x => load_f COps 1 m x 8) m a (8 * n) n cnt (off + 1) (Some acc'))
                   ltac:(lia) Hy Hacc H0) as [Est Hacc'].
        rewrite Est.
        assert (Eopt: Some (mkc (8 * n) (accv + y * 2^(8 * pos (m_end m) n off)))
                      = accopt (off + 1) (accv + y * 2^(8 * pos (m_end m) n off))).
        { unfold accopt. destruct (Z.eqb_spec (off + 1) 0); [lia|reflexivity]. }
        rewrite Eopt. rewrite IH by (try lia; try assumption).
        replace (a + off + 1) with (a + (off + 1)) by lia.
        destruct (gather (mabs m) (a + (off + 1)) cnt) as [l|]; [|reflexivity].
        cbn [assemble_from]. rewrite Nat2Z.inj_succ. unfold Z.succ.
        replace (off + 1 + Z.of_nat cnt) with (off + (Z.of_nat cnt + 1)) by lia.
        f_equal. f_equal. lia.
      + rewrite (mabs_none m (a + off) HM Ey). reflexivity.
  Qed.
End Bytewise.

Lemma gather_length bm c : forall a l, gather bm a c = Some l -> Zlength l = Z.of_nat c.
Proof.
  induction c as [|c IH]; intros a l G; cbn [gather] in G.
  - injection G as <-. reflexivity.
  - destruct (bm a); [|discriminate]. destruct (gather bm (a + 1) c) eqn:G2; [|discriminate].
    injection G as <-. rewrite Zlength_cons, (IH _ _ G2). lia.
Qed.

Lemma load_f_S fuel (m : cmem) a bits :
  load_f COps (Datatypes.S fuel) m a bits =
  if negb (bits mod 8 =? 0) then Err ECustom
  else if bits =? 0 then Err ECustom
  else f <- first COps m a bits ;;
       match f with
       | None => Ok None
       | Some lv => if v_bits COps lv =? bits then Ok (Some lv)
                    else bytewise COps (fun x => load_f COps fuel m x 8) m a bits (bits / 8) (Z.to_nat (bits / 8)) 0 None
       end.
Proof. reflexivity. Qed.

(* ------------------------------------------------------------------ abs_load *)
(* a load of n >= 1 bytes whose range lies in the address space returns exactly the specified
   value: the n abstract bytes assembled in the memory's endianness, None iff one is absent *)
Theorem abs_load_l (m : cmem) a n :
  InvM m -> back_ok (m_back m) -> 1 <= n -> 8 * n < 2^63 -> 0 <= a -> a + n <= 2^64 ->
  load COps m a (8 * n) = Ok (load_spec (m_end m) (mabs m) a n).
Proof.
  intros HM Hbk Hn Hn63 Ha Han. unfold load. rewrite load_f_S.
  replace (8 * n mod 8) with 0 by lia. change (0 =? 0) with true. cbn [negb].
  destruct (Z.eqb_spec (8 * n) 0); [lia|].
  destruct (first_ok m a n HM Hbk Hn Hn63) as (r & E & P). rewrite E. cbn [bind].
  unfold load_spec.
  destruct r as [p|]; cbn [first_post] in P.
  - destruct P as (Hw & Hkn & Hb). destruct (wfv_shape p Hw) as (k & v & -> & Hk & _ & Hr).
    rewrite vk_mkc in Hkn, Hb. cbn [v_bits COps cbits].
    destruct (Z.eqb_spec (8 * k) (8 * n)) as [Ek|Nk].
    + (* the first phase produced everything *)
      assert (k = n) by lia. subst k.
      rewrite <- (Z.add_0_r a) at 1.
      rewrite (gather_tab (mabs m) a (fun t => byte_of (m_end m) n v t) (Z.to_nat n) 0).
      * rewrite assemble_own by lia. reflexivity.
      * intros t Ht. rewrite Z2Nat.id in Ht by lia. rewrite Hb by lia. unfold bo. rewrite vk_mkc. reflexivity.
    + (* byte-wise *)
      assert (Hn2: 2 <= n) by lia.
      replace (8 * n / 8) with n by (rewrite Z.mul_comm, Z.div_mul; lia).
      change (@None const) with (accopt n 0 0).
      rewrite (bytewise_ok m a n HM Hbk Hn2 Hn63 Ha Han (Z.to_nat n) 0 0); try lia.
      * rewrite Z.add_0_r. destruct (gather (mabs m) a (Z.to_nat n)) as [l|] eqn:G; [|reflexivity].
        rewrite Z2Nat.id by lia. unfold accopt. destruct (Z.eqb_spec (0 + n) 0); [lia|].
        assert (Zlength l = n) by (rewrite (gather_length _ _ _ _ G), Z2Nat.id; lia).
        unfold assemble. rewrite H. reflexivity.
      * destruct (m_end m); cbn [accinv]; [rewrite Z.mul_0_r; cbn; lia|].
        exists 0. rewrite Z.mul_0_r. cbn. lia.
  - (* first byte absent *)
    rewrite <- (Z.add_0_r a). rewrite (gather_none (mabs m) a (Z.to_nat n) 0 0); [reflexivity| |rewrite Z.add_0_r; exact P].
    rewrite Z2Nat.id; lia.
Qed.
