(* Mem/BackingSpec.v -- specification of property C16, written from the property text and
   independent of the model in Mem/Backing.v:

     a memory is a partial map  address -> (byte, tag)   (tag = permissions, or permissions + writer id)
     a region write overwrites the map on [a, a + |d|)   (last writer wins)
     reads are pointwise; wide reads assemble bytes in the memory's endianness and are absent when
     any byte is absent; a 32-bit write inside one region replaces four bytes and keeps their tags. *)
From Coq Require Import ZArith List Bool.
From Falcon Require Import Base.Res IL.Const.
Import ListNotations.
Local Open Scope Z_scope.

Section Spec.
Context {T : Type}.

Definition amap : Type := Z -> option (Z * T).

Definition empty_map : amap := fun _ => None.

(* the cell a region (a, d, t) provides at address x, if it covers x *)
Definition region_at_slow (a : Z) (d : list Z) (t : T) (x : Z) : option (Z * T) :=
  if a <=? x then
    match nth_error d (Z.to_nat (x - a)) with Some b => Some (b, t) | None => None end
  else None.
(* same function, guarded so that it is cheap to evaluate far away from the region
   (Z.to_nat of a 64-bit distance must never be computed); BackingProofs.region_at_slow_eq *)
Definition region_at (a : Z) (d : list Z) (t : T) (x : Z) : option (Z * T) :=
  if (a <=? x) && (x - a <? Z.of_nat (length d)) then region_at_slow a d t x else None.

(* a region write: the most recent region covering an address wins *)
Definition overwrite (m : amap) (a : Z) (d : list Z) (t : T) : amap :=
  fun x => match region_at a d t x with Some r => Some r | None => m x end.

Definition read8 (m : amap) (x : Z) : option Z := option_map fst (m x).
Definition tag_at (m : amap) (x : Z) : option T := option_map snd (m x).

(* the k bytes at x, x+1, ...; absent when any of them is *)
Fixpoint read_bytes (m : amap) (x : Z) (k : nat) : option (list Z) :=
  match k with
  | O => Some []
  | S k' => match read8 m x, read_bytes m (x + 1) k' with
            | Some b, Some l => Some (b :: l)
            | _, _ => None
            end
  end.

(* little-endian value of a byte string: first byte least significant *)
Fixpoint le_value (l : list Z) : Z :=
  match l with [] => 0 | b :: t => b + 256 * le_value t end.
Definition value_of (be : bool) (l : list Z) : Z := if be then le_value (rev l) else le_value l.

(* arbitrary-width read (bits a positive multiple of 8) *)
Definition read (be : bool) (m : amap) (x bits : Z) : option const :=
  option_map (fun l => mkc bits (value_of be l)) (read_bytes m x (Z.to_nat (bits / 8))).

Definition read32 (be : bool) (m : amap) (x : Z) : option Z :=
  option_map (value_of be) (read_bytes m x 4).

(* the four bytes of a 32-bit value, in memory order *)
Definition le_bytes32 (v : Z) : list Z := [v mod 256; (v / 256) mod 256; (v / 65536) mod 256; (v / 16777216) mod 256].
Definition mem_bytes32 (be : bool) (v : Z) : list Z := if be then rev (le_bytes32 v) else le_bytes32 v.

(* 32-bit write at a: four bytes replaced, tags kept, nothing else altered *)
Definition write32 (be : bool) (m : amap) (a v : Z) : amap :=
  fun x => if (a <=? x) && (x <? a + 4)
           then match m x, nth_error (mem_bytes32 be v) (Z.to_nat (x - a)) with
                | Some (_, t), Some b => Some (b, t)
                | _, _ => None
                end
           else m x.

(* a sequence of region writes, from the empty memory *)
Fixpoint write_all (m : amap) (ws : list (Z * list Z * T)) : amap :=
  match ws with
  | [] => m
  | (a, d, t) :: r => write_all (overwrite m a d t) r
  end.

Definition covers (w : Z * list Z * T) (x : Z) : Prop :=
  fst (fst w) <= x < fst (fst w) + Z.of_nat (length (snd (fst w))).

End Spec.

Arguments amap : clear implicits.
