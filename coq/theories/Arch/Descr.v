(* Arch/Descr.v -- what the C20 harness dumps for one architecture, and a faithful model of the three
   query functions of lib/analysis/calling_convention.rs over those dumped fields.

   A register is a scalar: (name, width in bits).  The dump of one architecture holds
     - the descriptor  (lib/architecture.rs: name, endian, word_size, stack_pointer),
     - the default calling-convention table (lib/analysis/calling_convention.rs, all seven fields),
     - the answers of the query functions (argument_type 0..12, is_preserved / is_trashed on every
       register of the universe and of the table),
     - the translator's register table (hook `verif_registers()`), the scalars and the address widths
       that occur in IL lifted by `Architecture::translator()`, the scalars written by the IL of each
       stack instruction (push / pop / call / ret / frame set-up), an endianness probe,
     - what `loader::Elf::new` answers for an ELF header with this architecture's machine / data. *)
From Coq Require Import ZArith List Bool String Lia.
From Falcon Require Import Base.Res.
Import ListNotations.
Local Open Scope Z_scope.

Definition reg := (string * Z)%type.

Inductive endian := Big | Little.
Definition endian_eqb (a b : endian) : bool :=
  match a, b with Big, Big | Little, Little => true | _, _ => false end.
Lemma endian_eqb_eq a b : endian_eqb a b = true <-> a = b.
Proof. destruct a, b; cbn; split; congruence. Qed.

(* ReturnAddressType and ArgumentType have the same shape: a register or a stack offset (bytes) *)
Inductive loc := LReg (r : reg) | LStack (off : Z).

(* the result of probing the translator with one instruction word stored in both byte orders *)
Inductive probe := PLittle | PBig | PBoth | PNeither.
Definition probe_eqb (a b : probe) : bool :=
  match a, b with PLittle, PLittle | PBig, PBig | PBoth, PBoth | PNeither, PNeither => true | _, _ => false end.
Lemma probe_eqb_eq a b : probe_eqb a b = true <-> a = b.
Proof. destruct a, b; cbn; split; congruence. Qed.
Definition probe_of (e : endian) : probe := match e with Big => PBig | Little => PLittle end.

(* struct CallingConvention *)
Record cc := {
  args : list reg;            (* argument_registers, in order *)
  preserved : list reg;       (* preserved_registers (HashSet, dumped sorted) *)
  trashed : list reg;         (* trashed_registers *)
  stack_off : Z;              (* stack_argument_offset, bytes *)
  stack_len : Z;              (* stack_argument_length, bytes *)
  ret_addr : loc;             (* return_address_type *)
  ret_reg : reg               (* return_register *)
}.

Record dump := {
  d_name : string;
  d_endian : endian;
  d_word : Z;                                   (* word_size, bits *)
  d_sp : reg;                                   (* stack_pointer *)
  d_cc : cc;
  d_argtypes : list loc;                        (* observed argument_type 0 .. 12 *)
  d_queried : list reg;                         (* the registers the two predicates were asked about *)
  d_is_preserved : list (option bool);          (* observed, parallel to d_queried *)
  d_is_trashed : list (option bool);
  d_table : list reg;                           (* translator register table (verif_registers) *)
  d_seen : list reg;                            (* every scalar in lifted IL (temporaries included) *)
  d_stack_ops : list (string * list reg);       (* per lifted stack instruction (push/pop/call/ret/...): the
                                                   scalars its IL writes *)
  d_addr_widths : list Z;                       (* widths of load/store addresses in lifted IL *)
  d_probe : probe;                              (* byte order in which the translator decodes *)
  d_elf : Z * endian;                           (* (e_machine, EI_DATA) of the header given to the loader *)
  d_loader : option (string * endian)           (* name / endian of the architecture the loader picked *)
}.

(* ---------------------------------------------------------------- equality tests *)
Definition reg_eqb (a b : reg) : bool := String.eqb (fst a) (fst b) && Z.eqb (snd a) (snd b).
Lemma reg_eqb_eq a b : reg_eqb a b = true <-> a = b.
Proof.
  destruct a as [n w], b as [m v]; unfold reg_eqb; cbn [fst snd].
  rewrite andb_true_iff, String.eqb_eq, Z.eqb_eq. split; [intros [-> ->]; reflexivity|intros H; inversion H; auto].
Qed.

Definition loc_eqb (a b : loc) : bool :=
  match a, b with
  | LReg r, LReg s => reg_eqb r s
  | LStack x, LStack y => Z.eqb x y
  | _, _ => false
  end.
Lemma loc_eqb_eq a b : loc_eqb a b = true <-> a = b.
Proof.
  destruct a as [r|x], b as [s|y]; cbn; try (split; congruence).
  - rewrite reg_eqb_eq; split; congruence.
  - rewrite Z.eqb_eq; split; congruence.
Qed.

Fixpoint list_eqb {A B} (eqb : A -> B -> bool) (l : list A) (m : list B) : bool :=
  match l, m with
  | [], [] => true
  | a :: l', b :: m' => eqb a b && list_eqb eqb l' m'
  | _, _ => false
  end.
Lemma list_eqb_eq {A} (eqb : A -> A -> bool) :
  (forall a b, eqb a b = true <-> a = b) -> forall l m, list_eqb eqb l m = true <-> l = m.
Proof.
  intros H l; induction l as [|a l IH]; intros [|b m]; cbn; try (split; congruence).
  rewrite andb_true_iff, H, IH. split; [intros [-> ->]; reflexivity|intros E; inversion E; auto].
Qed.

Definition optb_eqb (a b : option bool) : bool :=
  match a, b with
  | Some x, Some y => Bool.eqb x y
  | None, None => true
  | _, _ => false
  end.

Definition mem_reg (r : reg) (l : list reg) : bool := existsb (reg_eqb r) l.
Lemma mem_reg_In r l : mem_reg r l = true <-> In r l.
Proof.
  unfold mem_reg; rewrite existsb_exists; split.
  - intros [x [Hin He]]. apply reg_eqb_eq in He; subst; exact Hin.
  - intros Hin; exists r; split; [exact Hin|apply reg_eqb_eq; reflexivity].
Qed.

(* a register of that NAME (any width) is in the list *)
Definition name_in (n : string) (l : list reg) : bool := existsb (fun r => String.eqb n (fst r)) l.
Lemma name_in_In n l : name_in n l = true <-> exists w, In (n, w) l.
Proof.
  unfold name_in; rewrite existsb_exists; split.
  - intros [[m w] [Hin He]]. cbn in He. apply String.eqb_eq in He; subst. exists w; exact Hin.
  - intros [w Hin]. exists (n, w); split; [exact Hin|cbn; apply String.eqb_refl].
Qed.

Definition mem_str (n : string) (l : list string) : bool := existsb (String.eqb n) l.
Lemma mem_str_In n l : mem_str n l = true <-> In n l.
Proof.
  unfold mem_str; rewrite existsb_exists; split.
  - intros [x [Hin He]]. apply String.eqb_eq in He; subst; exact Hin.
  - intros Hin; exists n; split; [exact Hin|apply String.eqb_refl].
Qed.

(* ---------------------------------------------------------------- model of the query functions *)
(* usize arithmetic: a debug build panics on overflow *)
Definition usize_max : Z := 18446744073709551615.
Definition usz (z : Z) : res Z := if z <=? usize_max then Ok z else Panic.

(* CallingConvention::argument_type *)
Definition argument_type (c : cc) (n : nat) : res loc :=
  if (List.length (args c) <=? n)%nat then
    m <- usz (stack_len c * Z.of_nat (n - List.length (args c))) ;;
    o <- usz (stack_off c + m) ;;
    Ok (LStack o)
  else
    r <- res_of_option (nth_error (args c) n) ;;      (* self.argument_registers[n] *)
    Ok (LReg r).

(* CallingConvention::is_preserved / is_trashed *)
Definition is_preserved (c : cc) (r : reg) : option bool :=
  if mem_reg r (preserved c) then Some true
  else if mem_reg r (trashed c) then Some false
  else None.
Definition is_trashed (c : cc) (r : reg) : option bool :=
  if mem_reg r (trashed c) then Some true
  else if mem_reg r (preserved c) then Some false
  else None.

(* compiler-generated temporaries, by pattern: `temp_<n>` (ControlFlowGraph::temp, Scalar::temp) and
   `temp_0x<address>_<k>` (x86 semantics) *)
Definition is_temp (n : string) : bool := String.prefix "temp_" n.

(* every register the table names *)
Definition named_regs (c : cc) : list reg :=
  args c ++ preserved c ++ trashed c ++ ret_reg c :: match ret_addr c with LReg r => [r] | LStack _ => [] end.

(* the scalars the translator produces: its register table and what was seen in lifted IL *)
Definition universe (t : dump) : list reg := d_table t ++ d_seen t.

(* the tie: the observed answers are what the model computes from the dumped fields *)
Definition res_loc_eqb (a : res loc) (b : loc) : bool :=
  match a with Ok x => loc_eqb x b | _ => false end.
Definition queries_tie (t : dump) : bool :=
  list_eqb res_loc_eqb (map (argument_type (d_cc t)) (seq 0 (List.length (d_argtypes t)))) (d_argtypes t)
  && Nat.eqb (List.length (d_argtypes t)) 13
  && list_eqb optb_eqb (map (is_preserved (d_cc t)) (d_queried t)) (d_is_preserved t)
  && list_eqb optb_eqb (map (is_trashed (d_cc t)) (d_queried t)) (d_is_trashed t)
  && forallb (fun r => mem_reg r (d_queried t)) (d_sp t :: named_regs (d_cc t) ++ d_table t).
