(* Arch/C20Check.v -- the per-case checker evaluated in the kernel by the C20 case files.
   One case per (architecture, clause) over the tables REGENERATED from the code by harness/src/bin/c20.rs,
   plus one coverage case.   fst = tie: the observed answers of argument_type / is_preserved / is_trashed
   are what the model of those functions computes from the dumped fields (for the clauses that speak about
   them);  snd = oracle: the clause of C20 holds of the dumped tables ([clause_ok], from CcSpec). *)
From Coq Require Import ZArith List Bool String.
From Falcon Require Import Base.Res Arch.Descr Arch.CcSpec Arch.CcOk.
Import ListNotations.

Inductive case :=
| K (k : clause) (t : dump)
| KCoverage (names : list string).

Definition uses_queries (k : clause) : bool :=
  match k with CStackStride | CDisjoint | CSpPreserved | CClasses | CNamed => true | _ => false end.

Definition ck (c : case) : bool * bool :=
  match c with
  | K k t =>
      (if uses_queries k then queries_tie t else true,
       match abi_of (d_name t) with Some a => clause_ok a t k | None => false end)
  | KCoverage names => (true, coverage_ok names)
  end.

(* all clause cases of one architecture pass  <->  cc_ok *)
Lemma ck_all_cc_ok t :
  forallb (fun k => snd (ck (K k t))) all_clauses = true <-> cc_ok t = true.
Proof.
  unfold cc_ok, ck; cbn [snd]. destruct (abi_of (d_name t)) as [a|]; [tauto|].
  cbn. split; discriminate.
Qed.
