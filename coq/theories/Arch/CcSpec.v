(* Arch/CcSpec.v -- TRUSTED TRANSCRIPTION of the platform ABI facts C20 refers to.  Nothing here is
   derived from falcon's sources; register names are the assembler names (as capstone / bad64 and
   hence the translators spell them: "$fp" for MIPS $30, "r1" for the PPC stack pointer).
   Registers the documents leave to the platform, or whose status across a call is a matter of
   reading (link registers, global pointers), are listed under [a_either]: a table may put them in
   either set or in none. *)
From Coq Require Import ZArith List String.
From Falcon Require Import Arch.Descr.
Import ListNotations.
Local Open Scope Z_scope.
Local Open Scope string_scope.

Inductive aloc := AReg (n : string) | AStack (off : Z).

Record abi := {
  a_em : Z;                       (* ELF e_machine *)
  a_endian : endian;              (* data byte order *)
  a_insn_endian : endian;         (* byte order of instruction words / immediates in the code stream *)
  a_word : Z;                     (* natural word, bits *)
  a_sp : string;                  (* stack pointer *)
  a_args : list string;           (* integer argument registers, in order *)
  a_ret : string;                 (* integer return-value register *)
  a_retaddr : aloc;               (* where the return address is at function entry *)
  a_stack_base : Z;               (* offset (bytes) from the stack pointer at entry of the first stack argument *)
  a_callee_saved : list string;   (* preserved across calls ("belong to the caller", nonvolatile) *)
  a_caller_saved : list string;   (* scratch / volatile *)
  a_either : list string;         (* see above *)
  (* NOT from the ABI documents: the closed vocabulary of scalars, other than the translator's register
     table and `temp_*` temporaries, that falcon's lifter for this architecture may emit (flags, special
     registers kept outside the table, latches).  Any other scalar in lifted IL fails C20. *)
  a_extras : list reg
}.

Definition flags1 (l : list string) : list reg := map (fun n => (n, 1)) l.

(* System V ABI, Intel386 Architecture Processor Supplement (4th ed.), ch. 3 "Function Calling Sequence":
   "Registers and the Stack Frame": %ebp %ebx %edi %esi %esp belong to the calling function; %eax %ecx %edx
   are scratch; %eax holds the return value.  Figure 3-14 "Standard Stack Frame": at entry 0(%esp) is the
   return address and 4(%esp) the first argument word; all arguments are passed on the stack in words. *)
Definition abi_i386 : abi := {|
  a_em := 3; a_endian := Little; a_insn_endian := Little; a_word := 32; a_sp := "esp";
  a_args := []; a_ret := "eax"; a_retaddr := AStack 0; a_stack_base := 4;
  a_callee_saved := ["ebx"; "esi"; "edi"; "ebp"; "esp"];
  a_caller_saved := ["eax"; "ecx"; "edx"];
  a_either := [];
  a_extras := flags1 ["CF"; "PF"; "AF"; "ZF"; "SF"; "IF"; "DF"; "OF"] |}.

(* System V ABI, AMD64 Architecture Processor Supplement (v1.0): 3.2.1 "Registers" (%rbp %rbx %r12-%r15
   belong to the caller, the rest to the callee), Figure 3.4 "Register Usage"; 3.2.3 "Parameter Passing"
   (INTEGER class uses %rdi %rsi %rdx %rcx %r8 %r9 in that order; returned in %rax); Figure 3.3 "Stack Frame
   with Base Pointer": at entry 0(%rsp) return address, 8(%rsp) memory argument eightbyte 0. *)
Definition abi_amd64 : abi := {|
  a_em := 62; a_endian := Little; a_insn_endian := Little; a_word := 64; a_sp := "rsp";
  a_args := ["rdi"; "rsi"; "rdx"; "rcx"; "r8"; "r9"]; a_ret := "rax"; a_retaddr := AStack 0; a_stack_base := 8;
  a_callee_saved := ["rbx"; "rbp"; "r12"; "r13"; "r14"; "r15"; "rsp"];
  a_caller_saved := ["rax"; "rcx"; "rdx"; "rsi"; "rdi"; "r8"; "r9"; "r10"; "r11";
                     "xmm0"; "xmm1"; "xmm2"; "xmm3"; "xmm4"; "xmm5"; "xmm6"; "xmm7";
                     "xmm8"; "xmm9"; "xmm10"; "xmm11"; "xmm12"; "xmm13"; "xmm14"; "xmm15"];
  a_either := ["fs_base"; "gs_base"];
  a_extras := flags1 ["CF"; "PF"; "AF"; "ZF"; "SF"; "IF"; "DF"; "OF"] |}.

(* System V ABI, MIPS RISC Processor Supplement (3rd ed.), ch. 3: Figure 3-18 "Processor Registers"
   ($2-$3 results, $4-$7 arguments, $8-$15 $24 $25 temporaries, $16-$23 and $30 saved, $29 stack pointer,
   $31 return address); "Argument Passing": the first four words in $4-$7, the caller always reserves the
   16-byte home area, further words from 16($sp) on.  $28 (gp) is saved or not depending on PIC; $26/$27 are
   the kernel's; jal overwrites $31. *)
Definition abi_mips_o32 (e : endian) : abi := {|
  a_em := 8; a_endian := e; a_insn_endian := e; a_word := 32; a_sp := "$sp";
  a_args := ["$a0"; "$a1"; "$a2"; "$a3"]; a_ret := "$v0"; a_retaddr := AReg "$ra"; a_stack_base := 16;
  a_callee_saved := ["$s0"; "$s1"; "$s2"; "$s3"; "$s4"; "$s5"; "$s6"; "$s7"; "$fp"; "$sp"];
  a_caller_saved := ["$at"; "$v0"; "$v1"; "$a0"; "$a1"; "$a2"; "$a3";
                     "$t0"; "$t1"; "$t2"; "$t3"; "$t4"; "$t5"; "$t6"; "$t7"; "$t8"; "$t9"];
  a_either := ["$zero"; "$k0"; "$k1"; "$gp"; "$ra"];
  (* HI / LO, and the branch-decision latch of the delay-slot translation *)
  a_extras := [("$hi", 32); ("$lo", 32); ("branching_condition", 1)] |}.

(* System V ABI, PowerPC Processor Supplement (1995), ch. 3: "Registers" (Figure 3-16: r0 r3-r12 volatile,
   r1 stack frame pointer, r2 reserved for system use, r13 small data area pointer, r14-r31 nonvolatile, LR CTR
   volatile); "Parameter Passing" (r3-r10, result in r3); "The Stack Frame" (Figure 3-17: back chain word at
   0(SP), LR save word at 4(SP), the parameter list area starts at 8(SP) of the caller's frame). *)
Definition abi_ppc32 : abi := {|
  a_em := 20; a_endian := Big; a_insn_endian := Big; a_word := 32; a_sp := "r1";
  a_args := ["r3"; "r4"; "r5"; "r6"; "r7"; "r8"; "r9"; "r10"]; a_ret := "r3"; a_retaddr := AReg "lr";
  a_stack_base := 8;
  a_callee_saved := ["r1"; "r14"; "r15"; "r16"; "r17"; "r18"; "r19"; "r20"; "r21"; "r22"; "r23"; "r24";
                     "r25"; "r26"; "r27"; "r28"; "r29"; "r30"; "r31"];
  a_caller_saved := ["r0"; "r3"; "r4"; "r5"; "r6"; "r7"; "r8"; "r9"; "r10"; "r11"; "r12"];
  a_either := ["r2"; "r13"; "lr"; "ctr"];
  (* LR (kept outside PPC_REGISTERS), XER[CA], and the four bits of each CR field *)
  a_extras := ("lr", 32) :: ("carry", 1) ::
              flat_map (fun c => flags1 [c ++ "-lt"; c ++ "-gt"; c ++ "-eq"; c ++ "-so"])
                       ["cr0"; "cr1"; "cr2"; "cr3"; "cr4"; "cr5"; "cr6"; "cr7"] |}.

(* Procedure Call Standard for the Arm 64-bit Architecture (AAPCS64, IHI 0055): 6.1.1 "General-purpose
   registers" (r0-r7 parameter/result, r8 indirect result, r9-r15 temporary, r16 r17 IP0 IP1, r18 platform
   register, r19-r28 callee-saved, r29 FP, r30 LR, SP); 6.1.2 "SIMD and floating-point registers" (v0-v7
   parameters, v8-v15 callee-saved in their low 64 bits only, v16-v31 temporary); 6.4.2 "Parameter passing
   rules" (stage C: the NSAA starts at the SP of the call, each stacked argument takes a multiple of 8 bytes);
   6.5 result in r0.  A64 instructions are little-endian whatever the data byte order (Arm ARM, B2.6.2). *)
Definition abi_aapcs64 (e : endian) : abi := {|
  a_em := 183; a_endian := e; a_insn_endian := Little; a_word := 64; a_sp := "sp";
  a_args := ["x0"; "x1"; "x2"; "x3"; "x4"; "x5"; "x6"; "x7"]; a_ret := "x0"; a_retaddr := AReg "x30";
  a_stack_base := 0;
  a_callee_saved := ["x19"; "x20"; "x21"; "x22"; "x23"; "x24"; "x25"; "x26"; "x27"; "x28"; "x29"; "sp"];
  a_caller_saved := ["x0"; "x1"; "x2"; "x3"; "x4"; "x5"; "x6"; "x7"; "x8"; "x9"; "x10"; "x11"; "x12"; "x13";
                     "x14"; "x15"; "x16"; "x17";
                     "v0"; "v1"; "v2"; "v3"; "v4"; "v5"; "v6"; "v7";
                     "v16"; "v17"; "v18"; "v19"; "v20"; "v21"; "v22"; "v23"; "v24"; "v25"; "v26"; "v27";
                     "v28"; "v29"; "v30"; "v31"];
  a_either := ["x18"; "x30"; "v8"; "v9"; "v10"; "v11"; "v12"; "v13"; "v14"; "v15"];
  a_extras := flags1 ["n"; "z"; "c"; "v"] |}.

(* the seven supported architectures, by the name their descriptor publishes *)
Definition seven : list string := ["x86"; "amd64"; "mips"; "mipsel"; "ppc"; "aarch64"; "aarch64eb"].

Definition abi_of (name : string) : option abi :=
  if String.eqb name "x86" then Some abi_i386
  else if String.eqb name "amd64" then Some abi_amd64
  else if String.eqb name "mips" then Some (abi_mips_o32 Big)
  else if String.eqb name "mipsel" then Some (abi_mips_o32 Little)
  else if String.eqb name "ppc" then Some abi_ppc32
  else if String.eqb name "aarch64" then Some (abi_aapcs64 Little)
  else if String.eqb name "aarch64eb" then Some (abi_aapcs64 Big)
  else None.
