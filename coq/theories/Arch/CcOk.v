(* Arch/CcOk.v -- the executable clause checks of C20 ([clause_ok], [cc_ok]), the statement of C20 as a
   Prop over the dumped tables ([C20_statement], written from the property text), and the soundness
   theorem [cc_ok_sound : cc_ok t = true -> exists a, abi_of (d_name t) = Some a /\ C20_statement a t]. *)
From Coq Require Import ZArith List Bool String Lia.
From Falcon Require Import Base.Res Arch.Descr Arch.CcSpec.
Import ListNotations.
Local Open Scope Z_scope.

(* one clause of the property per constructor; a case of the check is (architecture, clause) *)
Inductive clause :=
| CDescr          (* endian / word size / stack pointer are the platform's; the loader picks this descriptor *)
| CLifted         (* ... and are those the lifted code uses (sp scalar, address width, decode byte order); lifted
                     IL mentions only table registers, the allow-listed extras and temp_* temporaries *)
| CStackOps       (* the IL of every push / pop / call / ret / frame instruction writes the published stack pointer *)
| CNamed          (* every register the table names is a scalar the translator produces, with that width *)
| CArgs           (* argument registers in ABI order *)
| CRet            (* return-value register *)
| CRetAddr        (* where the return address lives *)
| CStackStride    (* stack arguments one machine word apart *)
| CStackBase      (* first stack argument where the ABI puts it *)
| CDisjoint       (* no register both preserved and trashed *)
| CSpPreserved    (* the stack pointer is preserved *)
| CClasses.       (* preserved registers are callee-saved, trashed ones caller-saved in the ABI *)

Definition all_clauses : list clause :=
  [CDescr; CLifted; CStackOps; CNamed; CArgs; CRet; CRetAddr; CStackStride; CStackBase; CDisjoint; CSpPreserved; CClasses].

Definition aloc_matches (w : Z) (a : aloc) (l : loc) : bool :=
  match a, l with
  | AReg n, LReg r => reg_eqb r (n, w)
  | AStack o, LStack p => Z.eqb o p
  | _, _ => false
  end.

(* the stack entries the table's own fields and the word size predict for argument_type 0..len-1 *)
Definition expected_argtypes (c : cc) (word : Z) (len : nat) : list loc :=
  map (fun n => match nth_error (args c) n with
                | Some r => LReg r
                | None => LStack (stack_off c + Z.of_nat (n - List.length (args c)) * (word / 8))
                end) (seq 0 len).

Definition clause_ok (a : abi) (t : dump) (k : clause) : bool :=
  let c := d_cc t in
  match k with
  | CDescr =>
      endian_eqb (d_endian t) (a_endian a) && Z.eqb (d_word t) (a_word a)
      && reg_eqb (d_sp t) (a_sp a, a_word a)
      && Z.eqb (fst (d_elf t)) (a_em a) && endian_eqb (snd (d_elf t)) (a_endian a)
      && match d_loader t with
         | Some (n, e) => String.eqb n (d_name t) && endian_eqb e (snd (d_elf t))
         | None => false
         end
  | CLifted =>
      mem_reg (d_sp t) (d_table t) && mem_reg (d_sp t) (d_seen t)
      && negb (match d_addr_widths t with [] => true | _ => false end)
      && forallb (fun w => Z.eqb w (d_word t)) (d_addr_widths t)
      && probe_eqb (d_probe t) (probe_of (a_insn_endian a))
      && forallb (fun r => mem_reg r (d_table t) || mem_reg r (a_extras a) || is_temp (fst r)) (d_seen t)
  | CStackOps =>
      negb (match d_stack_ops t with [] => true | _ => false end)
      && forallb (fun o => mem_reg (d_sp t) (snd o)) (d_stack_ops t)
  | CNamed => forallb (fun r => mem_reg r (universe t)) (named_regs c)
  | CArgs => list_eqb reg_eqb (args c) (map (fun n => (n, a_word a)) (a_args a))
  | CRet => reg_eqb (ret_reg c) (a_ret a, a_word a)
  | CRetAddr => aloc_matches (a_word a) (a_retaddr a) (ret_addr c)
  | CStackStride =>
      Z.eqb (8 * stack_len c) (d_word t) && Z.eqb (d_word t) (a_word a)
      && list_eqb loc_eqb (d_argtypes t) (expected_argtypes c (d_word t) (List.length (d_argtypes t)))
  | CStackBase => Z.eqb (stack_off c) (a_stack_base a)
  | CDisjoint => forallb (fun r => negb (name_in (fst r) (trashed c))) (preserved c)
  | CSpPreserved => mem_reg (d_sp t) (preserved c)
  | CClasses =>
      forallb (fun r => mem_str (fst r) (a_callee_saved a) || mem_str (fst r) (a_either a)) (preserved c)
      && forallb (fun r => mem_str (fst r) (a_caller_saved a) || mem_str (fst r) (a_either a)) (trashed c)
  end.

Definition cc_ok (t : dump) : bool :=
  match abi_of (d_name t) with
  | Some a => forallb (clause_ok a t) all_clauses
  | None => false
  end.

(* ------------------------------------------------------------------------------------------------
   The statement of C20 for one architecture, as a proposition over its dumped tables and the ABI.
   ------------------------------------------------------------------------------------------------ *)
Definition named (c : cc) (r : reg) : Prop :=
  In r (args c) \/ In r (preserved c) \/ In r (trashed c) \/ r = ret_reg c \/ ret_addr c = LReg r.

Record C20_statement (a : abi) (t : dump) : Prop := {
  (* "the descriptors the framework publishes agree with one another ..." *)
  st_endian : d_endian t = a_endian a;
  st_word : d_word t = a_word a;
  st_sp : d_sp t = (a_sp a, d_word t);
  st_loader : d_elf t = (a_em a, a_endian a) /\ d_loader t = Some (d_name t, d_endian t);
  (* "... and with what its translator emits: the stack-pointer scalar, word size and endianness are
     those the lifted code uses" *)
  st_sp_emitted : In (d_sp t) (d_table t) /\ In (d_sp t) (d_seen t);
  st_addresses : d_addr_widths t <> [] /\ forall w, In w (d_addr_widths t) -> w = d_word t;
  st_decode_order : d_probe t = probe_of (a_insn_endian a);
  st_vocabulary : forall r, In r (d_seen t) ->
                  In r (d_table t) \/ In r (a_extras a) \/ is_temp (fst r) = true;
  st_stack_ops : d_stack_ops t <> [] /\
                 forall insn written, In (insn, written) (d_stack_ops t) -> In (d_sp t) written;
  (* "every register named by the default calling convention is a scalar the translator produces,
     with that width" *)
  st_named : forall r, named (d_cc t) r -> In r (universe t);
  (* "argument registers in order" -- also through the query function, for every index *)
  st_args : args (d_cc t) = map (fun n => (n, d_word t)) (a_args a);
  st_argument_register : forall n r, nth_error (args (d_cc t)) n = Some r ->
                                     argument_type (d_cc t) n = Ok (LReg r);
  (* "the return-value register, where the return address lives" *)
  st_ret : ret_reg (d_cc t) = (a_ret a, d_word t);
  st_retaddr : match a_retaddr a with
               | AReg n => ret_addr (d_cc t) = LReg (n, d_word t)
               | AStack o => ret_addr (d_cc t) = LStack o
               end;
  (* "stack-argument offsets of the machine's word size": the k-th stack argument is k words above
     the ABI's first stack slot, for every k (until usize overflows) *)
  st_stack_argument : forall k : nat,
      a_stack_base a + Z.of_nat k * (d_word t / 8) <= usize_max ->
      argument_type (d_cc t) (List.length (args (d_cc t)) + k) =
      Ok (LStack (a_stack_base a + Z.of_nat k * (d_word t / 8)));
  (* "no register both preserved and trashed" (by name, whatever the width) *)
  st_disjoint : forall n w w', In (n, w) (preserved (d_cc t)) -> In (n, w') (trashed (d_cc t)) -> False;
  (* "the stack pointer preserved" *)
  st_sp_preserved : is_preserved (d_cc t) (d_sp t) = Some true /\ is_trashed (d_cc t) (d_sp t) = Some false;
  (* "follows the platform ABI": what it calls preserved is callee-saved (or left open) there, what it
     calls trashed is caller-saved (or left open) *)
  st_classes : (forall r, In r (preserved (d_cc t)) -> In (fst r) (a_callee_saved a) \/ In (fst r) (a_either a))
               /\ (forall r, In r (trashed (d_cc t)) -> In (fst r) (a_caller_saved a) \/ In (fst r) (a_either a))
}.

(* ---------------------------------------------------------------- soundness *)
Lemma clause_of (a : abi) (t : dump) (k : clause) :
  forallb (clause_ok a t) all_clauses = true -> In k all_clauses -> clause_ok a t k = true.
Proof. intros H Hin. rewrite forallb_forall in H. apply H; exact Hin. Qed.

Lemma all_clauses_complete k : In k all_clauses.
Proof. destruct k; cbn; tauto. Qed.

Lemma argument_type_reg c n r : nth_error (args c) n = Some r -> argument_type c n = Ok (LReg r).
Proof.
  intros H. unfold argument_type.
  assert (Hlt : (n < List.length (args c))%nat) by (apply nth_error_Some; congruence).
  destruct (Nat.leb_spec (List.length (args c)) n) as [Hle|_]; [lia|].
  rewrite H. reflexivity.
Qed.

Lemma argument_type_stack c k :
  0 <= stack_len c -> 0 <= stack_off c ->
  stack_off c + stack_len c * Z.of_nat k <= usize_max ->
  argument_type c (List.length (args c) + k) = Ok (LStack (stack_off c + stack_len c * Z.of_nat k)).
Proof.
  intros Hl Ho Hb. unfold argument_type.
  destruct (Nat.leb_spec (List.length (args c)) (List.length (args c) + k)) as [_|Hlt]; [|lia].
  replace (List.length (args c) + k - List.length (args c))%nat with k by lia.
  unfold usz.
  assert (H1 : stack_len c * Z.of_nat k <= usize_max) by nia.
  destruct (Z.leb_spec (stack_len c * Z.of_nat k) usize_max) as [_|Hc]; [|lia].
  cbn [bind].
  destruct (Z.leb_spec (stack_off c + stack_len c * Z.of_nat k) usize_max) as [_|Hc]; [|lia].
  reflexivity.
Qed.

Lemma mem_true_is_preserved c r :
  mem_reg r (preserved c) = true -> name_in (fst r) (trashed c) = false ->
  is_preserved c r = Some true /\ is_trashed c r = Some false.
Proof.
  intros Hp Ht. unfold is_preserved, is_trashed. rewrite Hp.
  assert (Hm : mem_reg r (trashed c) = false).
  { destruct (mem_reg r (trashed c)) eqn:E; [|reflexivity].
    apply mem_reg_In in E. destruct r as [n w]. cbn [fst] in Ht.
    assert (Hn : name_in n (trashed c) = true) by (apply name_in_In; exists w; exact E).
    congruence. }
  rewrite Hm. split; reflexivity.
Qed.

Theorem cc_ok_sound (t : dump) :
  cc_ok t = true -> exists a, abi_of (d_name t) = Some a /\ C20_statement a t.
Proof.
  unfold cc_ok. destruct (abi_of (d_name t)) as [a|] eqn:Ha; [|discriminate].
  intros Hall. exists a; split; [reflexivity|].
  assert (HK : forall k, clause_ok a t k = true)
    by (intros k; apply (clause_of a t k Hall), all_clauses_complete).
  pose proof (HK CDescr) as HD. pose proof (HK CLifted) as HL. pose proof (HK CNamed) as HN.
  pose proof (HK CStackOps) as HSO.
  pose proof (HK CArgs) as HA. pose proof (HK CRet) as HR. pose proof (HK CRetAddr) as HRA.
  pose proof (HK CStackStride) as HS. pose proof (HK CStackBase) as HB. pose proof (HK CDisjoint) as HJ.
  pose proof (HK CSpPreserved) as HP. pose proof (HK CClasses) as HC.
  clear HK Hall.
  cbn [clause_ok] in *.
  (* CDescr *)
  repeat rewrite andb_true_iff in HD.
  destruct HD as [[[[[He Hw] Hsp] Hem] Hed] Hld].
  apply endian_eqb_eq in He. apply Z.eqb_eq in Hw. apply reg_eqb_eq in Hsp.
  apply Z.eqb_eq in Hem. apply endian_eqb_eq in Hed.
  (* CLifted *)
  repeat rewrite andb_true_iff in HL.
  destruct HL as [[[[[Hst Hss] Hne] Haw] Hpr] Hsw].
  apply mem_reg_In in Hst. apply mem_reg_In in Hss. apply probe_eqb_eq in Hpr.
  rewrite forallb_forall in Haw. rewrite forallb_forall in Hsw.
  (* CStackStride *)
  repeat rewrite andb_true_iff in HS. destruct HS as [[Hlen Hww] _].
  apply Z.eqb_eq in Hlen. apply Z.eqb_eq in HB.
  (* CDisjoint / CSpPreserved *)
  rewrite forallb_forall in HJ.
  constructor.
  - exact He.
  - exact Hw.
  - rewrite Hsp, Hw. reflexivity.
  - split.
    + destruct (d_elf t) as [m e]. cbn [fst snd] in *. subst. reflexivity.
    + destruct (d_loader t) as [[n e]|]; [|discriminate].
      apply andb_true_iff in Hld. destruct Hld as [Hn He'].
      apply String.eqb_eq in Hn. apply endian_eqb_eq in He'. subst n e. rewrite Hed, He. reflexivity.
  - split; assumption.
  - split.
    + destruct (d_addr_widths t); [discriminate|congruence].
    + intros w Hin. apply Haw in Hin. apply Z.eqb_eq in Hin. exact Hin.
  - exact Hpr.
  - intros r Hs. specialize (Hsw _ Hs). repeat rewrite orb_true_iff in Hsw.
    destruct Hsw as [[Hm|Hm]|Hm].
    + left. apply mem_reg_In; exact Hm.
    + right; left. apply mem_reg_In; exact Hm.
    + right; right. exact Hm.
  - apply andb_true_iff in HSO. destruct HSO as [Hne' Hall']. split.
    + destruct (d_stack_ops t); [discriminate|congruence].
    + intros insn written Hin. rewrite forallb_forall in Hall'. specialize (Hall' _ Hin).
      cbn [snd] in Hall'. apply mem_reg_In; exact Hall'.
  - intros r Hr. rewrite forallb_forall in HN. apply mem_reg_In. apply HN.
    unfold named_regs. unfold named in Hr.
    destruct Hr as [H|[H|[H|[H|H]]]].
    + apply in_or_app; left; exact H.
    + apply in_or_app; right; apply in_or_app; left; exact H.
    + apply in_or_app; right; apply in_or_app; right; apply in_or_app; left; exact H.
    + apply in_or_app; right; apply in_or_app; right; apply in_or_app; right. left. symmetry; exact H.
    + apply in_or_app; right; apply in_or_app; right; apply in_or_app; right. right. rewrite H. left; reflexivity.
  - apply (list_eqb_eq reg_eqb reg_eqb_eq) in HA. rewrite HA, Hw. reflexivity.
  - intros n r Hn. apply argument_type_reg; exact Hn.
  - apply reg_eqb_eq in HR. rewrite HR, Hw. reflexivity.
  - unfold aloc_matches in HRA. destruct (a_retaddr a) as [n|o], (ret_addr (d_cc t)) as [r|p]; try discriminate.
    + apply reg_eqb_eq in HRA. rewrite HRA, Hw. reflexivity.
    + apply Z.eqb_eq in HRA. rewrite HRA. reflexivity.
  - intros k Hk.
    assert (Hdiv : d_word t / 8 = stack_len (d_cc t)).
    { rewrite <- Hlen. rewrite Z.mul_comm. apply Z.div_mul. lia. }
    assert (Hw0 : 0 <= a_word a) by (unfold abi_of in Ha;
      repeat match type of Ha with (if ?b then _ else _) = _ => destruct b end;
      inversion Ha; subst a; cbn; lia).
    assert (Hb0 : 0 <= a_stack_base a) by (unfold abi_of in Ha;
      repeat match type of Ha with (if ?b then _ else _) = _ => destruct b end;
      inversion Ha; subst a; cbn; lia).
    assert (Hl0 : 0 <= stack_len (d_cc t)) by lia.
    rewrite Hdiv in *. rewrite <- HB in *.
    rewrite (Z.mul_comm (Z.of_nat k)) in *.
    apply argument_type_stack; assumption.
  - intros n w w' Hp Ht. specialize (HJ _ Hp). cbn [fst] in HJ. apply negb_true_iff in HJ.
    assert (Hx : name_in n (trashed (d_cc t)) = true) by (apply name_in_In; exists w'; exact Ht). congruence.
  - apply mem_true_is_preserved; [exact HP|].
    apply mem_reg_In in HP. specialize (HJ _ HP). apply negb_true_iff in HJ. exact HJ.
  - apply andb_true_iff in HC. destruct HC as [H1 H2].
    rewrite forallb_forall in H1. rewrite forallb_forall in H2. split.
    + intros r Hr. specialize (H1 _ Hr). apply orb_true_iff in H1. destruct H1 as [H|H]; apply mem_str_In in H; tauto.
    + intros r Hr. specialize (H2 _ Hr). apply orb_true_iff in H2. destruct H2 as [H|H]; apply mem_str_In in H; tauto.
Qed.

(* the seven architectures are all there *)
Definition coverage_ok (names : list string) : bool := list_eqb String.eqb names seven.
Lemma coverage_ok_sound names : coverage_ok names = true -> names = seven.
Proof. apply (list_eqb_eq String.eqb String.eqb_eq). Qed.

(* ---------------------------------------------------------------- no false alarm (partial completeness)
   Ten of the twelve clause checks are implied by their part of [C20_statement]: on tables for which
   the statement holds these checks cannot fail.  (The remaining two -- CStackStride, CStackBase --
   compare the dumped query results [d_argtypes] with the table as well; their converse is open.) *)
Definition iff_clauses : list clause :=
  [CDescr; CLifted; CStackOps; CArgs; CRet; CRetAddr; CDisjoint; CClasses; CNamed; CSpPreserved].

Lemma forallb_intro {A} (f : A -> bool) l : (forall x, In x l -> f x = true) -> forallb f l = true.
Proof. intros H. apply forallb_forall. exact H. Qed.

Theorem clause_complete_partial (a : abi) (t : dump) (k : clause) :
  C20_statement a t -> In k iff_clauses -> clause_ok a t k = true.
Proof.
  intros St Hin.
  destruct St as [Hend Hword Hsp [Helf Hld] [Hspt Hsps] [Hne Haw] Hprobe Hvoc [Hso Hsow] Hnamed Hargs _ Hret Hra _
                  Hdis [Hspp _] [Hpre Htr]].
  assert (Eb : forall e, endian_eqb e e = true) by (intros e; apply endian_eqb_eq; reflexivity).
  assert (Rb : forall r, reg_eqb r r = true) by (intros r; apply reg_eqb_eq; reflexivity).
  cbn in Hin.
  destruct Hin as [<-|[<-|[<-|[<-|[<-|[<-|[<-|[<-|[<-|[<-|[]]]]]]]]]]]; cbn [clause_ok].
  - (* CDescr *)
    rewrite Hend, Hword, Hsp, Helf, Hld. cbn [fst snd]. rewrite Hword.
    rewrite Eb, Z.eqb_refl, Rb, Z.eqb_refl, String.eqb_refl, Hend, Eb. reflexivity.
  - (* CLifted *)
    rewrite (proj2 (mem_reg_In _ _) Hspt), (proj2 (mem_reg_In _ _) Hsps), Hprobe.
    rewrite (proj2 (probe_eqb_eq _ _) eq_refl).
    rewrite (forallb_intro _ _ (fun w Hw => proj2 (Z.eqb_eq _ _) (Haw w Hw))).
    rewrite forallb_intro.
    + destruct (d_addr_widths t); [congruence|reflexivity].
    + intros r Hr. destruct (Hvoc r Hr) as [H|[H|H]].
      * rewrite (proj2 (mem_reg_In _ _) H). reflexivity.
      * rewrite (proj2 (mem_reg_In _ _) H). apply orb_true_iff; left; apply orb_true_r.
      * rewrite H. apply orb_true_r.
  - (* CStackOps *)
    rewrite forallb_intro.
    + destruct (d_stack_ops t); [congruence|reflexivity].
    + intros [i wr] Ho. apply mem_reg_In. cbn [snd]. exact (Hsow i wr Ho).
  - (* CArgs *)
    rewrite Hargs, Hword. apply (list_eqb_eq reg_eqb reg_eqb_eq). reflexivity.
  - (* CRet *)
    rewrite Hret, Hword. apply Rb.
  - (* CRetAddr *)
    destruct (a_retaddr a) as [n|o]; rewrite Hra; cbn [aloc_matches]; [rewrite Hword; apply Rb|apply Z.eqb_refl].
  - (* CDisjoint *)
    apply forallb_intro. intros [n w] Hp. cbn [fst].
    destruct (name_in n (trashed (d_cc t))) eqn:E; [|reflexivity].
    apply name_in_In in E. destruct E as [w' Hw']. exfalso. exact (Hdis n w w' Hp Hw').
  - (* CClasses *)
    rewrite !forallb_intro; [reflexivity| |].
    + intros r Hr. destruct (Htr r Hr) as [H|H]; apply (proj2 (mem_str_In _ _)) in H; rewrite H;
        [reflexivity|apply orb_true_r].
    + intros r Hr. destruct (Hpre r Hr) as [H|H]; apply (proj2 (mem_str_In _ _)) in H; rewrite H;
        [reflexivity|apply orb_true_r].
  - (* CNamed *)
    apply forallb_intro. intros r Hr. apply mem_reg_In. apply Hnamed. unfold named.
    unfold named_regs in Hr. rewrite !in_app_iff in Hr.
    destruct Hr as [H|[H|[H|[H|H]]]]; [tauto|tauto|tauto|right; right; right; left; congruence|].
    destruct (ret_addr (d_cc t)) as [r'|o]; cbn in H; [|contradiction].
    destruct H as [H|[]]. right; right; right; right. congruence.
  - (* CSpPreserved *)
    unfold is_preserved in Hspp.
    destruct (mem_reg (d_sp t) (preserved (d_cc t))); [reflexivity|].
    destruct (mem_reg (d_sp t) (trashed (d_cc t))); discriminate.
Qed.

(* CStackBase: from the statement's [st_stack_argument] at k = 0, when the ABI's first stack slot fits a usize
   (it is 0, 4, 8 or 16 in the five ABIs of CcSpec.v) *)
Theorem clause_complete_stack_base (a : abi) (t : dump) :
  C20_statement a t -> a_stack_base a <= usize_max -> clause_ok a t CStackBase = true.
Proof.
  intros St Hb. cbn [clause_ok]. apply Z.eqb_eq.
  pose proof (st_stack_argument a t St 0%nat) as H.
  cbn [Z.of_nat] in H. rewrite Z.mul_0_l, Z.add_0_r, Nat.add_0_r in H. specialize (H Hb).
  unfold argument_type in H. rewrite Nat.leb_refl, Nat.sub_diag in H.
  cbn [Z.of_nat] in H. rewrite Z.mul_0_r in H. unfold usz in H.
  change (0 <=? usize_max) with true in H. cbn [bind] in H. rewrite Z.add_0_r in H.
  destruct (stack_off (d_cc t) <=? usize_max); cbn [bind] in H; [|discriminate].
  congruence.
Qed.

(* CStackStride: the check also compares the dumped answers [d_argtypes] with the table, so its converse needs the
   tie of those answers to the model ([queries_tie], checked each run) besides the statement; the word size must be
   a whole number of bytes (32 or 64 in the five ABIs) and the second stack slot must fit a usize *)
Lemma argument_type_expected c word i x :
  stack_len c = word / 8 -> argument_type c i = Ok x ->
  x = match nth_error (args c) i with
      | Some r => LReg r
      | None => LStack (stack_off c + Z.of_nat (i - List.length (args c)) * (word / 8))
      end.
Proof.
  intros Hl H. unfold argument_type in H.
  destruct (Nat.leb_spec (List.length (args c)) i) as [Hle|Hlt].
  - assert (Hn : nth_error (args c) i = None) by (apply nth_error_None; exact Hle). rewrite Hn.
    unfold usz in H.
    destruct (stack_len c * Z.of_nat (i - List.length (args c)) <=? usize_max); cbn [bind] in H; [|discriminate].
    destruct (stack_off c + stack_len c * Z.of_nat (i - List.length (args c)) <=? usize_max); cbn [bind] in H;
      [|discriminate].
    inversion H. rewrite Hl. f_equal. f_equal. apply Z.mul_comm.
  - destruct (nth_error (args c) i) as [r|] eqn:E.
    + cbn in H. congruence.
    + apply nth_error_None in E. lia.
Qed.

Lemma argtypes_expected c word (s : list nat) : forall l,
  stack_len c = word / 8 ->
  list_eqb res_loc_eqb (map (argument_type c) s) l = true ->
  list_eqb loc_eqb l
    (map (fun n => match nth_error (args c) n with
                   | Some r => LReg r
                   | None => LStack (stack_off c + Z.of_nat (n - List.length (args c)) * (word / 8))
                   end) s) = true.
Proof.
  induction s as [|i s IH]; intros [|x l] Hl H; cbn in *; try discriminate; [reflexivity|].
  apply andb_true_iff in H. destruct H as [H1 H2].
  apply andb_true_iff. split; [|apply IH; assumption].
  unfold res_loc_eqb in H1. destruct (argument_type c i) as [y| |] eqn:E; try discriminate.
  apply loc_eqb_eq in H1. subst y. apply loc_eqb_eq.
  exact (argument_type_expected c word i x Hl E).
Qed.

Theorem clause_complete_stack_stride (a : abi) (t : dump) :
  C20_statement a t -> queries_tie t = true ->
  a_word a mod 8 = 0 -> a_stack_base a + a_word a / 8 <= usize_max -> 0 <= a_word a / 8 ->
  clause_ok a t CStackStride = true.
Proof.
  intros St Htie Hm Hb Hw8.
  pose proof (st_word a t St) as Hword.
  assert (Hb0 : a_stack_base a <= usize_max) by lia.
  pose proof (clause_complete_stack_base a t St Hb0) as Hbase. cbn [clause_ok] in Hbase. apply Z.eqb_eq in Hbase.
  pose proof (st_stack_argument a t St 1%nat) as H1.
  rewrite Hword in H1. change (Z.of_nat 1) with 1 in H1. rewrite Z.mul_1_l in H1. specialize (H1 Hb).
  assert (Hlen : stack_len (d_cc t) = a_word a / 8).
  { unfold argument_type in H1.
    destruct (Nat.leb_spec (List.length (args (d_cc t))) (List.length (args (d_cc t)) + 1)) as [_|Hc]; [|lia].
    replace (List.length (args (d_cc t)) + 1 - List.length (args (d_cc t)))%nat with 1%nat in H1 by lia.
    change (Z.of_nat 1) with 1 in H1. rewrite Z.mul_1_r in H1. unfold usz in H1.
    destruct (stack_len (d_cc t) <=? usize_max); cbn [bind] in H1; [|discriminate].
    destruct (stack_off (d_cc t) + stack_len (d_cc t) <=? usize_max); cbn [bind] in H1; [|discriminate].
    inversion H1. lia. }
  cbn [clause_ok]. rewrite Hword, Z.eqb_refl, Hlen.
  assert (H8 : 8 * (a_word a / 8) = a_word a).
  { pose proof (Z.div_mod (a_word a) 8 ltac:(lia)) as Hd. lia. }
  rewrite H8, Z.eqb_refl. cbn [andb].
  unfold queries_tie in Htie. repeat (apply andb_true_iff in Htie; destruct Htie as [Htie ?]).
  unfold expected_argtypes. apply argtypes_expected; assumption.
Qed.

(* the five ABIs of CcSpec.v meet the side conditions *)
Lemma abi_of_side n a : abi_of n = Some a ->
  a_word a mod 8 = 0 /\ a_stack_base a + a_word a / 8 <= usize_max /\ 0 <= a_word a / 8.
Proof.
  intros Ha. unfold abi_of in Ha.
  repeat match type of Ha with (if ?b then _ else _) = _ => destruct b end;
    inversion Ha; subst a; vm_compute; repeat split; congruence.
Qed.

(* completeness of the whole checker (no false alarm): tables of a supported architecture that satisfy the
   statement of C20, and whose dumped query answers are the model's ([queries_tie], a separate case of every
   run), pass every clause check *)
Theorem cc_ok_complete (t : dump) (a : abi) :
  abi_of (d_name t) = Some a -> C20_statement a t -> queries_tie t = true -> cc_ok t = true.
Proof.
  intros Ha St Htie. unfold cc_ok. rewrite Ha. apply forallb_forall. intros k _.
  destruct (abi_of_side _ _ Ha) as [Hm [Hb Hw]].
  destruct k; try (apply clause_complete_partial; [exact St|cbn; tauto]).
  - apply clause_complete_stack_stride; assumption.
  - apply clause_complete_stack_base; [exact St|lia].
Qed.

Lemma coverage_ok_complete names : names = seven -> coverage_ok names = true.
Proof. intros ->. vm_compute. reflexivity. Qed.
